(* Proofs about Container/JsonFloat.v (the orjson model with finite binary64 floats): the round trip
   loads (dumps v) = v for every well-formed value (floats compared bit for bit, so -0.0 comes back as -0.0), also with
   trailing whitespace; the dumped text holds no control character, is not empty, is valid UTF-8.
   Reused: JsonProofs.v (UTF-8, strings, integers), FloatTextProofs.v / FloatTextShortest.v (the digits of a float
   always exist and convert back). *)
From Coq Require Import List ZArith NArith Bool Lia Arith Setoid.
From RxVerif Require Import Container.IntText Container.IntTextProofs.
From RxVerif Require Import Container.FloatText Container.FloatTextProofs Container.FloatTextShortest.
From RxVerif Require Import Container.Json Container.JsonProofs Container.JsonFloat.
Import ListNotations.
Local Open Scope Z_scope.

(* ---------- induction principle ---------- *)
Fixpoint jvf_ind' (P : jvf -> Prop)
  (Hnull : P FNull) (Hbool : forall b, P (FBool b)) (Hint : forall z, P (FInt z)) (Hfloat : forall x, P (FFloat x))
  (Hstr : forall s, P (FStr s))
  (Harr : forall l, Forall P l -> P (FArr l))
  (Hobj : forall m, Forall (fun kv => P (snd kv)) m -> P (FObj m))
  (v : jvf) {struct v} : P v :=
  match v with
  | FNull => Hnull
  | FBool b => Hbool b
  | FInt z => Hint z
  | FFloat x => Hfloat x
  | FStr s => Hstr s
  | FArr l =>
      Harr l ((fix go (l : list jvf) : Forall P l :=
                 match l with
                 | [] => Forall_nil P
                 | x :: t => Forall_cons x (jvf_ind' P Hnull Hbool Hint Hfloat Hstr Harr Hobj x) (go t)
                 end) l)
  | FObj m =>
      Hobj m ((fix go (m : list (list Z * jvf)) : Forall (fun kv => P (snd kv)) m :=
                 match m with
                 | [] => Forall_nil _
                 | kv :: t =>
                     Forall_cons kv
                       (match kv as kv0 return P (snd kv0) with
                        | (k, x) => jvf_ind' P Hnull Hbool Hint Hfloat Hstr Harr Hobj x
                        end) (go t)
                 end) m)
  end.

(* ---------- digits ---------- *)
Definition nondigit (rest : list Z) : Prop :=
  match rest with [] => True | x :: _ => ~ 48 <= x <= 57 end.

Lemma jis_digit_true : forall c, digit_char c -> Json.is_digit c = true.
Proof. intros c [H1 H2]. unfold Json.is_digit. apply andb_true_intro. split; apply Z.leb_le; assumption. Qed.
Lemma jis_digit_false : forall c, ~ 48 <= c <= 57 -> Json.is_digit c = false.
Proof. intros c H. unfold Json.is_digit. apply andb_false_iff. rewrite !Z.leb_gt. lia. Qed.
Lemma iis_digit_false : forall c, ~ 48 <= c <= 57 -> IntText.is_digit c = false.
Proof. intros c H. unfold IntText.is_digit. apply andb_false_iff. rewrite !Z.leb_gt. lia. Qed.

Lemma nondigit_stop : forall rest, nondigit rest -> match rest with [] => True | x :: _ => IntText.is_digit x = false end.
Proof. intros [|x r] H; [exact I | apply iis_digit_false; exact H]. Qed.

Lemma jparse_digits_app : forall t rest a, Forall digit_char t -> nondigit rest ->
  Json.parse_digits (t ++ rest) a = (fold_left dstep t a, rest).
Proof.
  induction t as [|c t IH]; intros rest a Ht Hr.
  - cbn [app fold_left]. destruct rest as [|x r]; [reflexivity|]. cbn [Json.parse_digits].
    rewrite (jis_digit_false x Hr). reflexivity.
  - inversion Ht as [|? ? Hc Ht']; subst. cbn [app Json.parse_digits fold_left]. rewrite (jis_digit_true c Hc).
    rewrite IH by assumption. unfold dstep. f_equal. f_equal. lia.
Qed.

Lemma jparse_nat_digits : forall c t rest, Forall digit_char (c :: t) -> c <> 48 -> nondigit rest ->
  Json.parse_nat ((c :: t) ++ rest) = Some (fold_left dstep (c :: t) 0, rest).
Proof.
  intros c t rest H Hc Hr. inversion H as [|? ? Hd Ht]; subst. cbn [app]. unfold Json.parse_nat.
  replace (c =? 48) with false by (symmetry; apply Z.eqb_neq; exact Hc). rewrite (jis_digit_true c Hd).
  rewrite jparse_digits_app by assumption. cbn [fold_left]. replace (dstep 0 c) with (c - 48) by (unfold dstep; lia). reflexivity.
Qed.

Lemma jparse_nat_zero : forall rest, nondigit rest -> Json.parse_nat (48 :: rest) = Some (0, rest).
Proof.
  intros [|x r] H; [reflexivity|]. unfold Json.parse_nat. replace (48 =? 48) with true by reflexivity.
  rewrite (jis_digit_false x H). reflexivity.
Qed.

Lemma dec_digits_zero : forall fuel acc, dec_digits fuel 0%N acc = acc.
Proof. intros fuel acc. destruct fuel; reflexivity. Qed.

(* the first digit of a positive number is not 0 *)
Lemma dec_digits_head : forall (fuel : positive) (n : N) (acc : list Z), (0 < n)%N -> (n <= Npos fuel)%N ->
  exists c t, dec_digits fuel n acc = c :: t /\ c <> 48.
Proof.
  induction fuel as [f IH|f IH|]; intros n acc Hn Hf; (destruct n as [|p]; [lia|]); rewrite dec_digits_pos.
  - destruct (N.eq_dec (Npos p / 10) 0) as [E|E].
    + rewrite E, dec_digits_zero. eexists; eexists; split; [reflexivity|].
      pose proof (N.div_mod' (Npos p) 10) as D. rewrite E in D. set (r := (Npos p mod 10)%N) in *. clearbody r. lia.
    + apply IH; [apply N.neq_0_lt_0; exact E | apply div10_fuel_I; exact Hf].
  - destruct (N.eq_dec (Npos p / 10) 0) as [E|E].
    + rewrite E, dec_digits_zero. eexists; eexists; split; [reflexivity|].
      pose proof (N.div_mod' (Npos p) 10) as D. rewrite E in D. set (r := (Npos p mod 10)%N) in *. clearbody r. lia.
    + apply IH; [apply N.neq_0_lt_0; exact E | apply div10_fuel_O; exact Hf].
  - assert (p = 1%positive) by lia. subst p. eexists; eexists; split; [reflexivity | cbn; lia].
Qed.

Lemma digits_of_head : forall d, 0 < d -> exists c t, digits_of d = c :: t /\ c <> 48.
Proof.
  intros [|p|p] H; try lia. unfold digits_of. cbn [py_str_int]. apply dec_digits_head; lia.
Qed.

Lemma firstn_head : forall (A : Type) n (c : A) t, (0 < n)%nat -> firstn n (c :: t) = c :: firstn (n - 1) t.
Proof. intros A n c t H. destruct n as [|n]; [lia|]. cbn [firstn]. replace (S n - 1)%nat with n by lia. reflexivity. Qed.

(* ---------- numbers: the stages of parse_number_f ---------- *)
Definition int_or_float (neg : bool) (n : Z) (r2 : list Z) : option (jvf * list Z) :=
  if neg then (if n <=? 2 ^ 63 then Some (FInt (- n), r2) else float_value neg n 0 r2)
  else (if n <? 2 ^ 64 then Some (FInt n, r2) else float_value neg n 0 r2).
(* after the fraction *)
Definition num_tail2 (neg : bool) (n d nf : Z) (r2 : list Z) : option (jvf * list Z) :=
  if nf =? 0 then None
  else
    let nf' := Z.max nf 0 in
    match r2 with
    | c :: r =>
        if (c =? 101) || (c =? 69) then
          let '(es, r3) := match r with
                           | c2 :: r' => if c2 =? 45 then (true, r') else if c2 =? 43 then (false, r') else (false, r)
                           | [] => (false, r)
                           end in
          let '(ex, ne, r4) := read_digits 0 0 r3 in
          if ne =? 0 then None
          else float_value neg d ((if es then - ex else ex) - nf') r4
        else if nf <? 0 then int_or_float neg n r2
        else float_value neg d (- nf') r2
    | [] => if nf <? 0 then int_or_float neg n r2 else float_value neg d (- nf') r2
    end.
(* after the integer part *)
Definition num_tail (neg : bool) (n : Z) (r1 : list Z) : option (jvf * list Z) :=
  let '(d, nf, r2) := match r1 with
                      | c :: r => if c =? 46 then read_digits n 0 r else (n, -1, r1)
                      | [] => (n, -1, r1)
                      end in
  num_tail2 neg n d nf r2.

Lemma parse_number_f_unfold : forall s,
  parse_number_f s =
  let '(neg, t) := match s with
                   | c :: r => if c =? 45 then (true, r) else (false, s)
                   | [] => (false, s)
                   end in
  match Json.parse_nat t with
  | None => None
  | Some (n, r1) => num_tail neg n r1
  end.
Proof. reflexivity. Qed.

Lemma num_stop_nondigit : forall r, num_stop r -> nondigit r.
Proof. intros [|c r] H; [exact I|]. destruct H as [H _]. exact H. Qed.

Lemma num_tail2_end : forall neg n d nf r, nf <> 0 -> num_stop r ->
  num_tail2 neg n d nf r = if nf <? 0 then int_or_float neg n r else float_value neg d (- Z.max nf 0) r.
Proof.
  intros neg n d nf r Hnf Hr. unfold num_tail2. replace (nf =? 0) with false by (symmetry; apply Z.eqb_neq; exact Hnf).
  destruct r as [|c r]; [reflexivity|]. destruct Hr as (_ & _ & H1 & H2).
  replace ((c =? 101) || (c =? 69)) with false; [reflexivity|].
  symmetry. apply orb_false_iff. split; apply Z.eqb_neq; assumption.
Qed.

Lemma num_tail2_exp : forall neg n d nf ex r, nf <> 0 -> nondigit r ->
  num_tail2 neg n d nf (101 :: exp_text_j ex ++ r) = float_value neg d (ex - Z.max nf 0) r.
Proof.
  intros neg n d nf ex r Hnf Hr. unfold num_tail2. replace (nf =? 0) with false by (symmetry; apply Z.eqb_neq; exact Hnf).
  replace ((101 =? 101) || (101 =? 69)) with true by reflexivity.
  destruct (digits_of_spec (Z.abs ex) (Z.abs_nonneg ex)) as (Hc & Hv & Hn).
  unfold exp_text_j. cbn [app].
  assert (R : read_digits 0 0 (digits_of (Z.abs ex) ++ r) = (Z.abs ex, 0 + Z.of_nat (length (digits_of (Z.abs ex))), r)).
  { rewrite read_digits_app; [rewrite Hv; reflexivity | exact Hc | apply nondigit_stop; exact Hr]. }
  assert (L : (0 + Z.of_nat (length (digits_of (Z.abs ex))) =? 0) = false).
  { apply Z.eqb_neq. destruct (digits_of (Z.abs ex)); [congruence | cbn [length]; lia]. }
  destruct (ex <? 0) eqn:E; [apply Z.ltb_lt in E | apply Z.ltb_ge in E].
  - replace (45 =? 45) with true by reflexivity. rewrite R, L. f_equal. lia.
  - replace (43 =? 45) with false by reflexivity. replace (43 =? 43) with true by reflexivity. rewrite R, L. f_equal. lia.
Qed.

Lemma num_tail_nofrac : forall neg n r1,
  match r1 with [] => True | c :: _ => c <> 46 end -> num_tail neg n r1 = num_tail2 neg n n (-1) r1.
Proof.
  intros neg n [|c r] H; [reflexivity|]. unfold num_tail.
  replace (c =? 46) with false by (symmetry; apply Z.eqb_neq; exact H). reflexivity.
Qed.

Lemma num_tail_frac : forall neg n fr r2, Forall digit_char fr -> nondigit r2 ->
  num_tail neg n (46 :: fr ++ r2) = num_tail2 neg n (fold_left dstep fr n) (Z.of_nat (length fr)) r2.
Proof.
  intros neg n fr r2 Hf Hr. unfold num_tail. replace (46 =? 46) with true by reflexivity.
  rewrite read_digits_app; [|exact Hf | apply nondigit_stop; exact Hr]. rewrite Z.add_0_l. reflexivity.
Qed.

(* the sign, then a text that starts with a digit *)
Lemma parse_number_f_signed : forall (s : bool) c t, digit_char c ->
  parse_number_f ((if s then [45] else []) ++ c :: t) =
  match Json.parse_nat (c :: t) with None => None | Some (n, r1) => num_tail s n r1 end.
Proof.
  intros s c t [H1 H2]. rewrite parse_number_f_unfold. destruct s; cbn [app].
  - replace (45 =? 45) with true by reflexivity. reflexivity.
  - replace (c =? 45) with false by (symmetry; apply Z.eqb_neq; lia). reflexivity.
Qed.

(* ---------- integers stay integers ---------- *)
Lemma parse_number_f_print_int : forall z r, int_ok z -> num_stop r ->
  parse_number_f (print_int z ++ r) = Some (FInt z, r).
Proof.
  intros z r Hz Hr. unfold int_ok in Hz. unfold print_int.
  assert (Hr1 : match r with [] => True | c :: _ => c <> 46 end) by (destruct r as [|c r']; [exact I | destruct Hr as (_ & H & _); exact H]).
  destruct (z <? 0) eqn:E; [apply Z.ltb_lt in E | apply Z.ltb_ge in E].
  - cbn [app]. rewrite parse_number_f_unfold. replace (45 =? 45) with true by reflexivity.
    rewrite parse_nat_print by (assumption || lia). rewrite num_tail_nofrac by exact Hr1.
    rewrite num_tail2_end by (assumption || lia). replace (-1 <? 0) with true by reflexivity. unfold int_or_float.
    replace (- z <=? 2 ^ 63) with true by (symmetry; apply Z.leb_le; lia). rewrite Z.opp_involutive. reflexivity.
  - pose proof (parse_nat_print z r E Hr) as P.
    destruct (print_nat_head z E) as (c & t & H & Hc). rewrite H in *. cbn [app] in *.
    rewrite parse_number_f_unfold. replace (c =? 45) with false by (symmetry; apply Z.eqb_neq; lia).
    rewrite P. rewrite num_tail_nofrac by exact Hr1. rewrite num_tail2_end by (assumption || lia). replace (-1 <? 0) with true by reflexivity. unfold int_or_float.
    replace (z <? 2 ^ 64) with true by (symmetry; apply Z.ltb_lt; lia). reflexivity.
Qed.

(* ---------- a float is read back as the decimal that was written ---------- *)
Lemma parse_number_f_ryu : forall s d k r, 0 < d -> num_stop r ->
  parse_number_f (ryu_text s d k ++ r) = float_value s (fst (as_parsed d k)) (snd (as_parsed d k)) r.
Proof.
  intros s d k r Hd Hr. pose proof (num_stop_nondigit r Hr) as Hnd.
  destruct (digits_of_spec d ltac:(lia)) as (Hc & Hv & Hn).
  destruct (digits_of_head d Hd) as (c0 & t0 & E0 & Hc0).
  unfold ryu_text, as_parsed, decpt_of. rewrite <- app_assoc.
  set (ds := digits_of d) in *. set (n := Z.of_nat (length ds)). set (kk := n + k).
  assert (Hn1 : 1 <= n) by (unfold n; rewrite E0; cbn [length]; lia).
  assert (Hd0 : digit_char c0) by (rewrite E0 in Hc; inversion Hc; assumption).
  assert (Ht0 : Forall digit_char t0) by (rewrite E0 in Hc; inversion Hc; assumption).
  destruct ((-5 <? kk) && (kk <=? 16)) eqn:F.
  - (* fixed notation *)
    apply andb_prop in F. destruct F as [F1 F2]. apply Z.ltb_lt in F1. apply Z.leb_le in F2.
    unfold fixed_text. fold n.
    destruct (kk <=? 0) eqn:E1; [apply Z.leb_le in E1 | apply Z.leb_gt in E1].
    + (* 0.000DIGITS *)
      replace (0 <=? k) with false by (symmetry; apply Z.leb_gt; unfold kk in *; lia). rewrite andb_false_r. cbn [fst snd].
      change ((48 :: 46 :: repeat 48 (Z.to_nat (- kk)) ++ ds) ++ r)
        with (48 :: 46 :: (repeat 48 (Z.to_nat (- kk)) ++ ds) ++ r).
      rewrite parse_number_f_signed by (unfold digit_char; lia).
      rewrite jparse_nat_zero by (cbn; lia).
      rewrite num_tail_frac; [| apply Forall_app; split; [apply repeat_digits | exact Hc] | exact Hnd].
      rewrite num_tail2_end; [| rewrite app_length, repeat_length; unfold n in Hn1; lia | exact Hr].
      rewrite app_length, repeat_length, Nat2Z.inj_add, Z2Nat.id by lia. fold n.
      replace (- kk + n <? 0) with false by (symmetry; apply Z.ltb_ge; lia).
      rewrite fold_left_app, fold_repeat_zero, Z.mul_0_l, Hv. f_equal. unfold kk. lia.
    + destruct (kk <? n) eqn:E2; [apply Z.ltb_lt in E2 | apply Z.ltb_ge in E2].
      * (* DIG.ITS *)
        replace (0 <=? k) with false by (symmetry; apply Z.leb_gt; unfold kk in *; lia). rewrite andb_false_r. cbn [fst snd].
        set (j := Z.to_nat kk). assert (Hj : (0 < j <= length ds)%nat) by (unfold j, n in *; lia).
        assert (Ef : firstn j ds = c0 :: firstn (j - 1) t0) by (rewrite E0; apply firstn_head; lia).
        rewrite <- app_assoc. rewrite Ef. cbn [app].
        rewrite parse_number_f_signed by exact Hd0.
        change (c0 :: firstn (j - 1) t0 ++ 46 :: skipn j ds ++ r) with ((c0 :: firstn (j - 1) t0) ++ (46 :: skipn j ds ++ r)).
        rewrite jparse_nat_digits; [| constructor; [exact Hd0 | apply Forall_firstn_; exact Ht0] | exact Hc0 | cbn; lia].
        rewrite num_tail_frac; [| apply Forall_skipn_; exact Hc | exact Hnd].
        rewrite num_tail2_end; [| rewrite skipn_length; lia | exact Hr].
        rewrite skipn_length.
        replace (Z.of_nat (length ds - j) <? 0) with false by (symmetry; apply Z.ltb_ge; lia).
        rewrite <- Ef, <- fold_left_app, firstn_skipn, Hv. f_equal. unfold j, kk, n in *. lia.
      * (* DIGITS000.0 *)
        assert (Hk : 0 <= k) by (unfold kk in *; lia).
        replace (0 <=? k) with true by (symmetry; apply Z.leb_le; exact Hk).
        replace (use_exp kk) with false
          by (symmetry; unfold use_exp; apply orb_false_iff; split; [apply Z.leb_gt | apply Z.ltb_ge]; lia).
        cbn [negb andb fst snd].
        replace (kk - n) with k by (unfold kk; lia).
        rewrite E0. change (((c0 :: t0) ++ repeat 48 (Z.to_nat k) ++ [46; 48]) ++ r)
          with (c0 :: (t0 ++ repeat 48 (Z.to_nat k) ++ [46; 48]) ++ r).
        rewrite parse_number_f_signed by exact Hd0.
        replace (c0 :: (t0 ++ repeat 48 (Z.to_nat k) ++ [46; 48]) ++ r)
          with ((c0 :: t0 ++ repeat 48 (Z.to_nat k)) ++ (46 :: [48] ++ r))
          by (cbn [app]; rewrite <- !app_assoc; reflexivity).
        rewrite jparse_nat_digits; [| constructor; [exact Hd0 | apply Forall_app; split; [exact Ht0 | apply repeat_digits]]
                                    | exact Hc0 | cbn; lia].
        rewrite num_tail_frac; [| constructor; [unfold digit_char; lia | constructor] | exact Hnd].
        rewrite num_tail2_end; [| cbn [length]; lia | exact Hr]. cbn [length].
        replace (Z.of_nat 1 <? 0) with false by reflexivity.
        change (c0 :: t0 ++ repeat 48 (Z.to_nat k)) with ((c0 :: t0) ++ repeat 48 (Z.to_nat k)).
        rewrite <- E0. rewrite fold_left_app, fold_repeat_zero, Hv, Z2Nat.id by exact Hk. cbn [fold_left]. unfold dstep.
        f_equal. rewrite Z.pow_add_r by lia. change (10 ^ 1) with 10. ring.
  - (* exponent notation *)
    assert (Hu : use_exp kk = true).
    { unfold use_exp. apply andb_false_iff in F. rewrite Z.ltb_ge, Z.leb_gt in F. apply orb_true_iff.
      rewrite Z.leb_le, Z.ltb_lt. lia. }
    rewrite Hu. cbn [negb andb fst snd].
    unfold sci_text_j. rewrite E0. destruct t0 as [|c1 t1].
    + change (([c0] ++ 101 :: exp_text_j (kk - 1)) ++ r) with (c0 :: 101 :: exp_text_j (kk - 1) ++ r).
      rewrite parse_number_f_signed by exact Hd0.
      change (c0 :: 101 :: exp_text_j (kk - 1) ++ r) with ((c0 :: []) ++ (101 :: exp_text_j (kk - 1) ++ r)).
      rewrite jparse_nat_digits; [| exact (eq_ind _ (Forall digit_char) Hc _ E0) | exact Hc0 | cbn; lia].
      rewrite num_tail_nofrac by (cbn; lia). rewrite num_tail2_exp; [| lia | exact Hnd].
      rewrite <- E0, Hv. f_equal. unfold kk, n. rewrite E0. cbn [length]. lia.
    + change (((c0 :: 46 :: c1 :: t1) ++ 101 :: exp_text_j (kk - 1)) ++ r)
        with (c0 :: 46 :: ((c1 :: t1) ++ 101 :: exp_text_j (kk - 1)) ++ r).
      rewrite parse_number_f_signed by exact Hd0.
      replace (c0 :: 46 :: ((c1 :: t1) ++ 101 :: exp_text_j (kk - 1)) ++ r)
        with ((c0 :: []) ++ (46 :: (c1 :: t1) ++ (101 :: exp_text_j (kk - 1) ++ r)))
        by (cbn [app]; rewrite <- !app_assoc; reflexivity).
      rewrite jparse_nat_digits; [| constructor; [exact Hd0 | constructor] | exact Hc0 | cbn; lia].
      rewrite num_tail_frac; [| exact Ht0 | cbn; lia].
      rewrite num_tail2_exp; [| cbn [length]; lia | exact Hnd].
      replace (fold_left dstep (c1 :: t1) (fold_left dstep [c0] 0)) with (fold_left dstep ds 0) by (rewrite E0; reflexivity).
      rewrite Hv. f_equal. unfold kk, n. rewrite E0. cbn [length]. lia.
Qed.

Lemma float_of_dec_zero : forall s k, float_of_dec s 0 k = Some (mkfl s 0 0).
Proof. reflexivity. Qed.

Lemma parse_number_f_float : forall x r, fl_ok x -> num_stop r ->
  parse_number_f (float_text x ++ r) = Some (FFloat x, r).
Proof.
  intros x r Hok Hr. pose proof (shortest_found_all x Hok) as Hf. unfold shortest_found, shortest_foundb in Hf.
  unfold float_text. destruct (shortest_dec x) as [[d k]|] eqn:S; [|discriminate Hf].
  destruct (shortest_dec_spec x d k S) as [(Hm & -> & ->) | (Hd & y & Hy & Hyx)].
  - pose proof (num_stop_nondigit r Hr) as Hnd.
    assert (T : ryu_text (fsign x) 0 0 = (if fsign x then [45] else []) ++ 48 :: [46; 48]) by reflexivity.
    rewrite T, <- app_assoc. change ((48 :: [46; 48]) ++ r) with (48 :: 46 :: [48] ++ r).
    rewrite parse_number_f_signed by (unfold digit_char; lia).
    rewrite jparse_nat_zero by (cbn; lia).
    rewrite num_tail_frac; [| constructor; [unfold digit_char; lia | constructor] | exact Hnd].
    rewrite num_tail2_end; [| cbn [length]; lia | exact Hr]. cbn [length].
    replace (Z.of_nat 1 <? 0) with false by reflexivity. cbn [fold_left]. unfold float_value.
    replace (dstep 0 48) with 0 by reflexivity. rewrite float_of_dec_zero.
    destruct x as [s m e]. cbn [fm fe fsign] in *. subst m.
    assert (e = 0) by (unfold fl_ok in Hok; cbn [fm fe] in Hok; lia). subst e. reflexivity.
  - rewrite parse_number_f_ryu by assumption. unfold float_value. rewrite Hy. apply fl_eqb_eq in Hyx. subst y. reflexivity.
Qed.

(* ---------- the characters of a float ---------- *)
Definition float_char_n (c : Z) : Prop := float_char c \/ c = 110 \/ c = 117 \/ c = 108.

Lemma sci_text_j_chars : forall ds kk, Forall float_char ds -> Forall float_char (sci_text_j ds kk).
Proof.
  intros [|c r] kk H; [constructor|]. inversion H as [|? ? Hc Hr]; subst. unfold sci_text_j.
  apply Forall_app. split.
  - constructor; [exact Hc|]. destruct r as [|c2 r]; [constructor|]. constructor; [unfold float_char; lia | exact Hr].
  - constructor; [unfold float_char; lia|]. unfold exp_text_j.
    constructor; [destruct (kk - 1 <? 0); unfold float_char; lia | apply digits_of_chars].
Qed.

Lemma ryu_text_chars : forall s d k, Forall float_char (ryu_text s d k).
Proof.
  intros s d k. unfold ryu_text. apply Forall_app. split.
  - destruct s; [repeat constructor; unfold float_char; lia | constructor].
  - destruct ((-5 <? Z.of_nat (length (digits_of d)) + k) && (Z.of_nat (length (digits_of d)) + k <=? 16));
      [apply fixed_text_chars | apply sci_text_j_chars]; apply digits_of_chars.
Qed.

Lemma float_text_chars : forall x, Forall float_char_n (float_text x).
Proof.
  intros x. unfold float_text. destruct (shortest_dec x) as [[d k]|].
  - eapply Forall_impl; [|apply ryu_text_chars]. intros c H. left. exact H.
  - repeat constructor; unfold float_char_n; lia.
Qed.

Lemma ryu_text_nonempty : forall s d k, ryu_text s d k <> [].
Proof.
  intros s d k. unfold ryu_text. intros H. apply app_eq_nil in H. destruct H as [_ H].
  pose proof (py_str_int_nonempty d) as Hn. unfold digits_of in H.
  destruct ((-5 <? Z.of_nat (length (py_str_int d)) + k) && (Z.of_nat (length (py_str_int d)) + k <=? 16)).
  - unfold fixed_text in H. destruct (Z.of_nat (length (py_str_int d)) + k <=? 0); [discriminate H|].
    destruct (Z.of_nat (length (py_str_int d)) + k <? Z.of_nat (length (py_str_int d))).
    + apply app_eq_nil in H. destruct H as [_ H]. discriminate H.
    + apply app_eq_nil in H. destruct H as [H _]. congruence.
  - unfold sci_text_j in H. destruct (py_str_int d) as [|c r]; [congruence|]. discriminate H.
Qed.

Lemma float_text_nonempty : forall x, float_text x <> [].
Proof.
  intros x. unfold float_text. destruct (shortest_dec x) as [[d k]|]; [apply ryu_text_nonempty | discriminate].
Qed.

Lemma ryu_text_head_num : forall s d k, 0 <= d -> exists c t, ryu_text s d k = c :: t /\ (c = 45 \/ 48 <= c <= 57).
Proof.
  intros s d k Hd. destruct (digits_of_spec d Hd) as (Hc & _ & Hn). unfold ryu_text.
  destruct s; [eexists; eexists; split; [reflexivity | left; reflexivity]|]. cbn [app].
  destruct ((-5 <? Z.of_nat (length (digits_of d)) + k) && (Z.of_nat (length (digits_of d)) + k <=? 16)).
  - destruct (fixed_text_head (digits_of d) (Z.of_nat (length (digits_of d)) + k) Hc Hn) as (c & t & E & H).
    exists c, t. split; [exact E | right; exact H].
  - destruct (digits_of d) as [|c r]; [congruence|]. inversion Hc; subst. unfold sci_text_j. cbn [app].
    eexists; eexists; split; [reflexivity | right; assumption].
Qed.

Lemma float_text_head_num : forall x, fl_ok x -> exists c t, float_text x = c :: t /\ (c = 45 \/ 48 <= c <= 57).
Proof.
  intros x Hok. pose proof (shortest_found_all x Hok) as Hf. unfold shortest_found, shortest_foundb in Hf.
  unfold float_text. destruct (shortest_dec x) as [[d k]|] eqn:S; [|discriminate Hf].
  apply ryu_text_head_num. destruct (shortest_dec_spec x d k S) as [(_ & -> & _) | (Hd & _)]; lia.
Qed.

(* ---------- values ---------- *)
Lemma parse_value_f_str : forall f r,
  parse_value_f (S f) (34 :: r) = match parse_chars r with Some (cs, r') => Some (FStr cs, r') | None => None end.
Proof. reflexivity. Qed.

Lemma parse_value_f_arr : forall f r,
  parse_value_f (S f) (91 :: r) =
  match skip_ws r with
  | [] => None
  | d :: r' => if d =? 93 then Some (FArr [], r')
               else match parse_elems_f f (d :: r') with
                    | Some (vs, r'') => Some (FArr vs, r'')
                    | None => None
                    end
  end.
Proof. reflexivity. Qed.

Lemma parse_value_f_obj : forall f r,
  parse_value_f (S f) (123 :: r) =
  match skip_ws r with
  | [] => None
  | d :: r' => if d =? 125 then Some (FObj [], r')
               else match parse_members_f f (d :: r') with
                    | Some (ms, r'') => Some (FObj (dict_norm_f ms), r'')
                    | None => None
                    end
  end.
Proof. reflexivity. Qed.

Lemma parse_value_f_num : forall f c r, c = 45 \/ 48 <= c <= 57 ->
  parse_value_f (S f) (c :: r) = parse_number_f (c :: r).
Proof.
  intros f c r [->|H]; [reflexivity|].
  assert (E : c = 48 \/ c = 49 \/ c = 50 \/ c = 51 \/ c = 52 \/ c = 53 \/ c = 54 \/ c = 55 \/ c = 56 \/ c = 57)
    by lia.
  repeat (destruct E as [E | E]; [subst c; reflexivity|]). subst c; reflexivity.
Qed.

Lemma parse_elems_f_S : forall f s,
  parse_elems_f (S f) s =
  match parse_value_f f s with
  | None => None
  | Some (v, r) =>
      match skip_ws r with
      | [] => None
      | c :: r' =>
          if c =? 44 then
            match parse_elems_f f r' with
            | Some (vs, r'') => Some (v :: vs, r'')
            | None => None
            end
          else if c =? 93 then Some ([v], r')
          else None
      end
  end.
Proof. reflexivity. Qed.

Lemma parse_members_f_quote : forall f r,
  parse_members_f (S f) (34 :: r) =
  match parse_chars r with
  | None => None
  | Some (k, r1) =>
      match skip_ws r1 with
      | [] => None
      | c2 :: r2 =>
          if c2 =? 58 then
            match parse_value_f f r2 with
            | None => None
            | Some (v, r3) =>
                match skip_ws r3 with
                | [] => None
                | c3 :: r4 =>
                    if c3 =? 44 then
                      match parse_members_f f r4 with
                      | Some (ms, r5) => Some ((k, v) :: ms, r5)
                      | None => None
                      end
                    else if c3 =? 125 then Some ([(k, v)], r4)
                    else None
                end
            end
          else None
      end
  end.
Proof. reflexivity. Qed.

(* the first character of a value: never whitespace, never a closing bracket *)

Lemma jsonf_text_head : forall v, exists c t, jsonf_text v = c :: t /\ is_ws c = false /\ c <> 93 /\ c <> 125.
Proof.
  intros v. destruct v as [|[|]|z|x|s|l|m]; cbn [jsonf_text];
    try (eexists; eexists; split; [reflexivity | split; [reflexivity | lia]]).
  - destruct (print_int_head z) as (c & t & E & H). exists c, t. split; [assumption|].
    split; [bsolve | lia].
  - pose proof (float_text_chars x) as F. pose proof (float_text_nonempty x) as N.
    destruct (float_text x) as [|c t]; [congruence|]. exists c, t. split; [reflexivity|].
    inversion F as [|? ? Hc _]; subst. unfold float_char_n, float_char in Hc. split; [bsolve | lia].
Qed.

Definition member_text_f (kv : list Z * jvf) : list Z :=
  match kv with (k, x) => print_string k ++ 58 :: jsonf_text x end.

(* units of fuel the parser uses on the text of v *)
Fixpoint jsize_f (v : jvf) : nat :=
  match v with
  | FArr l => S (list_sum (map (fun x => S (jsize_f x)) l))
  | FObj m => S (list_sum (map (fun kv => match kv with (_, x) => S (jsize_f x) end) m))
  | _ => 1%nat
  end.

Definition parses_f (v : jvf) : Prop :=
  forall fuel r, (jsize_f v <= fuel)%nat -> num_stop r -> parse_value_f fuel (jsonf_text v ++ r) = Some (v, r).


Lemma parse_elems_f_text : forall l v, parses_f v -> Forall parses_f l ->
  forall fuel r, (S (jsize_f v) + list_sum (map (fun x => S (jsize_f x)) l) <= fuel)%nat ->
  parse_elems_f fuel (jsonf_text v ++ sep_tail (map jsonf_text l) ++ 93 :: r) = Some (v :: l, r).
Proof.
  induction l as [|w l IH]; intros v Hv Hl fuel r Hf.
  - destruct fuel as [|f]; [cbn in Hf; lia|]. cbn [map sep_tail app]. rewrite parse_elems_f_S.
    rewrite Hv by (cbn in Hf; try lia; apply num_stop_sep; lia).
    rewrite skip_ws_nows by reflexivity. reflexivity.
  - inversion Hl as [|w' l' Hw Hl']; subst w' l'.
    destruct fuel as [|f]; [cbn in Hf; lia|]. cbn [map sep_tail app] in *. rewrite list_sum_cons in Hf. rewrite parse_elems_f_S.
    rewrite Hv by (try lia; apply num_stop_sep; lia).
    rewrite skip_ws_nows by reflexivity. replace (44 =? 44) with true by reflexivity.
    rewrite <- app_assoc. rewrite IH by (assumption || lia). reflexivity.
Qed.

Lemma parse_members_f_text : forall m k x, str_ok k -> parses_f x ->
  Forall (fun kv => str_ok (fst kv) /\ parses_f (snd kv)) m ->
  forall fuel r, (S (jsize_f x) + list_sum (map (fun kv => match kv with (_, y) => S (jsize_f y) end) m) <= fuel)%nat ->
  parse_members_f fuel (member_text_f (k, x) ++ sep_tail (map member_text_f m) ++ 125 :: r) = Some ((k, x) :: m, r).
Proof.
  induction m as [|[k' w] m IH]; intros k x Hk Hx Hm fuel r Hf.
  - destruct fuel as [|f]; [cbn in Hf; lia|]. cbn [map sep_tail app member_text_f].
    rewrite <- app_assoc. rewrite print_string_app. rewrite parse_members_f_quote.
    rewrite parse_chars_print by assumption. rewrite <- app_comm_cons.
    rewrite skip_ws_nows by reflexivity. replace (58 =? 58) with true by reflexivity.
    rewrite Hx by (cbn in Hf; try lia; apply num_stop_sep; lia).
    rewrite skip_ws_nows by reflexivity. reflexivity.
  - inversion Hm as [|kv' m' Hw Hm']; subst kv' m'. destruct Hw as [Hk' Hw]. cbn [fst snd] in *.
    destruct fuel as [|f]; [cbn in Hf; lia|]. cbn [map sep_tail app] in *. rewrite list_sum_cons in Hf.
    unfold member_text_f at 1.
    rewrite <- app_assoc. rewrite print_string_app. rewrite parse_members_f_quote.
    rewrite parse_chars_print by assumption. rewrite <- !app_comm_cons.
    rewrite skip_ws_nows by reflexivity. replace (58 =? 58) with true by reflexivity.
    rewrite Hx by (try lia; apply num_stop_sep; lia).
    rewrite skip_ws_nows by reflexivity. replace (44 =? 44) with true by reflexivity.
    rewrite <- app_assoc. rewrite IH by (assumption || lia). reflexivity.
Qed.

(* ---------- objects: a list without repeated key is its own dict ---------- *)

Lemma dict_set_f_notin : forall k v d, ~ In k (map fst d) -> dict_set_f k v d = d ++ [(k, v)].
Proof.
  induction d as [|[k' v'] d IH]; intros H; [reflexivity|]. cbn [dict_set_f map fst In app] in *.
  rewrite str_eqb_neq by (intros ->; apply H; left; reflexivity).
  rewrite IH by (intros G; apply H; right; exact G). reflexivity.
Qed.

Lemma dict_fold_nodup_f : forall m d, NoDup (map fst (d ++ m)) ->
  fold_left (fun d kv => dict_set_f (fst kv) (snd kv) d) m d = d ++ m.
Proof.
  induction m as [|[k v] m IH]; intros d H; [rewrite app_nil_r; reflexivity|].
  cbn [fold_left fst snd]. rewrite map_app in H. cbn [map fst] in H.
  pose proof (NoDup_remove_2 _ _ _ H) as N.
  rewrite dict_set_f_notin by (intros G; apply N; apply in_or_app; left; exact G).
  rewrite IH.
  - rewrite <- app_assoc. reflexivity.
  - rewrite <- app_assoc. cbn [app]. rewrite map_app. exact H.
Qed.

Lemma dict_norm_f_nodup : forall m, NoDup (map fst m) -> dict_norm_f m = m.
Proof. intros m H. unfold dict_norm_f. rewrite dict_fold_nodup_f by exact H. reflexivity. Qed.

(* ---------- the round trip of one value, followed by anything that ends the token ---------- *)
Lemma parse_value_f_text : forall v, jvf_wf v -> parses_f v.
Proof.
  induction v as [|b|z|x|s|l IH|m IH] using jvf_ind'; intros W fuel r Hf Hr;
    (destruct fuel as [|f]; [cbn in Hf; lia|]).
  - reflexivity.
  - destruct b; reflexivity.
  - inversion W; subst. pose proof (parse_number_f_print_int z r H0 Hr) as P.
    cbn [jsonf_text]. destruct (print_int_head z) as (c & t & E & Hc). rewrite E in *. cbn [app] in *.
    rewrite parse_value_f_num by assumption. exact P.
  - inversion W; subst. pose proof (parse_number_f_float x r H0 Hr) as P.
    cbn [jsonf_text]. destruct (float_text_head_num x H0) as (c & t & E & Hc). rewrite E in *. cbn [app] in *.
    rewrite parse_value_f_num by assumption. exact P.
  - inversion W; subst. cbn [jsonf_text]. rewrite print_string_app. rewrite parse_value_f_str.
    rewrite parse_chars_print by assumption. reflexivity.
  - inversion W as [| | | | |l' Wl|]; subst l'. destruct l as [|v l]; [reflexivity|].
    inversion IH as [|v' l' IHv IHl]; subst v' l'. inversion Wl as [|v' l' Wv Wl']; subst v' l'.
    assert (Pl : Forall parses_f l).
    { clear - IHl Wl'. induction IHl as [|x l Hx Hl IH]; [constructor|]. inversion Wl'; subst.
      constructor; [apply Hx; assumption | apply IH; assumption]. }
    cbn [jsize_f map] in Hf. rewrite list_sum_cons in Hf.
    pose proof (parse_elems_f_text l v (IHv Wv) Pl f r ltac:(lia)) as P.
    cbn [jsonf_text map join_comma]. cbn [app]. rewrite <- !app_assoc. cbn [app].
    rewrite parse_value_f_arr.
    destruct (jsonf_text_head v) as (c & t & E & Hw & N1 & N2). rewrite E in *. cbn [app] in *.
    rewrite skip_ws_nows by assumption. replace (c =? 93) with false by (symmetry; bsolve).
    rewrite P. reflexivity.
  - inversion W as [| | | | | |m' Nd Wm]; subst m'. destruct m as [|[k x] m]; [reflexivity|].
    inversion IH as [|kv' m' IHx IHm]; subst kv' m'. inversion Wm as [|kv' m' Wx Wm']; subst kv' m'.
    cbn [fst snd] in *. destruct Wx as [Wk Wx].
    assert (Pm : Forall (fun kv => str_ok (fst kv) /\ parses_f (snd kv)) m).
    { clear - IHm Wm'. induction IHm as [|y m Hy Hm IH]; [constructor|]. inversion Wm' as [|? ? [? ?] ?]; subst.
      constructor; [split; [assumption | apply Hy; assumption] | apply IH; assumption]. }
    cbn [jsize_f map] in Hf. rewrite list_sum_cons in Hf.
    pose proof (parse_members_f_text m k x Wk (IHx Wx) Pm f r ltac:(lia)) as P.
    cbn [jsonf_text]. change (fun kv : list Z * jvf => let (k0, x0) := kv in print_string k0 ++ 58 :: jsonf_text x0)
      with member_text_f.
    cbn [map join_comma]. cbn [app]. rewrite <- !app_assoc. cbn [app].
    rewrite parse_value_f_obj.
    unfold member_text_f at 1. unfold member_text_f at 1 in P.
    rewrite <- app_assoc in *. rewrite print_string_app in *.
    rewrite skip_ws_nows by reflexivity. replace (34 =? 125) with false by reflexivity.
    rewrite P. rewrite dict_norm_f_nodup by exact Nd. reflexivity.
Qed.

(* ---------- the characters of the text ---------- *)

Section TextForallF.
Variable P : Z -> Prop.
Hypothesis Pascii : forall c, 32 <= c < 127 -> P c.
(* G: what is known about the value, closed under sub-values *)
Variable G : jvf -> Prop.
Hypothesis Gstr : forall s, G (FStr s) -> Forall (fun c => 32 <= c -> P c) s.
Hypothesis Garr : forall l, G (FArr l) -> Forall G l.
Hypothesis Gobj : forall m, G (FObj m) -> Forall (fun kv => Forall (fun c => 32 <= c -> P c) (fst kv) /\ G (snd kv)) m.

Lemma jsonf_text_Forall : forall v, G v -> Forall P (jsonf_text v).
Proof.
  induction v as [|b|z|x|s|l IH|m IH] using jvf_ind'; intros Gv; cbn [jsonf_text].
  - repeat constructor; apply Pascii; lia.
  - destruct b; repeat constructor; apply Pascii; lia.
  - eapply Forall_impl; [|apply print_int_chars]. exact Pascii.
  - eapply Forall_impl; [|apply float_text_chars]. cbv beta. intros c Hc. apply Pascii. unfold float_char_n, float_char in Hc. lia.
  - apply (print_string_Forall P Pascii). apply Gstr; exact Gv.
  - constructor; [apply Pascii; lia|]. apply Forall_app. split; [|repeat constructor; apply Pascii; lia].
    apply (join_comma_Forall P Pascii). apply Garr in Gv. clear - IH Gv.
    induction IH as [|x l Hx Hl IH']; [constructor|]. inversion Gv; subst. cbn [map].
    constructor; [apply Hx; assumption | apply IH'; assumption].
  - constructor; [apply Pascii; lia|]. apply Forall_app. split; [|repeat constructor; apply Pascii; lia].
    apply (join_comma_Forall P Pascii). apply Gobj in Gv. clear - IH Gv Pascii.
    induction IH as [|[k x] m Hx Hm IH']; [constructor|]. inversion Gv as [|? ? [Hk Gx] Gm]; subst. cbn [map fst snd] in *.
    constructor; [|apply IH'; assumption].
    apply Forall_app. split; [apply (print_string_Forall P Pascii); exact Hk|].
    constructor; [apply Pascii; lia | apply Hx; exact Gx].
Qed.
End TextForallF.

(* no character below 0x20 in the text, for EVERY value (even with invalid code points) *)
Theorem jsonf_text_no_control : forall v, Forall (fun c => 32 <= c) (jsonf_text v).
Proof.
  intros v. apply jsonf_text_Forall with (G := fun _ => True); try exact I.
  - intros; lia.
  - intros s _. apply Forall_forall. intros c _ H; exact H.
  - intros l _. apply Forall_forall. intros; exact I.
  - intros m _. apply Forall_forall. intros kv _. split; [|exact I]. apply Forall_forall. intros c _ H; exact H.
Qed.

(* the text of a well-formed value is made of Unicode scalar values *)
Theorem jsonf_text_cp_ok : forall v, jvf_wf v -> str_ok (jsonf_text v).
Proof.
  intros v W. unfold str_ok. apply jsonf_text_Forall with (G := jvf_wf); try exact W.
  - intros c H. unfold cp_ok. lia.
  - intros s H. inversion H; subst. eapply Forall_impl; [|eassumption]. cbv beta. intros c Hc _; exact Hc.
  - intros l H. inversion H; subst. assumption.
  - intros m H. inversion H as [| | | | | |m' Nd Wm]; subst. eapply Forall_impl; [|exact Wm]. cbv beta.
    intros kv [Hk Hx]. split; [|exact Hx]. eapply Forall_impl; [|exact Hk]. cbv beta. intros c Hc _; exact Hc.
Qed.

(* ---------- enough fuel ---------- *)

Lemma jsize_f_le_length : forall v, (jsize_f v <= length (jsonf_text v))%nat.
Proof.
  induction v as [|b|z|x|s|l IH|m IH] using jvf_ind'; cbn [jsize_f jsonf_text].
  - cbn; lia.
  - destruct b; cbn; lia.
  - destruct (print_int_head z) as (c & t & E & _). rewrite E. cbn; lia.
  - pose proof (float_text_nonempty x) as N. destruct (float_text x); [congruence | cbn; lia].
  - unfold print_string. cbn [length]. lia.
  - cbn [length]. rewrite app_length. cbn [length].
    pose proof (sum_le_join jvf jsize_f jsonf_text l IH). lia.
  - cbn [length]. rewrite app_length. cbn [length].
    change (fun kv : list Z * jvf => let (k, x) := kv in print_string k ++ 58 :: jsonf_text x) with member_text_f.
    assert (H : Forall (fun kv => (jsize_f (snd kv) <= length (member_text_f kv))%nat) m).
    { eapply Forall_impl; [|exact IH]. cbv beta. intros [k x] H. cbn [snd member_text_f] in *.
      rewrite app_length. cbn [length]. lia. }
    pose proof (sum_le_join _ (fun kv => jsize_f (snd kv)) member_text_f m H) as Hs. cbv beta in Hs.
    replace (map (fun kv : list Z * jvf => let (_, x) := kv in S (jsize_f x)) m)
      with (map (fun kv : list Z * jvf => S (jsize_f (snd kv))) m)
      by (apply map_ext; intros [k x]; reflexivity).
    lia.
Qed.

(* ---------- the theorems at the character level (Ch = code points: what rxsci's json.load sees) ---------- *)

(* orjson.loads (orjson.dumps v).decode() = v, also when whitespace follows (the newline of json.dump) *)
Theorem jsonf_parse_text_print_ws : forall v ws, jvf_wf v -> all_ws ws ->
  jsonf_parse_text (jsonf_text v ++ ws) = Some v.
Proof.
  intros v ws W Hw. unfold jsonf_parse_text.
  replace (forallb cp_okb (jsonf_text v ++ ws)) with true.
  - rewrite (parse_value_f_text v W).
    + rewrite skip_ws_all by exact Hw. reflexivity.
    + rewrite app_length. pose proof (jsize_f_le_length v). lia.
    + apply num_stop_ws; exact Hw.
  - symmetry. rewrite forallb_app. apply andb_true_iff. split; apply forallb_forall; intros c Hc; apply cp_okb_ok.
    + pose proof (jsonf_text_cp_ok v W) as H. unfold str_ok in H. rewrite Forall_forall in H. apply H; exact Hc.
    + unfold all_ws in Hw. rewrite Forall_forall in Hw. apply Hw in Hc. apply is_ws_cases in Hc. unfold cp_ok. lia.
Qed.

Theorem jsonf_parse_text_print : forall v, jvf_wf v -> jsonf_parse_text (jsonf_text v) = Some v.
Proof. intros v W. rewrite <- (app_nil_r (jsonf_text v)). apply jsonf_parse_text_print_ws; [exact W | constructor]. Qed.

Theorem jsonf_text_no_newline : forall v, ~ In 10 (jsonf_text v).
Proof.
  intros v H. pose proof (jsonf_text_no_control v) as F. rewrite Forall_forall in F. apply F in H. lia.
Qed.

Theorem jsonf_text_nonempty : forall v, jsonf_text v <> [].
Proof. intros v. destruct (jsonf_text_head v) as (c & t & E & _). rewrite E. discriminate. Qed.

(* ---------- the theorems at the byte level ---------- *)

(* (d) the dumped bytes are valid UTF-8: they decode to the character-level text *)
Theorem jsonf_print_utf8 : forall v, jvf_wf v -> utf8_decode (jsonf_print v) = Some (jsonf_text v).
Proof. intros v W. unfold jsonf_print. apply utf8_decode_encode. apply jsonf_text_cp_ok; exact W. Qed.

(* (a) orjson.loads (orjson.dumps v) = v; uniqueness of the keys (in jvf_wf) IS needed: with a repeated key the
   parser, like orjson, returns the dict, which is not the association list that was printed *)
Theorem jsonf_parse_print_ws : forall v ws, jvf_wf v -> all_ws ws -> jsonf_parse (jsonf_print v ++ ws) = Some v.
Proof.
  intros v ws W Hw. unfold jsonf_parse, jsonf_print.
  rewrite <- (utf8_encode_ws ws Hw) at 1. rewrite <- utf8_encode_app.
  rewrite utf8_decode_encode.
  - apply jsonf_parse_text_print_ws; assumption.
  - unfold str_ok. apply Forall_app. split; [apply jsonf_text_cp_ok; exact W|].
    eapply Forall_impl; [|exact Hw]. cbv beta. intros c Hc. apply is_ws_cases in Hc. unfold cp_ok. lia.
Qed.

Theorem jsonf_parse_print : forall v, jvf_wf v -> jsonf_parse (jsonf_print v) = Some v.
Proof. intros v W. rewrite <- (app_nil_r (jsonf_print v)). apply jsonf_parse_print_ws; [exact W | constructor]. Qed.

(* H_loads_dumps_nl of C19: the document followed by the newline that json.dump appends *)
Theorem jsonf_parse_print_nl : forall v, jvf_wf v -> jsonf_parse (jsonf_print v ++ [10]) = Some v.
Proof. intros v W. apply jsonf_parse_print_ws; [exact W | repeat constructor]. Qed.


(* (b) no byte below 0x20 in the dumped bytes, for EVERY value *)
Theorem jsonf_print_no_control : forall v, Forall (fun b => 32 <= b) (jsonf_print v).
Proof.
  intros v. unfold jsonf_print, utf8_encode. pose proof (jsonf_text_no_control v) as F.
  induction F as [|c s Hc Hs IH]; [constructor|]. cbn [flat_map]. apply Forall_app. split; [|exact IH].
  apply utf8_enc1_ge32; exact Hc.
Qed.

Theorem jsonf_print_no_newline : forall v, ~ In 10 (jsonf_print v).
Proof.
  intros v H. pose proof (jsonf_print_no_control v) as F. rewrite Forall_forall in F. apply F in H. lia.
Qed.

(* (c) *)
Theorem jsonf_print_nonempty : forall v, jsonf_print v <> [].
Proof.
  intros v. unfold jsonf_print. destruct (jsonf_text_head v) as (c & t & E & _). rewrite E.
  unfold utf8_encode. cbn [flat_map]. unfold utf8_enc1.
  destruct (c <? 128); [discriminate|]. destruct (c <? 2048); [discriminate|]. destruct (c <? 65536); discriminate.
Qed.


(* the dumped bytes are bytes *)
Theorem jsonf_print_bytes : forall v, jvf_wf v -> Forall (fun b => 0 <= b < 256) (jsonf_print v).
Proof.
  intros v W. unfold jsonf_print, utf8_encode. pose proof (jsonf_text_cp_ok v W) as F. unfold str_ok in F.
  induction F as [|c s Hc Hs IH]; [constructor|]. cbn [flat_map]. apply Forall_app. split; [|exact IH].
  apply utf8_enc1_bytes; exact Hc.
Qed.

(* ---------- the executable tests are sound ---------- *)

Theorem jvf_wfb_sound : forall v, jvf_wfb v = true -> jvf_wf v.
Proof.
  induction v as [|b|z|x|s|l IH|m IH] using jvf_ind'; intros H; cbn [jvf_wfb] in H.
  - constructor.
  - constructor.
  - constructor. unfold int_okb in H. rewrite andb_true_iff, Z.leb_le, Z.ltb_lt in H. exact H.
  - constructor. apply fl_okb_ok. exact H.
  - constructor. unfold str_ok. apply Forall_forall. intros c Hc. apply cp_okb_sound.
    rewrite forallb_forall in H. apply H; exact Hc.
  - constructor. rewrite forallb_forall in H. rewrite Forall_forall in *. intros x Hx. apply IH; [exact Hx | apply H; exact Hx].
  - apply andb_true_iff in H. destruct H as [H1 H2]. constructor; [apply nodupb_sound; exact H1|].
    rewrite forallb_forall in H2. rewrite Forall_forall in *. intros [k x] Hx. specialize (H2 _ Hx). specialize (IH _ Hx).
    cbn [fst snd] in *. apply andb_true_iff in H2. destruct H2 as [Hk Hv]. split; [|apply IH; exact Hv].
    unfold str_ok. apply Forall_forall. intros c Hc. apply cp_okb_sound. rewrite forallb_forall in Hk. apply Hk; exact Hc.
Qed.

Theorem jvf_eqb_eq : forall v w, jvf_eqb v w = true -> v = w.
Proof.
  induction v as [|b|z|x|s|l IH|m IH] using jvf_ind'; intros w H; destruct w as [|b'|z'|x'|s'|l'|m']; try discriminate H.
  - reflexivity.
  - cbn [jvf_eqb] in H. apply Bool.eqb_prop in H. subst; reflexivity.
  - cbn [jvf_eqb] in H. apply Z.eqb_eq in H. subst; reflexivity.
  - cbn [jvf_eqb] in H. apply fl_eqb_eq in H. subst; reflexivity.
  - cbn [jvf_eqb] in H. apply str_eqb_eq in H. subst; reflexivity.
  - f_equal. cbn [jvf_eqb] in H. revert l' H. induction IH as [|x l Hx Hl IH']; intros [|y l'] H; try discriminate H.
    + reflexivity.
    + apply andb_true_iff in H. destruct H as [H1 H2]. f_equal; [apply Hx; exact H1 | apply IH'; exact H2].
  - f_equal. cbn [jvf_eqb] in H. revert m' H. induction IH as [|[k x] m Hx Hm IH']; intros [|[k' y] m'] H; try discriminate H.
    + reflexivity.
    + rewrite !andb_true_iff in H. destruct H as [[H0 H1] H2]. apply str_eqb_eq in H0. subst k'.
      f_equal; [f_equal; apply Hx; exact H1 | apply IH'; exact H2].
Qed.


Print Assumptions jsonf_parse_print.
Print Assumptions jsonf_parse_print_ws.
Print Assumptions jsonf_parse_print_nl.
Print Assumptions jsonf_parse_text_print_ws.
Print Assumptions jsonf_print_no_control.
Print Assumptions jsonf_print_no_newline.
Print Assumptions jsonf_print_nonempty.
Print Assumptions jsonf_print_utf8.
Print Assumptions jsonf_print_bytes.
Print Assumptions jvf_wfb_sound.
Print Assumptions jvf_eqb_eq.
