(* The orjson premises of C19 (H_loads_dumps, H_dumps_no_newline, H_dumps_nonempty, H_loads_dumps_nl) discharged
   for the model of Json.v, and the C19 theorems of JsonLinesProofs instantiated with it: what remains as a
   premise is only the text codec (C17) and the compression stage (C16).
   Obj = the well-formed values (a value with the proof that the executable test jv_wfb accepts it),
   Ch = Unicode code points (Z): dumps o = orjson.dumps(o).decode(), loads = orjson.loads of a str. *)
From Coq Require Import List ZArith Bool Eqdep_dec.
From RxVerif Require Import Framing.Line Container.JsonLines Container.JsonLinesProofs.
From RxVerif Require Import Container.Json Container.JsonProofs.
Import ListNotations.
Local Open Scope Z_scope.

Definition wfjv : Type := {v : jv | jv_wfb v = true}.
Definition wf_val (o : wfjv) : jv := proj1_sig o.
Definition wf_dumps (o : wfjv) : list Z := json_text (wf_val o).
Definition wf_check (v : jv) : option wfjv :=
  (if jv_wfb v as b return (jv_wfb v = b -> option wfjv)
   then fun e => Some (exist _ v e) else fun _ => None) eq_refl.
Definition wf_loads (s : list Z) : option wfjv :=
  match json_parse_text s with
  | Some v => wf_check v
  | None => None
  end.
Definition wf_is_null (o : wfjv) : bool := match wf_val o with JNull => true | _ => false end.
Definition z_is_nl (c : Z) : bool := c =? 10.

Lemma wf_check_aux : forall v (e : jv_wfb v = true) b (e' : jv_wfb v = b),
  (if b as b0 return (jv_wfb v = b0 -> option wfjv)
   then fun e0 => Some (exist _ v e0) else fun _ => None) e' = Some (exist _ v e).
Proof.
  intros v e b e'. destruct b.
  - rewrite (UIP_dec bool_dec e' e). reflexivity.
  - rewrite e in e'. discriminate e'.
Qed.

Lemma wf_check_val : forall o, wf_check (wf_val o) = Some o.
Proof. intros [v e]. unfold wf_check, wf_val. cbn [proj1_sig]. apply wf_check_aux. Qed.

Lemma wf_val_wf : forall o, jv_wf (wf_val o).
Proof. intros [v e]. apply jv_wfb_sound. exact e. Qed.

(* H_loads_dumps *)
Theorem orjson_loads_dumps : forall o, wf_loads (wf_dumps o) = Some o.
Proof.
  intros o. unfold wf_loads, wf_dumps. rewrite json_parse_text_print by apply wf_val_wf. apply wf_check_val.
Qed.

(* H_loads_dumps_nl *)
Theorem orjson_loads_dumps_nl : forall o, wf_loads (wf_dumps o ++ [10]) = Some o.
Proof.
  intros o. unfold wf_loads, wf_dumps.
  rewrite json_parse_text_print_ws by (try apply wf_val_wf; repeat constructor). apply wf_check_val.
Qed.

(* H_dumps_no_newline *)
Theorem orjson_dumps_no_newline : forall o, no_nl Z z_is_nl (wf_dumps o).
Proof.
  intros o. unfold no_nl. apply forallb_forall. intros c Hc. unfold z_is_nl. apply negb_true_iff. apply Z.eqb_neq.
  intros ->. exact (json_text_no_newline _ Hc).
Qed.

(* H_dumps_nonempty *)
Theorem orjson_dumps_nonempty : forall o, wf_dumps o <> [].
Proof. intros o. apply json_text_nonempty. Qed.

(* C19_load_any_rechunking_of_dump_partial without its orjson premises *)
Theorem C19_model_load_any_rechunking_of_dump :
  forall (Byte : Type)
         (encode : list (list Z) -> list (list Byte)) (decode : list (list Byte) -> option (list (list Z)))
         (compress : list (list Byte) -> list (list Byte))
         (decompress : list (list Byte) -> option (list (list Byte))),
  (* H_text_codec *) (forall cs r, concat r = concat (encode cs) ->
                      exists cs', decode r = Some cs' /\ concat cs' = concat cs) ->
  (* H_compression *) (forall bs r, concat r = concat (compress bs) ->
                       exists bs', decompress r = Some bs' /\ concat bs' = concat bs) ->
  forall (objs : list wfjv) (r : list (list Byte)) (skip : nat) (ign : bool),
  concat r = dump_to_file wfjv Z Byte 10 wf_dumps encode compress objs ->
  load_chunks wfjv Z Byte z_is_nl wf_loads wf_is_null decode decompress skip ign r =
  (filter (fun o => negb (wf_is_null o)) (skipn skip objs), true).
Proof.
  intros Byte encode decode compress decompress Hc Hz. apply load_rechunk_dump.
  - reflexivity.
  - exact orjson_loads_dumps.
  - exact orjson_dumps_no_newline.
  - exact orjson_dumps_nonempty.
  - exact Hc.
  - exact Hz.
Qed.

(* C19_load_from_file_dump_to_file_partial without its orjson premises *)
Theorem C19_model_load_from_file_dump_to_file :
  forall (Byte : Type)
         (encode : list (list Z) -> list (list Byte)) (decode : list (list Byte) -> option (list (list Z)))
         (compress : list (list Byte) -> list (list Byte))
         (decompress : list (list Byte) -> option (list (list Byte))),
  (forall cs r, concat r = concat (encode cs) -> exists cs', decode r = Some cs' /\ concat cs' = concat cs) ->
  (forall bs r, concat r = concat (compress bs) -> exists bs', decompress r = Some bs' /\ concat bs' = concat bs) ->
  forall (objs : list wfjv) (size : nat) (ign : bool),
  (forall o, In o objs -> wf_is_null o = false) ->
  load_from_file wfjv Z Byte z_is_nl wf_loads wf_is_null decode decompress size 0 ign
    (dump_to_file wfjv Z Byte 10 wf_dumps encode compress objs) = (objs, true).
Proof.
  intros Byte encode decode compress decompress Hc Hz. apply load_from_file_dump_to_file_objects.
  - reflexivity.
  - exact orjson_loads_dumps.
  - exact orjson_dumps_no_newline.
  - exact orjson_dumps_nonempty.
  - exact Hc.
  - exact Hz.
Qed.

(* C19_load_doc_from_file_dump_one_partial (lines=False) without its orjson premise *)
Theorem C19_model_load_doc_from_file_dump_one :
  forall (Byte : Type)
         (encode : list (list Z) -> list (list Byte)) (decode : list (list Byte) -> option (list (list Z)))
         (compress : list (list Byte) -> list (list Byte))
         (decompress : list (list Byte) -> option (list (list Byte))),
  (forall cs r, drop_empty r = drop_empty [concat (encode cs)] ->
   exists cs', decode r = Some cs' /\ drop_empty cs' = drop_empty [concat cs]) ->
  (forall bs r, drop_empty r = drop_empty [concat (compress bs)] ->
   exists bs', decompress r = Some bs' /\ drop_empty bs' = drop_empty [concat bs]) ->
  forall (o : wfjv) (ign : bool), wf_is_null o = false ->
  load_doc_from_file wfjv Z Byte wf_loads wf_is_null decode decompress 0 ign
    (dump_to_file wfjv Z Byte 10 wf_dumps encode compress [o]) = ([o], true).
Proof.
  intros Byte encode decode compress decompress Hc Hz. apply load_doc_from_file_dump_one.
  - exact orjson_loads_dumps_nl.
  - exact Hc.
  - exact Hz.
Qed.

Print Assumptions orjson_loads_dumps.
Print Assumptions orjson_loads_dumps_nl.
Print Assumptions orjson_dumps_no_newline.
Print Assumptions orjson_dumps_nonempty.
Print Assumptions C19_model_load_any_rechunking_of_dump.
Print Assumptions C19_model_load_from_file_dump_to_file.
Print Assumptions C19_model_load_doc_from_file_dump_one.
