(* Proofs about Container/IntText.v (CPython str(int) / int(text), the fragment the CSV model needs):
   int(str(n)) = n for every int n; str(n) consists of '-' and ASCII digits only, is non-empty, does not start
   with a double quote and contains no newline.  With these, the INT hypotheses of the CSV round-trip theorems of
   CsvProofs.v (int_roundtrip, int_printed, int_no_nl) are discharged: the corollaries csv_*_int_concrete at the
   end keep only the FLOAT hypotheses and the side conditions on the separator / escape character. *)
From Coq Require Import List Arith ZArith NArith Bool Lia.
From RxVerif Require Import Framing.Line Container.Csv Container.CsvProofs Container.IntText.
Import ListNotations.
Local Open Scope Z_scope.

Definition digit_char (c : Z) : Prop := 48 <= c <= 57.
(* the value of a digit string read after the value a *)
Definition dstep (a c : Z) : Z := 10 * a + (c - 48).

Lemma is_digit_true (c : Z) : digit_char c -> is_digit c = true.
Proof. intros [H1 H2]. unfold is_digit. apply andb_true_intro. split; apply Z.leb_le; assumption. Qed.

Lemma parse_digits_val : forall (t : list Z) (a : Z), Forall digit_char t ->
  parse_digits a t = Some (fold_left dstep t a).
Proof.
  induction t as [|c r IH]; intros a H; [reflexivity|]. inversion H as [|? ? Hc Hr]; subst.
  cbn [parse_digits fold_left]. rewrite (is_digit_true c Hc). apply IH. exact Hr.
Qed.

(* ---- the digits of str(n) ---- *)
Lemma div_eucl_10 (n : N) : N.div_eucl n 10 = ((n / 10)%N, (n mod 10)%N).
Proof. unfold N.div, N.modulo. destruct (N.div_eucl n 10). reflexivity. Qed.

Lemma dec_digits_pos (fuel : positive) (p : positive) (acc : list Z) :
  dec_digits fuel (Npos p) acc
  = match fuel with
    | xH => (48 + Z.of_N (Npos p mod 10)) :: acc
    | xO f | xI f => dec_digits f (Npos p / 10)%N ((48 + Z.of_N (Npos p mod 10)) :: acc)
    end.
Proof. destruct fuel; cbn [dec_digits]; rewrite div_eucl_10; reflexivity. Qed.

Lemma dec_digits_app : forall (fuel : positive) (n : N) (acc : list Z),
  dec_digits fuel n acc = dec_digits fuel n [] ++ acc.
Proof.
  induction fuel as [f IH|f IH|]; intros n acc; (destruct n as [|p]; [reflexivity|]);
    rewrite !dec_digits_pos.
  - rewrite (IH _ (_ :: acc)), (IH _ [_]), <- app_assoc. reflexivity.
  - rewrite (IH _ (_ :: acc)), (IH _ [_]), <- app_assoc. reflexivity.
  - reflexivity.
Qed.

Lemma mod10_digit (n : N) : digit_char (48 + Z.of_N (n mod 10)).
Proof.
  assert (H : (n mod 10 < 10)%N) by (apply N.mod_upper_bound; discriminate).
  unfold digit_char. set (r := (n mod 10)%N) in *. lia. Qed.

Lemma dec_digits_chars : forall (fuel : positive) (n : N) (acc : list Z),
  Forall digit_char acc -> Forall digit_char (dec_digits fuel n acc).
Proof.
  induction fuel as [f IH|f IH|]; intros n acc H; (destruct n as [|p]; [exact H|]);
    rewrite dec_digits_pos; try apply IH; constructor; try assumption; apply mod10_digit.
Qed.

Lemma dec_digits_nonempty (fuel p : positive) (acc : list Z) : dec_digits fuel (Npos p) acc <> [].
Proof.
  rewrite dec_digits_pos. destruct fuel as [f|f|]; try discriminate;
    rewrite dec_digits_app; intro E; apply app_eq_nil in E; destruct E as [_ E]; discriminate.
Qed.

Lemma div10_fuel_O (n : N) (f : positive) : (n <= Npos (xO f))%N -> (n / 10 <= Npos f)%N.
Proof. intro H. apply N.div_le_upper_bound; lia. Qed.
Lemma div10_fuel_I (n : N) (f : positive) : (n <= Npos (xI f))%N -> (n / 10 <= Npos f)%N.
Proof. intro H. apply N.div_le_upper_bound; lia. Qed.

Lemma dec_digits_val : forall (fuel : positive) (n : N), (n <= Npos fuel)%N ->
  fold_left dstep (dec_digits fuel n []) 0 = Z.of_N n.
Proof.
  induction fuel as [f IH|f IH|]; intros n H; (destruct n as [|p]; [reflexivity|]); rewrite dec_digits_pos.
  - rewrite dec_digits_app, fold_left_app, (IH _ (div10_fuel_I _ _ H)). cbn [fold_left]. unfold dstep.
    pose proof (N.div_mod' (Npos p) 10). lia.
  - rewrite dec_digits_app, fold_left_app, (IH _ (div10_fuel_O _ _ H)). cbn [fold_left]. unfold dstep.
    pose proof (N.div_mod' (Npos p) 10). lia.
  - assert (p = 1%positive) by lia. subst p. reflexivity.
Qed.

Lemma parse_nat_digits (p : positive) : parse_nat (dec_digits p (Npos p) []) = Some (Zpos p).
Proof.
  unfold parse_nat. pose proof (dec_digits_nonempty p p []) as Hne.
  destruct (dec_digits p (Npos p) []) as [|c r] eqn:E; [congruence|]. rewrite <- E.
  rewrite parse_digits_val by (apply dec_digits_chars; constructor).
  rewrite dec_digits_val by lia. reflexivity.
Qed.

(* ---- int(str(n)) = n ---- *)
Theorem py_int_roundtrip : forall n : Z, py_int_of (py_str_int n) = Some n.
Proof.
  intros [|p|p]; [reflexivity| |].
  - cbn [py_str_int]. pose proof (parse_nat_digits p) as P. pose proof (dec_digits_nonempty p p []) as Hne.
    pose proof (dec_digits_chars p (Npos p) [] (Forall_nil _)) as Hc.
    destruct (dec_digits p (Npos p) []) as [|c r] eqn:E; [congruence|].
    inversion Hc as [|? ? [H1 H2] _]; subst. unfold py_int_of.
    replace (c =? 45) with false by (symmetry; apply Z.eqb_neq; lia).
    replace (c =? 43) with false by (symmetry; apply Z.eqb_neq; lia). exact P.
  - cbn [py_str_int py_int_of]. rewrite Z.eqb_refl, parse_nat_digits. reflexivity.
Qed.

(* ---- the characters of str(n) ---- *)
Theorem py_str_int_chars : forall (n c : Z), In c (py_str_int n) -> c = 45 \/ 48 <= c <= 57.
Proof.
  intros [|p|p] c H; cbn [py_str_int] in H.
  - destruct H as [<-|[]]. right. lia.
  - right. exact (proj1 (Forall_forall _ _) (dec_digits_chars p (Npos p) [] (Forall_nil _)) c H).
  - destruct H as [<-|H]; [left; reflexivity|right].
    exact (proj1 (Forall_forall _ _) (dec_digits_chars p (Npos p) [] (Forall_nil _)) c H).
Qed.

Theorem py_str_int_nonempty : forall n : Z, py_str_int n <> [].
Proof. intros [|p|p]; cbn [py_str_int]; try discriminate. apply dec_digits_nonempty. Qed.

Theorem py_str_int_not_in : forall (p n : Z), p <> 45 -> ~ (48 <= p <= 57) -> ~ In p (py_str_int n).
Proof. intros p n H1 H2 H. destruct (py_str_int_chars n p H) as [E|E]; [exact (H1 E)|exact (H2 E)]. Qed.

Theorem py_str_int_first_not_quote : forall n : Z, first_is_quote (py_str_int n) = false.
Proof.
  intro n. pose proof (py_str_int_chars n) as H. destruct (py_str_int n) as [|c r]; [reflexivity|].
  cbn [first_is_quote]. apply Z.eqb_neq. unfold quote. specialize (H c (or_introl eq_refl)). lia.
Qed.

Theorem py_str_int_no_nl : forall n : Z, text_no_nl (py_str_int n).
Proof. intro n. unfold text_no_nl, newline. apply py_str_int_not_in; lia. Qed.

(* the printed form of an int is admissible for every separator character that is neither '-' nor a digit *)
Theorem py_int_printed : forall (p n : Z), p <> 45 -> ~ (48 <= p <= 57) -> printed_ok p (py_str_int n).
Proof.
  intros p n H1 H2. split; [apply py_str_int_nonempty|]. split; [apply py_str_int_not_in; assumption|].
  apply py_str_int_first_not_quote.
Qed.

(* ---- evaluated examples (to be mirrored against CPython) ---- *)
Example py_str_int_0 : py_str_int 0 = [48].
Proof. vm_compute. reflexivity. Qed.
Example py_str_int_neg : py_str_int (-1234567890) = [45; 49; 50; 51; 52; 53; 54; 55; 56; 57; 48].
Proof. vm_compute. reflexivity. Qed.
(* str(2**64) = '18446744073709551616' *)
Example py_str_int_2p64 :
  py_str_int (2 ^ 64) = [49; 56; 52; 52; 54; 55; 52; 52; 48; 55; 51; 55; 48; 57; 53; 53; 49; 54; 49; 54].
Proof. vm_compute. reflexivity. Qed.
Example py_str_int_1000 : py_str_int 1000 = [49; 48; 48; 48].
Proof. vm_compute. reflexivity. Qed.
(* int('+7') = 7, int('007') = 7, int('-0') = 0; int(''), int('-'), int('+-1'), int('1a') raise ValueError *)
Example py_int_of_plus7 : py_int_of [43; 55] = Some 7.
Proof. vm_compute. reflexivity. Qed.
Example py_int_of_007 : py_int_of [48; 48; 55] = Some 7.
Proof. vm_compute. reflexivity. Qed.
Example py_int_of_neg0 : py_int_of [45; 48] = Some 0.
Proof. vm_compute. reflexivity. Qed.
Example py_int_of_empty : py_int_of [] = None.
Proof. vm_compute. reflexivity. Qed.
Example py_int_of_minus : py_int_of [45] = None.
Proof. vm_compute. reflexivity. Qed.
Example py_int_of_plusminus : py_int_of [43; 45; 49] = None.
Proof. vm_compute. reflexivity. Qed.
Example py_int_of_1a : py_int_of [49; 97] = None.
Proof. vm_compute. reflexivity. Qed.
(* OUTSIDE the model: CPython answers int('1_0') = 10 and int(' 1') = 1, the model answers None *)
Example py_int_of_underscore : py_int_of [49; 95; 48] = None.
Proof. vm_compute. reflexivity. Qed.
Example py_int_of_space : py_int_of [32; 49] = None.
Proof. vm_compute. reflexivity. Qed.
Example py_int_roundtrip_2p64 : py_int_of (py_str_int (- 2 ^ 64)) = Some (- 2 ^ 64).
Proof. vm_compute. reflexivity. Qed.

(* =============================================================================================
   The CSV round-trip theorems of CsvProofs.v (as worded in props/C18.v) with the concrete int layer
   str_int := py_str_int, int_of := py_int_of.  The int hypotheses are gone; what remains: the float layer
   (float_of (str_float x) = Some x, printed_ok p (str_float x), no newline in str_float x for files) and the side
   conditions on the one-character separator p and the escape character - p must now also be neither '-' (45)
   nor an ASCII digit (48..57), since such a separator would cut the printed ints.
   ============================================================================================= *)

(* merge_escape_parts (split sep line) = the rendered fields *)
Theorem csv_merge_split_int_concrete : forall (F : Type) (str_float : F -> list Z) (p esc : Z),
  p <> quote -> p <> esc -> esc <> quote ->
  p <> 45 -> ~ (48 <= p <= 57) ->
  (forall x, printed_ok p (str_float x)) ->
  (forall b, ~ In p (str_bool b)) ->
  forall (types : list ty) (row : list (value F)), Forall2 field_ok types row -> row <> [] ->
  merge_escape_parts [p] esc (str_split [p] (dump_line F py_str_int str_float [p] esc row))
  = map (render F py_str_int str_float esc) row.
Proof.
  intros F str_float p esc H1 H2 H3 Hm Hd Hf Hb. apply merge_split_dump; try assumption.
  intro n. apply py_int_printed; assumption.
Qed.

(* one field: quote stripping, un-escaping and typed parsing give back the value *)
Theorem csv_field_int_concrete : forall (F : Type) (str_float : F -> list Z) (float_of : list Z -> option F)
    (p esc : Z),
  esc <> quote ->
  p <> 45 -> ~ (48 <= p <= 57) ->
  (forall x, float_of (str_float x) = Some x) ->
  (forall x, printed_ok p (str_float x)) ->
  forall (t : ty) (v : value F), field_ok t v ->
  parse_field F py_int_of float_of t (unquote esc (render F py_str_int str_float esc v)) = Some v.
Proof.
  intros F str_float float_of p esc H3 Hm Hd Hr Hf. apply (field_roundtrip F py_str_int py_int_of str_float float_of p esc);
    try assumption; [exact py_int_roundtrip|]. intro n. apply py_int_printed; assumption.
Qed.

(* line level: parse_line (dump_line row) = row, every row of 1.. columns, every string *)
Theorem csv_line_int_concrete : forall (F : Type) (str_float : F -> list Z) (float_of : list Z -> option F)
    (p esc : Z),
  p <> quote -> p <> esc -> esc <> quote ->
  p <> 45 -> ~ (48 <= p <= 57) ->
  (forall x, float_of (str_float x) = Some x) ->
  (forall x, printed_ok p (str_float x)) ->
  (forall b, ~ In p (str_bool b)) ->
  forall (types : list ty) (row : list (value F)), Forall2 field_ok types row -> row <> [] ->
  parse_line F py_int_of float_of [p] esc types (dump_line F py_str_int str_float [p] esc row) = Some row.
Proof.
  intros F str_float float_of p esc H1 H2 H3 Hm Hd Hr Hf Hb. apply line_roundtrip; try assumption;
    [exact py_int_roundtrip|]. intro n. apply py_int_printed; assumption.
Qed.

(* file level: what dump writes (header + one newline-terminated line per row), cut into ANY chunks, unframed by
   line.unframe and loaded, gives back the rows *)
Theorem csv_file_int_concrete : forall (F : Type) (str_float : F -> list Z) (float_of : list Z -> option F)
    (p esc : Z),
  p <> quote -> p <> esc -> esc <> quote ->
  p <> 45 -> ~ (48 <= p <= 57) ->
  (forall x, float_of (str_float x) = Some x) ->
  (forall x, printed_ok p (str_float x)) ->
  (forall b, ~ In p (str_bool b)) ->
  p <> newline -> esc <> newline ->
  (forall x, text_no_nl (str_float x)) ->
  forall (types : list ty) (names : list (list Z)) (rows : list (list (value F))) (chunks : list (list Z)),
  Forall text_no_nl names ->
  Forall (fun row => Forall2 field_ok types row /\ row <> [] /\ Forall value_no_nl row) rows ->
  concat chunks = concat (dump_lines F py_str_int str_float [p] esc [newline] names rows) ->
  load_chunks F py_int_of float_of [p] esc types chunks = (rows, true).
Proof.
  intros F str_float float_of p esc H1 H2 H3 Hm Hd Hr Hf Hb Hn1 Hn2 Hfn. apply file_roundtrip; try assumption;
    [exact py_int_roundtrip| |exact py_str_int_no_nl]. intro n. apply py_int_printed; assumption.
Qed.

(* ... in particular with the 64 KiB reads of load_from_file, whatever the size of the file *)
Theorem csv_file_64k_int_concrete : forall (F : Type) (str_float : F -> list Z) (float_of : list Z -> option F)
    (p esc : Z),
  p <> quote -> p <> esc -> esc <> quote ->
  p <> 45 -> ~ (48 <= p <= 57) ->
  (forall x, float_of (str_float x) = Some x) ->
  (forall x, printed_ok p (str_float x)) ->
  (forall b, ~ In p (str_bool b)) ->
  p <> newline -> esc <> newline ->
  (forall x, text_no_nl (str_float x)) ->
  forall (types : list ty) (names : list (list Z)) (rows : list (list (value F))),
  Forall text_no_nl names ->
  Forall (fun row => Forall2 field_ok types row /\ row <> [] /\ Forall value_no_nl row) rows ->
  load_file F py_int_of float_of [p] esc types
    (concat (dump_lines F py_str_int str_float [p] esc [newline] names rows)) = (rows, true).
Proof.
  intros F str_float float_of p esc H1 H2 H3 Hm Hd Hr Hf Hb Hn1 Hn2 Hfn. apply file_roundtrip_64k; try assumption;
    [exact py_int_roundtrip| |exact py_str_int_no_nl]. intro n. apply py_int_printed; assumption.
Qed.
