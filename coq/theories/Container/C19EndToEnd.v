(* C19 end to end, without premises about the libraries, for the MODELLED stack:
     orjson            = the model of Container/JsonFloat.v (values with finite floats; wfjvf of JsonFloatC19.v)
     rs.data.encode /
     rs.data.decode    = the incremental UTF-8 codec model of Codec/Wrapper.v (C17), code points and bytes carried over
                         from N to Z by u8_encode / u8_decode
     compression       = none (identity stage), or the gzip model of Compress/InflateCodec.v (C16): gz_compress is the
                         STORED-BLOCK compressor of the model, NOT the compressor of zlib; gz_decompress is the full
                         inflate model (stored, fixed and dynamic Huffman blocks)
     file / framing    = Container/JsonLines.v (append, read(size) re-chunking, line.unframe)
   Theorem shape: every re-chunking of the bytes dump_to_file writes for a list of well-formed values loads back to
   the values (after skip, without the top-level nulls), and completes.
   The codec premise of JsonLinesProofs.load_rechunk_dump is quantified over ALL texts; the UTF-8 model only inverts
   texts of Unicode scalar values.  Section OkChars re-proves the composition with the codec premise restricted to
   texts whose characters satisfy a predicate that the dumped texts satisfy. *)
From Coq Require Import List Arith Bool ZArith NArith Lia.
From RxVerif Require Import Framing.Line Framing.LineProofs Container.Parquet Container.ParquetProofs.
From RxVerif Require Import Container.JsonLines Container.JsonLinesProofs.
From RxVerif Require Import Framing.Incremental Codec.Utf8 Codec.Utf8Proofs Codec.Wrapper Codec.WrapperProofs.
From RxVerif Require Import Compress.Wrapper Compress.WrapperProofs Compress.InflateCodec.
From RxVerif Require Import Container.FloatText Container.Json Container.JsonProofs.
From RxVerif Require Import Container.JsonFloat Container.JsonFloatProofs Container.JsonFloatC19.
Import ListNotations.

(* ---------------------------------------------------------------------------------------------
   the composition theorem with the codec premise restricted to admissible characters
   --------------------------------------------------------------------------------------------- *)
Section OkChars.
Variable Obj : Type.
Variable Ch : Type.
Variable Byte : Type.
Variable is_nl : Ch -> bool.
Variable nl : Ch.
Variable dumps : Obj -> list Ch.
Variable loads : list Ch -> option Obj.
Variable is_null : Obj -> bool.
Variable encode : list (list Ch) -> list (list Byte).
Variable decode : list (list Byte) -> option (list (list Ch)).
Variable compress : list (list Byte) -> list (list Byte).
Variable decompress : list (list Byte) -> option (list (list Byte)).
Variable okch : Ch -> Prop.

Hypothesis H_newline : is_nl nl = true.
Hypothesis H_loads_dumps : forall o, loads (dumps o) = Some o.
Hypothesis H_dumps_no_newline : forall o, no_nl Ch is_nl (dumps o).
Hypothesis H_dumps_nonempty : forall o, dumps o <> [].
Hypothesis H_dumps_ok : forall o, Forall okch (dumps o).
Hypothesis H_nl_ok : okch nl.
Hypothesis H_text_codec_ok : forall cs r, Forall (Forall okch) cs -> concat r = concat (encode cs) ->
  exists cs', decode r = Some cs' /\ concat cs' = concat cs.
Hypothesis H_compression : forall bs r, concat r = concat (compress bs) ->
  exists bs', decompress r = Some bs' /\ concat bs' = concat bs.

Lemma json_dump_ok : forall objs, Forall (Forall okch) (json_dump Obj Ch nl dumps objs).
Proof.
  intros objs. unfold json_dump. apply Forall_forall. intros x Hx. apply in_map_iff in Hx.
  destruct Hx as (o & <- & _). apply Forall_app. split; [apply H_dumps_ok | constructor; [exact H_nl_ok | constructor]].
Qed.

Lemma json_dump_frame_ok : forall objs, concat (json_dump Obj Ch nl dumps objs) = Line.frame Ch nl (map dumps objs).
Proof. intros. unfold json_dump, Line.frame, frame1. now rewrite map_map. Qed.

Lemma load_items_dumps_ok : forall ign objs,
  load_items Obj Ch loads is_null ign (map dumps objs) = (filter (fun o => negb (is_null o)) objs, true).
Proof.
  intros ign. induction objs as [|o objs IH]; cbn [map load_items filter]; [reflexivity|].
  destruct (length (dumps o) =? 0) eqn:E.
  - apply Nat.eqb_eq in E. apply length_zero_iff_nil in E. now apply H_dumps_nonempty in E.
  - rewrite H_loads_dumps, IH. now destruct (is_null o).
Qed.

Theorem load_rechunk_dump_ok : forall objs r skip ign,
  concat r = dump_to_file Obj Ch Byte nl dumps encode compress objs ->
  load_chunks Obj Ch Byte is_nl loads is_null decode decompress skip ign r
  = (filter (fun o => negb (is_null o)) (skipn skip objs), true).
Proof.
  intros objs r skip ign H. unfold dump_to_file, file_write in H.
  destruct (H_compression _ r H) as (bs & Hd & Hb).
  destruct (H_text_codec_ok _ bs (json_dump_ok objs) Hb) as (cs & Hc & Hcc).
  unfold load_chunks. rewrite Hd, Hc.
  rewrite (unframe_frame Ch is_nl nl H_newline (map dumps objs) cs []).
  - cbn [Line.finish length Nat.eqb]. rewrite app_nil_r. unfold json_load. rewrite skipn_map. apply load_items_dumps_ok.
  - apply Forall_forall. intros x Hx. apply in_map_iff in Hx. destruct Hx as (o & <- & _). apply H_dumps_no_newline.
  - reflexivity.
  - now rewrite app_nil_r, Hcc, json_dump_frame_ok.
Qed.

Theorem load_from_file_dump_to_file_ok : forall objs size skip ign,
  load_from_file Obj Ch Byte is_nl loads is_null decode decompress size skip ign
    (dump_to_file Obj Ch Byte nl dumps encode compress objs)
  = (filter (fun o => negb (is_null o)) (skipn skip objs), true).
Proof. intros. unfold load_from_file. apply load_rechunk_dump_ok. unfold file_read. apply batches_concat. Qed.
End OkChars.

(* ---------------------------------------------------------------------------------------------
   the stages of the modelled stack, as plain functions on chunk sequences of Z
   --------------------------------------------------------------------------------------------- *)
Local Open Scope Z_scope.

Definition z2n (l : list (list Z)) : list (list N) := map (map Z.to_N) l.
Definition n2z (l : list (list N)) : list (list Z) := map (map Z.of_N) l.

(* rs.data.encode('utf-8') / rs.data.decode('utf-8'): None = the decoder raises *)
Definition u8_encode (cs : list (list Z)) : list (list Z) := n2z (fst (Codec.Wrapper.encode EUtf8 (z2n cs))).
Definition u8_decode (r : list (list Z)) : option (list (list Z)) :=
  match Codec.Wrapper.decode EUtf8 (z2n r) with
  | (outs, NoErr) => Some (n2z outs)
  | (_, _) => None
  end.

(* compression=None *)
Definition id_compress (bs : list (list Z)) : list (list Z) := bs.
Definition id_decompress (r : list (list Z)) : option (list (list Z)) := Some r.

(* compression='gzip' of the model: the bytes delivered for each input chunk and at completion.
   None = the stream signals an error, or does not complete *)
Definition ev_is_error (e : event (list Z)) : bool := match e with Error => true | _ => false end.
Definition ev_is_completed (e : event (list Z)) : bool := match e with Completed => true | _ => false end.
Definition gz_comp (bs : list (list Z)) : list (list Z) := map payload (gz_compress bs).
Definition gz_decomp (r : list (list Z)) : option (list (list Z)) :=
  let g := gz_decompress false r in
  if existsb ev_is_error (concat g) then None
  else if existsb ev_is_completed (concat g) then Some (map payload g)
  else None.

(* ---- their laws ---- *)
Lemma z2n_n2z : forall l, z2n (n2z l) = l.
Proof.
  intros l. unfold z2n, n2z. rewrite map_map. rewrite <- (map_id l) at 2. apply map_ext. intros x.
  rewrite map_map. rewrite <- (map_id x) at 2. apply map_ext. intros c. apply N2Z.id.
Qed.

Lemma concat_z2n : forall l, concat (z2n l) = map Z.to_N (concat l).
Proof. intros l. unfold z2n. symmetry. apply concat_map. Qed.
Lemma concat_n2z : forall l, concat (n2z l) = map Z.of_N (concat l).
Proof. intros l. unfold n2z. symmetry. apply concat_map. Qed.

Lemma cp_ok_scalar : forall c, cp_ok c -> scalar (Z.to_N c).
Proof. intros c [H1 H2]. unfold scalar. lia. Qed.

Lemma of_to_nonneg : forall s, Forall (fun c => 0 <= c) s -> map Z.of_N (map Z.to_N s) = s.
Proof.
  induction 1 as [|c s Hc Hs IH]; [reflexivity|]. cbn [map]. rewrite IH, Z2N.id by exact Hc. reflexivity.
Qed.

Theorem u8_codec_ok : forall cs r, Forall (Forall cp_ok) cs -> concat r = concat (u8_encode cs) ->
  exists cs', u8_decode r = Some cs' /\ concat cs' = concat cs.
Proof.
  intros cs r Hok H.
  assert (V : Forall (Forall (valid_cp EUtf8)) (z2n cs)).
  { unfold z2n. apply Forall_forall. intros x Hx. apply in_map_iff in Hx. destruct Hx as (s & <- & Hs).
    rewrite Forall_forall in Hok. specialize (Hok s Hs). apply Forall_forall. intros c Hc.
    apply in_map_iff in Hc. destruct Hc as (z & <- & Hz). rewrite Forall_forall in Hok. cbn [valid_cp].
    apply cp_ok_scalar. apply Hok. exact Hz. }
  assert (C : concat (z2n r) = concat (fst (Codec.Wrapper.encode EUtf8 (z2n cs)))).
  { rewrite concat_z2n, H. unfold u8_encode. rewrite <- concat_z2n, z2n_n2z. reflexivity. }
  destruct (roundtrip EUtf8 (z2n cs) (z2n r) V C) as (outs & D & E & _).
  exists (n2z outs). split; [unfold u8_decode; rewrite D; reflexivity|].
  rewrite concat_n2z, E, concat_z2n. apply of_to_nonneg.
  apply Forall_forall. intros c Hc. apply in_concat in Hc. destruct Hc as (s & Hs & Hc).
  rewrite Forall_forall in Hok. specialize (Hok s Hs). rewrite Forall_forall in Hok. destruct (Hok c Hc) as [[G _] _]. exact G.
Qed.

Theorem id_compression_ok : forall bs r, concat r = concat (id_compress bs) ->
  exists bs', id_decompress r = Some bs' /\ concat bs' = concat bs.
Proof. intros bs r H. exists r. split; [reflexivity | exact H]. Qed.

Lemma concat_map_payload : forall g : list (list (event (list Z))), concat (map payload g) = payload (concat g).
Proof.
  induction g as [|a g IH]; [reflexivity|]. cbn [map concat]. rewrite payload_app, IH. reflexivity.
Qed.

Lemma existsb_error_false : forall evs, ~ In Error evs -> existsb ev_is_error evs = false.
Proof.
  induction evs as [|e evs IH]; intros H; [reflexivity|]. cbn [existsb].
  destruct e; cbn [ev_is_error orb]; try (apply IH; intros G; apply H; right; exact G).
  exfalso. apply H. left. reflexivity.
Qed.
Lemma existsb_completed_true : forall evs, In Completed evs -> existsb ev_is_completed evs = true.
Proof.
  intros evs H. apply existsb_exists. exists Completed. split; [exact H | reflexivity].
Qed.

Theorem gz_compression_ok : forall bs r, concat r = concat (gz_comp bs) ->
  exists bs', gz_decomp r = Some bs' /\ concat bs' = concat bs.
Proof.
  intros bs r H. unfold gz_comp in H. rewrite concat_map_payload in H.
  destruct (gz_roundtrip_any_rechunking false bs r H) as (_ & P & Cm & Ne).
  exists (map payload (gz_decompress false r)). split.
  - unfold gz_decomp. rewrite (existsb_error_false _ Ne), (existsb_completed_true _ Cm). reflexivity.
  - rewrite concat_map_payload. exact P.
Qed.

(* ---------------------------------------------------------------------------------------------
   C19 end to end: no hypothesis about orjson, the text codec or the compression
   --------------------------------------------------------------------------------------------- *)
Lemma wff_dumps_ok : forall o, Forall cp_ok (wff_dumps o).
Proof. intros o. unfold wff_dumps. apply jsonf_text_cp_ok. apply wff_val_wf. Qed.
Lemma nl_ok : cp_ok 10.
Proof. unfold cp_ok. lia. Qed.

(* compression=None: every re-chunking r of the written bytes *)
Theorem C19_e2e_load_any_rechunking_plain : forall (objs : list wfjvf) (r : list (list Z)) (skip : nat) (ign : bool),
  concat r = dump_to_file wfjvf Z Z 10 wff_dumps u8_encode id_compress objs ->
  load_chunks wfjvf Z Z zf_is_nl wff_loads wff_is_null u8_decode id_decompress skip ign r
  = (filter (fun o => negb (wff_is_null o)) (skipn skip objs), true).
Proof.
  apply (load_rechunk_dump_ok wfjvf Z Z zf_is_nl 10 wff_dumps wff_loads wff_is_null u8_encode u8_decode
           id_compress id_decompress cp_ok).
  - reflexivity.
  - exact orjsonf_loads_dumps.
  - exact orjsonf_dumps_no_newline.
  - exact orjsonf_dumps_nonempty.
  - exact wff_dumps_ok.
  - exact nl_ok.
  - exact u8_codec_ok.
  - exact id_compression_ok.
Qed.

(* compression = the gzip model (stored-block compressor, full inflate) *)
Theorem C19_e2e_load_any_rechunking_gzip : forall (objs : list wfjvf) (r : list (list Z)) (skip : nat) (ign : bool),
  concat r = dump_to_file wfjvf Z Z 10 wff_dumps u8_encode gz_comp objs ->
  load_chunks wfjvf Z Z zf_is_nl wff_loads wff_is_null u8_decode gz_decomp skip ign r
  = (filter (fun o => negb (wff_is_null o)) (skipn skip objs), true).
Proof.
  apply (load_rechunk_dump_ok wfjvf Z Z zf_is_nl 10 wff_dumps wff_loads wff_is_null u8_encode u8_decode
           gz_comp gz_decomp cp_ok).
  - reflexivity.
  - exact orjsonf_loads_dumps.
  - exact orjsonf_dumps_no_newline.
  - exact orjsonf_dumps_nonempty.
  - exact wff_dumps_ok.
  - exact nl_ok.
  - exact u8_codec_ok.
  - exact gz_compression_ok.
Qed.

(* load_from_file (dump_to_file objs), any read size *)
Theorem C19_e2e_load_from_file_plain : forall (objs : list wfjvf) (size skip : nat) (ign : bool),
  load_from_file wfjvf Z Z zf_is_nl wff_loads wff_is_null u8_decode id_decompress size skip ign
    (dump_to_file wfjvf Z Z 10 wff_dumps u8_encode id_compress objs)
  = (filter (fun o => negb (wff_is_null o)) (skipn skip objs), true).
Proof.
  intros. unfold load_from_file. apply C19_e2e_load_any_rechunking_plain. unfold file_read. apply batches_concat.
Qed.
Theorem C19_e2e_load_from_file_gzip : forall (objs : list wfjvf) (size skip : nat) (ign : bool),
  load_from_file wfjvf Z Z zf_is_nl wff_loads wff_is_null u8_decode gz_decomp size skip ign
    (dump_to_file wfjvf Z Z 10 wff_dumps u8_encode gz_comp objs)
  = (filter (fun o => negb (wff_is_null o)) (skipn skip objs), true).
Proof.
  intros. unfold load_from_file. apply C19_e2e_load_any_rechunking_gzip. unfold file_read. apply batches_concat.
Qed.

(* ---------------------------------------------------------------------------------------------
   lines=False: a file holding ONE document, read in one piece (file.read(size=-1)); there is no line.unframe, every
   text item is parsed as it is, so what matters is that each stage hands the data over in ONE non-empty item
   --------------------------------------------------------------------------------------------- *)
Section OkCharsDoc.
Variable Obj : Type.
Variable Ch : Type.
Variable Byte : Type.
Variable nl : Ch.
Variable dumps : Obj -> list Ch.
Variable loads : list Ch -> option Obj.
Variable is_null : Obj -> bool.
Variable encode : list (list Ch) -> list (list Byte).
Variable decode : list (list Byte) -> option (list (list Ch)).
Variable compress : list (list Byte) -> list (list Byte).
Variable decompress : list (list Byte) -> option (list (list Byte)).
Variable okch : Ch -> Prop.

Hypothesis H_loads_dumps_nl : forall o, loads (dumps o ++ [nl]) = Some o.
Hypothesis H_dumps_ok : forall o, Forall okch (dumps o).
Hypothesis H_nl_ok : okch nl.
Hypothesis H_text_codec_whole_ok : forall cs r, Forall (Forall okch) cs ->
  drop_empty r = drop_empty [concat (encode cs)] ->
  exists cs', decode r = Some cs' /\ drop_empty cs' = drop_empty [concat cs].
Hypothesis H_compression_whole : forall bs r, drop_empty r = drop_empty [concat (compress bs)] ->
  exists bs', decompress r = Some bs' /\ drop_empty bs' = drop_empty [concat bs].

Theorem load_doc_chunks_dump_one_ok : forall o r ign, is_null o = false ->
  drop_empty r = drop_empty [dump_to_file Obj Ch Byte nl dumps encode compress [o]] ->
  load_doc_chunks Obj Ch Byte loads is_null decode decompress 0 ign r = ([o], true).
Proof.
  intros o r ign Hn H. unfold dump_to_file, file_write in H.
  destruct (H_compression_whole _ r H) as (bs & Hd & Hb).
  assert (Hok : Forall (Forall okch) (json_dump Obj Ch nl dumps [o])).
  { unfold json_dump. cbn [map]. constructor; [|constructor]. apply Forall_app.
    split; [apply H_dumps_ok | constructor; [exact H_nl_ok | constructor]]. }
  destruct (H_text_codec_whole_ok _ bs Hok Hb) as (cs & Hc & Hcc).
  unfold load_doc_chunks. rewrite Hd, Hc. unfold json_load. cbn [skipn].
  rewrite load_items_drop_empty, Hcc.
  unfold json_dump. cbn [map concat]. rewrite app_nil_r.
  unfold drop_empty. cbn [filter]. rewrite app_length. cbn [length].
  replace (length (dumps o) + 1 =? 0)%nat with false by (symmetry; apply Nat.eqb_neq; lia).
  cbn [negb load_items]. rewrite app_length. cbn [length].
  replace (length (dumps o) + 1 =? 0)%nat with false by (symmetry; apply Nat.eqb_neq; lia).
  now rewrite H_loads_dumps_nl, Hn.
Qed.

Theorem load_doc_from_file_dump_one_ok : forall o ign, is_null o = false ->
  load_doc_from_file Obj Ch Byte loads is_null decode decompress 0 ign
    (dump_to_file Obj Ch Byte nl dumps encode compress [o]) = ([o], true).
Proof.
  intros o ign Hn. unfold load_doc_from_file. apply load_doc_chunks_dump_one_ok; [assumption|].
  apply file_read_all_drop_empty.
Qed.
End OkCharsDoc.

(* ---- the UTF-8 codec model hands a text that arrives in one piece over in one piece ---- *)
Definition k8 : codec := codec_of EUtf8.
Definition p8 (b : list N) : option (N * list N) := to_opt (c_dec k8 false b).

Lemma k8_rt : forall (c : N) (rest : list N), c_ok k8 c = true -> c_dec k8 false (c_enc k8 c ++ rest) = Got c rest.
Proof. intros c rest H. cbn [k8 codec_of c_ok c_enc c_dec] in *. apply Utf8P.dec1_enc. now apply scalarb_spec. Qed.
Lemma k8_prog : forall (buf : list N) (c : N) (rest : list N),
  c_dec k8 false buf = Got c rest -> (length rest < length buf)%nat.
Proof. intros buf c rest H. cbn [k8 codec_of c_dec] in H. eapply Utf8P.dec1_progress; eassumption. Qed.
Lemma k8_ext : forall buf ext : list N, c_dec k8 false buf <> More ->
  c_dec k8 false (buf ++ ext) = match c_dec k8 false buf with Got c r => Got c (r ++ ext) | More => More | Bad => Bad end.
Proof. intros buf ext H. cbn [k8 codec_of c_dec] in *. now apply Utf8P.dec1_ext. Qed.
Lemma k8_nil : c_dec k8 false [] = More.
Proof. reflexivity. Qed.

Lemma p8_nil : Incremental.parse_buf N N p8 [] = ([], []).
Proof. exact (pb_nil k8 k8_prog k8_nil). Qed.
Lemma p8_enc : forall text, forallb (c_ok k8) text = true ->
  Incremental.parse_buf N N p8 (enc_str k8 text) = (text, []).
Proof.
  intros text H. rewrite <- (app_nil_r (enc_str k8 text)). unfold p8.
  rewrite (pb_enc_str k8 k8_rt k8_prog text [] H). fold p8. rewrite p8_nil, app_nil_r. reflexivity.
Qed.

Lemma drop_empty_concat : forall (A : Type) (l : list (list A)), concat (drop_empty l) = concat l.
Proof.
  intros A l. induction l as [|c l IH]; [reflexivity|]. unfold drop_empty in *. cbn [filter concat].
  destruct (length c =? 0)%nat eqn:E; cbn [negb concat].
  - apply Nat.eqb_eq in E. apply length_zero_iff_nil in E. subst c. exact IH.
  - rewrite IH. reflexivity.
Qed.
Lemma drop_empty_one : forall (A : Type) (w : list A), drop_empty [w] = match w with [] => [] | _ :: _ => [w] end.
Proof. intros A [|a w]; reflexivity. Qed.
Lemma drop_empty_nil_all : forall (A : Type) (l : list (list A)), drop_empty l = [] -> Forall (fun c => c = []) l.
Proof.
  intros A l. induction l as [|c l IH]; intros H; [constructor|]. unfold drop_empty in *. cbn [filter] in H.
  destruct (length c =? 0)%nat eqn:E; cbn [negb] in H; [|discriminate H].
  apply Nat.eqb_eq in E. apply length_zero_iff_nil in E. constructor; [exact E | apply IH; exact H].
Qed.
Lemma drop_empty_map : forall (A B : Type) (f : A -> B) (l : list (list A)),
  drop_empty (map (map f) l) = map (map f) (drop_empty l).
Proof.
  intros A B f l. induction l as [|c l IH]; [reflexivity|]. unfold drop_empty in *. cbn [map filter].
  rewrite map_length. destruct (length c =? 0)%nat; cbn [negb map]; rewrite IH; reflexivity.
Qed.

Lemma run8_empties : forall r, Forall (fun c => c = []) r ->
  Incremental.run_timed N N p8 [] r = (map (fun _ => []) r, []).
Proof.
  induction 1 as [|c r Hc Hr IH]; [reflexivity|]. subst c. cbn [Incremental.run_timed app map].
  rewrite p8_nil, IH. reflexivity.
Qed.
Lemma drop_empty_nils : forall (A B : Type) (r : list B), drop_empty (map (fun _ => @nil A) r) = [].
Proof. intros A B r. induction r as [|c r IH]; [reflexivity | exact IH]. Qed.

Lemma run8_whole : forall text r, forallb (c_ok k8) text = true ->
  drop_empty r = drop_empty [enc_str k8 text] ->
  drop_empty (fst (Incremental.run_timed N N p8 [] r)) = drop_empty [text].
Proof.
  intros text r Hok. induction r as [|c r IH]; intros H.
  - cbn [Incremental.run_timed fst]. rewrite drop_empty_one in H. destruct (enc_str k8 text) as [|b w] eqn:E; [|discriminate H].
    pose proof (p8_enc text Hok) as P. rewrite E, p8_nil in P. inversion P. reflexivity.
  - destruct c as [|b c].
    + cbn [Incremental.run_timed app]. rewrite p8_nil.
      destruct (Incremental.run_timed N N p8 [] r) as [uss r'] eqn:R. cbn [fst] in *.
      change (drop_empty ([] :: uss)) with (drop_empty uss). apply IH. exact H.
    + change (drop_empty ((b :: c) :: r)) with ((b :: c) :: drop_empty r) in H. rewrite drop_empty_one in H.
      destruct (enc_str k8 text) as [|b' w] eqn:E; [discriminate H|]. injection H as Hb Hc Hr. subst b c.
      apply drop_empty_nil_all in Hr. cbn [Incremental.run_timed app]. rewrite <- E, (p8_enc text Hok), run8_empties by exact Hr.
      cbv beta iota zeta. cbn [fst]. destruct text as [|t0 text']; [discriminate E|].
      unfold drop_empty at 1. cbn [filter length Nat.eqb negb]. fold (drop_empty (map (fun _ : list N => @nil N) r)).
      rewrite (drop_empty_nils N (list N) r). reflexivity.
Qed.

Lemma drop_empty_snoc_nil : forall (A : Type) (l : list (list A)), drop_empty (l ++ [[]]) = drop_empty l.
Proof. intros A l. unfold drop_empty. rewrite filter_app. cbn [filter length Nat.eqb negb]. apply app_nil_r. Qed.

Theorem decode8_whole : forall strs r, Forall (Forall (valid_cp EUtf8)) strs ->
  drop_empty r = drop_empty [concat (fst (Codec.Wrapper.encode EUtf8 strs))] ->
  exists outs, Codec.Wrapper.decode EUtf8 r = (outs, NoErr) /\ drop_empty outs = drop_empty [concat strs].
Proof.
  intros strs r Hv H. rewrite (encode_concat EUtf8 strs Hv) in H. unfold encoded in H.
  change (c_bom (codec_of EUtf8) false) with (@nil N) in H. cbn [app] in H. fold k8 in H.
  assert (Hok : forallb (c_ok k8) (concat strs) = true).
  { apply valid_all in Hv. apply forallb_concat. exact Hv. }
  assert (Hc : concat r = enc_str k8 (concat strs)).
  { rewrite <- (drop_empty_concat _ r), H, drop_empty_concat. cbn [concat]. apply app_nil_r. }
  unfold Codec.Wrapper.decode, decode_k. change (init_state (codec_of EUtf8)) with {| d_order := Known false; d_buf := [] |}.
  fold k8. rewrite (decode_known k8 k8_ext k8_prog k8_nil r [] (concat strs)); [| exact p8_nil | cbn [app]; rewrite Hc; apply p8_enc; exact Hok].
  eexists. split; [reflexivity|]. rewrite drop_empty_snoc_nil. apply run8_whole; assumption.
Qed.

Theorem u8_codec_whole_ok : forall cs r, Forall (Forall cp_ok) cs ->
  drop_empty r = drop_empty [concat (u8_encode cs)] ->
  exists cs', u8_decode r = Some cs' /\ drop_empty cs' = drop_empty [concat cs].
Proof.
  intros cs r Hok H.
  assert (V : Forall (Forall (valid_cp EUtf8)) (z2n cs)).
  { unfold z2n. apply Forall_forall. intros x Hx. apply in_map_iff in Hx. destruct Hx as (s & <- & Hs).
    rewrite Forall_forall in Hok. specialize (Hok s Hs). apply Forall_forall. intros c Hc.
    apply in_map_iff in Hc. destruct Hc as (z & <- & Hz). rewrite Forall_forall in Hok. cbn [valid_cp].
    apply cp_ok_scalar. apply Hok. exact Hz. }
  assert (C : drop_empty (z2n r) = drop_empty [concat (fst (Codec.Wrapper.encode EUtf8 (z2n cs)))]).
  { unfold z2n at 1. rewrite drop_empty_map, H. unfold u8_encode. rewrite concat_n2z.
    change (map (map Z.to_N) (drop_empty [map Z.of_N (concat (fst (Codec.Wrapper.encode EUtf8 (z2n cs))))]))
      with (z2n (drop_empty (n2z [concat (fst (Codec.Wrapper.encode EUtf8 (z2n cs)))]))).
    unfold n2z at 1. rewrite drop_empty_map. fold (n2z (drop_empty [concat (fst (Codec.Wrapper.encode EUtf8 (z2n cs)))])).
    apply z2n_n2z. }
  destruct (decode8_whole (z2n cs) (z2n r) V C) as (outs & D & E).
  exists (n2z outs). split; [unfold u8_decode; rewrite D; reflexivity|].
  unfold n2z. rewrite drop_empty_map, E. fold (n2z (drop_empty [concat (z2n cs)])).
  rewrite concat_z2n. unfold n2z. rewrite <- drop_empty_map. cbn [map]. rewrite of_to_nonneg; [reflexivity|].
  apply Forall_forall. intros c Hc. apply in_concat in Hc. destruct Hc as (s & Hs & Hc).
  rewrite Forall_forall in Hok. specialize (Hok s Hs). rewrite Forall_forall in Hok. destruct (Hok c Hc) as [[G _] _]. exact G.
Qed.

Theorem id_compression_whole_ok : forall bs r, drop_empty r = drop_empty [concat (id_compress bs)] ->
  exists bs', id_decompress r = Some bs' /\ drop_empty bs' = drop_empty [concat bs].
Proof. intros bs r H. exists r. split; [reflexivity | exact H]. Qed.

(* lines=False, compression=None: one document written with dump_to_file and read back in one piece *)
Theorem C19_e2e_load_doc_from_file_plain : forall (o : wfjvf) (ign : bool), wff_is_null o = false ->
  load_doc_from_file wfjvf Z Z wff_loads wff_is_null u8_decode id_decompress 0 ign
    (dump_to_file wfjvf Z Z 10 wff_dumps u8_encode id_compress [o]) = ([o], true).
Proof.
  apply (load_doc_from_file_dump_one_ok wfjvf Z Z 10 wff_dumps wff_loads wff_is_null u8_encode u8_decode
           id_compress id_decompress cp_ok).
  - exact orjsonf_loads_dumps_nl.
  - exact wff_dumps_ok.
  - exact nl_ok.
  - exact u8_codec_whole_ok.
  - exact id_compression_whole_ok.
Qed.

(* ---- the gzip model hands everything over at completion: every item before the last one is empty ---- *)
Definition gz_drun (st : bool * list Z) (r : list (list Z)) : list (list (event (list Z))) :=
  d_run (list Z) (list Z) (list Z) gz_dstep gz_deof gz_dflush b_empty false st r.

Lemma gz_drun_shape : forall r st, exists init last,
  gz_drun st r = init ++ [last] /\ Forall (fun g => payload g = []) init.
Proof.
  induction r as [|c r IH]; intros st.
  - exists [], (d_on_completed (list Z) (list Z) gz_deof gz_dflush st). split; [reflexivity | constructor].
  - unfold gz_drun. cbn [d_run]. fold (gz_drun).
    destruct (d_on_next (list Z) (list Z) (list Z) gz_dstep b_empty false st c) as [st' ev] eqn:E.
    destruct (IH st') as (init & last & H1 & H2). exists (ev :: init), last. unfold gz_drun in H1. rewrite H1.
    split; [reflexivity|]. constructor; [|exact H2].
    unfold d_on_next in E. destruct st as [alive s]. destruct alive.
    + unfold skipped in E. cbn [andb] in E. unfold gz_dstep in E.
      destruct (Inflate.gunzip (s ++ c)); inversion E; reflexivity.
    + inversion E. reflexivity.
Qed.

Lemma drop_empty_app_nils : forall (A : Type) (init : list (list A)) x,
  Forall (fun g => g = []) init -> drop_empty (init ++ [x]) = drop_empty [x].
Proof.
  intros A init x H. induction H as [|g init Hg Hi IH]; [reflexivity|]. subst g. exact IH.
Qed.

Theorem gz_compression_whole_ok : forall bs r, drop_empty r = drop_empty [concat (gz_comp bs)] ->
  exists bs', gz_decomp r = Some bs' /\ drop_empty bs' = drop_empty [concat bs].
Proof.
  intros bs r H.
  assert (Hc : concat r = payload (concat (gz_compress bs))).
  { rewrite <- (drop_empty_concat _ r), H, drop_empty_concat. cbn [concat]. rewrite app_nil_r.
    unfold gz_comp. apply concat_map_payload. }
  destruct (gz_roundtrip_any_rechunking false bs r Hc) as (_ & P & Cm & Ne).
  exists (map payload (gz_decompress false r)). split.
  - unfold gz_decomp. rewrite (existsb_error_false _ Ne), (existsb_completed_true _ Cm). reflexivity.
  - destruct (gz_drun_shape r (true, [])) as (init & last & H1 & H2).
    change (gz_drun (true, []) r) with (gz_decompress false r) in H1. rewrite H1 in *.
    rewrite map_app. cbn [map]. rewrite drop_empty_app_nils.
    + rewrite concat_app, payload_app in P. cbn [concat] in P. rewrite app_nil_r in P.
      assert (Z0 : payload (concat init) = []).
      { clear - H2. induction H2 as [|g init Hg Hi IH]; [reflexivity|]. cbn [concat]. rewrite payload_app, Hg, IH. reflexivity. }
      rewrite Z0 in P. cbn [app] in P. rewrite P. reflexivity.
    + apply Forall_forall. intros g Hg. apply in_map_iff in Hg. destruct Hg as (e & <- & He).
      rewrite Forall_forall in H2. apply H2. exact He.
Qed.

(* lines=False with the gzip model *)
Theorem C19_e2e_load_doc_from_file_gzip : forall (o : wfjvf) (ign : bool), wff_is_null o = false ->
  load_doc_from_file wfjvf Z Z wff_loads wff_is_null u8_decode gz_decomp 0 ign
    (dump_to_file wfjvf Z Z 10 wff_dumps u8_encode gz_comp [o]) = ([o], true).
Proof.
  apply (load_doc_from_file_dump_one_ok wfjvf Z Z 10 wff_dumps wff_loads wff_is_null u8_encode u8_decode
           gz_comp gz_decomp cp_ok).
  - exact orjsonf_loads_dumps_nl.
  - exact wff_dumps_ok.
  - exact nl_ok.
  - exact u8_codec_whole_ok.
  - exact gz_compression_whole_ok.
Qed.

(* ---------------------------------------------------------------------------------------------
   the whole stack evaluated: 0.1, a string with e-acute, the euro sign and an astral character, a nested object
   holding -0.0; files read back in chunks of 1, 7 and 13 bytes, with and without the gzip model
   --------------------------------------------------------------------------------------------- *)
Definition mk_wf (v : jvf) (H : jvf_wfb v = true) : wfjvf := exist (fun v => jvf_wfb v = true) v H.
Definition ex_values : list jvf :=
  [FFloat (mkfl false 7205759403792794 (-56));
   FStr [233; 8364; 128512];
   FObj [([97], FArr [FInt (-5); FNull; FFloat (mkfl true 0 0)]); ([98], FObj [])]].
Definition ex_objs : list wfjvf :=
  [mk_wf (FFloat (mkfl false 7205759403792794 (-56))) eq_refl;
   mk_wf (FStr [233; 8364; 128512]) eq_refl;
   mk_wf (FObj [([97], FArr [FInt (-5); FNull; FFloat (mkfl true 0 0)]); ([98], FObj [])]) eq_refl].
Definition ex_run_plain (size : nat) : list jvf * bool :=
  let r := load_from_file wfjvf Z Z zf_is_nl wff_loads wff_is_null u8_decode id_decompress size 0 false
             (dump_to_file wfjvf Z Z 10 wff_dumps u8_encode id_compress ex_objs) in
  (map wff_val (fst r), snd r).
Definition ex_run_gzip (size : nat) : list jvf * bool :=
  let r := load_from_file wfjvf Z Z zf_is_nl wff_loads wff_is_null u8_decode gz_decomp size 0 false
             (dump_to_file wfjvf Z Z 10 wff_dumps u8_encode gz_comp ex_objs) in
  (map wff_val (fst r), snd r).

(* the file without compression: three lines, UTF-8 *)
Example C19_e2e_file_example :
  dump_to_file wfjvf Z Z 10 wff_dumps u8_encode id_compress ex_objs =
  [48; 46; 49; 10;
   34; 195; 169; 226; 130; 172; 240; 159; 152; 128; 34; 10;
   123; 34; 97; 34; 58; 91; 45; 53; 44; 110; 117; 108; 108; 44; 45; 48; 46; 48; 93; 44; 34; 98; 34; 58; 123; 125; 125; 10].
Proof. vm_compute. reflexivity. Qed.
Example C19_e2e_plain_example :
  map ex_run_plain [1; 7; 13]%nat = [(ex_values, true); (ex_values, true); (ex_values, true)].
Proof. vm_compute. reflexivity. Qed.
Example C19_e2e_gzip_example :
  map ex_run_gzip [1; 7; 13]%nat = [(ex_values, true); (ex_values, true); (ex_values, true)].
Proof. vm_compute. reflexivity. Qed.
(* a damaged gzip file is refused: the last byte cut off *)
Example C19_e2e_gzip_truncated_example :
  gz_decomp [removelast (dump_to_file wfjvf Z Z 10 wff_dumps u8_encode gz_comp ex_objs)] = None.
Proof. vm_compute. reflexivity. Qed.

(* lines=False: one document (the nested object) written and read back in one piece, both compression settings *)
Definition ex_doc : wfjvf :=
  mk_wf (FObj [([97], FArr [FInt (-5); FNull; FFloat (mkfl true 0 0)]); ([98], FObj [])]) eq_refl.
Example C19_e2e_doc_example :
  (let r := load_doc_from_file wfjvf Z Z wff_loads wff_is_null u8_decode id_decompress 0 false
              (dump_to_file wfjvf Z Z 10 wff_dumps u8_encode id_compress [ex_doc]) in (map wff_val (fst r), snd r),
   let r := load_doc_from_file wfjvf Z Z wff_loads wff_is_null u8_decode gz_decomp 0 false
              (dump_to_file wfjvf Z Z 10 wff_dumps u8_encode gz_comp [ex_doc]) in (map wff_val (fst r), snd r))
  = (([wff_val ex_doc], true), ([wff_val ex_doc], true)).
Proof. vm_compute. reflexivity. Qed.

Print Assumptions C19_e2e_load_any_rechunking_plain.
Print Assumptions C19_e2e_load_any_rechunking_gzip.
Print Assumptions C19_e2e_load_from_file_plain.
Print Assumptions C19_e2e_load_from_file_gzip.
Print Assumptions C19_e2e_load_doc_from_file_plain.
Print Assumptions C19_e2e_load_doc_from_file_gzip.
