(* Proofs about Container/FloatText.v (CPython repr(float) / float(text) on finite binary64 values):
   float(repr(x)) = x whenever the digit search of repr succeeds (shortest_found x: an executable fact; that it holds
   for EVERY binary64 value is proved in FloatTextShortest.v: shortest_found_all); repr(x) consists of digits, '.', '-', '+', 'e' only, is non-empty, does
   not start with a double quote and holds no newline.  With these the FLOAT hypotheses of the CSV round-trip
   theorems of CsvProofs.v are discharged too: the corollaries csv_*_float_concrete at the end have BOTH number
   layers concrete (IntText for ints, FloatText for floats). *)
From Coq Require Import List Arith ZArith NArith Bool Lia Eqdep_dec.
From RxVerif Require Import Framing.Line Container.Csv Container.CsvProofs Container.IntText Container.IntTextProofs.
From RxVerif Require Import Container.FloatText.
Import ListNotations.
Local Open Scope Z_scope.

(* ---- the executable tests ---- *)
Lemma fl_eqb_eq : forall x y, fl_eqb x y = true -> x = y.
Proof.
  intros [s m e] [s' m' e'] H. unfold fl_eqb in H. cbn [fsign fm fe] in H.
  apply andb_prop in H. destruct H as [H H3]. apply andb_prop in H. destruct H as [H1 H2].
  apply Bool.eqb_prop in H1. apply Z.eqb_eq in H2. apply Z.eqb_eq in H3. subst. reflexivity.
Qed.

Lemma fl_eqb_refl : forall x, fl_eqb x x = true.
Proof. intros [s m e]. unfold fl_eqb. cbn [fsign fm fe]. rewrite Bool.eqb_reflx, !Z.eqb_refl. reflexivity. Qed.

Lemma fl_okb_ok : forall x, fl_okb x = true <-> fl_ok x.
Proof.
  intros x. unfold fl_okb, fl_ok.
  rewrite !orb_true_iff, !andb_true_iff, !Z.eqb_eq, !Z.leb_le, !Z.ltb_lt. intuition lia.
Qed.

(* ---- digits ---- *)
Lemma digits_of_spec : forall d, 0 <= d ->
  Forall digit_char (digits_of d) /\ fold_left dstep (digits_of d) 0 = d /\ digits_of d <> [].
Proof.
  intros [|p|p] H; [| |lia].
  - split; [repeat constructor; unfold digit_char; lia|]. split; [reflexivity | discriminate].
  - unfold digits_of. cbn [py_str_int]. split; [apply dec_digits_chars; constructor|].
    split; [rewrite dec_digits_val by lia; reflexivity | apply dec_digits_nonempty].
Qed.

Lemma read_digits_app : forall l a c rest, Forall digit_char l ->
  match rest with [] => True | x :: _ => is_digit x = false end ->
  read_digits a c (l ++ rest) = (fold_left dstep l a, c + Z.of_nat (length l), rest).
Proof.
  induction l as [|x l IH]; intros a c rest Hl Hr.
  - cbn [app fold_left length]. rewrite Z.add_0_r. destruct rest as [|y r]; [reflexivity|].
    cbn [read_digits]. rewrite Hr. reflexivity.
  - inversion Hl as [|? ? Hx Hl']; subst. cbn [app read_digits fold_left length].
    rewrite (is_digit_true x Hx). rewrite IH by assumption. unfold dstep. f_equal. f_equal. lia.
Qed.

Lemma fold_repeat_zero : forall n a, fold_left dstep (repeat 48 n) a = a * 10 ^ Z.of_nat n.
Proof.
  induction n as [|n IH]; intros a; [cbn; lia|]. cbn [repeat fold_left]. rewrite IH. unfold dstep.
  rewrite Nat2Z.inj_succ, Z.pow_succ_r by lia. lia.
Qed.

Lemma Forall_firstn_ : forall (A : Type) (P : A -> Prop) n (l : list A), Forall P l -> Forall P (firstn n l).
Proof.
  induction n as [|n IH]; intros l H; [constructor|]. destruct H as [|x l Hx Hl]; [constructor|].
  cbn [firstn]. constructor; [assumption | apply IH; assumption].
Qed.
Lemma Forall_skipn_ : forall (A : Type) (P : A -> Prop) n (l : list A), Forall P l -> Forall P (skipn n l).
Proof.
  induction n as [|n IH]; intros l H; [exact H|]. destruct H as [|x l Hx Hl]; [constructor|].
  cbn [skipn]. apply IH; assumption.
Qed.

Lemma repeat_digits : forall n, Forall digit_char (repeat 48 n).
Proof. induction n; cbn [repeat]; constructor; [unfold digit_char; lia | assumption]. Qed.

(* ---- the exponent ---- *)
Lemma py_int_of_exp_text : forall ex, py_int_of (exp_text ex) = Some ex.
Proof.
  intros ex. unfold exp_text.
  assert (P : parse_nat (if Z.abs ex <? 10 then [48; 48 + Z.abs ex] else py_str_int (Z.abs ex)) = Some (Z.abs ex)).
  { destruct (Z.abs ex <? 10) eqn:E; [apply Z.ltb_lt in E | apply Z.ltb_ge in E].
    - unfold parse_nat. rewrite parse_digits_val by (repeat constructor; unfold digit_char; lia).
      cbn [fold_left]. unfold dstep. f_equal. lia.
    - destruct (Z.abs ex) as [|p|p] eqn:A; [lia | | lia]. cbn [py_str_int]. apply parse_nat_digits. }
  destruct (ex <? 0) eqn:E; [apply Z.ltb_lt in E | apply Z.ltb_ge in E]; unfold py_int_of.
  - replace (45 =? 45) with true by reflexivity. rewrite P. cbn [option_map]. f_equal. lia.
  - replace (43 =? 45) with false by reflexivity. replace (43 =? 43) with true by reflexivity. rewrite P. f_equal. lia.
Qed.

Lemma read_exponent_exp_text : forall ex, read_exponent (101 :: exp_text ex) = Some ex.
Proof. intros ex. unfold read_exponent. replace ((101 =? 101) || (101 =? 69)) with true by reflexivity. apply py_int_of_exp_text. Qed.

(* ---- float() reads back the decimal that was written ---- *)
Lemma read_unsigned_sci : forall ds decpt, Forall digit_char ds -> ds <> [] ->
  read_unsigned (sci_text ds decpt) = Some (fold_left dstep ds 0, decpt - Z.of_nat (length ds)).
Proof.
  intros [|c r] decpt Hd Hn; [congruence|]. inversion Hd as [|? ? Hc Hr]; subst.
  unfold sci_text, read_unsigned. destruct r as [|c2 r].
  - change (([c] ++ 101 :: exp_text (decpt - 1))) with ([c] ++ (101 :: exp_text (decpt - 1))).
    rewrite read_digits_app; [|exact Hd|reflexivity].
    cbv beta iota zeta. replace (101 =? 46) with false by reflexivity.
    cbn [length fold_left]. replace (0 + Z.of_nat 1 + 0 =? 0) with false by reflexivity.
    rewrite read_exponent_exp_text. f_equal. f_equal. lia.
  - change ((c :: 46 :: c2 :: r) ++ 101 :: exp_text (decpt - 1))
      with ([c] ++ (46 :: (c2 :: r) ++ 101 :: exp_text (decpt - 1))).
    rewrite read_digits_app; [|constructor; [exact Hc|constructor]|reflexivity].
    cbv beta iota zeta. replace (46 =? 46) with true by reflexivity.
    rewrite read_digits_app; [|exact Hr|reflexivity].
    cbv beta iota zeta.
    replace (0 + Z.of_nat (length [c]) + (0 + Z.of_nat (length (c2 :: r))) =? 0) with false
      by (symmetry; apply Z.eqb_neq; cbn [length]; lia).
    rewrite read_exponent_exp_text. cbn [fold_left]. f_equal. f_equal. cbn [length]. lia.
Qed.

Lemma read_unsigned_fixed : forall ds decpt, Forall digit_char ds -> ds <> [] ->
  read_unsigned (fixed_text ds decpt) =
  Some (if decpt <? Z.of_nat (length ds) then (fold_left dstep ds 0, decpt - Z.of_nat (length ds))
        else (fold_left dstep ds 0 * 10 ^ (decpt - Z.of_nat (length ds) + 1), -1)).
Proof.
  intros ds decpt Hd Hn. unfold fixed_text. set (nd := Z.of_nat (length ds)).
  assert (Hnd : 0 < nd) by (unfold nd; destruct ds; [congruence | cbn [length]; lia]).
  destruct (decpt <=? 0) eqn:E1; [apply Z.leb_le in E1 | apply Z.leb_gt in E1].
  - (* 0.000DIGITS *)
    replace (decpt <? nd) with true by (symmetry; apply Z.ltb_lt; lia).
    unfold read_unsigned.
    change (48 :: 46 :: repeat 48 (Z.to_nat (- decpt)) ++ ds) with ([48] ++ (46 :: repeat 48 (Z.to_nat (- decpt)) ++ ds)).
    rewrite read_digits_app; [|constructor; [unfold digit_char; lia|constructor]|reflexivity].
    cbv beta iota zeta. replace (46 =? 46) with true by reflexivity.
    rewrite <- (app_nil_r (repeat 48 (Z.to_nat (- decpt)) ++ ds)).
    rewrite read_digits_app; [|apply Forall_app; split; [apply repeat_digits | assumption]|exact I].
    cbv beta iota zeta.
    rewrite app_length, repeat_length, Nat2Z.inj_add, Z2Nat.id by lia. fold nd.
    replace (0 + Z.of_nat (length [48]) + (0 + (- decpt + nd)) =? 0) with false
      by (symmetry; apply Z.eqb_neq; cbn [length]; lia).
    cbn [read_exponent]. rewrite fold_left_app, fold_repeat_zero. cbn [fold_left].
    replace (dstep 0 48) with 0 by reflexivity. rewrite Z.mul_0_l. f_equal. f_equal. lia.
  - destruct (decpt <? nd) eqn:E2; [apply Z.ltb_lt in E2 | apply Z.ltb_ge in E2].
    + (* DIG.ITS *)
      unfold read_unsigned. set (j := Z.to_nat decpt).
      assert (Hj : (j <= length ds)%nat) by (unfold j, nd in *; lia).
      rewrite read_digits_app; [|apply Forall_firstn_; assumption|reflexivity].
      cbv beta iota zeta. replace (46 =? 46) with true by reflexivity.
      rewrite <- (app_nil_r (skipn j ds)).
      rewrite read_digits_app; [|apply Forall_skipn_; assumption|exact I].
      cbv beta iota zeta.
      rewrite firstn_length, skipn_length, Nat.min_l by exact Hj.
      replace (0 + Z.of_nat j + (0 + Z.of_nat (length ds - j)) =? 0) with false
        by (symmetry; apply Z.eqb_neq; unfold j; lia).
      cbn [read_exponent]. rewrite <- fold_left_app, firstn_skipn. f_equal. f_equal. unfold j, nd in *. lia.
    + (* DIGITS000.0 *)
      unfold read_unsigned. set (n := Z.to_nat (decpt - nd)).
      change (ds ++ repeat 48 n ++ [46; 48]) with (ds ++ repeat 48 n ++ ([46] ++ [48])).
      rewrite app_assoc.
      change ((ds ++ repeat 48 n) ++ [46] ++ [48]) with ((ds ++ repeat 48 n) ++ (46 :: [48])).
      rewrite read_digits_app; [|apply Forall_app; split; [assumption | apply repeat_digits]|reflexivity].
      cbv beta iota zeta. replace (46 =? 46) with true by reflexivity.
      rewrite <- (app_nil_r [48]) at 1.
      rewrite read_digits_app; [|constructor; [unfold digit_char; lia|constructor]|exact I].
      cbv beta iota zeta.
      rewrite app_length, repeat_length, Nat2Z.inj_add. fold nd.
      replace (0 + (nd + Z.of_nat n) + (0 + Z.of_nat (length [48])) =? 0) with false
        by (symmetry; apply Z.eqb_neq; cbn [length]; lia).
      cbn [read_exponent]. rewrite fold_left_app, fold_repeat_zero. cbn [fold_left length]. unfold dstep.
      f_equal. f_equal. unfold n. rewrite Z2Nat.id by lia.
      replace (decpt - nd + 1) with (Z.succ (decpt - nd)) by lia. rewrite Z.pow_succ_r by lia. ring.
Qed.

(* the sign in front of a text that starts with a digit *)
Lemma read_decimal_signed : forall (s : bool) c r, digit_char c ->
  read_decimal ((if s then [45] else []) ++ c :: r) =
  match read_unsigned (c :: r) with Some (d, k) => Some (s, d, k) | None => None end.
Proof.
  intros s c r [H1 H2]. unfold read_decimal. destruct s; cbn [app].
  - replace (45 =? 45) with true by reflexivity. reflexivity.
  - replace (c =? 45) with false by (symmetry; apply Z.eqb_neq; lia).
    replace (c =? 43) with false by (symmetry; apply Z.eqb_neq; lia). reflexivity.
Qed.

Lemma sci_text_head : forall ds decpt, Forall digit_char ds -> ds <> [] ->
  exists c r, sci_text ds decpt = c :: r /\ digit_char c.
Proof.
  intros [|c r] decpt H Hn; [congruence|]. inversion H; subst. unfold sci_text. cbn [app].
  eexists; eexists; split; [reflexivity | assumption].
Qed.

Lemma fixed_text_head : forall ds decpt, Forall digit_char ds -> ds <> [] ->
  exists c r, fixed_text ds decpt = c :: r /\ digit_char c.
Proof.
  intros [|c r] decpt H Hn; [congruence|]. inversion H; subst. unfold fixed_text.
  destruct (decpt <=? 0) eqn:E1; [eexists; eexists; split; [reflexivity | unfold digit_char; lia]|].
  apply Z.leb_gt in E1. destruct (decpt <? Z.of_nat (length (c :: r))).
  - destruct (Z.to_nat decpt) as [|j] eqn:J; [lia|]. cbn [firstn app].
    eexists; eexists; split; [reflexivity | assumption].
  - cbn [app]. eexists; eexists; split; [reflexivity | assumption].
Qed.

(* read_decimal inverts dec_text, up to the rewriting of an integral value described by as_parsed *)
Theorem read_decimal_dec_text : forall s d k, 0 <= d ->
  read_decimal (dec_text s d k) = Some (s, fst (as_parsed d k), snd (as_parsed d k)).
Proof.
  intros s d k Hd. destruct (digits_of_spec d Hd) as (Hc & Hv & Hn).
  unfold dec_text, as_parsed, decpt_of. set (ds := digits_of d) in *. set (decpt := Z.of_nat (length ds) + k).
  destruct (use_exp decpt) eqn:U.
  - destruct (sci_text_head ds decpt Hc Hn) as (c & r & E & Hcd).
    rewrite E, read_decimal_signed by assumption. rewrite <- E, read_unsigned_sci by assumption.
    rewrite Hv. cbn [negb andb fst snd]. f_equal. f_equal. unfold decpt. lia.
  - destruct (fixed_text_head ds decpt Hc Hn) as (c & r & E & Hcd).
    rewrite E, read_decimal_signed by assumption. rewrite <- E, read_unsigned_fixed by assumption.
    rewrite Hv. cbn [negb andb].
    destruct (0 <=? k) eqn:K; [apply Z.leb_le in K | apply Z.leb_gt in K].
    + replace (decpt <? Z.of_nat (length ds)) with false by (symmetry; apply Z.ltb_ge; unfold decpt; lia).
      cbn [fst snd]. replace (decpt - Z.of_nat (length ds) + 1) with (k + 1) by (unfold decpt; lia). reflexivity.
    + replace (decpt <? Z.of_nat (length ds)) with true by (symmetry; apply Z.ltb_lt; unfold decpt; lia).
      cbn [fst snd]. f_equal. f_equal. unfold decpt. lia.
Qed.

Lemma py_float_of_dec_text : forall s d k, 0 <= d ->
  py_float_of (dec_text s d k) = float_of_dec s (fst (as_parsed d k)) (snd (as_parsed d k)).
Proof. intros s d k H. unfold py_float_of. rewrite read_decimal_dec_text by exact H. reflexivity. Qed.

(* ---- what the digit search returns ---- *)
Lemma shortest_dec_spec : forall x d k, shortest_dec x = Some (d, k) ->
  (fm x = 0 /\ d = 0 /\ k = 0) \/
  (0 < d /\ exists y, float_of_dec (fsign x) (fst (as_parsed d k)) (snd (as_parsed d k)) = Some y /\ fl_eqb y x = true).
Proof.
  intros x d k H. unfold shortest_dec in H.
  destruct (fm x =? 0) eqn:E0.
  - apply Z.eqb_eq in E0. inversion H; subst. left. repeat split; assumption.
  - right. destruct (scan17 x) as [k17 [[qx dlo] dhi]].
    destruct (search_digits x k17 qx dlo dhi steps) as [c|]; [|discriminate H].
    destruct (strip_zeros 17 c k17) as [d0 k0].
    destruct (converts_back x d0 k0) eqn:C; [|discriminate H]. inversion H; subst d0 k0.
    unfold converts_back in C. destruct (as_parsed d k) as [d' k'] eqn:A. cbn [fst snd].
    apply andb_prop in C. destruct C as [C1 C2]. apply Z.ltb_lt in C1. split; [exact C1|].
    destruct (float_of_dec (fsign x) d' k') as [y|]; [|discriminate C2]. exists y. split; [reflexivity | exact C2].
Qed.

(* ---- (a) float(repr(x)) = x ---- *)
Theorem py_float_roundtrip : forall x, fl_ok x -> shortest_found x -> py_float_of (py_str_float x) = Some x.
Proof.
  intros x Hok Hf. unfold shortest_found, shortest_foundb in Hf. unfold py_str_float.
  destruct (shortest_dec x) as [[d k]|] eqn:S; [|discriminate Hf].
  destruct (shortest_dec_spec x d k S) as [(Hm & -> & ->) | (Hd & y & Hy & Hyx)].
  - rewrite py_float_of_dec_text by lia. destruct x as [s m e]. cbn [fm fe fsign] in *. subst m.
    assert (e = 0) by (unfold fl_ok in Hok; cbn [fm fe] in Hok; lia). subst e. reflexivity.
  - rewrite py_float_of_dec_text by lia. rewrite Hy. apply fl_eqb_eq in Hyx. subst y. reflexivity.
Qed.

(* ---- (b) the characters of repr(x) ---- *)
Definition float_char (c : Z) : Prop := 48 <= c <= 57 \/ c = 46 \/ c = 45 \/ c = 43 \/ c = 101.

Lemma digits_of_chars : forall d, Forall float_char (digits_of d).
Proof.
  intros d. apply Forall_forall. intros c H. unfold digits_of in H. apply py_str_int_chars in H. unfold float_char. lia.
Qed.

Lemma exp_text_chars : forall ex, Forall float_char (exp_text ex).
Proof.
  intros ex. unfold exp_text. constructor; [destruct (ex <? 0); unfold float_char; lia|].
  destruct (Z.abs ex <? 10) eqn:E; [apply Z.ltb_lt in E | apply digits_of_chars].
  repeat constructor; unfold float_char; lia.
Qed.

Lemma sci_text_chars : forall ds decpt, Forall float_char ds -> Forall float_char (sci_text ds decpt).
Proof.
  intros [|c r] decpt H; [constructor|]. inversion H as [|? ? Hc Hr]; subst. unfold sci_text.
  apply Forall_app. split.
  - constructor; [exact Hc|]. destruct r as [|c2 r]; [constructor|]. constructor; [unfold float_char; lia | exact Hr].
  - constructor; [unfold float_char; lia | apply exp_text_chars].
Qed.

Lemma repeat_chars : forall n, Forall float_char (repeat 48 n).
Proof. induction n; cbn [repeat]; constructor; [unfold float_char; lia | assumption]. Qed.

Lemma fixed_text_chars : forall ds decpt, Forall float_char ds -> Forall float_char (fixed_text ds decpt).
Proof.
  intros ds decpt H. unfold fixed_text. destruct (decpt <=? 0).
  - constructor; [unfold float_char; lia|]. constructor; [unfold float_char; lia|].
    apply Forall_app. split; [apply repeat_chars | exact H].
  - destruct (decpt <? Z.of_nat (length ds)).
    + apply Forall_app. split; [apply Forall_firstn_; exact H|].
      constructor; [unfold float_char; lia | apply Forall_skipn_; exact H].
    + apply Forall_app. split; [exact H|]. apply Forall_app. split; [apply repeat_chars|].
      repeat constructor; unfold float_char; lia.
Qed.

Lemma dec_text_chars : forall s d k, Forall float_char (dec_text s d k).
Proof.
  intros s d k. unfold dec_text. apply Forall_app. split.
  - destruct s; [repeat constructor; unfold float_char; lia | constructor].
  - destruct (use_exp (decpt_of d k)); [apply sci_text_chars | apply fixed_text_chars]; apply digits_of_chars.
Qed.

Lemma dec_text_nonempty : forall s d k, dec_text s d k <> [].
Proof.
  intros s d k. unfold dec_text. intros H. apply app_eq_nil in H. destruct H as [_ H].
  pose proof (py_str_int_nonempty d) as Hn. unfold digits_of in H.
  destruct (use_exp (decpt_of d k)).
  - unfold sci_text in H. destruct (py_str_int d) as [|c r]; [congruence|]. discriminate H.
  - unfold fixed_text in H. destruct (decpt_of d k <=? 0); [discriminate H|].
    destruct (decpt_of d k <? Z.of_nat (length (py_str_int d))).
    + apply app_eq_nil in H. destruct H as [_ H]. discriminate H.
    + apply app_eq_nil in H. destruct H as [H _]. congruence.
Qed.

(* every character of repr(x) is a digit, '.', '-', '+' or 'e': for EVERY x (no condition) *)
Theorem py_str_float_chars : forall x c, In c (py_str_float x) -> float_char c.
Proof.
  intros x c H. revert c H. apply Forall_forall. unfold py_str_float.
  destruct (shortest_dec x) as [[d k]|]; [apply dec_text_chars|].
  destruct (scan17 x) as [k17 [[qx dlo] dhi]]. apply dec_text_chars.
Qed.

Theorem py_str_float_nonempty : forall x, py_str_float x <> [].
Proof.
  intros x. unfold py_str_float. destruct (shortest_dec x) as [[d k]|]; [apply dec_text_nonempty|].
  destruct (scan17 x) as [k17 [[qx dlo] dhi]]. apply dec_text_nonempty.
Qed.

Theorem py_str_float_not_in : forall p x, ~ float_char p -> ~ In p (py_str_float x).
Proof. intros p x Hp H. apply Hp. exact (py_str_float_chars x p H). Qed.

Theorem py_str_float_first_not_quote : forall x, first_is_quote (py_str_float x) = false.
Proof.
  intros x. pose proof (py_str_float_chars x) as H. destruct (py_str_float x) as [|c r]; [reflexivity|].
  cbn [first_is_quote]. apply Z.eqb_neq. unfold quote. specialize (H c (or_introl eq_refl)). unfold float_char in H. lia.
Qed.

Theorem py_str_float_no_nl : forall x, text_no_nl (py_str_float x).
Proof. intros x. unfold text_no_nl, newline. apply py_str_float_not_in. unfold float_char. lia. Qed.

(* the printed form of a float is admissible for every separator character outside  0..9 . - + e *)
Theorem py_float_printed : forall p x, ~ float_char p -> printed_ok p (py_str_float x).
Proof.
  intros p x Hp. split; [apply py_str_float_nonempty|]. split; [apply py_str_float_not_in; exact Hp|].
  apply py_str_float_first_not_quote.
Qed.

(* ---- evaluated examples (mirrored against CPython: FloatTextMirror.v holds several hundred more) ---- *)
(* repr(0.1) = '0.1', repr(-0.0) = '-0.0', repr(1e16) = '1e+16', repr(1.5e-05) = '1.5e-05', repr(5e-324) = '5e-324',
   repr(123456789012345.6) = '123456789012345.6', repr(2.0**-44) = '5.684341886080802e-14' *)
Example py_str_float_tenth : py_str_float (mkfl false 7205759403792794 (-56)) = [48; 46; 49].
Proof. vm_compute. reflexivity. Qed.
Example py_str_float_neg_zero : py_str_float (mkfl true 0 0) = [45; 48; 46; 48].
Proof. vm_compute. reflexivity. Qed.
Example py_str_float_1e16 : py_str_float (mkfl false 5000000000000000 1) = [49; 101; 43; 49; 54].
Proof. vm_compute. reflexivity. Qed.
Example py_str_float_15e_6 : py_str_float (mkfl false 8854437155380585 (-69)) = [49; 46; 53; 101; 45; 48; 53].
Proof. vm_compute. reflexivity. Qed.
Example py_str_float_min : py_str_float (mkfl false 1 (-1074)) = [53; 101; 45; 51; 50; 52].
Proof. vm_compute. reflexivity. Qed.
Example py_str_float_fixed : py_str_float (mkfl false 7901234496790118 (-6)) =
  [49; 50; 51; 52; 53; 54; 55; 56; 57; 48; 49; 50; 51; 52; 53; 46; 54].
Proof. vm_compute. reflexivity. Qed.
Example py_str_float_2pm44 : py_str_float (mkfl false 4503599627370496 (-96)) =
  [53; 46; 54; 56; 52; 51; 52; 49; 56; 56; 54; 48; 56; 48; 56; 48; 50; 101; 45; 49; 52].
Proof. vm_compute. reflexivity. Qed.
(* float('9007199254740993') = 9007199254740992.0 (a tie, to even), float('1e-400') = 0.0, float('.5') = 0.5,
   float('1e400') = inf: None here; float(''), float('.'), float('1e') raise ValueError *)
Example py_float_of_tie : py_float_of [57; 48; 48; 55; 49; 57; 57; 50; 53; 52; 55; 52; 48; 57; 57; 51] =
  Some (mkfl false 4503599627370496 1).
Proof. vm_compute. reflexivity. Qed.
Example py_float_of_tiny : py_float_of [49; 101; 45; 52; 48; 48] = Some (mkfl false 0 0).
Proof. vm_compute. reflexivity. Qed.
Example py_float_of_point5 : py_float_of [46; 53] = Some (mkfl false 4503599627370496 (-53)).
Proof. vm_compute. reflexivity. Qed.
Example py_float_of_huge : py_float_of [49; 101; 52; 48; 48] = None.
Proof. vm_compute. reflexivity. Qed.
Example py_float_of_bad : (py_float_of [], py_float_of [46], py_float_of [49; 101]) = (None, None, None).
Proof. vm_compute. reflexivity. Qed.
(* OUTSIDE the model: CPython answers float(' 1') = 1.0, float('1_0') = 10.0, float('inf') = inf; the model None *)
Example py_float_of_outside : (py_float_of [32; 49], py_float_of [49; 95; 48], py_float_of [105; 110; 102]) = (None, None, None).
Proof. vm_compute. reflexivity. Qed.

(* =============================================================================================
   (c) The CSV round-trip theorems with BOTH number layers concrete.
   F := the binary64 values on which the digit search succeeds (okfl: a value with the proof that the executable
   tests fl_okb and shortest_foundb accept it), str_float := repr, float_of := float followed by the same test
   (float(text) of a text written by dump always passes it).  FloatTextShortest.okflb_all: EVERY canonical binary64
   value passes the test, so okfl is the type of all of them.  No hypothesis about numbers is left; the one-character
   separator p must not be one of the characters a number is written with:  0..9 . - + e  (float_char).
   ============================================================================================= *)
Definition okflb (x : fl) : bool := fl_okb x && shortest_foundb x.
Definition okfl : Type := {x : fl | okflb x = true}.
Definition okfl_val (o : okfl) : fl := proj1_sig o.
Definition okfl_str (o : okfl) : list Z := py_str_float (okfl_val o).
Definition okfl_check (y : fl) : option okfl :=
  (if okflb y as b return (okflb y = b -> option okfl)
   then fun e => Some (exist _ y e) else fun _ => None) eq_refl.
Definition okfl_of (t : list Z) : option okfl :=
  match py_float_of t with
  | Some y => okfl_check y
  | None => None
  end.

Lemma okfl_check_aux : forall y (e : okflb y = true) b (e' : okflb y = b),
  (if b as b0 return (okflb y = b0 -> option okfl)
   then fun e0 => Some (exist _ y e0) else fun _ => None) e' = Some (exist _ y e).
Proof.
  intros y e b e'. destruct b.
  - rewrite (UIP_dec bool_dec e' e). reflexivity.
  - rewrite e in e'. discriminate e'.
Qed.
Lemma okfl_check_val : forall o, okfl_check (okfl_val o) = Some o.
Proof. intros [y e]. unfold okfl_check, okfl_val. cbn [proj1_sig]. apply okfl_check_aux. Qed.

Lemma okfl_ok : forall o, fl_ok (okfl_val o) /\ shortest_found (okfl_val o).
Proof.
  intros [y e]. cbn [okfl_val proj1_sig]. unfold okflb in e. apply andb_prop in e. destruct e as [e1 e2].
  split; [apply fl_okb_ok; exact e1 | exact e2].
Qed.

(* float_roundtrip *)
Theorem okfl_roundtrip : forall o, okfl_of (okfl_str o) = Some o.
Proof.
  intros o. unfold okfl_of, okfl_str. destruct (okfl_ok o) as [H1 H2].
  rewrite py_float_roundtrip by assumption. apply okfl_check_val.
Qed.
(* float_printed *)
Theorem okfl_printed : forall p o, ~ float_char p -> printed_ok p (okfl_str o).
Proof. intros p o H. apply py_float_printed; exact H. Qed.
Theorem okfl_no_nl : forall o, text_no_nl (okfl_str o).
Proof. intros o. apply py_str_float_no_nl. Qed.

Lemma float_char_int : forall p, ~ float_char p -> p <> 45 /\ ~ (48 <= p <= 57).
Proof. intros p H. unfold float_char in H. lia. Qed.

(* merge_escape_parts (split sep line) = the rendered fields *)
Theorem csv_merge_split_float_concrete : forall (p esc : Z),
  p <> quote -> p <> esc -> esc <> quote ->
  ~ float_char p ->
  (forall b, ~ In p (str_bool b)) ->
  forall (types : list ty) (row : list (value okfl)), Forall2 field_ok types row -> row <> [] ->
  merge_escape_parts [p] esc (str_split [p] (dump_line okfl py_str_int okfl_str [p] esc row))
  = map (render okfl py_str_int okfl_str esc) row.
Proof.
  intros p esc H1 H2 H3 Hp Hb. destruct (float_char_int p Hp) as [Hm Hd].
  apply csv_merge_split_int_concrete; try assumption. intro o. apply okfl_printed; exact Hp.
Qed.

(* one field: quote stripping, un-escaping and typed parsing give back the value *)
Theorem csv_field_float_concrete : forall (p esc : Z),
  esc <> quote ->
  ~ float_char p ->
  forall (t : ty) (v : value okfl), field_ok t v ->
  parse_field okfl py_int_of okfl_of t (unquote esc (render okfl py_str_int okfl_str esc v)) = Some v.
Proof.
  intros p esc H3 Hp. destruct (float_char_int p Hp) as [Hm Hd].
  apply (csv_field_int_concrete okfl okfl_str okfl_of p esc); try assumption; [exact okfl_roundtrip|].
  intro o. apply okfl_printed; exact Hp.
Qed.

(* line level: parse_line (dump_line row) = row, every row of 1.. columns, every string, every int, every float of okfl *)
Theorem csv_line_float_concrete : forall (p esc : Z),
  p <> quote -> p <> esc -> esc <> quote ->
  ~ float_char p ->
  (forall b, ~ In p (str_bool b)) ->
  forall (types : list ty) (row : list (value okfl)), Forall2 field_ok types row -> row <> [] ->
  parse_line okfl py_int_of okfl_of [p] esc types (dump_line okfl py_str_int okfl_str [p] esc row) = Some row.
Proof.
  intros p esc H1 H2 H3 Hp Hb. destruct (float_char_int p Hp) as [Hm Hd].
  apply csv_line_int_concrete; try assumption; [exact okfl_roundtrip|]. intro o. apply okfl_printed; exact Hp.
Qed.

(* file level: what dump writes, cut into ANY chunks, unframed by line.unframe and loaded, gives back the rows *)
Theorem csv_file_float_concrete : forall (p esc : Z),
  p <> quote -> p <> esc -> esc <> quote ->
  ~ float_char p ->
  (forall b, ~ In p (str_bool b)) ->
  p <> newline -> esc <> newline ->
  forall (types : list ty) (names : list (list Z)) (rows : list (list (value okfl))) (chunks : list (list Z)),
  Forall text_no_nl names ->
  Forall (fun row => Forall2 field_ok types row /\ row <> [] /\ Forall value_no_nl row) rows ->
  concat chunks = concat (dump_lines okfl py_str_int okfl_str [p] esc [newline] names rows) ->
  load_chunks okfl py_int_of okfl_of [p] esc types chunks = (rows, true).
Proof.
  intros p esc H1 H2 H3 Hp Hb Hn1 Hn2. destruct (float_char_int p Hp) as [Hm Hd].
  apply csv_file_int_concrete; try assumption; [exact okfl_roundtrip| |exact okfl_no_nl].
  intro o. apply okfl_printed; exact Hp.
Qed.

(* ... in particular with the 64 KiB reads of load_from_file, whatever the size of the file *)
Theorem csv_file_64k_float_concrete : forall (p esc : Z),
  p <> quote -> p <> esc -> esc <> quote ->
  ~ float_char p ->
  (forall b, ~ In p (str_bool b)) ->
  p <> newline -> esc <> newline ->
  forall (types : list ty) (names : list (list Z)) (rows : list (list (value okfl))),
  Forall text_no_nl names ->
  Forall (fun row => Forall2 field_ok types row /\ row <> [] /\ Forall value_no_nl row) rows ->
  load_file okfl py_int_of okfl_of [p] esc types
    (concat (dump_lines okfl py_str_int okfl_str [p] esc [newline] names rows)) = (rows, true).
Proof.
  intros p esc H1 H2 H3 Hp Hb Hn1 Hn2. destruct (float_char_int p Hp) as [Hm Hd].
  apply csv_file_64k_int_concrete; try assumption; [exact okfl_roundtrip| |exact okfl_no_nl].
  intro o. apply okfl_printed; exact Hp.
Qed.

(* the usual separators and escape character satisfy the side conditions: comma, semicolon, tab, bar with backslash *)
Example csv_side_conditions_ok : forall p, In p [44; 59; 9; 124] ->
  p <> quote /\ p <> 92 /\ 92 <> quote /\ ~ float_char p /\ (forall b, ~ In p (str_bool b)) /\ p <> newline /\ 92 <> newline.
Proof.
  intros p H. unfold quote, newline, float_char. cbn [In] in H.
  repeat split; try lia; intros b Hb; destruct b; cbn [str_bool In] in Hb; lia.
Qed.

Print Assumptions py_float_roundtrip.
Print Assumptions py_float_printed.
Print Assumptions py_str_float_no_nl.
Print Assumptions okfl_roundtrip.
Print Assumptions csv_merge_split_float_concrete.
Print Assumptions csv_field_float_concrete.
Print Assumptions csv_line_float_concrete.
Print Assumptions csv_file_float_concrete.
Print Assumptions csv_file_64k_float_concrete.
