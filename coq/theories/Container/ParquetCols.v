(* Column layer of rxsci/container/parquet.py: create_record transposes a batch of row dicts into one list per
   schema column; load_from_file rebuilds the rows with  dict(zip(schema_names, row)) for row in zip( *columns).
   Executable; no proofs in this file.

   parquet.py:
     _create_record(data):
        columns_data = [ [] for n in columns_name]
        for v in data:
            for i, n in enumerate(columns_name):
                columns_data[i].append(v[n])              # KeyError when the row lacks the column
        RecordBatch.from_arrays([pa.array(columns_data[i], ...) for i, n in enumerate(columns_name)])
     _load_file: for batch in pf.iter_batches(...):
        rows = [dict(zip(schema_names, row)) for row in zip( *batch.to_pydict().values())]
   A row dict is an association list in insertion order (keys unique); a record batch is the list of its
   columns.  pyarrow's arrays are NOT modelled: a column is the list of its values. *)
From Coq Require Import List Arith Bool.
Import ListNotations.

Section Cols.
Variables K V : Type.
Variable keq : K -> K -> bool.

Definition row := list (K * V).

Fixpoint lookup (r : row) (n : K) : option V :=
  match r with
  | [] => None
  | (k, v) :: t => if keq k n then Some v else lookup t n
  end.

(* inner loop: for i, n in enumerate(columns_name): columns_data[i].append(v[n]) *)
Fixpoint append_fields (names : list K) (cols : list (list V)) (r : row) : option (list (list V)) :=
  match names, cols with
  | [], _ => Some cols
  | n :: ns, c :: cs =>
      match lookup r n with
      | None => None
      | Some v => match append_fields ns cs r with None => None | Some cs' => Some ((c ++ [v]) :: cs') end
      end
  | _ :: _, [] => None
  end.

Definition create_step (names : list K) (acc : option (list (list V))) (r : row) : option (list (list V)) :=
  match acc with None => None | Some cols => append_fields names cols r end.

(* None = the call raised (KeyError) *)
Definition create_cols (names : list K) (data : list row) : option (list (list V)) :=
  fold_left (create_step names) data (Some (map (fun _ => []) names)).

(* zip( *columns): stops at the shortest column; no column = no row *)
Fixpoint heads_tails (cols : list (list V)) : option (list V * list (list V)) :=
  match cols with
  | [] => Some ([], [])
  | c :: cs =>
      match c with
      | [] => None
      | x :: t => match heads_tails cs with None => None | Some (hs, ts) => Some (x :: hs, t :: ts) end
      end
  end.
Fixpoint zipn_f (fuel : nat) (cols : list (list V)) : list (list V) :=
  match fuel with
  | O => []
  | S f => match heads_tails cols with None => [] | Some (hs, ts) => hs :: zipn_f f ts end
  end.
Definition zipn (cols : list (list V)) : list (list V) :=
  match cols with [] => [] | c :: _ => zipn_f (length c) cols end.

(* dict(zip(schema_names, row)): schema names are distinct, so the dict is the list of pairs in schema order *)
Definition rows_of_cols (names : list K) (cols : list (list V)) : list row :=
  map (fun rv => combine names rv) (zipn cols).

(* the values of a row under the schema names, in schema order; None when a name is missing *)
Fixpoint project (names : list K) (r : row) : option (list V) :=
  match names with
  | [] => Some []
  | n :: ns => match lookup r n with
               | None => None
               | Some v => match project ns r with None => None | Some vs => Some (v :: vs) end
               end
  end.
End Cols.
