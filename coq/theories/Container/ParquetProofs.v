(* Proofs about the parquet dump/load model (Parquet.v): for all rows, all batch sizes. *)
From Coq Require Import List Arith Bool NArith Lia.
From RxVerif Require Import Container.Parquet.
Import ListNotations.

Section ParquetProofs.
Variable R : Type.
Notation batch_step := (batch_step R).
Notation batch_finish := (batch_finish R).
Notation batch_run := (batch_run R).
Notation batches := (batches R).

Definition pending (st : list R * bool) : list R := let '(b, full) := st in if full then [] else b.

(* nothing lost, nothing duplicated, order kept - from any scan state *)
Lemma batch_run_concat : forall n rows st, concat (concat (batch_run n st rows)) = pending st ++ rows.
Proof.
  intros n. induction rows as [|i rows IH]; intros [b full].
  - cbn. destruct full; cbn; [reflexivity|]. destruct b; cbn; [reflexivity|]. now rewrite !app_nil_r.
  - cbn [Parquet.batch_run Parquet.batch_step].
    destruct (length (if full then [i] else b ++ [i]) =? n); cbn [concat]; rewrite ?concat_app, IH; cbn [pending app].
    + destruct full; cbn; [reflexivity|]. now rewrite <- !app_assoc.
    + destruct full; cbn; [reflexivity|]. now rewrite <- !app_assoc.
Qed.

Theorem batches_concat : forall n rows, concat (batches n rows) = rows.
Proof. intros. unfold Parquet.batches, batch_timed. now rewrite batch_run_concat. Qed.

Theorem batches_nil : forall n, batches n [] = [].
Proof. reflexivity. Qed.

(* per-step emissions and final scan state, to split batch_run *)
Fixpoint steps (n : nat) (st : list R * bool) (rows : list R) : list (list (list R)) :=
  match rows with
  | [] => []
  | r :: rs => snd (batch_step n st r) :: steps n (fst (batch_step n st r)) rs
  end.
Fixpoint final (n : nat) (st : list R * bool) (rows : list R) : list R * bool :=
  match rows with [] => st | r :: rs => final n (fst (batch_step n st r)) rs end.

Lemma batch_run_split : forall n rows st, batch_run n st rows = steps n st rows ++ [batch_finish (final n st rows)].
Proof.
  intros n. induction rows as [|i rows IH]; intros st; [reflexivity|].
  cbn [Parquet.batch_run steps final]. destruct (batch_step n st i) as [st' out] eqn:E. cbn [fst snd app].
  now rewrite IH.
Qed.

Lemma steps_full : forall n rows st, Forall (Forall (fun c => length c = n)) (steps n st rows).
Proof.
  intros n. induction rows as [|i rows IH]; intros [b full]; cbn [steps]; constructor; [|apply IH].
  cbn. destruct (length (if full then [i] else b ++ [i]) =? n) eqn:E; cbn; [|constructor].
  apply Nat.eqb_eq in E. constructor; [exact E|constructor].
Qed.

Definition wf (n : nat) (st : list R * bool) : Prop := let '(b, full) := st in full = false -> length b < n.

Lemma step_wf : forall n st i, 1 <= n -> wf n st -> wf n (fst (batch_step n st i)).
Proof.
  intros n [b full] i Hn H. cbn. intros E. apply Nat.eqb_neq in E. destruct full; cbn in *.
  - lia.
  - rewrite app_length in *. cbn in *. specialize (H eq_refl). lia.
Qed.
Lemma final_wf : forall n rows st, 1 <= n -> wf n st -> wf n (final n st rows).
Proof.
  intros n. induction rows as [|i rows IH]; intros st Hn H; [exact H|]. cbn [final]. apply IH; auto.
  now apply step_wf.
Qed.
Lemma finish_shape : forall n st, wf n st ->
  Forall (fun c => 1 <= length c < n) (batch_finish st) /\ length (batch_finish st) <= 1.
Proof.
  intros n [b full] H. unfold Parquet.batch_finish. destruct full; cbn [negb andb]; [split; [constructor|cbn; lia]|].
  destruct (0 <? length b) eqn:E; [|split; [constructor|cbn; lia]].
  apply Nat.ltb_lt in E. specialize (H eq_refl). split; [|cbn; lia]. constructor; [lia|constructor].
Qed.

(* chunks of exactly n, then at most one shorter non-empty chunk *)
Theorem batches_shape : forall n rows, 1 <= n ->
  exists full tail, batches n rows = full ++ tail /\ Forall (fun c => length c = n) full /\
                    Forall (fun c => 1 <= length c < n) tail /\ length tail <= 1.
Proof.
  intros n rows Hn. unfold Parquet.batches, batch_timed. rewrite batch_run_split, concat_app. cbn [concat].
  rewrite app_nil_r. exists (concat (steps n ([], false) rows)), (batch_finish (final n ([], false) rows)).
  assert (W : wf n (final n ([], false) rows)) by (apply final_wf; [exact Hn|cbn; intros; lia]).
  destruct (finish_shape n _ W) as [F1 F2]. repeat split; auto.
  pose proof (steps_full n rows ([], false)) as S. clear -S.
  induction S as [|x l Hx Hl IH]; cbn; [constructor|]. apply Forall_app. auto.
Qed.

Lemma full_lengths : forall n (full : list (list R)), Forall (fun c => length c = n) full ->
  map (@length R) full = repeat n (length full) /\ length (concat full) = n * length full.
Proof.
  intros n full H. induction H as [|c l Hc Hl [IH1 IH2]]; cbn; [split; [reflexivity|lia]|].
  rewrite app_length, IH1, IH2, Hc. split; [reflexivity|lia].
Qed.

(* the batch sizes depend on the row count only: k/n full batches, then k mod n rows if not zero *)
Theorem batches_sizes : forall n rows, 1 <= n ->
  map (@length R) (batches n rows) = batch_sizes n (length rows).
Proof.
  intros n rows Hn. destruct (batches_shape n rows Hn) as (full & tail & E & F & T & L).
  pose proof (batches_concat n rows) as C. rewrite E in C. rewrite E, map_app.
  destruct (full_lengths n full F) as [M1 M2].
  assert (Hlen : length rows = n * length full + length (concat tail)).
  { rewrite <- C, concat_app, app_length. lia. }
  unfold batch_sizes. destruct tail as [|t [|t2 tail]]; cbn in L; [| |lia].
  - cbn in Hlen. rewrite Nat.add_0_r in Hlen.
    assert (Q : length rows / n = length full) by (rewrite Hlen, Nat.mul_comm; apply Nat.div_mul; lia).
    assert (Rm : length rows mod n = 0) by (rewrite Hlen, Nat.mul_comm; apply Nat.mod_mul; lia).
    rewrite Q, Rm, M1. reflexivity.
  - cbn in Hlen. rewrite app_nil_r in Hlen. pose proof (Forall_inv T) as Ht. cbn beta in Ht.
    assert (Q : length full = length rows / n) by (apply (Nat.div_unique _ _ _ (length t)); lia).
    assert (Rm : length t = length rows mod n) by (apply (Nat.mod_unique _ _ (length full)); lia).
    rewrite <- Q, <- Rm, M1. destruct (length t =? 0) eqn:Z; [apply Nat.eqb_eq in Z; lia|]. reflexivity.
Qed.

(* ---- create_record / dump / load ---- *)
Lemma fill_app : forall data buf, fill R buf data = buf ++ data.
Proof.
  unfold fill. induction data as [|v data IH]; intros buf; cbn; [now rewrite app_nil_r|].
  rewrite IH. now rewrite <- app_assoc.
Qed.
Lemma create_record_id : forall data, create_record R data = data.
Proof. intros. unfold create_record. now rewrite fill_app. Qed.

Theorem dump_batches : forall n rows, dump R n rows = batches n rows.
Proof.
  intros. unfold dump. induction (batches n rows) as [|b bs IH]; cbn; [reflexivity|].
  now rewrite create_record_id, IH.
Qed.

Theorem file_rows_dump : forall n rows, file_rows R (dump R n rows) = rows.
Proof. intros. unfold file_rows. rewrite dump_batches. apply batches_concat. Qed.

Theorem load_dump : forall m n rows, load R m (dump R n rows) = rows.
Proof. intros. unfold load. rewrite file_rows_dump. apply batches_concat. Qed.

Theorem row_groups_dump : forall n rows, 1 <= n ->
  row_groups R None (dump R n rows) = batch_sizes n (length rows).
Proof. intros. cbn. rewrite dump_batches. now apply batches_sizes. Qed.
End ParquetProofs.

(* the unrepaired create_record (buffers shared by all calls) does not round-trip *)
Lemma shared_buffers_refuted : exists (n : nat) (rows : list N),
  concat (to_record_shared N [] (batches N n rows)) <> rows.
Proof. exists 2, [0; 1; 2; 3]%N. vm_compute. discriminate. Qed.
