(* Correspondence checker for C19.  Executable only.
   CSmall: a small file.  texts = what orjson.dumps gave for identifier 0 (null), 1, 2, ...; objs = the
           identifiers dumped; dump_out = the items rxsci json.dump emitted; chunks = the text chunks
           that entered line.unframe (tap); lines_out = the lines it emitted while each chunk was pushed
           and at completion (tap); tbl = what orjson.loads answered on each distinct non-empty line
           (Some id | None = raised); items = identifiers of the objects load_from_file delivered.
   CBig:   a big file, by lengths.  fsize/rsize/read_sizes = file size, read size, sizes of the chunks
           file.read delivered (tap); segs = per text chunk, the lengths of the pieces between newlines;
           lens_out = lengths of the lines unframe emitted per chunk; n_items = number of objects delivered.
           raw = None: the file object is the builtin buffered one (full chunks, then the rest);
           raw = Some caps: the custom open_obj returned a raw stream whose k-th read call had at most
           caps[k] bytes at hand (recorded by the stream itself, one entry per read call file.read made).
   CDoc:   lines=False on a file holding one document.  fsize / read_sizes as above (file.read(size=-1): the
           whole file in one chunk); chunks = the text items that entered load (tap), each NON-EMPTY text
           replaced by a one-character key (the k-th distinct text -> [k]; '' -> []: load only looks at
           len(i) > 0 and at json.loads(i)); tbl = what orjson.loads answered on each key; items as in CSmall.
           raw = Some caps: the reader is a raw stream, read(-1) = readall() = read(buf) until an empty read
           (buf = io.DEFAULT_BUFFER_SIZE), then file.read asks once more: one more (empty) read call. *)
From Coq Require Import List ZArith NArith Bool Arith.
From RxVerif Require Import Base.Corr Framing.Line Container.Parquet Container.JsonLines Container.Json Container.FloatText Container.JsonFloat.
Import ListNotations.

Inductive c19case :=
| CRaised
| CSmall (texts : list (list Z)) (objs : list N) (dump_out chunks : list (list Z))
         (lines_out : list (list (list Z))) (tbl : list (list Z * option N)) (skip : nat) (ignore : bool)
         (items : list N) (completed : bool)
| CBig (fsize rsize : N) (raw : option (list N)) (read_sizes : list N) (segs lens_out : list (list N))
       (skip : nat) (n_items : N) (completed : bool)
| CDoc (fsize buf : N) (raw : option (list N)) (read_sizes : list N) (chunks : list (list Z))
       (tbl : list (list Z * option N)) (skip : nat) (ignore : bool) (items : list N) (completed : bool)
(* the model of orjson on the float-free subset (Container/Json.v) against the real library:
   dumps = (value, the bytes rxsci json.dump emitted for it, newline removed = orjson.dumps(value)),
   loads = (text, what orjson.loads answers on it: None = it raises or the result holds a float) *)
| CJsonModel (dumps : list (jv * list Z)) (loads : list (list Z * option jv))
(* the same with finite binary64 floats (Container/JsonFloat.v): a float travels as the triple (sign, m, e) of its
   canonical form (ffloat); loads answers None only when orjson raises *)
| CJsonFloat (fdumps : list (jvf * list Z)) (floads : list (list Z * option jvf)).

Definition ns_eqb := list_eqb N.eqb.
Definition count_nonzero (l : list N) : N := N.of_nat (length (filter (fun x => negb (x =? 0)%N) l)).

(* when load fails (a line does not parse) the subscription is disposed in the middle of a chunk: the
   lines seen by the tap are then a prefix of the lines of the chunks delivered so far *)
Fixpoint zss_prefix (a b : list (list Z)) : bool :=
  match a, b with
  | [], _ => true
  | x :: a', y :: b' => zs_eqb x y && zss_prefix a' b'
  | _, [] => false
  end.

Definition c19_check (c : c19case) : bool :=
  match c with
  | CRaised => false
  | CSmall texts objs dump_out chunks lines_out tbl skip ignore items completed =>
      let lines := z_unframe chunks in
      let r := z_json_load tbl skip ignore (concat lines) in
      zss_eqb (z_json_dump texts objs) dump_out
      && (if completed then list_eqb zss_eqb lines lines_out else zss_prefix (concat lines_out) (concat lines))
      && ns_eqb (fst r) items && Bool.eqb (snd r) completed
  | CBig fsize rsize raw read_sizes segs lens_out skip n_items completed =>
      let lens := len_run_timed 0 segs in
      match raw with
      | None => ns_eqb (map N.of_nat (batch_sizes (N.to_nat rsize) (N.to_nat fsize))) read_sizes
      | Some caps =>
          (* the chunks are what the stream delivered call by call; the loop made one more call (the empty
             read) and by then the whole file had been delivered *)
          ns_eqb (raw_sizes rsize caps fsize) read_sizes
          && (N.of_nat (length caps) =? N.of_nat (length read_sizes) + 1)%N
          && (fold_right N.add 0%N read_sizes =? fsize)%N
      end
      && list_eqb ns_eqb lens lens_out
      && (count_nonzero (skipn skip (concat lens)) =? n_items)%N
      && completed
  | CDoc fsize buf raw read_sizes chunks tbl skip ignore items completed =>
      let r := z_json_load tbl skip ignore chunks in
      ns_eqb (doc_read_sizes fsize) read_sizes
      && match raw with
         | None => true
         | Some caps =>
             (* readall: short reads of at most buf bytes until the empty one; they add up to the file; a
                non-empty file costs one more call (the second read(-1) of the loop of file.read) *)
             let s := raw_sizes buf caps fsize in
             (fold_right N.add 0%N s =? fsize)%N
             && (N.of_nat (length caps) =? N.of_nat (length s) + (if (fsize =? 0)%N then 1 else 2))%N
         end
      && ns_eqb (fst r) items && Bool.eqb (snd r) completed
  | CJsonModel dumps loads =>
      forallb (fun c => jv_wfb (fst c) && zs_eqb (json_print (fst c)) (snd c)
                        && match json_parse (snd c) with Some v => jv_eqb v (fst c) | None => false end) dumps
      && forallb (fun c => match json_parse (fst c), snd c with
                           | Some v, Some w => jv_eqb v w
                           | None, None => true
                           | _, _ => false
                           end) loads
  | CJsonFloat fdumps floads => jsonf_model_check fdumps floads
  end.
