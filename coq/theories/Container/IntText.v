(* The INT half of the number layer of Container/Csv.v made concrete: CPython's str(n) and int(text) for ints.
   Strings are lists of code points.  Executable; no proofs in this file.

   py_str_int n  = str(n) for type(n) is int: "0" for 0, otherwise an optional '-' (45) followed by the decimal
                   digits (48..57), most significant first, without leading zero.
   py_int_of t   = the fragment of int(t) needed here: an optional single sign '+' (43) or '-' (45), then one or
                   more ASCII digits and nothing else give Some value; every other text gives None (ValueError).
                   CPython's int() additionally accepts surrounding whitespace, single underscores between digits
                   and non-ASCII decimal digits: such texts are OUTSIDE this model (it answers None for them, where
                   CPython answers a value); the CSV dump never produces them for an int. *)
From Coq Require Import List ZArith NArith Bool.
Import ListNotations.
Local Open Scope Z_scope.

(* the decimal digits of n in front of acc.  `fuel` halves at every step while n is divided by ten, so any
   fuel >= n is enough; py_str_int starts with fuel = n. *)
Fixpoint dec_digits (fuel : positive) (n : N) (acc : list Z) : list Z :=
  match n with
  | N0 => acc
  | Npos _ =>
      let (q, r) := N.div_eucl n 10 in
      let acc' := (48 + Z.of_N r) :: acc in
      match fuel with
      | xH => acc'
      | xO f | xI f => dec_digits f q acc'
      end
  end.

Definition py_str_int (n : Z) : list Z :=
  match n with
  | Z0 => [48]
  | Zpos p => dec_digits p (Npos p) []
  | Zneg p => 45 :: dec_digits p (Npos p) []
  end.

Definition is_digit (c : Z) : bool := (48 <=? c) && (c <=? 57).

(* the value of a digit string read after the value acc; None at the first non-digit *)
Fixpoint parse_digits (acc : Z) (t : list Z) : option Z :=
  match t with
  | [] => Some acc
  | c :: r => if is_digit c then parse_digits (10 * acc + (c - 48)) r else None
  end.
(* one or more digits *)
Definition parse_nat (t : list Z) : option Z :=
  match t with [] => None | _ :: _ => parse_digits 0 t end.

Definition py_int_of (t : list Z) : option Z :=
  match t with
  | [] => None
  | c :: r => if c =? 45 then option_map Z.opp (parse_nat r)
              else if c =? 43 then parse_nat r
              else parse_nat t
  end.
