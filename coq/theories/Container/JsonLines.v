(* Model of rxsci/container/json.py (dump, load, dump_to_file, load_from_file with lines=True, and with
   lines=False on a file that holds ONE document: load_doc_from_file at the end of the Section).
   orjson, the text codec (rs.data.encode/decode, C17) and the compression stage (C16) are NOT modelled
   here: they enter as Section variables.  The rxsci logic modelled: one text item per object with the
   newline appended, the stage order, file.write = append / file.read(size) = a re-chunking (buffered file:
   full chunks then the rest; raw stream: whatever each read call delivers, raw_read), line
   unframing (REUSED from Framing.Line), skip, the len(line) > 0 filter, the None filter.
   Executable; no proofs in this file.

   json.py:  dump.on_next(i):  observer.on_next(json.dumps(i).decode() + newline)
             load:  ops.skip(skip) | ops.map(load_json) | ops.filter(lambda i: i is not None)
                    load_json(i): json.loads(i) if len(i) > 0 else None; an exception is re-raised unless
                                  ignore_error, in which case None is returned
             dump_to_file: dump | rs.data.encode(encoding) | [compress] | file.write(mode='wb')
             load_from_file: file.read(mode='rb', size=64*1024) | [decompress] | rs.data.decode(encoding)
                             | line.unframe() | load(skip, ignore_error)
             load_from_file(lines=False): file.read(mode='rb', size=-1) | [decompress] | rs.data.decode(encoding)
                             | load(skip, ignore_error)         (no unframe: every text item is parsed as it is) *)
From Coq Require Import List Arith Bool ZArith NArith.
From RxVerif Require Import Framing.Line Container.Parquet.
Import ListNotations.

(* the items of a chunk sequence that are not empty (b'' / '' items are delivered by the flush of the
   compression stage and of the incremental codec at completion; load filters them: len(i) > 0) *)
Definition drop_empty {A : Type} (l : list (list A)) : list (list A) :=
  filter (fun c => negb (length c =? 0)) l.

Section JsonLines.
Variable Obj : Type.                         (* JSON values *)
Variable Ch : Type.                          (* characters *)
Variable Byte : Type.
Variable is_nl : Ch -> bool.
Variable nl : Ch.
Variable dumps : Obj -> list Ch.             (* json.dumps(i).decode() *)
Variable loads : list Ch -> option Obj.      (* json.loads(line); None = raises *)
Variable is_null : Obj -> bool.              (* the loaded value is None *)

Definition json_dump (objs : list Obj) : list (list Ch) := map (fun o => dumps o ++ [nl]) objs.

(* items delivered, and whether the stream completes (false: on_error) *)
Fixpoint load_items (ignore_error : bool) (lines : list (list Ch)) : list Obj * bool :=
  match lines with
  | [] => ([], true)
  | l :: ls =>
      if length l =? 0 then load_items ignore_error ls                  (* load_json gives None: filtered *)
      else match loads l with
           | None => if ignore_error then load_items ignore_error ls   (* None: filtered *)
                     else ([], false)                                  (* map raises: on_error *)
           | Some o => let '(os, c) := load_items ignore_error ls in
                       if is_null o then (os, c) else (o :: os, c)
           end
  end.
Definition json_load (skip : nat) (ignore_error : bool) (lines : list (list Ch)) : list Obj * bool :=
  load_items ignore_error (skipn skip lines).

(* the text codec stage and the (optional) compression stage, as functions on whole chunk sequences;
   None = the stage signals an error *)
Variable encode : list (list Ch) -> list (list Byte).
Variable decode : list (list Byte) -> option (list (list Ch)).
Variable compress : list (list Byte) -> list (list Byte).
Variable decompress : list (list Byte) -> option (list (list Byte)).

(* file.write appends every chunk; file.read(size) gives chunks of exactly `size` bytes, then the
   non-empty rest: the same cutting as rs.data.batch, reused *)
Definition file_write (chunks : list (list Byte)) : list Byte := concat chunks.
Definition file_read (size : nat) (f : list Byte) : list (list Byte) := batches Byte size f.

(* file.read(size) over a RAW stream (a custom open_obj may return an io.RawIOBase-like object: pipe, socket,
   remote store): the k-th call f.read(size) may legitimately deliver FEWER bytes than asked before the end
   of the data - min(size, cap_k, bytes left), where cap_k is what the stream has at hand at that call; only
   an EMPTY read means end of file.  file.py:  data = f.read(size)
                                               while not disposed and len(data) > 0:
                                                   observer.on_next(data); data = f.read(size)
   caps = the caps of the successive calls (the last one is the call that returned nothing). *)
Fixpoint raw_read (size : nat) (caps : list nat) (f : list Byte) : list (list Byte) :=
  match caps with
  | [] => []
  | c :: cs => let n := Nat.min (Nat.min size c) (length f) in
               if n =? 0 then [] else firstn n f :: raw_read size cs (skipn n f)
  end.

Definition dump_to_file (objs : list Obj) : list Byte := file_write (compress (encode (json_dump objs))).
(* from the byte chunks that file.read delivers (items delivered before a stage error are not modelled) *)
Definition load_chunks (skip : nat) (ignore_error : bool) (r : list (list Byte)) : list Obj * bool :=
  match decompress r with
  | None => ([], false)
  | Some bs => match decode bs with
               | None => ([], false)
               | Some cs => json_load skip ignore_error (Line.run Ch is_nl [] cs)
               end
  end.
Definition load_from_file (size skip : nat) (ignore_error : bool) (f : list Byte) : list Obj * bool :=
  load_chunks skip ignore_error (file_read size f).

(* ---- lines=False ----
   file.read(size=-1):  data = f.read(-1)
                        while not disposed and len(data) > 0:  observer.on_next(data); data = f.read(-1)
   f.read(-1) gives everything up to the end of the data, so the WHOLE file is delivered as ONE chunk (no
   chunk at all when the file is empty).  Over a raw stream (io.RawIOBase) read(-1) is readall(): it calls
   read(buf) - buf = io.DEFAULT_BUFFER_SIZE - until a call delivers nothing and returns the concatenation.
   There is no line.unframe in this mode: every text item that comes out of decode is handed to load as it
   is, so the document is only parsed correctly when it arrives in one piece. *)
Definition file_read_all (f : list Byte) : list (list Byte) := match f with [] => [] | _ => [f] end.
Definition raw_readall (buf : nat) (caps : list nat) (f : list Byte) : list Byte := concat (raw_read buf caps f).
Definition load_doc_chunks (skip : nat) (ignore_error : bool) (r : list (list Byte)) : list Obj * bool :=
  match decompress r with
  | None => ([], false)
  | Some bs => match decode bs with
               | None => ([], false)
               | Some cs => json_load skip ignore_error cs
               end
  end.
Definition load_doc_from_file (skip : nat) (ignore_error : bool) (f : list Byte) : list Obj * bool :=
  load_doc_chunks skip ignore_error (file_read_all f).
End JsonLines.

(* size-level abstraction of file_read_all (tied to it by JsonLinesProofs.file_read_all_sizes) *)
Definition doc_read_sizes (fsize : N) : list N := if (fsize =? 0)%N then [] else [fsize].

(* ---- length-level abstraction of line.unframe: a text chunk is represented by the lengths of the
   pieces str.split('\n') cuts it into; used for big files (tied to Framing.Line by
   JsonLinesProofs.len_run_timed_spec) ---- *)
Definition len_step (acc : N) (segs : list N) : N * list N :=
  match segs with
  | [] => (acc, [])
  | s0 :: rest => let lines := (acc + s0)%N :: rest in (last lines 0%N, removelast lines)
  end.
Definition len_finish (acc : N) : list N := if (acc =? 0)%N then [] else [acc].
Fixpoint len_run_timed (acc : N) (chunks : list (list N)) : list (list N) :=
  match chunks with
  | [] => [len_finish acc]
  | c :: cs => let '(acc', out) := len_step acc c in out :: len_run_timed acc' cs
  end.

(* ---- size-level abstraction of raw_read (tied to it by JsonLinesProofs.raw_read_sizes): the sizes of the
   chunks file.read delivers from a raw stream, from the read size, the caps of the successive calls and the
   file size; used by the correspondence check ---- *)
Fixpoint raw_sizes (rsize : N) (caps : list N) (left : N) : list N :=
  match caps with
  | [] => []
  | c :: cs => let n := N.min (N.min rsize c) left in
               if (n =? 0)%N then [] else n :: raw_sizes rsize cs (left - n)%N
  end.

(* ---- executable instance for the correspondence check: objects are identifiers, json.dumps /
   json.loads are replaced by recorded tables (what orjson answered on the strings of this case) ---- *)
Definition zs_eq (a b : list Z) : bool :=
  (length a =? length b) && forallb (fun p => Z.eqb (fst p) (snd p)) (combine a b).
Fixpoint tbl_loads (tbl : list (list Z * option N)) (l : list Z) : option N :=
  match tbl with
  | [] => None
  | (k, v) :: t => if zs_eq k l then v else tbl_loads t l
  end.
Definition tbl_dumps (texts : list (list Z)) (o : N) : list Z := nth (N.to_nat o) texts [].
(* identifier 0 is JSON null *)
Definition id_is_null (o : N) : bool := (o =? 0)%N.
Definition z_json_dump (texts : list (list Z)) (objs : list N) : list (list Z) :=
  json_dump N Z 10%Z (tbl_dumps texts) objs.
Definition z_json_load (tbl : list (list Z * option N)) (skip : nat) (ignore_error : bool)
  (lines : list (list Z)) : list N * bool :=
  json_load N Z (tbl_loads tbl) id_is_null skip ignore_error lines.
