(* Proofs about the model of orjson in Json.v: the round trip loads (dumps v) = v at the character level and at
   the byte level (also with trailing whitespace, e.g. the newline that rxsci's json.dump appends), the dumped
   text holds no control character (in particular no raw newline), is not empty, is valid UTF-8.
   These are the premises H_loads_dumps, H_dumps_no_newline, H_dumps_nonempty, H_loads_dumps_nl of C19,
   proved for the model. *)
From Coq Require Import List ZArith Bool Lia Arith Setoid.
From RxVerif Require Import Container.Json.
Import ListNotations.
Local Open Scope Z_scope.

(* ---------- tactics ---------- *)
(* goals  b = true / b = false  for b built from comparisons of Z *)
Ltac bsolve :=
  unfold cp_okb, int_okb; unfold is_cont, is_surr, is_ws, is_digit, is_high, is_low;
  repeat rewrite ?andb_true_iff, ?andb_false_iff, ?orb_true_iff, ?orb_false_iff, ?negb_true_iff, ?negb_false_iff,
                 ?Z.ltb_lt, ?Z.ltb_ge, ?Z.leb_le, ?Z.leb_gt, ?Z.eqb_eq, ?Z.eqb_neq;
  lia.
(* decide one `if` of the goal whose condition is determined by the context *)
Ltac ifS :=
  match goal with
  | |- context [if ?b then _ else _] =>
      first [ replace b with true by (symmetry; bsolve)
            | replace b with false by (symmetry; bsolve) ];
      cbv beta match
  end.

(* ---------- induction principle for the nested type ---------- *)
Fixpoint jv_ind' (P : jv -> Prop)
  (Hnull : P JNull) (Hbool : forall b, P (JBool b)) (Hint : forall z, P (JInt z)) (Hstr : forall s, P (JStr s))
  (Harr : forall l, Forall P l -> P (JArr l))
  (Hobj : forall m, Forall (fun kv => P (snd kv)) m -> P (JObj m))
  (v : jv) {struct v} : P v :=
  match v with
  | JNull => Hnull
  | JBool b => Hbool b
  | JInt z => Hint z
  | JStr s => Hstr s
  | JArr l =>
      Harr l ((fix go (l : list jv) : Forall P l :=
                 match l with
                 | [] => Forall_nil P
                 | x :: t => Forall_cons x (jv_ind' P Hnull Hbool Hint Hstr Harr Hobj x) (go t)
                 end) l)
  | JObj m =>
      Hobj m ((fix go (m : list (list Z * jv)) : Forall (fun kv => P (snd kv)) m :=
                 match m with
                 | [] => Forall_nil _
                 | kv :: t =>
                     Forall_cons kv
                       (match kv as kv0 return P (snd kv0) with
                        | (k, x) => jv_ind' P Hnull Hbool Hint Hstr Harr Hobj x
                        end) (go t)
                 end) m)
  end.

(* ---------- UTF-8 ---------- *)
Lemma utf8_decode_cons : forall b0 r,
  utf8_decode (b0 :: r) =
      if (0 <=? b0) && (b0 <? 0x80) then cons_opt b0 (utf8_decode r)
      else if b0 <? 0xC2 then None
      else if b0 <? 0xE0 then
        match r with
        | b1 :: r1 =>
            if is_cont b1 then cons_opt ((b0 - 0xC0) * 64 + (b1 - 0x80)) (utf8_decode r1) else None
        | _ => None
        end
      else if b0 <? 0xF0 then
        match r with
        | b1 :: b2 :: r2 =>
            if is_cont b1 && is_cont b2 then
              let c := (b0 - 0xE0) * 4096 + (b1 - 0x80) * 64 + (b2 - 0x80) in
              if (0x800 <=? c) && negb (is_surr c) then cons_opt c (utf8_decode r2) else None
            else None
        | _ => None
        end
      else if b0 <? 0xF5 then
        match r with
        | b1 :: b2 :: b3 :: r3 =>
            if is_cont b1 && is_cont b2 && is_cont b3 then
              let c := (b0 - 0xF0) * 262144 + (b1 - 0x80) * 4096 + (b2 - 0x80) * 64 + (b3 - 0x80) in
              if (0x10000 <=? c) && (c <=? 0x10FFFF) then cons_opt c (utf8_decode r3) else None
            else None
        | _ => None
        end
      else None.
Proof. reflexivity. Qed.

Lemma utf8_decode_enc1 : forall c r, cp_ok c -> utf8_decode (utf8_enc1 c ++ r) = cons_opt c (utf8_decode r).
Proof.
  intros c r [Hr Hs]. unfold utf8_enc1.
  assert (Q2 : c / 4096 = c / 64 / 64) by (rewrite Z.div_div by lia; reflexivity).
  assert (Q3 : c / 262144 = c / 64 / 64 / 64) by (rewrite !Z.div_div by lia; reflexivity).
  rewrite Q3, Q2. clear Q2 Q3.
  pose proof (Z.div_mod c 64 ltac:(lia)) as D1. pose proof (Z.mod_pos_bound c 64 ltac:(lia)) as B1.
  set (q1 := c / 64) in *. set (m1 := c mod 64) in *.
  pose proof (Z.div_mod q1 64 ltac:(lia)) as D2. pose proof (Z.mod_pos_bound q1 64 ltac:(lia)) as B2.
  set (q2 := q1 / 64) in *. set (m2 := q1 mod 64) in *.
  pose proof (Z.div_mod q2 64 ltac:(lia)) as D3. pose proof (Z.mod_pos_bound q2 64 ltac:(lia)) as B3.
  set (q3 := q2 / 64) in *. set (m3 := q2 mod 64) in *.
  clearbody q3 m3. clearbody q2 m2. clearbody q1 m1.
  destruct (c <? 128) eqn:E1; [apply Z.ltb_lt in E1 | apply Z.ltb_ge in E1].
  { cbn [app]. rewrite utf8_decode_cons. ifS. reflexivity. }
  destruct (c <? 2048) eqn:E2; [apply Z.ltb_lt in E2 | apply Z.ltb_ge in E2].
  { cbn [app]. rewrite utf8_decode_cons. ifS. ifS. ifS. ifS. f_equal. lia. }
  destruct (c <? 65536) eqn:E3; [apply Z.ltb_lt in E3 | apply Z.ltb_ge in E3].
  { cbn [app]. rewrite utf8_decode_cons. ifS. ifS. ifS. ifS. ifS. cbv zeta.
    replace ((224 + q2 - 224) * 4096 + (128 + m2 - 128) * 64 + (128 + m1 - 128)) with c by lia.
    ifS. reflexivity. }
  cbn [app]. rewrite utf8_decode_cons. ifS. ifS. ifS. ifS. ifS. ifS. cbv zeta.
  replace ((240 + q3 - 240) * 262144 + (128 + m3 - 128) * 4096 + (128 + m2 - 128) * 64 + (128 + m1 - 128))
    with c by lia.
  ifS. reflexivity.
Qed.

Theorem utf8_decode_encode : forall s, str_ok s -> utf8_decode (utf8_encode s) = Some s.
Proof.
  induction 1 as [|c s Hc Hs IH]; [reflexivity|].
  unfold utf8_encode in *. simpl flat_map. rewrite utf8_decode_enc1 by assumption. rewrite IH. reflexivity.
Qed.

(* ---------- strings ---------- *)
Lemma parse_chars_raw : forall c r, 32 <= c -> c <> 34 -> c <> 92 ->
  parse_chars (c :: r) = cons_res c (parse_chars r).
Proof.
  intros c r H1 H2 H3. cbn [parse_chars].
  replace (c =? 34) with false by (symmetry; bsolve).
  replace (c =? 92) with false by (symmetry; bsolve).
  replace (c <? 32) with false by (symmetry; bsolve).
  reflexivity.
Qed.

Lemma parse_chars_print_char : forall c r, cp_ok c ->
  parse_chars (print_char c ++ r) = cons_res c (parse_chars r).
Proof.
  intros c r [Hr _].
  destruct (c <? 32) eqn:E; [apply Z.ltb_lt in E | apply Z.ltb_ge in E].
  - assert (H : c = 0 \/ c = 1 \/ c = 2 \/ c = 3 \/ c = 4 \/ c = 5 \/ c = 6 \/ c = 7 \/ c = 8 \/ c = 9 \/
                c = 10 \/ c = 11 \/ c = 12 \/ c = 13 \/ c = 14 \/ c = 15 \/ c = 16 \/ c = 17 \/ c = 18 \/
                c = 19 \/ c = 20 \/ c = 21 \/ c = 22 \/ c = 23 \/ c = 24 \/ c = 25 \/ c = 26 \/ c = 27 \/
                c = 28 \/ c = 29 \/ c = 30 \/ c = 31) by lia.
    repeat (destruct H as [H | H]; [subst c; reflexivity|]). subst c; reflexivity.
  - destruct (Z.eq_dec c 34) as [->|N1]; [reflexivity|].
    destruct (Z.eq_dec c 92) as [->|N2]; [reflexivity|].
    unfold print_char. repeat ifS. cbn [app]. apply parse_chars_raw; assumption.
Qed.

Lemma parse_chars_print : forall s r, str_ok s -> parse_chars (print_chars s ++ 34 :: r) = Some (s, r).
Proof.
  intros s r H. induction H as [|c s Hc Hs IH]; [reflexivity|].
  unfold print_chars in *. cbn [flat_map]. rewrite <- app_assoc. rewrite parse_chars_print_char by assumption.
  rewrite IH. reflexivity.
Qed.

Lemma print_string_app : forall s r, print_string s ++ r = 34 :: print_chars s ++ 34 :: r.
Proof. intros. unfold print_string. cbn [app]. rewrite <- app_assoc. reflexivity. Qed.

(* ---------- integers ---------- *)
Definition digits_val (l : list Z) (acc : Z) : Z := fold_left (fun a c => a * 10 + (c - 48)) l acc.
Definition all_digits (l : list Z) : Prop := Forall (fun c => 48 <= c <= 57) l.

Lemma parse_digits_app : forall l r acc, all_digits l -> parse_digits (l ++ r) acc = parse_digits r (digits_val l acc).
Proof.
  induction l as [|c l IH]; intros r acc H; [reflexivity|].
  inversion H; subst. cbn [app parse_digits]. replace (is_digit c) with true by (symmetry; bsolve).
  rewrite IH by assumption. reflexivity.
Qed.

(* what may follow a number: not a digit, and not . e E (orjson would read a float) *)
Definition num_stop (r : list Z) : Prop :=
  match r with
  | [] => True
  | c :: _ => ~ 48 <= c <= 57 /\ c <> 46 /\ c <> 101 /\ c <> 69
  end.

Lemma parse_digits_stop : forall r acc, num_stop r -> parse_digits r acc = (acc, r).
Proof.
  intros [|c r] acc H; [reflexivity|]. cbn [parse_digits]. destruct H as [H _].
  replace (is_digit c) with false by (symmetry; bsolve). reflexivity.
Qed.

Lemma float_mark_stop : forall r, num_stop r -> float_mark r = false.
Proof. intros [|c r] H; [reflexivity|]. destruct H as (_ & H1 & H2 & H3). unfold float_mark. bsolve. Qed.

Lemma digits_val_snoc : forall l d acc, digits_val (l ++ [d]) acc = digits_val l acc * 10 + (d - 48).
Proof. intros. unfold digits_val. rewrite fold_left_app. reflexivity. Qed.

Lemma print_nat_fuel_spec : forall f n, 0 <= n < 2 ^ (Z.of_nat f + 1) ->
  all_digits (print_nat_fuel f n) /\ digits_val (print_nat_fuel f n) 0 = n /\
  exists c t, print_nat_fuel f n = c :: t /\ (0 < n -> c <> 48).
Proof.
  induction f as [|f IH]; intros n H.
  - change (2 ^ (Z.of_nat 0 + 1)) with 2 in H. assert (E : n = 0 \/ n = 1) by lia.
    destruct E; subst n; cbn; (split; [repeat constructor; lia | split; [reflexivity | eexists; eexists; split; [reflexivity | lia]]]).
  - cbn [print_nat_fuel]. destruct (n <? 10) eqn:E; [apply Z.ltb_lt in E | apply Z.ltb_ge in E].
    + split; [repeat constructor; lia|]. split; [unfold digits_val; cbn [fold_left]; lia|].
      eexists; eexists; split; [reflexivity | lia].
    + assert (P : 2 ^ (Z.of_nat (S f) + 1) = 2 * 2 ^ (Z.of_nat f + 1)).
      { rewrite Nat2Z.inj_succ. replace (Z.succ (Z.of_nat f) + 1) with (Z.succ (Z.of_nat f + 1)) by lia.
        rewrite Z.pow_succ_r by lia. reflexivity. }
      rewrite P in H. clear P.
      pose proof (Z.div_mod n 10 ltac:(lia)) as D. pose proof (Z.mod_pos_bound n 10 ltac:(lia)) as B.
      set (q := n / 10) in *. set (m := n mod 10) in *. clearbody q m.
      destruct (IH q ltac:(lia)) as (A & V & c & t & Ec & Nz).
      split; [| split].
      * apply Forall_app. split; [assumption | repeat constructor; lia].
      * rewrite digits_val_snoc, V. lia.
      * rewrite Ec. exists c, (t ++ [48 + m]). split; [reflexivity|]. intros _. apply Nz. lia.
Qed.

Lemma print_nat_spec : forall n, 0 <= n ->
  all_digits (print_nat n) /\ digits_val (print_nat n) 0 = n /\
  exists c t, print_nat n = c :: t /\ (0 < n -> c <> 48).
Proof.
  intros n H. unfold print_nat. apply print_nat_fuel_spec.
  rewrite Z2Nat.id by apply Z.log2_nonneg.
  destruct (Z.eq_dec n 0) as [->|N]; [cbn; lia|].
  pose proof (Z.log2_spec n ltac:(lia)) as L. unfold Z.succ in L. lia.
Qed.

Lemma parse_nat_print : forall n r, 0 <= n -> num_stop r -> parse_nat (print_nat n ++ r) = Some (n, r).
Proof.
  intros n r Hn Hr. destruct (Z.eq_dec n 0) as [->|N].
  - change (print_nat 0) with [48]. cbn [app]. unfold parse_nat.
    replace (48 =? 48) with true by reflexivity.
    destruct r as [|d r']; [reflexivity|]. destruct Hr as [Hd _].
    replace (is_digit d) with false by (symmetry; bsolve). reflexivity.
  - destruct (print_nat_spec n Hn) as (A & V & c & t & E & Nz).
    rewrite E in *. inversion A as [|c' t' Hc Ht]; subst c' t'.
    cbn [app]. unfold parse_nat.
    replace (c =? 48) with false by (symmetry; apply Z.eqb_neq; apply Nz; lia).
    replace (is_digit c) with true by (symmetry; bsolve).
    rewrite parse_digits_app by assumption. rewrite parse_digits_stop by assumption.
    unfold digits_val in *. cbn [fold_left] in V. replace (c - 48) with (0 * 10 + (c - 48)) by lia.
    rewrite V. reflexivity.
Qed.

Lemma print_nat_head : forall n, 0 <= n -> exists c t, print_nat n = c :: t /\ 48 <= c <= 57.
Proof.
  intros n H. destruct (print_nat_spec n H) as (A & _ & c & t & E & _). exists c, t. split; [assumption|].
  rewrite E in A. inversion A; assumption.
Qed.

Lemma print_int_head : forall z, exists c t, print_int z = c :: t /\ (c = 45 \/ 48 <= c <= 57).
Proof.
  intros z. unfold print_int. destruct (z <? 0) eqn:E; [apply Z.ltb_lt in E | apply Z.ltb_ge in E].
  - eexists; eexists; split; [reflexivity | left; reflexivity].
  - destruct (print_nat_head z E) as (c & t & H & Hc). exists c, t. split; [assumption | right; assumption].
Qed.

Lemma parse_number_print_int : forall z r, int_ok z -> num_stop r ->
  parse_number (print_int z ++ r) = Some (JInt z, r).
Proof.
  intros z r Hz Hr. unfold int_ok in Hz. unfold print_int.
  destruct (z <? 0) eqn:E; [apply Z.ltb_lt in E | apply Z.ltb_ge in E].
  - cbn [app]. unfold parse_number. replace (45 =? 45) with true by reflexivity.
    rewrite parse_nat_print by (assumption || lia). rewrite float_mark_stop by assumption.
    replace (- z <=? 2 ^ 63) with true by (symmetry; apply Z.leb_le; lia).
    rewrite Z.opp_involutive. reflexivity.
  - pose proof (parse_nat_print z r E Hr) as P.
    destruct (print_nat_head z E) as (c & t & H & Hc). rewrite H in *. cbn [app] in *.
    unfold parse_number. replace (c =? 45) with false by (symmetry; bsolve).
    rewrite P. rewrite float_mark_stop by assumption.
    replace (z <? 2 ^ 64) with true by (symmetry; apply Z.ltb_lt; lia). reflexivity.
Qed.

(* ---------- values ---------- *)
Lemma skip_ws_nows : forall c r, is_ws c = false -> skip_ws (c :: r) = c :: r.
Proof. intros c r H. cbn [skip_ws]. rewrite H. reflexivity. Qed.

Lemma parse_value_str : forall f r,
  parse_value (S f) (34 :: r) = match parse_chars r with Some (cs, r') => Some (JStr cs, r') | None => None end.
Proof. reflexivity. Qed.

Lemma parse_value_arr : forall f r,
  parse_value (S f) (91 :: r) =
  match skip_ws r with
  | [] => None
  | d :: r' => if d =? 93 then Some (JArr [], r')
               else match parse_elems f (d :: r') with
                    | Some (vs, r'') => Some (JArr vs, r'')
                    | None => None
                    end
  end.
Proof. reflexivity. Qed.

Lemma parse_value_obj : forall f r,
  parse_value (S f) (123 :: r) =
  match skip_ws r with
  | [] => None
  | d :: r' => if d =? 125 then Some (JObj [], r')
               else match parse_members f (d :: r') with
                    | Some (ms, r'') => Some (JObj (dict_norm ms), r'')
                    | None => None
                    end
  end.
Proof. reflexivity. Qed.

Lemma parse_value_num : forall f c r, c = 45 \/ 48 <= c <= 57 ->
  parse_value (S f) (c :: r) = parse_number (c :: r).
Proof.
  intros f c r [->|H]; [reflexivity|].
  assert (E : c = 48 \/ c = 49 \/ c = 50 \/ c = 51 \/ c = 52 \/ c = 53 \/ c = 54 \/ c = 55 \/ c = 56 \/ c = 57)
    by lia.
  repeat (destruct E as [E | E]; [subst c; reflexivity|]). subst c; reflexivity.
Qed.

Lemma parse_elems_S : forall f s,
  parse_elems (S f) s =
  match parse_value f s with
  | None => None
  | Some (v, r) =>
      match skip_ws r with
      | [] => None
      | c :: r' =>
          if c =? 44 then
            match parse_elems f r' with
            | Some (vs, r'') => Some (v :: vs, r'')
            | None => None
            end
          else if c =? 93 then Some ([v], r')
          else None
      end
  end.
Proof. reflexivity. Qed.

Lemma parse_members_quote : forall f r,
  parse_members (S f) (34 :: r) =
  match parse_chars r with
  | None => None
  | Some (k, r1) =>
      match skip_ws r1 with
      | [] => None
      | c2 :: r2 =>
          if c2 =? 58 then
            match parse_value f r2 with
            | None => None
            | Some (v, r3) =>
                match skip_ws r3 with
                | [] => None
                | c3 :: r4 =>
                    if c3 =? 44 then
                      match parse_members f r4 with
                      | Some (ms, r5) => Some ((k, v) :: ms, r5)
                      | None => None
                      end
                    else if c3 =? 125 then Some ([(k, v)], r4)
                    else None
                end
            end
          else None
      end
  end.
Proof. reflexivity. Qed.

(* the first character of a value: never whitespace, never a closing bracket *)
Lemma json_text_head : forall v, exists c t, json_text v = c :: t /\ is_ws c = false /\ c <> 93 /\ c <> 125.
Proof.
  intros v. destruct v as [|[|]|z|s|l|m]; cbn [json_text];
    try (eexists; eexists; split; [reflexivity | split; [reflexivity | lia]]).
  destruct (print_int_head z) as (c & t & E & H). exists c, t. split; [assumption|].
  split; [bsolve | lia].
Qed.

Definition member_text (kv : list Z * jv) : list Z :=
  match kv with (k, x) => print_string k ++ 58 :: json_text x end.

(* units of fuel the parser uses on the text of v *)
Fixpoint jsize (v : jv) : nat :=
  match v with
  | JArr l => S (list_sum (map (fun x => S (jsize x)) l))
  | JObj m => S (list_sum (map (fun kv => match kv with (_, x) => S (jsize x) end) m))
  | _ => 1%nat
  end.

Definition parses (v : jv) : Prop :=
  forall fuel r, (jsize v <= fuel)%nat -> num_stop r -> parse_value fuel (json_text v ++ r) = Some (v, r).

Lemma list_sum_cons : forall a l, list_sum (a :: l) = (a + list_sum l)%nat.
Proof. reflexivity. Qed.

Lemma num_stop_sep : forall c r, c = 44 \/ c = 93 \/ c = 125 -> num_stop (c :: r).
Proof. intros c r H. unfold num_stop. lia. Qed.

Lemma parse_elems_text : forall l v, parses v -> Forall parses l ->
  forall fuel r, (S (jsize v) + list_sum (map (fun x => S (jsize x)) l) <= fuel)%nat ->
  parse_elems fuel (json_text v ++ sep_tail (map json_text l) ++ 93 :: r) = Some (v :: l, r).
Proof.
  induction l as [|w l IH]; intros v Hv Hl fuel r Hf.
  - destruct fuel as [|f]; [cbn in Hf; lia|]. cbn [map sep_tail app]. rewrite parse_elems_S.
    rewrite Hv by (cbn in Hf; try lia; apply num_stop_sep; lia).
    rewrite skip_ws_nows by reflexivity. reflexivity.
  - inversion Hl as [|w' l' Hw Hl']; subst w' l'.
    destruct fuel as [|f]; [cbn in Hf; lia|]. cbn [map sep_tail app] in *. rewrite list_sum_cons in Hf. rewrite parse_elems_S.
    rewrite Hv by (try lia; apply num_stop_sep; lia).
    rewrite skip_ws_nows by reflexivity. replace (44 =? 44) with true by reflexivity.
    rewrite <- app_assoc. rewrite IH by (assumption || lia). reflexivity.
Qed.

Lemma parse_members_text : forall m k x, str_ok k -> parses x ->
  Forall (fun kv => str_ok (fst kv) /\ parses (snd kv)) m ->
  forall fuel r, (S (jsize x) + list_sum (map (fun kv => match kv with (_, y) => S (jsize y) end) m) <= fuel)%nat ->
  parse_members fuel (member_text (k, x) ++ sep_tail (map member_text m) ++ 125 :: r) = Some ((k, x) :: m, r).
Proof.
  induction m as [|[k' w] m IH]; intros k x Hk Hx Hm fuel r Hf.
  - destruct fuel as [|f]; [cbn in Hf; lia|]. cbn [map sep_tail app member_text].
    rewrite <- app_assoc. rewrite print_string_app. rewrite parse_members_quote.
    rewrite parse_chars_print by assumption. rewrite <- app_comm_cons.
    rewrite skip_ws_nows by reflexivity. replace (58 =? 58) with true by reflexivity.
    rewrite Hx by (cbn in Hf; try lia; apply num_stop_sep; lia).
    rewrite skip_ws_nows by reflexivity. reflexivity.
  - inversion Hm as [|kv' m' Hw Hm']; subst kv' m'. destruct Hw as [Hk' Hw]. cbn [fst snd] in *.
    destruct fuel as [|f]; [cbn in Hf; lia|]. cbn [map sep_tail app] in *. rewrite list_sum_cons in Hf.
    unfold member_text at 1.
    rewrite <- app_assoc. rewrite print_string_app. rewrite parse_members_quote.
    rewrite parse_chars_print by assumption. rewrite <- !app_comm_cons.
    rewrite skip_ws_nows by reflexivity. replace (58 =? 58) with true by reflexivity.
    rewrite Hx by (try lia; apply num_stop_sep; lia).
    rewrite skip_ws_nows by reflexivity. replace (44 =? 44) with true by reflexivity.
    rewrite <- app_assoc. rewrite IH by (assumption || lia). reflexivity.
Qed.

(* ---------- objects: a list without repeated key is its own dict ---------- *)
Lemma list_eqb_eq : forall (A : Type) (eqb : A -> A -> bool),
  (forall x y, eqb x y = true <-> x = y) -> forall a b, list_eqb eqb a b = true <-> a = b.
Proof.
  intros A eqb H. induction a as [|x a IH]; intros [|y b]; cbn [list_eqb]; try (split; [discriminate | discriminate]).
  - split; reflexivity.
  - rewrite andb_true_iff, H, IH. split; [intros [-> ->]; reflexivity | intros E; inversion E; split; reflexivity].
Qed.

Lemma str_eqb_eq : forall a b, str_eqb a b = true <-> a = b.
Proof. apply list_eqb_eq. apply Z.eqb_eq. Qed.

Lemma str_eqb_neq : forall a b, a <> b -> str_eqb a b = false.
Proof. intros a b H. destruct (str_eqb a b) eqn:E; [apply str_eqb_eq in E; contradiction | reflexivity]. Qed.

Lemma dict_set_notin : forall k v d, ~ In k (map fst d) -> dict_set k v d = d ++ [(k, v)].
Proof.
  induction d as [|[k' v'] d IH]; intros H; [reflexivity|]. cbn [dict_set map fst In app] in *.
  rewrite str_eqb_neq by (intros ->; apply H; left; reflexivity).
  rewrite IH by (intros G; apply H; right; exact G). reflexivity.
Qed.

Lemma dict_fold_nodup : forall m d, NoDup (map fst (d ++ m)) ->
  fold_left (fun d kv => dict_set (fst kv) (snd kv) d) m d = d ++ m.
Proof.
  induction m as [|[k v] m IH]; intros d H; [rewrite app_nil_r; reflexivity|].
  cbn [fold_left fst snd]. rewrite map_app in H. cbn [map fst] in H.
  pose proof (NoDup_remove_2 _ _ _ H) as N.
  rewrite dict_set_notin by (intros G; apply N; apply in_or_app; left; exact G).
  rewrite IH.
  - rewrite <- app_assoc. reflexivity.
  - rewrite <- app_assoc. cbn [app]. rewrite map_app. exact H.
Qed.

Lemma dict_norm_nodup : forall m, NoDup (map fst m) -> dict_norm m = m.
Proof. intros m H. unfold dict_norm. rewrite dict_fold_nodup by exact H. reflexivity. Qed.

(* ---------- the round trip of one value, followed by anything that ends the token ---------- *)
Lemma parse_value_text : forall v, jv_wf v -> parses v.
Proof.
  induction v as [|b|z|s|l IH|m IH] using jv_ind'; intros W fuel r Hf Hr;
    (destruct fuel as [|f]; [cbn in Hf; lia|]).
  - reflexivity.
  - destruct b; reflexivity.
  - inversion W; subst. pose proof (parse_number_print_int z r H0 Hr) as P.
    cbn [json_text]. destruct (print_int_head z) as (c & t & E & Hc). rewrite E in *. cbn [app] in *.
    rewrite parse_value_num by assumption. exact P.
  - inversion W; subst. cbn [json_text]. rewrite print_string_app. rewrite parse_value_str.
    rewrite parse_chars_print by assumption. reflexivity.
  - inversion W as [| | | |l' Wl|]; subst l'. destruct l as [|v l]; [reflexivity|].
    inversion IH as [|v' l' IHv IHl]; subst v' l'. inversion Wl as [|v' l' Wv Wl']; subst v' l'.
    assert (Pl : Forall parses l).
    { clear - IHl Wl'. induction IHl as [|x l Hx Hl IH]; [constructor|]. inversion Wl'; subst.
      constructor; [apply Hx; assumption | apply IH; assumption]. }
    cbn [jsize map] in Hf. rewrite list_sum_cons in Hf.
    pose proof (parse_elems_text l v (IHv Wv) Pl f r ltac:(lia)) as P.
    cbn [json_text map join_comma]. cbn [app]. rewrite <- !app_assoc. cbn [app].
    rewrite parse_value_arr.
    destruct (json_text_head v) as (c & t & E & Hw & N1 & N2). rewrite E in *. cbn [app] in *.
    rewrite skip_ws_nows by assumption. replace (c =? 93) with false by (symmetry; bsolve).
    rewrite P. reflexivity.
  - inversion W as [| | | | |m' Nd Wm]; subst m'. destruct m as [|[k x] m]; [reflexivity|].
    inversion IH as [|kv' m' IHx IHm]; subst kv' m'. inversion Wm as [|kv' m' Wx Wm']; subst kv' m'.
    cbn [fst snd] in *. destruct Wx as [Wk Wx].
    assert (Pm : Forall (fun kv => str_ok (fst kv) /\ parses (snd kv)) m).
    { clear - IHm Wm'. induction IHm as [|y m Hy Hm IH]; [constructor|]. inversion Wm' as [|? ? [? ?] ?]; subst.
      constructor; [split; [assumption | apply Hy; assumption] | apply IH; assumption]. }
    cbn [jsize map] in Hf. rewrite list_sum_cons in Hf.
    pose proof (parse_members_text m k x Wk (IHx Wx) Pm f r ltac:(lia)) as P.
    cbn [json_text]. change (fun kv : list Z * jv => let (k0, x0) := kv in print_string k0 ++ 58 :: json_text x0)
      with member_text.
    cbn [map join_comma]. cbn [app]. rewrite <- !app_assoc. cbn [app].
    rewrite parse_value_obj.
    unfold member_text at 1. unfold member_text at 1 in P.
    rewrite <- app_assoc in *. rewrite print_string_app in *.
    rewrite skip_ws_nows by reflexivity. replace (34 =? 125) with false by reflexivity.
    rewrite P. rewrite dict_norm_nodup by exact Nd. reflexivity.
Qed.

(* ---------- the characters of the text ---------- *)
Lemma print_char_chars : forall c, Forall (fun b => 32 <= b < 127 \/ (b = c /\ 32 <= c)) (print_char c).
Proof.
  intros c. pose proof (Z.mod_pos_bound (c / 16) 16 ltac:(lia)) as Ba. pose proof (Z.mod_pos_bound c 16 ltac:(lia)) as Bb.
  unfold print_char, hex_digit. set (a := (c / 16) mod 16) in *. set (b := c mod 16) in *. clearbody a b.
  destruct (c =? 34); [repeat constructor; lia|]. destruct (c =? 92); [repeat constructor; lia|].
  destruct (c =? 8); [repeat constructor; lia|]. destruct (c =? 12); [repeat constructor; lia|].
  destruct (c =? 10); [repeat constructor; lia|]. destruct (c =? 13); [repeat constructor; lia|].
  destruct (c =? 9); [repeat constructor; lia|].
  destruct (c <? 32) eqn:E; [|apply Z.ltb_ge in E; constructor; [right; split; [reflexivity | assumption] | constructor]].
  destruct (a <? 10) eqn:Ea; [apply Z.ltb_lt in Ea | apply Z.ltb_ge in Ea];
    (destruct (b <? 10) eqn:Eb; [apply Z.ltb_lt in Eb | apply Z.ltb_ge in Eb]); repeat constructor; lia.
Qed.

Lemma print_int_chars : forall z, Forall (fun b => 32 <= b < 127) (print_int z).
Proof.
  intros z. unfold print_int.
  assert (D : forall n, 0 <= n -> Forall (fun b => 32 <= b < 127) (print_nat n)).
  { intros n H. destruct (print_nat_spec n H) as (A & _). eapply Forall_impl; [|exact A]. cbv beta. intros; lia. }
  destruct (z <? 0) eqn:E; [apply Z.ltb_lt in E | apply Z.ltb_ge in E].
  - constructor; [lia | apply D; lia].
  - apply D; assumption.
Qed.

Section TextForall.
Variable P : Z -> Prop.
Hypothesis Pascii : forall c, 32 <= c < 127 -> P c.

Lemma print_chars_Forall : forall s, Forall (fun c => 32 <= c -> P c) s -> Forall P (print_chars s).
Proof.
  induction 1 as [|c s Hc Hs IH]; [constructor|]. unfold print_chars in *. cbn [flat_map]. apply Forall_app. split; [|exact IH].
  eapply Forall_impl; [|apply print_char_chars]. cbv beta. intros b [H | [-> H]]; [apply Pascii; exact H | apply Hc; exact H].
Qed.

Lemma print_string_Forall : forall s, Forall (fun c => 32 <= c -> P c) s -> Forall P (print_string s).
Proof.
  intros s H. unfold print_string. constructor; [apply Pascii; lia|]. apply Forall_app. split.
  - apply print_chars_Forall; exact H.
  - repeat constructor. apply Pascii; lia.
Qed.

Lemma sep_tail_Forall : forall l, Forall (Forall P) l -> Forall P (sep_tail l).
Proof.
  induction 1 as [|x l Hx Hl IH]; [constructor|]. cbn [sep_tail]. constructor; [apply Pascii; lia|].
  apply Forall_app. split; assumption.
Qed.

Lemma join_comma_Forall : forall l, Forall (Forall P) l -> Forall P (join_comma l).
Proof.
  intros l H. destruct H as [|x l Hx Hl]; [constructor|]. cbn [join_comma]. apply Forall_app. split; [assumption|].
  apply sep_tail_Forall; assumption.
Qed.

(* G: what is known about the value, closed under sub-values *)
Variable G : jv -> Prop.
Hypothesis Gstr : forall s, G (JStr s) -> Forall (fun c => 32 <= c -> P c) s.
Hypothesis Garr : forall l, G (JArr l) -> Forall G l.
Hypothesis Gobj : forall m, G (JObj m) -> Forall (fun kv => Forall (fun c => 32 <= c -> P c) (fst kv) /\ G (snd kv)) m.

Lemma json_text_Forall : forall v, G v -> Forall P (json_text v).
Proof.
  induction v as [|b|z|s|l IH|m IH] using jv_ind'; intros Gv; cbn [json_text].
  - repeat constructor; apply Pascii; lia.
  - destruct b; repeat constructor; apply Pascii; lia.
  - eapply Forall_impl; [|apply print_int_chars]. exact Pascii.
  - apply print_string_Forall. apply Gstr; exact Gv.
  - constructor; [apply Pascii; lia|]. apply Forall_app. split; [|repeat constructor; apply Pascii; lia].
    apply join_comma_Forall. apply Garr in Gv. clear - IH Gv.
    induction IH as [|x l Hx Hl IH']; [constructor|]. inversion Gv; subst. cbn [map].
    constructor; [apply Hx; assumption | apply IH'; assumption].
  - constructor; [apply Pascii; lia|]. apply Forall_app. split; [|repeat constructor; apply Pascii; lia].
    apply join_comma_Forall. apply Gobj in Gv. clear - IH Gv Pascii.
    induction IH as [|[k x] m Hx Hm IH']; [constructor|]. inversion Gv as [|? ? [Hk Gx] Gm]; subst. cbn [map fst snd] in *.
    constructor; [|apply IH'; assumption].
    apply Forall_app. split; [apply print_string_Forall; exact Hk|].
    constructor; [apply Pascii; lia | apply Hx; exact Gx].
Qed.
End TextForall.

(* no character below 0x20 in the text, for EVERY value (even with invalid code points) *)
Theorem json_text_no_control : forall v, Forall (fun c => 32 <= c) (json_text v).
Proof.
  intros v. apply json_text_Forall with (G := fun _ => True); try exact I.
  - intros; lia.
  - intros s _. apply Forall_forall. intros c _ H; exact H.
  - intros l _. apply Forall_forall. intros; exact I.
  - intros m _. apply Forall_forall. intros kv _. split; [|exact I]. apply Forall_forall. intros c _ H; exact H.
Qed.

(* the text of a well-formed value is made of Unicode scalar values *)
Theorem json_text_cp_ok : forall v, jv_wf v -> str_ok (json_text v).
Proof.
  intros v W. unfold str_ok. apply json_text_Forall with (G := jv_wf); try exact W.
  - intros c H. unfold cp_ok. lia.
  - intros s H. inversion H; subst. eapply Forall_impl; [|eassumption]. cbv beta. intros c Hc _; exact Hc.
  - intros l H. inversion H; subst. assumption.
  - intros m H. inversion H as [| | | | |m' Nd Wm]; subst. eapply Forall_impl; [|exact Wm]. cbv beta.
    intros kv [Hk Hx]. split; [|exact Hx]. eapply Forall_impl; [|exact Hk]. cbv beta. intros c Hc _; exact Hc.
Qed.

(* ---------- enough fuel ---------- *)
Lemma sep_tail_length : forall l, length (sep_tail l) = list_sum (map (fun x => S (length x)) l).
Proof.
  induction l as [|x l IH]; [reflexivity|]. cbn [sep_tail map]. rewrite list_sum_cons. cbn [length].
  rewrite app_length, IH. reflexivity.
Qed.

Lemma sum_le_join : forall (A : Type) (sz : A -> nat) (tx : A -> list Z) (l : list A),
  Forall (fun x => (sz x <= length (tx x))%nat) l ->
  (list_sum (map (fun x => S (sz x)) l) <= S (length (join_comma (map tx l))))%nat.
Proof.
  intros A sz tx l H. destruct H as [|x l Hx Hl]; [cbn; lia|].
  cbn [map join_comma]. rewrite list_sum_cons, app_length, sep_tail_length.
  assert (E : (list_sum (map (fun x => S (sz x)) l) <= list_sum (map (fun x => S (length x)) (map tx l)))%nat).
  { clear - Hl. induction Hl as [|y l Hy Hl IH]; [cbn; lia|]. cbn [map]. rewrite !list_sum_cons. lia. }
  lia.
Qed.

Lemma jsize_le_length : forall v, (jsize v <= length (json_text v))%nat.
Proof.
  induction v as [|b|z|s|l IH|m IH] using jv_ind'; cbn [jsize json_text].
  - cbn; lia.
  - destruct b; cbn; lia.
  - destruct (print_int_head z) as (c & t & E & _). rewrite E. cbn; lia.
  - unfold print_string. cbn [length]. lia.
  - cbn [length]. rewrite app_length. cbn [length].
    pose proof (sum_le_join jv jsize json_text l IH). lia.
  - cbn [length]. rewrite app_length. cbn [length].
    change (fun kv : list Z * jv => let (k, x) := kv in print_string k ++ 58 :: json_text x) with member_text.
    assert (H : Forall (fun kv => (jsize (snd kv) <= length (member_text kv))%nat) m).
    { eapply Forall_impl; [|exact IH]. cbv beta. intros [k x] H. cbn [snd member_text] in *.
      rewrite app_length. cbn [length]. lia. }
    pose proof (sum_le_join _ (fun kv => jsize (snd kv)) member_text m H) as Hs. cbv beta in Hs.
    replace (map (fun kv : list Z * jv => let (_, x) := kv in S (jsize x)) m)
      with (map (fun kv : list Z * jv => S (jsize (snd kv))) m)
      by (apply map_ext; intros [k x]; reflexivity).
    lia.
Qed.

(* ---------- the theorems at the character level (Ch = code points: what rxsci's json.load sees) ---------- *)
Definition all_ws (ws : list Z) : Prop := Forall (fun c => is_ws c = true) ws.

Lemma is_ws_cases : forall c, is_ws c = true -> c = 32 \/ c = 9 \/ c = 10 \/ c = 13.
Proof.
  intros c H. unfold is_ws in H. rewrite !orb_true_iff, !Z.eqb_eq in H. lia.
Qed.

Lemma skip_ws_all : forall ws, all_ws ws -> skip_ws ws = [].
Proof. induction 1 as [|c ws Hc Hw IH]; [reflexivity|]. cbn [skip_ws]. rewrite Hc. exact IH. Qed.

Lemma num_stop_ws : forall ws, all_ws ws -> num_stop ws.
Proof. intros ws H. destruct H as [|c ws Hc _]; [exact I|]. apply is_ws_cases in Hc. unfold num_stop. lia. Qed.

Lemma cp_okb_ok : forall c, cp_ok c -> cp_okb c = true.
Proof. intros c [H1 H2]. bsolve. Qed.

Lemma cp_okb_sound : forall c, cp_okb c = true -> cp_ok c.
Proof.
  intros c H. unfold cp_okb, is_surr in H.
  rewrite !andb_true_iff, negb_true_iff, andb_false_iff, !Z.leb_le, !Z.leb_gt in H. unfold cp_ok. lia.
Qed.

(* orjson.loads (orjson.dumps v).decode() = v, also when whitespace follows (the newline of json.dump) *)
Theorem json_parse_text_print_ws : forall v ws, jv_wf v -> all_ws ws ->
  json_parse_text (json_text v ++ ws) = Some v.
Proof.
  intros v ws W Hw. unfold json_parse_text.
  replace (forallb cp_okb (json_text v ++ ws)) with true.
  - rewrite (parse_value_text v W).
    + rewrite skip_ws_all by exact Hw. reflexivity.
    + rewrite app_length. pose proof (jsize_le_length v). lia.
    + apply num_stop_ws; exact Hw.
  - symmetry. rewrite forallb_app. apply andb_true_iff. split; apply forallb_forall; intros c Hc; apply cp_okb_ok.
    + pose proof (json_text_cp_ok v W) as H. unfold str_ok in H. rewrite Forall_forall in H. apply H; exact Hc.
    + unfold all_ws in Hw. rewrite Forall_forall in Hw. apply Hw in Hc. apply is_ws_cases in Hc. unfold cp_ok. lia.
Qed.

Theorem json_parse_text_print : forall v, jv_wf v -> json_parse_text (json_text v) = Some v.
Proof. intros v W. rewrite <- (app_nil_r (json_text v)). apply json_parse_text_print_ws; [exact W | constructor]. Qed.

Theorem json_text_no_newline : forall v, ~ In 10 (json_text v).
Proof.
  intros v H. pose proof (json_text_no_control v) as F. rewrite Forall_forall in F. apply F in H. lia.
Qed.

Theorem json_text_nonempty : forall v, json_text v <> [].
Proof. intros v. destruct (json_text_head v) as (c & t & E & _). rewrite E. discriminate. Qed.

(* ---------- the theorems at the byte level ---------- *)
Lemma utf8_encode_app : forall a b, utf8_encode (a ++ b) = utf8_encode a ++ utf8_encode b.
Proof. intros. unfold utf8_encode. apply flat_map_app. Qed.

Lemma utf8_encode_ascii : forall s, Forall (fun c => c < 128) s -> utf8_encode s = s.
Proof.
  induction 1 as [|c s Hc Hs IH]; [reflexivity|]. unfold utf8_encode in *. cbn [flat_map]. rewrite IH.
  unfold utf8_enc1. replace (c <? 128) with true by (symmetry; bsolve). reflexivity.
Qed.

Lemma utf8_encode_ws : forall ws, all_ws ws -> utf8_encode ws = ws.
Proof.
  intros ws H. apply utf8_encode_ascii. eapply Forall_impl; [|exact H]. cbv beta. intros c Hc.
  apply is_ws_cases in Hc. lia.
Qed.

(* (d) the dumped bytes are valid UTF-8: they decode to the character-level text *)
Theorem json_print_utf8 : forall v, jv_wf v -> utf8_decode (json_print v) = Some (json_text v).
Proof. intros v W. unfold json_print. apply utf8_decode_encode. apply json_text_cp_ok; exact W. Qed.

(* (a) orjson.loads (orjson.dumps v) = v; uniqueness of the keys (in jv_wf) IS needed: with a repeated key the
   parser, like orjson, returns the dict, which is not the association list that was printed *)
Theorem json_parse_print_ws : forall v ws, jv_wf v -> all_ws ws -> json_parse (json_print v ++ ws) = Some v.
Proof.
  intros v ws W Hw. unfold json_parse, json_print.
  rewrite <- (utf8_encode_ws ws Hw) at 1. rewrite <- utf8_encode_app.
  rewrite utf8_decode_encode.
  - apply json_parse_text_print_ws; assumption.
  - unfold str_ok. apply Forall_app. split; [apply json_text_cp_ok; exact W|].
    eapply Forall_impl; [|exact Hw]. cbv beta. intros c Hc. apply is_ws_cases in Hc. unfold cp_ok. lia.
Qed.

Theorem json_parse_print : forall v, jv_wf v -> json_parse (json_print v) = Some v.
Proof. intros v W. rewrite <- (app_nil_r (json_print v)). apply json_parse_print_ws; [exact W | constructor]. Qed.

(* H_loads_dumps_nl of C19: the document followed by the newline that json.dump appends *)
Theorem json_parse_print_nl : forall v, jv_wf v -> json_parse (json_print v ++ [10]) = Some v.
Proof. intros v W. apply json_parse_print_ws; [exact W | repeat constructor]. Qed.

Lemma div_bounds : forall c d k, 0 < d -> 0 <= c < d * k -> 0 <= c / d < k.
Proof.
  intros c d k Hd Hc. split; [apply Z.div_pos; lia | apply Z.div_lt_upper_bound; lia].
Qed.

Lemma utf8_enc1_ge32 : forall c, 32 <= c -> Forall (fun b => 32 <= b) (utf8_enc1 c).
Proof.
  intros c H. unfold utf8_enc1.
  pose proof (Z.div_pos c 64 ltac:(lia) ltac:(lia)). pose proof (Z.div_pos c 4096 ltac:(lia) ltac:(lia)).
  pose proof (Z.div_pos c 262144 ltac:(lia) ltac:(lia)).
  pose proof (Z.mod_pos_bound c 64 ltac:(lia)). pose proof (Z.mod_pos_bound (c / 64) 64 ltac:(lia)).
  pose proof (Z.mod_pos_bound (c / 4096) 64 ltac:(lia)).
  destruct (c <? 128); [repeat constructor; lia|].
  destruct (c <? 2048); [repeat constructor; lia|].
  destruct (c <? 65536); repeat constructor; lia.
Qed.

(* (b) no byte below 0x20 in the dumped bytes, for EVERY value *)
Theorem json_print_no_control : forall v, Forall (fun b => 32 <= b) (json_print v).
Proof.
  intros v. unfold json_print, utf8_encode. pose proof (json_text_no_control v) as F.
  induction F as [|c s Hc Hs IH]; [constructor|]. cbn [flat_map]. apply Forall_app. split; [|exact IH].
  apply utf8_enc1_ge32; exact Hc.
Qed.

Theorem json_print_no_newline : forall v, ~ In 10 (json_print v).
Proof.
  intros v H. pose proof (json_print_no_control v) as F. rewrite Forall_forall in F. apply F in H. lia.
Qed.

(* (c) *)
Theorem json_print_nonempty : forall v, json_print v <> [].
Proof.
  intros v. unfold json_print. destruct (json_text_head v) as (c & t & E & _). rewrite E.
  unfold utf8_encode. cbn [flat_map]. unfold utf8_enc1.
  destruct (c <? 128); [discriminate|]. destruct (c <? 2048); [discriminate|]. destruct (c <? 65536); discriminate.
Qed.

Lemma utf8_enc1_bytes : forall c, cp_ok c -> Forall (fun b => 0 <= b < 256) (utf8_enc1 c).
Proof.
  intros c [H _]. unfold utf8_enc1.
  pose proof (Z.mod_pos_bound c 64 ltac:(lia)). pose proof (Z.mod_pos_bound (c / 64) 64 ltac:(lia)).
  pose proof (Z.mod_pos_bound (c / 4096) 64 ltac:(lia)).
  destruct (c <? 128) eqn:E1; [apply Z.ltb_lt in E1; repeat constructor; lia|].
  destruct (c <? 2048) eqn:E2.
  { apply Z.ltb_lt in E2. pose proof (div_bounds c 64 32 ltac:(lia) ltac:(lia)). repeat constructor; lia. }
  destruct (c <? 65536) eqn:E3.
  { apply Z.ltb_lt in E3. pose proof (div_bounds c 4096 16 ltac:(lia) ltac:(lia)). repeat constructor; lia. }
  pose proof (div_bounds c 262144 16 ltac:(lia) ltac:(lia)). repeat constructor; lia.
Qed.

(* the dumped bytes are bytes *)
Theorem json_print_bytes : forall v, jv_wf v -> Forall (fun b => 0 <= b < 256) (json_print v).
Proof.
  intros v W. unfold json_print, utf8_encode. pose proof (json_text_cp_ok v W) as F. unfold str_ok in F.
  induction F as [|c s Hc Hs IH]; [constructor|]. cbn [flat_map]. apply Forall_app. split; [|exact IH].
  apply utf8_enc1_bytes; exact Hc.
Qed.

(* ---------- the executable tests are sound ---------- *)
Lemma nodupb_sound : forall l, nodupb l = true -> NoDup l.
Proof.
  induction l as [|k l IH]; intros H; [constructor|]. cbn [nodupb] in H. apply andb_true_iff in H. destruct H as [H1 H2].
  constructor; [|apply IH; exact H2]. intros I. apply negb_true_iff in H1.
  assert (E : existsb (str_eqb k) l = true) by (apply existsb_exists; exists k; split; [exact I | apply str_eqb_eq; reflexivity]).
  congruence.
Qed.

Theorem jv_wfb_sound : forall v, jv_wfb v = true -> jv_wf v.
Proof.
  induction v as [|b|z|s|l IH|m IH] using jv_ind'; intros H; cbn [jv_wfb] in H.
  - constructor.
  - constructor.
  - constructor. unfold int_okb in H. rewrite andb_true_iff, Z.leb_le, Z.ltb_lt in H. exact H.
  - constructor. unfold str_ok. apply Forall_forall. intros c Hc. apply cp_okb_sound.
    rewrite forallb_forall in H. apply H; exact Hc.
  - constructor. rewrite forallb_forall in H. rewrite Forall_forall in *. intros x Hx. apply IH; [exact Hx | apply H; exact Hx].
  - apply andb_true_iff in H. destruct H as [H1 H2]. constructor; [apply nodupb_sound; exact H1|].
    rewrite forallb_forall in H2. rewrite Forall_forall in *. intros [k x] Hx. specialize (H2 _ Hx). specialize (IH _ Hx).
    cbn [fst snd] in *. apply andb_true_iff in H2. destruct H2 as [Hk Hv]. split; [|apply IH; exact Hv].
    unfold str_ok. apply Forall_forall. intros c Hc. apply cp_okb_sound. rewrite forallb_forall in Hk. apply Hk; exact Hc.
Qed.

Theorem jv_eqb_eq : forall v w, jv_eqb v w = true -> v = w.
Proof.
  induction v as [|b|z|s|l IH|m IH] using jv_ind'; intros w H; destruct w as [|b'|z'|s'|l'|m']; try discriminate H.
  - reflexivity.
  - cbn [jv_eqb] in H. apply Bool.eqb_prop in H. subst; reflexivity.
  - cbn [jv_eqb] in H. apply Z.eqb_eq in H. subst; reflexivity.
  - cbn [jv_eqb] in H. apply str_eqb_eq in H. subst; reflexivity.
  - f_equal. cbn [jv_eqb] in H. revert l' H. induction IH as [|x l Hx Hl IH']; intros [|y l'] H; try discriminate H.
    + reflexivity.
    + apply andb_true_iff in H. destruct H as [H1 H2]. f_equal; [apply Hx; exact H1 | apply IH'; exact H2].
  - f_equal. cbn [jv_eqb] in H. revert m' H. induction IH as [|[k x] m Hx Hm IH']; intros [|[k' y] m'] H; try discriminate H.
    + reflexivity.
    + rewrite !andb_true_iff in H. destruct H as [[H0 H1] H2]. apply str_eqb_eq in H0. subst k'.
      f_equal; [f_equal; apply Hx; exact H1 | apply IH'; exact H2].
Qed.

(* ---------- the premises of C19, instantiated (Obj = well-formed values is expressed by the hypothesis) ---------- *)
Print Assumptions json_parse_print.
Print Assumptions json_parse_print_nl.
Print Assumptions json_parse_text_print_ws.
Print Assumptions json_print_no_newline.
Print Assumptions json_print_no_control.
Print Assumptions json_print_nonempty.
Print Assumptions json_print_utf8.
Print Assumptions json_print_bytes.
Print Assumptions json_text_no_newline.
Print Assumptions json_text_nonempty.
Print Assumptions jv_wfb_sound.
Print Assumptions jv_eqb_eq.
