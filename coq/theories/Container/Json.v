(* Executable model of the JSON text that orjson (3.12) produces (orjson.dumps) and accepts (orjson.loads)
   on a SUBSET of JSON values: null, booleans, 64-bit integers, strings, arrays, objects with string keys.
   NO floats.  No proofs in this file (they are in JsonProofs.v); examples checked against the real orjson
   are in JsonExamples.v and JsonMirror.v.

   Texts are lists of Z.  Two levels:
     - CHARACTER level: a text is a list of Unicode code points (what `orjson.dumps(o).decode()` is, and
       what rxsci's json.load hands to orjson.loads: a str).   json_text / json_parse_text
     - BYTE level: the UTF-8 encoding of the character level (what orjson.dumps returns, bytes 0..255).
                                                                json_print / json_parse
   json_print v = utf8_encode (json_text v);  json_parse b = utf8_decode b, then json_parse_text.
   The two-stage reading is equivalent to a one-pass reading with strict UTF-8 inside strings, because
   outside strings every byte >= 0x80 is an error anyway.

   What orjson.dumps emits (each point checked against the library, see JsonExamples.v): compact form,
   `null` `true` `false`, integers in decimal with '-' for negatives, strings in double quotes with only
   the escapes \QUOTE (backslash, double quote) \\ \b \f \n \r \t, the other characters below 0x20 as \u00XX with LOWER case hex digits,
   everything else raw (0x7F, '/', non-ASCII, U+2028/2029), arrays [a,b], objects {"k":v,"k2":v2}.

   What the parser accepts, mirroring orjson.loads: whitespace (space, \t, \n, \r) around tokens; in strings
   the escapes above plus \/ and \uXXXX (upper or lower case), surrogate PAIRS 😀; a lone or
   reversed surrogate escape is an error; raw characters below 0x20 in strings are errors; integers:
   `01`, `-`, `-01` rejected, `-0` = 0; an integer outside -2^63 .. 2^64-1, or a number with '.', 'e',
   'E', is a float for orjson: OUTSIDE the subset, the model answers None; strict UTF-8; nothing but
   whitespace after the value; empty or all-whitespace input is an error; a repeated key in an object:
   the LAST value wins, at the position of the FIRST occurrence (Python dict).
   NOT modelled: the nesting limits of orjson (dumps refuses more than 254 nested containers, loads more than
   1024): jv_depth below is given so that the limit can be stated. *)
From Coq Require Import List ZArith Bool Lia.
Import ListNotations.
Local Open Scope Z_scope.

(* ---------- values ---------- *)
Inductive jv : Type :=
| JNull : jv
| JBool : bool -> jv
| JInt : Z -> jv
| JStr : list Z -> jv                      (* code points *)
| JArr : list jv -> jv
| JObj : list (list Z * jv) -> jv.         (* association list, insertion order *)

(* Unicode scalar values: 0..0x10FFFF without the surrogates *)
Definition is_surr (c : Z) : bool := (0xD800 <=? c) && (c <=? 0xDFFF).
Definition cp_okb (c : Z) : bool := (0 <=? c) && (c <=? 0x10FFFF) && negb (is_surr c).
Definition cp_ok (c : Z) : Prop := 0 <= c <= 0x10FFFF /\ ~ (0xD800 <= c <= 0xDFFF).
Definition str_ok (s : list Z) : Prop := Forall cp_ok s.
(* orjson: -2^63 .. 2^64-1 ("Integer exceeds 64-bit range" otherwise) *)
Definition int_okb (z : Z) : bool := (-(2^63) <=? z) && (z <? 2^64).
Definition int_ok (z : Z) : Prop := -(2^63) <= z < 2^64.

Inductive jv_wf : jv -> Prop :=
| wf_null : jv_wf JNull
| wf_bool : forall b, jv_wf (JBool b)
| wf_int : forall z, int_ok z -> jv_wf (JInt z)
| wf_str : forall s, str_ok s -> jv_wf (JStr s)
| wf_arr : forall l, Forall jv_wf l -> jv_wf (JArr l)
| wf_obj : forall m, NoDup (map fst m) ->
                     Forall (fun kv => str_ok (fst kv) /\ jv_wf (snd kv)) m -> jv_wf (JObj m).

(* ---------- equality tests ---------- *)
Fixpoint list_eqb {A : Type} (eqb : A -> A -> bool) (a b : list A) : bool :=
  match a, b with
  | [], [] => true
  | x :: a', y :: b' => eqb x y && list_eqb eqb a' b'
  | _, _ => false
  end.
Definition str_eqb (a b : list Z) : bool := list_eqb Z.eqb a b.

Fixpoint jv_eqb (v w : jv) : bool :=
  match v, w with
  | JNull, JNull => true
  | JBool a, JBool b => Bool.eqb a b
  | JInt a, JInt b => a =? b
  | JStr a, JStr b => str_eqb a b
  | JArr a, JArr b =>
      (fix go (a b : list jv) : bool :=
         match a, b with
         | [], [] => true
         | x :: a', y :: b' => jv_eqb x y && go a' b'
         | _, _ => false
         end) a b
  | JObj a, JObj b =>
      (fix go (a b : list (list Z * jv)) : bool :=
         match a, b with
         | [], [] => true
         | (k, x) :: a', (k', y) :: b' => str_eqb k k' && jv_eqb x y && go a' b'
         | _, _ => false
         end) a b
  | _, _ => false
  end.

(* executable well-formedness (sound for jv_wf: JsonProofs.jv_wfb_sound) *)
Fixpoint nodupb (l : list (list Z)) : bool :=
  match l with
  | [] => true
  | k :: t => negb (existsb (str_eqb k) t) && nodupb t
  end.
Fixpoint jv_wfb (v : jv) : bool :=
  match v with
  | JNull => true
  | JBool _ => true
  | JInt z => int_okb z
  | JStr s => forallb cp_okb s
  | JArr l => forallb jv_wfb l
  | JObj m => nodupb (map fst m) &&
              forallb (fun kv => match kv with (k, x) => forallb cp_okb k && jv_wfb x end) m
  end.

(* nesting of containers: scalars 0.  orjson.dumps accepts jv_depth v <= 254, orjson.loads a text of depth
   <= 1024 ("Recursion limit reached" / "depth limit exceeded" otherwise) *)
Fixpoint jv_depth (v : jv) : nat :=
  match v with
  | JArr l => S (fold_right Nat.max O (map jv_depth l))
  | JObj m => S (fold_right Nat.max O (map (fun kv => match kv with (_, x) => jv_depth x end) m))
  | _ => O
  end.

(* ---------- UTF-8 ---------- *)
Definition utf8_enc1 (c : Z) : list Z :=
  if c <? 0x80 then [c]
  else if c <? 0x800 then [0xC0 + c / 64; 0x80 + c mod 64]
  else if c <? 0x10000 then [0xE0 + c / 4096; 0x80 + (c / 64) mod 64; 0x80 + c mod 64]
  else [0xF0 + c / 262144; 0x80 + (c / 4096) mod 64; 0x80 + (c / 64) mod 64; 0x80 + c mod 64].
Definition utf8_encode (s : list Z) : list Z := flat_map utf8_enc1 s.

Definition is_cont (b : Z) : bool := (0x80 <=? b) && (b <? 0xC0).
Definition cons_opt (c : Z) (o : option (list Z)) : option (list Z) :=
  match o with Some l => Some (c :: l) | None => None end.
(* strict: no overlong forms (lead bytes C0, C1; E0 80..9F; F0 80..8F), no surrogates (ED A0..BF), nothing
   above U+10FFFF (F4 90.., F5..FF), no stray continuation byte, no truncated sequence *)
Fixpoint utf8_decode (b : list Z) : option (list Z) :=
  match b with
  | [] => Some []
  | b0 :: r =>
      if (0 <=? b0) && (b0 <? 0x80) then cons_opt b0 (utf8_decode r)
      else if b0 <? 0xC2 then None
      else if b0 <? 0xE0 then
        match r with
        | b1 :: r1 =>
            if is_cont b1 then cons_opt ((b0 - 0xC0) * 64 + (b1 - 0x80)) (utf8_decode r1) else None
        | _ => None
        end
      else if b0 <? 0xF0 then
        match r with
        | b1 :: b2 :: r2 =>
            if is_cont b1 && is_cont b2 then
              let c := (b0 - 0xE0) * 4096 + (b1 - 0x80) * 64 + (b2 - 0x80) in
              if (0x800 <=? c) && negb (is_surr c) then cons_opt c (utf8_decode r2) else None
            else None
        | _ => None
        end
      else if b0 <? 0xF5 then
        match r with
        | b1 :: b2 :: b3 :: r3 =>
            if is_cont b1 && is_cont b2 && is_cont b3 then
              let c := (b0 - 0xF0) * 262144 + (b1 - 0x80) * 4096 + (b2 - 0x80) * 64 + (b3 - 0x80) in
              if (0x10000 <=? c) && (c <=? 0x10FFFF) then cons_opt c (utf8_decode r3) else None
            else None
        | _ => None
        end
      else None
  end.

(* ---------- printing (character level) ---------- *)
(* decimal digits of n >= 0, most significant first; fuel = number of bits, always enough
   (JsonProofs.print_nat_spec) *)
Fixpoint print_nat_fuel (fuel : nat) (n : Z) : list Z :=
  match fuel with
  | O => [48 + n mod 10]
  | S f => if n <? 10 then [48 + n] else print_nat_fuel f (n / 10) ++ [48 + n mod 10]
  end.
Definition print_nat (n : Z) : list Z := print_nat_fuel (Z.to_nat (Z.log2 n)) n.
Definition print_int (z : Z) : list Z := if z <? 0 then 45 :: print_nat (- z) else print_nat z.

Definition hex_digit (d : Z) : Z := if d <? 10 then 48 + d else 87 + d.       (* 0-9 a-f *)
(* the `mod 16` make the output free of control characters even for a code point outside 0..0x10FFFF *)
Definition print_char (c : Z) : list Z :=
  if c =? 34 then [92; 34]
  else if c =? 92 then [92; 92]
  else if c =? 8 then [92; 98]
  else if c =? 12 then [92; 102]
  else if c =? 10 then [92; 110]
  else if c =? 13 then [92; 114]
  else if c =? 9 then [92; 116]
  else if c <? 32 then [92; 117; 48; 48; hex_digit ((c / 16) mod 16); hex_digit (c mod 16)]
  else [c].
Definition print_chars (s : list Z) : list Z := flat_map print_char s.
Definition print_string (s : list Z) : list Z := 34 :: print_chars s ++ [34].

Fixpoint sep_tail (t : list (list Z)) : list Z :=
  match t with
  | [] => []
  | y :: t' => 44 :: y ++ sep_tail t'
  end.
Definition join_comma (l : list (list Z)) : list Z :=
  match l with
  | [] => []
  | x :: t => x ++ sep_tail t
  end.

Fixpoint json_text (v : jv) : list Z :=
  match v with
  | JNull => [110; 117; 108; 108]
  | JBool true => [116; 114; 117; 101]
  | JBool false => [102; 97; 108; 115; 101]
  | JInt z => print_int z
  | JStr s => print_string s
  | JArr l => 91 :: join_comma (map json_text l) ++ [93]
  | JObj m => 123 :: join_comma (map (fun kv => match kv with
                                               | (k, x) => print_string k ++ 58 :: json_text x
                                               end) m) ++ [125]
  end.

(* orjson.dumps: the bytes *)
Definition json_print (v : jv) : list Z := utf8_encode (json_text v).

(* ---------- parsing (character level) ---------- *)
Definition is_ws (c : Z) : bool := (c =? 32) || (c =? 9) || (c =? 10) || (c =? 13).
Fixpoint skip_ws (s : list Z) : list Z :=
  match s with
  | c :: r => if is_ws c then skip_ws r else s
  | [] => []
  end.

Definition is_digit (c : Z) : bool := (48 <=? c) && (c <=? 57).
Fixpoint parse_digits (s : list Z) (acc : Z) : Z * list Z :=
  match s with
  | c :: r => if is_digit c then parse_digits r (acc * 10 + (c - 48)) else (acc, s)
  | [] => (acc, [])
  end.
(* the digits of an integer: `0` alone, or a non-zero digit followed by digits *)
Definition parse_nat (s : list Z) : option (Z * list Z) :=
  match s with
  | [] => None
  | c :: r =>
      if c =? 48 then
        match r with
        | d :: _ => if is_digit d then None else Some (0, r)       (* leading zero *)
        | [] => Some (0, r)
        end
      else if is_digit c then Some (parse_digits r (c - 48))
      else None
  end.
(* what follows the digits makes the number a float for orjson: outside the subset *)
Definition float_mark (s : list Z) : bool :=
  match s with
  | c :: _ => (c =? 46) || (c =? 101) || (c =? 69)
  | [] => false
  end.
Definition parse_number (s : list Z) : option (jv * list Z) :=
  match s with
  | [] => None
  | c :: r =>
      if c =? 45 then
        match parse_nat r with
        | Some (n, r') => if float_mark r' then None
                          else if n <=? 2^63 then Some (JInt (- n), r') else None
        | None => None
        end
      else
        match parse_nat s with
        | Some (n, r') => if float_mark r' then None
                          else if n <? 2^64 then Some (JInt n, r') else None
        | None => None
        end
  end.

Definition hex_val (c : Z) : option Z :=
  if (48 <=? c) && (c <=? 57) then Some (c - 48)
  else if (97 <=? c) && (c <=? 102) then Some (c - 87)
  else if (65 <=? c) && (c <=? 70) then Some (c - 55)
  else None.
Definition hex4 (h1 h2 h3 h4 : Z) : option Z :=
  match hex_val h1, hex_val h2, hex_val h3, hex_val h4 with
  | Some a, Some b, Some c, Some d => Some (((a * 16 + b) * 16 + c) * 16 + d)
  | _, _, _, _ => None
  end.
Definition is_high (u : Z) : bool := (0xD800 <=? u) && (u <=? 0xDBFF).
Definition is_low (u : Z) : bool := (0xDC00 <=? u) && (u <=? 0xDFFF).
Definition unescape (e : Z) : option Z :=
  if e =? 34 then Some 34
  else if e =? 92 then Some 92
  else if e =? 47 then Some 47
  else if e =? 98 then Some 8
  else if e =? 102 then Some 12
  else if e =? 110 then Some 10
  else if e =? 114 then Some 13
  else if e =? 116 then Some 9
  else None.
Definition cons_res (c : Z) (o : option (list Z * list Z)) : option (list Z * list Z) :=
  match o with Some (l, r) => Some (c :: l, r) | None => None end.

(* the characters of a string after the opening quote, up to and including the closing quote;
   gives the code points and the rest of the input *)
Fixpoint parse_chars (s : list Z) : option (list Z * list Z) :=
  match s with
  | [] => None                                                    (* unterminated *)
  | c :: r =>
      if c =? 34 then Some ([], r)
      else if c =? 92 then
        match r with
        | [] => None
        | e :: r1 =>
            if e =? 117 then
              match r1 with
              | h1 :: h2 :: h3 :: h4 :: r2 =>
                  match hex4 h1 h2 h3 h4 with
                  | None => None
                  | Some u =>
                      if is_high u then
                        match r2 with
                        | b :: x :: g1 :: g2 :: g3 :: g4 :: r3 =>
                            if (b =? 92) && (x =? 117) then
                              match hex4 g1 g2 g3 g4 with
                              | Some lo =>
                                  if is_low lo
                                  then cons_res (0x10000 + (u - 0xD800) * 1024 + (lo - 0xDC00)) (parse_chars r3)
                                  else None                       (* invalid low surrogate *)
                              | None => None
                              end
                            else None                             (* no low surrogate *)
                        | _ => None
                        end
                      else if is_low u then None                  (* lone low surrogate *)
                      else cons_res u (parse_chars r2)
                  end
              | _ => None
              end
            else
              match unescape e with
              | Some c' => cons_res c' (parse_chars r1)
              | None => None
              end
        end
      else if c <? 32 then None                                   (* raw control character *)
      else cons_res c (parse_chars r)
  end.

(* Python dict: d[k] = v keeps the position of an existing key *)
Fixpoint dict_set (k : list Z) (v : jv) (m : list (list Z * jv)) : list (list Z * jv) :=
  match m with
  | [] => [(k, v)]
  | (k', v') :: t => if str_eqb k k' then (k', v) :: t else (k', v') :: dict_set k v t
  end.
Definition dict_norm (ms : list (list Z * jv)) : list (list Z * jv) :=
  fold_left (fun d kv => dict_set (fst kv) (snd kv) d) ms [].

(* value, then rest.  parse_elems: after `[` when the array is not empty: v , v , ... ]
   parse_members: after `{` when the object is not empty: "k" : v , "k2" : v2 }   Every call uses one unit of
   fuel; the length of the text (+1) is enough (JsonProofs.jsize_le_length) *)
Fixpoint parse_value (fuel : nat) (s : list Z) {struct fuel} : option (jv * list Z) :=
  match fuel with
  | O => None
  | S f =>
      match skip_ws s with
      | [] => None
      | c :: r =>
          if c =? 110 then
            match r with
            | a :: b :: d :: r' => if (a =? 117) && (b =? 108) && (d =? 108) then Some (JNull, r') else None
            | _ => None
            end
          else if c =? 116 then
            match r with
            | a :: b :: d :: r' => if (a =? 114) && (b =? 117) && (d =? 101) then Some (JBool true, r') else None
            | _ => None
            end
          else if c =? 102 then
            match r with
            | a :: b :: d :: e :: r' =>
                if (a =? 97) && (b =? 108) && (d =? 115) && (e =? 101) then Some (JBool false, r') else None
            | _ => None
            end
          else if c =? 34 then
            match parse_chars r with
            | Some (cs, r') => Some (JStr cs, r')
            | None => None
            end
          else if c =? 91 then
            match skip_ws r with
            | [] => None
            | d :: r' =>
                if d =? 93 then Some (JArr [], r')
                else match parse_elems f (d :: r') with
                     | Some (vs, r'') => Some (JArr vs, r'')
                     | None => None
                     end
            end
          else if c =? 123 then
            match skip_ws r with
            | [] => None
            | d :: r' =>
                if d =? 125 then Some (JObj [], r')
                else match parse_members f (d :: r') with
                     | Some (ms, r'') => Some (JObj (dict_norm ms), r'')
                     | None => None
                     end
            end
          else parse_number (c :: r)
      end
  end
with parse_elems (fuel : nat) (s : list Z) {struct fuel} : option (list jv * list Z) :=
  match fuel with
  | O => None
  | S f =>
      match parse_value f s with
      | None => None
      | Some (v, r) =>
          match skip_ws r with
          | [] => None
          | c :: r' =>
              if c =? 44 then
                match parse_elems f r' with
                | Some (vs, r'') => Some (v :: vs, r'')
                | None => None
                end
              else if c =? 93 then Some ([v], r')
              else None
          end
      end
  end
with parse_members (fuel : nat) (s : list Z) {struct fuel} : option (list (list Z * jv) * list Z) :=
  match fuel with
  | O => None
  | S f =>
      match skip_ws s with
      | [] => None
      | c :: r =>
          if c =? 34 then
            match parse_chars r with
            | None => None
            | Some (k, r1) =>
                match skip_ws r1 with
                | [] => None
                | c2 :: r2 =>
                    if c2 =? 58 then
                      match parse_value f r2 with
                      | None => None
                      | Some (v, r3) =>
                          match skip_ws r3 with
                          | [] => None
                          | c3 :: r4 =>
                              if c3 =? 44 then
                                match parse_members f r4 with
                                | Some (ms, r5) => Some ((k, v) :: ms, r5)
                                | None => None
                                end
                              else if c3 =? 125 then Some ([(k, v)], r4)
                              else None
                          end
                      end
                    else None
                end
            end
          else None
      end
  end.

(* orjson.loads of a str: a Python str may hold lone surrogates, which orjson refuses *)
Definition json_parse_text (s : list Z) : option jv :=
  if forallb cp_okb s then
    match parse_value (S (length s)) s with
    | Some (v, r) => match skip_ws r with [] => Some v | _ => None end
    | None => None
    end
  else None.

(* orjson.loads of bytes *)
Definition json_parse (b : list Z) : option jv :=
  match utf8_decode b with
  | Some s => json_parse_text s
  | None => None
  end.
