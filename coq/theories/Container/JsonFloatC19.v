(* JsonC19.v repeated for the model with floats (JsonFloat.v): the orjson premises of C19 discharged for values that may
   hold finite binary64 floats; Obj = the well-formed values of jvf, Ch = code points. *)
From Coq Require Import List ZArith Bool Eqdep_dec.
From RxVerif Require Import Framing.Line Container.JsonLines Container.JsonLinesProofs.
From RxVerif Require Import Container.FloatText Container.Json Container.JsonProofs Container.JsonFloat Container.JsonFloatProofs.
Import ListNotations.
Local Open Scope Z_scope.

Definition wfjvf : Type := {v : jvf | jvf_wfb v = true}.
Definition wff_val (o : wfjvf) : jvf := proj1_sig o.
Definition wff_dumps (o : wfjvf) : list Z := jsonf_text (wff_val o).
Definition wff_check (v : jvf) : option wfjvf :=
  (if jvf_wfb v as b return (jvf_wfb v = b -> option wfjvf)
   then fun e => Some (exist _ v e) else fun _ => None) eq_refl.
Definition wff_loads (s : list Z) : option wfjvf :=
  match jsonf_parse_text s with
  | Some v => wff_check v
  | None => None
  end.
Definition wff_is_null (o : wfjvf) : bool := match wff_val o with FNull => true | _ => false end.
Definition zf_is_nl (c : Z) : bool := c =? 10.

Lemma wff_check_aux : forall v (e : jvf_wfb v = true) b (e' : jvf_wfb v = b),
  (if b as b0 return (jvf_wfb v = b0 -> option wfjvf)
   then fun e0 => Some (exist _ v e0) else fun _ => None) e' = Some (exist _ v e).
Proof.
  intros v e b e'. destruct b.
  - rewrite (UIP_dec bool_dec e' e). reflexivity.
  - rewrite e in e'. discriminate e'.
Qed.

Lemma wff_check_val : forall o, wff_check (wff_val o) = Some o.
Proof. intros [v e]. unfold wff_check, wff_val. cbn [proj1_sig]. apply wff_check_aux. Qed.

Lemma wff_val_wf : forall o, jvf_wf (wff_val o).
Proof. intros [v e]. apply jvf_wfb_sound. exact e. Qed.

(* H_loads_dumps *)
Theorem orjsonf_loads_dumps : forall o, wff_loads (wff_dumps o) = Some o.
Proof.
  intros o. unfold wff_loads, wff_dumps. rewrite jsonf_parse_text_print by apply wff_val_wf. apply wff_check_val.
Qed.

(* H_loads_dumps_nl *)
Theorem orjsonf_loads_dumps_nl : forall o, wff_loads (wff_dumps o ++ [10]) = Some o.
Proof.
  intros o. unfold wff_loads, wff_dumps.
  rewrite jsonf_parse_text_print_ws by (try apply wff_val_wf; repeat constructor). apply wff_check_val.
Qed.

(* H_dumps_no_newline *)
Theorem orjsonf_dumps_no_newline : forall o, no_nl Z zf_is_nl (wff_dumps o).
Proof.
  intros o. unfold no_nl. apply forallb_forall. intros c Hc. unfold zf_is_nl. apply negb_true_iff. apply Z.eqb_neq.
  intros ->. exact (jsonf_text_no_newline _ Hc).
Qed.

(* H_dumps_nonempty *)
Theorem orjsonf_dumps_nonempty : forall o, wff_dumps o <> [].
Proof. intros o. apply jsonf_text_nonempty. Qed.

(* C19_load_any_rechunking_of_dump_partial without its orjson premises *)
Theorem C19_modelf_load_any_rechunking_of_dump :
  forall (Byte : Type)
         (encode : list (list Z) -> list (list Byte)) (decode : list (list Byte) -> option (list (list Z)))
         (compress : list (list Byte) -> list (list Byte))
         (decompress : list (list Byte) -> option (list (list Byte))),
  (* H_text_codec *) (forall cs r, concat r = concat (encode cs) ->
                      exists cs', decode r = Some cs' /\ concat cs' = concat cs) ->
  (* H_compression *) (forall bs r, concat r = concat (compress bs) ->
                       exists bs', decompress r = Some bs' /\ concat bs' = concat bs) ->
  forall (objs : list wfjvf) (r : list (list Byte)) (skip : nat) (ign : bool),
  concat r = dump_to_file wfjvf Z Byte 10 wff_dumps encode compress objs ->
  load_chunks wfjvf Z Byte zf_is_nl wff_loads wff_is_null decode decompress skip ign r =
  (filter (fun o => negb (wff_is_null o)) (skipn skip objs), true).
Proof.
  intros Byte encode decode compress decompress Hc Hz. apply load_rechunk_dump.
  - reflexivity.
  - exact orjsonf_loads_dumps.
  - exact orjsonf_dumps_no_newline.
  - exact orjsonf_dumps_nonempty.
  - exact Hc.
  - exact Hz.
Qed.

(* C19_load_from_file_dump_to_file_partial without its orjson premises *)
Theorem C19_modelf_load_from_file_dump_to_file :
  forall (Byte : Type)
         (encode : list (list Z) -> list (list Byte)) (decode : list (list Byte) -> option (list (list Z)))
         (compress : list (list Byte) -> list (list Byte))
         (decompress : list (list Byte) -> option (list (list Byte))),
  (forall cs r, concat r = concat (encode cs) -> exists cs', decode r = Some cs' /\ concat cs' = concat cs) ->
  (forall bs r, concat r = concat (compress bs) -> exists bs', decompress r = Some bs' /\ concat bs' = concat bs) ->
  forall (objs : list wfjvf) (size : nat) (ign : bool),
  (forall o, In o objs -> wff_is_null o = false) ->
  load_from_file wfjvf Z Byte zf_is_nl wff_loads wff_is_null decode decompress size 0 ign
    (dump_to_file wfjvf Z Byte 10 wff_dumps encode compress objs) = (objs, true).
Proof.
  intros Byte encode decode compress decompress Hc Hz. apply load_from_file_dump_to_file_objects.
  - reflexivity.
  - exact orjsonf_loads_dumps.
  - exact orjsonf_dumps_no_newline.
  - exact orjsonf_dumps_nonempty.
  - exact Hc.
  - exact Hz.
Qed.

(* C19_load_doc_from_file_dump_one_partial (lines=False) without its orjson premise *)
Theorem C19_modelf_load_doc_from_file_dump_one :
  forall (Byte : Type)
         (encode : list (list Z) -> list (list Byte)) (decode : list (list Byte) -> option (list (list Z)))
         (compress : list (list Byte) -> list (list Byte))
         (decompress : list (list Byte) -> option (list (list Byte))),
  (forall cs r, drop_empty r = drop_empty [concat (encode cs)] ->
   exists cs', decode r = Some cs' /\ drop_empty cs' = drop_empty [concat cs]) ->
  (forall bs r, drop_empty r = drop_empty [concat (compress bs)] ->
   exists bs', decompress r = Some bs' /\ drop_empty bs' = drop_empty [concat bs]) ->
  forall (o : wfjvf) (ign : bool), wff_is_null o = false ->
  load_doc_from_file wfjvf Z Byte wff_loads wff_is_null decode decompress 0 ign
    (dump_to_file wfjvf Z Byte 10 wff_dumps encode compress [o]) = ([o], true).
Proof.
  intros Byte encode decode compress decompress Hc Hz. apply load_doc_from_file_dump_one.
  - exact orjsonf_loads_dumps_nl.
  - exact Hc.
  - exact Hz.
Qed.

Print Assumptions orjsonf_loads_dumps.
Print Assumptions orjsonf_loads_dumps_nl.
Print Assumptions orjsonf_dumps_no_newline.
Print Assumptions orjsonf_dumps_nonempty.
Print Assumptions C19_modelf_load_any_rechunking_of_dump.
Print Assumptions C19_modelf_load_from_file_dump_to_file.
Print Assumptions C19_modelf_load_doc_from_file_dump_one.
