(* Proofs about the encode()/decode() wrappers: for every codec whose one-character parser round-trips,
   makes progress and keeps its decided answers under more input, decoding ANY re-chunking of the
   encoder's output gives back the text.  Instantiated for utf-8, utf-16, utf-32, latin-1. *)
From Coq Require Import List NArith Arith Lia Bool.
From RxVerif Require Import Base.Corr Framing.Incremental Framing.IncrementalProofs.
From RxVerif Require Import Codec.Utf8 Codec.Utf16 Codec.Utf32 Codec.Latin1 Codec.Wrapper.
From RxVerif Require Import Codec.Utf8Proofs Codec.Utf16Proofs Codec.Utf32Proofs Codec.Latin1Proofs.
Import ListNotations.

Lemma ns_eqb_eq (a b : list N) : list_eqb N.eqb a b = true <-> a = b.
Proof.
  revert b. induction a as [|x a IH]; destruct b as [|y b]; cbn; try (split; [discriminate|discriminate]); [tauto|].
  rewrite andb_true_iff, N.eqb_eq, IH. split; [intros [-> ->]; reflexivity | intros H; inversion H; auto].
Qed.

Lemma flat_map_concat {A B} (f : A -> list B) (l : list (list A)) :
  flat_map f (concat l) = concat (map (flat_map f) l).
Proof. induction l as [|x l IH]; cbn; [reflexivity|]. now rewrite flat_map_app, IH. Qed.

Lemma prefix_split {A} (b a x y : list A) : a ++ x = b ++ y -> length b <= length a ->
  firstn (length b) a = b /\ skipn (length b) a ++ x = y.
Proof.
  revert a. induction b as [|h b IH]; intros a H Hl; cbn [length firstn skipn app] in *; [auto|].
  destruct a as [|h' a]; cbn [length] in Hl; [lia|]. cbn [app] in H. inversion H; subst.
  destruct (IH a H2) as [-> ->]; [lia|]. auto.
Qed.

Section Generic.
Variable k : codec.
Notation d := (c_dec k false).
Notation p1 := (fun b : list N => to_opt (c_dec k false b)).
Notation pbuf := (parse_buf N N p1).
Notation n := (c_bomlen k).

Hypothesis Hrt : forall c rest, c_ok k c = true -> d (c_enc k c ++ rest) = Got c rest.
Hypothesis Hext : forall buf ext, d buf <> More ->
  d (buf ++ ext) = match d buf with Got c r => Got c (r ++ ext) | x => x end.
Hypothesis Hprog : forall buf c rest, d buf = Got c rest -> length rest < length buf.
Hypothesis Hshort : forall buf, length buf < n -> d buf = More.
Hypothesis Hnil : d [] = More.
Hypothesis Hbom0 : length (c_bom k false) = n.
Hypothesis Hbom1 : length (c_bom k true) = n.

Lemma p1_progress : forall buf u rest, p1 buf = Some (u, rest) -> length rest < length buf.
Proof. intros buf u rest H. apply to_opt_Some in H. eauto. Qed.

Lemma p1_stable : forall buf u rest ext, p1 buf = Some (u, rest) -> p1 (buf ++ ext) = Some (u, rest ++ ext).
Proof.
  intros buf u rest ext H. apply to_opt_Some in H. apply to_opt_Some.
  rewrite Hext by (rewrite H; discriminate). now rewrite H.
Qed.

Definition pb_eq := parse_buf_eq N N p1 p1_progress.
Definition pb_app := parse_buf_app N N p1 p1_progress p1_stable.
Definition pb_res := parse_buf_residue N N p1 p1_progress.

Lemma pb_nil : pbuf [] = ([], []).
Proof. rewrite pb_eq, Hnil. reflexivity. Qed.

Lemma pb_stuck buf : d buf = More \/ d buf = Bad -> pbuf buf = ([], buf).
Proof. intros H. rewrite pb_eq. destruct H as [-> | ->]; reflexivity. Qed.

(* parsing an encoded string gives the string back, then goes on with what follows *)
Lemma pb_enc_str s rest : forallb (c_ok k) s = true ->
  pbuf (enc_str k s ++ rest) = let '(us, r) := pbuf rest in (s ++ us, r).
Proof.
  induction s as [|c s IH]; cbn [enc_str flat_map forallb app]; intros H.
  - destruct (pbuf rest); reflexivity.
  - apply andb_true_iff in H as [Hc Hs]. rewrite <- app_assoc, pb_eq. fold (enc_str k s).
    rewrite (Hrt c _ Hc). cbn [to_opt]. rewrite (IH Hs). destruct (pbuf rest); reflexivity.
Qed.

(* inside a well-formed stream the carried-over tail is never an error *)
Lemma mid_not_bad r ext us : pbuf (r ++ ext) = (us, []) -> d r <> Bad.
Proof.
  intros H Hb. assert (He : d (r ++ ext) = Bad) by (rewrite Hext by (rewrite Hb; discriminate); now rewrite Hb).
  rewrite pb_stuck in H by auto. inversion H as [[Hu Hr]]. apply app_eq_nil in Hr as [-> _].
  rewrite Hnil in Hb. discriminate.
Qed.

Lemma run_timed_length : forall chunks acc, length (fst (run_timed N N p1 acc chunks)) = length chunks.
Proof.
  induction chunks as [|c cs IH]; intros acc; cbn [run_timed]; [reflexivity|].
  destruct (pbuf (acc ++ c)) as [us r]. specialize (IH r). destruct (run_timed N N p1 r cs). cbn in *. now rewrite IH.
Qed.

(* byte order known: the wrapper is the generic incremental run, plus an empty final flush *)
Lemma decode_known : forall chunks acc us, pbuf acc = ([], acc) -> pbuf (acc ++ concat chunks) = (us, []) ->
  decode_go k {| d_order := Known false; d_buf := acc |} chunks = (fst (run_timed N N p1 acc chunks) ++ [[]], NoErr).
Proof.
  induction chunks as [|c cs IH]; intros acc us Hacc Hall; cbn [decode_go run_timed concat fst app].
  - unfold dec_call, dec_known, dec_data. cbn [d_order d_buf]. cbn [concat] in Hall. rewrite Hall.
    rewrite app_nil_r in Hall. rewrite Hacc in Hall. inversion Hall; subst. rewrite Hnil. reflexivity.
  - unfold dec_call, dec_known, dec_data. cbn [d_order d_buf].
    cbn [concat] in Hall. rewrite app_assoc, pb_app in Hall.
    pose proof (pb_res (acc ++ c)) as Hres.
    destruct (pbuf (acc ++ c)) as [us1 r]. cbn [snd] in Hres.
    destruct (pbuf (r ++ concat cs)) as [us2 r'] eqn:E2. inversion Hall; subst.
    pose proof (mid_not_bad _ _ _ E2) as Hnb. cbn [andb].
    specialize (IH r us2 Hres E2).
    destruct (d r) eqn:Er; try (exfalso; now apply Hnb); rewrite IH;
      destruct (run_timed N N p1 r cs); reflexivity.
Qed.

Lemma decode_known_concat chunks acc us : pbuf acc = ([], acc) -> pbuf (acc ++ concat chunks) = (us, []) ->
  exists outs, decode_go k {| d_order := Known false; d_buf := acc |} chunks = (outs, NoErr)
               /\ concat outs = us /\ length outs = S (length chunks).
Proof.
  intros Hacc Hall. eexists. split; [eapply decode_known; eauto|]. split.
  - rewrite concat_app. cbn [concat]. rewrite !app_nil_r.
    pose proof (run_timed_concat N N p1 chunks acc) as H1.
    rewrite (run_concat N N p1 p1_progress p1_stable chunks acc Hacc), Hall in H1. now inversion H1.
  - rewrite app_length, run_timed_length. cbn. lia.
Qed.

(* byte order unknown: nothing is emitted until the BOM is complete; then as above *)
Lemma decode_unknown : forall chunks acc payload us, 0 < n -> length acc < n ->
  acc ++ concat chunks = c_bom k false ++ payload -> pbuf payload = (us, []) ->
  exists outs, decode_go k {| d_order := Unknown; d_buf := acc |} chunks = (outs, NoErr)
               /\ concat outs = us /\ length outs = S (length chunks).
Proof.
  induction chunks as [|c cs IH]; intros acc payload us Hn Hacc Hcat Hpay.
  - exfalso. cbn [concat] in Hcat. rewrite app_nil_r in Hcat. apply (f_equal (@length N)) in Hcat.
    rewrite app_length in Hcat. lia.
  - cbn [concat] in Hcat. rewrite app_assoc in Hcat.
    destruct (Nat.lt_ge_cases (length (acc ++ c)) n) as [Hlt | Hge].
    + (* BOM still incomplete *)
      assert (Hne : forall be, list_eqb N.eqb (firstn n (acc ++ c)) (c_bom k be) = false).
      { intros be. destruct (list_eqb N.eqb (firstn n (acc ++ c)) (c_bom k be)) eqn:E; [|reflexivity].
        apply ns_eqb_eq in E. apply (f_equal (@length N)) in E. rewrite firstn_length in E.
        destruct be; rewrite ?Hbom0, ?Hbom1 in E; lia. }
      destruct (IH (acc ++ c) payload us Hn Hlt Hcat Hpay) as (outs & Hd & Hc & Hl).
      exists ([] :: outs). cbn [decode_go]. unfold dec_call. cbn [d_order d_buf]. rewrite !Hne.
      unfold dec_data. rewrite pb_stuck by (left; now apply Hshort). rewrite (Hshort _ Hlt). cbn [andb].
      rewrite Nat.sub_diag. destruct (n <=? 0) eqn:E0; [apply Nat.leb_le in E0; lia|].
      rewrite Hd. cbn [concat length app]. auto.
    + (* BOM complete: consumed, little endian from now on *)
      destruct (prefix_split (c_bom k false) (acc ++ c) (concat cs) payload Hcat) as [Hf Hs]; [lia|].
      rewrite Hbom0 in Hf, Hs.
      assert (Hstep : decode_go k {| d_order := Unknown; d_buf := acc |} (c :: cs) =
                      decode_go k {| d_order := Known false; d_buf := [] |} (skipn n (acc ++ c) :: cs)).
      { cbn [decode_go]. unfold dec_call. cbn [d_order d_buf app].
        rewrite (proj2 (ns_eqb_eq _ _) Hf). reflexivity. }
      rewrite Hstep.
      destruct (decode_known_concat (skipn n (acc ++ c) :: cs) [] us pb_nil) as (outs & Hd & Hc & Hl).
      { cbn [app concat]. now rewrite Hs. }
      exists outs. cbn [length] in *. auto.
Qed.

(* ---- encode ---- *)
Lemma encode_started strs : forallb (forallb (c_ok k)) strs = true ->
  encode_go k true strs = (map (enc_str k) strs ++ [[]], NoErr).
Proof using.
  induction strs as [|s ss IH]; cbn [encode_go forallb map app]; intros H.
  - reflexivity.
  - apply andb_true_iff in H as [Hs Hss]. unfold enc_call. rewrite Hs, (IH Hss). reflexivity.
Qed.

Lemma encode_k_spec strs : forallb (forallb (c_ok k)) strs = true ->
  exists o os, map (enc_str k) strs ++ [[]] = o :: os /\ encode_k k strs = ((c_bom k false ++ o) :: os, NoErr).
Proof using.
  unfold encode_k. destruct strs as [|s ss]; cbn [encode_go forallb map app]; intros H.
  - exists [], []. split; reflexivity.
  - apply andb_true_iff in H as [Hs Hss]. unfold enc_call. rewrite Hs, (encode_started ss Hss).
    eexists _, _. split; reflexivity.
Qed.

Lemma encode_k_concat strs : forallb (forallb (c_ok k)) strs = true ->
  snd (encode_k k strs) = NoErr /\ length (fst (encode_k k strs)) = S (length strs) /\
  concat (fst (encode_k k strs)) = c_bom k false ++ enc_str k (concat strs).
Proof using.
  intros H. destruct (encode_k_spec strs H) as (o & os & E & ->). cbn [fst snd]. split; [reflexivity|]. split.
  - apply (f_equal (@length _)) in E. rewrite app_length, map_length in E. cbn [length] in *. clear - E. lia.
  - cbn [concat]. rewrite <- app_assoc. f_equal. change (o ++ concat os) with (concat (o :: os)).
    rewrite <- E, concat_app. cbn [concat]. rewrite !app_nil_r. unfold enc_str. now rewrite flat_map_concat.
Qed.

Lemma forallb_concat {A} (f : A -> bool) (l : list (list A)) :
  forallb (forallb f) l = true -> forallb f (concat l) = true.
Proof.
  induction l as [|x l IH]; cbn; [reflexivity|]. rewrite forallb_app, !andb_true_iff. intros [? ?]. auto.
Qed.

Theorem roundtrip_k strs chunks : forallb (forallb (c_ok k)) strs = true ->
  concat chunks = concat (fst (encode_k k strs)) ->
  exists outs, decode_k k chunks = (outs, NoErr) /\ concat outs = concat strs /\ length outs = S (length chunks).
Proof.
  intros Hok Hcat. destruct (encode_k_concat strs Hok) as (_ & _ & Henc). rewrite Henc in Hcat.
  assert (Hp : pbuf (enc_str k (concat strs)) = (concat strs, [])).
  { rewrite <- (app_nil_r (enc_str k (concat strs))), pb_enc_str by now apply forallb_concat.
    rewrite pb_nil, app_nil_r. reflexivity. }
  unfold decode_k, init_state. destruct (n =? 0) eqn:En.
  - apply Nat.eqb_eq in En. pose proof Hbom0 as Hb. rewrite En in Hb. apply length_zero_iff_nil in Hb. rewrite Hb in Hcat.
    apply decode_known_concat; [apply pb_nil|]. cbn [app] in *. now rewrite Hcat.
  - apply Nat.eqb_neq in En. eapply decode_unknown; eauto; cbn [length]; lia.
Qed.

End Generic.

(* ---------------------------------------------------------------------------------------------- *)
(* the four encodings                                                                              *)
(* ---------------------------------------------------------------------------------------------- *)
Lemma valid_ok e c : valid_cp e c <-> c_ok (codec_of e) c = true.
Proof.
  destruct e; cbn [valid_cp codec_of c_ok]; try (symmetry; apply scalarb_spec).
  unfold Latin1.okb. symmetry. apply N.ltb_lt.
Qed.

Lemma valid_all e strs : Forall (Forall (valid_cp e)) strs -> forallb (forallb (c_ok (codec_of e))) strs = true.
Proof.
  intros H. apply forallb_forall. intros s Hs. apply forallb_forall. intros c Hc. apply valid_ok.
  rewrite Forall_forall in H. specialize (H s Hs). rewrite Forall_forall in H. auto.
Qed.

Theorem roundtrip e strs chunks : Forall (Forall (valid_cp e)) strs ->
  concat chunks = concat (fst (encode e strs)) ->
  exists outs, decode e chunks = (outs, NoErr) /\ concat outs = concat strs /\ length outs = S (length chunks).
Proof.
  intros Hv. apply valid_all in Hv. revert Hv. unfold encode, decode.
  destruct e; intros Hv; apply roundtrip_k; try exact Hv;
    cbn [codec_of c_ok c_enc c_dec c_bom c_bomlen]; try reflexivity; intros;
    first [ apply Utf8P.dec1_enc; now apply scalarb_spec | apply Utf16P.dec1_enc; now apply scalarb_spec
          | apply Utf32P.dec1_enc; now apply scalarb_spec | apply Latin1P.dec1_enc
          | now apply Utf8P.dec1_ext | now apply Utf16P.dec1_ext | now apply Utf32P.dec1_ext | now apply Latin1P.dec1_ext
          | eapply Utf8P.dec1_progress; eassumption | eapply Utf16P.dec1_progress; eassumption
          | eapply Utf32P.dec1_progress; eassumption | eapply Latin1P.dec1_progress; eassumption
          | now apply Utf16P.dec1_short | now apply Utf32P.dec1_short | lia ].
Qed.

(* what the encoder emits: one item per string and one at completion; the BOM in front of the first item
   only (whatever the strings, empty ones included) *)
Theorem encode_spec e strs : Forall (Forall (valid_cp e)) strs ->
  encode e strs = (with_bom e (map (enc_str (codec_of e)) strs ++ [[]]), NoErr).
Proof.
  intros Hv. apply valid_all in Hv. destruct (encode_k_spec _ strs Hv) as (o & os & E & H).
  unfold encode. rewrite H, E. reflexivity.
Qed.

Theorem encode_concat e strs : Forall (Forall (valid_cp e)) strs ->
  concat (fst (encode e strs)) = encoded e strs.
Proof. intros Hv. apply valid_all in Hv. now destruct (encode_k_concat _ strs Hv) as (_ & _ & H). Qed.

Theorem roundtrip_bytes e strs chunks : Forall (Forall (valid_cp e)) strs ->
  concat chunks = encoded e strs ->
  exists outs, decode e chunks = (outs, NoErr) /\ concat outs = concat strs /\ length outs = S (length chunks).
Proof. intros Hv Hc. apply roundtrip; auto. now rewrite encode_concat. Qed.

(* per encoding: the one-character facts, on Wrapper.parse1 *)
Theorem parse1_enc e c rest : valid_cp e c -> parse1 e (c_enc (codec_of e) c ++ rest) = Some (c, rest).
Proof.
  unfold parse1. destruct e; cbn [valid_cp codec_of c_enc c_dec]; intros H.
  - now rewrite Utf8P.dec1_enc.
  - now rewrite Utf16P.dec1_enc.
  - now rewrite Utf32P.dec1_enc.
  - reflexivity.
Qed.

Theorem parse1_progress e buf u rest : parse1 e buf = Some (u, rest) -> length rest < length buf.
Proof.
  unfold parse1. rewrite to_opt_Some. destruct e; cbn [codec_of c_dec].
  - apply Utf8P.dec1_progress.
  - apply Utf16P.dec1_progress.
  - apply Utf32P.dec1_progress.
  - apply Latin1P.dec1_progress.
Qed.

Theorem parse1_stable e buf u rest ext : parse1 e buf = Some (u, rest) -> parse1 e (buf ++ ext) = Some (u, rest ++ ext).
Proof.
  unfold parse1. rewrite !to_opt_Some. intros H.
  assert (Hx : c_dec (codec_of e) false (buf ++ ext) =
               match c_dec (codec_of e) false buf with Got c r => Got c (r ++ ext) | x => x end).
  { destruct e; cbn [codec_of c_dec] in *;
      [apply Utf8P.dec1_ext | apply Utf16P.dec1_ext | apply Utf32P.dec1_ext | apply Latin1P.dec1_ext];
      rewrite H; discriminate. }
  now rewrite Hx, H.
Qed.
