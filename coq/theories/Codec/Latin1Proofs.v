(* Proofs about the latin-1 model. *)
From Coq Require Import List NArith Lia Bool.
From RxVerif Require Import Codec.Utf8 Codec.Latin1 Codec.Utf8Proofs.
Import ListNotations.
Local Open Scope N_scope.

Module Latin1P.
Import Latin1.

Lemma dec1_enc c rest : dec1 (enc c ++ rest) = Got c rest.
Proof. reflexivity. Qed.

Lemma parse1_enc c rest : c < 256 -> parse1 (enc c ++ rest) = Some (c, rest).
Proof. reflexivity. Qed.

Lemma dec1_ext buf ext : dec1 buf <> More ->
  dec1 (buf ++ ext) = match dec1 buf with Got c r => Got c (r ++ ext) | x => x end.
Proof. destruct buf; cbn; intros H; [now destruct H | reflexivity]. Qed.

Lemma parse1_stable buf u rest ext : parse1 buf = Some (u, rest) -> parse1 (buf ++ ext) = Some (u, rest ++ ext).
Proof.
  unfold parse1. rewrite !to_opt_Some. intros H. rewrite dec1_ext by (rewrite H; discriminate). now rewrite H.
Qed.

Lemma dec1_progress buf c rest : dec1 buf = Got c rest -> (length rest < length buf)%nat.
Proof. destruct buf; cbn; intros H; inversion H; subst; lia. Qed.

Lemma parse1_progress buf u rest : parse1 buf = Some (u, rest) -> (length rest < length buf)%nat.
Proof. unfold parse1. rewrite to_opt_Some. apply dec1_progress. Qed.

End Latin1P.
