(* UTF-16 as done by CPython (stringlib utf16_decode / utf16_encode): 2-byte units, surrogate pairs
   for code points >= 0x10000.  `be` selects the byte order; the incremental ENCODER of the 'utf-16'
   codec always writes the native order (little endian here), the decoder follows the BOM.
   Executable model; no proofs here. *)
From Coq Require Import List NArith Bool.
From RxVerif Require Import Codec.Utf8.
Import ListNotations.
Local Open Scope N_scope.

Module Utf16.

Definition unit_bytes (be : bool) (u : N) : list N :=
  if be then [u / 256; u mod 256] else [u mod 256; u / 256].
Definition unit_of (be : bool) (b0 b1 : N) : N := if be then b0 * 256 + b1 else b0 + 256 * b1.

Definition enc_bo (be : bool) (c : N) : list N :=
  if c <? 0x10000 then unit_bytes be c
  else unit_bytes be (0xD800 + (c - 0x10000) / 1024) ++ unit_bytes be (0xDC00 + (c - 0x10000) mod 1024).
Definition enc := enc_bo false.

Definition bom (be : bool) : list N := if be then [0xFE; 0xFF] else [0xFF; 0xFE].

Definition dec1 (be : bool) (buf : list N) : res :=
  match buf with
  | b0 :: b1 :: r =>
    let u := unit_of be b0 b1 in
    if (u <? 0xD800) || (0xE000 <=? u) then Got u r
    else if u <? 0xDC00 then                       (* high surrogate: needs a low one *)
      match r with
      | c0 :: c1 :: r' =>
        let v := unit_of be c0 c1 in
        if (0xDC00 <=? v) && (v <? 0xE000)
        then Got (0x10000 + (u - 0xD800) * 1024 + (v - 0xDC00)) r'
        else Bad                                   (* "illegal UTF-16 surrogate" *)
      | _ => More
      end
    else Bad                                       (* lone low surrogate: "illegal encoding" *)
  | _ => More
  end.

Definition parse1 (buf : list N) : option (N * list N) := to_opt (dec1 false buf).

End Utf16.
