(* Correspondence checker for C17: does the model reproduce, step by step, what rs.data.encode and
   rs.data.decode emitted (bytes / code points per pushed item and at completion) and how they ended
   (completed, or which exception)?  Executable only. *)
From Coq Require Import List NArith Bool.
From RxVerif Require Import Base.Corr Codec.Utf8 Codec.Wrapper.
Import ListNotations.

Inductive c17case :=
| CRaised     (* the harness itself failed / an exception class the model does not know *)
| CCase (e : encoding)
        (* encode: input strings; items emitted at each step (one step per string, then completion);
           exception (NoErr = none); did on_completed arrive *)
        (strs : list (list N)) (enc_steps : list (list (list N))) (enc_err : err) (enc_completed : bool)
        (* decode: the same for the byte chunks *)
        (chunks : list (list N)) (dec_steps : list (list (list N))) (dec_err : err) (dec_completed : bool).

Definition ns_eqb := list_eqb N.eqb.
Definition steps_eqb := list_eqb (list_eqb ns_eqb).

(* the model emits exactly one item per step; after an exception nothing more, and no completion *)
Definition agrees (model : list (list N) * err) (steps : list (list (list N))) (e : err) (completed : bool) : bool :=
  steps_eqb (map (fun o => [o]) (fst model)) steps && err_eqb (snd model) e
  && Bool.eqb completed (err_eqb (snd model) NoErr).

Definition c17_check (c : c17case) : bool :=
  match c with
  | CRaised => false
  | CCase e strs enc_steps enc_err enc_completed chunks dec_steps dec_err dec_completed =>
      agrees (encode e strs) enc_steps enc_err enc_completed
      && agrees (decode e chunks) dec_steps dec_err dec_completed
  end.
