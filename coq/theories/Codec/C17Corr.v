(* Correspondence checker for C17: does the model reproduce, step by step, what rs.data.encode and
   rs.data.decode emitted (bytes / code points per pushed item and at completion) and how they ended
   (completed, or which exception)?  Executable only. *)
From Coq Require Import List NArith Arith Bool.
From RxVerif Require Import Base.Corr Codec.Utf8 Codec.Wrapper.
Import ListNotations.

Definition run := (option nat * list (list (list N)) * err * bool)%type.
Definition rlist := list (list N * N).

Inductive c17case :=
| CRaised     (* the harness itself failed / an exception class the model does not know *)
| CSkip       (* a SCALE case (several MiB) that is too large to be evaluated here: it is judged by the
                 model-free oracle of harness/props/C17.py only; never used for an observation that raised *)
| CCase (e : encoding)
        (* encode: input strings; items emitted at each step (one step per string, then completion);
           exception (NoErr = none); did on_completed arrive *)
        (strs : list (list N)) (enc_steps : list (list (list N))) (enc_err : err) (enc_completed : bool)
        (* decode: the same for the byte chunks *)
        (chunks : list (list N)) (dec_steps : list (list (list N))) (dec_err : err) (dec_completed : bool)
  (* SEVERAL subscriptions of one and the same operator / pipeline object, one after the other.  Every
     subscription is a `run`: how many inputs were pushed before the subscription was disposed (None = all of
     them, then on_completed), the items emitted at each step, the exception, did on_completed arrive.
     Every subscription has to behave like a fresh one (the codec state belongs to the subscription). *)
| CSubs (e : encoding) (strs : list (list N)) (enc_runs : list run)
        (chunks : list (list N)) (dec_runs : list run)
  (* the decode stage as rs.container.json.load_from_file uses it: the strings are the lines of a file, the
     chunks its 64 KiB read blocks.  Same content as CCase, every byte / code point list run-length coded
     ((block, repetitions) pairs; a block is one code unit of 1, 2 or 4 bytes, or one code point), since the
     files are mostly padding. *)
| CFileRL (e : encoding)
        (strs : list rlist) (enc_steps : list (list rlist)) (enc_err : err) (enc_completed : bool)
        (chunks : list rlist) (dec_steps : list (list rlist)) (dec_err : err) (dec_completed : bool)
  (* SCALE cases (chunks of 64 KiB ... 1 MiB, thousands of strings / chunks): the same content as CCase, written
     flat.  text = all the strings joined, cut into strings of the lengths strlens; data = all the chunks
     joined, cut into chunks of the lengths sizes (a rest is one more string / chunk); enc_out / dec_out = all
     the emitted items joined, ONE item per step (also at completion), of the lengths enc_lens / dec_lens.
     Everything run-length coded, the lists of lengths too. *)
| CScale (e : encoding)
        (text strlens enc_out enc_lens : rlist) (enc_err : err) (enc_completed : bool)
        (data sizes dec_out dec_lens : rlist) (dec_err : err) (dec_completed : bool).

Definition ns_eqb := list_eqb N.eqb.
Definition steps_eqb := list_eqb (list_eqb ns_eqb).

(* the model emits exactly one item per step; after an exception nothing more, and no completion *)
Definition agrees (model : list (list N) * err) (steps : list (list (list N))) (e : err) (completed : bool) : bool :=
  steps_eqb (map (fun o => [o]) (fst model)) steps && err_eqb (snd model) e
  && Bool.eqb completed (err_eqb (snd model) NoErr).

(* what the model says about a subscription that is disposed after n inputs, from its answer m for the
   stream cut after n inputs (which includes the final flush): without exception the flush item is dropped;
   n items and an exception: it was the flush that raised, the n pushes did not; fewer items: that push raised *)
Definition cut_short (m : list (list N) * err) (n : nat) : list (list N) * err :=
  if err_eqb (snd m) NoErr then (removelast (fst m), NoErr)
  else if n <=? length (fst m) then (fst m, NoErr)
  else m.

Definition run_agrees {A} (model : list A -> list (list N) * err) (inputs : list A) (r : run) : bool :=
  match r with
  | (None, steps, e, completed) => agrees (model inputs) steps e completed
  | (Some n, steps, e, completed) =>
      let m := cut_short (model (firstn n inputs)) n in
      (n <=? length inputs) && steps_eqb (map (fun o => [o]) (fst m)) steps && err_eqb (snd m) e && negb completed
  end.

Definition unrl (l : rlist) : list N := flat_map (fun p => concat (repeat (fst p) (N.to_nat (snd p)))) l.

(* l cut into pieces of the given lengths; what is left over is one more piece *)
Fixpoint split_by {A} (l : list A) (lens : list nat) : list (list A) :=
  match lens with
  | [] => match l with [] => [] | _ => [l] end
  | n :: ns => firstn n l :: split_by (skipn n l) ns
  end.
Definition pieces (l lens : rlist) : list (list N) := split_by (unrl l) (map N.to_nat (unrl lens)).
(* the emitted items: exactly the given lengths, nothing left over *)
Definition items (out lens : rlist) : option (list (list (list N))) :=
  let ls := map N.to_nat (unrl lens) in
  if length (unrl out) =? fold_right Nat.add 0 ls then Some (map (fun o => [o]) (split_by (unrl out) ls)) else None.

Definition c17_check (c : c17case) : bool :=
  match c with
  | CRaised => false
  | CSkip => true
  | CCase e strs enc_steps enc_err enc_completed chunks dec_steps dec_err dec_completed =>
      agrees (encode e strs) enc_steps enc_err enc_completed
      && agrees (decode e chunks) dec_steps dec_err dec_completed
  | CSubs e strs enc_runs chunks dec_runs =>
      forallb (run_agrees (encode e) strs) enc_runs && forallb (run_agrees (decode e) chunks) dec_runs
  | CFileRL e strs enc_steps enc_err enc_completed chunks dec_steps dec_err dec_completed =>
      agrees (encode e (map unrl strs)) (map (map unrl) enc_steps) enc_err enc_completed
      && agrees (decode e (map unrl chunks)) (map (map unrl) dec_steps) dec_err dec_completed
  | CScale e text strlens enc_out enc_lens enc_err enc_completed data sizes dec_out dec_lens dec_err dec_completed =>
      match items enc_out enc_lens, items dec_out dec_lens with
      | Some es, Some ds =>
          agrees (encode e (pieces text strlens)) es enc_err enc_completed
          && agrees (decode e (pieces data sizes)) ds dec_err dec_completed
      | _, _ => false
      end
  end.
