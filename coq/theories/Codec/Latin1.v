(* latin-1: one byte per character, code points below 256 only.  Executable model; no proofs here. *)
From Coq Require Import List NArith Bool.
From RxVerif Require Import Codec.Utf8.
Import ListNotations.
Local Open Scope N_scope.

Module Latin1.

Definition okb (c : N) : bool := c <? 256.
Definition enc (c : N) : list N := [c].

Definition dec1 (buf : list N) : res :=
  match buf with
  | [] => More
  | b :: r => Got b r
  end.

Definition parse1 (buf : list N) : option (N * list N) := to_opt (dec1 buf).

End Latin1.
