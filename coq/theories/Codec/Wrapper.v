(* rxsci/data/codec.py: encode() / decode() (incremental=True) around Python's incremental codecs,
   for 'utf-8', 'utf-16', 'utf-32', 'latin-1'.  Executable model; no proofs here.

   encode: ONE IncrementalEncoder per subscription; on_next(s) emits encoder.encode(s);
           on_completed emits encoder.encode('', final=True) and completes.
   decode: ONE IncrementalDecoder per subscription; on_next(b) emits decoder.decode(b);
           on_completed emits decoder.decode(b'', final=True) and completes.
   An exception of the codec escapes from on_next/on_completed (nothing is emitted for that step).

   CPython facts modelled (Lib/encodings/utf_16.py, utf_32.py, utf_8.py, latin_1.py, codecs.py):
   * utf-16/utf-32 IncrementalEncoder: the FIRST call of encode() - whatever its argument, also '' and
     also the final flush - goes through utf_16_encode and writes the BOM followed by native-order
     units; every later call writes units only.
   * BufferedIncrementalDecoder.decode: data = buffer + input; (text, consumed) = _buffer_decode(data);
     buffer = data[consumed:].  The C decoders consume whole characters only; an incomplete tail is
     kept unless final, in which case it is an error.
   * utf-16/utf-32 IncrementalDecoder: while the byte order is unknown, the data is handed to
     utf_16_ex_decode(.., byteorder=0): with at least 2 (4) bytes a BOM is looked for and consumed,
     fixing the order; without BOM the data is decoded in native order and, if anything was consumed,
     UnicodeError("stream does not start with BOM") is raised. *)
From Coq Require Import List NArith Arith Bool.
From RxVerif Require Import Base.Corr Framing.Incremental Codec.Utf8 Codec.Utf16 Codec.Utf32 Codec.Latin1.
Import ListNotations.

Inductive encoding := EUtf8 | EUtf16 | EUtf32 | ELatin1.

(* what the wrappers need to know about a codec *)
Record codec := {
  c_ok : N -> bool;                  (* code points the encoder accepts *)
  c_enc : N -> list N;               (* one code point, native byte order *)
  c_dec : bool -> list N -> res;     (* one character from the front of a buffer; argument: big endian? *)
  c_bom : bool -> list N;            (* the BOM in the given byte order ([] for a codec without BOM) *)
  c_bomlen : nat                     (* its length; 0 = the codec has no BOM *)
}.

Definition codec_of (e : encoding) : codec :=
  match e with
  | EUtf8 => {| c_ok := scalarb; c_enc := Utf8.enc; c_dec := fun _ => Utf8.dec1;
                c_bom := fun _ => []; c_bomlen := 0 |}
  | EUtf16 => {| c_ok := scalarb; c_enc := Utf16.enc; c_dec := Utf16.dec1;
                 c_bom := Utf16.bom; c_bomlen := 2 |}
  | EUtf32 => {| c_ok := scalarb; c_enc := Utf32.enc; c_dec := Utf32.dec1;
                 c_bom := Utf32.bom; c_bomlen := 4 |}
  | ELatin1 => {| c_ok := Latin1.okb; c_enc := Latin1.enc; c_dec := fun _ => Latin1.dec1;
                  c_bom := fun _ => []; c_bomlen := 0 |}
  end.

Inductive err :=
| NoErr          (* ran to completion *)
| EncodeError    (* UnicodeEncodeError *)
| DecodeError    (* UnicodeDecodeError *)
| NoBomError.    (* UnicodeError: stream does not start with BOM *)

Definition err_eqb (a b : err) : bool :=
  match a, b with
  | NoErr, NoErr | EncodeError, EncodeError | DecodeError, DecodeError | NoBomError, NoBomError => true
  | _, _ => false
  end.

(* ---------------------------------------------------------------------------------------------- *)
(* encode                                                                                          *)
(* ---------------------------------------------------------------------------------------------- *)
Definition enc_str (k : codec) (s : list N) : list N := flat_map (c_enc k) s.

(* IncrementalEncoder.encode(s); `started` = an earlier call has been made (self.encoder is not None) *)
Definition enc_call (k : codec) (started : bool) (s : list N) : option (list N) :=
  if forallb (c_ok k) s then Some ((if started then [] else c_bom k false) ++ enc_str k s) else None.

(* the items emitted by rs.data.encode, one per input string and one at completion *)
Fixpoint encode_go (k : codec) (started : bool) (strs : list (list N)) : list (list N) * err :=
  match strs with
  | [] => match enc_call k started [] with
          | Some o => ([o], NoErr)
          | None => ([], EncodeError)
          end
  | s :: ss => match enc_call k started s with
               | Some o => let '(os, e) := encode_go k true ss in (o :: os, e)
               | None => ([], EncodeError)
               end
  end.
Definition encode_k (k : codec) (strs : list (list N)) := encode_go k false strs.
Definition encode (e : encoding) := encode_k (codec_of e).

(* ---------------------------------------------------------------------------------------------- *)
(* decode                                                                                          *)
(* ---------------------------------------------------------------------------------------------- *)
Inductive order := Unknown | Known (be : bool).
Record dstate := { d_order : order; d_buf : list N }.
Inductive dres := DOk (out : list N) (st : dstate) | DErr (e : err).

Definition is_nil {A} (l : list A) : bool := match l with [] => true | _ => false end.

(* the C decoder on `data`: all complete characters, the unconsumed tail; None = raises *)
Definition dec_data (dec1 : list N -> res) (data : list N) (final : bool) : option (list N * list N) :=
  let '(us, r) := parse_buf N N (fun b => to_opt (dec1 b)) data in
  match dec1 r with
  | Bad => None
  | _ => if final && negb (is_nil r) then None else Some (us, r)
  end.

Definition dec_known (k : codec) (be : bool) (data : list N) (final : bool) : dres :=
  match dec_data (c_dec k be) data final with
  | Some (us, r) => DOk us {| d_order := Known be; d_buf := r |}
  | None => DErr DecodeError
  end.

(* IncrementalDecoder.decode(chunk, final) *)
Definition dec_call (k : codec) (st : dstate) (chunk : list N) (final : bool) : dres :=
  let data := d_buf st ++ chunk in
  match d_order st with
  | Known be => dec_known k be data final
  | Unknown =>
    let n := c_bomlen k in
    if list_eqb N.eqb (firstn n data) (c_bom k false) then dec_known k false (skipn n data) final
    else if list_eqb N.eqb (firstn n data) (c_bom k true) then dec_known k true (skipn n data) final
    else match dec_data (c_dec k false) data final with
         | None => DErr DecodeError
         | Some (us, r) =>
           if n <=? length data - length r then DErr NoBomError
           else DOk us {| d_order := Unknown; d_buf := r |}
         end
  end.

(* the items emitted by rs.data.decode, one per input chunk and one at completion *)
Fixpoint decode_go (k : codec) (st : dstate) (chunks : list (list N)) : list (list N) * err :=
  match chunks with
  | [] => match dec_call k st [] true with
          | DOk o _ => ([o], NoErr)
          | DErr e => ([], e)
          end
  | c :: cs => match dec_call k st c false with
               | DOk o st' => let '(os, e) := decode_go k st' cs in (o :: os, e)
               | DErr e => ([], e)
               end
  end.

Definition init_state (k : codec) : dstate :=
  {| d_order := if c_bomlen k =? 0 then Known false else Unknown; d_buf := [] |}.
Definition decode_k (k : codec) (chunks : list (list N)) := decode_go k (init_state k) chunks.
Definition decode (e : encoding) := decode_k (codec_of e).

(* what encode() writes for a whole list of strings, as one byte string *)
Definition encoded (e : encoding) (strs : list (list N)) : list N :=
  c_bom (codec_of e) false ++ enc_str (codec_of e) (concat strs).

(* the code points a codec is specified for: Unicode scalar values; latin-1: below 256 *)
Definition valid_cp (e : encoding) (c : N) : Prop :=
  match e with ELatin1 => (c < 256)%N | _ => scalar c end.

(* the per-encoding one-character parser used by the decoder for the encoder's (native) byte order *)
Definition parse1 (e : encoding) (buf : list N) : option (N * list N) := to_opt (c_dec (codec_of e) false buf).
(* the first emitted item carries the BOM *)
Definition with_bom (e : encoding) (outs : list (list N)) : list (list N) :=
  match outs with [] => [] | o :: os => (c_bom (codec_of e) false ++ o) :: os end.
