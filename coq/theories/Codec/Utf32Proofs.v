(* Proofs about the UTF-32 model (little endian = what the encoder writes). *)
From Coq Require Import List NArith ZArith Lia Bool.
From RxVerif Require Import Codec.Utf8 Codec.Utf32 Codec.Utf8Proofs.
Import ListNotations.
Local Open Scope N_scope.
Ltac Zify.zify_post_hook ::= Z.to_euclidean_division_equations.

Module Utf32P.
Import Utf32.

Lemma dec1_enc c rest : scalar c -> dec1 false (enc c ++ rest) = Got c rest.
Proof.
  intros Hc. unfold enc, enc_bo, dec1. cbn [app].
  replace (c mod 256 + 256 * ((c / 256) mod 256) + 65536 * ((c / 65536) mod 256) + 16777216 * (c / 16777216))
    with c by lia.
  apply scalarb_spec in Hc. now rewrite Hc.
Qed.

Lemma parse1_enc c rest : scalar c -> parse1 (enc c ++ rest) = Some (c, rest).
Proof. intros H. unfold parse1. now rewrite dec1_enc. Qed.

Lemma dec1_ext be buf ext : dec1 be buf <> More ->
  dec1 be (buf ++ ext) = match dec1 be buf with Got c r => Got c (r ++ ext) | x => x end.
Proof.
  destruct buf as [|b0 [|b1 [|b2 [|b3 r]]]]; unfold dec1; cbn [app]; intros H;
    split_ifs; try reflexivity; exfalso; apply H; reflexivity.
Qed.

Lemma parse1_stable buf u rest ext : parse1 buf = Some (u, rest) -> parse1 (buf ++ ext) = Some (u, rest ++ ext).
Proof.
  unfold parse1. rewrite !to_opt_Some. intros H. rewrite dec1_ext by (rewrite H; discriminate). now rewrite H.
Qed.

Lemma dec1_progress be buf c rest : dec1 be buf = Got c rest -> (length rest < length buf)%nat.
Proof.
  destruct buf as [|b0 [|b1 [|b2 [|b3 r]]]]; unfold dec1; split_ifs; intros H; try discriminate H;
    match type of H with Got _ ?r = _ => assert (rest = r) by congruence; subst rest end; cbn [length]; lia.
Qed.

Lemma parse1_progress buf u rest : parse1 buf = Some (u, rest) -> (length rest < length buf)%nat.
Proof. unfold parse1. rewrite to_opt_Some. apply dec1_progress. Qed.

(* fewer bytes than one unit: the decoder waits (used while the BOM is incomplete) *)
Lemma dec1_short be buf : (length buf < 4)%nat -> dec1 be buf = More.
Proof. destruct buf as [|b0 [|b1 [|b2 [|b3 r]]]]; cbn [length]; intros H; try reflexivity; lia. Qed.

Lemma dec1_scalar be buf c rest : dec1 be buf = Got c rest -> scalar c.
Proof.
  destruct buf as [|b0 [|b1 [|b2 [|b3 r]]]]; unfold dec1; try discriminate.
  match goal with |- context [scalarb ?x] => destruct (scalarb x) eqn:E end; intros H; inversion H; subst.
  now apply scalarb_spec.
Qed.

End Utf32P.
