(* Proofs about the UTF-8 model: decode(encode c ++ rest) = c, rest for EVERY Unicode scalar value,
   progress, and stability of every decided answer (character or error) under more input. *)
From Coq Require Import List NArith ZArith Lia Bool.
From RxVerif Require Import Codec.Utf8.
Import ListNotations.
Local Open Scope N_scope.

(* div/mod by constants become linear constraints, so that lia decides the bit arithmetic *)
Ltac Zify.zify_post_hook ::= Z.to_euclidean_division_equations.

Lemma scalarb_spec c : scalarb c = true <-> scalar c.
Proof.
  unfold scalarb, scalar. rewrite orb_true_iff, andb_true_iff, N.ltb_lt, !N.leb_le. tauto.
Qed.

(* decide one boolean test of the goal by case analysis, discarding the impossible branch *)
Ltac test_step :=
  match goal with
  | |- context [N.ltb ?a ?b] => destruct (N.ltb_spec a b); try (exfalso; lia)
  | |- context [N.leb ?a ?b] => destruct (N.leb_spec a b); try (exfalso; lia)
  | |- context [N.eqb ?a ?b] => destruct (N.eqb_spec a b); try (exfalso; lia)
  end.

(* decide the boolean tests of the goal one by one with lia (true, else false); a test that depends on the
   value is split *)
Ltac decide_tests :=
  repeat (cbn [andb orb];
          match goal with
          | |- context [N.ltb ?a ?b] =>
            first [ replace (N.ltb a b) with true by (symmetry; apply N.ltb_lt; lia)
                  | replace (N.ltb a b) with false by (symmetry; apply N.ltb_ge; lia)
                  | destruct (N.ltb_spec a b) ]
          | |- context [N.leb ?a ?b] =>
            first [ replace (N.leb a b) with true by (symmetry; apply N.leb_le; lia)
                  | replace (N.leb a b) with false by (symmetry; apply N.leb_gt; lia)
                  | destruct (N.leb_spec a b) ]
          | |- context [N.eqb ?a ?b] =>
            first [ replace (N.eqb a b) with true by (symmetry; apply N.eqb_eq; lia)
                  | replace (N.eqb a b) with false by (symmetry; apply N.eqb_neq; lia)
                  | destruct (N.eqb_spec a b) ]
          end).

(* destruct every `if` of the goal without looking at its condition *)
Ltac split_ifs :=
  repeat match goal with
         | |- context [if ?c then _ else _] => destruct c
         end.

Lemma to_opt_Some r c rest : to_opt r = Some (c, rest) <-> r = Got c rest.
Proof. destruct r; cbn; split; intro H; inversion H; reflexivity. Qed.

Module Utf8P.
Import Utf8.

Lemma dec1_enc c rest : scalar c -> dec1 (enc c ++ rest) = Got c rest.
Proof.
  intros Hc. unfold scalar in Hc. unfold enc.
  destruct (N.ltb_spec c 0x80); [|destruct (N.ltb_spec c 0x800); [|destruct (N.ltb_spec c 0x10000)]];
    unfold dec1, second_ok, cont; cbn [app]; decide_tests; cbn [andb orb]; first [f_equal; lia | exfalso; lia].
Qed.

Lemma parse1_enc c rest : scalar c -> parse1 (enc c ++ rest) = Some (c, rest).
Proof. intros H. unfold parse1. now rewrite dec1_enc. Qed.

(* once dec1 has answered (a character or an error), more input does not change the answer *)
Lemma dec1_ext buf ext : dec1 buf <> More ->
  dec1 (buf ++ ext) = match dec1 buf with Got c r => Got c (r ++ ext) | x => x end.
Proof.
  destruct buf as [|b0 [|b1 [|b2 [|b3 r]]]]; unfold dec1; cbn [app]; intros H;
    split_ifs; try reflexivity; exfalso; apply H; reflexivity.
Qed.

Lemma parse1_stable buf u rest ext : parse1 buf = Some (u, rest) -> parse1 (buf ++ ext) = Some (u, rest ++ ext).
Proof.
  unfold parse1. rewrite !to_opt_Some. intros H. rewrite dec1_ext by (rewrite H; discriminate). now rewrite H.
Qed.

Lemma dec1_progress buf c rest : dec1 buf = Got c rest -> (length rest < length buf)%nat.
Proof.
  destruct buf as [|b0 [|b1 [|b2 [|b3 r]]]]; unfold dec1; split_ifs; intros H; try discriminate H;
    match type of H with Got _ ?r = _ => assert (rest = r) by congruence; subst rest end; cbn [length]; lia.
Qed.

Lemma parse1_progress buf u rest : parse1 buf = Some (u, rest) -> (length rest < length buf)%nat.
Proof. unfold parse1. rewrite to_opt_Some. apply dec1_progress. Qed.

Lemma dec1_nil : dec1 [] = More.
Proof. reflexivity. Qed.

(* the decoder only ever produces scalar values, for bytes below 256: no surrogate, nothing above 0x10FFFF *)
Lemma dec1_scalar buf c rest : Forall (fun b => b < 256) buf -> dec1 buf = Got c rest -> scalar c.
Proof.
  intros Hb. unfold scalar.
  destruct buf as [|b0 [|b1 [|b2 [|b3 r]]]]; unfold dec1, second_ok, cont;
    repeat match goal with H : Forall _ (_ :: _) |- _ => inversion H; clear H; subst end;
    repeat (test_step; cbn [andb]); intros Hgot; try discriminate Hgot;
    match type of Hgot with Got ?x _ = _ => assert (c = x) by congruence; subst c; clear Hgot end; lia.
Qed.

End Utf8P.
