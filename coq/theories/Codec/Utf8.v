(* UTF-8 as done by CPython's codecs (Objects/stringlib/codecs.h utf8_decode/utf8_encoder).
   Code points and bytes are N.  Executable model; no proofs here.

   This file also holds what the four codec models share: the three-valued result of parsing ONE
   character from the front of a byte buffer and the notion of a Unicode scalar value. *)
From Coq Require Import List NArith Bool.
Import ListNotations.
Local Open Scope N_scope.

(* result of looking for one character at the front of a buffer *)
Inductive res :=
| Got (c : N) (rest : list N)   (* one complete character; the bytes after it *)
| More                          (* a proper prefix of a character (or nothing): wait for more bytes *)
| Bad.                          (* can never become a character: the decoder raises *)

Definition to_opt (r : res) : option (N * list N) :=
  match r with Got c rest => Some (c, rest) | _ => None end.

(* Unicode scalar values: 0..0x10FFFF without the surrogates 0xD800..0xDFFF *)
Definition scalarb (c : N) : bool := (c <? 0xD800) || ((0xE000 <=? c) && (c <=? 0x10FFFF)).
Definition scalar (c : N) : Prop := c < 0xD800 \/ (0xE000 <= c /\ c <= 0x10FFFF).

Module Utf8.

(* shifts and masks written as / and mod, e.g. (c >> 6) & 0x3f = (c / 64) mod 64 *)
Definition enc (c : N) : list N :=
  if c <? 0x80 then [c]
  else if c <? 0x800 then [0xC0 + c / 64; 0x80 + c mod 64]
  else if c <? 0x10000 then [0xE0 + c / 4096; 0x80 + (c / 64) mod 64; 0x80 + c mod 64]
  else [0xF0 + c / 262144; 0x80 + (c / 4096) mod 64; 0x80 + (c / 64) mod 64; 0x80 + c mod 64].

Definition cont (b : N) : bool := (0x80 <=? b) && (b <? 0xC0).

(* utf8_decode: the lead byte fixes the length; the second byte is range-checked as soon as it is
   there (overlong forms E0 80..9F, F0 80..8F; surrogates ED A0..BF; beyond 0x10FFFF F4 90..) *)
Definition second_ok (b0 b1 : N) : bool :=
  cont b1 &&
  (if b0 =? 0xE0 then 0xA0 <=? b1 else if b0 =? 0xED then b1 <? 0xA0
   else if b0 =? 0xF0 then 0x90 <=? b1 else if b0 =? 0xF4 then b1 <? 0x90 else true).

Definition dec1 (buf : list N) : res :=
  match buf with
  | [] => More
  | b0 :: r0 =>
    if b0 <? 0x80 then Got b0 r0
    else if b0 <? 0xC2 then Bad                      (* continuation byte, or C0/C1 (overlong) *)
    else if b0 <? 0xE0 then
      match r0 with
      | [] => More
      | b1 :: r1 => if cont b1 then Got ((b0 - 0xC0) * 64 + (b1 - 0x80)) r1 else Bad
      end
    else if b0 <? 0xF0 then
      match r0 with
      | [] => More
      | b1 :: r1 =>
        if second_ok b0 b1 then
          match r1 with
          | [] => More
          | b2 :: r2 => if cont b2 then Got ((b0 - 0xE0) * 4096 + (b1 - 0x80) * 64 + (b2 - 0x80)) r2 else Bad
          end
        else
          (* unicode_decode_utf8, "Truncated surrogate code in range D800-DFFF": ED A0..BF with nothing
             after it is kept as an incomplete sequence by the stateful decoder (found by the
             correspondence); with a third byte, or at the final flush, it is an error *)
          match r1 with
          | [] => if (b0 =? 0xED) && cont b1 then More else Bad
          | _ :: _ => Bad
          end
      end
    else if b0 <? 0xF5 then
      match r0 with
      | [] => More
      | b1 :: r1 =>
        if second_ok b0 b1 then
          match r1 with
          | [] => More
          | b2 :: r2 =>
            if cont b2 then
              match r2 with
              | [] => More
              | b3 :: r3 =>
                if cont b3
                then Got ((b0 - 0xF0) * 262144 + (b1 - 0x80) * 4096 + (b2 - 0x80) * 64 + (b3 - 0x80)) r3
                else Bad
              end
            else Bad
          end
        else Bad
      end
    else Bad                                          (* F5..FF *)
  end.

Definition parse1 (buf : list N) : option (N * list N) := to_opt (dec1 buf).

End Utf8.
