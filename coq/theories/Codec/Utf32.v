(* UTF-32 as done by CPython (PyUnicode_DecodeUTF32Stateful / _PyUnicode_EncodeUTF32): 4 bytes per
   code point; surrogates and values above 0x10FFFF are rejected.  Executable model; no proofs here. *)
From Coq Require Import List NArith Bool.
From RxVerif Require Import Codec.Utf8.
Import ListNotations.
Local Open Scope N_scope.

Module Utf32.

Definition enc_bo (be : bool) (c : N) : list N :=
  let l := [c mod 256; (c / 256) mod 256; (c / 65536) mod 256; c / 16777216] in
  if be then rev l else l.
Definition enc := enc_bo false.

Definition bom (be : bool) : list N := if be then [0; 0; 0xFE; 0xFF] else [0xFF; 0xFE; 0; 0].

Definition dec1 (be : bool) (buf : list N) : res :=
  match buf with
  | b0 :: b1 :: b2 :: b3 :: r =>
    let c := if be then b3 + 256 * b2 + 65536 * b1 + 16777216 * b0
             else b0 + 256 * b1 + 65536 * b2 + 16777216 * b3 in
    if scalarb c then Got c r else Bad
  | _ => More
  end.

Definition parse1 (buf : list N) : option (N * list N) := to_opt (dec1 false buf).

End Utf32.
