(* Proofs about the UTF-16 model (little endian = what the encoder writes), surrogate pairs included. *)
From Coq Require Import List NArith ZArith Lia Bool.
From RxVerif Require Import Codec.Utf8 Codec.Utf16 Codec.Utf8Proofs.
Import ListNotations.
Local Open Scope N_scope.
Ltac Zify.zify_post_hook ::= Z.to_euclidean_division_equations.

Module Utf16P.
Import Utf16.

Lemma unit_rt u : unit_of false (u mod 256) (u / 256) = u.
Proof. unfold unit_of. lia. Qed.

Lemma dec1_enc c rest : scalar c -> dec1 false (enc c ++ rest) = Got c rest.
Proof.
  intros Hc. unfold enc, enc_bo, unit_bytes.
  destruct (N.ltb_spec c 0x10000); unfold dec1; cbn [app]; rewrite !unit_rt.
  - destruct Hc; decide_tests; reflexivity.
  - assert (c <= 0x10FFFF) by (destruct Hc; lia).
    decide_tests. cbn [orb andb]. f_equal. lia.
Qed.

Lemma parse1_enc c rest : scalar c -> parse1 (enc c ++ rest) = Some (c, rest).
Proof. intros H. unfold parse1. now rewrite dec1_enc. Qed.

Lemma dec1_ext be buf ext : dec1 be buf <> More ->
  dec1 be (buf ++ ext) = match dec1 be buf with Got c r => Got c (r ++ ext) | x => x end.
Proof.
  destruct buf as [|b0 [|b1 [|b2 [|b3 r]]]]; unfold dec1; cbn [app]; intros H;
    split_ifs; try reflexivity; try (exfalso; apply H; reflexivity).
  all: destruct ext as [|e0 [|e1 ext]]; try reflexivity; exfalso; apply H; reflexivity.
Qed.

Lemma parse1_stable buf u rest ext : parse1 buf = Some (u, rest) -> parse1 (buf ++ ext) = Some (u, rest ++ ext).
Proof.
  unfold parse1. rewrite !to_opt_Some. intros H. rewrite dec1_ext by (rewrite H; discriminate). now rewrite H.
Qed.

Lemma dec1_progress be buf c rest : dec1 be buf = Got c rest -> (length rest < length buf)%nat.
Proof.
  destruct buf as [|b0 [|b1 [|b2 [|b3 r]]]]; unfold dec1; split_ifs; intros H; try discriminate H;
    match type of H with Got _ ?r = _ => assert (rest = r) by congruence; subst rest end; cbn [length]; lia.
Qed.

Lemma parse1_progress buf u rest : parse1 buf = Some (u, rest) -> (length rest < length buf)%nat.
Proof. unfold parse1. rewrite to_opt_Some. apply dec1_progress. Qed.

Lemma dec1_short be buf : (length buf < 2)%nat -> dec1 be buf = More.
Proof. destruct buf as [|b0 [|b1 r]]; cbn [length]; intros H; try reflexivity; lia. Qed.

(* for bytes below 256 the decoder only produces scalar values *)
Lemma dec1_scalar buf c rest : Forall (fun b => b < 256) buf -> dec1 false buf = Got c rest -> scalar c.
Proof.
  intros Hb. unfold scalar.
  destruct buf as [|b0 [|b1 [|b2 [|b3 r]]]]; unfold dec1, unit_of;
    repeat match goal with H : Forall _ (_ :: _) |- _ => inversion H; clear H; subst end;
    cbn [orb andb]; try discriminate;
    repeat (test_step; cbn [orb andb]); intros Hgot; try discriminate Hgot;
    match type of Hgot with Got ?x _ = _ => assert (c = x) by congruence; subst c; clear Hgot end; lia.
Qed.

End Utf16P.
