(* Per-key local machines of the rxsci operators (what an operator does to the item sequence of
   ONE lifetime of ONE key), transliterated branch by branch from the `on_next` functions of
   rxsci/operators/*.py and rxsci/data/*.py, and the head instances of Seg/Sim.
   Executable definitions only; no proofs in this file. *)
From Coq Require Import List ZArith Bool PrimFloat.
From RxVerif Require Import Mux.Val Mux.Sim Mux.SimExt Mux.Seg.
Import ListNotations.

(* What travels as an "item" on a key:
   It v     an OnNextMux item
   IErr e   an OnErrorMux (non terminal for the key)
   IFatal e RxPY on_error reached at this point of the call chain (the run ends there)
   IDead e  an exception delivered to the dead-letter observable of the error router *)
Inductive item := It (v : val) | IErr (e : exn) | IFatal (e : exn) | IDead (e : exn).
Definition special (x : item) : bool := match x with It _ => false | _ => true end.
Definition lm := lmachine item.

(* operators only look at OnNextMux items; everything else is forwarded untouched *)
Definition on_it {S : Type} (f : S -> val -> S * list item) (s : S) (x : item) : S * list item :=
  match x with It v => f s v | _ => (s, [x]) end.
Definition out_res (r : res) : list item := match r with Ok y => [It y] | Raise e => [IErr e] end.

(* ---------------- stateless ---------------- *)
Definition L_map (f : fn) : lm :=
  {| LS := unit; l0 := tt; lnext := on_it (fun (s : unit) v => (s, out_res (apply1 f v))); ldone := fun _ => [] |}.
(* filter_mux (repaired): `if emit:` *)
Definition L_filter (p : fn) : lm :=
  {| LS := unit; l0 := tt;
     lnext := on_it (fun (s : unit) v => (s, match apply1 p v with Ok r => if truthy r then [It v] else [] | Raise e => [IErr e] end));
     ldone := fun _ => [] |}.
Definition L_flat_map : lm :=
  {| LS := unit; l0 := tt;
     lnext := on_it (fun (s : unit) v => (s, match v with VList l | VTuple l => map It l | _ => [] end));
     ldone := fun _ => [] |}.
(* assert_mux: predicate(item) is True, else on_error; an exception of the predicate is on_error too *)
Definition L_assert (p : fn) : lm :=
  {| LS := unit; l0 := tt;
     lnext := on_it (fun (s : unit) v => (s, match apply1 p v with
                                     | Ok r => if is_true r then [It v] else [IFatal ValueError]
                                     | Raise e => [IFatal e] end));
     ldone := fun _ => [] |}.
Definition L_id : lm := {| LS := unit; l0 := tt; lnext := fun s x => (s, [x]); ldone := fun _ => [] |}.

(* ---------------- error handlers (they look at OnErrorMux) ---------------- *)
Definition L_ignore : lm :=
  {| LS := unit; l0 := tt; lnext := fun s x => (s, match x with IErr _ => [] | _ => [x] end); ldone := fun _ => [] |}.
Definition L_errmap (f : fn) : lm :=
  {| LS := unit; l0 := tt;
     lnext := fun s x => (s, match x with
                             | IErr e => match apply1 f (VInt e) with Ok y => [It y] | Raise e' => [IFatal e'] end
                             | _ => [x] end);
     ldone := fun _ => [] |}.
Definition L_route : lm :=
  {| LS := unit; l0 := tt;
     lnext := fun s x => (s, match x with IErr e => [IDead e] | IFatal e => [IDead e; IFatal e] | _ => [x] end);
     ldone := fun _ => [] |}.
(* demux_mux_observable / demux_observable: an OnErrorMux that reaches the end of a pipeline is on_error *)
Definition L_errfatal : lm :=
  {| LS := unit; l0 := tt; lnext := fun s x => (s, match x with IErr e => [IFatal e] | _ => [x] end); ldone := fun _ => [] |}.

(* ---------------- scan ---------------- *)
Inductive sty := TObj | TInt | TFloat | TBool.     (* MemoryStore array type chosen from type(seed) *)
Definition ty_zero (t : sty) : val :=
  match t with TObj => VInt 0 | TInt => VInt 0 | TFloat => VFloat PrimFloat.zero | TBool => VBool false end.
Definition coerce (t : sty) (v : val) : res :=
  match t with
  | TObj => Ok v
  | TInt => match v with
            | VInt z => if ((- 9223372036854775808 <=? z) && (z <? 9223372036854775808))%Z then Ok (VInt z) else Raise OverflowError
            | VBool b => Ok (VInt (if b then 1 else 0))
            | _ => Raise TypeError end
  | TFloat => match v with
              | VInt z => Ok (VFloat (z2f z)) | VBool b => Ok (VFloat (z2f (if b then 1 else 0)))
              | VFloat f => Ok (VFloat f) | _ => Raise TypeError end
  | TBool => match v with
             | VInt z => if ((0 <=? z) && (z <? 256))%Z then Ok (VBool (negb (z =? 0)%Z)) else Raise OverflowError
             | VBool b => Ok (VBool b) | _ => Raise TypeError end
  end.
(* state: None = NOTSET marker, Some v = stored (coerced) value *)
Definition L_scan (a : fn2) (seed : val) (t : sty) (reduce : bool) (term : option fn) : lm :=
  {| LS := option val; l0 := None;
     lnext := on_it (fun (st : option val) v =>
       let cur := match st with Some c => c | None => seed end in
       match apply2 a cur v with
       | Raise e => (st, [IErr e])
       | Ok acc =>
           match coerce t acc with
           | Ok stored => (Some stored, if reduce then [] else [It acc])
           | Raise e => (Some (match st with Some c => c | None => ty_zero t end), [IErr e])
           end
       end);
     ldone := fun st =>
       let '(st1, o1) :=
         match term with
         | None => (st, [])
         | Some f =>
             let cur := match st with Some c => c | None => seed end in
             match apply1 f cur with
             | Ok acc => match coerce t acc with
                         | Ok stored => (Some stored, if reduce then [] else [It acc])
                         | Raise e => (st, [IFatal e]) end
             | Raise e => (st, [IFatal e])
             end
         end in
       o1 ++ (if reduce then [It (match st1 with Some c => c | None => seed end)] else []) |}.

(* ---------------- first / last / take ---------------- *)
Definition L_first : lm :=
  {| LS := bool; l0 := false; lnext := on_it (fun (seen : bool) v => if seen then (true, []) else (true, [It v])); ldone := fun _ => [] |}.
Definition L_take (n : Z) : lm :=
  {| LS := Z; l0 := n; lnext := on_it (fun (c : Z) v => if (0 <? c)%Z then ((c - 1)%Z, [It v]) else (c, [])); ldone := fun _ => [] |}.
Definition L_last : lm :=
  {| LS := option val; l0 := None; lnext := on_it (fun (_ : option val) v => (Some v, []));
     ldone := fun st => match st with Some v => [It v] | None => [] end |}.

(* ---------------- distinct, lag, pad, start_with, assert_1 ---------------- *)
Fixpoint mem_key (k : list Z) (l : list (list Z)) : bool :=
  match l with [] => false | k' :: l' => zs_eqb k k' || mem_key k l' end.
Definition L_distinct (km : fn) : lm :=
  {| LS := list (list Z); l0 := [];
     lnext := on_it (fun (seen : list (list Z)) v =>
       match apply1 km v with
       | Raise e => (seen, [IFatal e])
       | Ok k => let c := canon k in if mem_key c seen then (seen, []) else (c :: seen, [It v])
       end);
     ldone := fun _ => [] |}.
(* _lag1 *)
Definition L_lag1 : lm :=
  {| LS := option val; l0 := None;
     lnext := on_it (fun (st : option val) v => (Some v, [It (VTuple [match st with Some p => p | None => v end; v])]));
     ldone := fun _ => [] |}.
(* lag(size) with a deque: append; emit (q[0], x); if len(q) > size: popleft *)
Definition L_lagn (n : nat) : lm :=
  {| LS := list val; l0 := [];
     lnext := on_it (fun (q : list val) v =>
       let q' := q ++ [v] in
       (if Nat.ltb n (length q') then tl q' else q', [It (VTuple [hd v q'; v])]));
     ldone := fun _ => [] |}.
Definition L_lag (n : nat) : lm := if Nat.eqb n 1 then L_lag1 else L_lagn n.
Definition L_pad_start (n : nat) (pv : val) : lm :=
  {| LS := bool; l0 := false;
     lnext := on_it (fun (started : bool) v =>
       if started then (true, [It v])
       else (true, repeat (It (match pv with VNone => v | _ => pv end)) n ++ [It v]));
     ldone := fun _ => [] |}.
Definition L_pad_end (n : nat) (pv : val) : lm :=
  {| LS := option val; l0 := None; lnext := on_it (fun (_ : option val) v => (Some v, [It v]));
     ldone := fun st => match st with
                        | Some v => repeat (It (match pv with VNone => v | _ => pv end)) n
                        | None => [] end |}.
Definition L_start_with (l : list val) : lm :=
  {| LS := bool; l0 := false;
     lnext := on_it (fun (started : bool) v => if started then (true, [It v]) else (true, map It l ++ [It v]));
     ldone := fun _ => [] |}.
Definition L_assert1 (a : fn2) : lm :=
  {| LS := option val; l0 := None;
     lnext := on_it (fun (st : option val) v =>
       (Some v, match st with
                | None => [It v]
                | Some p => match apply2 a p v with
                            | Ok r => if is_true r then [It v] else [IFatal ValueError]
                            | Raise e => [IFatal e] end
                end));
     ldone := fun _ => [] |}.

(* ---------------- heads ---------------- *)
Definition iact := act item.
(* _roll_count (window = stride = w): count of items in the open window *)
Definition rollc_next (w : nat) (c : nat) (x : item) : nat * list iact :=
  let opening := if Nat.eqb c 0 then [AOpen item] else [] in
  if Nat.eqb (c + 1) w then (0, opening ++ [AItem item x; AClose item])
  else (c + 1, opening ++ [AItem item x]).
Definition rollc_open (c : nat) : bool := negb (Nat.eqb c 0).

(* split: state = predicate value of the open segment (compared with !=) *)
Definition key_of (f : fn) (x : item) : list Z :=
  match x with It v => match apply1 f v with Ok k => canon k | Raise _ => [] end | _ => [] end.
Definition split_next (pred : fn) (st : option (list Z)) (x : item) : option (list Z) * list iact :=
  let p := key_of pred x in
  match st with
  | None => (Some p, [AOpen item; AItem item x])
  | Some q => if zs_eqb p q then (Some q, [AItem item x]) else (Some p, [AClose item; AOpen item; AItem item x])
  end.
Definition opt_open {A} (st : option A) : bool := match st with Some _ => true | None => false end.

(* time_split: state = (start, last) timestamps *)
Definition ts_of (tm : fn) (x : item) : Z :=
  match x with It v => match apply1 tm v with Ok (VInt z) => z | _ => 0%Z end | _ => 0%Z end.
Definition expired (active inactive : option Z) (start last new : Z) : bool :=
  match active with
  | Some a => if (start + a <=? new)%Z then true
              else match inactive with Some i => (last + i <=? new)%Z | None => false end
  | None => match inactive with Some i => (last + i <=? new)%Z | None => false end
  end.
Definition closing_true (closing : option fn) (x : item) : bool :=
  match closing, x with
  | Some f, It v => match apply1 f v with Ok r => is_true r | Raise _ => false end
  | _, _ => false
  end.
Definition tsplit_next (tm : fn) (active inactive : option Z) (closing : option fn) (incl : bool)
    (st : option (Z * Z)) (x : item) : option (Z * Z) * list iact :=
  let new := ts_of tm x in
  let '(start, last, pre) := match st with Some (s, l) => (s, l, []) | None => (new, new, [AOpen item]) end in
  if expired active inactive start last new
  then (Some (new, new), pre ++ [AClose item; AOpen item; AItem item x])
  else if closing_true closing x
  then (Some (new, new),
        if incl then pre ++ [AItem item x; AClose item; AOpen item]
        else pre ++ [AClose item; AOpen item; AItem item x])
  else (Some (start, new), pre ++ [AItem item x]).

(* tee_map join: the tuple built from the n cells of a key (None where a branch has not produced) *)
Definition mk_tuple (cells : list (option item)) : item :=
  It (VTuple (map (fun c => match c with Some (It v) => v | _ => VNone end) cells)).
