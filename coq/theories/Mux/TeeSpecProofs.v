(* C08: tee_map = the join of the branches run independently.
   indep_steps bs xs : per source item, the list (one entry per branch, in branch order) of what each
                       branch emits when it is run ALONE on xs;
   join_steps        : the join (merge / zip / combine_latest on n cells) folded over the source items;
   tee_is_join       : the timed output of the tee's local machine is join_steps of indep_steps,
                       and at completion the join of what each branch alone emits at completion. *)
From Coq Require Import List Arith Lia Bool.
From RxVerif Require Import Mux.Sim Mux.SimExt Mux.LocalSemProofs.
Import ListNotations.

Section Tee.
Variable V : Type.
Variable mode : jmode.
Variable mk_tuple : list (option V) -> V.
Variable jsp : V -> bool.
Notation branch := (branch V).

Fixpoint map2 {A B C} (f : A -> B -> C) (l1 : list A) (l2 : list B) : list C :=
  match l1, l2 with a :: l1', b :: l2' => f a b :: map2 f l1' l2' | _, _ => [] end.

(* every branch alone, from a given product state: per step, per branch *)
Fixpoint indep_from (bs : list branch) : LS_all V bs -> list V -> list (list (list V)) :=
  match bs with
  | [] => fun _ xs => map (fun _ => []) xs
  | b :: bs' => fun st xs => map2 cons (fst (lsteps V (bl V b) (fst st) xs)) (indep_from bs' (snd st) xs)
  end.
Fixpoint final_from (bs : list branch) : LS_all V bs -> list V -> LS_all V bs :=
  match bs with
  | [] => fun st _ => st
  | b :: bs' => fun st xs => (snd (lsteps V (bl V b) (fst st) xs), final_from bs' (snd st) xs)
  end.
Definition indep_steps (bs : list branch) (xs : list V) := indep_from bs (l0_all V bs) xs.
(* what each branch alone emits at completion *)
Definition indep_done (bs : list branch) (xs : list V) := ldone_all V bs (final_from bs (l0_all V bs) xs).

(* the product machine steps every branch independently *)
Fixpoint all_steps (bs : list branch) (st : LS_all V bs) (xs : list V) : list (list (list V)) * LS_all V bs :=
  match xs with
  | [] => ([], st)
  | x :: xs' => let '(st1, o) := lnext_all V bs st x in let '(os, st2) := all_steps bs st1 xs' in (o :: os, st2)
  end.

Lemma lsteps_len (L : lmachine V) : forall xs s, length (fst (lsteps V L s xs)) = length xs.
Proof. induction xs as [|x xs IH]; intro s; cbn [lsteps]; [reflexivity|]. destruct (lnext L s x) as [s1 o].
  specialize (IH s1). destruct (lsteps V L s1 xs). cbn [fst length] in *. now rewrite IH. Qed.

Lemma final_from_nil : forall bs st, final_from bs st [] = st.
Proof. induction bs as [|b bs IH]; intro st; cbn [final_from lsteps snd]; [reflexivity|]. rewrite IH. destruct st; reflexivity. Qed.
Lemma indep_from_nil : forall bs st, indep_from bs st [] = [].
Proof. destruct bs; intro st; reflexivity. Qed.
Theorem branches_independent : forall bs xs st,
  all_steps bs st xs = (indep_from bs st xs, final_from bs st xs).
Proof.
  induction bs as [|b bs IHb]; intros xs st.
  - cbn [indep_from final_from]. revert st. induction xs as [|x xs IH]; intro st; cbn [all_steps map lnext_all]; [reflexivity|].
    rewrite IH. reflexivity.
  - revert st. induction xs as [|x xs IH]; intros [s rest]; cbn [all_steps indep_from final_from fst snd lsteps map2].
    + now rewrite final_from_nil.
    + cbn [lnext_all fst snd]. destruct (lnext (bl V b) s x) as [s1 o1].
      pose proof (IHb (x :: xs) rest) as Hb. cbn [all_steps] in Hb.
      destruct (lnext_all V bs rest x) as [r1 o2].
      rewrite (IH (s1, r1)). cbn [indep_from final_from fst snd].
      rewrite (IHb xs r1) in Hb. inversion Hb as [[Hi Hf]].
      destruct (lsteps V (bl V b) s1 xs) as [os s2]. cbn [fst snd map2]. rewrite Hf. reflexivity.
Qed.

(* the join folded over the source items, threading the n cells *)
Fixpoint join_steps (outs : list (list (list V))) (c : list (option V)) : list (list V) * list (option V) :=
  match outs with
  | [] => ([], c)
  | o :: outs' => let '(c1, em) := ljoin_all V mode mk_tuple jsp 0 o c in
                  let '(ems, c2) := join_steps outs' c1 in (em :: ems, c2)
  end.

Lemma tee_steps bs : forall xs st c,
  lsteps V (tee_l V mode mk_tuple jsp bs) (st, c) xs =
  (fst (join_steps (fst (all_steps bs st xs)) c),
   (snd (all_steps bs st xs), snd (join_steps (fst (all_steps bs st xs)) c))).
Proof.
  induction xs as [|x xs IH]; intros st c; cbn [lsteps all_steps join_steps]; [reflexivity|].
  cbn [lnext tee_l]. destruct (lnext_all V bs st x) as [st1 o].
  destruct (all_steps bs st1 xs) as [os st2] eqn:Eall.
  cbn [fst snd join_steps].
  destruct (ljoin_all V mode mk_tuple jsp 0 o c) as [c1 em].
  rewrite IH, Eall. cbn [fst snd]. destruct (join_steps os c1) as [ems c2]. reflexivity.
Qed.

Definition cells0 (bs : list branch) : list (option V) := map (fun _ => None) (seq 0 (length bs)).

Theorem tee_is_join (bs : list branch) (xs : list V) :
  fst (ltimed V (tee_l V mode mk_tuple jsp bs) xs) = fst (join_steps (indep_steps bs xs) (cells0 bs)) /\
  snd (ltimed V (tee_l V mode mk_tuple jsp bs) xs)
    = snd (ljoin_all V mode mk_tuple jsp 0 (indep_done bs xs) (snd (join_steps (indep_steps bs xs) (cells0 bs)))).
Proof.
  unfold ltimed. cbn [l0 tee_l]. fold (cells0 bs). rewrite tee_steps, branches_independent.
  cbn [fst snd ldone tee_l]. split; reflexivity.
Qed.

(* the three joins, as the property text states them *)
Lemma join_merge_forwards i v c : mode = Merge -> ljoin_next V mode mk_tuple jsp i v c = (c, [v]).
Proof. intros ->. unfold ljoin_next. destruct (jsp v); reflexivity. Qed.
Lemma join_zip i v c : mode = Zip -> jsp v = false ->
  ljoin_next V mode mk_tuple jsp i v c =
  let c1 := set_nth i (Some v) None c in
  if all_some V c1 then (map (fun _ => None) c1, [mk_tuple c1]) else (c1, []).
Proof. intros -> E. unfold ljoin_next. rewrite E. reflexivity. Qed.
Lemma join_combine i v c : mode = Combine -> jsp v = false ->
  ljoin_next V mode mk_tuple jsp i v c = let c1 := set_nth i (Some v) None c in (c1, [mk_tuple c1]).
Proof. intros -> E. unfold ljoin_next. rewrite E. reflexivity. Qed.
End Tee.
