(* List-level semantics of local machines: what one lifetime of one key produces.
   lsteps L s xs : per consumed item, the items emitted (timed), and the final state
   ltimed L xs   : (per-item outputs, outputs at completion) from the initial state
   items_of L xs : everything emitted over the lifetime
   krun_lifetime : the key-lift on the trace  Create k; Next k x1 .. xn; Done k  is exactly ltimed
   compose_items : sequential composition of local machines is composition of list functions *)
From Coq Require Import List Arith Lia Bool.
From RxVerif Require Import Mux.Sim Mux.SimExt Mux.ConfineProofs.
Import ListNotations.

Arguments lfeed {V} L st xs.
Arguments compose_l {V} L1 L2.

Section LocalSem.
Variable V : Type.
Notation lmachine := (lmachine V).

Fixpoint lsteps (L : lmachine) (s : LS L) (xs : list V) : list (list V) * LS L :=
  match xs with
  | [] => ([], s)
  | x :: xs' => let '(s1, o) := lnext L s x in let '(os, s2) := lsteps L s1 xs' in (o :: os, s2)
  end.
Definition ltimed (L : lmachine) (xs : list V) : list (list V) * list V :=
  let '(os, s) := lsteps L (l0 L) xs in (os, ldone L s).
Definition items_of (L : lmachine) (xs : list V) : list V :=
  let '(os, d) := ltimed L xs in concat os ++ d.
Definition lifetime (k : key) (xs : list V) : list (ev V) := Create k :: map (Next k) xs ++ [Done k].

Lemma lfeed_lsteps (L : lmachine) : forall xs s,
  lfeed L s xs = (snd (lsteps L s xs), concat (fst (lsteps L s xs))).
Proof.
  induction xs as [|x xs IH]; intro s; cbn [lfeed lsteps]; [reflexivity|].
  destruct (lnext L s x) as [s1 o]. rewrite IH. destruct (lsteps L s1 xs) as [os s2]. reflexivity.
Qed.

Lemma krun_nexts (L : lmachine) (k : key) : forall xs (m : kmap L) s, m k = Some s ->
  krun V L m (map (Next k) xs ++ [Done k]) =
  map (map (Next k)) (fst (lsteps L s xs)) ++ [map (Next k) (ldone L (snd (lsteps L s xs))) ++ [Done k]].
Proof.
  induction xs as [|x xs IH]; intros m s Hm; cbn [map app krun kstep lsteps].
  - rewrite Hm. reflexivity.
  - rewrite Hm. destruct (lnext L s x) as [s1 o]. rewrite (IH (upd m k (Some s1)) s1) by apply upd_same.
    destruct (lsteps L s1 xs) as [os s2]. reflexivity.
Qed.

Theorem krun_lifetime (L : lmachine) (k : key) (xs : list V) (m : kmap L) :
  krun V L m (lifetime k xs) =
  [Create k] :: map (map (Next k)) (fst (ltimed L xs)) ++ [map (Next k) (snd (ltimed L xs)) ++ [Done k]].
Proof.
  unfold lifetime, ltimed. cbn [krun kstep]. f_equal.
  rewrite (krun_nexts L k xs (upd m k (Some (l0 L))) (l0 L)) by apply upd_same.
  destruct (lsteps L (l0 L) xs) as [os s]. reflexivity.
Qed.

Lemma lsteps_app (L : lmachine) : forall xs ys s,
  lsteps L s (xs ++ ys) = (fst (lsteps L s xs) ++ fst (lsteps L (snd (lsteps L s xs)) ys),
                           snd (lsteps L (snd (lsteps L s xs)) ys)).
Proof.
  induction xs as [|x xs IH]; intros ys s; cbn [app lsteps].
  - cbn [fst snd app]. destruct (lsteps L s ys); reflexivity.
  - destruct (lnext L s x) as [s1 o]. rewrite IH. destruct (lsteps L s1 xs) as [os s2]. cbn [fst snd].
    destruct (lsteps L s2 ys) as [os' s3]. reflexivity.
Qed.

(* sequential composition: the second machine sees exactly what the first one emits *)
Lemma compose_steps (L1 L2 : lmachine) : forall xs a b,
  concat (fst (lsteps (compose_l L1 L2) (a, b) xs)) = concat (fst (lsteps L2 b (concat (fst (lsteps L1 a xs))))) /\
  snd (lsteps (compose_l L1 L2) (a, b) xs) =
    (snd (lsteps L1 a xs), snd (lsteps L2 b (concat (fst (lsteps L1 a xs))))).
Proof.
  induction xs as [|x xs IH]; intros a b; cbn [lsteps]; [split; reflexivity|].
  cbn [lnext compose_l]. destruct (lnext L1 a x) as [a1 o1]. rewrite lfeed_lsteps.
  destruct (IH a1 (snd (lsteps L2 b o1))) as [E1 E2].
  destruct (lsteps (compose_l L1 L2) (a1, snd (lsteps L2 b o1)) xs) as [os s2]. cbn [fst snd] in *.
  destruct (lsteps L1 a1 xs) as [os1 a2]. cbn [fst snd concat] in *.
  rewrite lsteps_app. cbn [fst snd]. rewrite concat_app. rewrite E1. split; [reflexivity|]. rewrite E2. reflexivity.
Qed.

Theorem compose_items (L1 L2 : lmachine) (xs : list V) :
  items_of (compose_l L1 L2) xs = items_of L2 (items_of L1 xs).
Proof.
  unfold items_of, ltimed. cbn [l0 compose_l].
  destruct (compose_steps L1 L2 xs (l0 L1) (l0 L2)) as [E1 E2].
  destruct (lsteps (compose_l L1 L2) (l0 L1, l0 L2) xs) as [os s]. cbn [fst snd] in *. subst s.
  destruct (lsteps L1 (l0 L1) xs) as [os1 a]. cbn [fst snd] in *.
  cbn [ldone compose_l]. rewrite lfeed_lsteps. rewrite lsteps_app. cbn [fst snd].
  destruct (lsteps L2 (l0 L2) (concat os1)) as [osA b1]. cbn [fst snd] in *.
  destruct (lsteps L2 b1 (ldone L1 a)) as [osB b2]. cbn [fst snd].
  rewrite E1, concat_app, <- !app_assoc. reflexivity.
Qed.
End LocalSem.
