(* C01 / C08: the per-key local machine of a pipeline, tee_map with its three joins included, emits over
   one lifetime - step by step and at completion - what the timed plain list semantics ptimed_pipe says
   the same pipeline emits on a plain observable. *)
From Coq Require Import List ZArith Bool Arith Lia.
From RxVerif Require Import Mux.Val Mux.Sim Mux.SimExt Mux.Ops Mux.Syntax Mux.LocalSemProofs Mux.OpsSpecProofs
  Mux.PromptProofs Mux.TeeSpecProofs Mux.MasterProofs Mux.Plain Mux.PlainProofs Mux.PlainTimed.
Import ListNotations.

Definition tsound (L : lm) (xs : list val) (r : timed) : Prop :=
  ltimed item L (its xs) = (map its (fst r), its (snd r)).

(* ------------------------------------------------------------------ simple operators *)
Lemma stateless_timed (L : lm) (h : val -> option (list val)) :
  (forall s x o, h x = Some o -> lnext L s (It x) = (s, its o)) -> (forall s, ldone L s = []) ->
  forall xs os, steps_res h xs = Some os -> tsound L xs (os, []).
Proof.
  intros Hn Hd xs os H. unfold tsound, ltimed. cbn [fst snd]. generalize (l0 L) as s. revert os H.
  induction xs as [|x xs IH]; intros os H s; cbn [steps_res its map lsteps] in *.
  - inversion H; subst. cbn. now rewrite Hd.
  - destruct (h x) as [o|] eqn:Eh; [|discriminate]. destruct (steps_res h xs) as [os'|]; [|discriminate].
    inversion H; subst. rewrite (Hn s x o Eh). specialize (IH os' eq_refl s). unfold its in IH.
    destruct (lsteps item L s (map It xs)) as [os2 s2]. inversion IH; subst. reflexivity.
Qed.

Lemma all_true_steps p : forall xs, all_true (apply1 p) xs = true ->
  steps_res (fun x => match apply1 p x with Ok b => if is_true b then Some [x] else None | Raise _ => None end) xs
  = Some (singles xs).
Proof.
  induction xs as [|x xs IH]; intro H; cbn [all_true steps_res singles map] in *; [reflexivity|].
  destruct (apply1 p x) as [b|e]; [|discriminate]. apply andb_prop in H. destruct H as [H1 H2].
  rewrite H1, (IH H2). reflexivity.
Qed.

Lemma silent_prefix_map : forall (xs pre' : list val),
  prefix_map (fun _ _ => @nil item) pre' xs = map (fun _ => []) xs.
Proof. induction xs as [|x xs IH]; intro pre'; cbn [prefix_map map]; [reflexivity|]. now rewrite IH. Qed.

Lemma assert1_steps_timed a : forall xs st,
  pairs_ok (apply2 a) (match st with Some p => p :: xs | None => xs end) = true ->
  fst (lsteps item (L_assert1 a) st (its xs)) = map its (singles xs).
Proof.
  induction xs as [|x xs IH]; intros st H; [reflexivity|].
  cbn [its map lsteps lnext L_assert1 on_it singles].
  specialize (IH (Some x)). unfold its in IH.
  destruct (lsteps item (L_assert1 a) (Some x) (map It xs)) as [os s2]. cbn [fst] in *.
  destruct st as [p|].
  - cbn [pairs_ok] in H. destruct (apply2 a p x) as [b|e]; [|discriminate]. apply andb_prop in H. destruct H as [H1 H2].
    rewrite H1. f_equal. apply IH. exact H2.
  - f_equal. apply IH. exact H.
Qed.

Lemma scan_steps_timed a seed t reduce term : forall xs acc st ys fin,
  acc = match st with Some c => c | None => seed end ->
  scan_res a t acc xs = Some (ys, fin) ->
  fst (lsteps item (L_scan a seed t reduce term) st (its xs)) = map its (if reduce then silent xs else singles ys) /\
  match snd (lsteps item (L_scan a seed t reduce term) st (its xs)) with Some c => c | None => seed end = fin.
Proof.
  induction xs as [|x xs IH]; intros acc st ys fin Hacc H; cbn [scan_res its map lsteps] in *.
  - inversion H; subst. cbn. split; [destruct reduce; reflexivity | reflexivity].
  - destruct (apply2 a acc x) as [acc'|e] eqn:Ea; [|discriminate].
    destruct (fits t acc') eqn:Ef; [|discriminate].
    destruct (scan_res a t acc' xs) as [[ys' fin']|] eqn:Er; [|discriminate]. inversion H; subst ys fin. clear H.
    cbn [lnext L_scan on_it]. rewrite <- Hacc, Ea, (fits_coerce t acc' Ef).
    destruct (IH acc' (Some acc') ys' fin' eq_refl Er) as [E1 E2]. unfold its in *.
    destruct (lsteps item (L_scan a seed t reduce term) (Some acc') (map It xs)) as [os s2]. cbn [fst snd] in *.
    split; [|exact E2]. rewrite E1. destruct reduce; reflexivity.
Qed.

Lemma take_steps_prefix n : forall xs pre,
  prefix_map (fun pre x => if (Z.of_nat (length pre) <? n)%Z then [It x] else []) pre xs
  = map its (take_steps (n - Z.of_nat (length pre)) xs).
Proof.
  induction xs as [|x xs IH]; intro pre; cbn [prefix_map take_steps map]; [reflexivity|].
  rewrite IH, app_length. cbn [length]. f_equal.
  - destruct (Z.ltb_spec (Z.of_nat (length pre)) n); destruct (Z.ltb_spec 0 (n - Z.of_nat (length pre))); try lia; reflexivity.
  - do 2 f_equal. lia.
Qed.
Lemma prefix_map_ext {A B} (f g : list A -> A -> B) : (forall pre x, f pre x = g pre x) ->
  forall xs pre, prefix_map f pre xs = prefix_map g pre xs.
Proof. intros H. induction xs as [|x xs IH]; intro pre; cbn [prefix_map]; [reflexivity|]. now rewrite H, IH. Qed.
Lemma first_steps_prefix (xs : list val) :
  prefix_map (fun pre x => match pre with [] => [It x] | _ => [] end) [] xs = map its (take_steps 1 xs).
Proof.
  rewrite (prefix_map_ext _ (fun pre x => if (Z.of_nat (length pre) <? 1)%Z then [It x] else [])).
  - rewrite take_steps_prefix. cbn [length Z.of_nat]. reflexivity.
  - intros [|y pre] x; [reflexivity|]. cbn [length]. destruct (Z.ltb_spec (Z.of_nat (S (length pre))) 1); [lia|reflexivity].
Qed.

Theorem simple_sound o xs r : ptimed_simple o xs = Some r -> tsound (bl item (den o)) xs r.
Proof.
  destruct o; cbn [ptimed_simple]; intro H; try discriminate.
  - (* map *)
    destruct (steps_res _ xs) as [os|] eqn:E; [|discriminate]. inversion H; subst.
    change (bl item (den (OMap f))) with (L_map f). eapply stateless_timed; [| reflexivity | exact E].
    intros s x o Ho. cbv beta in Ho. cbn [lnext L_map on_it]. destruct (apply1 f x); [|discriminate]. inversion Ho. reflexivity.
  - (* filter *)
    destruct (steps_res _ xs) as [os|] eqn:E; [|discriminate]. inversion H; subst.
    change (bl item (den (OFilter p))) with (L_filter p). eapply stateless_timed; [| reflexivity | exact E].
    intros s x o Ho. cbv beta in Ho. cbn [lnext L_filter on_it]. destruct (apply1 p x) as [b|]; [|discriminate]. inversion Ho.
    destruct (truthy b); reflexivity.
  - (* flat_map *)
    destruct (steps_res _ xs) as [os|] eqn:E; [|discriminate]. inversion H; subst.
    change (bl item (den OFlatMap)) with L_flat_map. eapply stateless_timed; [| reflexivity | exact E].
    intros s x o Ho. cbv beta in Ho. cbn [lnext L_flat_map on_it]. destruct x; try discriminate; inversion Ho; reflexivity.
  - (* scan *)
    destruct (scan_res a t seed xs) as [[ys fin]|] eqn:E; [|discriminate].
    change (bl item (den (OScan a seed t reduce term))) with (L_scan a seed t reduce term).
    unfold tsound, ltimed. cbn [l0 L_scan].
    destruct (scan_steps_timed a seed t reduce term xs seed None ys fin eq_refl E) as [E1 E2].
    destruct (lsteps item (L_scan a seed t reduce term) None (its xs)) as [os s2]. cbn [fst snd] in *. subst os.
    destruct term as [f|].
    + destruct (apply1 f fin) as [v|e] eqn:Ef; [|discriminate]. destruct (fits t v) eqn:Ev; [|discriminate].
      injection H as Hr. subst r. cbn [fst snd ldone L_scan]. rewrite E2, Ef, (fits_coerce t v Ev).
      destruct reduce; reflexivity.
    + injection H as Hr. subst r. cbn [fst snd ldone L_scan app]. rewrite E2. destruct reduce; reflexivity.
  - (* first *)
    destruct xs as [|x xs']; [discriminate|]. inversion H; subst.
    change (bl item (den OFirst)) with L_first. unfold tsound.
    destruct (first_spec (x :: xs')) as [E1 E2]. unfold steps_of, done_of in E1, E2.
    destruct (ltimed item L_first (its (x :: xs'))) as [os d]. cbn [fst snd] in *. subst os d.
    rewrite first_steps_prefix. reflexivity.
  - (* last *)
    destruct xs as [|x xs']; [discriminate|]. inversion H; subst.
    change (bl item (den OLast)) with L_last. unfold tsound.
    destruct (last_spec (x :: xs')) as [E1 E2]. unfold steps_of, done_of in E1, E2.
    destruct (ltimed item L_last (its (x :: xs'))) as [os d]. cbn [fst snd] in *. subst os d.
    rewrite silent_prefix_map. unfold silent. cbn [fst snd map]. rewrite map_map. reflexivity.
  - (* take *)
    inversion H; subst. change (bl item (den (OTake n))) with (L_take n). unfold tsound.
    destruct (take_spec n xs) as [E1 E2]. unfold steps_of, done_of in E1, E2.
    destruct (ltimed item (L_take n) (its xs)) as [os d]. cbn [fst snd] in *. subst os d.
    rewrite take_steps_prefix. cbn [length Z.of_nat]. now rewrite Z.sub_0_r.
  - (* assert *)
    destruct (all_true (apply1 p) xs) eqn:E; [|discriminate]. inversion H; subst.
    change (bl item (den (OAssert p))) with (L_assert p).
    eapply stateless_timed; [| reflexivity | exact (all_true_steps p xs E)].
    intros s x o Ho. cbv beta in Ho. cbn [lnext L_assert on_it]. destruct (apply1 p x) as [b|]; [|discriminate].
    destruct (is_true b); [|discriminate]. inversion Ho. reflexivity.
  - (* assert_1 *)
    destruct (pairs_ok (apply2 a) xs) eqn:E; [|discriminate]. inversion H; subst.
    change (bl item (den (OAssert1 a))) with (L_assert1 a). unfold tsound, ltimed. cbn [l0 L_assert1].
    pose proof (assert1_steps_timed a xs None E) as E1.
    destruct (lsteps item (L_assert1 a) None (its xs)) as [os s2]. cbn [fst snd] in *. subst os. reflexivity.
Qed.

(* ------------------------------------------------------------------ composition *)
Lemma regroup_map {A B} (f : A -> B) : forall ns (os : list (list A)),
  map (map f) (regroup ns os) = regroup ns (map (map f) os).
Proof.
  induction ns as [|n ns IH]; intro os; cbn [regroup map]; [reflexivity|].
  rewrite IH, concat_map, firstn_map, skipn_map. reflexivity.
Qed.
Lemma regroup_app {A} : forall ns (a b : list (list A)), list_sum ns = length a -> regroup ns (a ++ b) = regroup ns a.
Proof.
  induction ns as [|n ns IH]; intros a b H; cbn [regroup]; [reflexivity|].
  change (list_sum (n :: ns)) with (n + list_sum ns) in H.
  assert (Hn : n <= length a) by lia.
  rewrite firstn_app, skipn_app. replace (n - length a) with 0 by lia. cbn [firstn skipn]. rewrite app_nil_r.
  f_equal. apply IH. rewrite skipn_length. lia.
Qed.
Lemma sum_lengths {A} (os : list (list A)) : list_sum (map (@length A) os) = length (concat os).
Proof. induction os as [|o os IH]; cbn [map concat]; [reflexivity|].
  change (list_sum (length o :: map (@length A) os)) with (length o + list_sum (map (@length A) os)). rewrite app_length. lia. Qed.

Lemma lsteps_len' (L : lm) : forall xs s, length (fst (lsteps item L s xs)) = length xs.
Proof. induction xs as [|x xs IH]; intro s; cbn [lsteps]; [reflexivity|]. destruct (lnext L s x) as [s1 o].
  specialize (IH s1). destruct (lsteps item L s1 xs). cbn [fst length] in *. now rewrite IH. Qed.

Lemma feed_regroup (L : lm) : forall os b,
  feed_steps item L b os = (regroup (map (@length item) os) (fst (lsteps item L b (concat os))), snd (lsteps item L b (concat os))).
Proof.
  induction os as [|o os IH]; intro b; cbn [feed_steps map regroup concat]; [reflexivity|].
  rewrite lfeed_lsteps, IH, lsteps_app. cbn [fst snd].
  pose proof (lsteps_len' L o b) as Hl.
  rewrite firstn_app, skipn_app, Hl. replace (length o - length o) with 0 by lia. cbn [firstn skipn].
  rewrite app_nil_r. rewrite <- Hl at 1 2. rewrite firstn_all, skipn_all. cbn [app]. reflexivity.
Qed.

Lemma compose_ltimed (L1 L2 : lm) (xs : list item) :
  ltimed item (compose_l L1 L2) xs =
  (regroup (map (@length item) (fst (ltimed item L1 xs)))
           (fst (lsteps item L2 (l0 L2) (concat (fst (ltimed item L1 xs)) ++ snd (ltimed item L1 xs)))),
   concat (skipn (length (concat (fst (ltimed item L1 xs))))
                 (fst (lsteps item L2 (l0 L2) (concat (fst (ltimed item L1 xs)) ++ snd (ltimed item L1 xs)))))
   ++ ldone L2 (snd (lsteps item L2 (l0 L2) (concat (fst (ltimed item L1 xs)) ++ snd (ltimed item L1 xs))))).
Proof.
  unfold ltimed. cbn [l0 compose_l].
  pose proof (compose_timed item L1 L2 xs (l0 L1) (l0 L2)) as Et.
  destruct (compose_steps item L1 L2 xs (l0 L1) (l0 L2)) as [_ Es].
  destruct (lsteps item (compose_l L1 L2) (l0 L1, l0 L2) xs) as [os s]. cbn [fst snd] in *. subst s os.
  destruct (lsteps item L1 (l0 L1) xs) as [os1 a1]. cbn [fst snd].
  rewrite feed_regroup. cbn [fst]. rewrite lsteps_app. cbn [fst snd].
  pose proof (lsteps_len' L2 (concat os1) (l0 L2)) as Hl.
  f_equal.
  - rewrite regroup_app; [reflexivity|]. rewrite sum_lengths. now rewrite Hl.
  - cbn [ldone compose_l]. rewrite lfeed_lsteps.
    rewrite skipn_app, <- Hl, skipn_all. replace (length _ - length _) with 0 by lia. cbn [skipn app]. reflexivity.
Qed.

Lemma its_concat (l : list (list val)) : concat (map its l) = its (concat l).
Proof. unfold its. now rewrite concat_map. Qed.

Lemma seq_sound (L1 L2 : lm) xs (a : timed) (rest : list val -> option timed) r :
  tsound L1 xs a -> (forall ys r2, rest ys = Some r2 -> tsound L2 ys r2) ->
  seq_timed xs a rest = Some r -> tsound (compose_l L1 L2) xs r.
Proof.
  intros H1 H2 H. destruct a as [os1 fin1]. cbn [seq_timed] in H.
  destruct (rest (concat os1 ++ fin1)) as [[os2 fin2]|] eqn:Er; [|discriminate]. inversion H; subst. clear H.
  specialize (H2 _ _ Er). unfold tsound in *. cbn [fst snd] in *.
  rewrite compose_ltimed, H1. cbn [fst snd].
  rewrite its_concat. replace (its (concat os1) ++ its fin1) with (its (concat os1 ++ fin1)) by (unfold its; now rewrite map_app).
  unfold ltimed in H2. destruct (lsteps item L2 (l0 L2) (its (concat os1 ++ fin1))) as [os s2]. inversion H2; subst. cbn [fst snd].
  f_equal.
  - unfold its at 3. rewrite regroup_map. f_equal. rewrite map_map. apply map_ext. intro l. unfold its. now rewrite map_length.
  - rewrite H3. unfold its at 4. rewrite map_app. f_equal.
    unfold its at 1. rewrite map_length. fold (its (concat (skipn (length (concat os1)) os2))).
    rewrite <- its_concat. f_equal. unfold its. now rewrite skipn_map.
Qed.

(* ------------------------------------------------------------------ tee_map *)
Definition icells (c : list (option val)) : list (option item) := map (option_map It) c.

Lemma map_set_nth {A B} (f : A -> B) (a d : A) : forall i l, map f (set_nth i a d l) = set_nth i (f a) (f d) (map f l).
Proof.
  induction i as [|i IH]; intros [|x l]; cbn [set_nth map]; try reflexivity.
  - now rewrite (IH []).
  - now rewrite IH.
Qed.
Lemma mk_tuple_its c : mk_tuple (icells c) = It (ptuple c).
Proof.
  unfold mk_tuple, ptuple, icells. rewrite map_map. do 2 f_equal. apply map_ext. intros [v|]; reflexivity.
Qed.
Lemma all_some_icells c : all_some item (icells c) = all_set c.
Proof. unfold all_some, all_set, icells. induction c as [|[v|] c IH]; cbn [map forallb]; [reflexivity| |reflexivity]. exact IH. Qed.
Lemma icells_clear c : map (fun _ => @None item) (icells c) = icells (map (fun _ => None) c).
Proof. unfold icells. now rewrite !map_map. Qed.

Lemma ljoin_next_its mode i v c :
  ljoin_next item mode mk_tuple special i (It v) (icells c)
  = (icells (fst (pjoin_next mode i v c)), its (snd (pjoin_next mode i v c))).
Proof.
  unfold ljoin_next, pjoin_next. cbn [special].
  assert (Es : set_nth i (Some (It v)) None (icells c) = icells (set_nth i (Some v) None c))
    by (unfold icells; now rewrite map_set_nth).
  destruct mode; cbn [fst snd].
  - reflexivity.
  - rewrite Es, all_some_icells. destruct (all_set _); cbn [fst snd]; [|reflexivity].
    rewrite icells_clear, mk_tuple_its. reflexivity.
  - rewrite Es, mk_tuple_its. reflexivity.
Qed.
Lemma ljoin_branch_its mode i : forall o c,
  ljoin_branch item mode mk_tuple special i (its o) (icells c)
  = (icells (fst (pjoin_branch mode i o c)), its (snd (pjoin_branch mode i o c))).
Proof.
  induction o as [|v o IH]; intro c; cbn [its map ljoin_branch pjoin_branch]; [reflexivity|].
  rewrite ljoin_next_its. destruct (pjoin_next mode i v c) as [c1 e1]. cbn [fst snd].
  specialize (IH c1). unfold its in IH. rewrite IH. destruct (pjoin_branch mode i o c1) as [c2 e2]. cbn [fst snd].
  unfold its. now rewrite map_app.
Qed.
Lemma ljoin_all_its mode : forall outs i c,
  ljoin_all item mode mk_tuple special i (map its outs) (icells c)
  = (icells (fst (pjoin_all mode i outs c)), its (snd (pjoin_all mode i outs c))).
Proof.
  induction outs as [|o outs IH]; intros i c; cbn [map ljoin_all pjoin_all]; [reflexivity|].
  rewrite ljoin_branch_its. destruct (pjoin_branch mode i o c) as [c1 e1]. cbn [fst snd].
  rewrite IH. destruct (pjoin_all mode (S i) outs c1) as [c2 e2]. cbn [fst snd]. unfold its. now rewrite map_app.
Qed.
Lemma join_steps_its mode : forall outs c,
  join_steps item mode mk_tuple special (map (map its) outs) (icells c)
  = (map its (fst (pjoin_steps mode outs c)), icells (snd (pjoin_steps mode outs c))).
Proof.
  induction outs as [|o outs IH]; intro c; cbn [map join_steps pjoin_steps]; [reflexivity|].
  rewrite ljoin_all_its. destruct (pjoin_all mode 0 o c) as [c1 em]. cbn [fst snd].
  rewrite IH. destruct (pjoin_steps mode outs c1) as [ems c2]. reflexivity.
Qed.

Lemma map2_its (os : list (list val)) : forall (X : list (list (list val))),
  map (map its) (PlainTimed.map2 cons os X) = TeeSpecProofs.map2 cons (map its os) (map (map its) X).
Proof.
  induction os as [|o os IH]; intros [|x X]; cbn [PlainTimed.map2 TeeSpecProofs.map2 map]; try reflexivity.
  now rewrite IH.
Qed.

Lemma branches_its (xs : list val) : forall (brs : list br_) (rs : list timed),
  Forall2 (fun b r => tsound (bl item b) xs r) brs rs ->
  indep_steps item brs (its xs) = map (map its) (by_item xs (map fst rs)) /\
  indep_done item brs (its xs) = map its (map snd rs).
Proof.
  induction 1 as [|b r brs rs Hb Hr IH].
  - unfold indep_steps, indep_done. cbn [indep_from final_from ldone_all by_item map]. split; [|reflexivity].
    unfold its. now rewrite !map_map.
  - destruct IH as [I1 I2]. unfold indep_steps, indep_done in *.
    cbn [l0_all indep_from final_from ldone_all fst snd map by_item].
    unfold tsound, ltimed in Hb. destruct (lsteps item (bl item b) (l0 (bl item b)) (its xs)) as [os s]. cbn [fst snd].
    inversion Hb as [[E1 E2]]. split.
    + rewrite I1, map2_its. reflexivity.
    + rewrite I2. reflexivity.
Qed.

Lemma ltimed_bypass (L : lm) xs : ltimed item (bypass_l item special L) (its xs) = ltimed item L (its xs).
Proof.
  unfold ltimed. cbn [l0 bypass_l]. generalize (l0 L) as s.
  induction xs as [|x xs IH]; intro s; cbn [its map lsteps]; [reflexivity|].
  cbn [lnext bypass_l special]. destruct (lnext L s (It x)) as [s1 o].
  specialize (IH s1). unfold its in IH.
  destruct (lsteps item (bypass_l item special L) s1 (map It xs)) as [os s2].
  destruct (lsteps item L s1 (map It xs)) as [os' s2']. cbn [ldone bypass_l] in *. inversion IH; subst. reflexivity.
Qed.

Lemma const_none_len {A B C} (l1 : list A) (l2 : list B) : length l1 = length l2 ->
  map (fun _ => @None C) l1 = map (fun _ => None) l2.
Proof. revert l2. induction l1 as [|a l1 IH]; intros [|b l2] H; cbn in *; try discriminate; [reflexivity|]. f_equal. apply IH. lia. Qed.

Lemma Forall2_len {A B} (P : A -> B -> Prop) l1 l2 : Forall2 P l1 l2 -> length l1 = length l2.
Proof. induction 1; cbn; [reflexivity|]. now f_equal. Qed.

Theorem tee_sound mode (b : br_) (brs : list br_) (rs : list timed) xs :
  Forall2 (fun b r => tsound (bl item b) xs r) (b :: brs) rs ->
  tsound (bl item (tee_b mode (b :: brs))) xs (tee_join mode xs rs).
Proof.
  intro H. unfold tsound. cbn [tee_b bl bypass_b mkb]. rewrite ltimed_bypass.
  destruct (tee_is_join item mode mk_tuple special (b :: brs) (its xs)) as [E1 E2].
  destruct (branches_its xs (b :: brs) rs H) as [I1 I2].
  rewrite I1 in E1, E2. rewrite I2 in E2.
  assert (Ec : cells0 item (b :: brs) = icells (map (fun _ => None) rs)).
  { unfold cells0, icells. rewrite map_map. apply const_none_len. rewrite seq_length. apply (Forall2_len _ _ _ H). }
  rewrite Ec in E1, E2. rewrite join_steps_its in E1, E2. cbn [fst snd] in E1, E2. rewrite ljoin_all_its in E2. cbn [snd] in E2.
  unfold tee_join. destruct (pjoin_steps mode (by_item xs (map fst rs)) (map (fun _ => None) rs)) as [steps c]. cbn [fst snd] in *.
  destruct (ltimed item (tee_l item mode mk_tuple special (b :: brs)) (its xs)) as [os d]. cbn [fst snd] in *. subst. reflexivity.
Qed.

(* ------------------------------------------------------------------ every pipeline *)
Lemma den_tee mode bs : den (OTee mode bs) = tee_b mode (map den_pipe bs).
Proof. reflexivity. Qed.
Lemma ptimed_op_tee mode bs xs :
  ptimed_op (OTee mode bs) xs =
  match bs with
  | [] => Some (singles xs, [])
  | _ :: _ => match pbranches bs xs with None => None | Some rs => Some (tee_join mode xs rs) end
  end.
Proof. destruct bs; reflexivity. Qed.

Lemma id_sound xs : tsound L_id xs (singles xs, []).
Proof.
  unfold tsound, ltimed. cbn [l0 L_id fst snd]. generalize tt as u.
  induction xs as [|x xs IH]; intro u; cbn [its map lsteps singles]; [reflexivity|].
  cbn [lnext L_id]. specialize (IH u). unfold its in IH. destruct (lsteps item L_id u (map It xs)) as [os s].
  inversion IH; subst. reflexivity.
Qed.

Definition op_ts (o : op) : Prop := forall xs r, ptimed_op o xs = Some r -> tsound (bl item (den o)) xs r.

Lemma pipe_ts (p : list op) : Forall op_ts p -> forall xs r, ptimed_pipe p xs = Some r -> tsound (bl item (den_pipe p)) xs r.
Proof.
  induction 1 as [|o p Ho Hp IH]; intros xs r H; cbn [ptimed_pipe] in H.
  - inversion H; subst. apply id_sound.
  - destruct (ptimed_op o xs) as [a|] eqn:Eo; [|discriminate].
    change (bl item (den_pipe (o :: p))) with (compose_l (bl item (den o)) (bl item (den_pipe p))).
    eapply seq_sound; [apply Ho; exact Eo | exact IH | exact H].
Qed.

Lemma pbranches_cons p bs xs : pbranches (p :: bs) xs =
  match ptimed_pipe p xs, pbranches bs xs with Some r, Some rs => Some (r :: rs) | _, _ => None end.
Proof. reflexivity. Qed.

Lemma branches_ts xs : forall (bs : list (list op)) rs, Forall (Forall op_ts) bs -> pbranches bs xs = Some rs ->
  Forall2 (fun b r => tsound (bl item b) xs r) (map den_pipe bs) rs.
Proof.
  induction bs as [|p bs IH]; intros rs Hb H; cbn [map].
  - inversion H; subst. constructor.
  - rewrite pbranches_cons in H. inversion Hb as [|? ? Hp Hbs]; subst.
    destruct (ptimed_pipe p xs) as [r|] eqn:Ep; [|discriminate].
    destruct (pbranches bs xs) as [rs'|] eqn:Eb; [|discriminate]. inversion H; subst.
    constructor; [apply pipe_ts; assumption | apply IH; auto].
Qed.

Lemma all_ops_ts : forall o, op_ts o.
Proof.
  fix IH 1. intro o.
  pose (pipe_ok := fix F (p : list op) : Forall op_ts p :=
          match p with [] => Forall_nil _ | o' :: p' => Forall_cons o' (IH o') (F p') end).
  destruct o; intros xs r H; try (apply simple_sound; exact H).
  rewrite ptimed_op_tee in H. rewrite den_tee.
  destruct bs as [|p bs]; [inversion H; subst; apply id_sound|].
  destruct (pbranches (p :: bs) xs) as [rs|] eqn:Eb; [|discriminate]. inversion H; subst.
  cbn [map]. apply tee_sound. change (den_pipe p :: map den_pipe bs) with (map den_pipe (p :: bs)).
  apply branches_ts; [|exact Eb].
  exact ((fix G (bs : list (list op)) : Forall (Forall op_ts) bs :=
            match bs with [] => Forall_nil _ | q :: bs' => Forall_cons q (pipe_ok q) (G bs') end) (p :: bs)).
Qed.

(* the local machine of a pipeline, over one lifetime, step by step = the timed plain list semantics *)
Theorem ptimed_pipe_sound (P : list op) (xs : list val) (r : timed) : ptimed_pipe P xs = Some r ->
  ltimed item (pipe_l P) (its xs) = (map its (fst r), its (snd r)).
Proof.
  intro H. assert (HF : Forall op_ts P).
  { clear H. induction P as [|o P IH]; [apply Forall_nil | apply Forall_cons; [apply all_ops_ts | exact IH]]. }
  exact (pipe_ts P HF xs r H).
Qed.

(* the two plain models agree wherever both are defined: flattening the timed semantics gives plain_pipe *)
Lemma its_inj : forall a b : list val, its a = its b -> a = b.
Proof.
  induction a as [|x a IH]; intros [|y b] H; cbn in H; try discriminate; [reflexivity|].
  inversion H; subst. f_equal. now apply IH.
Qed.
Theorem plain_models_agree (P : list op) (xs ys : list val) (r : timed) :
  plain_pipe P xs = Some ys -> ptimed_pipe P xs = Some r -> ys = concat (fst r) ++ snd r.
Proof.
  intros H1 H2. apply its_inj.
  rewrite <- (plain_pipe_items P xs ys H1). unfold items_of. rewrite (ptimed_pipe_sound P xs r H2).
  unfold its. rewrite map_app, concat_map. reflexivity.
Qed.
