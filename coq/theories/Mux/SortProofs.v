(* sort = a stably ordered permutation: the model of sorted() is a permutation of its input, ordered by
   the sort key (ascending, or descending with reverse), items with the same sort key keep their source
   order - and these three facts determine the result uniquely. *)
From Coq Require Import List ZArith Bool Lia Sorting.Permutation Sorting.Sorted.
From RxVerif Require Import Mux.Val Mux.Sort.
Import ListNotations.

Section StableSortProofs.
  Context {A : Type} (key : A -> Z) (rev : bool).
  Notation bef := (fun a b => before rev (key a) (key b) = true).
  Notation same z := (fun a => (key a =? z)%Z).

  Lemma before_total a b : before rev a b = true \/ before rev b a = true.
  Proof. unfold before. destruct rev; lia. Qed.
  Lemma before_trans a b c : before rev a b = true -> before rev b c = true -> before rev a c = true.
  Proof. unfold before. destruct rev; lia. Qed.
  Lemma before_antisym a b : before rev a b = true -> before rev b a = true -> a = b.
  Proof. unfold before. destruct rev; lia. Qed.
  Lemma before_refl a : before rev a a = true.
  Proof. unfold before. destruct rev; lia. Qed.

  Lemma ins_perm x l : Permutation (ins key rev x l) (x :: l).
  Proof.
    induction l as [|y l IH]; cbn [ins]; [apply Permutation_refl|].
    destruct (before rev (key x) (key y)); [apply Permutation_refl|].
    eapply Permutation_trans; [apply perm_skip; exact IH|apply perm_swap].
  Qed.
  Theorem ssort_perm l : Permutation (ssort key rev l) l.
  Proof.
    induction l as [|x l IH]; cbn [ssort fold_right]; [constructor|].
    eapply Permutation_trans; [apply ins_perm|apply perm_skip; exact IH].
  Qed.

  Lemma ins_sorted x l : StronglySorted bef l -> StronglySorted bef (ins key rev x l).
  Proof.
    induction 1 as [|y l Hs IH Hy]; cbn [ins]; [repeat constructor|].
    destruct (before rev (key x) (key y)) eqn:E.
    - constructor; [constructor; assumption|]. constructor; [exact E|].
      eapply Forall_impl; [|exact Hy]. intros a Ha. cbv beta in *. eapply before_trans; eassumption.
    - constructor; [exact IH|].
      assert (Hyx : before rev (key y) (key x) = true) by (destruct (before_total (key x) (key y)); congruence).
      apply (Permutation_Forall (Permutation_sym (ins_perm x l))). constructor; assumption.
  Qed.
  Theorem ssort_sorted l : StronglySorted bef (ssort key rev l).
  Proof. induction l as [|x l IH]; cbn [ssort fold_right]; [constructor|apply ins_sorted; exact IH]. Qed.

  Lemma ins_filter x l z : StronglySorted bef l ->
    filter (same z) (ins key rev x l) = filter (same z) (x :: l).
  Proof.
    induction 1 as [|y l Hs IH Hy]; cbn [ins]; [reflexivity|].
    destruct (before rev (key x) (key y)) eqn:E; [reflexivity|].
    cbn [filter] in *. rewrite IH.
    destruct (key x =? z)%Z eqn:Ex; [|reflexivity]. destruct (key y =? z)%Z eqn:Ey; [|reflexivity].
    exfalso. apply Z.eqb_eq in Ex, Ey. rewrite Ex, Ey, before_refl in E. discriminate.
  Qed.
  Theorem ssort_stable l z : filter (same z) (ssort key rev l) = filter (same z) l.
  Proof.
    induction l as [|x l IH]; [reflexivity|]. cbn [ssort fold_right].
    rewrite ins_filter; [|apply ssort_sorted]. cbn [filter]. fold (ssort key rev l). rewrite IH. reflexivity.
  Qed.

  (* ordered + same-key items in source order: at most one such list *)
  Lemma filter_head_in (l : list A) z a r : filter (same z) l = a :: r -> In a l /\ key a = z.
  Proof.
    intro E. assert (H : In a (filter (same z) l)) by (rewrite E; left; reflexivity).
    apply filter_In in H. destruct H as [H1 H2]. apply Z.eqb_eq in H2. auto.
  Qed.
  Lemma sorted_unique : forall l1 l2, StronglySorted bef l1 -> StronglySorted bef l2 ->
    (forall z, filter (same z) l1 = filter (same z) l2) -> l1 = l2.
  Proof.
    induction l1 as [|a t1 IH]; intros l2 S1 S2 Hf.
    - destruct l2 as [|b t2]; [reflexivity|]. specialize (Hf (key b)). cbn [filter] in Hf.
      rewrite Z.eqb_refl in Hf. discriminate.
    - destruct l2 as [|b t2].
      + specialize (Hf (key a)). cbn [filter] in Hf. rewrite Z.eqb_refl in Hf. discriminate.
      + inversion S1 as [|? ? S1t Ha]; subst. inversion S2 as [|? ? S2t Hb]; subst.
        assert (Hk : key a = key b).
        { destruct (Z.eq_dec (key a) (key b)) as [e|ne]; [exact e|].
          (* a occurs in t2, b occurs in t1 *)
          pose proof (Hf (key a)) as Fa. cbn [filter] in Fa. rewrite Z.eqb_refl in Fa.
          destruct (key b =? key a)%Z eqn:Eb; [apply Z.eqb_eq in Eb; congruence|].
          symmetry in Fa. apply filter_head_in in Fa. destruct Fa as [Fa _].
          pose proof (Hf (key b)) as Fb. cbn [filter] in Fb. rewrite Z.eqb_refl in Fb.
          destruct (key a =? key b)%Z eqn:Ea; [apply Z.eqb_eq in Ea; congruence|].
          apply filter_head_in in Fb. destruct Fb as [Fb _].
          apply before_antisym.
          - exact (proj1 (Forall_forall _ _) Ha b Fb).
          - exact (proj1 (Forall_forall _ _) Hb a Fa). }
        assert (Hab : a = b).
        { pose proof (Hf (key a)) as Fa. cbn [filter] in Fa. rewrite Z.eqb_refl in Fa.
          rewrite <- Hk, Z.eqb_refl in Fa. congruence. }
        subst b. f_equal. apply IH; [assumption|assumption|].
        intro z. specialize (Hf z). cbn [filter] in Hf. destruct (key a =? z)%Z; congruence.
  Qed.
  Theorem ssort_unique l l' : StronglySorted bef l' -> (forall z, filter (same z) l' = filter (same z) l) ->
    l' = ssort key rev l.
  Proof.
    intros S F. apply sorted_unique; [exact S|apply ssort_sorted|]. intro z. rewrite ssort_stable. apply F.
  Qed.
End StableSortProofs.

(* on the values of the model *)
Lemma int_keys_snd f : forall xs l, int_keys f xs = Some l -> map snd l = xs.
Proof.
  induction xs as [|x r IH]; intros l E; cbn [int_keys] in E; [injection E as <-; reflexivity|].
  destruct (match f with None => Ok x | Some g => apply1 g x end) as [[]|]; try discriminate.
  destruct (int_keys f r) as [l0|]; [|discriminate]. injection E as <-. cbn [map snd]. f_equal. apply IH. reflexivity.
Qed.
Theorem py_sorted_perm f rev xs ys : py_sorted f rev xs = Some ys -> Permutation ys xs.
Proof.
  unfold py_sorted. destruct (int_keys f xs) as [l|] eqn:E; [|discriminate]. cbn [option_map]. intro H. injection H as <-.
  rewrite <- (int_keys_snd f xs l E). apply Permutation_map. apply ssort_perm.
Qed.

Definition key_res (f : option fn) (x : val) : res := match f with None => Ok x | Some g => apply1 g x end.
Lemma int_keys_total f (kf : val -> Z) : forall xs, (forall x, In x xs -> key_res f x = Ok (VInt (kf x))) ->
  int_keys f xs = Some (map (fun x => (kf x, x)) xs).
Proof.
  induction xs as [|x r IH]; intro H; [reflexivity|]. cbn [int_keys map].
  fold (key_res f x). rewrite (H x (or_introl eq_refl)). rewrite IH; [reflexivity|].
  intros y Hy. apply H. right. exact Hy.
Qed.
Lemma ins_map {A B} (g : A -> B) (kb : B -> Z) rev x l :
  ins kb rev (g x) (map g l) = map g (ins (fun a => kb (g a)) rev x l).
Proof.
  induction l as [|y l IH]; [reflexivity|]. cbn [ins map].
  destruct (before rev (kb (g x)) (kb (g y))); [reflexivity|]. cbn [map]. f_equal. exact IH.
Qed.
Lemma ssort_map {A B} (g : A -> B) (kb : B -> Z) rev l :
  ssort kb rev (map g l) = map g (ssort (fun a => kb (g a)) rev l).
Proof.
  induction l as [|x l IH]; [reflexivity|]. cbn [map ssort fold_right].
  fold (ssort kb rev (map g l)). rewrite IH. apply ins_map.
Qed.
(* whenever the key function gives ints, the model of sorted() is the stable sort by those ints *)
Theorem py_sorted_is_ssort f rev (kf : val -> Z) xs : (forall x, In x xs -> key_res f x = Ok (VInt (kf x))) ->
  py_sorted f rev xs = Some (ssort kf rev xs).
Proof.
  intro H. unfold py_sorted. rewrite (int_keys_total f kf xs H). cbn [option_map]. f_equal.
  rewrite (ssort_map (fun x => (kf x, x)) fst rev xs). rewrite map_map. cbn [snd]. apply map_id.
Qed.
(* sort = a stably ordered permutation, and the only one *)
Theorem py_sorted_spec f rev (kf : val -> Z) xs : (forall x, In x xs -> key_res f x = Ok (VInt (kf x))) ->
  exists ys, py_sorted f rev xs = Some ys
    /\ Permutation ys xs
    /\ StronglySorted (fun a b => before rev (kf a) (kf b) = true) ys
    /\ (forall z, filter (fun a => (kf a =? z)%Z) ys = filter (fun a => (kf a =? z)%Z) xs)
    /\ (forall ys', StronglySorted (fun a b => before rev (kf a) (kf b) = true) ys' ->
          (forall z, filter (fun a => (kf a =? z)%Z) ys' = filter (fun a => (kf a =? z)%Z) xs) -> ys' = ys).
Proof.
  intro H. exists (ssort kf rev xs). split; [apply py_sorted_is_ssort; exact H|].
  split; [apply ssort_perm|]. split; [apply ssort_sorted|]. split; [intro z; apply ssort_stable|].
  intros ys' S F. apply ssort_unique; assumption.
Qed.
(* reverse=True is not the reversal of the ascending result: equal keys keep their source order *)
Example reverse_keeps_source_order :
  py_sorted (Some (FMod 3)) true [VInt 1; VInt 4; VInt 2; VInt 7] = Some [VInt 2; VInt 1; VInt 4; VInt 7].
Proof. vm_compute. reflexivity. Qed.
