(* List semantics of the per-key local machines of the simple operators (C09, C10, C11, C13):
   for every item sequence xs, what is emitted while each item is consumed (as a function of the
   items seen before it and of the item) and what is emitted at completion. *)
From Coq Require Import List ZArith Bool Arith Lia ZifyBool.
From RxVerif Require Import Mux.Val Mux.Sim Mux.SimExt Mux.Ops Mux.LocalSemProofs.
Import ListNotations.

Definition its (xs : list val) : list item := map It xs.
(* out_i = f (items before x_i) x_i *)
Fixpoint prefix_map {A B} (f : list A -> A -> B) (pre xs : list A) : list B :=
  match xs with [] => [] | x :: r => f pre x :: prefix_map f (pre ++ [x]) r end.

Definition steps_of (L : lm) (xs : list val) := fst (ltimed item L (its xs)).
Definition done_of (L : lm) (xs : list val) := snd (ltimed item L (its xs)).

(* generic induction principle: a state invariant indexed by the consumed prefix *)
Lemma lsteps_prefix (L : lm) (Inv : list val -> LS L -> Prop) (f : list val -> val -> list item) :
  (forall pre s x, Inv pre s -> snd (lnext L s (It x)) = f pre x /\ Inv (pre ++ [x]) (fst (lnext L s (It x)))) ->
  forall xs pre s, Inv pre s ->
    fst (lsteps item L s (its xs)) = prefix_map f pre xs /\ Inv (pre ++ xs) (snd (lsteps item L s (its xs))).
Proof.
  intros Hstep. induction xs as [|x xs IH]; intros pre s Hi; cbn [its map lsteps prefix_map].
  - rewrite app_nil_r. auto.
  - destruct (Hstep pre s x Hi) as [Ho Hi']. destruct (lnext L s (It x)) as [s1 o]. cbn [fst snd] in *.
    destruct (IH (pre ++ [x]) s1 Hi') as [E1 E2]. unfold its in *.
    destruct (lsteps item L s1 (map It xs)) as [os s2]. cbn [fst snd] in *.
    rewrite <- app_assoc in E2. split; [congruence | exact E2].
Qed.
Lemma ltimed_prefix (L : lm) (Inv : list val -> LS L -> Prop) (f : list val -> val -> list item) (d : list val -> list item) :
  Inv [] (l0 L) ->
  (forall pre s x, Inv pre s -> snd (lnext L s (It x)) = f pre x /\ Inv (pre ++ [x]) (fst (lnext L s (It x)))) ->
  (forall xs s, Inv xs s -> ldone L s = d xs) ->
  forall xs, steps_of L xs = prefix_map f [] xs /\ done_of L xs = d xs.
Proof.
  intros H0 Hs Hd xs. unfold steps_of, done_of, ltimed.
  destruct (lsteps_prefix L Inv f Hs xs [] (l0 L) H0) as [E1 E2].
  destruct (lsteps item L (l0 L) (its xs)) as [os s]. cbn [fst snd] in *. split; auto.
Qed.

(* ---------------- take / first / last ---------------- *)
Theorem take_spec n xs :
  steps_of (L_take n) xs = prefix_map (fun pre x => if (Z.of_nat (length pre) <? n)%Z then [It x] else []) [] xs
  /\ done_of (L_take n) xs = [].
Proof.
  apply (ltimed_prefix (L_take n) (fun pre c => ((0 < c -> c = n - Z.of_nat (length pre)) /\ (c <= 0 -> n <= Z.of_nat (length pre)))%Z)
           _ (fun _ => [])).
  - cbn [l0 L_take length]. lia.
  - intros pre c x [H1 H2]. cbn [lnext L_take on_it]. rewrite app_length. cbn [length].
    destruct (Z.ltb_spec 0 c); destruct (Z.ltb_spec (Z.of_nat (length pre)) n);
      cbn [fst snd]; try (exfalso; lia); (split; [reflexivity|]); lia.
  - reflexivity.
Qed.
Theorem first_spec xs :
  steps_of L_first xs = prefix_map (fun pre x => match pre with [] => [It x] | _ => [] end) [] xs
  /\ done_of L_first xs = [].
Proof.
  apply (ltimed_prefix L_first (fun pre seen => seen = negb (Nat.eqb (length pre) 0)) _ (fun _ => [])).
  - reflexivity.
  - intros pre seen x ->. cbn [lnext L_first on_it]. rewrite app_length. cbn [length].
    destruct pre as [|y r]; cbn [length Nat.eqb negb fst snd]; (split; [reflexivity|]).
    + reflexivity.
    + replace (S (length r) + 1) with (S (S (length r))) by lia. reflexivity.
  - reflexivity.
Qed.
Theorem last_spec xs :
  steps_of L_last xs = prefix_map (fun _ _ => []) [] xs
  /\ done_of L_last xs = match xs with [] => [] | x :: r => [It (last r x)] end.
Proof.
  apply (ltimed_prefix L_last (fun pre st => st = match pre with [] => None | x :: r => Some (last r x) end) _
          (fun xs => match xs with [] => [] | x :: r => [It (last r x)] end)).
  - reflexivity.
  - intros pre st x ->. cbn [lnext L_last on_it fst snd]. split; auto.
    destruct pre as [|y r]; cbn [app]; [reflexivity|]. f_equal. symmetry. apply last_last.
  - intros ys st ->. destruct ys; reflexivity.
Qed.

(* ---------------- map / filter ---------------- *)
Theorem map_spec f xs :
  steps_of (L_map f) xs = prefix_map (fun _ x => out_res (apply1 f x)) [] xs /\ done_of (L_map f) xs = [].
Proof. apply (ltimed_prefix (L_map f) (fun _ _ => True) _ (fun _ => [])); auto. Qed.
Theorem filter_spec p xs :
  steps_of (L_filter p) xs
  = prefix_map (fun _ x => match apply1 p x with Ok r => if truthy r then [It x] else [] | Raise e => [IErr e] end) [] xs
  /\ done_of (L_filter p) xs = [].
Proof. apply (ltimed_prefix (L_filter p) (fun _ _ => True) _ (fun _ => [])); auto. Qed.

(* ---------------- scan ---------------- *)
Section Scan.
Variable a : fn2.
Variable g : val -> val -> val.
Hypothesis Hg : forall acc x, apply2 a acc x = Ok (g acc x).
Variable seed : val.
Definition fold (xs : list val) : val := fold_left g xs seed.
Definition st_of (pre : list val) : option val := match pre with [] => None | _ => Some (fold pre) end.
Lemma scan_step reduce term pre x :
  lnext (L_scan a seed TObj reduce term) (st_of pre) (It x)
  = (st_of (pre ++ [x]), if reduce then [] else [It (fold (pre ++ [x]))]).
Proof.
  assert (E : st_of (pre ++ [x]) = Some (fold (pre ++ [x]))) by (destruct pre; reflexivity). rewrite E.
  unfold fold. rewrite fold_left_app. cbn [fold_left].
  destruct pre as [|y r]; cbn [st_of lnext L_scan on_it]; rewrite Hg; cbn [coerce]; reflexivity.
Qed.
Lemma st_cur pre : match st_of pre with Some c => c | None => seed end = fold pre.
Proof. destruct pre; reflexivity. Qed.

Theorem scan_running_spec xs :
  steps_of (L_scan a seed TObj false None) xs = prefix_map (fun pre x => [It (fold (pre ++ [x]))]) [] xs
  /\ done_of (L_scan a seed TObj false None) xs = [].
Proof.
  apply (ltimed_prefix (L_scan a seed TObj false None)
           (fun pre st => st = st_of pre) _ (fun _ => [])).
  - reflexivity.
  - intros pre st x ->. rewrite scan_step. cbn [fst snd]. split; reflexivity.
  - intros ys st _. reflexivity.
Qed.
Theorem scan_reduce_spec xs :
  steps_of (L_scan a seed TObj true None) xs = prefix_map (fun _ _ => []) [] xs
  /\ done_of (L_scan a seed TObj true None) xs = [It (fold xs)].
Proof.
  apply (ltimed_prefix (L_scan a seed TObj true None)
           (fun pre st => st = st_of pre) _ (fun xs => [It (fold xs)])).
  - reflexivity.
  - intros pre st x ->. rewrite scan_step. cbn [fst snd]. split; reflexivity.
  - intros ys st ->. cbn [ldone L_scan app]. now rewrite st_cur.
Qed.
(* a terminator is applied exactly once, at completion, to the final fold (or to the seed) *)
Variable tf : fn.
Variable th : val -> val.
Hypothesis Hth : forall v, apply1 tf v = Ok (th v).
Theorem scan_terminator_spec reduce xs :
  done_of (L_scan a seed TObj reduce (Some tf)) xs = [It (th (fold xs))].
Proof.
  assert (H := ltimed_prefix (L_scan a seed TObj reduce (Some tf))
           (fun pre st => st = st_of pre)
           (fun pre x => if reduce then [] else [It (fold (pre ++ [x]))]) (fun xs => [It (th (fold xs))])).
  apply H; clear H.
  - reflexivity.
  - intros pre st x ->. rewrite scan_step. cbn [fst snd]. split; reflexivity.
  - intros ys st ->. cbn [ldone L_scan]. rewrite st_cur, Hth. cbn [coerce]. destruct reduce; reflexivity.
Qed.
(* the streaming value after the last item equals the reduce value *)
Corollary scan_last_running_is_reduce x xs :
  last (steps_of (L_scan a seed TObj false None) (x :: xs)) [] = done_of (L_scan a seed TObj true None) (x :: xs).
Proof.
  rewrite (proj1 (scan_running_spec (x :: xs))), (proj2 (scan_reduce_spec (x :: xs))).
  assert (Hgen : forall ys pre, ys <> [] -> last (prefix_map (fun pre x => [It (fold (pre ++ [x]))]) pre ys) [] = [It (fold (pre ++ ys))]).
  { induction ys as [|y ys IH]; intros pre Hne; [congruence|].
    destruct ys as [|z ys]; [reflexivity|].
    assert (IH' := IH (pre ++ [y]) ltac:(discriminate)). rewrite <- app_assoc in IH'. cbn [app] in IH'.
    rewrite <- IH'. reflexivity. }
  apply (Hgen (x :: xs) []). discriminate.
Qed.
(* a raising step emits one mux error and leaves the accumulator unchanged (C13) *)
End Scan.

Theorem scan_raise_keeps_state a seed t reduce term st x e : apply2 a (match st with Some c => c | None => seed end) x = Raise e ->
  lnext (L_scan a seed t reduce term) st (It x) = (st, [IErr e]).
Proof. intro H. cbn [lnext L_scan on_it]. rewrite H. reflexivity. Qed.

(* ---------------- distinct ---------------- *)
Section Distinct.
Variable km : fn.
Variable kf : val -> val.
Hypothesis Hk : forall x, apply1 km x = Ok (kf x).
Theorem distinct_spec xs :
  steps_of (L_distinct km) xs
  = prefix_map (fun pre x => if existsb (fun y => py_eq (kf x) (kf y)) pre then [] else [It x]) [] xs
  /\ done_of (L_distinct km) xs = [].
Proof.
  apply (ltimed_prefix (L_distinct km)
           (fun pre seen => forall c, mem_key c seen = existsb (fun y => zs_eqb c (canon (kf y))) pre) _ (fun _ => [])).
  - intro c. reflexivity.
  - intros pre seen x Hinv. cbn [lnext L_distinct on_it]. rewrite Hk.
    rewrite (Hinv (canon (kf x))). unfold py_eq.
    destruct (existsb (fun y => zs_eqb (canon (kf x)) (canon (kf y))) pre) eqn:E; cbn [fst snd]; split; auto.
    + intro c. rewrite existsb_app. cbn [existsb]. rewrite Hinv, orb_false_r.
      destruct (existsb (fun y => zs_eqb c (canon (kf y))) pre) eqn:E2; [reflexivity|]. cbn [orb]. symmetry.
      destruct (zs_eqb c (canon (kf x))) eqn:E3; [|reflexivity]. exfalso.
      assert (Hz : forall p q, zs_eqb p q = true -> p = q).
      { induction p as [|u p IH]; destruct q as [|v q]; cbn; intro H; try discriminate; auto.
        apply andb_prop in H. destruct H as [H1 H2]. apply Z.eqb_eq in H1. subst. f_equal. auto. }
      apply Hz in E3. subst c. congruence.
    + intro c. rewrite existsb_app. cbn [existsb mem_key]. rewrite Hinv, orb_false_r. apply orb_comm.
  - reflexivity.
Qed.
End Distinct.

(* ---------------- lag ---------------- *)
Lemma last_indep {A} (l : list A) a d d' : last (a :: l) d = last (a :: l) d'.
Proof. revert a. induction l as [|b l IH]; intro a; [reflexivity|]. change (last (b :: l) d = last (b :: l) d'). apply IH. Qed.
Lemma last_cons_def {A} (r : list A) y x : last (y :: r) x = last r y.
Proof. destruct r as [|z r]; [reflexivity|]. change (last (z :: r) x = last (z :: r) y). apply last_indep. Qed.
Theorem lag1_spec xs :
  steps_of L_lag1 xs = prefix_map (fun pre x => [It (VTuple [last pre x; x])]) [] xs /\ done_of L_lag1 xs = [].
Proof.
  apply (ltimed_prefix L_lag1 (fun pre st => st = match pre with [] => None | y :: r => Some (last r y) end) _ (fun _ => [])).
  - reflexivity.
  - intros pre st x ->. cbn [lnext L_lag1 on_it fst snd]. split.
    + destruct pre as [|y r]; [reflexivity|]. now rewrite last_cons_def.
    + destruct pre as [|y r]; cbn [app]; [reflexivity|]. f_equal. symmetry. apply last_last.
  - reflexivity.
Qed.
Lemma hd_skipn_nth {A} (d : A) : forall k l, hd d (skipn k l) = nth k l d.
Proof. induction k as [|k IH]; destruct l as [|a l]; cbn; auto. Qed.
Lemma tl_skipn {A} : forall k (l : list A), tl (skipn k l) = skipn (S k) l.
Proof. induction k as [|k IH]; destruct l as [|a l]; cbn [skipn tl]; auto. rewrite IH. reflexivity. Qed.
Lemma skipn_snoc {A} (l : list A) x k : k <= length l -> skipn k (l ++ [x]) = skipn k l ++ [x].
Proof. intro H. rewrite skipn_app. replace (k - length l) with 0 by lia. reflexivity. Qed.
(* lag(n), n <> 1: the item n steps back, or the first item of the key while fewer than n precede *)
Theorem lagn_spec n xs :
  steps_of (L_lagn n) xs
  = prefix_map (fun pre x => [It (VTuple [nth (length pre - n) (pre ++ [x]) x; x])]) [] xs /\ done_of (L_lagn n) xs = [].
Proof.
  apply (ltimed_prefix (L_lagn n) (fun pre q => q = skipn (length pre - n) pre) _ (fun _ => [])).
  - reflexivity.
  - intros pre q x ->. cbn [lnext L_lagn on_it fst snd].
    set (k := length pre - n). assert (Hk : k <= length pre) by (unfold k; lia).
    assert (Hlen : length (skipn k pre ++ [x]) = length pre - k + 1) by (rewrite app_length, skipn_length; cbn; lia).
    split.
    + do 4 f_equal. rewrite <- skipn_snoc by lia. apply hd_skipn_nth.
    + rewrite Hlen, app_length. cbn [length].
      destruct (Nat.ltb n (length pre - k + 1)) eqn:E.
      * apply Nat.ltb_lt in E. assert (Hn : n <= length pre) by (unfold k in *; lia).
        replace (length pre + 1 - n) with (S k) by (unfold k; lia).
        rewrite <- skipn_snoc by lia. apply tl_skipn.
      * apply Nat.ltb_ge in E. replace (length pre + 1 - n) with k by (unfold k in *; lia).
        symmetry. apply skipn_snoc. lia.
  - reflexivity.
Qed.

(* ---------------- padding ---------------- *)
Definition padv (pv x : val) : val := match pv with VNone => x | _ => pv end.
Theorem pad_start_spec n pv xs :
  steps_of (L_pad_start n pv) xs
  = prefix_map (fun pre x => match pre with [] => repeat (It (padv pv x)) n ++ [It x] | _ => [It x] end) [] xs
  /\ done_of (L_pad_start n pv) xs = [].
Proof.
  apply (ltimed_prefix (L_pad_start n pv) (fun pre b => b = negb (Nat.eqb (length pre) 0)) _ (fun _ => [])).
  - reflexivity.
  - intros pre b x ->. cbn [lnext L_pad_start on_it]. rewrite app_length. cbn [length].
    destruct pre as [|y r]; cbn [length Nat.eqb negb fst snd]; (split; [reflexivity|]).
    + reflexivity.
    + replace (S (length r) + 1) with (S (S (length r))) by lia. reflexivity.
  - reflexivity.
Qed.
Theorem pad_end_spec n pv xs :
  steps_of (L_pad_end n pv) xs = prefix_map (fun _ x => [It x]) [] xs
  /\ done_of (L_pad_end n pv) xs = match xs with [] => [] | x :: r => repeat (It (padv pv (last r x))) n end.
Proof.
  apply (ltimed_prefix (L_pad_end n pv) (fun pre st => st = match pre with [] => None | x :: r => Some (last r x) end) _
          (fun xs => match xs with [] => [] | x :: r => repeat (It (padv pv (last r x))) n end)).
  - reflexivity.
  - intros pre st x ->. cbn [lnext L_pad_end on_it fst snd]. split; auto.
    destruct pre as [|y r]; cbn [app]; [reflexivity|]. f_equal. symmetry. apply last_last.
  - intros ys st ->. destruct ys; reflexivity.
Qed.
Theorem start_with_spec l xs :
  steps_of (L_start_with l) xs
  = prefix_map (fun pre x => match pre with [] => map It l ++ [It x] | _ => [It x] end) [] xs
  /\ done_of (L_start_with l) xs = [].
Proof.
  apply (ltimed_prefix (L_start_with l) (fun pre b => b = negb (Nat.eqb (length pre) 0)) _ (fun _ => [])).
  - reflexivity.
  - intros pre b x ->. cbn [lnext L_start_with on_it]. rewrite app_length. cbn [length].
    destruct pre as [|y r]; cbn [length Nat.eqb negb fst snd]; (split; [reflexivity|]).
    + reflexivity.
    + replace (S (length r) + 1) with (S (S (length r))) by lia. reflexivity.
  - reflexivity.
Qed.

(* ---------------- items_of corollaries: the plain list functions (C10, C01) ---------------- *)
Lemma concat_prefix_map_take n : forall xs pre,
  concat (prefix_map (fun pre x => if (Z.of_nat (length pre) <? n)%Z then [It x] else []) pre xs)
  = its (firstn (Z.to_nat (n - Z.of_nat (length pre))) xs).
Proof.
  induction xs as [|x xs IH]; intro pre; cbn [prefix_map concat]; [now rewrite firstn_nil|].
  rewrite IH, app_length. cbn [length].
  destruct (Z.of_nat (length pre) <? n)%Z eqn:E.
  - apply Z.ltb_lt in E. replace (Z.to_nat (n - Z.of_nat (length pre))) with (S (Z.to_nat (n - Z.of_nat (length pre + 1)))) by lia.
    reflexivity.
  - apply Z.ltb_ge in E. replace (Z.to_nat (n - Z.of_nat (length pre))) with 0 by lia.
    replace (Z.to_nat (n - Z.of_nat (length pre + 1))) with 0 by lia. reflexivity.
Qed.
Theorem take_items n xs : items_of item (L_take n) (its xs) = its (firstn (Z.to_nat n) xs).
Proof.
  unfold items_of. destruct (take_spec n xs) as [E1 E2]. unfold steps_of, done_of in *.
  destruct (ltimed item (L_take n) (its xs)) as [os d]. cbn [fst snd] in *. subst.
  rewrite app_nil_r, concat_prefix_map_take. cbn [length]. now rewrite Z.sub_0_r.
Qed.
Theorem first_items xs : items_of item L_first (its xs) = its (firstn 1 xs).
Proof.
  unfold items_of. destruct (first_spec xs) as [E1 E2]. unfold steps_of, done_of in *.
  destruct (ltimed item L_first (its xs)) as [os d]. cbn [fst snd] in *. subst. rewrite app_nil_r.
  destruct xs as [|x xs]; [reflexivity|]. cbn [prefix_map concat firstn its map app]. f_equal.
  assert (H : forall ys pre, pre <> [] -> concat (prefix_map (fun pre x => match pre with [] => [It x] | _ => [] end) pre ys) = []).
  { induction ys as [|y ys IH]; intros pre Hne; [reflexivity|]. cbn [prefix_map concat]. destruct pre; [congruence|].
    cbn [app]. apply IH. destruct pre; discriminate. }
  apply H. discriminate.
Qed.
Theorem last_items xs : items_of item L_last (its xs) = match xs with [] => [] | x :: r => [It (last r x)] end.
Proof.
  unfold items_of. destruct (last_spec xs) as [E1 E2]. unfold steps_of, done_of in *.
  destruct (ltimed item L_last (its xs)) as [os d]. cbn [fst snd] in *. subst.
  assert (H : forall ys pre, concat (prefix_map (fun (_ : list val) (_ : val) => @nil item) pre ys) = []).
  { induction ys; intro pre; cbn; auto. }
  now rewrite H.
Qed.
