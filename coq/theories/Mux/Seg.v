(* A generic head that keeps at most ONE open inner lifetime per key, on the inner key
   (slot k :: k): _roll_count (window = stride), split and time_split are instances.
   seg_refines: over an arbitrary refined inner machine, the array-based head refines the
   per-key local machine seg_l. *)
From Coq Require Import List Arith Lia Bool.
From RxVerif Require Import Mux.Sim Mux.SimExt.
Import ListNotations.

Section Seg.
Variable V : Type.
Notation ev := (ev V).
Notation machine := (machine V).
Notation lmachine := (lmachine V).

Variable Sg : Type.                          (* per-key head state *)
Variable sg0 : Sg.
Inductive act := AOpen | AItem (x : V) | AClose.
Variable sg_next : Sg -> V -> Sg * list act.
Variable sg_open : Sg -> bool.               (* is a segment open *)

Fixpoint acts_ok (o : bool) (l : list act) : option bool :=
  match l with
  | [] => Some o
  | AOpen :: l' => if o then None else acts_ok true l'
  | AItem _ :: l' => if o then acts_ok true l' else None
  | AClose :: l' => if o then acts_ok false l' else None
  end.

Definition ik (k : key) : key := slot k :: k.
Definition ev_of (k : key) (a : act) : ev :=
  match a with AOpen => Create (ik k) | AItem x => Next (ik k) x | AClose => Done (ik k) end.

Definition seg_m (I : machine) : machine :=
  {| St := list Sg * St I; init := ([], init I);
     step := fun st e =>
       let '(slots, si) := st in
       match e with
       | Create k => ((set_nth (slot k) sg0 sg0 slots, si), [Create k])
       | Next k x =>
           let '(s', acts) := sg_next (nth (slot k) slots sg0) x in
           let '(si', o) := feed I si (map (ev_of k) acts) in
           ((set_nth (slot k) s' sg0 slots, si'), demux o)
       | Done k =>
           let '(si', o) := feed I si (if sg_open (nth (slot k) slots sg0) then [Done (ik k)] else []) in
           ((slots, si'), demux o ++ [Done k])
       end |}.

Definition lact (LI : lmachine) (st : option (LS LI)) (a : act) : option (LS LI) * list V :=
  match a with
  | AOpen => (Some (l0 LI), [])
  | AItem x => match st with Some s0 => let '(s', o) := lnext LI s0 x in (Some s', o) | None => (None, []) end
  | AClose => match st with Some s0 => (None, ldone LI s0) | None => (None, []) end
  end.
Fixpoint lacts (LI : lmachine) (st : option (LS LI)) (l : list act) : option (LS LI) * list V :=
  match l with
  | [] => (st, [])
  | a :: l' => let '(st1, o1) := lact LI st a in let '(st2, o2) := lacts LI st1 l' in (st2, o1 ++ o2)
  end.
Definition seg_l (LI : lmachine) : lmachine :=
  {| LS := Sg * option (LS LI); l0 := (sg0, None);
     lnext := fun st x =>
       let '(s', acts) := sg_next (fst st) x in
       let '(inner', o) := lacts LI (snd st) acts in ((s', inner'), o);
     ldone := fun st => match snd st with Some s0 => ldone LI s0 | None => [] end |}.

Section Proof.
Hypothesis sg0_closed : sg_open sg0 = false.
Hypothesis sg_ok : forall s x, acts_ok (sg_open s) (snd (sg_next s x)) = Some (sg_open (fst (sg_next s x))).
Variable I : machine.
Variable LI : lmachine.
Variable HI : refines I LI.

Lemma ik_inj k k' : ik k = ik k' -> k = k'.
Proof. unfold ik. intro E. inversion E; auto. Qed.

Lemma krun1_lacts k : forall acts st,
  fst (krun1 V LI st (map (ev_of k) acts)) = fst (lacts LI st acts) /\
  demux (snd (krun1 V LI st (map (ev_of k) acts))) = map (Next k) (snd (lacts LI st acts)).
Proof.
  induction acts as [|a acts IH]; intro st; [split; reflexivity|].
  cbn [map krun1 lacts].
  assert (H1 : fst (kstep1 V LI st (ev_of k a)) = fst (lact LI st a) /\
               demux (snd (kstep1 V LI st (ev_of k a))) = map (Next k) (snd (lact LI st a))).
  { destruct a as [|x|]; cbn [ev_of kstep1 lact].
    - split; reflexivity.
    - destruct st as [s0|]; [|split; reflexivity]. destruct (lnext LI s0 x) as [s' o]. cbn [fst snd].
      split; auto. unfold ik. apply demux_map_next.
    - destruct st as [s0|]; cbn [fst snd]; [|split; reflexivity]. split; auto.
      rewrite demux_app. unfold ik. rewrite demux_map_next. cbn. now rewrite app_nil_r. }
  destruct H1 as [A B]. destruct (kstep1 V LI st (ev_of k a)) as [st1 o1]. destruct (lact LI st a) as [st1' o1'].
  cbn [fst snd] in A, B. subst st1'. destruct (IH st1) as [C D].
  destruct (krun1 V LI st1 (map (ev_of k) acts)) as [st2 o2]. destruct (lacts LI st1 acts) as [st2' o2'].
  cbn [fst snd] in *. subst. split; auto. now rewrite demux_app, B, D, map_app.
Qed.

Lemma acts_allowed k : forall acts o o' il,
  (In (ik k) il <-> o = true) -> (forall j, In j il -> j <> ik k -> slot j <> slot (ik k)) ->
  acts_ok o acts = Some o' ->
  allowed_seq il (map (ev_of k) acts) /\
  (In (ik k) (after_seq il (map (ev_of k) acts)) <-> o' = true) /\
  (forall j, j <> ik k -> (In j (after_seq il (map (ev_of k) acts)) <-> In j il)).
Proof.
  induction acts as [|a acts IH]; intros o o' il Ho Hs Hok; cbn [acts_ok map allowed_seq after_seq] in *.
  - inversion Hok; subst. repeat split; auto; try apply Ho; tauto.
  - destruct a as [|x|]; destruct o; try discriminate; cbn [ev_of allowed after].
    + (* open *) assert (Hn : ~ In (ik k) il) by (intro Hi; apply Ho in Hi; discriminate).
      destruct (IH true o' (ik k :: il)) as (A & B & C); auto.
      { split; auto. intros _. now left. }
      { intros j [<-|Hj] Hne; [congruence|auto]. }
      split; [split; auto|].
      { intros j Hj. apply Hs; auto. intro; subst; auto. }
      split; auto. intros j Hne. rewrite (C j Hne). split; [intros [E|Hi]; [congruence|auto] | intro; now right].
    + (* item *) assert (Hi : In (ik k) il) by (apply Ho; auto).
      destruct (IH true o' il) as (A & B & C); auto.
    + (* close *) assert (Hi : In (ik k) il) by (apply Ho; auto).
      destruct (IH false o' (remove keq (ik k) il)) as (A & B & C); auto.
      { rewrite in_remove_iff. split; [intros [_ ?]; congruence | discriminate]. }
      { intros j Hj Hne. apply in_remove_iff in Hj. apply Hs; tauto. }
      split; [split; auto|]. split; auto.
      intros j Hne. rewrite (C j Hne), in_remove_iff. tauto.
Qed.

Definition inner_live (live : list key) (slots : list Sg) (j : key) : Prop :=
  exists k, In k live /\ sg_open (nth (slot k) slots sg0) = true /\ j = ik k.

Definition RS (live : list key) (st : St (seg_m I)) (mC : kmap (seg_l LI)) : Prop :=
  exists ilive mI,
    R HI ilive (snd st) mI /\ good ilive /\
    (forall j, In j ilive <-> inner_live live (fst st) j) /\
    (forall k, mC k = if in_dec keq k live then Some (nth (slot k) (fst st) sg0, mI (ik k)) else None).

Lemma RS_live live st mC k : RS live st mC -> (mC k <> None <-> In k live).
Proof.
  intros (ilive & mI & _ & _ & _ & Hm). rewrite Hm.
  destruct (in_dec keq k live); split; intros; auto; try discriminate; congruence.
Qed.

Lemma RS_step live st mC e : good live -> RS live st mC -> allowed live e ->
  snd (step (seg_m I) st e) = snd (kstep (seg_l LI) mC e) /\
  RS (after live e) (fst (step (seg_m I) st e)) (fst (kstep (seg_l LI) mC e)).
Proof.
  destruct st as [slots si]. intros Hg (ilive & mI & HR & Hgi & Hik & Hm) Ha. cbn [fst snd] in *.
  destruct e as [k|k x|k]; cbn [allowed after] in Ha |- *.
  - (* Create *)
    cbn [step seg_m kstep fst snd]. split; [reflexivity|].
    assert (Hnin : ~ In k live) by (intro Hi; apply (Ha k Hi); auto).
    assert (Hoth : forall k', In k' live -> nth (slot k') (set_nth (slot k) sg0 sg0 slots) sg0 = nth (slot k') slots sg0).
    { intros k' Hi. apply nth_set_nth_other. intro E. apply (Ha k' Hi); auto. }
    exists ilive, mI. cbn [fst snd]. refine (conj HR (conj Hgi (conj _ _))).
    + intro j. rewrite Hik. split.
      * intros (k0 & H1 & H2 & H3). exists k0. repeat split; auto. now right. rewrite Hoth; auto.
      * intros (k0 & [<-|H1] & H2 & H3).
        rewrite nth_set_nth_same, sg0_closed in H2. discriminate.
        exists k0. rewrite Hoth in H2; auto.
    + intro k0. destruct (keq k0 k) as [->|Hne].
      * rewrite upd_same. destruct in_dec as [_|n]; [|exfalso; apply n; now left].
        rewrite nth_set_nth_same. cbn [l0 seg_l]. f_equal. f_equal.
        destruct (mI (ik k)) eqn:E; auto. exfalso.
        assert (Hi : In (ik k) ilive) by (apply (R_live HI ilive si mI (ik k) HR); congruence).
        apply Hik in Hi. destruct Hi as (k0 & H1 & _ & H3). apply ik_inj in H3. subst. auto.
      * rewrite upd_other by auto. rewrite Hm.
        destruct (in_dec keq k0 live), (in_dec keq k0 (k :: live)); auto.
        rewrite Hoth; auto. exfalso; apply n; now right. destruct i; congruence.
  - (* Next *)
    cbn [step seg_m kstep].
    set (s := nth (slot k) slots sg0). specialize (sg_ok s x).
    destruct (sg_next s x) as [s' acts] eqn:Esg. cbn [fst snd] in sg_ok.
    assert (HmC : mC k = Some (s, mI (ik k))) by (rewrite Hm; destruct in_dec; [reflexivity|contradiction]).
    rewrite HmC. cbn [lnext seg_l fst snd]. fold s. rewrite Esg.
    assert (Hopen : In (ik k) ilive <-> sg_open s = true).
    { rewrite Hik. split. intros (k0 & H1 & H2 & H3). apply ik_inj in H3. subst k0. exact H2.
      intro. exists k. auto. }
    assert (Hslots : forall j, In j ilive -> j <> ik k -> slot j <> slot (ik k)).
    { intros j Hj Hne E. apply Hik in Hj. destruct Hj as (k0 & H1 & _ & ->). apply Hne. f_equal.
      apply (proj2 Hg); auto. }
    destruct (acts_allowed k acts (sg_open s) (sg_open s') ilive Hopen Hslots sg_ok) as (Hal & Haft1 & Haft2).
    destruct (feed_refines V I LI HI (map (ev_of k) acts) ilive si mI Hgi HR Hal) as [Ho HR'].
    pose proof (good_after_seq V _ _ Hgi Hal) as Hgi'.
    assert (Hall : Forall (fun e => ekey V e = ik k) (map (ev_of k) acts)).
    { apply Forall_forall. intros e He. apply in_map_iff in He. destruct He as (a & <- & _). destruct a; reflexivity. }
    destruct (kfeed_batch V LI (ik k) (map (ev_of k) acts) mI Hall) as (B1 & B2 & B3).
    destruct (krun1_lacts k acts (mI (ik k))) as [K1 K2].
    destruct (feed I si (map (ev_of k) acts)) as [si' o]. destruct (kfeed LI mI (map (ev_of k) acts)) as [mI' o'].
    cbn [fst snd] in *. subst o'.
    destruct (lacts LI (mI (ik k)) acts) as [inner' lo]. cbn [fst snd] in *.
    split. { rewrite B1. exact K2. }
    assert (Hoth : forall k', In k' live -> k' <> k -> nth (slot k') (set_nth (slot k) s' sg0 slots) sg0 = nth (slot k') slots sg0).
    { intros k' Hi Hne. apply nth_set_nth_other. intro E. apply Hne. symmetry. apply (proj2 Hg); auto. }
    exists (after_seq ilive (map (ev_of k) acts)), mI'. cbn [fst snd]. refine (conj HR' (conj Hgi' (conj _ _))).
    + intro j. destruct (keq j (ik k)) as [->|Hne].
      * rewrite Haft1. split.
        intro Hs'. exists k. repeat split; auto. now rewrite nth_set_nth_same.
        intros (k0 & H1 & H2 & H3). apply ik_inj in H3. subst k0. now rewrite nth_set_nth_same in H2.
      * rewrite (Haft2 j Hne), Hik. split; intros (k0 & H1 & H2 & H3); exists k0.
        rewrite Hoth; auto. intro; subst; auto.
        rewrite Hoth in H2; auto. intro; subst; auto.
    + intro k0. destruct (keq k0 k) as [->|Hne].
      * rewrite upd_same. destruct in_dec; [|contradiction]. rewrite nth_set_nth_same. f_equal. f_equal.
        rewrite B2. symmetry. exact K1.
      * rewrite upd_other by auto. rewrite Hm. destruct in_dec; auto.
        rewrite Hoth by auto. rewrite B3; auto. intro E. apply ik_inj in E. auto.
  - (* Done *)
    cbn [step seg_m kstep].
    set (s := nth (slot k) slots sg0).
    assert (HmC : mC k = Some (s, mI (ik k))) by (rewrite Hm; destruct in_dec; [reflexivity|contradiction]).
    rewrite HmC. cbn [ldone seg_l fst snd].
    assert (Hopen : In (ik k) ilive <-> sg_open s = true).
    { rewrite Hik. split. intros (k0 & H1 & H2 & H3). apply ik_inj in H3. subst k0. exact H2.
      intro. exists k. auto. }
    assert (Hrem : forall k0, In k0 (remove keq k live) <-> In k0 live /\ k0 <> k) by (intro; apply in_remove_iff).
    destruct (sg_open s) eqn:Eo.
    + assert (Hi : In (ik k) ilive) by (apply Hopen; auto).
      assert (Hal : allowed ilive (@Done V (ik k))) by exact Hi.
      destruct (R_step HI ilive si mI (Done (ik k)) Hgi HR Hal) as [Ho HR'].
      pose proof (good_after V _ _ Hgi Hal) as Hgi'.
      cbn [feed]. cbn [kstep after] in Ho, HR', Hgi'.
      destruct (mI (ik k)) as [s0|] eqn:Es0.
      2:{ exfalso. apply (R_live HI ilive si mI (ik k) HR) in Hi. auto. }
      destruct (step I si (Done (ik k))) as [si' o]. cbn [fst snd] in *. subst o.
      split. { rewrite app_nil_r, demux_app. unfold ik. rewrite demux_map_next. cbn. now rewrite app_nil_r. }
      exists (remove keq (ik k) ilive), (upd mI (ik k) None). cbn [fst snd]. refine (conj HR' (conj Hgi' (conj _ _))).
      * intro j. rewrite in_remove_iff, Hik. split.
        intros [(k0 & H1 & H2 & H3) Hne]. exists k0. repeat split; auto. apply Hrem. split; auto. intro; subst; auto.
        intros (k0 & H1 & H2 & H3). apply Hrem in H1. split. exists k0; tauto. subst. intro E. apply ik_inj in E. tauto.
      * intro k0. destruct (keq k0 k) as [->|Hne].
        rewrite upd_same. destruct in_dec as [i|]; auto. apply Hrem in i. tauto.
        rewrite upd_other by auto. rewrite Hm.
        destruct (in_dec keq k0 live), (in_dec keq k0 (remove keq k live)); auto.
        rewrite upd_other; auto. intro E. apply ik_inj in E. auto.
        exfalso. apply n. apply Hrem; auto. apply Hrem in i. tauto.
    + cbn [feed].
      assert (Hn : mI (ik k) = None).
      { destruct (mI (ik k)) eqn:E; auto. exfalso.
        assert (Hi : In (ik k) ilive) by (apply (R_live HI ilive si mI (ik k) HR); congruence).
        apply Hopen in Hi. discriminate. }
      rewrite Hn. cbn [fst snd]. split; [reflexivity|].
      exists ilive, mI. cbn [fst snd]. refine (conj HR (conj Hgi (conj _ _))).
      * intro j. rewrite Hik. split.
        intros (k0 & H1 & H2 & H3). exists k0. repeat split; auto. apply Hrem. split; auto. intro; subst k0. fold s in H2. congruence.
        intros (k0 & H1 & H2 & H3). apply Hrem in H1. exists k0. tauto.
      * intro k0. destruct (keq k0 k) as [->|Hne].
        rewrite upd_same. destruct in_dec as [i|]; auto. apply Hrem in i. tauto.
        rewrite upd_other by auto. rewrite Hm.
        destruct (in_dec keq k0 live), (in_dec keq k0 (remove keq k live)); auto.
        exfalso. apply n. apply Hrem; auto. apply Hrem in i. tauto.
Qed.

Theorem seg_refines : refines (seg_m I) (seg_l LI).
Proof.
  refine (@Build_refines V (seg_m I) (seg_l LI) RS _ RS_step RS_live).
  exists [], (fun _ => None). cbn [fst snd init seg_m]. refine (conj (R_init HI) (conj _ (conj _ _))).
  - split. constructor. intros ? ? [].
  - intro j. split; [intros [] | intros (k & [] & _)].
  - intro k. reflexivity.
Qed.
End Proof.
End Seg.
