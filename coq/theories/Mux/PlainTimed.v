(* Timed list semantics of a pipeline on a PLAIN observable, tee_map included.
   ptimed_pipe P xs = Some (steps, fin): while the i-th source item is pushed the subscriber receives
   nth i steps, and fin when the source completes.  None: the plain run ends with on_error, or the
   pipeline is outside this fragment (take / first complete a plain observable early and are left to
   Plain.plain_pipe; mux-only operators).  Pure list functions: no machine, no key, no store.
   tee_map on a plain source (tee_map.py, subscribe): the branches are subscribed in order to the
   published source, so for every source event the outputs of branch 0 reach the join first, then
   those of branch 1, ...; the join is zip / combine_latest / merge over n cells. *)
From Coq Require Import List ZArith Bool Arith.
From RxVerif Require Import Mux.Val Mux.Sim Mux.SimExt Mux.Ops Mux.Syntax Mux.Plain.
Import ListNotations.

Definition timed := (list (list val) * list val)%type.

Fixpoint steps_res (h : val -> option (list val)) (xs : list val) : option (list (list val)) :=
  match xs with
  | [] => Some []
  | x :: r => match h x with
              | Some o => match steps_res h r with Some os => Some (o :: os) | None => None end
              | None => None
              end
  end.
Definition silent (xs : list val) : list (list val) := map (fun _ => []) xs.
Definition singles (ys : list val) : list (list val) := map (fun y => [y]) ys.

(* regroup ns os: consecutive groups of os, of sizes ns, each concatenated *)
Fixpoint regroup {A} (ns : list nat) (os : list (list A)) : list (list A) :=
  match ns with [] => [] | n :: ns' => concat (firstn n os) :: regroup ns' (skipn n os) end.

(* the join of the plain tee_map *)
Definition ptuple (c : list (option val)) : val := VTuple (map (fun o => match o with Some v => v | None => VNone end) c).
Definition all_set (c : list (option val)) : bool := forallb (fun o => match o with Some _ => true | None => false end) c.
Definition pjoin_next (mode : jmode) (i : nat) (v : val) (c : list (option val)) : list (option val) * list val :=
  match mode with
  | Merge => (c, [v])
  | Zip => let c1 := set_nth i (Some v) None c in if all_set c1 then (map (fun _ => None) c1, [ptuple c1]) else (c1, [])
  | Combine => let c1 := set_nth i (Some v) None c in (c1, [ptuple c1])
  end.
Fixpoint pjoin_branch (mode : jmode) (i : nat) (o : list val) (c : list (option val)) : list (option val) * list val :=
  match o with
  | [] => (c, [])
  | v :: o' => let '(c1, e1) := pjoin_next mode i v c in let '(c2, e2) := pjoin_branch mode i o' c1 in (c2, e1 ++ e2)
  end.
Fixpoint pjoin_all (mode : jmode) (i : nat) (outs : list (list val)) (c : list (option val)) : list (option val) * list val :=
  match outs with
  | [] => (c, [])
  | o :: outs' => let '(c1, e1) := pjoin_branch mode i o c in let '(c2, e2) := pjoin_all mode (S i) outs' c1 in (c2, e1 ++ e2)
  end.
(* per source item: the outputs of every branch, in branch order *)
Fixpoint pjoin_steps (mode : jmode) (outs : list (list (list val))) (c : list (option val)) : list (list val) * list (option val) :=
  match outs with
  | [] => ([], c)
  | o :: outs' => let '(c1, em) := pjoin_all mode 0 o c in let '(ems, c2) := pjoin_steps mode outs' c1 in (em :: ems, c2)
  end.
Fixpoint map2 {A B C} (f : A -> B -> C) (l1 : list A) (l2 : list B) : list C :=
  match l1, l2 with a :: l1', b :: l2' => f a b :: map2 f l1' l2' | _, _ => [] end.
(* [per branch [per item outs]]  ->  [per item [per branch outs]] *)
Fixpoint by_item (xs : list val) (bts : list (list (list val))) : list (list (list val)) :=
  match bts with [] => map (fun _ => []) xs | os :: r => map2 cons os (by_item xs r) end.

(* the join over time of the branch results (per branch: per item outputs, completion outputs) *)
Definition tee_join (mode : jmode) (xs : list val) (rs : list timed) : timed :=
  let '(steps, c) := pjoin_steps mode (by_item xs (map fst rs)) (map (fun _ => None) rs) in
  (steps, snd (pjoin_all mode 0 (map snd rs) c)).

Fixpoint take_steps (k : Z) (xs : list val) : list (list val) :=
  match xs with [] => [] | x :: r => (if (0 <? k)%Z then [x] else []) :: take_steps (k - 1) r end.

Definition ptimed_simple (o : op) (xs : list val) : option timed :=
  match o with
  | OMap f => option_map (fun os => (os, []))
                (steps_res (fun x => match apply1 f x with Ok y => Some [y] | Raise _ => None end) xs)
  | OFilter p => option_map (fun os => (os, []))
                (steps_res (fun x => match apply1 p x with Ok b => Some (if truthy b then [x] else []) | Raise _ => None end) xs)
  | OFlatMap => option_map (fun os => (os, []))
                (steps_res (fun x => match x with VList l | VTuple l => Some l | _ => None end) xs)
  | OAssert p => if all_true (apply1 p) xs then Some (singles xs, []) else None
  | OAssert1 a => if pairs_ok (apply2 a) xs then Some (singles xs, []) else None
  | OLast => match xs with [] => None | x :: r => Some (silent xs, [last r x]) end
  | OTake n => Some (take_steps n xs, [])
  | OFirst => match xs with [] => None | _ :: _ => Some (take_steps 1 xs, []) end
  | OScan a seed t reduce term =>
      match scan_res a t seed xs with
      | None => None
      | Some (ys, fin) =>
          let steps := if reduce then silent xs else singles ys in
          match term with
          | None => Some (steps, if reduce then [fin] else [])
          | Some f => match apply1 f fin with
                      | Ok v => if fits t v then Some (steps, [v]) else None
                      | Raise _ => None end
          end
      end
  | _ => None
  end.

Definition seq_timed (xs : list val) (a : timed) (rest : list val -> option timed) : option timed :=
  let '(os1, fin1) := a in
  match rest (concat os1 ++ fin1) with
  | None => None
  | Some (os2, fin2) => Some (regroup (map (@length val) os1) os2, concat (skipn (length (concat os1)) os2) ++ fin2)
  end.

Fixpoint ptimed_op (o : op) (xs : list val) : option timed :=
  let ptimed_pipe := fix pp (p : list op) (xs : list val) : option timed :=
    match p with
    | [] => Some (singles xs, [])
    | o' :: p' => match ptimed_op o' xs with None => None | Some a => seq_timed xs a (pp p') end
    end in
  match o with
  | OTee mode bs =>
      match bs with
      | [] => Some (singles xs, [])
      | _ :: _ =>
        let fix branches (bs : list (list op)) : option (list timed) :=
          match bs with
          | [] => Some []
          | p :: bs' => match ptimed_pipe p xs, branches bs' with
                        | Some r, Some rs => Some (r :: rs)
                        | _, _ => None end
          end in
        match branches bs with
        | None => None
        | Some rs => Some (tee_join mode xs rs)
        end
      end
  | _ => ptimed_simple o xs
  end.
Fixpoint ptimed_pipe (p : list op) (xs : list val) : option timed :=
  match p with
  | [] => Some (singles xs, [])
  | o :: p' => match ptimed_op o xs with None => None | Some a => seq_timed xs a (ptimed_pipe p') end
  end.
Definition pbranches (bs : list (list op)) (xs : list val) : option (list timed) :=
  (fix branches (bs : list (list op)) : option (list timed) :=
     match bs with
     | [] => Some []
     | p :: bs' => match ptimed_pipe p xs, branches bs' with Some r, Some rs => Some (r :: rs) | _, _ => None end
     end) bs.

(* the fragment on which the non-completing view of take / first is the plain behaviour: no operator
   with completion output downstream of an early-completing one (looking into and out of tee branches) *)
Definition completion_op (o : op) : bool :=
  match o with
  | OLast => true
  | OScan _ _ _ reduce term => reduce || match term with Some _ => true | None => false end
  | _ => false
  end.
Fixpoint tsafe_op (e : bool) (o : op) : bool * bool :=
  let tsafe_pipe := fix sp (e : bool) (p : list op) : bool * bool :=
    match p with
    | [] => (true, e)
    | o' :: p' => let '(ok, e1) := tsafe_op e o' in if ok then sp e1 p' else (false, e1)
    end in
  match o with
  | OTake _ | OFirst => (true, true)
  | OTee _ bs =>
      (fix sb (bs : list (list op)) : bool * bool :=
         match bs with
         | [] => (true, e)
         | p :: bs' => let '(ok1, e1) := tsafe_pipe e p in let '(ok2, e2) := sb bs' in (ok1 && ok2, e1 || e2)
         end) bs
  | _ => (negb (e && completion_op o), e)
  end.
Fixpoint tsafe_pipe (e : bool) (p : list op) : bool * bool :=
  match p with
  | [] => (true, e)
  | o :: p' => let '(ok, e1) := tsafe_op e o in if ok then tsafe_pipe e1 p' else (false, e1)
  end.
Definition tsafe (p : list op) : bool := fst (tsafe_pipe false p).
