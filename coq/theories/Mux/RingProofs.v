From Coq Require Import List Arith Lia Bool.
From RxVerif Require Import Mux.Sim Mux.SimExt Mux.LocalSemProofs.
Import ListNotations.

Section Win.
Variables w s d : nat.
Hypothesis Hs : 1 <= s.
Hypothesis Hw : 1 <= w.
Hypothesis Hd : w <= d * s.
Hypothesis Hd1 : 1 <= d.

(* the ring of window-start cells of ONE key, as a function offset -> option start *)
Definition cells := nat -> option nat.
Definition closes (n st : nat) : bool := n - st + 1 =? w.

(* one item: n = number of items seen before this one *)
Definition open_step (n : nat) (c : cells) : cells :=
  if n mod s =? 0 then (fun o => if o =? (n / s) mod d then Some n else c o) else c.
Definition close_step (n : nat) (c : cells) : cells :=
  fun o => match c o with Some st => if closes n st then None else Some st | None => None end.
Definition item_step (n : nat) (c : cells) : cells := close_step n (open_step n c).

Fixpoint after (n : nat) : cells :=        (* state after n items *)
  match n with 0 => fun _ => None | S n' => item_step n' (after n') end.

(* exact characterisation: cell o holds st  <->  st is the start of the window with ordinal j = st/s,
   j mod d = o, already opened (st < n) and not yet full (n < st + w) *)
Definition is_open (n o st : nat) : Prop := exists j, st = j * s /\ j mod d = o /\ st < n /\ n < st + w.

Lemma ring_slot_free q j : j < q -> q * s < j * s + w -> j mod d <> q mod d.
Proof.
  intros Hjq Hopen.
  assert (Hlt : q - j < d) by nia.
  assert (Hd0 : d <> 0) by lia.
  intro E.
  pose proof (Nat.div_mod j d Hd0). pose proof (Nat.div_mod q d Hd0).
  pose proof (Nat.mod_upper_bound j d Hd0).
  rewrite E in *. remember (j / d) as a. remember (q / d) as b. remember (q mod d) as r.
  assert (a < b) by nia. assert (d * (b - a) = q - j) by nia. assert (1 <= b - a) by lia. nia.
Qed.

Lemma mult_div n : n mod s = 0 -> n = (n / s) * s.
Proof. intro H. pose proof (Nat.div_mod n s ltac:(lia)). lia. Qed.
Lemma mul_div_cancel j : (j * s) / s = j.
Proof. apply Nat.div_mul. lia. Qed.
Lemma mul_mod_zero j : (j * s) mod s = 0.
Proof. apply Nat.mod_mul. lia. Qed.

Theorem after_exact : forall n o st, o < d -> (after n o = Some st <-> is_open n o st).
Proof.
  induction n as [|n IH]; intros o st Ho.
  - simpl. split; [discriminate|]. intros (j & _ & _ & H & _). lia.
  - cbn [after]. unfold item_step, close_step, open_step.
    destruct (n mod s =? 0) eqn:Eop.
    + apply Nat.eqb_eq in Eop. pose proof (mult_div n Eop) as Hn. set (q := n / s) in *.
      destruct (o =? q mod d) eqn:Eo.
      * (* the cell claimed by the new window *)
        apply Nat.eqb_eq in Eo. unfold closes. replace (n - n + 1) with 1 by lia.
        destruct (1 =? w) eqn:E1.
        -- apply Nat.eqb_eq in E1. split; [discriminate|]. intros (j & J1 & J2 & J3 & J4).
           (* w = 1: nothing can be open after item n *) exfalso.
           assert (j * s <= n) by lia. assert (n < j * s + 1) by lia. assert (j = q) by nia. subst j. lia.
        -- apply Nat.eqb_neq in E1. split.
           ++ intro E. inversion E; subst st. exists q. repeat split; auto; lia.
           ++ intros (j & J1 & J2 & J3 & J4). f_equal.
              (* any open window in this cell must be the new one *)
              destruct (Nat.eq_dec j q) as [->|Hne]; [lia|]. exfalso.
              assert (j < q) by nia.
              apply (ring_slot_free q j); auto; try nia; try congruence.
      * (* another cell: unchanged by the opening *)
        apply Nat.eqb_neq in Eo.
        destruct (after n o) as [st'|] eqn:Ea.
        -- apply (IH o st' Ho) in Ea. destruct Ea as (j & J1 & J2 & J3 & J4).
           unfold closes. destruct (n - st' + 1 =? w) eqn:Ec.
           ++ apply Nat.eqb_eq in Ec. split; [discriminate|]. intros (j' & K1 & K2 & K3 & K4). exfalso.
              (* the only candidate for this cell just closed *)
              destruct (Nat.eq_dec j' j) as [->|Hne]; [lia|].
              destruct (Nat.lt_ge_cases j' j) as [Hlt|Hge].
              ** apply (ring_slot_free j j'); auto; try nia; try congruence.
              ** assert (j < j') by lia. assert (j' * s <= n) by lia.
                 apply (ring_slot_free j' j); auto; try nia; try congruence.
           ++ apply Nat.eqb_neq in Ec. split.
              ** intro E. inversion E; subst st'. exists j. repeat split; auto; lia.
              ** intros (j' & K1 & K2 & K3 & K4). f_equal.
                 destruct (Nat.eq_dec j' j) as [->|Hne]; [lia|]. exfalso.
                 destruct (Nat.lt_ge_cases j' j) as [Hlt|Hge].
                 --- apply (ring_slot_free j j'); auto; try nia; try congruence.
                 --- assert (j < j') by lia. assert (j' * s <= n) by lia.
                     apply (ring_slot_free j' j); auto; try nia; try congruence.
        -- split; [discriminate|]. intros (j' & K1 & K2 & K3 & K4). exfalso.
           (* nothing was open in this cell and the new window went elsewhere *)
           destruct (Nat.eq_dec (j' * s) n) as [E|Hne].
           ++ assert (j' = q) by nia. subst j'. congruence.
           ++ assert (is_open n o st) as Hopen by (exists j'; repeat split; auto; lia).
              apply (IH o st Ho) in Hopen. congruence.
    + (* no opening at this item *)
      apply Nat.eqb_neq in Eop.
      destruct (after n o) as [st'|] eqn:Ea.
      * apply (IH o st' Ho) in Ea. destruct Ea as (j & J1 & J2 & J3 & J4).
        unfold closes. destruct (n - st' + 1 =? w) eqn:Ec.
        -- apply Nat.eqb_eq in Ec. split; [discriminate|]. intros (j' & K1 & K2 & K3 & K4). exfalso.
           assert (j' * s <> n) by (intro E; apply Eop; rewrite <- E; apply mul_mod_zero).
           destruct (Nat.eq_dec j' j) as [->|Hne]; [lia|].
           destruct (Nat.lt_ge_cases j' j) as [Hlt|Hge].
           ++ apply (ring_slot_free j j'); auto; try nia; try congruence.
           ++ assert (j < j') by lia. apply (ring_slot_free j' j); auto; try nia; try congruence.
        -- apply Nat.eqb_neq in Ec. split.
           ++ intro E. inversion E; subst st'. exists j. repeat split; auto; lia.
           ++ intros (j' & K1 & K2 & K3 & K4). f_equal.
              assert (j' * s <> n) by (intro E; apply Eop; rewrite <- E; apply mul_mod_zero).
              destruct (Nat.eq_dec j' j) as [->|Hne]; [lia|]. exfalso.
              destruct (Nat.lt_ge_cases j' j) as [Hlt|Hge].
              ** apply (ring_slot_free j j'); auto; try nia; try congruence.
              ** assert (j < j') by lia. apply (ring_slot_free j' j); auto; try nia; try congruence.
      * split; [discriminate|]. intros (j' & K1 & K2 & K3 & K4). exfalso.
        assert (j' * s <> n) by (intro E; apply Eop; rewrite <- E; apply mul_mod_zero).
        assert (is_open n o st) as Hopen by (exists j'; repeat split; auto; lia).
        apply (IH o st Ho) in Hopen. congruence.
Qed.

(* consequence: item i (0-based) is delivered to the window starting at st  <->  st = j*s <= i < st + w *)
Definition delivered (i st : nat) : Prop := exists o, o < d /\ open_step i (after i) o = Some st.
Theorem delivered_iff i st : delivered i st <-> exists j, st = j * s /\ st <= i < st + w.
Proof.
  unfold delivered, open_step. split.
  - intros (o & Ho & E). destruct (i mod s =? 0) eqn:Eop.
    + apply Nat.eqb_eq in Eop. destruct (o =? (i / s) mod d) eqn:Eo.
      * inversion E; subst st. exists (i / s). split. apply mult_div; auto. lia.
      * apply after_exact in E; auto. destruct E as (j & J1 & J2 & J3 & J4). exists j. lia.
    + apply after_exact in E; auto. destruct E as (j & J1 & J2 & J3 & J4). exists j. lia.
  - intros (j & J1 & J2). exists (j mod d). split. apply Nat.mod_upper_bound; lia.
    destruct (Nat.eq_dec st i) as [E|Hne].
    + subst i. rewrite J1, mul_mod_zero, mul_div_cancel. cbn. rewrite Nat.eqb_refl. reflexivity.
    + assert (Hopen : is_open i (j mod d) st) by (exists j; repeat split; auto; lia).
      apply after_exact in Hopen; [|apply Nat.mod_upper_bound; lia].
      destruct (i mod s =? 0) eqn:Eop; auto.
      apply Nat.eqb_eq in Eop. destruct (j mod d =? (i / s) mod d) eqn:Eo; auto.
      apply Nat.eqb_eq in Eo. exfalso. pose proof (mult_div i Eop).
      apply (ring_slot_free (i / s) j); auto; nia.
Qed.
End Win.


(* ---------------------------------------------------------------------------------------------
   Connection with the per-key local machine roll_l of Sim.v (the `_roll` code path, w <> s):
   the start components of its ring are exactly `after n`, and the inner state kept in a cell is the
   state of a FRESH inner machine fed with the items received since the window was opened. *)

Section RollL.
Variable V : Type.
Variable LI : lmachine V.
Variables w s d : nat.
Hypothesis Hs : 1 <= s.
Hypothesis Hw : 1 <= w.
Hypothesis Hd : w <= d * s.
Hypothesis Hd1 : 1 <= d.
Notation RL := (roll_l V LI w s d).
Notation lcell := (lcell V LI).

Definition starts (cells : list lcell) (o : nat) : option nat := option_map fst (nth o cells None).
Definition st_of (items : list V) : LS LI := snd (lsteps V LI (l0 LI) items).

(* invariant after the items xs of one lifetime *)
Definition ring_ok (xs : list V) (st : LS RL) : Prop :=
  fst st = length xs /\ length (snd st) = d /\
  (forall o, o < d -> starts (snd st) o = after w s d (length xs) o) /\
  (forall o start sI, o < d -> nth o (snd st) None = Some (start, sI) -> sI = st_of (skipn start xs)).

Lemma nth_map_lcell (f : option (nat * LS LI) -> option (nat * LS LI)) (l : list (option (nat * LS LI))) o :
  f None = None -> nth o (map f l) None = f (nth o l None).
Proof. intro Hf. rewrite <- Hf at 1. apply map_nth. Qed.

Lemma st_of_snoc items x : st_of (items ++ [x]) = fst (lnext LI (st_of items) x).
Proof. unfold st_of. rewrite lsteps_app. cbn [fst snd lsteps]. destruct (lnext LI (snd (lsteps V LI (l0 LI) items)) x). reflexivity. Qed.

Lemma nth_map_none {A} (l : list A) : forall o, nth o (map (fun _ => @None (nat * LS LI)) l) None = None.
Proof. induction l as [|a l IH]; intro o; destruct o; cbn; auto. Qed.
Lemma nth_steps n x : forall (cells1 : list lcell) o,
  nth o (map fst (map (lcell_step V LI w n x) cells1)) None = fst (lcell_step V LI w n x (nth o cells1 None)).
Proof. induction cells1 as [|c cells1 IH]; intro o; destruct o; cbn [map nth]; auto. Qed.
Lemma ring_ok_init : ring_ok [] (l0 RL).
Proof.
  cbn [l0 roll_l]. unfold ring_ok. cbn [fst snd length]. repeat split.
  - unfold offs. now rewrite map_length, seq_length.
  - intros o Ho. unfold starts. cbn [after]. now rewrite nth_map_none.
  - intros o start sI Ho E. rewrite nth_map_none in E. discriminate.
Qed.

Lemma set_nth_length {A} (a dflt : A) : forall k l, k < length l -> length (set_nth k a dflt l) = length l.
Proof. induction k as [|k IH]; destruct l as [|c l]; cbn; intro H; try lia. rewrite IH; auto. lia. Qed.
Lemma ring_ok_step xs st x : ring_ok xs st -> ring_ok (xs ++ [x]) (fst (lnext RL st x)).
Proof.
  destruct st as [n cells]. intros (Hn & Hlen & Hst & Hin). cbn [fst snd] in *. subst n.
  cbn [lnext roll_l fst snd]. set (n := length xs).
  set (cells1 := if n mod s =? 0 then set_nth ((n / s) mod d) (Some (n, l0 LI)) None cells else cells).
  assert (Hlen1 : length cells1 = d).
  { unfold cells1. destruct (n mod s =? 0); auto.
    rewrite set_nth_length; [exact Hlen|]. unfold Sim.lcell in *. rewrite Hlen. apply Nat.mod_upper_bound. lia. }
  assert (Hn1 : forall o, o < d -> @nth lcell o cells1 None =
              if (n mod s =? 0) && (o =? (n / s) mod d) then Some (n, l0 LI) else @nth lcell o cells None).
  { intros o Ho. unfold cells1. destruct (n mod s =? 0); cbn [andb]; auto.
    destruct (o =? (n / s) mod d) eqn:Eo.
    - apply Nat.eqb_eq in Eo. subst o. apply nth_set_nth_same.
    - apply Nat.eqb_neq in Eo. apply nth_set_nth_other. congruence. }
  unfold ring_ok. cbn [fst snd]. rewrite app_length. cbn [length]. fold n.
  assert (Hf : fst (lcell_step V LI w n x None) = None) by reflexivity.
  refine (conj _ (conj _ (conj _ _))).
  - reflexivity.
  - rewrite !map_length. exact Hlen1.
  - intros o Ho. unfold starts. rewrite nth_steps. rewrite (Hn1 o Ho).
    replace (n + 1) with (S n) by lia. cbn [after]. unfold item_step, close_step, open_step.
    destruct (n mod s =? 0) eqn:Eop; cbn [andb].
    + destruct (o =? (n / s) mod d) eqn:Eo.
      * cbn [lcell_step]. destruct (lnext LI (l0 LI) x) as [sI' out]. unfold RingProofs.closes, Sim.closes.
        destruct (n - n + 1 =? w); reflexivity.
      * specialize (Hst o Ho). unfold starts in Hst. fold n in Hst. rewrite <- Hst.
        destruct (nth o cells None) as [[st0 sI]|]; cbn [option_map lcell_step fst]; [|reflexivity].
        destruct (lnext LI sI x) as [sI' out]. unfold RingProofs.closes, Sim.closes. destruct (n - st0 + 1 =? w); reflexivity.
    + specialize (Hst o Ho). unfold starts in Hst. fold n in Hst. rewrite <- Hst.
      destruct (nth o cells None) as [[st0 sI]|]; cbn [option_map lcell_step fst]; [|reflexivity].
      destruct (lnext LI sI x) as [sI' out]. unfold RingProofs.closes, Sim.closes. destruct (n - st0 + 1 =? w); reflexivity.
  - intros o start sI' Ho E. rewrite nth_steps in E. rewrite (Hn1 o Ho) in E.
    destruct ((n mod s =? 0) && (o =? (n / s) mod d)) eqn:Enew.
    + cbn [lcell_step] in E. destruct (lnext LI (l0 LI) x) as [s1 out] eqn:En. destruct (Sim.closes w n n); cbn [fst] in E; inversion E; subst.
      unfold n. rewrite skipn_app, skipn_all, Nat.sub_diag. cbn [skipn app]. unfold st_of. cbn [lsteps]. rewrite En. reflexivity.
    + destruct (nth o cells None) as [[st0 sI]|] eqn:Ec; cbn [lcell_step fst] in E; [|discriminate].
      destruct (lnext LI sI x) as [s1 out] eqn:En. destruct (Sim.closes w n st0); cbn [fst] in E; inversion E; subst.
      pose proof (Hin o start sI Ho Ec) as HsI.
      assert (Hlt : start < n).
      { assert (Hs0 : starts cells o = Some start) by (unfold starts; rewrite Ec; reflexivity).
        rewrite (Hst o Ho) in Hs0. apply after_exact in Hs0; auto. destruct Hs0 as (j & _ & _ & H3 & _). exact H3. }
      rewrite skipn_app. replace (start - length xs) with 0 by (unfold n in Hlt; lia). cbn [skipn].
      rewrite st_of_snoc, <- HsI, En. reflexivity.
Qed.

Theorem ring_ok_run : forall xs, ring_ok xs (snd (lsteps V RL (l0 RL) xs)).
Proof.
  intro xs. pattern xs. apply rev_ind.
  - apply ring_ok_init.
  - intros x l IH. rewrite lsteps_app. cbn [fst snd lsteps].
    pose proof (ring_ok_step l _ x IH) as H. destruct (lnext RL (snd (lsteps V RL (l0 RL) l)) x). exact H.
Qed.

(* C05: after the items xs, ring cell o holds a window iff that window is open, it is the window with
   ordinal j = start / s, and its inner machine is a fresh one fed with exactly the items from start on *)
Theorem roll_ring_exact xs o start : o < d ->
  (starts (snd (snd (lsteps V RL (l0 RL) xs))) o = Some start <-> is_open w s d (length xs) o start).
Proof.
  intro Ho. destruct (ring_ok_run xs) as (_ & _ & Hst & _). rewrite (Hst o Ho). apply after_exact; auto.
Qed.
Theorem roll_window_contents xs o start sI : o < d ->
  nth o (snd (snd (lsteps V RL (l0 RL) xs))) None = Some (start, sI) -> sI = st_of (skipn start xs).
Proof. intros Ho E. destruct (ring_ok_run xs) as (_ & _ & _ & Hin). eapply Hin; eauto. Qed.

(* what is emitted while item x is consumed after the items pre (n = length pre): for every ring slot o, in
   slot order, whose window (after a possible opening at this item) started at st: what a FRESH inner machine
   that received the items since st emits on x, followed by its completion output if x is its w-th item *)
Definition slot_out (pre : list V) (x : V) (o : nat) : list V :=
  match open_step s d (length pre) (after w s d (length pre)) o with
  | Some st => let r := lnext LI (st_of (skipn st pre)) x in
               snd r ++ (if RingProofs.closes w (length pre) st then ldone LI (fst r) else [])
  | None => []
  end.
Lemma flat_map_nth {A B} (f : A -> list B) (dflt : A) : forall (l : list A),
  flat_map f l = flat_map (fun o => f (nth o l dflt)) (seq 0 (length l)).
Proof.
  induction l as [|a l IH]; [reflexivity|]. cbn [length seq flat_map nth]. f_equal.
  rewrite IH, <- seq_shift, flat_map_map. reflexivity.
Qed.
Theorem roll_step_out pre x :
  snd (lnext RL (snd (lsteps V RL (l0 RL) pre)) x) = flat_map (slot_out pre x) (seq 0 d).
Proof.
  pose proof (ring_ok_run pre) as (Hn & Hlen & Hst & Hin).
  destruct (snd (lsteps V RL (l0 RL) pre)) as [n cells]. cbn [fst snd] in *. subst n.
  cbn [lnext roll_l snd]. set (n := length pre).
  set (cells1 := if n mod s =? 0 then set_nth ((n / s) mod d) (Some (n, l0 LI)) None cells else cells).
  assert (Hlen1 : length cells1 = d).
  { unfold cells1. destruct (n mod s =? 0); auto.
    rewrite set_nth_length; [exact Hlen|]. unfold Sim.lcell in *. rewrite Hlen. apply Nat.mod_upper_bound. lia. }
  assert (Hn1 : forall o, o < d -> @nth lcell o cells1 None =
              if (n mod s =? 0) && (o =? (n / s) mod d) then Some (n, l0 LI) else @nth lcell o cells None).
  { intros o Ho. unfold cells1. destruct (n mod s =? 0); cbn [andb]; auto.
    destruct (o =? (n / s) mod d) eqn:Eo.
    - apply Nat.eqb_eq in Eo. subst o. apply nth_set_nth_same.
    - apply Nat.eqb_neq in Eo. apply nth_set_nth_other. congruence. }
  unfold Sim.lcell in *.
  rewrite flat_map_concat_map, map_map, <- flat_map_concat_map.
  rewrite (flat_map_nth _ None cells1). rewrite Hlen1.
  apply flat_map_ext_in. intros o Ho. apply in_seq in Ho. assert (Ho' : o < d) by lia.
  unfold slot_out. fold n. rewrite (Hn1 o Ho'). unfold open_step.
  destruct (n mod s =? 0) eqn:Eop; cbn [andb].
  - destruct (o =? (n / s) mod d) eqn:Eo.
    + cbn [lcell_step]. replace (skipn n pre) with (@nil V) by (unfold n; now rewrite skipn_all). change (st_of []) with (l0 LI).
      destruct (lnext LI (l0 LI) x) as [s1 out]. unfold RingProofs.closes, Sim.closes. cbn [fst snd].
      destruct (n - n + 1 =? w); cbn [fst snd]; rewrite ?app_nil_r; reflexivity.
    + specialize (Hst o Ho'). unfold starts in Hst. fold n in Hst. rewrite <- Hst. unfold Sim.lcell.
      destruct (nth o cells None) as [[st0 sI]|] eqn:Ec; cbn [option_map fst snd lcell_step]; [|reflexivity].
      rewrite (Hin o st0 sI Ho' Ec). destruct (lnext LI (st_of (skipn st0 pre)) x) as [s1 out].
      unfold RingProofs.closes, Sim.closes. cbn [fst snd]. destruct (n - st0 + 1 =? w); cbn [fst snd]; rewrite ?app_nil_r; reflexivity.
  - specialize (Hst o Ho'). unfold starts in Hst. fold n in Hst. rewrite <- Hst. unfold Sim.lcell.
    destruct (nth o cells None) as [[st0 sI]|] eqn:Ec; cbn [option_map fst snd lcell_step]; [|reflexivity].
    rewrite (Hin o st0 sI Ho' Ec). destruct (lnext LI (st_of (skipn st0 pre)) x) as [s1 out].
    unfold RingProofs.closes, Sim.closes. cbn [fst snd]. destruct (n - st0 + 1 =? w); cbn [fst snd]; rewrite ?app_nil_r; reflexivity.
Qed.
(* at completion: the open windows, in the flush order rot (= opening order, see flush_position), each emit
   the completion output of a fresh inner machine fed with the items since their start *)
Theorem roll_done_out xs :
  snd (ltimed V RL xs)
  = flat_map (fun o => match after w s d (length xs) o with Some st => ldone LI (st_of (skipn st xs)) | None => [] end)
             (rot s d (length xs)).
Proof.
  unfold ltimed. pose proof (ring_ok_run xs) as (Hn & Hlen & Hst & Hin).
  destruct (lsteps V RL (l0 RL) xs) as [os [n cells]]. cbn [fst snd] in *. subst n.
  cbn [ldone roll_l]. apply flat_map_ext_in. intros o Ho. apply (rot_lt w s d Hs Hd Hd1) in Ho.
  specialize (Hst o Ho). unfold starts in Hst. rewrite <- Hst. unfold Sim.lcell in *.
  destruct (nth o cells None) as [[st0 sI]|] eqn:Ec; cbn [option_map fst]; [|reflexivity].
  now rewrite (Hin o st0 sI Ho Ec).
Qed.
End RollL.

(* ---------------------------------------------------------------------------------------------
   Completion: the ring is flushed in the order `rot n` = slots (q mod d), (q+1) mod d, ... where
   q = ceil (n / s) is the ordinal the next window would get.  A window with ordinal j that is still
   open after n items sits at position j + d - q of that order: positions increase with j, so the
   partial windows are closed in the order in which they were opened. *)
Section Flush.
Variables w s d : nat.
Hypothesis Hs : 1 <= s.
Hypothesis Hw : 1 <= w.
Hypothesis Hd : w <= d * s.
Hypothesis Hd1 : 1 <= d.
Definition next_ordinal (n : nat) : nat := (n + s - 1) / s.

Lemma open_ordinal_range n j : j * s < n -> n < j * s + w -> j < next_ordinal n /\ next_ordinal n <= j + d.
Proof.
  intros H1 H2. unfold next_ordinal. split.
  - assert (H : S j <= (n + s - 1) / s) by (apply Nat.div_le_lower_bound; nia). lia.
  - assert (H : n + s - 1 < s * (j + d + 1)) by nia.
    apply Nat.div_lt_upper_bound in H; lia.
Qed.
Theorem flush_position n j : j * s < n -> n < j * s + w ->
  j + d - next_ordinal n < d /\ nth (j + d - next_ordinal n) (rot s d n) 0 = j mod d.
Proof.
  intros H1 H2. destruct (open_ordinal_range n j H1 H2) as [Ha Hb]. set (q := next_ordinal n) in *.
  split; [lia|]. unfold rot, offs, first_slot. fold (next_ordinal n). fold q.
  rewrite (nth_indep _ 0 ((fun o => (q mod d + o) mod d) 0)) by (rewrite map_length, seq_length; lia).
  rewrite (map_nth (fun o => (q mod d + o) mod d) (seq 0 d) 0 (j + d - q)). rewrite seq_nth by lia. cbn [plus].
  pose proof (Nat.div_mod q d ltac:(lia)) as Eq.
  assert (E : q mod d + (j + d - q) + (q / d) * d = j + 1 * d) by nia.
  rewrite <- (Nat.mod_add (q mod d + (j + d - q)) (q / d) d) by lia. rewrite E. apply Nat.mod_add. lia.
Qed.
Corollary flush_in_opening_order n j1 j2 :
  j1 * s < n -> n < j1 * s + w -> j2 * s < n -> n < j2 * s + w -> j1 < j2 ->
  j1 + d - next_ordinal n < j2 + d - next_ordinal n.
Proof. intros A B C D E. destruct (open_ordinal_range n j1 A B). destruct (open_ordinal_range n j2 C D). lia. Qed.
End Flush.
