(* Python values and the catalogue of user functions used by the correspondence check.
   Executable only; no proofs.  Theorems quantify over arbitrary Gallina functions, this
   catalogue only names the ones the generators use (mirror: harness/pyval.py). *)
From Coq Require Import List ZArith Bool FloatClass PrimFloat Uint63 FloatOps.
Import ListNotations.
Local Open Scope Z_scope.

Inductive val :=
| VNone | VBool (b : bool) | VInt (z : Z) | VFloat (f : float) | VStr (s : list Z)
| VTuple (l : list val) | VList (l : list val).

(* exception classes: 1 TypeError 2 ValueError 3 ZeroDivisionError 4 IndexError 5 OverflowError 9 other *)
Definition exn := Z.
Inductive res := Ok (v : val) | Raise (e : exn).
Definition bind (r : res) (f : val -> res) : res := match r with Ok v => f v | Raise e => Raise e end.

(* ---------- floats (binary64, kernel primitives) ---------- *)
Definition z2f (z : Z) : float :=
  if z <? 0 then PrimFloat.opp (of_uint63 (Uint63.of_Z (- z))) else of_uint63 (Uint63.of_Z z).
(* float.hex() literal  sign * m * 2^e  with 0 <= m < 2^53 *)
Definition mkf (neg : bool) (m e : Z) : float :=
  let f := Z.ldexp (of_uint63 (Uint63.of_Z m)) e in if neg then PrimFloat.opp f else f.
Definition fclass_eqb (a b : FloatClass.float_class) : bool :=
  match a, b with
  | PNormal, PNormal | NNormal, NNormal | PSubn, PSubn | NSubn, NSubn | PZero, PZero | NZero, NZero
  | PInf, PInf | NInf, NInf | NaN, NaN => true
  | _, _ => false
  end.
(* bit equality up to NaN payload *)
Definition f_same (a b : float) : bool :=
  if is_nan a then is_nan b else (a =? b)%float && fclass_eqb (classify a) (classify b).
(* integer value of an integer-valued finite float *)
Definition f_int (f : float) : option Z :=
  if is_nan f || is_infinity f then None else
  if (f =? 0)%float then Some 0 else
  let '(m, e) := Z.frexp (PrimFloat.abs f) in
  let mant := Uint63.to_Z (normfr_mantissa m) in        (* 53 bits, f = mant * 2^(e-53) *)
  let sh := e - 53 in
  let v := if sh <? 0 then (if mant mod 2 ^ (- sh) =? 0 then Some (mant / 2 ^ (- sh)) else None)
           else Some (mant * 2 ^ sh) in
  match v with Some z => Some (if (f <? 0)%float then - z else z) | None => None end.
Definition f_parts (f : float) : list Z :=
  let '(m, e) := Z.frexp (PrimFloat.abs f) in [if (f <? 0)%float then 1 else 0; Uint63.to_Z (normfr_mantissa m); e].

(* ---------- Python == / hash: canonical serialisation (1 == 1.0 == True) ---------- *)
Fixpoint canon (v : val) : list Z :=
  match v with
  | VNone => [0]
  | VBool b => [1; if b then 1 else 0]
  | VInt z => [1; z]
  | VFloat f => match f_int f with Some z => [1; z] | None => if is_nan f then [3] else 2 :: f_parts f end
  | VStr s => 4 :: Z.of_nat (length s) :: s
  | VTuple l => 5 :: Z.of_nat (length l) ::
      (fix go (l : list val) : list Z := match l with [] => [] | x :: r => canon x ++ go r end) l
  | VList l => 6 :: Z.of_nat (length l) ::
      (fix go (l : list val) : list Z := match l with [] => [] | x :: r => canon x ++ go r end) l
  end.
Fixpoint zs_eqb (a b : list Z) : bool :=
  match a, b with [], [] => true | x :: a', y :: b' => (x =? y) && zs_eqb a' b' | _, _ => false end.
Definition py_eq (a b : val) : bool := zs_eqb (canon a) (canon b).

(* bit-exact structural comparison, used only by the correspondence checker *)
Fixpoint val_same (a b : val) : bool :=
  match a, b with
  | VNone, VNone => true
  | VBool x, VBool y => Bool.eqb x y
  | VInt x, VInt y => x =? y
  | VFloat x, VFloat y => f_same x y
  | VStr x, VStr y => zs_eqb x y
  | VTuple x, VTuple y | VList x, VList y =>
      (fix go (x y : list val) : bool :=
         match x, y with [], [] => true | p :: x', q :: y' => val_same p q && go x' y' | _, _ => false end) x y
  | _, _ => false
  end.

Definition truthy (v : val) : bool :=
  match v with
  | VNone => false | VBool b => b | VInt z => negb (z =? 0)
  | VFloat f => negb (f =? 0)%float
  | VStr s => negb (Nat.eqb (length s) 0) | VTuple l | VList l => negb (Nat.eqb (length l) 0)
  end.
Definition is_true (v : val) : bool := match v with VBool true => true | _ => false end.   (* `x is True` *)

(* ---------- arithmetic (numeric tower bool <= int <= float) ---------- *)
Inductive num := NI (z : Z) | NF (f : float) | NN.
Definition as_num (v : val) : num :=
  match v with VBool b => NI (if b then 1 else 0) | VInt z => NI z | VFloat f => NF f | _ => NN end.
Definition nf (n : num) : float := match n with NI z => z2f z | NF f => f | NN => PrimFloat.zero end.
Definition TypeError : exn := 1.
Definition ValueError : exn := 2.
Definition ZeroDivisionError : exn := 3.
Definition IndexError : exn := 4.
Definition OverflowError : exn := 5.

Definition py_add (a b : val) : res :=
  match as_num a, as_num b with
  | NI x, NI y => Ok (VInt (x + y))
  | NN, _ | _, NN =>
      match a, b with
      | VStr x, VStr y => Ok (VStr (x ++ y))
      | VTuple x, VTuple y => Ok (VTuple (x ++ y))
      | VList x, VList y => Ok (VList (x ++ y))
      | _, _ => Raise TypeError
      end
  | x, y => Ok (VFloat (nf x + nf y))
  end.
Definition py_sub (a b : val) : res :=
  match as_num a, as_num b with
  | NI x, NI y => Ok (VInt (x - y)) | NN, _ | _, NN => Raise TypeError | x, y => Ok (VFloat (nf x - nf y)) end.
Definition py_mul (a b : val) : res :=
  match as_num a, as_num b with
  | NI x, NI y => Ok (VInt (x * y)) | NN, _ | _, NN => Raise TypeError | x, y => Ok (VFloat (nf x * nf y)) end.
Definition py_truediv (a b : val) : res :=
  match as_num a, as_num b with
  | NN, _ | _, NN => Raise TypeError
  | x, y => if (nf y =? 0)%float then Raise ZeroDivisionError else Ok (VFloat (nf x / nf y))
  end.
Definition py_mod (a : val) (m : Z) : res :=
  match as_num a with NI x => if m =? 0 then Raise ZeroDivisionError else Ok (VInt (x mod m)) | _ => Raise TypeError end.
Definition py_floordiv (a : val) (m : Z) : res :=
  match as_num a with NI x => if m =? 0 then Raise ZeroDivisionError else Ok (VInt (x / m)) | _ => Raise TypeError end.
Definition py_neg (a : val) : res :=
  match as_num a with NI x => Ok (VInt (- x)) | NF f => Ok (VFloat (PrimFloat.opp f)) | NN => Raise TypeError end.
(* a < b on numbers *)
Definition py_lt (a b : val) : option bool :=
  match as_num a, as_num b with
  | NI x, NI y => Some (x <? y) | NN, _ | _, NN => None | x, y => Some (nf x <? nf y)%float end.
Definition lt_res (a b : val) : res := match py_lt a b with Some r => Ok (VBool r) | None => Raise TypeError end.
Definition py_sqrt (a : val) : res :=
  match as_num a with
  | NN => Raise TypeError
  | x => if (nf x <? 0)%float then Raise ValueError else Ok (VFloat (PrimFloat.sqrt (nf x)))
  end.
Definition py_float (a : val) : res :=
  match as_num a with NN => Raise TypeError | x => Ok (VFloat (nf x)) end.
(* builtin min(a, b): b if b < a else a ; max(a, b): b if b > a else a *)
Definition py_min2 (a b : val) : res := match py_lt b a with Some true => Ok b | Some false => Ok a | None => Raise TypeError end.
Definition py_max2 (a b : val) : res := match py_lt a b with Some true => Ok b | Some false => Ok a | None => Raise TypeError end.
Definition py_nth (a : val) (n : nat) : res :=
  match a with
  | VTuple l | VList l => match nth_error l n with Some x => Ok x | None => Raise IndexError end
  | VStr s => match nth_error s n with Some c => Ok (VStr [c]) | None => Raise IndexError end
  | _ => Raise TypeError
  end.
Definition py_len (a : val) : res :=
  match a with VTuple l | VList l => Ok (VInt (Z.of_nat (length l))) | VStr s => Ok (VInt (Z.of_nat (length s)))
  | _ => Raise TypeError end.

(* ---------- the catalogue ---------- *)
Inductive fn :=
| FId | FConst (v : val) | FAdd (c : val) | FSub (c : val) | FRSub (c : val) | FMul (c : val) | FDiv (c : val)
| FMod (m : Z) | FFloorDiv (m : Z) | FNeg | FIsOdd | FGt (c : val) | FLt (c : val) | FEq (c : val)
| FIsNone | FNot | FNth (n : nat) | FLen | FToFloat | FSqrt
| FPair (f g : fn)                 (* (f x, g x) *)
| FComp (f g : fn)                 (* g (f x) *)
| FRaiseIf (p : fn) (e : exn)      (* raise e if truthy (p x) else x *)
| FClip (lo hi : val)              (* rs.data.clip's closure; VNone = no bound *)
| FFillNone (v : val)              (* rs.data.fill_none on a non-namedtuple item *)
| FStar (a : fn2)                  (* starmap: a x[0] x[1] *)
| FMeanOut | FVarOut | FSqrtOpt    (* mappers of rs.math.mean / variance / stddev *)
| FIsTrue                          (* x is True *)
| FBatchTerm                       (* rs.data.batch _terminate (repaired) *)
| FNoneIf (p : fn)                 (* None if truthy (p x) else x : a user function that legitimately returns None *)
with fn2 :=
| A2Add | A2Sub | A2Mul | A2Max | A2Min | A2Count | A2Append | A2Snd | A2Fst | A2Lt | A2Le | A2Ne | A2Pair
| A2Key (a : fn2) (f : fn)         (* a acc (f x) *)
| A2Post (a : fn2) (f : fn)        (* f (a acc x) *)
| A2RaiseIf (p : fn) (e : exn) (a : fn2)   (* raise e if truthy (p x) else a acc x *)
| A2MinAcc (km : fn) | A2MaxAcc (km : fn)  (* rs.math.min / max accumulate *)
| A2SumAcc (km : fn)                        (* rs.math.sum accumulate *)
| A2MeanAcc (km : fn)                       (* rs.math.mean accumulate *)
| A2VarAcc (km : fn)                        (* rs.math.variance accumulate (Welford) *)
| A2Batch (n : Z)                           (* rs.data.batch _batch (repaired) *)
| A2Duc (km : fn)                           (* distinct_until_changed _distinct (repaired seed) *)
| A2ArrAppend (dbl : bool).                 (* rs.data.to_array _append on array('d') / array('q'): append coerces the item *)

Definition tup2 (a b : val) := VTuple [a; b].
Definition tup3 (a b c : val) := VTuple [a; b; c].

Fixpoint apply1 (f : fn) (x : val) {struct f} : res :=
  match f with
  | FId => Ok x
  | FConst v => Ok v
  | FAdd c => py_add x c
  | FSub c => py_sub x c
  | FRSub c => py_sub c x
  | FMul c => py_mul x c
  | FDiv c => py_truediv x c
  | FMod m => py_mod x m
  | FFloorDiv m => py_floordiv x m
  | FNeg => py_neg x
  | FIsOdd => bind (py_mod x 2) (fun r => Ok (VBool (py_eq r (VInt 1))))
  | FGt c => lt_res c x
  | FLt c => lt_res x c
  | FEq c => Ok (VBool (py_eq x c))
  | FIsNone => Ok (VBool (match x with VNone => true | _ => false end))
  | FNot => Ok (VBool (negb (truthy x)))
  | FNth n => py_nth x n
  | FLen => py_len x
  | FToFloat => py_float x
  | FSqrt => py_sqrt x
  | FPair f g => bind (apply1 f x) (fun a => bind (apply1 g x) (fun b => Ok (tup2 a b)))
  | FComp f g => bind (apply1 f x) (apply1 g)
  | FRaiseIf p e => bind (apply1 p x) (fun r => if truthy r then Raise e else Ok x)
  | FClip lo hi =>
      match lo, hi with
      | VNone, VNone => Ok x
      | VNone, _ => py_min2 x hi
      | _, VNone => py_max2 x lo
      | _, _ => bind (py_min2 x hi) (fun m => py_max2 m lo)
      end
  | FFillNone v => Ok (match x with VNone => v | _ => x end)
  | FStar a => bind (py_nth x 0) (fun p => bind (py_nth x 1) (fun q => apply2 a p q))
  | FMeanOut =>      (* acc[0] / acc[1] if acc is not None else None *)
      match x with VNone => Ok VNone | _ => bind (py_nth x 0) (fun s => bind (py_nth x 1) (fun n => py_truediv s n)) end
  | FVarOut =>       (* 0.0 if acc[2] < 2 else acc[1] / (acc[2] - 1) *)
      bind (py_nth x 2) (fun k => bind (lt_res k (VInt 2)) (fun small =>
        if truthy small then Ok (VFloat PrimFloat.zero)
        else bind (py_nth x 1) (fun s => bind (py_sub k (VInt 1)) (fun d => py_truediv s d))))
  | FSqrtOpt => match x with VNone => Ok VNone | _ => py_sqrt x end
  | FIsTrue => Ok (VBool (is_true x))
  | FBatchTerm =>    (* (acc[0], acc[1] is False and len(acc[0]) > 0) *)
      bind (py_nth x 0) (fun b => bind (py_nth x 1) (fun full =>
        match b, full with
        | VList l, VBool false => Ok (tup2 b (VBool (negb (Nat.eqb (length l) 0))))
        | _, _ => Ok (tup2 b (VBool false))
        end))
  | FNoneIf p => bind (apply1 p x) (fun r => Ok (if truthy r then VNone else x))
  end
with apply2 (a : fn2) (acc x : val) {struct a} : res :=
  match a with
  | A2Add => py_add acc x
  | A2Sub => py_sub acc x
  | A2Mul => py_mul acc x
  | A2Max => py_max2 acc x
  | A2Min => py_min2 acc x
  | A2Count => py_add acc (VInt 1)
  | A2Append => match acc with VList l => Ok (VList (l ++ [x])) | _ => Raise TypeError end
  | A2ArrAppend dbl =>
      match acc with
      | VList l =>
          match dbl, x with
          | true, VInt z => Ok (VList (l ++ [VFloat (z2f z)]))
          | true, VBool b => Ok (VList (l ++ [VFloat (z2f (if b then 1 else 0))]))
          | true, VFloat f => Ok (VList (l ++ [VFloat f]))
          | false, VInt z => if ((- 9223372036854775808 <=? z) && (z <? 9223372036854775808))%Z
                             then Ok (VList (l ++ [VInt z])) else Raise OverflowError
          | false, VBool b => Ok (VList (l ++ [VInt (if b then 1 else 0)]))
          | _, _ => Raise TypeError
          end
      | _ => Raise TypeError
      end
  | A2Snd => Ok x
  | A2Fst => Ok acc
  | A2Lt => lt_res acc x
  | A2Le => bind (lt_res x acc) (fun r => Ok (VBool (negb (truthy r))))
  | A2Ne => Ok (VBool (negb (py_eq acc x)))
  | A2Pair => Ok (tup2 acc x)
  | A2Key a f => bind (apply1 f x) (fun y => apply2 a acc y)
  | A2Post a f => bind (apply2 a acc x) (apply1 f)
  | A2RaiseIf p e a => bind (apply1 p x) (fun r => if truthy r then Raise e else apply2 a acc x)
  | A2MinAcc km => bind (apply1 km x) (fun i =>
      match acc with VNone => Ok i | _ => bind (lt_res i acc) (fun r => Ok (if truthy r then i else acc)) end)
  | A2MaxAcc km => bind (apply1 km x) (fun i =>
      match acc with VNone => Ok i | _ => bind (lt_res acc i) (fun r => Ok (if truthy r then i else acc)) end)
  | A2SumAcc km => bind (apply1 km x) (fun i => py_add acc i)
  | A2MeanAcc km => bind (apply1 km x) (fun i =>
      bind (py_nth acc 0) (fun s => bind (py_nth acc 1) (fun n =>
      bind (py_add s i) (fun s' => bind (py_add n (VInt 1)) (fun n' => Ok (tup2 s' n'))))))
  | A2VarAcc km =>
      bind (py_nth acc 0) (fun m => bind (py_nth acc 1) (fun s => bind (py_nth acc 2) (fun k0 =>
      bind (py_add k0 (VInt 1)) (fun k => bind (apply1 km x) (fun i =>
      match m with
      | VNone => Ok (tup3 i s k)
      | _ => bind (py_sub i m) (fun d => bind (py_truediv d k) (fun q => bind (py_add m q) (fun m' =>
             bind (py_sub i m') (fun d' => bind (py_mul d d') (fun p => bind (py_add s p) (fun s' =>
             Ok (tup3 m' s' k)))))))
      end)))))
  | A2Batch n =>      (* repaired _batch: (b, len(b) == n) for the fresh and for the appended list *)
      bind (py_nth acc 0) (fun b => bind (py_nth acc 1) (fun full =>
        let b' := if is_true full then VList [x] else match b with VList l => VList (l ++ [x]) | _ => b end in
        match b' with VList l => Ok (tup2 b' (VBool (Z.of_nat (length l) =? n))) | _ => Raise TypeError end))
  | A2Duc km =>       (* acc = (emit, item, key, has_key) *)
      bind (apply1 km x) (fun key =>
      bind (py_nth acc 2) (fun prev => bind (py_nth acc 3) (fun has =>
        Ok (VTuple [VBool (negb (truthy has) || negb (py_eq key prev)); x; key; VBool true]))))
  end.
