(* C11, nothing is held back: a pipeline in which no operator is completion-triggered (last, reduce, a
   scan terminator, pad_end) - at any nesting depth, under group_by / roll / split / time_split / tee_map -
   emits NOTHING when a key completes; every output has appeared in the step of a source item. *)
From Coq Require Import List ZArith Bool Arith Lia.
From RxVerif Require Import Mux.Val Mux.Sim Mux.SimExt Mux.Seg Mux.Ops Mux.Syntax Mux.LocalSemProofs Mux.MasterProofs.
Import ListNotations.

Definition quiet (L : lm) : Prop := forall s, ldone L s = [].

Fixpoint per_item_op (o : op) : bool :=
  let per_item_pipe := fix pp (p : list op) : bool := match p with [] => true | o' :: p' => per_item_op o' && pp p' end in
  match o with
  | OLast | OPadEnd _ _ => false
  | OScan _ _ _ reduce term => negb reduce && match term with None => true | Some _ => false end
  | OTee _ bs => (fix pb (bs : list (list op)) : bool := match bs with [] => true | p :: bs' => per_item_pipe p && pb bs' end) bs
  | OGroup _ p | ORoll _ _ p | OSplit _ p | OTimeSplit _ _ _ _ _ p => per_item_pipe p
  | _ => true
  end.
Fixpoint per_item_pipe (p : list op) : bool :=
  match p with [] => true | o :: p' => per_item_op o && per_item_pipe p' end.

Lemma quiet_compose (L1 L2 : lm) : quiet L1 -> quiet L2 -> quiet (compose_l L1 L2).
Proof. intros H1 H2 [a b]. cbn [ldone compose_l]. rewrite H1. cbn [lfeed]. apply H2. Qed.
Lemma quiet_bypass (L : lm) : quiet L -> quiet (bypass_l item special L).
Proof. intros H s. cbn [ldone bypass_l]. apply H. Qed.
Lemma quiet_inner (b : br_) : quiet (bl item b) -> quiet (bl item (inner_b b)).
Proof. intro H. cbn [inner_b compose_b mkb bl]. apply quiet_compose; [exact H|]. intro s. reflexivity. Qed.
Lemma quiet_group km (b : br_) : quiet (bl item b) -> quiet (bl item (group_b km b)).
Proof.
  intro H. cbn [group_b bypass_b mkb bl]. apply quiet_bypass. intro st. cbn [ldone group_l].
  induction st as [|[g s0] st IH]; cbn [flat_map]; [reflexivity|]. rewrite (quiet_inner b H s0). exact IH.
Qed.
Lemma quiet_seg {Sg : Type} (sg0 : Sg) nx op_ H0 Hok (b : br_) :
  quiet (bl item b) -> quiet (bl item (@seg_b Sg sg0 nx op_ H0 Hok b)).
Proof.
  intro H. cbn [seg_b bypass_b mkb bl]. apply quiet_bypass. intros [sg [s0|]]; cbn [ldone seg_l snd]; [|reflexivity].
  apply (quiet_inner b H).
Qed.
Lemma quiet_roll w s (b : br_) : quiet (bl item b) -> quiet (bl item (roll_b w s b)).
Proof.
  intro H. unfold roll_b. destruct (le_dec 1 s); [|intro u; reflexivity]. destruct (le_dec 1 w); [|intro u; reflexivity].
  destruct (Nat.eqb w s).
  - apply quiet_seg. exact H.
  - cbn [bypass_b mkb bl]. apply quiet_bypass. intros [n cells]. cbn [ldone roll_l].
    induction (rot s (density w s) n) as [|o ro IH]; cbn [flat_map]; [reflexivity|].
    destruct (nth o cells None) as [[st sI]|]; [rewrite (quiet_inner b H sI)|]; exact IH.
Qed.

Lemma ljoin_all_nil mode : forall (outs : list (list item)) i c, Forall (fun o => o = []) outs ->
  snd (ljoin_all item mode mk_tuple special i outs c) = [].
Proof.
  induction outs as [|o outs IH]; intros i c H; cbn [ljoin_all]; [reflexivity|].
  inversion H as [|? ? Ho Hr]; subst. cbn [ljoin_branch]. specialize (IH (S i) c Hr).
  destruct (ljoin_all item mode mk_tuple special (S i) outs c) as [c2 e2]. cbn [snd] in *. now rewrite IH.
Qed.
Lemma quiet_tee mode (bs : list br_) : Forall (fun b => quiet (bl item b)) bs -> quiet (bl item (tee_b mode bs)).
Proof.
  intro H. destruct bs as [|b r]; [intro u; reflexivity|]. cbn [tee_b bypass_b mkb bl]. apply quiet_bypass.
  intros [st c]. cbn [ldone tee_l]. apply ljoin_all_nil.
  clear c. revert st. induction H as [|b' bs' Hb Hbs IH]; intro st; cbn [ldone_all]; constructor; [apply Hb|apply IH].
Qed.

Definition op_quiet (o : op) : Prop := per_item_op o = true -> quiet (bl item (den o)).

Lemma pipe_quiet (p : list op) : Forall op_quiet p -> per_item_pipe p = true -> quiet (bl item (den_pipe p)).
Proof.
  induction 1 as [|o p Ho Hp IH]; intro H; cbn [per_item_pipe] in H.
  - intro u. reflexivity.
  - apply andb_prop in H. destruct H as [H1 H2].
    change (bl item (den_pipe (o :: p))) with (compose_l (bl item (den o)) (bl item (den_pipe p))).
    apply quiet_compose; [apply Ho; exact H1 | apply IH; exact H2].
Qed.

Lemma per_item_tee mode bs : per_item_op (OTee mode bs) = forallb per_item_pipe bs.
Proof. induction bs as [|p bs IH]; [reflexivity|]. cbn [forallb]. rewrite <- IH. reflexivity. Qed.

Lemma all_ops_quiet : forall o, op_quiet o.
Proof.
  fix IH 1. intro o.
  pose (pipe_ok := fix F (p : list op) : Forall op_quiet p :=
          match p with [] => Forall_nil _ | o' :: p' => Forall_cons o' (IH o') (F p') end).
  destruct o; intro H; try (intro st; reflexivity); try discriminate.
  - (* scan *) cbn [per_item_op] in H. apply andb_prop in H. destruct H as [H1 H2]. destruct term; [discriminate|].
    destruct reduce; [discriminate|]. intro st. reflexivity.
  - (* lag *) change (bl item (den (OLag n))) with (L_lag n). unfold L_lag. destruct (Nat.eqb n 1); intro st; reflexivity.
  - (* tee *) rewrite per_item_tee in H.
    change (den (OTee mode bs)) with (tee_b mode (map den_pipe bs)). apply quiet_tee.
    revert H. induction bs as [|p bs IHb]; intro H; cbn [map forallb] in *; constructor.
    + apply andb_prop in H. apply pipe_quiet; [apply pipe_ok | tauto].
    + apply andb_prop in H. apply IHb. tauto.
  - (* group *) apply quiet_group. apply pipe_quiet; [apply pipe_ok | exact H].
  - (* roll *) apply quiet_roll. apply pipe_quiet; [apply pipe_ok | exact H].
  - (* split *) apply quiet_seg. apply pipe_quiet; [apply pipe_ok | exact H].
  - (* time_split *) apply quiet_seg. apply pipe_quiet; [apply pipe_ok | exact H].
Qed.

Theorem nothing_held_back (P : list op) : per_item_pipe P = true ->
  forall xs : list item, snd (ltimed item (pipe_l P) xs) = [].
Proof.
  intros H xs. unfold ltimed. destruct (lsteps item (pipe_l P) (l0 (pipe_l P)) xs) as [os s]. cbn [snd].
  apply (pipe_quiet P); [|exact H].
  clear. induction P as [|o P IH]; [apply Forall_nil | apply Forall_cons; [apply all_ops_quiet | exact IH]].
Qed.
