(* C01: what the per-key local machine of a pipeline of dual-mode operators emits over one lifetime
   is what the same pipeline computes on a plain observable (plain_pipe), whenever the plain run does
   not end in on_error. *)
From Coq Require Import List ZArith Bool Arith Lia.
From RxVerif Require Import Mux.Val Mux.Sim Mux.SimExt Mux.Ops Mux.Syntax Mux.LocalSemProofs Mux.OpsSpecProofs
  Mux.MasterProofs Mux.Plain.
Import ListNotations.

(* operators without state and without completion output *)
Lemma stateless_items (L : lm) (h : val -> list item) :
  (forall s x, lnext L s (It x) = (s, h x)) -> (forall s, ldone L s = []) ->
  forall xs, items_of item L (its xs) = flat_map h xs.
Proof.
  intros Hn Hd xs. unfold items_of, ltimed. generalize (l0 L) as s.
  induction xs as [|x xs IH]; intro s; cbn [its map lsteps flat_map].
  - cbn. now rewrite Hd.
  - rewrite Hn. specialize (IH s). unfold its in IH. destruct (lsteps item L s (map It xs)) as [os s2].
    cbn [concat] in *. rewrite <- app_assoc. now rewrite IH.
Qed.

Lemma fits_coerce t v : fits t v = true -> coerce t v = Ok v.
Proof.
  destruct t, v; cbn; intro H; try discriminate; try reflexivity.
  rewrite H. reflexivity.
Qed.

Lemma map_items f xs ys : map_res (apply1 f) xs = Some ys -> items_of item (L_map f) (its xs) = its ys.
Proof.
  intro H. rewrite (stateless_items (L_map f) (fun x => out_res (apply1 f x))); [|reflexivity|reflexivity].
  revert ys H. induction xs as [|x xs IH]; intros ys H; cbn [map_res flat_map] in *.
  - inversion H. reflexivity.
  - destruct (apply1 f x) as [y|e]; [|discriminate]. destruct (map_res (apply1 f) xs) as [ys'|]; [|discriminate].
    inversion H; subst. cbn [out_res app its map]. f_equal. apply IH. reflexivity.
Qed.
Lemma filter_items p xs ys : filter_res (apply1 p) xs = Some ys -> items_of item (L_filter p) (its xs) = its ys.
Proof.
  intro H. rewrite (stateless_items (L_filter p)
    (fun x => match apply1 p x with Ok r => if truthy r then [It x] else [] | Raise e => [IErr e] end)); [|reflexivity|reflexivity].
  revert ys H. induction xs as [|x xs IH]; intros ys H; cbn [filter_res flat_map] in *.
  - inversion H. reflexivity.
  - destruct (apply1 p x) as [b|e]; [|discriminate]. destruct (filter_res (apply1 p) xs) as [ys'|]; [|discriminate].
    inversion H; subst. rewrite (IH ys' eq_refl). destruct (truthy b); reflexivity.
Qed.
Lemma flat_items xs ys : flat_res xs = Some ys -> items_of item L_flat_map (its xs) = its ys.
Proof.
  intro H. rewrite (stateless_items L_flat_map (fun v => match v with VList l | VTuple l => map It l | _ => [] end)); [|reflexivity|reflexivity].
  revert ys H. induction xs as [|x xs IH]; intros ys H; cbn [flat_res flat_map] in *.
  - inversion H. reflexivity.
  - destruct x; try discriminate; destruct (flat_res xs) as [ys'|]; try discriminate; inversion H; subst;
      rewrite (IH ys' eq_refl); unfold its; now rewrite map_app.
Qed.
Lemma assert_items p xs : all_true (apply1 p) xs = true -> items_of item (L_assert p) (its xs) = its xs.
Proof.
  intro H. rewrite (stateless_items (L_assert p)
    (fun v => match apply1 p v with Ok r => if is_true r then [It v] else [IFatal ValueError] | Raise e => [IFatal e] end)); [|reflexivity|reflexivity].
  induction xs as [|x xs IH]; cbn [all_true flat_map] in *; [reflexivity|].
  destruct (apply1 p x) as [b|e]; [|discriminate]. apply andb_prop in H. destruct H as [H1 H2]. rewrite H1.
  cbn [app its map]. f_equal. apply IH. exact H2.
Qed.

(* scan under the typed-state precondition *)
Lemma scan_steps a seed t reduce term : forall xs acc st ys fin,
  acc = match st with Some c => c | None => seed end ->
  scan_res a t acc xs = Some (ys, fin) ->
  concat (fst (lsteps item (L_scan a seed t reduce term) st (its xs))) = (if reduce then [] else its ys) /\
  match snd (lsteps item (L_scan a seed t reduce term) st (its xs)) with Some c => c | None => seed end = fin.
Proof.
  induction xs as [|x xs IH]; intros acc st ys fin Hacc H; cbn [scan_res its map lsteps] in *.
  - inversion H; subst. cbn. split; [destruct reduce; reflexivity | reflexivity].
  - destruct (apply2 a acc x) as [acc'|e] eqn:Ea; [|discriminate].
    destruct (fits t acc') eqn:Ef; [|discriminate].
    destruct (scan_res a t acc' xs) as [[ys' fin']|] eqn:Er; [|discriminate]. inversion H; subst ys fin. clear H.
    cbn [lnext L_scan on_it]. rewrite <- Hacc, Ea, (fits_coerce t acc' Ef).
    destruct (IH acc' (Some acc') ys' fin' eq_refl Er) as [E1 E2]. unfold its in *.
    destruct (lsteps item (L_scan a seed t reduce term) (Some acc') (map It xs)) as [os s2]. cbn [fst snd concat] in *.
    split; [|exact E2]. rewrite E1. destruct reduce; reflexivity.
Qed.
Lemma scan_items a seed t reduce xs ys fin : scan_res a t seed xs = Some (ys, fin) ->
  items_of item (L_scan a seed t reduce None) (its xs) = its (if reduce then [fin] else ys).
Proof.
  intro H. unfold items_of, ltimed. cbn [l0 L_scan].
  destruct (scan_steps a seed t reduce None xs seed None ys fin eq_refl H) as [E1 E2].
  destruct (lsteps item (L_scan a seed t reduce None) None (its xs)) as [os s2]. cbn [fst snd] in *.
  rewrite E1. cbn [ldone L_scan app]. rewrite E2. destruct reduce; cbn; [reflexivity | now rewrite app_nil_r].
Qed.
(* with a terminator: its result is emitted once, at completion, after the running values *)
Lemma scan_term_items a seed t reduce f xs ys fin v : scan_res a t seed xs = Some (ys, fin) ->
  apply1 f fin = Ok v -> fits t v = true ->
  items_of item (L_scan a seed t reduce (Some f)) (its xs) = its (if reduce then [v] else ys ++ [v]).
Proof.
  intros H Hf Hv. unfold items_of, ltimed. cbn [l0 L_scan].
  destruct (scan_steps a seed t reduce (Some f) xs seed None ys fin eq_refl H) as [E1 E2].
  destruct (lsteps item (L_scan a seed t reduce (Some f)) None (its xs)) as [os s2]. cbn [fst snd] in *.
  rewrite E1. cbn [ldone L_scan]. rewrite E2, Hf, (fits_coerce t v Hv).
  destruct reduce; cbn; [reflexivity|]. unfold its. rewrite ?map_app, ?app_nil_r. reflexivity.
Qed.

(* assert_1 on a sequence whose consecutive pairs all pass *)
Lemma assert1_steps a : forall xs st,
  pairs_ok (apply2 a) (match st with Some p => p :: xs | None => xs end) = true ->
  concat (fst (lsteps item (L_assert1 a) st (its xs))) = its xs.
Proof.
  induction xs as [|x xs IH]; intros st H; [reflexivity|].
  cbn [its map lsteps lnext L_assert1 on_it].
  specialize (IH (Some x)). unfold its in IH.
  destruct (lsteps item (L_assert1 a) (Some x) (map It xs)) as [os s2]. cbn [fst concat] in *.
  destruct st as [p|].
  - cbn [pairs_ok] in H. destruct (apply2 a p x) as [b|e]; [|discriminate]. apply andb_prop in H. destruct H as [H1 H2].
    rewrite H1. cbn [app]. f_equal. apply IH. exact H2.
  - cbn [app]. f_equal. apply IH. exact H.
Qed.
Lemma assert1_items a xs : pairs_ok (apply2 a) xs = true -> items_of item (L_assert1 a) (its xs) = its xs.
Proof.
  intro H. unfold items_of, ltimed. cbn [l0 L_assert1].
  pose proof (assert1_steps a xs None H) as E.
  destruct (lsteps item (L_assert1 a) None (its xs)) as [os s2]. cbn [fst snd] in *.
  rewrite E. cbn [ldone L_assert1]. now rewrite app_nil_r.
Qed.

(* one operator *)
Theorem plain_op_items o xs ys : plain_op o xs = Some ys -> items_of item (bl item (den o)) (its xs) = its ys.
Proof.
  destruct o; cbn [plain_op]; intro H; try discriminate.
  - apply map_items; auto.
  - apply filter_items; auto.
  - apply flat_items; auto.
  - (* scan *) destruct term as [f|].
    + destruct (scan_res a t seed xs) as [[ys' fin]|] eqn:E; [|discriminate]. cbn [obind] in H.
      destruct (apply1 f fin) as [v|e] eqn:Ef; [|discriminate]. destruct (fits t v) eqn:Ev; [|discriminate].
      inversion H; subst. change (bl item (den (OScan a seed t reduce (Some f)))) with (L_scan a seed t reduce (Some f)).
      apply (scan_term_items a seed t reduce f xs ys' fin v E Ef Ev).
    + destruct (scan_res a t seed xs) as [[ys' fin]|] eqn:E; [|discriminate].
      cbn [obind] in H. inversion H; subst. change (bl item (den (OScan a seed t reduce None))) with (L_scan a seed t reduce None).
      apply (scan_items a seed t reduce xs ys' fin E).
  - (* first *) destruct xs as [|x xs]; [discriminate|]. inversion H; subst. change (bl item (den OFirst)) with L_first.
    now rewrite first_items.
  - (* last *) destruct xs as [|x xs]; [discriminate|]. inversion H; subst. change (bl item (den OLast)) with L_last.
    now rewrite last_items.
  - (* take *) inversion H; subst. change (bl item (den (OTake n))) with (L_take n). apply take_items.
  - (* assert *) destruct (all_true (apply1 p) xs) eqn:E; [|discriminate]. inversion H; subst.
    change (bl item (den (OAssert p))) with (L_assert p). apply assert_items; auto.
  - (* assert_1 *) destruct (pairs_ok (apply2 a) xs) eqn:E; [|discriminate]. inversion H; subst.
    change (bl item (den (OAssert1 a))) with (L_assert1 a). apply assert1_items; auto.
Qed.

(* pipelines: composition of list functions *)
Lemma items_of_id (xs : list item) : items_of item L_id xs = xs.
Proof.
  unfold items_of, ltimed. cbn [l0 L_id]. generalize tt as u. induction xs as [|x xs IH]; intro u; cbn [lsteps]; [reflexivity|].
  cbn [lnext L_id]. specialize (IH u). destruct (lsteps item L_id u xs) as [os s]. cbn [concat ldone L_id app] in *.
  rewrite app_nil_r in IH. rewrite app_nil_r. cbn. f_equal. exact IH.
Qed.
Theorem plain_pipe_items : forall P xs ys, plain_pipe P xs = Some ys -> items_of item (pipe_l P) (its xs) = its ys.
Proof.
  induction P as [|o P IH]; intros xs ys H; cbn [plain_pipe] in H.
  - inversion H; subst. apply items_of_id.
  - destruct (plain_op o xs) as [zs|] eqn:Eo; [|discriminate]. cbn [obind] in H.
    change (pipe_l (o :: P)) with (compose_l (bl item (den o)) (pipe_l P)).
    rewrite compose_items, (plain_op_items o xs zs Eo). apply IH. exact H.
Qed.
