(* C04: group_by at list level.  For the items xs of one parent key:
   keys_of xs      : the distinct key values in order of first appearance;
   members g xs    : the items whose key equals g, in source order (filter);
   group_state     : after xs, the local machine holds, in first-appearance order, one entry per
                     distinct key, whose inner state is that of a FRESH inner machine fed with
                     members g xs - i.e. every group's pipeline sees exactly its subsequence;
   group_step_out  : while x is consumed, exactly the inner machine of x's group emits;
   group_done      : at completion the open groups are completed in first-appearance order. *)
From Coq Require Import List Arith Lia Bool.
From RxVerif Require Import Mux.Sim Mux.SimExt Mux.LocalSemProofs.
Import ListNotations.

Section GroupSpec.
Variable V G : Type.
Variable geq : forall a b : G, {a = b} + {a <> b}.
Variable km : V -> G.
Variable LI : lmachine V.
Notation GL := (group_l V G geq km LI).

Definition geqb (a b : G) : bool := if geq a b then true else false.
Definition members (g : G) (xs : list V) : list V := filter (fun y => geqb (km y) g) xs.
Fixpoint keys_acc (acc : list G) (xs : list V) : list G :=
  match xs with
  | [] => acc
  | x :: r => if in_dec geq (km x) acc then keys_acc acc r else keys_acc (acc ++ [km x]) r
  end.
Definition keys_of (xs : list V) : list G := keys_acc [] xs.
Definition st_of (items : list V) : LS LI := snd (lsteps V LI (l0 LI) items).
Definition gstate (xs : list V) : LS GL := map (fun g => (g, st_of (members g xs))) (keys_of xs).

Lemma keys_acc_app : forall xs ys acc, keys_acc acc (xs ++ ys) = keys_acc (keys_acc acc xs) ys.
Proof. induction xs as [|x xs IH]; intros ys acc; cbn [app keys_acc]; [reflexivity|]. destruct (in_dec geq (km x) acc); apply IH. Qed.
Lemma keys_snoc xs x : keys_of (xs ++ [x]) = if in_dec geq (km x) (keys_of xs) then keys_of xs else keys_of xs ++ [km x].
Proof. unfold keys_of. rewrite keys_acc_app. cbn [keys_acc]. destruct (in_dec geq (km x) (keys_acc [] xs)); reflexivity. Qed.
Lemma keys_acc_in : forall xs acc g, In g (keys_acc acc xs) <-> In g acc \/ In g (map km xs).
Proof.
  induction xs as [|x xs IH]; intros acc g; cbn [keys_acc map In]; [tauto|].
  destruct (in_dec geq (km x) acc) as [Hi|Hn]; rewrite IH.
  - split; [tauto|]. intros [H|[<-|H]]; auto.
  - rewrite in_app_iff. cbn [In]. tauto.
Qed.
Lemma keys_in xs g : In g (keys_of xs) <-> In g (map km xs).
Proof. unfold keys_of. rewrite keys_acc_in. cbn [In]. tauto. Qed.
Lemma keys_acc_nodup : forall xs acc, NoDup acc -> NoDup (keys_acc acc xs).
Proof.
  induction xs as [|x xs IH]; intros acc Hnd; cbn [keys_acc]; auto.
  destruct (in_dec geq (km x) acc); apply IH; auto. apply NoDup_snoc; auto.
Qed.
Theorem keys_nodup xs : NoDup (keys_of xs).
Proof. apply keys_acc_nodup. constructor. Qed.

Lemma members_snoc g xs x : members g (xs ++ [x]) = if geq (km x) g then members g xs ++ [x] else members g xs.
Proof. unfold members, geqb. rewrite filter_app. cbn [filter]. destruct (geq (km x) g); [reflexivity | now rewrite app_nil_r]. Qed.
Lemma st_of_snoc items x : st_of (items ++ [x]) = fst (lnext LI (st_of items) x).
Proof. unfold st_of. rewrite lsteps_app. cbn [fst snd lsteps]. destruct (lnext LI (snd (lsteps V LI (l0 LI) items)) x). reflexivity. Qed.
Lemma members_notin g xs : ~ In g (map km xs) -> members g xs = [].
Proof.
  induction xs as [|y xs IH]; intro Hn; cbn; auto. unfold geqb. destruct (geq (km y) g) as [E|Hne].
  - exfalso. apply Hn. cbn. auto.
  - apply IH. intro Hi. apply Hn. cbn. auto.
Qed.

Lemma assoc_map_keys (f : G -> LS LI) g : forall l, assoc G geq g (map (fun g' => (g', f g')) l) = if in_dec geq g l then Some (f g) else None.
Proof.
  induction l as [|a l IH]; cbn [map assoc]; [reflexivity|].
  destruct (geq g a) as [->|Hne].
  - destruct (in_dec geq a (a :: l)) as [_|n]; [reflexivity | exfalso; apply n; now left].
  - rewrite IH. destruct (in_dec geq g l) as [Hi|Hn]; destruct (in_dec geq g (a :: l)) as [Hi'|Hn']; auto.
    + exfalso. apply Hn'. now right.
    + destruct Hi' as [E|Hi']; [congruence | contradiction].
Qed.
Lemma lg_upd_map_keys (f f' : G -> LS LI) g b : forall l, In g l -> NoDup l ->
  f' g = b -> (forall g', g' <> g -> f' g' = f g') ->
  lg_upd G geq g b (map (fun g' => (g', f g')) l) = map (fun g' => (g', f' g')) l.
Proof.
  induction l as [|a l IH]; intros Hi Hnd Hb Ho; [destruct Hi|]. cbn [map lg_upd]. inversion Hnd; subst.
  destruct (geq g a) as [E|Hne].
  - subst a. f_equal. apply map_ext_in. intros g' Hg'. rewrite Ho; auto. intro E; subst. contradiction.
  - rewrite (Ho a) by congruence. f_equal. apply IH; auto. destruct Hi as [E|Hi]; [congruence|auto].
Qed.

(* one step of the group machine from the state reached after xs *)
Theorem group_step xs x :
  lnext GL (gstate xs) x = (gstate (xs ++ [x]), snd (lnext LI (st_of (members (km x) xs)) x)).
Proof.
  cbn [lnext group_l]. unfold gstate at 1. rewrite assoc_map_keys.
  destruct (in_dec geq (km x) (keys_of xs)) as [Hi|Hn].
  - destruct (lnext LI (st_of (members (km x) xs)) x) as [s' o] eqn:En. f_equal.
    unfold gstate. rewrite keys_snoc. destruct (in_dec geq (km x) (keys_of xs)); [|contradiction].
    apply lg_upd_map_keys; auto using keys_nodup.
    + rewrite members_snoc. destruct (geq (km x) (km x)); [|congruence]. now rewrite st_of_snoc, En.
    + intros g' Hne. rewrite members_snoc. destruct (geq (km x) g'); [congruence|reflexivity].
  - assert (Hm : members (km x) xs = []) by (apply members_notin; rewrite <- keys_in; exact Hn).
    rewrite Hm. change (st_of []) with (l0 LI).
    destruct (lnext LI (l0 LI) x) as [s' o] eqn:En. f_equal.
    unfold gstate. rewrite keys_snoc. destruct (in_dec geq (km x) (keys_of xs)); [contradiction|].
    rewrite lg_upd_notin.
    + rewrite map_app. cbn [map]. f_equal.
      * apply map_ext_in. intros g' Hg'. rewrite members_snoc. destruct (geq (km x) g') as [E|]; [subst; contradiction|reflexivity].
      * rewrite members_snoc. destruct (geq (km x) (km x)); [|congruence]. rewrite Hm. cbn [app].
        unfold st_of. cbn [lsteps]. rewrite En. reflexivity.
    + rewrite map_map. cbn [fst]. rewrite map_id. exact Hn.
Qed.

Theorem group_run : forall xs,
  snd (lsteps V GL (l0 GL) xs) = gstate xs.
Proof.
  intro xs. pattern xs. apply rev_ind; [reflexivity|].
  intros x l IH. rewrite lsteps_app. cbn [fst snd lsteps]. rewrite IH, group_step. reflexivity.
Qed.
(* while x is consumed (after the items pre), only the inner machine of x's group emits: what a fresh
   inner machine that received the earlier members of the group emits on x *)
Theorem group_step_out pre x :
  snd (lnext GL (snd (lsteps V GL (l0 GL) pre)) x) = snd (lnext LI (st_of (members (km x) pre)) x).
Proof. rewrite group_run, group_step. reflexivity. Qed.
(* at completion: every group is completed, in order of first appearance *)
Theorem group_done xs :
  snd (ltimed V GL xs) = flat_map (fun g => ldone LI (st_of (members g xs))) (keys_of xs).
Proof.
  unfold ltimed. pose proof (group_run xs) as H. destruct (lsteps V GL (l0 GL) xs) as [os st]. cbn [fst snd] in *. subst st.
  cbn [ldone group_l]. unfold gstate. rewrite flat_map_concat_map, map_map, <- flat_map_concat_map. reflexivity.
Qed.
(* the groups partition the items: every item belongs to exactly the group of its key *)
Theorem members_partition xs x : In x xs -> In x (members (km x) xs) /\ forall g, In x (members g xs) -> g = km x.
Proof.
  intro Hi. split.
  - apply filter_In. split; auto. unfold geqb. destruct (geq (km x) (km x)); congruence.
  - intros g Hm. apply filter_In in Hm. destruct Hm as [_ Hm]. unfold geqb in Hm. destruct (geq (km x) g); [congruence|discriminate].
Qed.
End GroupSpec.
