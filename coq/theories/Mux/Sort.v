(* rs.data.sort(key, reverse) on a plain observable: to_list -> sorted(items, key=key, reverse=reverse)
   -> to_deque(extend=True): every item of the source, emitted after the source completed, in the order
   Python's sorted() gives them.  Model of sorted(): a stable insertion sort on the integer sort keys.
   reverse=True in Python keeps the original order of items with equal keys (it is not sorted()[::-1]). *)
From Coq Require Import List ZArith Bool.
From RxVerif Require Import Mux.Val.
Import ListNotations.

Section StableSort.
  Context {A : Type} (key : A -> Z) (rev : bool).
  (* an item with sort key a may stand before one with sort key b *)
  Definition before (a b : Z) : bool := if rev then (b <=? a)%Z else (a <=? b)%Z.
  (* x stood before every element of l in the source: it goes before the first element it may precede *)
  Fixpoint ins (x : A) (l : list A) : list A :=
    match l with
    | [] => [x]
    | y :: l' => if before (key x) (key y) then x :: l else y :: ins x l'
    end.
  Definition ssort (l : list A) : list A := fold_right ins [] l.
End StableSort.

(* the sort keys of the items: the key function must give an int for every item (anything else is outside
   this model: Python would compare floats, strings, tuples ... or raise TypeError) *)
Fixpoint int_keys (f : option fn) (xs : list val) : option (list (Z * val)) :=
  match xs with
  | [] => Some []
  | x :: r =>
      match (match f with None => Ok x | Some g => apply1 g x end), int_keys f r with
      | Ok (VInt z), Some l => Some ((z, x) :: l)
      | _, _ => None
      end
  end.
Definition py_sorted (f : option fn) (rev : bool) (xs : list val) : option (list val) :=
  option_map (fun l => map snd (ssort fst rev l)) (int_keys f xs).
