(* time_split's decision is invariant under an affine change of the time scale: timestamps ts -> base + ts * u and
   timeouts t -> t * u (u > 0 the unit) - what a run with datetime / timedelta values does to a run with integer
   timestamps (microseconds).  Hence the windows are the same. *)
From Coq Require Import List ZArith Bool Lia.
From RxVerif Require Import Mux.Val Mux.Sim Mux.SimExt Mux.Seg Mux.Ops.
Import ListNotations.

Lemma scaled_le (u base x t y : Z) : (0 < u)%Z ->
  ((base + x * u) + t * u <=? base + y * u)%Z = (x + t <=? y)%Z.
Proof.
  intro Hu. destruct (Z.leb_spec (x + t) y) as [H|H]; [apply Z.leb_le|apply Z.leb_gt]; nia.
Qed.

Theorem expired_affine (u base : Z) (a i : option Z) (start last new : Z) : (0 < u)%Z ->
  expired (option_map (fun t => t * u)%Z a) (option_map (fun t => t * u)%Z i)
          (base + start * u)%Z (base + last * u)%Z (base + new * u)%Z
  = expired a i start last new.
Proof.
  intro Hu. unfold expired. destruct a as [ta|], i as [ti|]; cbn [option_map]; rewrite ?scaled_le by exact Hu; reflexivity.
Qed.
