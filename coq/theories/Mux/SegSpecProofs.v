(* List semantics of the one-open-segment heads (split, time_split, roll with window = stride):
   the items of a key are cut into segments; every segment is processed by a FRESH copy of the inner
   local machine; the outputs are concatenated in segment order; the last segment is closed when the
   key completes; no item => no segment. *)
From Coq Require Import List Arith Lia Bool.
From RxVerif Require Import Mux.Sim Mux.SimExt Mux.Seg Mux.LocalSemProofs.
Import ListNotations.

Section SegSpec.
Variable V : Type.
Variable Sg : Type.
Variable sg0 : Sg.
Variable sg_next : Sg -> V -> Sg * list (act V).
Variable sg_open : Sg -> bool.
Hypothesis sg0_closed : sg_open sg0 = false.
Hypothesis sg_ok : forall s x, acts_ok V (sg_open s) (snd (sg_next s x)) = Some (sg_open (fst (sg_next s x))).
Variable LI : lmachine V.
Notation act := (act V).

(* all the actions of a lifetime, in order *)
Fixpoint all_acts (s : Sg) (xs : list V) : list act * Sg :=
  match xs with
  | [] => ([], s)
  | x :: xs' => let '(s1, a) := sg_next s x in let '(as_, s2) := all_acts s1 xs' in (a ++ as_, s2)
  end.
(* parse an action list into segments: (completed segments, the open one) *)
Fixpoint segs (done_ : list (list V)) (cur : option (list V)) (l : list act) : list (list V) * option (list V) :=
  match l with
  | [] => (done_, cur)
  | AOpen _ :: l' => segs done_ (Some []) l'
  | AItem _ x :: l' => segs done_ (option_map (fun items => items ++ [x]) cur) l'
  | AClose _ :: l' => segs (match cur with Some items => done_ ++ [items] | None => done_ end) None l'
  end.
Definition segments_of (xs : list V) : list (list V) :=
  let '(d, cur) := segs [] None (fst (all_acts sg0 xs)) in
  d ++ match cur with Some items => [items] | None => [] end.

Definition st_of (items : list V) : LS LI := snd (lsteps V LI (l0 LI) items).
Definition outs_of (items : list V) : list V := concat (fst (lsteps V LI (l0 LI) items)).
Lemma st_of_snoc items x : st_of (items ++ [x]) = fst (lnext LI (st_of items) x).
Proof. unfold st_of. rewrite lsteps_app. cbn [fst snd lsteps]. destruct (lnext LI (snd (lsteps V LI (l0 LI) items)) x). reflexivity. Qed.
Lemma outs_of_snoc items x : outs_of (items ++ [x]) = outs_of items ++ snd (lnext LI (st_of items) x).
Proof.
  unfold outs_of, st_of. rewrite lsteps_app. cbn [fst snd lsteps].
  destruct (lnext LI (snd (lsteps V LI (l0 LI) items)) x) as [s1 o1]. cbn [fst snd]. rewrite concat_app. cbn. now rewrite app_nil_r.
Qed.
Lemma items_of_split items : items_of V LI items = outs_of items ++ ldone LI (st_of items).
Proof. unfold items_of, ltimed, outs_of, st_of. destruct (lsteps V LI (l0 LI) items). reflexivity. Qed.

Definition inner_of (cur : option (list V)) : option (LS LI) := option_map st_of cur.
Definition out_of (d : list (list V)) (cur : option (list V)) : list V :=
  flat_map (items_of V LI) d ++ match cur with Some items => outs_of items | None => [] end.

Lemma lacts_segs : forall l o o' d cur,
  acts_ok V o l = Some o' -> (o = true <-> cur <> None) ->
  fst (lacts V LI (inner_of cur) l) = inner_of (snd (segs d cur l)) /\
  out_of (fst (segs d cur l)) (snd (segs d cur l)) = out_of d cur ++ snd (lacts V LI (inner_of cur) l) /\
  (o' = true <-> snd (segs d cur l) <> None).
Proof.
  induction l as [|a l IH]; intros o o' d cur Hok Hoc; cbn [acts_ok segs lacts] in *.
  - inversion Hok; subst. cbn [fst snd]. rewrite app_nil_r. auto.
  - destruct a as [|x|].
    + (* open *) destruct o; [discriminate|]. cbn [lact].
      assert (Hc : cur = None) by (destruct cur; auto; exfalso; assert (false = true) by (apply Hoc; discriminate); discriminate).
      subst cur. destruct (IH true o' d (Some []) Hok) as (A & B & C). { split; [discriminate|reflexivity]. }
      change (inner_of (Some [])) with (Some (l0 LI)) in *.
      destruct (lacts V LI (Some (l0 LI)) l) as [i' out']. cbn [fst snd app] in *.
      refine (conj A (conj _ C)). rewrite B. unfold out_of. cbn [outs_of lsteps fst concat]. reflexivity.
    + (* item *) destruct o; [|discriminate].
      destruct cur as [items|]; [|exfalso; apply (proj1 Hoc); auto].
      cbn [option_map lact inner_of].
      destruct (IH true o' d (Some (items ++ [x])) Hok) as (A & B & C). { split; [discriminate|reflexivity]. }
      cbn [inner_of option_map] in A, B. rewrite st_of_snoc in A, B.
      destruct (lnext LI (st_of items) x) as [st1 o1] eqn:En. cbn [fst snd] in *.
      destruct (lacts V LI (Some st1) l) as [i' out']. cbn [fst snd] in *.
      refine (conj A (conj _ C)). rewrite B. unfold out_of. rewrite outs_of_snoc, En. cbn [snd]. now rewrite <- !app_assoc.
    + (* close *) destruct o; [|discriminate].
      destruct cur as [items|]; [|exfalso; apply (proj1 Hoc); auto].
      cbn [option_map lact inner_of].
      destruct (IH false o' (d ++ [items]) None Hok) as (A & B & C). { split; [discriminate|congruence]. }
      change (inner_of None) with (@None (LS LI)) in *.
      destruct (lacts V LI None l) as [i' out']. cbn [fst snd] in *.
      refine (conj A (conj _ C)). rewrite B. unfold out_of. rewrite flat_map_app. cbn [flat_map].
      rewrite items_of_split. rewrite !app_nil_r. now rewrite <- !app_assoc.
Qed.

Lemma lacts_app : forall a b st,
  lacts V LI st (a ++ b) = (fst (lacts V LI (fst (lacts V LI st a)) b), snd (lacts V LI st a) ++ snd (lacts V LI (fst (lacts V LI st a)) b)).
Proof.
  induction a as [|x a IH]; intros b st; cbn [app lacts].
  - cbn [fst snd app]. destruct (lacts V LI st b); reflexivity.
  - destruct (lact V LI st x) as [st1 o1]. rewrite IH. destruct (lacts V LI st1 a) as [st2 o2]. cbn [fst snd].
    destruct (lacts V LI st2 b) as [st3 o3]. cbn [fst snd]. now rewrite app_assoc.
Qed.
Lemma acts_ok_app : forall a b o o1, acts_ok V o a = Some o1 -> acts_ok V o (a ++ b) = acts_ok V o1 b.
Proof.
  induction a as [|x a IH]; intros b o o1 H; cbn [app acts_ok] in *; [inversion H; reflexivity|].
  destruct x; destruct o; try discriminate; eauto.
Qed.

(* the whole lifetime: concatenated outputs and final state of seg_l in terms of all the actions *)
Lemma seg_lsteps : forall xs s inner,
  concat (fst (lsteps V (seg_l V Sg sg0 sg_next LI) (s, inner) xs)) = snd (lacts V LI inner (fst (all_acts s xs))) /\
  snd (lsteps V (seg_l V Sg sg0 sg_next LI) (s, inner) xs) = (snd (all_acts s xs), fst (lacts V LI inner (fst (all_acts s xs)))).
Proof.
  induction xs as [|x xs IH]; intros s inner; cbn [lsteps all_acts]; [split; reflexivity|].
  cbn [lnext seg_l fst snd]. destruct (sg_next s x) as [s1 a]. destruct (lacts V LI inner a) as [in1 o1] eqn:El.
  destruct (IH s1 in1) as [E1 E2]. destruct (lsteps V (seg_l V Sg sg0 sg_next LI) (s1, in1) xs) as [os st2].
  destruct (all_acts s1 xs) as [as_ s2]. cbn [fst snd concat] in *. rewrite lacts_app, El. cbn [fst snd].
  rewrite E1, E2. split; reflexivity.
Qed.
Lemma all_acts_ok : forall xs s, acts_ok V (sg_open s) (fst (all_acts s xs)) = Some (sg_open (snd (all_acts s xs))).
Proof.
  induction xs as [|x xs IH]; intro s; cbn [all_acts]; [reflexivity|].
  specialize (sg_ok s x). destruct (sg_next s x) as [s1 a]. cbn [fst snd] in sg_ok.
  specialize (IH s1). destruct (all_acts s1 xs) as [as_ s2]. cbn [fst snd] in *.
  rewrite (acts_ok_app a as_ _ _ sg_ok). exact IH.
Qed.

(* C05 (w = s) / C06 / C07: every segment is processed by a fresh inner machine, outputs in segment order *)
Theorem seg_items (xs : list V) :
  items_of V (seg_l V Sg sg0 sg_next LI) xs = flat_map (items_of V LI) (segments_of xs).
Proof.
  unfold segments_of. unfold items_of at 1. unfold ltimed at 1. cbn [l0 seg_l].
  destruct (seg_lsteps xs sg0 None) as [E1 E2].
  destruct (lsteps V (seg_l V Sg sg0 sg_next LI) (sg0, None) xs) as [os st]. cbn [fst snd] in *. subst st.
  cbn [ldone seg_l snd]. rewrite E1.
  pose proof (all_acts_ok xs sg0) as Hok. rewrite sg0_closed in Hok.
  destruct (lacts_segs (fst (all_acts sg0 xs)) false _ [] None Hok) as (A & B & C). { split; [discriminate|congruence]. }
  change (inner_of None) with (@None (LS LI)) in *.
  destruct (segs [] None (fst (all_acts sg0 xs))) as [d cur]. cbn [fst snd] in *.
  rewrite A. unfold out_of in B. cbn [flat_map app] in B. rewrite <- B.
  rewrite flat_map_app. destruct cur as [items|]; cbn [inner_of option_map flat_map].
  - rewrite items_of_split. now rewrite !app_nil_r, <- !app_assoc.
  - now rewrite !app_nil_r.
Qed.
End SegSpec.
