(* Inner boundaries of a pipeline, as executable functions of the input trace.
   bnd_pipe P t lists, in the order in which the harness numbers its recording taps, the event trace
   that crosses every boundary of P: after every operator, at the head of every inner pipeline
   (what group_by / roll / split / time_split feed to it) and at the head of every tee branch.
   The head feeds are the functions the inner-protocol theorems (InnerProtocolProofs) speak about
   (group_inner_trace, inner_trace); roll_feed is the same object for the sliding roll, and
   roll_m_feeds / seg_m_feeds / group_m_feeds prove that these ARE what the composite machines
   hand to their inner machine, whatever that machine is.  The correspondence check compares every
   one of them with what the tap at that boundary recorded in the real code. *)
From Coq Require Import List ZArith Bool Arith Lia.
From RxVerif Require Import Mux.Val Mux.Sim Mux.SimExt Mux.Seg Mux.Ops Mux.Syntax Mux.InnerProtocolProofs.
Import ListNotations.

Section RollFeed.
Variable V : Type.
Variables w s d : nat.
Notation ev := (ev V).
Definition roll_feed (st : rstate) (e : ev) : list ev :=
  let '(ns, ws) := st in
  match e with
  | Create _ => []
  | Next k x =>
      let n := nth (slot k) ns 0 in
      let opening := n mod s =? 0 in
      let onew := (n / s) mod d in
      let ws1 := if opening then set_nth (base d k + onew) (Some n) None ws else ws in
      (if opening then [Create (ikey d k onew)] else []) ++
      flat_map (fun o => cell_evs V w d k n x o (nth (base d k + o) ws1 None)) (offs d)
  | Done k =>
      flat_map (fun o => match nth (base d k + o) ws None with Some _ => [Done (ikey d k o)] | None => [] end)
               (rot s d (nth (slot k) ns 0))
  end.
Definition roll_next (st : rstate) (e : ev) : rstate :=
  let '(ns, ws) := st in
  match e with
  | Create k => (set_nth (slot k) 0 0 ns, set_range (base d k) (offs d) (fun _ => None) ws)
  | Next k x =>
      let n := nth (slot k) ns 0 in
      let opening := n mod s =? 0 in
      let onew := (n / s) mod d in
      let ws1 := if opening then set_nth (base d k + onew) (Some n) None ws else ws in
      (set_nth (slot k) (n + 1) 0 ns,
       set_range (base d k) (offs d) (fun o => cell_upd w n (nth (base d k + o) ws1 None)) ws1)
  | Done k => (set_nth (slot k) 0 0 ns, set_range (base d k) (offs d) (fun _ => None) ws)
  end.
Fixpoint roll_inner_trace (st : rstate) (t : list ev) : list ev :=
  match t with [] => [] | e :: t' => roll_feed st e ++ roll_inner_trace (roll_next st e) t' end.

Lemma roll_m_feeds (I : machine V) st si e :
  fst (step (roll_m V I w s d) (st, si) e) = (roll_next st e, fst (feed I si (roll_feed st e))).
Proof.
  destruct st as [ns ws]. destruct e as [k|k x|k]; cbn [step roll_m roll_feed roll_next fst feed].
  - reflexivity.
  - match goal with |- context [feed I si ?l] => destruct (feed I si l) as [si' o] end. reflexivity.
  - match goal with |- context [feed I si ?l] => destruct (feed I si l) as [si' o] end. reflexivity.
Qed.
End RollFeed.

(* The trace the sliding roll feeds to its inner pipeline is well-formed.  Proof by monitor: the inner
   machine is instantiated with a protocol monitor chk_m (state = live keys so far and one boolean that
   stays true while every event it has been fed was allowed).  chk_m refines the identity local machine
   with the relation `its live list is the abstract live list and its boolean is true`; roll_refines
   then carries that relation to every reachable state of roll_m chk_m, and roll_m_feeds says that what
   chk_m was fed is roll_inner_trace, whatever the inner machine is. *)
Section RollInnerWf.
Variable V : Type.
Variables w s d : nat.
Hypothesis Hs : 1 <= s.
Hypothesis Hd : w <= d * s.
Hypothesis Hd1 : 1 <= d.
Hypothesis Hw : 1 <= w.
Notation ev := (ev V).

Definition allowed_b (live : list key) (e : ev) : bool :=
  match e with
  | Create k => forallb (fun k' => negb (slot k' =? slot k)) live
  | Next k _ | Done k => existsb (fun k' => if keq k' k then true else false) live
  end.
Lemma allowed_b_iff live e : allowed_b live e = true <-> allowed live e.
Proof.
  destruct e as [k|k x|k]; cbn [allowed_b allowed].
  - rewrite forallb_forall. split; intros H k' Hi; specialize (H k' Hi).
    + apply negb_true_iff, Nat.eqb_neq in H. exact H.
    + apply negb_true_iff, Nat.eqb_neq. exact H.
  - rewrite existsb_exists. split.
    + intros (k' & Hi & E). destruct (keq k' k); [subst; auto|discriminate].
    + intro Hi. exists k. split; auto. destruct (keq k k); congruence.
  - rewrite existsb_exists. split.
    + intros (k' & Hi & E). destruct (keq k' k); [subst; auto|discriminate].
    + intro Hi. exists k. split; auto. destruct (keq k k); congruence.
Qed.

Definition chk_m : machine V :=
  {| St := list key * bool; init := ([], true);
     step := fun st e => ((after (fst st) e, snd st && allowed_b (fst st) e), [e]) |}.
Definition chk_l : lmachine V :=
  {| LS := unit; l0 := tt; lnext := fun _ x => (tt, [x]); ldone := fun _ => [] |}.
Definition chk_R (live : list key) (st : St chk_m) (m : kmap chk_l) : Prop :=
  fst st = live /\ snd st = true /\ forall k, m k <> None <-> In k live.
Lemma chk_refines : refines chk_m chk_l.
Proof.
  refine {| R := chk_R |}.
  - split; [reflexivity|]. split; [reflexivity|]. intro k. split; [congruence|intros []].
  - intros live [lv ok] m e Hg (E1 & E2 & Hm) Ha. cbn [fst snd] in E1, E2. subst lv ok.
    cbn [step chk_m fst snd]. destruct e as [k|k x|k]; cbn [kstep].
    + split; [reflexivity|]. split; [reflexivity|]. cbn [fst snd].
      split; [apply allowed_b_iff in Ha; exact Ha|].
      intro k0. unfold upd. cbn [after]. destruct (keq k0 k) as [->|N].
      * split; [intros _; left; reflexivity|congruence].
      * rewrite Hm. split; [intro; right; assumption|intros [E|Hi]; [congruence|assumption]].
    + cbn [allowed] in Ha. destruct (m k) as [[]|] eqn:Em; [|exfalso; apply (proj2 (Hm k) Ha); exact Em].
      cbn [lnext chk_l map fst snd]. split; [reflexivity|]. split; [reflexivity|].
      split; [apply (proj2 (allowed_b_iff live (Next k x))); exact Ha|].
      intro k0. unfold upd. cbn [after]. destruct (keq k0 k) as [->|N]; [split; [intros _; exact Ha|congruence]|apply Hm].
    + cbn [allowed] in Ha. destruct (m k) as [[]|] eqn:Em; [|exfalso; apply (proj2 (Hm k) Ha); exact Em].
      cbn [ldone chk_l map app fst snd]. split; [reflexivity|]. split; [reflexivity|].
      split; [apply (proj2 (allowed_b_iff live (Done k))); exact Ha|].
      intro k0. unfold upd. cbn [after]. rewrite in_remove_iff. destruct (keq k0 k) as [->|N].
      * split; [congruence|intros [_ N]; congruence].
      * rewrite Hm. tauto.
  - intros live st m k (_ & _ & Hm). apply Hm.
Defined.

(* what the monitor has seen *)
Fixpoint allowed_seq_b (lv : list key) (l : list ev) : bool :=
  match l with [] => true | e :: l' => allowed_b lv e && allowed_seq_b (after lv e) l' end.
Lemma allowed_seq_b_iff : forall l lv, allowed_seq_b lv l = true <-> allowed_seq lv l.
Proof.
  induction l as [|e l IH]; intro lv; cbn [allowed_seq_b allowed_seq]; [tauto|].
  rewrite andb_true_iff, allowed_b_iff, IH. tauto.
Qed.
Lemma chk_feed : forall l lv ok, fst (feed chk_m (lv, ok) l) = (after_seq lv l, ok && allowed_seq_b lv l).
Proof.
  induction l as [|e l IH]; intros lv ok; cbn [feed allowed_seq_b after_seq fst].
  - now rewrite andb_true_r.
  - cbn [step chk_m fst snd]. specialize (IH (after lv e) (ok && allowed_b lv e)).
    destruct (feed chk_m (after lv e, ok && allowed_b lv e) l) as [s2 o2]. cbn [fst] in *.
    rewrite IH. now rewrite andb_assoc.
Qed.
Lemma feed_app_fst (M : machine V) a b s0 : fst (feed M s0 (a ++ b)) = fst (feed M (fst (feed M s0 a)) b).
Proof.
  rewrite (feed_app V M a b s0). destruct (feed M s0 a) as [s1 o1]. cbn [fst].
  destruct (feed M s1 b) as [s2 o2]. reflexivity.
Qed.
Lemma roll_chk_run (I : machine V) : forall t st si,
  snd (fst (feed (roll_m V I w s d) (st, si) t)) = fst (feed I si (roll_inner_trace V w s d st t)).
Proof.
  induction t as [|e t IH]; intros st si; [reflexivity|].
  cbn [feed roll_inner_trace]. pose proof (roll_m_feeds V w s d I st si e) as F.
  destruct (step (roll_m V I w s d) (st, si) e) as [s1 o1]. cbn [fst] in F. subst s1.
  specialize (IH (roll_next V w s d st e) (fst (feed I si (roll_feed V w s d st e)))).
  destruct (feed (roll_m V I w s d) (roll_next V w s d st e, fst (feed I si (roll_feed V w s d st e))) t) as [s2 o2].
  cbn [fst] in *. rewrite IH. now rewrite feed_app_fst.
Qed.

Theorem roll_inner_wf : forall t, allowed_seq [] t -> allowed_seq [] (roll_inner_trace V w s d ([], []) t).
Proof.
  intros t Ht.
  pose (H := roll_refines V unit (fun _ => tt) chk_m chk_l chk_refines w s d Hs Hd Hd1 Hw).
  assert (Hg : good []) by (split; [constructor|intros ? ? []]).
  destruct (feed_refines V _ _ H t [] (init (roll_m V chk_m w s d)) (fun _ => None) Hg (R_init H) Ht) as [_ HR].
  assert (E : snd (fst (feed (roll_m V chk_m w s d) (init (roll_m V chk_m w s d)) t))
              = fst (feed chk_m ([], true) (roll_inner_trace V w s d ([], []) t)))
    by exact (roll_chk_run chk_m t ([], []) ([], true)).
  destruct (fst (feed (roll_m V chk_m w s d) (init (roll_m V chk_m w s d)) t)) as [[ns ws] si].
  cbn [snd] in E. cbn in HR. destruct HR as (ilive & mI & (E1 & E2 & _) & _).
  rewrite E, chk_feed in E2. cbn [snd andb] in E2. apply allowed_seq_b_iff. exact E2.
Qed.
End RollInnerWf.

(* The same end-to-end statement for the other heads: after ANY outer trace, the inner machine inside the
   composite is in exactly the state it reaches when run alone on the head's inner trace. *)
Lemma feed_app_fst' {V} (M : machine V) a b s0 : fst (feed M s0 (a ++ b)) = fst (feed M (fst (feed M s0 a)) b).
Proof.
  rewrite (feed_app V M a b s0). destruct (feed M s0 a) as [s1 o1]. cbn [fst].
  destruct (feed M s1 b) as [s2 o2]. reflexivity.
Qed.
Lemma feed_cons_fst {V} (M : machine V) e t s0 : fst (feed M s0 (e :: t)) = fst (feed M (fst (step M s0 e)) t).
Proof. cbn [feed]. destruct (step M s0 e) as [s1 o1]. cbn [fst]. destruct (feed M s1 t) as [s2 o2]. reflexivity. Qed.
Lemma seg_run_feeds (V Sg : Type) (sg0 : Sg) (nx : Sg -> V -> Sg * list (act V)) (op_ : Sg -> bool) (I : machine V) :
  forall t slots si,
  snd (fst (feed (seg_m V Sg sg0 nx op_ I) (slots, si) t)) = fst (feed I si (inner_trace V Sg sg0 nx op_ slots t)).
Proof.
  induction t as [|e t IH]; intros slots si; [reflexivity|].
  rewrite feed_cons_fst, (seg_m_feeds V Sg sg0 nx op_ I slots si e), IH.
  cbn [inner_trace]. now rewrite feed_app_fst'.
Qed.
Lemma group_run_feeds (V G : Type) (geq : forall a b : G, {a = b} + {a <> b}) (km : V -> G) (I : machine V) :
  forall t st si,
  snd (fst (feed (group_m V G geq km I) (st, si) t)) = fst (feed I si (group_inner_trace V G geq km st t)).
Proof.
  induction t as [|e t IH]; intros st si; [reflexivity|].
  rewrite feed_cons_fst, (group_m_feeds V G geq km I st si e), IH.
  cbn [group_inner_trace]. now rewrite feed_app_fst'.
Qed.
(* specials never reach the machine under a bypass: running it on t is running it on plain_evs t *)
Lemma bypass_run_plain (M : machine item) : forall t s0,
  fst (feed (bypass_m item special M) s0 t) = fst (feed M s0 (filter (fun e => match e with Next _ x => negb (special x) | _ => true end) t)).
Proof.
  induction t as [|e t IH]; intros s0; [reflexivity|].
  cbn [feed filter]. destruct e as [k|k x|k]; cbn [step bypass_m].
  - cbn [feed]. destruct (step M s0 (Create k)) as [s1 o1]. specialize (IH s1).
    destruct (feed (bypass_m item special M) s1 t) as [s2 o2]. cbn [fst] in *. rewrite IH.
    destruct (feed M s1 _) as [s3 o3]. reflexivity.
  - destruct (special x); cbn [negb].
    + specialize (IH s0). destruct (feed (bypass_m item special M) s0 t) as [s2 o2]. cbn [fst] in *. exact IH.
    + cbn [feed]. destruct (step M s0 (Next k x)) as [s1 o1]. specialize (IH s1).
      destruct (feed (bypass_m item special M) s1 t) as [s2 o2]. cbn [fst] in *. rewrite IH.
      destruct (feed M s1 _) as [s3 o3]. reflexivity.
  - cbn [feed]. destruct (step M s0 (Done k)) as [s1 o1]. specialize (IH s1).
    destruct (feed (bypass_m item special M) s1 t) as [s2 o2]. cbn [fst] in *. rewrite IH.
    destruct (feed M s1 _) as [s3 o3]. reflexivity.
Qed.

(* special items (mux errors, fatal, dead letters) bypass every head and every tee *)
Definition plain_evs (t : list iev) : list iev :=
  filter (fun e => match e with Next _ x => negb (special x) | _ => true end) t.
Definition flat_run (b : br_) (t : list iev) : list iev :=
  concat (run_timed (bm item b) (init (bm item b)) t).

Definition head_feed (o : op) (t : list iev) : option (list iev) :=
  match o with
  | OGroup km _ => Some (group_inner_trace item (list Z) zs_dec (key_of km) ([], 0) (plain_evs t))
  | ORoll w s _ =>
      match le_dec 1 s, le_dec 1 w with
      | left _, left _ =>
          if Nat.eqb w s then Some (inner_trace item nat 0 (rollc_next w) rollc_open [] (plain_evs t))
          else Some (roll_inner_trace item w s (density w s) ([], []) (plain_evs t))
      | _, _ => None
      end
  | OSplit pred _ => Some (inner_trace item _ None (split_next pred) (@opt_open (list Z)) [] (plain_evs t))
  | OTimeSplit tm a i c incl _ =>
      Some (inner_trace item _ None (tsplit_next tm a i c incl) (@opt_open (Z * Z)) [] (plain_evs t))
  | _ => None
  end.

Fixpoint bnd_op (o : op) (t : list iev) : list (list iev) :=
  let bnd_pipe := fix bp (p : list op) (t : list iev) : list (list iev) :=
    match p with
    | [] => []
    | o' :: p' => let a := flat_run (den o') t in bnd_op o' t ++ [a] ++ bp p' a
    end in
  let inner p := match head_feed o t with Some ft => bnd_pipe p ft ++ [ft] | None => [] end in
  match o with
  | OTee _ bs =>
      (fix bbs (bs : list (list op)) : list (list iev) :=
         match bs with [] => [] | p :: bs' => bnd_pipe p (plain_evs t) ++ [plain_evs t] ++ bbs bs' end) bs
  | OGroup _ p => inner p
  | ORoll _ _ p => inner p
  | OSplit _ p => inner p
  | OTimeSplit _ _ _ _ _ p => inner p
  | _ => []
  end.
Fixpoint bnd_pipe (p : list op) (t : list iev) : list (list iev) :=
  match p with
  | [] => []
  | o :: p' => let a := flat_run (den o) t in bnd_op o t ++ [a] ++ bnd_pipe p' a
  end.

(* the last boundary of a pipeline is its output *)
Lemma flat_run_compose a b t :
  flat_run (compose_b a b) t = flat_run b (flat_run a t).
Proof.
  unfold flat_run. cbn [bm compose_b mkb init compose_m].
  generalize (init (bm item a)) (init (bm item b)). induction t as [|e t IH]; intros sa sb.
  - reflexivity.
  - cbn [run_timed step compose_m].
    destruct (step (bm item a) sa e) as [sa' oa] eqn:Ea.
    destruct (feed (bm item b) sb oa) as [sb' ob] eqn:Eb.
    cbn [concat]. rewrite IH.
    (* flat run of b over oa ++ rest *)
    assert (Hf : forall (M : machine item) l s0 rest,
              concat (run_timed M s0 (l ++ rest))
              = snd (feed M s0 l) ++ concat (run_timed M (fst (feed M s0 l)) rest)).
    { intros M l. induction l as [|x l IHl]; intros s0 rest; cbn [app run_timed feed fst snd]; [reflexivity|].
      destruct (step M s0 x) as [s1 o1]. specialize (IHl s1 rest).
      destruct (feed M s1 l) as [s2 o2]. cbn [fst snd concat] in *. rewrite IHl. now rewrite app_assoc. }
    rewrite Hf, Eb. reflexivity.
Qed.
