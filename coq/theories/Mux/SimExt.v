(* Extensions of the simulation framework of Sim.v:
   - slot_m : the generic "state addressed by key[0] in a growing array" machine of every simple
     stateful operator, and slot_refines (array vs whole-key map);
   - bypass : items for which a predicate holds (errors, fatal tokens, dead letters) pass an
     operator untouched;
   - seg    : a generic head that keeps at most ONE open inner lifetime per key (inner key
     slot k :: k): _roll_count (window = stride), split and time_split are instances. *)
From Coq Require Import List Arith Lia Bool.
From RxVerif Require Import Mux.Sim.
Import ListNotations.

Arguments Create {V} k.
Arguments Next {V} k x.
Arguments Done {V} k.
Arguments St {V} m.
Arguments init {V} m.
Arguments step {V} m _ _.
Arguments LS {V} l.
Arguments l0 {V} l.
Arguments lnext {V} l _ _.
Arguments ldone {V} l _.
Arguments kmap {V} L.
Arguments upd {V L} m k v _.
Arguments kstep {V} L m e.
Arguments feed {V} M s l.
Arguments kfeed {V} L m l.
Arguments allowed {V} live e.
Arguments after {V} live e.
Arguments allowed_seq {V} live l.
Arguments after_seq {V} live l.
Arguments refines {V} M L.
Arguments R {V M L} r _ _ _.
Arguments R_init {V M L} r.
Arguments R_step {V M L} r live s m e _ _ _.
Arguments R_live {V M L} r live s m k _.
Arguments demux {V} o.
Arguments set_nth {A} n a d l.

Section Ext.
Variable V : Type.
Notation ev := (ev V).
Notation machine := (machine V).
Notation lmachine := (lmachine V).

(* ---------------------------------------------------------------- slot arrays *)
Definition slot_m (L : lmachine) : machine :=
  {| St := list (option (LS L)); init := [];
     step := fun a e =>
       match e with
       | Create k => (set_nth (slot k) (Some (l0 L)) None a, [Create k])
       | Next k x =>
           match nth (slot k) a None with
           | Some s => let '(s', o) := lnext L s x in (set_nth (slot k) (Some s') None a, map (Next k) o)
           | None => (a, [])
           end
       | Done k =>
           match nth (slot k) a None with
           | Some s => (set_nth (slot k) None None a, map (Next k) (ldone L s) ++ [Done k])
           | None => (a, [Done k])
           end
       end |}.

Definition RSlot (L : lmachine) (live : list key) (a : list (option (LS L))) (m : kmap L) : Prop :=
  (forall k, In k live -> nth (slot k) a None = m k) /\ (forall k, m k <> None <-> In k live).

Theorem slot_refines (L : lmachine) : refines (slot_m L) L.
Proof.
  refine (@Build_refines V (slot_m L) L (RSlot L) _ _ _).
  - split. intros k []. intro k; split; [intro H; exfalso; apply H; reflexivity | intros []].
  - intros live a m e [Hnd Hinj] [Hv Hl] Ha.
    destruct e as [k|k x|k]; cbn [allowed after] in *.
    + (* Create *) cbn [step slot_m kstep fst snd]. split; [reflexivity|].
      assert (Hnin : ~ In k live) by (intro Hi; apply (Ha k Hi); reflexivity).
      split.
      * intros k0 [<-|Hi]. now rewrite nth_set_nth_same, upd_same.
        rewrite nth_set_nth_other by (intro E; apply (Ha k0 Hi); auto).
        rewrite upd_other by congruence. auto.
      * intro k0. destruct (keq k0 k) as [->|Hne].
        rewrite upd_same. split; [intros _; now left | discriminate].
        rewrite upd_other by auto. rewrite Hl. split; [intro; now right | intros [E|Hi]; congruence].
    + (* Next *) cbn [step slot_m kstep]. rewrite (Hv k Ha).
      destruct (m k) as [s0|] eqn:Em; [|exfalso; apply (proj2 (Hl k) Ha); auto].
      destruct (lnext L s0 x) as [s' o]. cbn [fst snd]. split; [reflexivity|]. split.
      * intros k0 Hi. destruct (keq k0 k) as [->|Hne]. now rewrite nth_set_nth_same, upd_same.
        rewrite nth_set_nth_other by (intro E; apply Hne; symmetry; apply Hinj; auto).
        rewrite upd_other by auto. auto.
      * intro k0. destruct (keq k0 k) as [->|Hne]. rewrite upd_same. split; [auto | discriminate].
        rewrite upd_other by auto. apply Hl.
    + (* Done *) cbn [step slot_m kstep]. rewrite (Hv k Ha).
      destruct (m k) as [s0|] eqn:Em; [|exfalso; apply (proj2 (Hl k) Ha); auto].
      cbn [fst snd]. split; [reflexivity|]. split.
      * intros k0 Hi. apply in_remove_iff in Hi. destruct Hi as [Hi Hne].
        rewrite nth_set_nth_other by (intro E; apply Hne; symmetry; apply Hinj; auto).
        rewrite upd_other by auto. auto.
      * intro k0. rewrite in_remove_iff. destruct (keq k0 k) as [->|Hne].
        rewrite upd_same. split; [congruence | intros [_ ?]; congruence].
        rewrite upd_other by auto. rewrite Hl. tauto.
  - intros live a m k [_ Hl]. apply Hl.
Qed.

(* ---------------------------------------------------------------- bypass *)
Variable sp : V -> bool.
Definition bypass_m (M : machine) : machine :=
  {| St := St M; init := init M;
     step := fun s e => match e with
                        | Next k x => if sp x then (s, [Next k x]) else step M s e
                        | _ => step M s e end |}.
Definition bypass_l (L : lmachine) : lmachine :=
  {| LS := LS L; l0 := l0 L;
     lnext := fun s x => if sp x then (s, [x]) else lnext L s x;
     ldone := ldone L |}.

Lemma kstep_ext (L : lmachine) (m m' : kmap L) e : (forall k, m k = m' k) ->
  snd (kstep L m e) = snd (kstep L m' e) /\ forall k, fst (kstep L m e) k = fst (kstep L m' e) k.
Proof.
  intro E. destruct e as [k|k x|k]; cbn [kstep].
  - split; auto. intro k0. cbn [fst]. unfold upd. destruct (keq k0 k); auto.
  - rewrite <- (E k). destruct (m k) as [s0|]; [|split; auto].
    destruct (lnext L s0 x) as [s' o]. split; auto. intro k0. cbn [fst]. unfold upd. destruct (keq k0 k); auto.
  - rewrite <- (E k). destruct (m k) as [s0|]; (split; [auto|]); intro k0; cbn [fst]; auto.
    unfold upd. destruct (keq k0 k); auto.
Qed.

Theorem bypass_refines (M : machine) (L : lmachine) (H : refines M L) : refines (bypass_m M) (bypass_l L).
Proof.
  refine (@Build_refines V (bypass_m M) (bypass_l L) (fun live (s : St (bypass_m M)) (m' : kmap (bypass_l L)) =>
                   exists m : kmap L, R H live s m /\ forall k, m k = m' k) _ _ _).
  - exists (fun _ => None). split; [apply (R_init H) | reflexivity].
  - intros live s m' e Hg (m & HR & E) Ha.
    assert (Hgen : forall e0, (forall k x, e0 = Next k x -> sp x = false) -> allowed live e0 ->
      snd (step M s e0) = snd (kstep (bypass_l L) m' e0) /\
      exists m2 : kmap L, R H (after live e0) (fst (step M s e0)) m2 /\ forall k, m2 k = fst (kstep (bypass_l L) m' e0) k).
    { intros e0 Hns Ha0. destruct (R_step H live s m e0 Hg HR Ha0) as [Ho HR'].
      assert (Hk : snd (kstep L m e0) = snd (kstep (bypass_l L) m' e0) /\
                   forall k, fst (kstep L m e0) k = fst (kstep (bypass_l L) m' e0) k).
      { destruct e0 as [k|k x|k]; cbn [kstep bypass_l lnext ldone l0 LS].
        - split; auto. intro k0. cbn [fst]. unfold upd. destruct (keq k0 k); auto.
        - rewrite (Hns k x eq_refl). rewrite <- (E k). destruct (m k) as [s0|]; [|split; auto].
          destruct (lnext L s0 x) as [s' o]. split; auto. intro k0. cbn [fst]. unfold upd. destruct (keq k0 k); auto.
        - rewrite <- (E k). destruct (m k) as [s0|]; (split; [auto|]); intro k0; cbn [fst]; auto.
          unfold upd. destruct (keq k0 k); auto. }
      destruct Hk as [Hk1 Hk2]. split; [congruence|]. eexists; split; [exact HR'|exact Hk2]. }
    destruct e as [k|k x|k].
    + apply Hgen; auto. intros; discriminate.
    + cbn [step bypass_m]. destruct (sp x) eqn:Esp.
      * cbn [allowed] in Ha. cbn [kstep bypass_l lnext]. rewrite Esp.
        assert (Hm : m k <> None) by (apply (R_live H live s m k HR); auto).
        rewrite <- (E k). destruct (m k) as [s0|] eqn:Em; [|congruence]. cbn [fst snd after].
        split; [reflexivity|]. exists m. split; [exact HR|]. intro k0. unfold upd. destruct (keq k0 k) as [->|]; auto.
      * apply Hgen; auto. intros k0 x0 Eq. inversion Eq; subst; auto.
    + apply Hgen; auto. intros; discriminate.
  - intros live s m' k (m & HR & E). rewrite <- (E k). apply (R_live H live s m k HR).
Qed.
End Ext.
