(* The master refinement for every pipeline of the grammar, and its operator-independent
   corollaries (C02 confinement, C03 output protocol), stated on the executable run_timed. *)
From Coq Require Import List ZArith Bool Arith Lia.
From RxVerif Require Import Mux.Val Mux.Sim Mux.SimExt Mux.Seg Mux.Ops Mux.Syntax Mux.ConfineProofs.
Import ListNotations.

Definition pipe_m (P : list op) : machine item := bm item (den_pipe P).
Definition pipe_l (P : list op) : lmachine item := bl item (den_pipe P).
Definition wf (t : list iev) : Prop := allowed_seq [] t.
Definition raw_run (P : list op) (t : list iev) : list (list iev) := run_timed (pipe_m P) (init (pipe_m P)) t.
Definition local_run (P : list op) (t : list iev) : list (list iev) := krun item (pipe_l P) (kempty item (pipe_l P)) t.

Lemma run_timed_mrun (M : machine item) : forall t s, run_timed M s t = mrun item M s t.
Proof. induction t as [|e t IH]; intro s; cbn; [reflexivity|]. destruct (step M s e). now rewrite IH. Qed.

(* for EVERY pipeline: the slot-level machine refines the key-lift of its local machine *)
Definition master_refinement (P : list op) : refines (pipe_m P) (pipe_l P) := br item (den_pipe P).

Theorem pipe_run_local (P : list op) (t : list iev) : wf t -> raw_run P t = local_run P t.
Proof. intro Ht. unfold raw_run. rewrite run_timed_mrun. apply run_refines0; [apply master_refinement | exact Ht]. Qed.

Theorem pipe_confined (P : list op) (t : list iev) (k : key) : wf t ->
  sel item k t (raw_run P t) = local_run P (filter (on_key item k) t).
Proof. intro Ht. rewrite (pipe_run_local P t Ht). apply sel_proj. reflexivity. Qed.

Theorem pipe_lifetime (P : list op) (t pre life : list iev) (k : key) : wf t ->
  filter (on_key item k) t = pre ++ Create k :: life ->
  sel item k t (raw_run P t) = local_run P pre ++ local_run P (Create k :: life).
Proof. intros Ht E. rewrite (pipe_run_local P t Ht). apply lifetime_fresh. exact E. Qed.

Theorem pipe_output_wf (P : list op) (t : list iev) : wf t ->
  wf (concat (raw_run P t)) /\ after_seq [] (concat (raw_run P t)) = after_seq [] t.
Proof.
  intro Ht. rewrite (pipe_run_local P t Ht). apply krun_wf; [|exact Ht].
  intro k. unfold kempty. split; [congruence | intros []].
Qed.

(* ---------- from the slot-level run to the list semantics of one lifetime ---------- *)
From RxVerif Require Import Mux.LocalSemProofs.

Theorem lifetime_outputs (P : list op) (t pre : list iev) (k : key) (xs : list item) : wf t ->
  filter (on_key item k) t = pre ++ lifetime item k xs ->
  sel item k t (raw_run P t) =
    local_run P pre ++
    ([Create k] :: map (map (Next k)) (fst (ltimed item (pipe_l P) xs))
                ++ [map (Next k) (snd (ltimed item (pipe_l P) xs)) ++ [Done k]]).
Proof.
  intros Ht E. rewrite (pipe_lifetime P t pre (map (Next k) xs ++ [Done k]) k Ht E). f_equal.
  apply krun_lifetime.
Qed.

(* a pipeline ends with the identity machine: it can be dropped *)
Lemma lfeed_id : forall (o : list item) (u : unit), lfeed L_id u o = (u, o).
Proof. induction o as [|x o IH]; intro u; cbn [lfeed]; [reflexivity|]. cbn [lnext L_id]. rewrite IH. reflexivity. Qed.
Lemma lsteps_compose_id (L : lm) : forall xs a,
  lsteps item (compose_l L L_id) (a, tt) xs = (fst (lsteps item L a xs), (snd (lsteps item L a xs), tt)).
Proof.
  induction xs as [|x xs IH]; intro a; cbn [lsteps]; [reflexivity|].
  cbn [lnext compose_l]. destruct (lnext L a x) as [a1 o1]. rewrite lfeed_id. rewrite IH.
  destruct (lsteps item L a1 xs) as [os a2]. reflexivity.
Qed.
Theorem ltimed_compose_id (L : lm) (xs : list item) : ltimed item (compose_l L L_id) xs = ltimed item L xs.
Proof.
  unfold ltimed. cbn [l0 compose_l L_id]. rewrite lsteps_compose_id.
  destruct (lsteps item L (l0 L) xs) as [os a]. cbn [fst snd ldone compose_l]. rewrite lfeed_id. cbn [ldone L_id]. now rewrite app_nil_r.
Qed.
(* the local machine of a one-operator pipeline *)
Lemma pipe_l_single (o : op) : pipe_l [o] = compose_l (bl item (den o)) L_id.
Proof. reflexivity. Qed.
