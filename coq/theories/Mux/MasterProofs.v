(* The master refinement for every pipeline of the grammar, and its operator-independent
   corollaries (C02 confinement, C03 output protocol), stated on the executable run_timed. *)
From Coq Require Import List ZArith Bool Arith Lia.
From RxVerif Require Import Mux.Val Mux.Sim Mux.SimExt Mux.Seg Mux.Ops Mux.Syntax Mux.ConfineProofs.
Import ListNotations.

Definition pipe_m (P : list op) : machine item := bm item (den_pipe P).
Definition pipe_l (P : list op) : lmachine item := bl item (den_pipe P).
Definition wf (t : list iev) : Prop := allowed_seq [] t.
Definition raw_run (P : list op) (t : list iev) : list (list iev) := run_timed (pipe_m P) (init (pipe_m P)) t.
Definition local_run (P : list op) (t : list iev) : list (list iev) := krun item (pipe_l P) (kempty item (pipe_l P)) t.

Lemma run_timed_mrun (M : machine item) : forall t s, run_timed M s t = mrun item M s t.
Proof. induction t as [|e t IH]; intro s; cbn; [reflexivity|]. destruct (step M s e). now rewrite IH. Qed.

(* for EVERY pipeline: the slot-level machine refines the key-lift of its local machine *)
Definition master_refinement (P : list op) : refines (pipe_m P) (pipe_l P) := br item (den_pipe P).

Theorem pipe_run_local (P : list op) (t : list iev) : wf t -> raw_run P t = local_run P t.
Proof. intro Ht. unfold raw_run. rewrite run_timed_mrun. apply run_refines0; [apply master_refinement | exact Ht]. Qed.

Theorem pipe_confined (P : list op) (t : list iev) (k : key) : wf t ->
  sel item k t (raw_run P t) = local_run P (filter (on_key item k) t).
Proof. intro Ht. rewrite (pipe_run_local P t Ht). apply sel_proj. reflexivity. Qed.

Theorem pipe_lifetime (P : list op) (t pre life : list iev) (k : key) : wf t ->
  filter (on_key item k) t = pre ++ Create k :: life ->
  sel item k t (raw_run P t) = local_run P pre ++ local_run P (Create k :: life).
Proof. intros Ht E. rewrite (pipe_run_local P t Ht). apply lifetime_fresh. exact E. Qed.

Theorem pipe_output_wf (P : list op) (t : list iev) : wf t ->
  wf (concat (raw_run P t)) /\ after_seq [] (concat (raw_run P t)) = after_seq [] t.
Proof.
  intro Ht. rewrite (pipe_run_local P t Ht). apply krun_wf; [|exact Ht].
  intro k. unfold kempty. split; [congruence | intros []].
Qed.
