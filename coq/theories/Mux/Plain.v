(* plain_pipe: what a pipeline of dual-mode operators computes on a PLAIN Observable, as list functions
   (the RxPY operators rx.operators.map/filter/take/first/last, scan_obs, flat_map_obs, _assert_obs).
   None = the plain observable ends with on_error (a raising function, first/last on an empty sequence,
   a failing assert) or the operator is outside the modelled fragment.  Executable; no proofs. *)
From Coq Require Import List ZArith Bool.
From RxVerif Require Import Mux.Val Mux.Sim Mux.SimExt Mux.Ops Mux.Syntax.
Import ListNotations.

Definition obind {A B} (o : option A) (f : A -> option B) : option B := match o with Some a => f a | None => None end.
Fixpoint map_res (f : val -> res) (xs : list val) : option (list val) :=
  match xs with
  | [] => Some []
  | x :: r => match f x with Ok y => obind (map_res f r) (fun ys => Some (y :: ys)) | Raise _ => None end
  end.
Fixpoint filter_res (p : val -> res) (xs : list val) : option (list val) :=
  match xs with
  | [] => Some []
  | x :: r => match p x with
              | Ok b => obind (filter_res p r) (fun ys => Some (if truthy b then x :: ys else ys))
              | Raise _ => None end
  end.
(* the typed-state precondition of C01: the accumulator result has the type of the seed's array *)
Definition fits (t : sty) (v : val) : bool :=
  match t, v with
  | TObj, _ => true
  | TInt, VInt z => ((- 9223372036854775808 <=? z) && (z <? 9223372036854775808))%Z
  | TFloat, VFloat _ => true
  | TBool, VBool _ => true
  | _, _ => false
  end.
(* running fold under that precondition *)
Fixpoint scan_res (a : fn2) (t : sty) (acc : val) (xs : list val) : option (list val * val) :=
  match xs with
  | [] => Some ([], acc)
  | x :: r => match apply2 a acc x with
              | Ok acc' => if fits t acc' then obind (scan_res a t acc' r) (fun '(ys, fin) => Some (acc' :: ys, fin)) else None
              | Raise _ => None end
  end.
Fixpoint flat_res (xs : list val) : option (list val) :=
  match xs with
  | [] => Some []
  | VList l :: r | VTuple l :: r => obind (flat_res r) (fun ys => Some (l ++ ys))
  | _ :: _ => None
  end.
Fixpoint all_true (p : val -> res) (xs : list val) : bool :=
  match xs with [] => true | x :: r => match p x with Ok b => is_true b && all_true p r | Raise _ => false end end.

Fixpoint pairs_ok (a : val -> val -> res) (xs : list val) : bool :=
  match xs with
  | [] => true
  | x :: r => match r with
              | [] => true
              | y :: _ => match a x y with Ok b => is_true b && pairs_ok a r | Raise _ => false end
              end
  end.

Definition plain_op (o : op) (xs : list val) : option (list val) :=
  match o with
  | OMap f => map_res (apply1 f) xs
  | OFilter p => filter_res (apply1 p) xs
  | OFlatMap => flat_res xs
  | OTake n => Some (firstn (Z.to_nat n) xs)
  | OFirst => match xs with [] => None | x :: _ => Some [x] end
  | OLast => match xs with [] => None | x :: r => Some [last r x] end
  | OAssert p => if all_true (apply1 p) xs then Some xs else None
  | OScan a seed t reduce None =>
      obind (scan_res a t seed xs) (fun '(ys, fin) => Some (if reduce then [fin] else ys))
  (* scan_obs.on_completed with a terminator: state = terminator(state or seed), emitted once *)
  | OScan a seed t reduce (Some term) =>
      obind (scan_res a t seed xs) (fun '(ys, fin) =>
        match apply1 term fin with
        | Ok v => if fits t v then Some (if reduce then [v] else ys ++ [v]) else None
        | Raise _ => None
        end)
  (* _assert_1_obs: every item is compared with its predecessor *)
  | OAssert1 a => if pairs_ok (apply2 a) xs then Some xs else None
  | _ => None
  end.
Fixpoint plain_pipe (p : list op) (xs : list val) : option (list val) :=
  match p with [] => Some xs | o :: p' => obind (plain_op o xs) (plain_pipe p') end.
