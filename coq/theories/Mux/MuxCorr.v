(* Correspondence checker for the multiplexed operators: the slot-level machine bm (den_pipe p)
   is run on the trace the implementation was run on; outputs are compared step by step. *)
From Coq Require Import List ZArith Bool.
From RxVerif Require Import Base.Corr Mux.Val Mux.Sim Mux.SimExt Mux.Ops Mux.Syntax Mux.Plain Mux.PlainTimed Mux.Boundaries Mux.QuietProofs Mux.Sort.
Import ListNotations.

Inductive oev :=
| OC (k : key) | ON (k : key) (v : val) | OD (k : key) | OE (k : key) (e : exn)
| OF (e : exn)      (* on_error at the subscriber *)
| ODl (e : exn).    (* item on the dead-letter observable *)
Definition norm (e : iev) : oev :=
  match e with
  | Create k => OC k | Done k => OD k
  | Next k (It v) => ON k v | Next k (IErr e) => OE k e
  | Next _ (IFatal e) => OF e | Next _ (IDead e) => ODl e
  end.
Definition key_eqb (a b : key) : bool := list_eqb Nat.eqb a b.
Definition oev_same (a b : oev) : bool :=
  match a, b with
  | OC k, OC k' | OD k, OD k' => key_eqb k k'
  | ON k v, ON k' v' => key_eqb k k' && val_same v v'
  | OE k e, OE k' e' => key_eqb k k' && Z.eqb e e'
  | OF e, OF e' | ODl e, ODl e' => Z.eqb e e'
  | _, _ => false
  end.
Inductive muxcase :=
| MCRaised
| MCSkip           (* pipeline contains an operator without Coq model: oracle only *)
| MC (p : list op) (t : list iev) (out : list (list oev))
(* the same pipeline on plain observables: (items, what the plain run emitted before completing) *)
| MCPlain (p : list op) (runs : list (list val * list val))
(* the timed plain model: (items, what the plain run emitted while each item was pushed, at completion) *)
| MCPlainT (p : list op) (runs : list (list val * list (list val) * list val))
(* every inner boundary: what the recording taps saw, in tap order (Boundaries.bnd_pipe);
   mask drops the boundaries inside the expansion of a derived operator (mean = scan ; map), which
   the real code, having one operator there, cannot tap *)
| MCBnd (p : list op) (t : list iev) (mask : list bool) (taps : list (list oev))
(* the protocol predicate of the C03 theorems itself (allowed_seq, through its boolean reflection
   Boundaries.allowed_seq_b), evaluated on what the recording taps saw in the real code *)
| MCWf (taps : list (list oev))
(* the pipeline satisfies the hypothesis of QuietProofs.nothing_held_back *)
| MCPerItem (p : list op)
(* rs.data.sort on a plain observable: (items, what was emitted) against the model of sorted() *)
| MCSort (f : option fn) (rev : bool) (runs : list (list val * list val))
| MCAnd (a b : muxcase).
Definition mux_model (p : list op) (t : list iev) : list (list oev) := map (map norm) (run_pipe p t).
Definition plain_agrees (p : list op) (r : list val * list val) : bool :=
  match plain_pipe p (fst r) with
  | Some ys => list_eqb val_same ys (snd r)
  | None => true          (* outside the modelled plain fragment, or the model says on_error *)
  end.
Definition plain_timed_agrees (p : list op) (r : list val * list (list val) * list val) : bool :=
  if negb (tsafe p) then true else       (* take/first followed by a completion-triggered operator *)
  match ptimed_pipe p (fst (fst r)) with
  | Some (os, fin) => list_eqb (list_eqb val_same) os (snd (fst r)) && list_eqb val_same fin (snd r)
  | None => true          (* outside the timed plain fragment, or the model says on_error *)
  end.
Fixpoint keep {A} (mask : list bool) (l : list A) : list A :=
  match mask, l with
  | true :: m, x :: l' => x :: keep m l'
  | false :: m, _ :: l' => keep m l'
  | _, _ => l
  end.
Fixpoint evs_of_oevs (t : list oev) : list (ev unit) :=
  match t with
  | [] => []
  | OC k :: r => Create k :: evs_of_oevs r
  | ON k _ :: r | OE k _ :: r => Next k tt :: evs_of_oevs r
  | OD k :: r => Done k :: evs_of_oevs r
  | _ :: r => evs_of_oevs r
  end.
Definition tap_wf (t : list oev) : bool := allowed_seq_b unit [] (evs_of_oevs t).
Fixpoint mux_check (c : muxcase) : bool :=
  match c with
  | MCRaised => false
  | MCSkip => true
  | MC p t out => list_eqb (list_eqb oev_same) (mux_model p t) out
  | MCPlain p runs => forallb (plain_agrees p) runs
  | MCPlainT p runs => forallb (plain_timed_agrees p) runs
  | MCBnd p t mask taps => list_eqb (list_eqb oev_same) (keep mask (map (map norm) (bnd_pipe p t))) taps
  | MCWf taps => forallb tap_wf taps
  | MCPerItem p => per_item_pipe p
  | MCSort f rev runs => forallb (fun r => match py_sorted f rev (fst r) with Some ys => list_eqb val_same ys (snd r) | None => false end) runs
  | MCAnd a b => mux_check a && mux_check b
  end.
