(* C03, inner boundaries: the trace that a head feeds to its inner pipeline is well-formed whenever the
   outer trace is.  Stated on the heads alone (independent of the inner machine):
   - seg_inner_wf   : split, time_split, roll with window = stride (generic one-segment head)
   - group_inner_wf : group_by
   (for the sliding roll the same fact is `allowed_batches` + `ring_free` inside roll_refines.) *)
From Coq Require Import List Arith Lia Bool.
From RxVerif Require Import Mux.Sim Mux.SimExt Mux.Seg.
Import ListNotations.

Section SegInner.
Variable V : Type.
Variable Sg : Type.
Variable sg0 : Sg.
Variable sg_next : Sg -> V -> Sg * list (act V).
Variable sg_open : Sg -> bool.
Hypothesis sg0_closed : sg_open sg0 = false.
Hypothesis sg_ok : forall s x, acts_ok V (sg_open s) (snd (sg_next s x)) = Some (sg_open (fst (sg_next s x))).
Notation ev := (ev V).

(* what the head feeds to the inner pipeline while one outer event is processed, and its next state *)
Definition seg_feed (slots : list Sg) (e : ev) : list ev :=
  match e with
  | Create _ => []
  | Next k x => map (ev_of V k) (snd (sg_next (nth (slot k) slots sg0) x))
  | Done k => if sg_open (nth (slot k) slots sg0) then [Done (ik k)] else []
  end.
Definition seg_slots (slots : list Sg) (e : ev) : list Sg :=
  match e with
  | Create k => set_nth (slot k) sg0 sg0 slots
  | Next k x => set_nth (slot k) (fst (sg_next (nth (slot k) slots sg0) x)) sg0 slots
  | Done _ => slots
  end.
Fixpoint inner_trace (slots : list Sg) (t : list ev) : list ev :=
  match t with [] => [] | e :: t' => seg_feed slots e ++ inner_trace (seg_slots slots e) t' end.

(* seg_feed / seg_slots are exactly what the composite machine does: the inner machine is fed seg_feed *)
Lemma seg_m_feeds (I : machine V) slots si e :
  fst (step (seg_m V Sg sg0 sg_next sg_open I) (slots, si) e)
  = (seg_slots slots e, fst (feed I si (seg_feed slots e))).
Proof.
  destruct e as [k|k x|k]; cbn [step seg_m seg_feed seg_slots feed fst].
  - reflexivity.
  - destruct (sg_next (nth (slot k) slots sg0) x) as [s' acts]. cbn [fst snd].
    destruct (feed I si (map (ev_of V k) acts)) as [si' o]. reflexivity.
  - destruct (feed I si (if sg_open (nth (slot k) slots sg0) then [Done (ik k)] else [])) as [si' o]. reflexivity.
Qed.

Definition inner_inv (live : list key) (slots : list Sg) (ilive : list key) : Prop :=
  good ilive /\ forall j, In j ilive <-> exists k, In k live /\ sg_open (nth (slot k) slots sg0) = true /\ j = ik k.

Lemma ik_inj' k k' : ik k = ik k' -> k = k'.
Proof. unfold ik. intro E. inversion E; auto. Qed.

Lemma seg_step_wf live slots ilive e : good live -> allowed live e -> inner_inv live slots ilive ->
  allowed_seq ilive (seg_feed slots e) /\
  inner_inv (after live e) (seg_slots slots e) (after_seq ilive (seg_feed slots e)).
Proof.
  intros Hg Ha [Hgi Hik]. destruct e as [k|k x|k]; cbn [allowed after seg_feed seg_slots allowed_seq after_seq] in *.
  - (* Create *) split; [exact I|]. split; [exact Hgi|].
    assert (Hnin : ~ In k live) by (intro Hi; apply (Ha k Hi); auto).
    assert (Hoth : forall k', In k' live -> nth (slot k') (set_nth (slot k) sg0 sg0 slots) sg0 = nth (slot k') slots sg0).
    { intros k' Hi. apply nth_set_nth_other. intro E. apply (Ha k' Hi); auto. }
    intro j. rewrite Hik. split.
    + intros (k0 & H1 & H2 & H3). exists k0. repeat split; auto. now right. rewrite Hoth; auto.
    + intros (k0 & [<-|H1] & H2 & H3).
      * rewrite nth_set_nth_same, sg0_closed in H2. discriminate.
      * exists k0. rewrite Hoth in H2; auto.
  - (* Next *)
    set (s := nth (slot k) slots sg0). specialize (sg_ok s x).
    destruct (sg_next s x) as [s' acts] eqn:Esg. cbn [fst snd] in *.
    assert (Hopen : In (ik k) ilive <-> sg_open s = true).
    { rewrite Hik. split. intros (k0 & H1 & H2 & H3). apply ik_inj' in H3. subst k0. exact H2. intro. exists k. auto. }
    assert (Hslots : forall j, In j ilive -> j <> ik k -> slot j <> slot (ik k)).
    { intros j Hj Hne E. apply Hik in Hj. destruct Hj as (k0 & H1 & _ & ->). apply Hne. f_equal. apply (proj2 Hg); auto. }
    destruct (acts_allowed V k acts (sg_open s) (sg_open s') ilive Hopen Hslots sg_ok) as (Hal & Haft1 & Haft2).
    split; [exact Hal|]. split; [apply good_after_seq; auto|].
    assert (Hoth : forall k', In k' live -> k' <> k -> nth (slot k') (set_nth (slot k) s' sg0 slots) sg0 = nth (slot k') slots sg0).
    { intros k' Hi Hne. apply nth_set_nth_other. intro E. apply Hne. symmetry. apply (proj2 Hg); auto. }
    intro j. destruct (keq j (ik k)) as [->|Hne].
    + rewrite Haft1. split.
      * intro Hs'. exists k. repeat split; auto. now rewrite nth_set_nth_same.
      * intros (k0 & H1 & H2 & H3). apply ik_inj' in H3. subst k0. now rewrite nth_set_nth_same in H2.
    + rewrite (Haft2 j Hne), Hik. split; intros (k0 & H1 & H2 & H3); exists k0.
      * rewrite Hoth; auto. intro; subst; auto.
      * rewrite Hoth in H2; auto. intro; subst; auto.
  - (* Done *)
    set (s := nth (slot k) slots sg0).
    assert (Hopen : In (ik k) ilive <-> sg_open s = true).
    { rewrite Hik. split. intros (k0 & H1 & H2 & H3). apply ik_inj' in H3. subst k0. exact H2. intro. exists k. auto. }
    destruct (sg_open s) eqn:Eo; cbn [allowed_seq after_seq allowed after].
    + assert (Hi : In (ik k) ilive) by (apply Hopen; auto). split; [auto|]. split.
      * apply (good_after V ilive (Done (ik k)) Hgi Hi).
      * intro j. rewrite in_remove_iff, Hik. split.
        -- intros [(k0 & H1 & H2 & H3) Hne]. exists k0. split; [|split; auto].
           apply in_remove_iff. split; auto. intro E. subst k0. congruence.
        -- intros (k0 & H1 & H2 & H3). apply in_remove_iff in H1. destruct H1 as [H1 Hn]. split.
           ++ exists k0; auto.
           ++ subst j. intro E. apply ik_inj' in E. auto.
    + split; [exact I|]. split; [exact Hgi|]. intro j. rewrite Hik. split.
      * intros (k0 & H1 & H2 & H3). exists k0. repeat split; auto. apply in_remove_iff. split; auto. intro; subst k0. fold s in H2. congruence.
      * intros (k0 & H1 & H2 & H3). apply in_remove_iff in H1. exists k0. tauto.
Qed.

Theorem seg_inner_wf : forall t live slots ilive, good live -> allowed_seq live t -> inner_inv live slots ilive ->
  allowed_seq ilive (inner_trace slots t).
Proof.
  induction t as [|e t IH]; intros live slots ilive Hg Hal Hinv; cbn [inner_trace allowed_seq] in *; [exact I|].
  destruct Hal as [Ha Hal]. destruct (seg_step_wf live slots ilive e Hg Ha Hinv) as [H1 H2].
  apply allowed_seq_app. split; [exact H1|].
  exact (IH (after live e) (seg_slots slots e) _ (good_after V live e Hg Ha) Hal H2).
Qed.
Corollary seg_inner_wf0 t : allowed_seq [] t -> allowed_seq [] (inner_trace [] t).
Proof.
  intro Ht. apply (seg_inner_wf t [] [] []); auto.
  - split. constructor. intros ? ? [].
  - split. split. constructor. intros ? ? []. intro j. split; [intros [] | intros (k & [] & _)].
Qed.
End SegInner.

(* ------------------------------------------------------------------ group_by *)
Section GroupInner.
Variables (V G : Type) (geq : forall a b : G, {a = b} + {a <> b}) (km : V -> G).
Notation ev := (ev V).
Definition gstate := (list (list (G * nat)) * nat)%type.
Definition group_feed (st : gstate) (e : ev) : list ev :=
  let '(slots, ctr) := st in
  match e with
  | Create _ => []
  | Next k x => match assoc G geq (km x) (nth (slot k) slots []) with
                | Some idx => [Next (idx :: k) x]
                | None => [Create (ctr :: k); Next (ctr :: k) x]
                end
  | Done k => dones V G k (nth (slot k) slots [])
  end.
Definition group_next (st : gstate) (e : ev) : gstate :=
  let '(slots, ctr) := st in
  match e with
  | Create k => (set_nth (slot k) [] [] slots, ctr)
  | Next k x => match assoc G geq (km x) (nth (slot k) slots []) with
                | Some _ => (slots, ctr)
                | None => (set_nth (slot k) (nth (slot k) slots [] ++ [(km x, ctr)]) [] slots, S ctr)
                end
  | Done k => (set_nth (slot k) [] [] slots, ctr)
  end.
Fixpoint group_inner_trace (st : gstate) (t : list ev) : list ev :=
  match t with [] => [] | e :: t' => group_feed st e ++ group_inner_trace (group_next st e) t' end.

Lemma group_m_feeds (I : machine V) st si e :
  fst (step (group_m V G geq km I) (st, si) e) = (group_next st e, fst (feed I si (group_feed st e))).
Proof.
  destruct st as [slots ctr]. destruct e as [k|k x|k]; cbn [step group_m group_feed group_next fst].
  - reflexivity.
  - destruct (assoc G geq (km x) (nth (slot k) slots [])) as [idx|].
    + destruct (feed I si [Next (idx :: k) x]) as [si' o]. reflexivity.
    + destruct (feed I si [Create (ctr :: k); Next (ctr :: k) x]) as [si' o]. reflexivity.
  - unfold dones. destruct (feed I si (map (fun '(_, idx) => Done (idx :: k)) (nth (slot k) slots []))) as [si' o]. reflexivity.
Qed.

Definition ginv (live : list key) (st : gstate) (ilive : list key) : Prop :=
  good ilive /\
  (forall j, In j ilive <-> exists k g idx, In k live /\ In (g, idx) (nth (slot k) (fst st) []) /\ j = idx :: k) /\
  (forall k g idx, In k live -> In (g, idx) (nth (slot k) (fst st) []) -> idx < snd st) /\
  (forall k, In k live -> NoDup (map snd (nth (slot k) (fst st) []))).

Lemma group_step_wf live st ilive e : good live -> allowed live e -> ginv live st ilive ->
  allowed_seq ilive (group_feed st e) /\ ginv (after live e) (group_next st e) (after_seq ilive (group_feed st e)).
Proof.
  destruct st as [slots ctr]. intros Hg Ha (Hgi & Hik & Hlt & Hnd). cbn [fst snd] in *.
  destruct e as [k|k x|k]; cbn [allowed after group_feed group_next allowed_seq after_seq fst snd] in *.
  - (* Create *) split; [exact I|].
    assert (Hnin : ~ In k live) by (intro Hi; apply (Ha k Hi); auto).
    assert (Hoth : forall k', In k' live -> nth (slot k') (set_nth (slot k) [] [] slots) [] = nth (slot k') slots []).
    { intros k' Hi. apply nth_set_nth_other. intro E. apply (Ha k' Hi); auto. }
    refine (conj Hgi (conj _ (conj _ _))); cbn [fst snd].
    + intro j. rewrite Hik. split.
      * intros (k0 & g & idx & H1 & H2 & H3). exists k0, g, idx. repeat split; auto. now right. rewrite Hoth; auto.
      * intros (k0 & g & idx & [<-|H1] & H2 & H3). rewrite nth_set_nth_same in H2. destruct H2.
        exists k0, g, idx. rewrite Hoth in H2; auto.
    + intros k0 g idx [<-|H1] H2. rewrite nth_set_nth_same in H2; destruct H2. rewrite Hoth in H2; eauto.
    + intros k0 [<-|H1]. rewrite nth_set_nth_same; constructor. rewrite Hoth; auto.
  - (* Next *)
    set (mp := nth (slot k) slots []). destruct (assoc G geq (km x) mp) as [idx|] eqn:Ea.
    + cbn [allowed_seq after_seq allowed after]. split.
      * split; auto. apply Hik. exists k, (km x), idx. repeat split; auto. apply assoc_in in Ea. exact Ea.
      * refine (conj Hgi (conj Hik (conj Hlt Hnd))).
    + assert (Hfresh : forall j, In j ilive -> slot j <> ctr).
      { intros j Hj. apply Hik in Hj. destruct Hj as (k0 & g & idx & H1 & H2 & ->). cbn. specialize (Hlt k0 g idx H1 H2). lia. }
      cbn [allowed_seq after_seq allowed after]. split.
      * split; [intros j Hj; apply Hfresh; auto | split; [now left | exact I]].
      * assert (Hoth : forall k', In k' live -> k' <> k -> nth (slot k') (set_nth (slot k) (mp ++ [(km x, ctr)]) [] slots) [] = nth (slot k') slots []).
        { intros k' Hi Hne. apply nth_set_nth_other. intro E. apply Hne. symmetry. apply (proj2 Hg); auto. }
        refine (conj _ (conj _ (conj _ _))); cbn [fst snd].
        -- apply (good_after V ilive (Create (ctr :: k)) Hgi). intros j Hj. cbn. apply Hfresh; auto.
        -- intro j. cbn [In]. rewrite Hik. split.
           ++ intros [<-|(k0 & g & idx & H1 & H2 & H3)].
              ** exists k, (km x), ctr. repeat split; auto. rewrite nth_set_nth_same. apply in_or_app. right. now left.
              ** exists k0, g, idx. repeat split; auto. destruct (keq k0 k) as [->|Hne].
                 rewrite nth_set_nth_same. apply in_or_app. now left. rewrite Hoth; auto.
           ++ intros (k0 & g & idx & H1 & H2 & H3). destruct (keq k0 k) as [->|Hne].
              ** rewrite nth_set_nth_same in H2. apply in_app_or in H2. destruct H2 as [H2|[H2|[]]].
                 right. exists k, g, idx. auto. inversion H2; subst. now left.
              ** rewrite Hoth in H2; auto. right. exists k0, g, idx. auto.
        -- intros k0 g idx H1 H2. destruct (keq k0 k) as [->|Hne].
           ++ rewrite nth_set_nth_same in H2. apply in_app_or in H2. destruct H2 as [H2|[H2|[]]].
              specialize (Hlt k g idx H1 H2). lia. inversion H2; subst. lia.
           ++ rewrite Hoth in H2; auto. specialize (Hlt k0 g idx H1 H2). lia.
        -- intros k0 H1. destruct (keq k0 k) as [->|Hne].
           ++ rewrite nth_set_nth_same, map_app. cbn [map snd]. apply NoDup_snoc; [apply Hnd; auto|].
              intro Hi. apply in_map_iff in Hi. destruct Hi as ([g idx] & E & Hi). cbn in E. subst idx.
              specialize (Hlt k g ctr H1 Hi). lia.
           ++ rewrite Hoth; auto.
  - (* Done *)
    set (mp := nth (slot k) slots []).
    destruct (allowed_dones V G k mp ilive (Hnd k Ha)) as [Hal Haft].
    { intros g idx Hi. apply Hik. exists k, g, idx. auto. }
    split; [exact Hal|].
    assert (Hoth : forall k', In k' live -> k' <> k -> nth (slot k') (set_nth (slot k) [] [] slots) [] = nth (slot k') slots []).
    { intros k' Hi Hne. apply nth_set_nth_other. intro E. apply Hne. symmetry. apply (proj2 Hg); auto. }
    refine (conj _ (conj _ (conj _ _))); cbn [fst snd].
    + apply good_after_seq; auto.
    + intro j. rewrite Haft, Hik. split.
      * intros [(k0 & g & idx & H1 & H2 & H3) Hno]. assert (k0 <> k). { intro; subst k0. apply (Hno g idx H2). exact H3. }
        exists k0, g, idx. repeat split; auto. apply in_remove_iff; auto. rewrite Hoth; auto.
      * intros (k0 & g & idx & H1 & H2 & H3). apply in_remove_iff in H1. destruct H1 as [H1 Hne]. rewrite Hoth in H2; auto.
        split. exists k0, g, idx; auto. intros g0 idx0 Hi0 E. subst j. inversion E; subst. auto.
    + intros k0 g idx H1 H2. apply in_remove_iff in H1. destruct H1 as [H1 Hne]. rewrite Hoth in H2; eauto.
    + intros k0 H1. apply in_remove_iff in H1. destruct H1 as [H1 Hne]. rewrite Hoth; auto.
Qed.

Theorem group_inner_wf : forall t live st ilive, good live -> allowed_seq live t -> ginv live st ilive ->
  allowed_seq ilive (group_inner_trace st t).
Proof.
  induction t as [|e t IH]; intros live st ilive Hg Hal Hinv; cbn [group_inner_trace allowed_seq] in *; [exact I|].
  destruct Hal as [Ha Hal]. destruct (group_step_wf live st ilive e Hg Ha Hinv) as [H1 H2].
  apply allowed_seq_app. split; [exact H1|].
  exact (IH (after live e) (group_next st e) _ (good_after V live e Hg Ha) Hal H2).
Qed.
Corollary group_inner_wf0 t : allowed_seq [] t -> allowed_seq [] (group_inner_trace ([], 0) t).
Proof.
  intro Ht. apply (group_inner_wf t [] ([], 0) []); auto.
  - split. constructor. intros ? ? [].
  - refine (conj _ (conj _ (conj _ _))).
    + split. constructor. intros ? ? [].
    + intro j. split; [intros [] | intros (k & g & idx & [] & _)].
    + intros k g idx [].
    + intros k [].
Qed.
End GroupInner.
