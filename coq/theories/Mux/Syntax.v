(* Operator grammar and its denotation.
   den : op -> branch item   gives for every operator (and, through den_pipe, every pipeline)
     bm  the slot-level machine that the correspondence check evaluates against the Python code,
     bl  the per-key local machine (the index-free specification of one lifetime of one key),
     br  the proof that bm refines the key-lift of bl on every well-formed trace.
   The record is built compositionally from slot_refines, bypass_refines, compose_refines,
   group_refines, roll_refines, seg_refines and tee_refines: `br (den_pipe P)` IS the master
   refinement theorem for the pipeline P. *)
From Coq Require Import List ZArith Bool Arith Lia.
From RxVerif Require Import Mux.Val Mux.Sim Mux.SimExt Mux.Seg Mux.Ops.
Import ListNotations.

Definition br_ := branch item.
Definition mkb (M : machine item) (L : lm) (H : refines M L) : br_ := Build_branch item M L H.

Definition simple_b (L : lm) : br_ := mkb (slot_m item L) L (slot_refines item L).
Definition compose_b (a b : br_) : br_ :=
  mkb (compose_m item (bm item a) (bm item b)) (compose_l item (bl item a) (bl item b))
      (compose_refines item _ _ _ _ (br item a) (br item b)).
Definition bypass_b (b : br_) : br_ :=
  mkb (bypass_m item special (bm item b)) (bypass_l item special (bl item b))
      (bypass_refines item special _ _ (br item b)).
Definition id_b : br_ := simple_b L_id.
(* the inner pipeline of a head ends in the head's demux: an inner OnErrorMux becomes on_error *)
Definition inner_b (b : br_) : br_ := compose_b b (simple_b L_errfatal).

Definition zs_dec : forall a b : list Z, {a = b} + {a <> b} := list_eq_dec Z.eq_dec.
Definition group_b (km : fn) (b : br_) : br_ :=
  bypass_b (mkb (group_m item (list Z) zs_dec (key_of km) (bm item (inner_b b)))
                (group_l item (list Z) zs_dec (key_of km) (bl item (inner_b b)))
                (group_refines item (list Z) zs_dec (key_of km) _ _ (br item (inner_b b)))).

Lemma rollc_closed : rollc_open 0 = false. Proof. reflexivity. Qed.
Lemma rollc_ok w : forall c x, acts_ok item (rollc_open c) (snd (rollc_next w c x))
                               = Some (rollc_open (fst (rollc_next w c x))).
Proof.
  intros c x. unfold rollc_next, rollc_open. destruct c as [|c].
  - cbn [Nat.eqb negb app]. destruct (Nat.eqb (0 + 1) w); reflexivity.
  - cbn [Nat.eqb negb app]. destruct (Nat.eqb (S c + 1) w) eqn:E; cbn [fst snd acts_ok].
    + reflexivity.
    + replace (S c + 1) with (S (c + 1)) by lia. reflexivity.
Qed.
Lemma split_ok pred : forall st x, acts_ok item (opt_open st) (snd (split_next pred st x))
                                   = Some (opt_open (fst (split_next pred st x))).
Proof. intros [q|] x; unfold split_next; [destruct (zs_eqb (key_of pred x) q)|]; reflexivity. Qed.
Lemma tsplit_ok tm a i c incl : forall st x,
  acts_ok item (opt_open st) (snd (tsplit_next tm a i c incl st x))
  = Some (opt_open (fst (tsplit_next tm a i c incl st x))).
Proof.
  intros [[s0 l0]|] x; unfold tsplit_next;
    repeat match goal with |- context [if ?b then _ else _] => destruct b end; reflexivity.
Qed.

Definition seg_b {Sg : Type} (sg0 : Sg) (nx : Sg -> item -> Sg * list iact) (op_ : Sg -> bool)
    (H0 : op_ sg0 = false)
    (Hok : forall s x, acts_ok item (op_ s) (snd (nx s x)) = Some (op_ (fst (nx s x))))
    (b : br_) : br_ :=
  bypass_b (mkb (seg_m item Sg sg0 nx op_ (bm item (inner_b b)))
                (seg_l item Sg sg0 nx (bl item (inner_b b)))
                (seg_refines item Sg sg0 nx op_ H0 Hok _ _ (br item (inner_b b)))).

(* density of the ring of window slots: ceil (w / s) *)
Definition density (w s : nat) : nat := w / s + (if Nat.eqb (w mod s) 0 then 0 else 1).
Lemma density_ok w s : 1 <= s -> 1 <= w -> w <= density w s * s /\ 1 <= density w s.
Proof.
  intros Hs Hw. unfold density. pose proof (Nat.div_mod w s ltac:(lia)) as E.
  pose proof (Nat.mod_upper_bound w s ltac:(lia)) as B.
  destruct (Nat.eqb (w mod s) 0) eqn:Em.
  - apply Nat.eqb_eq in Em. split; [nia|]. destruct (w / s); [nia|lia].
  - apply Nat.eqb_neq in Em. split; nia.
Qed.
Definition roll_b (w s : nat) (b : br_) : br_ :=
  match le_dec 1 s, le_dec 1 w with
  | left Hs, left Hw =>
      if Nat.eqb w s
      then seg_b 0 (rollc_next w) rollc_open rollc_closed (rollc_ok w) b
      else bypass_b (mkb (roll_m item (bm item (inner_b b)) w s (density w s))
                         (roll_l item (bl item (inner_b b)) w s (density w s))
                         (roll_refines item unit (fun _ => tt) _ _ (br item (inner_b b)) w s (density w s) Hs
                            (proj1 (density_ok w s Hs Hw)) (proj2 (density_ok w s Hs Hw)) Hw))
  | _, _ => id_b           (* rs.data.roll raises ValueError at construction *)
  end.

Definition tee_b (mode : jmode) (bs : list br_) : br_ :=
  match bs with
  | [] => id_b
  | b :: r => bypass_b (mkb (tee_m item mode mk_tuple special (b :: r)) (tee_l item mode mk_tuple special (b :: r))
                            (tee_refines item mode mk_tuple special (b :: r) (le_n_S 0 (length r) (Nat.le_0_l _))))
  end.

Inductive op :=
| OMap (f : fn) | OFilter (p : fn) | OFlatMap
| OScan (a : fn2) (seed : val) (t : sty) (reduce : bool) (term : option fn)
| OFirst | OLast | OTake (n : Z) | ODistinct (km : fn) | OLag (n : nat)
| OPadStart (n : nat) (v : val) | OPadEnd (n : nat) (v : val) | OStartWith (l : list val)
| OAssert (p : fn) | OAssert1 (a : fn2)
| OIgnore | OErrMap (f : fn) | ORoute
| OTee (mode : jmode) (bs : list (list op))
| OGroup (km : fn) (p : list op)
| ORoll (w s : nat) (p : list op)
| OSplit (pred : fn) (p : list op)
| OTimeSplit (tm : fn) (active inactive : option Z) (closing : option fn) (incl : bool) (p : list op).

Fixpoint den (o : op) : br_ :=
  let den_pipe := fix dp (p : list op) : br_ :=
    match p with [] => id_b | o' :: p' => compose_b (den o') (dp p') end in
  match o with
  | OMap f => simple_b (L_map f)
  | OFilter p => simple_b (L_filter p)
  | OFlatMap => simple_b L_flat_map
  | OScan a seed t reduce term => simple_b (L_scan a seed t reduce term)
  | OFirst => simple_b L_first
  | OLast => simple_b L_last
  | OTake n => simple_b (L_take n)
  | ODistinct km => simple_b (L_distinct km)
  | OLag n => simple_b (L_lag n)
  | OPadStart n v => simple_b (L_pad_start n v)
  | OPadEnd n v => simple_b (L_pad_end n v)
  | OStartWith l => simple_b (L_start_with l)
  | OAssert p => simple_b (L_assert p)
  | OAssert1 a => simple_b (L_assert1 a)
  | OIgnore => simple_b L_ignore
  | OErrMap f => simple_b (L_errmap f)
  | ORoute => simple_b L_route
  | OTee mode bs =>
      tee_b mode ((fix dbs (bs : list (list op)) : list br_ :=
                     match bs with [] => [] | p :: bs' => den_pipe p :: dbs bs' end) bs)
  | OGroup km p => group_b km (den_pipe p)
  | ORoll w s p => roll_b w s (den_pipe p)
  | OSplit pred p => seg_b None (split_next pred) (@opt_open (list Z)) eq_refl (split_ok pred) (den_pipe p)
  | OTimeSplit tm a i c incl p =>
      seg_b None (tsplit_next tm a i c incl) (@opt_open (Z * Z)) eq_refl (tsplit_ok tm a i c incl) (den_pipe p)
  end.
Fixpoint den_pipe (p : list op) : br_ :=
  match p with [] => id_b | o :: p' => compose_b (den o) (den_pipe p') end.

(* ---------- running ---------- *)
Definition iev := ev item.
Fixpoint run_timed (M : machine item) (s : St M) (t : list iev) : list (list iev) :=
  match t with [] => [] | e :: t' => let '(s', o) := step M s e in o :: run_timed M s' t' end.
(* RxPY on_error ends the run: nothing after the first fatal token is observable *)
Definition is_fatal (e : iev) : bool := match e with Next _ (IFatal _) => true | _ => false end.
Fixpoint cut_step (o : list iev) : list iev * bool :=
  match o with
  | [] => ([], false)
  | e :: o' => if is_fatal e then ([e], true) else let '(r, f) := cut_step o' in (e :: r, f)
  end.
Fixpoint cut_at_fatal (outs : list (list iev)) : list (list iev) :=
  match outs with
  | [] => []
  | o :: rest => let '(r, f) := cut_step o in if f then r :: map (fun _ => []) rest else r :: cut_at_fatal rest
  end.
Definition run_pipe (p : list op) (t : list iev) : list (list iev) :=
  let M := bm item (den_pipe p) in cut_at_fatal (run_timed M (init M) t).
