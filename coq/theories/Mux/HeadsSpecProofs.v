(* What the segments of split, of roll (window = stride) and of time_split ARE, as list functions
   of the items of one key (C06, C05 for w = s, C07). *)
From Coq Require Import List ZArith Arith Lia Bool.
From RxVerif Require Import Mux.Val Mux.Sim Mux.SimExt Mux.Seg Mux.Ops Mux.LocalSemProofs Mux.SegSpecProofs.
Import ListNotations.

Lemma zs_eqb_eq : forall p q, zs_eqb p q = true <-> p = q.
Proof.
  induction p as [|u p IH]; destruct q as [|v q]; cbn; split; intro H; try discriminate; auto.
  - apply andb_prop in H. destruct H as [H1 H2]. apply Z.eqb_eq in H1. apply IH in H2. subst. reflexivity.
  - inversion H; subst. rewrite Z.eqb_refl. apply IH. reflexivity.
Qed.

(* ------------------------------------------------------------------ split *)
Section Split.
Variable pred : fn.
Notation kf := (key_of pred).
(* (completed runs, open run) after xs, starting inside a run `cur` whose predicate value is q *)
Fixpoint runs_go (cur : list item) (q : list Z) (xs : list item) : list (list item) * list item :=
  match xs with
  | [] => ([], cur)
  | x :: r => if zs_eqb (kf x) q then runs_go (cur ++ [x]) q r
              else let '(d, c) := runs_go [x] (kf x) r in (cur :: d, c)
  end.
Definition runs (xs : list item) : list (list item) :=
  match xs with [] => [] | x :: r => let '(d, c) := runs_go [x] (kf x) r in d ++ [c] end.

Lemma split_segs : forall xs d cur q,
  segs item d (Some cur) (fst (all_acts item _ (split_next pred) (Some q) xs))
  = (d ++ fst (runs_go cur q xs), Some (snd (runs_go cur q xs))).
Proof.
  induction xs as [|x xs IH]; intros d cur q; cbn [all_acts runs_go fst snd segs].
  - now rewrite app_nil_r.
  - cbn [split_next]. destruct (zs_eqb (kf x) q) eqn:E.
    + specialize (IH d (cur ++ [x]) q). destruct (all_acts item _ (split_next pred) (Some q) xs) as [as_ s2].
      cbn [fst snd app segs option_map] in *. exact IH.
    + specialize (IH (d ++ [cur]) [x] (kf x)). destruct (all_acts item _ (split_next pred) (Some (kf x)) xs) as [as_ s2].
      cbn [fst snd app segs option_map] in *. rewrite IH. destruct (runs_go [x] (kf x) xs) as [d' c']. cbn [fst snd].
      now rewrite <- app_assoc.
Qed.
Theorem split_segments xs :
  segments_of item _ None (split_next pred) xs = runs xs.
Proof.
  unfold segments_of, runs. destruct xs as [|x xs]; [reflexivity|]. cbn [all_acts split_next].
  pose proof (split_segs xs [] [x] (kf x)) as H.
  destruct (all_acts item _ (split_next pred) (Some (kf x)) xs) as [as_ s2]. cbn [fst snd app segs option_map] in *.
  rewrite H. destruct (runs_go [x] (kf x) xs) as [d c]. reflexivity.
Qed.

(* the runs are a partition into contiguous pieces, in order *)
Lemma runs_go_concat : forall xs cur q, concat (fst (runs_go cur q xs)) ++ snd (runs_go cur q xs) = cur ++ xs.
Proof.
  induction xs as [|x xs IH]; intros cur q; cbn [runs_go]; [cbn; now rewrite app_nil_r|].
  destruct (zs_eqb (kf x) q).
  - rewrite IH. now rewrite <- app_assoc.
  - specialize (IH [x] (kf x)). destruct (runs_go [x] (kf x) xs) as [d c]. cbn [fst snd concat] in *.
    rewrite <- app_assoc, IH. reflexivity.
Qed.
Theorem runs_concat xs : concat (runs xs) = xs.
Proof.
  unfold runs. destruct xs as [|x xs]; [reflexivity|]. pose proof (runs_go_concat xs [x] (kf x)) as H.
  destruct (runs_go [x] (kf x) xs) as [d c]. cbn [fst snd] in H. rewrite concat_app. cbn [concat]. now rewrite app_nil_r.
Qed.
(* inside a run all predicate values are equal; a run is never empty *)
Definition uniform (q : list Z) (l : list item) : Prop := l <> [] /\ Forall (fun y => kf y = q) l.
Lemma runs_go_uniform : forall xs cur q, uniform q cur ->
  Forall (fun r => exists q', uniform q' r) (fst (runs_go cur q xs)) /\ exists q', uniform q' (snd (runs_go cur q xs)).
Proof.
  induction xs as [|x xs IH]; intros cur q Hu; cbn [runs_go].
  - split; [constructor | eauto].
  - destruct (zs_eqb (kf x) q) eqn:E.
    + apply zs_eqb_eq in E. apply IH. destruct Hu as [Hn Hf]. split.
      * destruct cur; discriminate.
      * apply Forall_app. split; auto.
    + destruct (IH [x] (kf x)) as [A B]. { split; [discriminate | repeat constructor]. }
      destruct (runs_go [x] (kf x) xs) as [d c]. cbn [fst snd] in *. split; auto. constructor; eauto.
Qed.
(* maximality: adjacent runs have different predicate values *)
Definition rkey (r : list item) : list Z := match r with x :: _ => kf x | [] => [] end.
Inductive adj_diff : list (list item) -> Prop :=
| adj_nil : adj_diff []
| adj_one r : adj_diff [r]
| adj_cons r1 r2 rest : rkey r1 <> rkey r2 -> adj_diff (r2 :: rest) -> adj_diff (r1 :: r2 :: rest).
Lemma uniform_rkey q r : uniform q r -> rkey r = q.
Proof. intros [Hn Hf]. destruct r as [|x r]; [congruence|]. inversion Hf; subst. reflexivity. Qed.
Lemma runs_go_adj : forall xs cur q, uniform q cur ->
  adj_diff (fst (runs_go cur q xs) ++ [snd (runs_go cur q xs)]) /\
  exists r rest, fst (runs_go cur q xs) ++ [snd (runs_go cur q xs)] = r :: rest /\ uniform q r.
Proof.
  induction xs as [|x xs IH]; intros cur q Hu; cbn [runs_go].
  - cbn. split; [constructor | eauto].
  - destruct (zs_eqb (kf x) q) eqn:E.
    + apply zs_eqb_eq in E. apply IH. destruct Hu as [Hn Hf]. split.
      * destruct cur; discriminate.
      * apply Forall_app. split; auto.
    + assert (Hne : kf x <> q) by (intro Eq; apply zs_eqb_eq in Eq; congruence).
      destruct (IH [x] (kf x)) as [A (r & rest & Er & Ur)]. { split; [discriminate | repeat constructor]. }
      destruct (runs_go [x] (kf x) xs) as [d c]. cbn [fst snd app] in *. rewrite Er in *. split.
      * constructor; auto. rewrite (uniform_rkey _ _ Hu), (uniform_rkey _ _ Ur). congruence.
      * eauto.
Qed.
Theorem runs_maximal xs : adj_diff (runs xs) /\ Forall (fun r => exists q, uniform q r) (runs xs).
Proof.
  unfold runs. destruct xs as [|x xs]; [split; constructor|].
  assert (Hu : uniform (kf x) [x]) by (split; [discriminate | repeat constructor]).
  destruct (runs_go_adj xs [x] (kf x) Hu) as [A _]. destruct (runs_go_uniform xs [x] (kf x) Hu) as [B C].
  destruct (runs_go [x] (kf x) xs) as [d c]. cbn [fst snd] in *. split; auto.
  apply Forall_app. split; auto.
Qed.
End Split.

(* ------------------------------------------------------------------ roll, window = stride *)
Section RollCount.
Variable w : nat.
Hypothesis Hw : 1 <= w.
Fixpoint chunks_go (cur : list item) (xs : list item) : list (list item) * list item :=
  match xs with
  | [] => ([], cur)
  | x :: r => if Nat.eqb (length cur + 1) w then let '(d, c) := chunks_go [] r in ((cur ++ [x]) :: d, c)
              else chunks_go (cur ++ [x]) r
  end.
Definition chunks (xs : list item) : list (list item) :=
  let '(d, c) := chunks_go [] xs in d ++ match c with [] => [] | _ => [c] end.
Definition ocur (cur : list item) : option (list item) := match cur with [] => None | _ => Some cur end.

Lemma segs_opening d cur rest :
  segs item d (ocur cur) ((if Nat.eqb (length cur) 0 then [AOpen item] else []) ++ rest) = segs item d (Some cur) rest.
Proof. destruct cur; reflexivity. Qed.
Lemma rollc_step c x : rollc_next w c x =
  (if Nat.eqb (c + 1) w then 0 else c + 1,
   (if Nat.eqb c 0 then [AOpen item] else []) ++ AItem item x :: (if Nat.eqb (c + 1) w then [AClose item] else [])).
Proof. unfold rollc_next. destruct (Nat.eqb (c + 1) w); reflexivity. Qed.
Lemma rollc_segs : forall xs d cur, length cur < w ->
  segs item d (ocur cur) (fst (all_acts item _ (rollc_next w) (length cur) xs))
  = (d ++ fst (chunks_go cur xs), ocur (snd (chunks_go cur xs))).
Proof.
  induction xs as [|x xs IH]; intros d cur Hl; cbn [all_acts chunks_go fst snd segs].
  - now rewrite app_nil_r.
  - rewrite rollc_step. destruct (Nat.eqb (length cur + 1) w) eqn:E.
    + specialize (IH (d ++ [cur ++ [x]]) [] ltac:(cbn; lia)). cbn [length ocur] in IH.
      destruct (all_acts item nat (rollc_next w) 0 xs) as [as_ s2]. cbn [fst snd] in *.
      rewrite <- app_assoc, segs_opening. cbn [app segs option_map]. rewrite IH.
      destruct (chunks_go [] xs) as [d' c']. cbn [fst snd]. now rewrite <- app_assoc.
    + apply Nat.eqb_neq in E. specialize (IH d (cur ++ [x]) ltac:(rewrite app_length; cbn; lia)).
      rewrite app_length in IH. cbn [length] in IH.
      destruct (all_acts item nat (rollc_next w) (length cur + 1) xs) as [as_ s2]. cbn [fst snd] in *.
      assert (Ho : ocur (cur ++ [x]) = Some (cur ++ [x])) by (destruct cur; reflexivity). rewrite Ho in IH.
      rewrite <- app_assoc, segs_opening. cbn [app segs option_map]. exact IH.
Qed.
Theorem rollc_segments xs : segments_of item _ 0 (rollc_next w) xs = chunks xs.
Proof.
  unfold segments_of, chunks. pose proof (rollc_segs xs [] [] ltac:(cbn; lia)) as H. cbn [length ocur app] in H.
  destruct (all_acts item nat (rollc_next w) 0 xs) as [as_ s2]. cbn [fst snd] in *. rewrite H.
  destruct (chunks_go [] xs) as [d c]. cbn [fst snd]. destruct c; reflexivity.
Qed.
Lemma chunks_go_spec : forall xs cur, length cur < w ->
  concat (fst (chunks_go cur xs)) ++ snd (chunks_go cur xs) = cur ++ xs /\
  Forall (fun c => length c = w) (fst (chunks_go cur xs)) /\ length (snd (chunks_go cur xs)) < w.
Proof.
  induction xs as [|x xs IH]; intros cur Hl; cbn [chunks_go].
  - cbn. rewrite app_nil_r. auto.
  - destruct (Nat.eqb (length cur + 1) w) eqn:E.
    + apply Nat.eqb_eq in E. destruct (IH [] ltac:(cbn; lia)) as (A & B & C).
      destruct (chunks_go [] xs) as [d c]. cbn [fst snd concat app] in *. repeat split; auto.
      * rewrite <- !app_assoc. cbn [app]. f_equal. f_equal. exact A.
      * constructor; auto. rewrite app_length. cbn. lia.
    + apply Nat.eqb_neq in E. destruct (IH (cur ++ [x]) ltac:(rewrite app_length; cbn; lia)) as (A & B & C).
      repeat split; auto. rewrite A, <- app_assoc. reflexivity.
Qed.
(* consecutive windows of exactly w items, plus a final non-empty shorter one; nothing lost *)
Theorem chunks_spec xs :
  concat (chunks xs) = xs /\
  exists full last_, chunks xs = full ++ last_ /\ Forall (fun c => length c = w) full /\
    (last_ = [] \/ exists c, last_ = [c] /\ 1 <= length c < w).
Proof.
  unfold chunks. destruct (chunks_go_spec xs [] ltac:(cbn; lia)) as (A & B & C).
  destruct (chunks_go [] xs) as [d c]. cbn [fst snd app] in *. split.
  - rewrite concat_app. destruct c; cbn [concat]; rewrite ?app_nil_r in *; auto.
  - exists d. destruct c as [|y c].
    + exists []. repeat split; auto.
    + exists [y :: c]. repeat split; auto. right. exists (y :: c). split; auto. cbn [length] in *. lia.
Qed.
End RollCount.

(* ------------------------------------------------------------------ time_split *)
Section TimeSplit.
Variable tm : fn.
Variables active inactive : option Z.
Variable closing : option fn.
Variable incl : bool.
Notation ts := (ts_of tm).
(* the property's decision rules: (closed windows, open window) after xs, from an open window `cur`
   with reference timestamp `start` and previous item's timestamp `last` *)
Fixpoint sessions_go (cur : list item) (start last : Z) (xs : list item) : list (list item) * list item :=
  match xs with
  | [] => ([], cur)
  | x :: r =>
      let new := ts x in
      if expired active inactive start last new
      then let '(d, c) := sessions_go [x] new new r in (cur :: d, c)           (* x opens a new window *)
      else if closing_true closing x
      then if incl then let '(d, c) := sessions_go [] new new r in ((cur ++ [x]) :: d, c)   (* closes, belongs to it *)
           else let '(d, c) := sessions_go [x] new new r in (cur :: d, c)                  (* closes, belongs to the next *)
      else sessions_go (cur ++ [x]) start new r
  end.
Definition sessions (xs : list item) : list (list item) :=
  match xs with
  | [] => []
  | x :: _ => let '(d, c) := sessions_go [] (ts x) (ts x) xs in d ++ [c]
  end.

Definition tacts (x : item) (start last : Z) : option (Z * Z) * list iact :=
  let new := ts x in
  if expired active inactive start last new then (Some (new, new), [AClose item; AOpen item; AItem item x])
  else if closing_true closing x
       then (Some (new, new), if incl then [AItem item x; AClose item; AOpen item] else [AClose item; AOpen item; AItem item x])
       else (Some (start, new), [AItem item x]).
Lemma tsplit_step_some start last x :
  tsplit_next tm active inactive closing incl (Some (start, last)) x = tacts x start last.
Proof.
  unfold tsplit_next, tacts. destruct (expired active inactive start last (ts x)); [reflexivity|].
  destruct (closing_true closing x); [destruct incl|]; reflexivity.
Qed.
Lemma tsplit_step_none x :
  tsplit_next tm active inactive closing incl None x = (fst (tacts x (ts x) (ts x)), AOpen item :: snd (tacts x (ts x) (ts x))).
Proof.
  unfold tsplit_next, tacts. destruct (expired active inactive (ts x) (ts x) (ts x)); [reflexivity|].
  destruct (closing_true closing x); [destruct incl|]; reflexivity.
Qed.
Lemma tsplit_segs : forall xs d cur start last,
  segs item d (Some cur) (fst (all_acts item _ (tsplit_next tm active inactive closing incl) (Some (start, last)) xs))
  = (d ++ fst (sessions_go cur start last xs), Some (snd (sessions_go cur start last xs))).
Proof.
  induction xs as [|x xs IH]; intros d cur start last; cbn [all_acts sessions_go fst snd segs].
  - now rewrite app_nil_r.
  - rewrite tsplit_step_some. unfold tacts. destruct (expired active inactive start last (ts x)) eqn:Ee.
    + specialize (IH (d ++ [cur]) [x] (ts x) (ts x)).
      destruct (all_acts item _ (tsplit_next tm active inactive closing incl) (Some (ts x, ts x)) xs) as [as_ s2].
      cbn [fst snd app segs option_map] in *. rewrite IH. destruct (sessions_go [x] (ts x) (ts x) xs) as [d' c'].
      cbn [fst snd]. now rewrite <- app_assoc.
    + destruct (closing_true closing x) eqn:Ec.
      * destruct incl.
        -- specialize (IH (d ++ [cur ++ [x]]) [] (ts x) (ts x)).
           destruct (all_acts item _ (tsplit_next tm active inactive closing true) (Some (ts x, ts x)) xs) as [as_ s2].
           cbn [fst snd app segs option_map] in *. rewrite IH. destruct (sessions_go [] (ts x) (ts x) xs) as [d' c'].
           cbn [fst snd]. now rewrite <- app_assoc.
        -- specialize (IH (d ++ [cur]) [x] (ts x) (ts x)).
           destruct (all_acts item _ (tsplit_next tm active inactive closing false) (Some (ts x, ts x)) xs) as [as_ s2].
           cbn [fst snd app segs option_map] in *. rewrite IH. destruct (sessions_go [x] (ts x) (ts x) xs) as [d' c'].
           cbn [fst snd]. now rewrite <- app_assoc.
      * specialize (IH d (cur ++ [x]) start (ts x)).
        destruct (all_acts item _ (tsplit_next tm active inactive closing incl) (Some (start, ts x)) xs) as [as_ s2].
        cbn [fst snd app segs option_map] in *. exact IH.
Qed.
Theorem tsplit_segments xs :
  segments_of item _ None (tsplit_next tm active inactive closing incl) xs = sessions xs.
Proof.
  unfold segments_of, sessions. destruct xs as [|x xs]; [reflexivity|].
  (* the first item opens the first window with start = last = its timestamp; then the rules apply to it *)
  pose proof (tsplit_segs (x :: xs) [] [] (ts x) (ts x)) as H.
  cbn [all_acts] in H |- *. rewrite tsplit_step_some in H. rewrite tsplit_step_none.
  destruct (tacts x (ts x) (ts x)) as [s1 a1]. cbn [fst snd] in *.
  destruct (all_acts item _ (tsplit_next tm active inactive closing incl) s1 xs) as [as_ s2].
  cbn [fst snd app segs] in *. rewrite H. destruct (sessions_go [] (ts x) (ts x) (x :: xs)) as [d c]. reflexivity.
Qed.
(* every item of the key is delivered to exactly one window, in order *)
Lemma sessions_go_concat : forall xs cur start last,
  concat (fst (sessions_go cur start last xs)) ++ snd (sessions_go cur start last xs) = cur ++ xs.
Proof.
  induction xs as [|x xs IH]; intros cur start last; cbn [sessions_go]; [cbn; now rewrite app_nil_r|].
  destruct (expired active inactive start last (ts x)).
  - specialize (IH [x] (ts x) (ts x)). destruct (sessions_go [x] (ts x) (ts x) xs) as [d c]. cbn [fst snd concat] in *.
    rewrite <- app_assoc, IH. reflexivity.
  - destruct (closing_true closing x).
    + destruct incl.
      * specialize (IH [] (ts x) (ts x)). destruct (sessions_go [] (ts x) (ts x) xs) as [d c]. cbn [fst snd concat app] in *.
        rewrite <- !app_assoc. cbn [app]. now rewrite IH.
      * specialize (IH [x] (ts x) (ts x)). destruct (sessions_go [x] (ts x) (ts x) xs) as [d c]. cbn [fst snd concat] in *.
        rewrite <- app_assoc, IH. reflexivity.
    + rewrite IH, <- app_assoc. reflexivity.
Qed.
Theorem sessions_concat xs : concat (sessions xs) = xs.
Proof.
  unfold sessions. destruct xs as [|x xs]; [reflexivity|].
  pose proof (sessions_go_concat (x :: xs) [] (ts x) (ts x)) as H.
  destruct (sessions_go [] (ts x) (ts x) (x :: xs)) as [d c]. cbn [fst snd app] in H.
  rewrite concat_app. cbn [concat]. now rewrite app_nil_r.
Qed.
End TimeSplit.

(* the decision rules of time_split, one step *)
Lemma rule_new_window tm a i c incl cur start last x r :
  expired a i start last (ts_of tm x) = true ->
  sessions_go tm a i c incl cur start last (x :: r)
  = (cur :: fst (sessions_go tm a i c incl [x] (ts_of tm x) (ts_of tm x) r), snd (sessions_go tm a i c incl [x] (ts_of tm x) (ts_of tm x) r)).
Proof. intro H. cbn [sessions_go]. rewrite H. destruct (sessions_go tm a i c incl [x] (ts_of tm x) (ts_of tm x) r). reflexivity. Qed.
Lemma rule_closing_included tm a i c cur start last x r :
  expired a i start last (ts_of tm x) = false -> closing_true c x = true ->
  sessions_go tm a i c true cur start last (x :: r)
  = ((cur ++ [x]) :: fst (sessions_go tm a i c true [] (ts_of tm x) (ts_of tm x) r), snd (sessions_go tm a i c true [] (ts_of tm x) (ts_of tm x) r)).
Proof. intros H H0. cbn [sessions_go]. rewrite H, H0. destruct (sessions_go tm a i c true [] (ts_of tm x) (ts_of tm x) r). reflexivity. Qed.
Lemma rule_closing_excluded tm a i c cur start last x r :
  expired a i start last (ts_of tm x) = false -> closing_true c x = true ->
  sessions_go tm a i c false cur start last (x :: r)
  = (cur :: fst (sessions_go tm a i c false [x] (ts_of tm x) (ts_of tm x) r), snd (sessions_go tm a i c false [x] (ts_of tm x) (ts_of tm x) r)).
Proof. intros H H0. cbn [sessions_go]. rewrite H, H0. destruct (sessions_go tm a i c false [x] (ts_of tm x) (ts_of tm x) r). reflexivity. Qed.
Lemma rule_same_window tm a i c incl cur start last x r :
  expired a i start last (ts_of tm x) = false -> closing_true c x = false ->
  sessions_go tm a i c incl cur start last (x :: r) = sessions_go tm a i c incl (cur ++ [x]) start (ts_of tm x) r.
Proof. intros H H0. cbn [sessions_go]. now rewrite H, H0. Qed.
Lemma expired_iff a i start last new :
  expired a i start last new = true <->
  (exists t, a = Some t /\ (start + t <= new)%Z) \/ (exists t, i = Some t /\ (last + t <= new)%Z).
Proof.
  unfold expired. destruct a as [ta|], i as [ti|].
  - destruct (Z.leb_spec (start + ta) new) as [H1|H1]; [split; auto; intros _; left; eauto|].
    destruct (Z.leb_spec (last + ti) new) as [H2|H2].
    + split; auto. intros _. right; eauto.
    + split; [discriminate|]. intros [(t & E & H)|(t & E & H)]; inversion E; subst; lia.
  - destruct (Z.leb_spec (start + ta) new) as [H1|H1]; [split; auto; intros _; left; eauto|].
    split; [discriminate|]. intros [(t & E & H)|(t & E & H)]; inversion E; subst; lia.
  - destruct (Z.leb_spec (last + ti) new) as [H2|H2]; [split; auto; intros _; right; eauto|].
    split; [discriminate|]. intros [(t & E & H)|(t & E & H)]; inversion E; subst; lia.
  - split; [discriminate|]. intros [(t & E & H)|(t & E & H)]; discriminate.
Qed.
