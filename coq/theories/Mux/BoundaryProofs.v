(* C03 at full strength on the model: EVERY boundary trace of EVERY pipeline of the grammar
   (after each operator, at the head of each inner pipeline of group_by / roll / split / time_split,
   at the head of each tee branch, recursively to any nesting depth) is a well-formed mux trace
   whenever the input trace is, and leaves the same keys live as the trace entering that level.
   bnd_pipe is the function the correspondence check compares, boundary by boundary, with what the
   recording taps see in the real code. *)
From Coq Require Import List ZArith Bool Arith Lia.
From RxVerif Require Import Mux.Val Mux.Sim Mux.SimExt Mux.Seg Mux.Ops Mux.Syntax Mux.ConfineProofs
  Mux.MasterProofs Mux.InnerProtocolProofs Mux.Boundaries.
Import ListNotations.

Lemma plain_evs_wf : forall (t : list iev) live, allowed_seq live t ->
  allowed_seq live (plain_evs t) /\ after_seq live (plain_evs t) = after_seq live t.
Proof.
  induction t as [|e t IH]; intros live Hal; [cbn; auto|].
  cbn [allowed_seq] in Hal. destruct Hal as [Ha Hal]. unfold plain_evs. cbn [filter].
  destruct e as [k|k x|k].
  - cbn [allowed_seq after_seq]. destruct (IH _ Hal) as [A B]. split; [split; assumption|exact B].
  - destruct (negb (special x)).
    + cbn [allowed_seq after_seq]. destruct (IH _ Hal) as [A B]. split; [split; assumption|exact B].
    + cbn [after_seq]. cbn [after] in Hal. apply (IH _ Hal).
  - cbn [allowed_seq after_seq]. destruct (IH _ Hal) as [A B]. split; [split; assumption|exact B].
Qed.

Lemma branch_output_wf (b : br_) (t : list iev) : wf t ->
  wf (flat_run b t) /\ after_seq [] (flat_run b t) = after_seq [] t.
Proof.
  intro Ht. unfold flat_run. rewrite run_timed_mrun.
  rewrite (run_refines0 item _ _ (br item b) t Ht). apply krun_wf; [|exact Ht].
  intro k. unfold kempty. split; [congruence | intros []].
Qed.

Lemma head_feed_wf (o : op) (t ft : list iev) : wf t -> head_feed o t = Some ft -> wf ft.
Proof.
  intros Ht E. pose proof (proj1 (plain_evs_wf t [] Ht)) as Hp.
  destruct o; cbn [head_feed] in E; try discriminate.
  - injection E as <-. apply group_inner_wf0. exact Hp.
  - destruct (le_dec 1 s) as [Hs|]; [|discriminate]. destruct (le_dec 1 w) as [Hw|]; [|discriminate].
    destruct (Nat.eqb w s).
    + injection E as <-. apply (seg_inner_wf0 item nat 0 (rollc_next w) rollc_open rollc_closed (rollc_ok w)). exact Hp.
    + injection E as <-. destruct (density_ok w s Hs Hw) as [Hd Hd1].
      apply (roll_inner_wf item w s (density w s) Hs Hd Hd1 Hw). exact Hp.
  - injection E as <-. apply (seg_inner_wf0 item _ None (split_next pred) (@opt_open (list Z)) eq_refl (split_ok pred)). exact Hp.
  - injection E as <-.
    apply (seg_inner_wf0 item _ None (tsplit_next tm active inactive closing incl) (@opt_open (Z * Z)) eq_refl
             (tsplit_ok tm active inactive closing incl)). exact Hp.
Qed.

Definition op_ok (o : op) : Prop := forall t, wf t -> Forall wf (bnd_op o t).

Lemma bnd_pipe_wf_from (p : list op) : Forall op_ok p -> forall t, wf t -> Forall wf (bnd_pipe p t).
Proof.
  induction 1 as [|o p Ho Hp IH]; intros t Ht; cbn [bnd_pipe]; [constructor|].
  apply Forall_app. split; [apply Ho; exact Ht|].
  pose proof (branch_output_wf (den o) t Ht) as [Hw _].
  apply Forall_app. split; [repeat constructor; exact Hw|apply IH; exact Hw].
Qed.

Lemma inner_ok (o : op) (p : list op) (t : list iev) : Forall op_ok p -> wf t ->
  Forall wf (match head_feed o t with Some ft => bnd_pipe p ft ++ [ft] | None => [] end).
Proof.
  intros Hp Ht. destruct (head_feed o t) as [ft|] eqn:E; [|constructor].
  pose proof (head_feed_wf o t ft Ht E) as Hf.
  apply Forall_app. split; [apply bnd_pipe_wf_from; assumption|repeat constructor; exact Hf].
Qed.

Lemma tee_ok (bs : list (list op)) (t : list iev) : Forall (Forall op_ok) bs -> wf t ->
  Forall wf ((fix bbs (bs : list (list op)) : list (list iev) :=
                match bs with [] => [] | p :: bs' => bnd_pipe p (plain_evs t) ++ [plain_evs t] ++ bbs bs' end) bs).
Proof.
  intros Hb Ht. pose proof (proj1 (plain_evs_wf t [] Ht)) as Hp.
  induction Hb as [|p bs Hpok Hb IH]; [constructor|].
  apply Forall_app. split; [apply bnd_pipe_wf_from; assumption|].
  apply Forall_app. split; [repeat constructor; exact Hp|exact IH].
Qed.

Lemma all_ops_ok : forall o, op_ok o.
Proof.
  fix IH 1. intro o.
  pose (pipe_ok := fix F (p : list op) : Forall op_ok p :=
          match p with [] => Forall_nil _ | o' :: p' => Forall_cons o' (IH o') (F p') end).
  destruct o; intros tr Ht; try (cbn [bnd_op]; constructor).
  - (* tee *)
    apply (tee_ok bs tr); [|exact Ht].
    exact ((fix G (bs : list (list op)) : Forall (Forall op_ok) bs :=
              match bs with [] => Forall_nil _ | p :: bs' => Forall_cons p (pipe_ok p) (G bs') end) bs).
  - apply (inner_ok (OGroup km p) p tr (pipe_ok p) Ht).
  - apply (inner_ok (ORoll w s p) p tr (pipe_ok p) Ht).
  - apply (inner_ok (OSplit pred p) p tr (pipe_ok p) Ht).
  - apply (inner_ok (OTimeSplit tm active inactive closing incl p) p tr (pipe_ok p) Ht).
Qed.

(* every boundary of every pipeline carries a well-formed trace *)
Theorem every_boundary_wf (P : list op) (t : list iev) : wf t -> Forall wf (bnd_pipe P t).
Proof.
  intro Ht. apply bnd_pipe_wf_from; [|exact Ht].
  induction P as [|o P IH]; constructor; [apply all_ops_ok|exact IH].
Qed.

(* the last boundary of a pipeline is its output *)
Lemma krun_id : forall (t : list iev) (m : kmap L_id) live,
  (forall k, m k <> None <-> In k live) -> allowed_seq live t -> concat (krun item L_id m t) = t.
Proof.
  induction t as [|e t IH]; intros m live Hl Hal; [reflexivity|].
  cbn [allowed_seq] in Hal. destruct Hal as [Ha Hal]. cbn [krun].
  destruct (kstep_wf item L_id m live e Hl Ha) as (_ & _ & C).
  assert (Ho : snd (kstep L_id m e) = [e]).
  { destruct e as [k|k x|k]; cbn [kstep allowed] in *.
    - reflexivity.
    - destruct (m k) as [[]|] eqn:Em; [reflexivity|]. exfalso. apply (proj2 (Hl k) Ha). exact Em.
    - destruct (m k) as [[]|]; reflexivity. }
  destruct (kstep L_id m e) as [m1 o1]. cbn [fst snd] in *. subst o1. cbn [concat app]. f_equal.
  apply (IH m1 (after live e) C Hal).
Qed.
Lemma flat_run_id (t : list iev) : wf t -> flat_run id_b t = t.
Proof.
  intro Ht. unfold flat_run. rewrite run_timed_mrun.
  rewrite (run_refines0 item _ _ (br item id_b) t Ht). apply (krun_id t _ []); [|exact Ht].
  intro k. split; [intro H; exfalso; apply H; reflexivity | intros []].
Qed.
Theorem bnd_pipe_last : forall (P : list op) (t : list iev), P <> [] -> wf t ->
  last (bnd_pipe P t) [] = flat_run (den_pipe P) t.
Proof.
  induction P as [|o P IH]; intros t Hne Ht; [congruence|].
  cbn [bnd_pipe]. change (den_pipe (o :: P)) with (compose_b (den o) (den_pipe P)). rewrite flat_run_compose.
  pose proof (branch_output_wf (den o) t Ht) as [Hw _].
  destruct P as [|o' P'].
  - cbn [bnd_pipe]. rewrite app_nil_r, last_last. change (den_pipe []) with id_b. now rewrite flat_run_id.
  - rewrite app_assoc. rewrite <- (IH (flat_run (den o) t)); [|discriminate|exact Hw].
    remember (bnd_pipe (o' :: P') (flat_run (den o) t)) as l eqn:El.
    destruct l as [|x l].
    + exfalso. cbn [bnd_pipe] in El. destruct (bnd_op o' (flat_run (den o) t)); discriminate.
    + clear. generalize (bnd_op o t ++ [flat_run (den o) t]). intro pre.
      induction pre as [|y pre IHp]; [reflexivity|]. cbn [app]. rewrite <- IHp.
      destruct (pre ++ x :: l) eqn:E; [destruct pre; discriminate|reflexivity].
Qed.
