(* Consequences of `refines M L` that do not depend on the operator:
   - run_refines     : on every well-formed trace the slot-level machine and the key-lift of the
                       local machine produce the same outputs, step by step (timed equality);
   - sel_proj        : the outputs of the key-lift during the events of a key k are a function of
                       k's own events (C02: other keys, their interleaving and whatever shares
                       k's slot are irrelevant);
   - krun_fresh      : from a `Create k` on, they do not depend on what happened before (C02:
                       earlier lifetimes of the key);
   - krun_wf         : the output trace is well-formed and has the same live set as the input
                       (C03). *)
From Coq Require Import List Arith Lia Bool.
From RxVerif Require Import Mux.Sim Mux.SimExt.
Import ListNotations.

Section Confine.
Variable V : Type.
Notation ev := (ev V).
Notation machine := (machine V).
Notation lmachine := (lmachine V).

Fixpoint mrun (M : machine) (s : St M) (t : list ev) : list (list ev) :=
  match t with [] => [] | e :: t' => let '(s', o) := step M s e in o :: mrun M s' t' end.
Fixpoint krun (L : lmachine) (m : kmap L) (t : list ev) : list (list ev) :=
  match t with [] => [] | e :: t' => let '(m', o) := kstep L m e in o :: krun L m' t' end.
Definition kempty (L : lmachine) : kmap L := fun _ => None.

Lemma good_nil : good []. Proof. split. constructor. intros ? ? []. Qed.

Theorem run_refines (M : machine) (L : lmachine) (H : refines M L) : forall t live s m,
  good live -> R H live s m -> allowed_seq live t -> mrun M s t = krun L m t.
Proof.
  induction t as [|e t IH]; intros live s m Hg HR Hal; [reflexivity|].
  cbn [allowed_seq] in Hal. destruct Hal as [Ha Hal]. cbn [mrun krun].
  destruct (R_step H live s m e Hg HR Ha) as [Ho HR'].
  destruct (step M s e) as [s' o]. destruct (kstep L m e) as [m' o']. cbn [fst snd] in *. subst o'.
  f_equal. apply (IH (after live e)); auto. apply good_after; auto.
Qed.
Corollary run_refines0 (M : machine) (L : lmachine) (H : refines M L) : forall t,
  allowed_seq [] t -> mrun M (init M) t = krun L (kempty L) t.
Proof. intros t Ht. apply (run_refines M L H t [] (init M) (kempty L) good_nil (R_init H) Ht). Qed.

(* ---------- key locality of the key-lift ---------- *)
Definition ekey (e : ev) : key := match e with Create k | Next k _ | Done k => k end.
Definition on_key (k : key) (e : ev) : bool := if keq (ekey e) k then true else false.
(* the outputs emitted while the events of key k were being processed *)
Fixpoint sel (k : key) (t : list ev) (outs : list (list ev)) : list (list ev) :=
  match t, outs with
  | e :: t', o :: outs' => if on_key k e then o :: sel k t' outs' else sel k t' outs'
  | _, _ => []
  end.

Lemma kstep_other (L : lmachine) (m : kmap L) e k : ekey e <> k -> fst (kstep L m e) k = m k.
Proof.
  intro Hne. destruct e as [k0|k0 x|k0]; cbn [kstep ekey] in *.
  - cbn [fst]. apply upd_other. congruence.
  - destruct (m k0) as [s0|]; [|reflexivity]. destruct (lnext L s0 x). cbn [fst]. apply upd_other. congruence.
  - destruct (m k0) as [s0|]; [|reflexivity]. cbn [fst]. apply upd_other. congruence.
Qed.
Lemma kstep_local (L : lmachine) (m m' : kmap L) e : m (ekey e) = m' (ekey e) ->
  snd (kstep L m e) = snd (kstep L m' e) /\ fst (kstep L m e) (ekey e) = fst (kstep L m' e) (ekey e).
Proof.
  intro E. destruct e as [k0|k0 x|k0]; cbn [kstep ekey] in *.
  - cbn [fst snd]. now rewrite !upd_same.
  - rewrite <- E. destruct (m k0) as [s0|] eqn:Em; [|split; auto; cbn [fst]; congruence].
    destruct (lnext L s0 x). cbn [fst snd]. now rewrite !upd_same.
  - rewrite <- E. destruct (m k0) as [s0|] eqn:Em; cbn [fst snd]; [now rewrite !upd_same|]. split; auto. congruence.
Qed.

Theorem sel_proj (L : lmachine) (k : key) : forall t (m m' : kmap L), m k = m' k ->
  sel k t (krun L m t) = krun L m' (filter (on_key k) t).
Proof.
  induction t as [|e t IH]; intros m m' E; [reflexivity|].
  cbn [krun filter]. destruct (on_key k e) eqn:Eon.
  - assert (Ek : ekey e = k) by (unfold on_key in Eon; destruct (keq (ekey e) k); [auto|discriminate]).
    destruct (kstep_local L m m' e) as [Ho Hs]; [rewrite Ek; exact E|].
    destruct (kstep L m e) as [m1 o1]. cbn [sel]. rewrite Eon.
    cbn [krun]. destruct (kstep L m' e) as [m1' o1']. cbn [fst snd] in *. subst o1'. f_equal.
    apply IH. rewrite <- Ek. exact Hs.
  - assert (Hne : ekey e <> k) by (unfold on_key in Eon; destruct (keq (ekey e) k); [discriminate|auto]).
    pose proof (kstep_other L m e k Hne) as Hk.
    destruct (kstep L m e) as [m1 o1]. cbn [sel]. rewrite Eon.
    apply IH. cbn [fst] in Hk. congruence.
Qed.

(* a trace all of whose events are on key k, starting with Create k, runs the same from any state *)
Theorem krun_fresh (L : lmachine) (k : key) : forall life (m m' : kmap L),
  Forall (fun e => ekey e = k) life ->
  krun L m (Create k :: life) = krun L m' (Create k :: life).
Proof.
  intros life m m' Hall. cbn [krun kstep]. f_equal.
  assert (Hgen : forall l (a b : kmap L), Forall (fun e => ekey e = k) l -> a k = b k -> krun L a l = krun L b l).
  { induction l as [|e l IH]; intros a b Hl Eab; [reflexivity|].
    inversion Hl as [|e0 l0 Hek Hl']; subst e0 l0.
    destruct (kstep_local L a b e) as [Ho Hs]; [rewrite Hek; exact Eab|].
    cbn [krun]. destruct (kstep L a e) as [a1 o1]. destruct (kstep L b e) as [b1 o1']. cbn [fst snd] in *. subst o1'.
    f_equal. apply IH; auto. rewrite Hek in Hs. exact Hs. }
  apply Hgen; auto. now rewrite !upd_same.
Qed.

Lemma krun_app (L : lmachine) : forall a b (m : kmap L),
  krun L m (a ++ b) = krun L m a ++ krun L (fst (kfeed L m a)) b.
Proof.
  induction a as [|e a IH]; intros b m; [reflexivity|]. cbn [app krun kfeed].
  destruct (kstep L m e) as [m1 o1]. rewrite IH. destruct (kfeed L m1 a) as [m2 o2]. reflexivity.
Qed.

(* C02, lifetimes: within the events of key k, whatever precedes a `Create k` (earlier lifetimes of
   the key included) does not influence what is emitted from that Create on *)
Theorem lifetime_fresh (L : lmachine) (k : key) : forall t pre life (m : kmap L),
  filter (on_key k) t = pre ++ Create k :: life ->
  sel k t (krun L m t) = krun L m pre ++ krun L (kempty L) (Create k :: life).
Proof.
  intros t pre life m E. rewrite (sel_proj L k t m m eq_refl), E, krun_app. f_equal.
  apply krun_fresh.
  assert (Hall : Forall (fun e => ekey e = k) (filter (on_key k) t)).
  { apply Forall_forall. intros e He. apply filter_In in He. destruct He as [_ He]. unfold on_key in He.
    destruct (keq (ekey e) k); [auto|discriminate]. }
  rewrite E in Hall. apply Forall_app in Hall. destruct Hall as [_ Hall]. inversion Hall; auto.
Qed.

(* ---------- C03: the output of the key-lift is a well-formed trace ---------- *)
Lemma nexts_allowed live k (o : list V) : In k live ->
  allowed_seq live (map (Next k) o) /\ after_seq live (map (Next k) o) = live.
Proof. intro Hi. induction o as [|x o IH]; cbn; auto. destruct IH. split; auto. Qed.

Lemma kstep_wf (L : lmachine) (m : kmap L) live e : (forall k, m k <> None <-> In k live) -> allowed live e ->
  allowed_seq live (snd (kstep L m e)) /\ after_seq live (snd (kstep L m e)) = after live e /\
  (forall k, fst (kstep L m e) k <> None <-> In k (after live e)).
Proof.
  intros Hl Ha. destruct e as [k|k x|k]; cbn [kstep allowed after] in *.
  - cbn [fst snd allowed_seq after_seq allowed after]. split; [auto|]. split; [reflexivity|].
    intro k'. destruct (keq k' k) as [->|Hne].
    + rewrite upd_same. split; [intros _; now left | discriminate].
    + rewrite upd_other by auto. rewrite Hl. split; [intro; now right | intros [E|Hi]; [congruence|auto]].
  - assert (Hm : m k <> None) by (apply Hl; auto). destruct (m k) as [s0|] eqn:Em; [|congruence].
    destruct (lnext L s0 x) as [s' o]. cbn [fst snd]. destruct (nexts_allowed live k o Ha) as [A B].
    split; [auto|]. split; [auto|].
    intro k'. destruct (keq k' k) as [->|Hne].
    + rewrite upd_same. split; [auto | discriminate].
    + rewrite upd_other by auto. apply Hl.
  - assert (Hm : m k <> None) by (apply Hl; auto). destruct (m k) as [s0|] eqn:Em; [|congruence].
    cbn [fst snd]. destruct (nexts_allowed live k (ldone L s0) Ha) as [A B].
    rewrite allowed_seq_app, after_seq_app, B. cbn [allowed_seq after_seq allowed after].
    split; [auto|]. split; [reflexivity|].
    intro k'. rewrite in_remove_iff. destruct (keq k' k) as [->|Hne].
    + rewrite upd_same. split; [congruence | intros [_ ?]; congruence].
    + rewrite upd_other by auto. rewrite Hl. tauto.
Qed.

Theorem krun_wf (L : lmachine) : forall t (m : kmap L) live,
  (forall k, m k <> None <-> In k live) -> allowed_seq live t ->
  allowed_seq live (concat (krun L m t)) /\ after_seq live (concat (krun L m t)) = after_seq live t.
Proof.
  induction t as [|e t IH]; intros m live Hl Hal; [cbn; auto|].
  cbn [allowed_seq] in Hal. destruct Hal as [Ha Hal]. cbn [krun].
  destruct (kstep_wf L m live e Hl Ha) as (A & B & C).
  destruct (kstep L m e) as [m1 o1]. cbn [fst snd] in *. cbn [concat after_seq].
  destruct (IH m1 (after live e) C Hal) as [D E].
  rewrite allowed_seq_app, after_seq_app, B. auto.
Qed.
End Confine.
