(* C10: rs.data.batch(n) and rs.ops.distinct_until_changed as rxsci defines them (scan + filter + map,
   with the repaired accumulators) against their list semantics. *)
From Coq Require Import List ZArith Bool Arith Lia.
From RxVerif Require Import Mux.Val Mux.Sim Mux.SimExt Mux.Ops Mux.Syntax Mux.LocalSemProofs Mux.OpsSpecProofs
  Mux.MasterProofs Mux.PlainProofs.
Import ListNotations.

Lemma stateless_items_gen (L : lm) (h : item -> list item) :
  (forall s x, lnext L s x = (s, h x)) -> (forall s, ldone L s = []) ->
  forall l, items_of item L l = flat_map h l.
Proof.
  intros Hn Hd l. unfold items_of, ltimed. generalize (l0 L) as s.
  induction l as [|x l IH]; intro s; cbn [lsteps flat_map].
  - cbn. now rewrite Hd.
  - rewrite Hn. specialize (IH s). destruct (lsteps item L s l) as [os s2].
    cbn [concat] in *. rewrite <- app_assoc. now rewrite IH.
Qed.
Lemma flat_map_comp {A B C} (f : A -> list B) (g : B -> list C) : forall l, flat_map g (flat_map f l) = flat_map (fun a => flat_map g (f a)) l.
Proof. induction l as [|a l IH]; cbn [flat_map]; [reflexivity|]. now rewrite flat_map_app, IH. Qed.
Fixpoint scanl (g : val -> val -> val) (acc : val) (xs : list val) : list val :=
  match xs with [] => [] | x :: r => g acc x :: scanl g (g acc x) r end.

(* streaming scan with a terminator, for an accumulator that is total on an invariant set of values *)
Section ScanInv.
Variables (a : fn2) (tf : fn) (g : val -> val -> val) (th : val -> val) (Pacc : val -> Prop).
Hypothesis Hg : forall acc x, Pacc acc -> apply2 a acc x = Ok (g acc x) /\ Pacc (g acc x).
Hypothesis Hth : forall acc, Pacc acc -> apply1 tf acc = Ok (th acc).
Variable seed : val.
Hypothesis Hseed : Pacc seed.
Notation L := (L_scan a seed TObj false (Some tf)).

Lemma scan_inv_steps : forall xs acc st, acc = match st with Some c => c | None => seed end -> Pacc acc ->
  concat (fst (lsteps item L st (its xs))) = its (scanl g acc xs) /\
  match snd (lsteps item L st (its xs)) with Some c => c | None => seed end = fold_left g xs acc /\
  Pacc (fold_left g xs acc).
Proof.
  induction xs as [|x xs IH]; intros acc st Hacc HP; cbn [its map lsteps scanl fold_left].
  - cbn. subst. auto.
  - cbn [lnext L_scan on_it]. rewrite <- Hacc. destruct (Hg acc x HP) as [E HP']. rewrite E. cbn [coerce].
    destruct (IH (g acc x) (Some (g acc x)) eq_refl HP') as (E1 & E2 & E3). unfold its in *.
    destruct (lsteps item L (Some (g acc x)) (map It xs)) as [os s2]. cbn [fst snd concat] in *.
    rewrite E1. auto.
Qed.
Theorem scan_term_items xs :
  items_of item L (its xs) = its (scanl g seed xs ++ [th (fold_left g xs seed)]).
Proof.
  unfold items_of, ltimed. cbn [l0 L_scan]. destruct (scan_inv_steps xs seed None eq_refl Hseed) as (E1 & E2 & E3).
  destruct (lsteps item L None (its xs)) as [os s2]. cbn [fst snd] in *. rewrite E1. cbn [ldone L_scan].
  rewrite E2, (Hth _ E3). cbn [coerce app]. unfold its. rewrite map_app. reflexivity.
Qed.
End ScanInv.

(* ------------------------------------------------------------------ batch *)
Section Batch.
Variable n : nat.
Hypothesis Hn : 1 <= n.
Definition bseed : val := VTuple [VList []; VBool false].
Definition batch_ops : list op :=
  [OScan (A2Batch (Z.of_nat n)) bseed TObj false (Some FBatchTerm);
   OFilter (FComp (FNth 1) (FEq (VBool true))); OMap (FNth 0)].

(* the chunks: exactly n items each, plus one final non-empty shorter chunk *)
Fixpoint bchunks (cur : list val) (xs : list val) : list (list val) :=
  match xs with
  | [] => match cur with [] => [] | _ => [cur] end
  | x :: r => if Nat.eqb (length cur + 1) n then (cur ++ [x]) :: bchunks [] r else bchunks (cur ++ [x]) r
  end.

Definition bacc (c : list val) : val := VTuple [VList c; VBool (Nat.eqb (length c) n)].
Definition wfacc (v : val) : Prop := exists c, v = bacc c /\ length c <= n.
Definition gb (acc x : val) : val :=
  match acc with
  | VTuple [VList c; VBool f] => bacc (if f then [x] else c ++ [x])
  | _ => acc
  end.
Definition thb (acc : val) : val :=
  match acc with
  | VTuple [VList c; VBool f] => VTuple [VList c; VBool (negb f && negb (Nat.eqb (length c) 0))]
  | _ => acc
  end.
Lemma zeqb_nat a b : (Z.of_nat a =? Z.of_nat b)%Z = Nat.eqb a b.
Proof. destruct (Nat.eqb a b) eqn:E; [apply Nat.eqb_eq in E; apply Z.eqb_eq; lia | apply Nat.eqb_neq in E; apply Z.eqb_neq; lia]. Qed.
Lemma gb_ok acc x : wfacc acc -> apply2 (A2Batch (Z.of_nat n)) acc x = Ok (gb acc x) /\ wfacc (gb acc x).
Proof.
  intros (c & -> & Hl). unfold bacc. cbn [apply2 py_nth nth_error bind gb is_true].
  destruct (Nat.eqb (length c) n) eqn:E; cbn [is_true].
  - split.
    + unfold bacc, tup2. now rewrite zeqb_nat.
    + exists [x]. split; [reflexivity | cbn; lia].
  - apply Nat.eqb_neq in E. split.
    + unfold bacc, tup2. now rewrite zeqb_nat.
    + exists (c ++ [x]). split; [reflexivity | rewrite app_length; cbn; lia].
Qed.
Lemma thb_ok acc : wfacc acc -> apply1 FBatchTerm acc = Ok (thb acc).
Proof.
  intros (c & -> & Hl). unfold bacc. cbn [apply1 py_nth nth_error bind thb].
  destruct (Nat.eqb (length c) n); cbn [negb andb]; reflexivity.
Qed.
Lemma wf_seed : wfacc bseed.
Proof. exists []. split; [|cbn; lia]. unfold bacc, bseed. cbn [length]. destruct n; [lia|reflexivity]. Qed.

Definition hf (v : val) : list item :=
  match apply1 (FComp (FNth 1) (FEq (VBool true))) v with Ok r => if truthy r then [It v] else [] | Raise e => [IErr e] end.
Definition hm (v : val) : list item := out_res (apply1 (FNth 0) v).
Lemma hf_bacc c f : hf (VTuple [VList c; VBool f]) = if f then [It (VTuple [VList c; VBool f])] else [].
Proof. unfold hf. cbn [apply1 py_nth nth_error bind]. destruct f; reflexivity. Qed.

(* the logical open chunk of an accumulator: empty right after a full batch was emitted *)
Definition open_of (c : list val) : list val := if Nat.eqb (length c) n then [] else c.

Lemma batch_stream : forall xs c, length c <= n ->
  flat_map (fun v => flat_map (fun y => match y with It w => hm w | _ => [y] end) (hf v)) (scanl gb (bacc c) xs)
    ++ flat_map (fun y => match y with It w => hm w | _ => [y] end) (hf (thb (fold_left gb xs (bacc c))))
  = map (fun ch => It (VList ch)) (bchunks (open_of c) xs).
Proof.
  induction xs as [|x xs IH]; intros c Hl; cbn [scanl fold_left flat_map bchunks app].
  - unfold bacc, thb, open_of. rewrite hf_bacc. destruct (Nat.eqb (length c) n) eqn:E; cbn [negb andb flat_map map].
    + reflexivity.
    + destruct c as [|y c]; cbn [length Nat.eqb negb flat_map map app hm apply1 py_nth nth_error out_res]; reflexivity.
  - assert (Hstep : gb (bacc c) x = bacc (open_of c ++ [x])).
    { unfold bacc at 1, gb, open_of. destruct (Nat.eqb (length c) n); reflexivity. }
    rewrite Hstep.
    assert (Hlo : length (open_of c) < n).
    { unfold open_of. destruct (Nat.eqb (length c) n) eqn:E; [cbn; lia|]. apply Nat.eqb_neq in E. lia. }
    assert (Hl' : length (open_of c ++ [x]) <= n) by (rewrite app_length; cbn; lia).
    rewrite <- app_assoc, (IH (open_of c ++ [x]) Hl').
    unfold bacc at 1. rewrite hf_bacc.
    assert (Ho : open_of (open_of c ++ [x]) = if Nat.eqb (length (open_of c) + 1) n then [] else open_of c ++ [x]).
    { unfold open_of at 1. rewrite app_length. cbn [length]. reflexivity. }
    rewrite Ho. rewrite app_length. cbn [length].
    destruct (Nat.eqb (length (open_of c) + 1) n) eqn:E; cbn [flat_map app hm apply1 py_nth nth_error out_res map]; reflexivity.
Qed.

(* C10: batch(n) emits consecutive chunks of exactly n items plus one final non-empty shorter chunk *)
Theorem batch_items xs : items_of item (pipe_l batch_ops) (its xs) = map (fun ch => It (VList ch)) (bchunks [] xs).
Proof.
  change (pipe_l batch_ops) with
    (compose_l (L_scan (A2Batch (Z.of_nat n)) bseed TObj false (Some FBatchTerm))
       (compose_l (L_filter (FComp (FNth 1) (FEq (VBool true)))) (compose_l (L_map (FNth 0)) L_id))).
  rewrite !compose_items, items_of_id.
  rewrite (scan_term_items (A2Batch (Z.of_nat n)) FBatchTerm gb thb wfacc gb_ok thb_ok bseed wf_seed xs).
  rewrite (stateless_items (L_filter (FComp (FNth 1) (FEq (VBool true)))) hf); [|reflexivity|reflexivity].
  assert (Hmap : forall l : list item, items_of item (L_map (FNth 0)) l = flat_map (fun y => match y with It w => hm w | _ => [y] end) l).
  { apply stateless_items_gen; [|reflexivity]. intros u y. destruct y; reflexivity. }
  rewrite Hmap, flat_map_comp, flat_map_app. cbn [flat_map]. rewrite app_nil_r.
  assert (Hseed0 : bseed = bacc []) by (unfold bseed, bacc; cbn [length]; destruct n; [lia|reflexivity]).
  rewrite Hseed0. rewrite (batch_stream xs [] ltac:(cbn; lia)). unfold open_of. cbn [length].
  destruct n; [lia|reflexivity].
Qed.

Lemma bchunks_spec : forall xs cur, length cur < n ->
  concat (bchunks cur xs) = cur ++ xs /\
  exists full last_, bchunks cur xs = full ++ last_ /\ Forall (fun c => length c = n) full /\
    (last_ = [] \/ exists c, last_ = [c] /\ 1 <= length c < n).
Proof.
  induction xs as [|x xs IH]; intros cur Hl; cbn [bchunks].
  - destruct cur as [|y cur].
    + split; [reflexivity|]. exists [], []. repeat split; auto.
    + split; [cbn; now rewrite !app_nil_r|]. exists [], [y :: cur]. repeat split; auto. right. exists (y :: cur). split; auto. cbn [length] in *. lia.
  - destruct (Nat.eqb (length cur + 1) n) eqn:E.
    + apply Nat.eqb_eq in E. destruct (IH [] ltac:(cbn; lia)) as (A & full & l_ & B & C & D). split.
      * cbn [concat]. rewrite A. now rewrite <- app_assoc.
      * exists ((cur ++ [x]) :: full), l_. rewrite B. repeat split; auto. constructor; auto. rewrite app_length. cbn. lia.
    + apply Nat.eqb_neq in E. destruct (IH (cur ++ [x]) ltac:(rewrite app_length; cbn; lia)) as (A & full & l_ & B & C & D).
      split; [rewrite A; now rewrite <- app_assoc|]. exists full, l_. auto.
Qed.
Theorem batch_chunks_shape xs :
  concat (bchunks [] xs) = xs /\
  exists full last_, bchunks [] xs = full ++ last_ /\ Forall (fun c => length c = n) full /\
    (last_ = [] \/ exists c, last_ = [c] /\ 1 <= length c < n).
Proof. apply (bchunks_spec xs []). cbn. lia. Qed.
End Batch.

(* streaming scan without terminator, invariant version *)
Section ScanInv0.
Variables (a : fn2) (g : val -> val -> val) (Pacc : val -> Prop).
Hypothesis Hg : forall acc x, Pacc acc -> apply2 a acc x = Ok (g acc x) /\ Pacc (g acc x).
Variable seed : val.
Hypothesis Hseed : Pacc seed.
Notation L := (L_scan a seed TObj false None).
Lemma scan_inv0_steps : forall xs acc st, acc = match st with Some c => c | None => seed end -> Pacc acc ->
  concat (fst (lsteps item L st (its xs))) = its (scanl g acc xs).
Proof.
  induction xs as [|x xs IH]; intros acc st Hacc HP; cbn [its map lsteps scanl]; [reflexivity|].
  cbn [lnext L_scan on_it]. rewrite <- Hacc. destruct (Hg acc x HP) as [E HP']. rewrite E. cbn [coerce].
  pose proof (IH (g acc x) (Some (g acc x)) eq_refl HP') as E1. unfold its in *.
  destruct (lsteps item L (Some (g acc x)) (map It xs)) as [os s2]. cbn [fst snd concat] in *. now rewrite E1.
Qed.
Theorem scan_inv0_items xs : items_of item L (its xs) = its (scanl g seed xs).
Proof.
  unfold items_of, ltimed. cbn [l0 L_scan]. pose proof (scan_inv0_steps xs seed None eq_refl Hseed) as E1.
  destruct (lsteps item L None (its xs)) as [os s2]. cbn [fst snd] in *. rewrite E1. cbn [ldone L_scan]. now rewrite app_nil_r.
Qed.
End ScanInv0.

(* ------------------------------------------------------------------ distinct_until_changed *)
Section Duc.
Variable km : fn.
Variable kf : val -> val.
Hypothesis Hk : forall x, apply1 km x = Ok (kf x).
Definition dseed : val := VTuple [VBool false; VNone; VNone; VBool false].
Definition duc_ops : list op :=
  [OScan (A2Duc km) dseed TObj false None; OFilter (FComp (FNth 0) FIsTrue); OMap (FNth 1)].
(* one item per run of == keys: x_i is emitted iff it is the first item or its key differs from x_{i-1}'s *)
Fixpoint duc_spec (prev : option val) (xs : list val) : list val :=
  match xs with
  | [] => []
  | x :: r => match prev with
              | Some p => if py_eq (kf x) p then duc_spec (Some (kf x)) r else x :: duc_spec (Some (kf x)) r
              | None => x :: duc_spec (Some (kf x)) r
              end
  end.
Definition dacc (emit : bool) (x key : val) (has : bool) : val := VTuple [VBool emit; x; key; VBool has].
Definition wfd (v : val) : Prop := exists e x k h, v = dacc e x k h.
Definition gd (acc x : val) : val :=
  match acc with
  | VTuple [VBool _; _; prev; VBool has] => dacc (negb has || negb (py_eq (kf x) prev)) x (kf x) true
  | _ => acc
  end.
Lemma gd_ok acc x : wfd acc -> apply2 (A2Duc km) acc x = Ok (gd acc x) /\ wfd (gd acc x).
Proof.
  intros (e & y & k & h & ->). unfold dacc. cbn [apply2 gd]. rewrite Hk. cbn [bind py_nth nth_error truthy].
  split; [reflexivity|]. unfold wfd, dacc. eauto.
Qed.
Definition hfd (v : val) : list item :=
  match apply1 (FComp (FNth 0) FIsTrue) v with Ok r => if truthy r then [It v] else [] | Raise e => [IErr e] end.
Definition hmd (v : val) : list item := out_res (apply1 (FNth 1) v).
Lemma duc_stream : forall xs e y k h,
  flat_map (fun v => flat_map (fun z => match z with It w => hmd w | _ => [z] end) (hfd v)) (scanl gd (dacc e y k h) xs)
  = its (duc_spec (if h then Some k else None) xs).
Proof.
  induction xs as [|x xs IH]; intros e y k h; cbn [scanl flat_map duc_spec]; [reflexivity|].
  assert (Hgd : gd (dacc e y k h) x = dacc (negb h || negb (py_eq (kf x) k)) x (kf x) true) by reflexivity.
  rewrite Hgd, (IH _ x (kf x) true).
  assert (Hh : hfd (dacc (negb h || negb (py_eq (kf x) k)) x (kf x) true)
               = if negb h || negb (py_eq (kf x) k) then [It (dacc (negb h || negb (py_eq (kf x) k)) x (kf x) true)] else []).
  { unfold hfd, dacc. cbn [apply1 py_nth nth_error bind is_true truthy]. destruct (negb h || negb (py_eq (kf x) k)); reflexivity. }
  rewrite Hh. destruct h; cbn [negb orb].
  - destruct (py_eq (kf x) k); cbn [negb flat_map app]; [reflexivity|].
    unfold hmd, dacc. cbn [apply1 py_nth nth_error out_res app its map]. reflexivity.
  - cbn [flat_map app]. unfold hmd, dacc. cbn [apply1 py_nth nth_error out_res app its map]. reflexivity.
Qed.
Theorem duc_items xs : items_of item (pipe_l duc_ops) (its xs) = its (duc_spec None xs).
Proof.
  change (pipe_l duc_ops) with
    (compose_l (L_scan (A2Duc km) dseed TObj false None)
       (compose_l (L_filter (FComp (FNth 0) FIsTrue)) (compose_l (L_map (FNth 1)) L_id))).
  rewrite !compose_items, items_of_id.
  rewrite (scan_inv0_items (A2Duc km) gd wfd gd_ok dseed ltac:(unfold wfd, dseed, dacc; eauto) xs).
  rewrite (stateless_items (L_filter (FComp (FNth 0) FIsTrue)) hfd); [|reflexivity|reflexivity].
  rewrite (stateless_items_gen (L_map (FNth 1)) (fun z => match z with It w => hmd w | _ => [z] end));
    [|intros u z; destruct z; reflexivity|reflexivity].
  rewrite flat_map_comp. apply (duc_stream xs false VNone VNone false).
Qed.
End Duc.
