(* C11: promptness.  Timed semantics is the primary object everywhere (outputs per consumed event);
   here: causality of the timed run, and synchronous composition preserves emission positions. *)
From Coq Require Import List Arith Lia Bool.
From RxVerif Require Import Mux.Sim Mux.SimExt Mux.ConfineProofs Mux.LocalSemProofs.
Import ListNotations.

Section Prompt.
Variable V : Type.

(* nothing is emitted for input that has not been consumed: the outputs during a prefix of the trace
   do not depend on what follows *)
Theorem mrun_prefix (M : machine V) : forall t1 t2 s,
  firstn (length t1) (mrun V M s (t1 ++ t2)) = mrun V M s t1.
Proof.
  induction t1 as [|e t1 IH]; intros t2 s; cbn [app length firstn mrun]; [reflexivity|].
  destruct (step M s e) as [s' o]. cbn [firstn]. now rewrite IH.
Qed.
Theorem mrun_length (M : machine V) : forall t s, length (mrun V M s t) = length t.
Proof. induction t as [|e t IH]; intro s; cbn [mrun length]; [reflexivity|]. destruct (step M s e). cbn [length]. now rewrite IH. Qed.

(* local machines: per-item causality *)
Theorem lsteps_prefix_indep (L : lmachine V) : forall xs ys s,
  firstn (length xs) (fst (lsteps V L s (xs ++ ys))) = fst (lsteps V L s xs).
Proof.
  intros xs ys s. rewrite lsteps_app. cbn [fst]. rewrite firstn_app.
  assert (Hl : forall zs s0, length (fst (lsteps V L s0 zs)) = length zs).
  { induction zs as [|z zs IH]; intro s0; cbn [lsteps]; [reflexivity|]. destruct (lnext L s0 z) as [s1 o].
    specialize (IH s1). destruct (lsteps V L s1 zs). cbn [fst length] in *. now rewrite IH. }
  rewrite Hl, Nat.sub_diag. cbn [firstn]. rewrite app_nil_r. apply firstn_all2. rewrite Hl. lia.
Qed.

(* synchronous composition: in every step the second machine consumes exactly what the first one emits
   in THAT step - emission positions are preserved by pipelines *)
Fixpoint feed_steps (L : lmachine V) (b : LS L) (os : list (list V)) : list (list V) * LS L :=
  match os with
  | [] => ([], b)
  | o :: os' => let '(b1, e) := lfeed L b o in let '(es, b2) := feed_steps L b1 os' in (e :: es, b2)
  end.
Theorem compose_timed (L1 L2 : lmachine V) : forall xs a b,
  fst (lsteps V (compose_l L1 L2) (a, b) xs) = fst (feed_steps L2 b (fst (lsteps V L1 a xs))).
Proof.
  induction xs as [|x xs IH]; intros a b; cbn [lsteps feed_steps]; [reflexivity|].
  cbn [lnext compose_l]. destruct (lnext L1 a x) as [a1 o1]. destruct (lfeed L2 b o1) as [b1 e1] eqn:Ef.
  specialize (IH a1 b1). destruct (lsteps V (compose_l L1 L2) (a1, b1) xs) as [os s2].
  destruct (lsteps V L1 a1 xs) as [os1 a2]. cbn [fst snd feed_steps] in *. rewrite Ef.
  destruct (feed_steps L2 b1 os1) as [es b2]. cbn [fst] in *. now rewrite IH.
Qed.
End Prompt.
