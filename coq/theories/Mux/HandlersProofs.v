(* C13: item-level errors.  An operator followed by a stateless per-item handler; handlers. *)
From Coq Require Import List ZArith Bool Arith Lia.
From RxVerif Require Import Mux.Val Mux.Sim Mux.SimExt Mux.Ops Mux.LocalSemProofs Mux.OpsSpecProofs.
Import ListNotations.

(* a stateless second stage that maps every item to a list of items *)
Definition stateless (L : lm) (h : item -> list item) : Prop :=
  (forall s x, lnext L s x = (s, h x)) /\ (forall s, ldone L s = []).

Lemma lfeed_stateless (L : lm) h : stateless L h -> forall o s, lfeed L s o = (s, flat_map h o).
Proof.
  intros [Hn _]. induction o as [|x o IH]; intro s; cbn [lfeed flat_map]; [reflexivity|].
  rewrite Hn, IH. reflexivity.
Qed.
Theorem compose_stateless (L1 L2 : lm) h : stateless L2 h -> forall xs a b,
  fst (lsteps item (compose_l L1 L2) (a, b) xs) = map (flat_map h) (fst (lsteps item L1 a xs)) /\
  snd (lsteps item (compose_l L1 L2) (a, b) xs) = (snd (lsteps item L1 a xs), b).
Proof.
  intro Hs. induction xs as [|x xs IH]; intros a b; cbn [lsteps]; [split; reflexivity|].
  cbn [lnext compose_l]. destruct (lnext L1 a x) as [a1 o1]. rewrite (lfeed_stateless L2 h Hs).
  destruct (IH a1 b) as [E1 E2]. destruct (lsteps item (compose_l L1 L2) (a1, b) xs) as [os s2].
  destruct (lsteps item L1 a1 xs) as [os1 a2]. cbn [fst snd map] in *. subst. split; reflexivity.
Qed.
Corollary ltimed_stateless (L1 L2 : lm) h : stateless L2 h -> forall xs,
  ltimed item (compose_l L1 L2) xs = (map (flat_map h) (fst (ltimed item L1 xs)), flat_map h (snd (ltimed item L1 xs))).
Proof.
  intros Hs xs. unfold ltimed. cbn [l0 compose_l].
  destruct (compose_stateless L1 L2 h Hs xs (l0 L1) (l0 L2)) as [E1 E2].
  destruct (lsteps item (compose_l L1 L2) (l0 L1, l0 L2) xs) as [os s]. cbn [fst snd] in *. subst.
  destruct (lsteps item L1 (l0 L1) xs) as [os1 a]. cbn [fst snd ldone compose_l].
  rewrite (lfeed_stateless L2 h Hs). rewrite (proj2 Hs). now rewrite app_nil_r.
Qed.

Definition h_ignore (x : item) : list item := match x with IErr _ => [] | _ => [x] end.
Definition h_errmap (f : fn) (x : item) : list item :=
  match x with IErr e => match apply1 f (VInt e) with Ok y => [It y] | Raise e' => [IFatal e'] end | _ => [x] end.
Definition h_route (x : item) : list item :=
  match x with IErr e => [IDead e] | IFatal e => [IDead e; IFatal e] | _ => [x] end.
Definition h_errfatal (x : item) : list item := match x with IErr e => [IFatal e] | _ => [x] end.
Lemma ignore_stateless : stateless L_ignore h_ignore. Proof. split; reflexivity. Qed.
Lemma errmap_stateless f : stateless (L_errmap f) (h_errmap f). Proof. split; reflexivity. Qed.
Lemma route_stateless : stateless L_route h_route. Proof. split; reflexivity. Qed.
Lemma errfatal_stateless : stateless L_errfatal h_errfatal. Proof. split; reflexivity. Qed.

(* map f ; ignore : the failing items are absent, everything else is untouched, position by position *)
Theorem map_ignore_spec f xs :
  fst (ltimed item (compose_l (L_map f) L_ignore) (its xs))
  = prefix_map (fun _ x => match apply1 f x with Ok y => [It y] | Raise _ => [] end) [] xs.
Proof.
  rewrite (ltimed_stateless _ _ _ ignore_stateless). cbn [fst].
  change (fst (ltimed item (L_map f) (its xs))) with (steps_of (L_map f) xs). rewrite (proj1 (map_spec f xs)).
  generalize (@nil val). induction xs as [|x xs IH]; intro pre; cbn [prefix_map map]; [reflexivity|].
  rewrite IH. f_equal. destruct (apply1 f x); reflexivity.
Qed.
Theorem map_errmap_spec f g xs :
  fst (ltimed item (compose_l (L_map f) (L_errmap g)) (its xs))
  = prefix_map (fun _ x => match apply1 f x with
                           | Ok y => [It y]
                           | Raise e => match apply1 g (VInt e) with Ok y => [It y] | Raise e' => [IFatal e'] end
                           end) [] xs.
Proof.
  rewrite (ltimed_stateless _ _ _ (errmap_stateless g)). cbn [fst].
  change (fst (ltimed item (L_map f) (its xs))) with (steps_of (L_map f) xs). rewrite (proj1 (map_spec f xs)).
  generalize (@nil val). induction xs as [|x xs IH]; intro pre; cbn [prefix_map map]; [reflexivity|].
  rewrite IH. f_equal. destruct (apply1 f x); cbn; [reflexivity|]. now rewrite app_nil_r.
Qed.
(* the router: main output as for ignore, the exceptions go to the dead letter channel in order *)
Theorem map_route_spec f xs :
  fst (ltimed item (compose_l (L_map f) L_route) (its xs))
  = prefix_map (fun _ x => match apply1 f x with Ok y => [It y] | Raise e => [IDead e] end) [] xs.
Proof.
  rewrite (ltimed_stateless _ _ _ route_stateless). cbn [fst].
  change (fst (ltimed item (L_map f) (its xs))) with (steps_of (L_map f) xs). rewrite (proj1 (map_spec f xs)).
  generalize (@nil val). induction xs as [|x xs IH]; intro pre; cbn [prefix_map map]; [reflexivity|].
  rewrite IH. f_equal. destruct (apply1 f x); reflexivity.
Qed.
(* no handler: the mux error becomes on_error at the enclosing demux, in the same step *)
Theorem map_unhandled_spec f xs :
  fst (ltimed item (compose_l (L_map f) L_errfatal) (its xs))
  = prefix_map (fun _ x => match apply1 f x with Ok y => [It y] | Raise e => [IFatal e] end) [] xs.
Proof.
  rewrite (ltimed_stateless _ _ _ errfatal_stateless). cbn [fst].
  change (fst (ltimed item (L_map f) (its xs))) with (steps_of (L_map f) xs). rewrite (proj1 (map_spec f xs)).
  generalize (@nil val). induction xs as [|x xs IH]; intro pre; cbn [prefix_map map]; [reflexivity|].
  rewrite IH. f_equal. destruct (apply1 f x); reflexivity.
Qed.
Theorem filter_ignore_spec p xs :
  fst (ltimed item (compose_l (L_filter p) L_ignore) (its xs))
  = prefix_map (fun _ x => match apply1 p x with Ok r => if truthy r then [It x] else [] | Raise _ => [] end) [] xs.
Proof.
  rewrite (ltimed_stateless _ _ _ ignore_stateless). cbn [fst].
  change (fst (ltimed item (L_filter p) (its xs))) with (steps_of (L_filter p) xs). rewrite (proj1 (filter_spec p xs)).
  generalize (@nil val). induction xs as [|x xs IH]; intro pre; cbn [prefix_map map]; [reflexivity|].
  rewrite IH. f_equal. destruct (apply1 p x) as [r|e]; [destruct (truthy r)|]; reflexivity.
Qed.
(* scan: a failing item is absent for everything that follows (the accumulator is untouched) *)
Theorem scan_failing_item_absent a seed t reduce term st x e rest :
  apply2 a (match st with Some c => c | None => seed end) x = Raise e ->
  lsteps item (L_scan a seed t reduce term) st (It x :: rest)
  = ([IErr e] :: fst (lsteps item (L_scan a seed t reduce term) st rest), snd (lsteps item (L_scan a seed t reduce term) st rest)).
Proof.
  intro H. cbn [lsteps]. rewrite (scan_raise_keeps_state a seed t reduce term st x e H).
  destruct (lsteps item (L_scan a seed t reduce term) st rest); reflexivity.
Qed.
(* handlers do not touch ordinary items *)
Theorem handlers_pass_items v g :
  h_ignore (It v) = [It v] /\ h_errmap g (It v) = [It v] /\ h_route (It v) = [It v] /\ h_errfatal (It v) = [It v].
Proof. repeat split; reflexivity. Qed.
