(* Lifetimes that do not end with a completion.  rxsci's operators release a key on OnErrorMux as they do on
   OnCompletedMux, and the key may then be created again: in the model's terms a Create for a key that is
   still live.  The refinement theorems of Sim.v exclude that (a Create needs a free slot).  Here the same
   simulation is proved under the weaker rule `the slot is free OR it is held by this very key`, for
   pipelines of the simple (per-slot) operators - scan and everything defined through it, first, last,
   take, distinct, lag, pad, start_with, assert, the error handlers - and sequential compositions of them.
   Consequence (recreate_lifetime): what such a pipeline emits from a Create on depends on the items that
   follow it alone, whether the previous lifetime of the key was completed or not. *)
From Coq Require Import List ZArith Bool Arith Lia.
From RxVerif Require Import Mux.Val Mux.Sim Mux.SimExt Mux.Seg Mux.Ops Mux.Syntax Mux.ConfineProofs Mux.LocalSemProofs
  Mux.MasterProofs.
Import ListNotations.

Section Recreate.
Variable V : Type.
Notation ev := (ev V).
Notation machine := (machine V).
Notation lmachine := (lmachine V).

Definition allowed' (live : list key) (e : ev) : Prop :=
  match e with
  | Create k => forall k', In k' live -> slot k' = slot k -> k' = k
  | Next k _ | Done k => In k live
  end.
Definition after' (live : list key) (e : ev) : list key :=
  match e with Create k => k :: remove keq k live | Next _ _ => live | Done k => remove keq k live end.
Fixpoint allowed_seq' (live : list key) (l : list ev) : Prop :=
  match l with [] => True | e :: l' => allowed' live e /\ allowed_seq' (after' live e) l' end.
Fixpoint after_seq' (live : list key) (l : list ev) : list key :=
  match l with [] => live | e :: l' => after_seq' (after' live e) l' end.

Lemma NoDup_remove_keq (k : key) (live : list key) : NoDup live -> NoDup (remove keq k live).
Proof.
  intro Hnd. induction live as [|a live IH]; cbn [remove]; [constructor|].
  inversion Hnd; subst. destruct (keq k a); auto.
  constructor; auto. intro Hi. apply in_remove in Hi. tauto.
Qed.

Lemma good_after' live e : good live -> allowed' live e -> good (after' live e).
Proof.
  intros [Hnd Hinj] Ha. destruct e as [k|k x|k]; cbn [after' allowed'] in *; [|split; auto|].
  - split.
    + constructor; [intro Hi; apply in_remove_iff in Hi; tauto | apply NoDup_remove_keq; exact Hnd].
    + intros k1 k2 [<-|I1] [<-|I2] E; auto.
      * apply in_remove_iff in I2. symmetry. apply Ha; [tauto|congruence].
      * apply in_remove_iff in I1. apply Ha; tauto.
      * apply in_remove_iff in I1. apply in_remove_iff in I2. apply Hinj; tauto.
  - split.
    + apply NoDup_remove_keq. exact Hnd.
    + intros k1 k2 I1 I2. apply in_remove_iff in I1, I2. apply Hinj; tauto.
Qed.

Record refines' (M : machine) (L : lmachine) := {
  R' : list key -> St M -> kmap L -> Prop;
  R'_init : R' [] (init M) (fun _ => None);
  R'_step : forall live s m e, good live -> R' live s m -> allowed' live e ->
              snd (step M s e) = snd (kstep L m e) /\ R' (after' live e) (fst (step M s e)) (fst (kstep L m e));
  R'_live : forall live s m k, R' live s m -> (m k <> None <-> In k live)
}.

Lemma feed_refines' M L (H : refines' M L) : forall l live s m, good live -> R' M L H live s m -> allowed_seq' live l ->
  snd (feed M s l) = snd (kfeed L m l) /\ R' M L H (after_seq' live l) (fst (feed M s l)) (fst (kfeed L m l)).
Proof.
  induction l as [|e l IH]; intros live s m Hg HR Hal; cbn [feed kfeed allowed_seq' after_seq' fst snd] in *; [auto|].
  destruct Hal as [Ha Hal]. destruct (R'_step M L H _ _ _ e Hg HR Ha) as [Ho HR'].
  destruct (step M s e) as [s1 o1]; destruct (kstep L m e) as [m1 o1']; cbn [fst snd] in *. subst o1'.
  destruct (IH _ _ _ (good_after' _ _ Hg Ha) HR' Hal) as [Ho2 HR2].
  destruct (feed M s1 l) as [s2 o2]; destruct (kfeed L m1 l) as [m2 o2']; cbn [fst snd] in *. subst. auto.
Qed.

(* ---- one per-slot operator ---- *)
Theorem slot_refines' (L : lmachine) : refines' (slot_m V L) L.
Proof.
  refine (Build_refines' (slot_m V L) L (RSlot V L) _ _ _).
  - split. intros k []. intro k; split; [intro H; exfalso; apply H; reflexivity | intros []].
  - intros live a m e [Hnd Hinj] [Hv Hl] Ha.
    destruct e as [k|k x|k]; cbn [allowed' after'] in *.
    + (* Create, possibly of a key that is still live *)
      cbn [step slot_m kstep fst snd]. split; [reflexivity|]. split.
      * intros k0 [<-|Hi]. now rewrite nth_set_nth_same, upd_same.
        apply in_remove_iff in Hi. destruct Hi as [Hi Hne].
        rewrite nth_set_nth_other by (intro E; apply Hne; apply Ha; auto).
        rewrite upd_other by auto. auto.
      * intro k0. destruct (keq k0 k) as [->|Hne].
        rewrite upd_same. split; [intros _; now left | discriminate].
        rewrite upd_other by auto. cbn [In]. rewrite Hl, in_remove_iff. split; [intro; right; tauto | intros [E|Hi]; [congruence|tauto]].
    + (* Next *) cbn [step slot_m kstep]. rewrite (Hv k Ha).
      destruct (m k) as [s0|] eqn:Em; [|exfalso; apply (proj2 (Hl k) Ha); auto].
      destruct (lnext L s0 x) as [s' o]. cbn [fst snd]. split; [reflexivity|]. split.
      * intros k0 Hi. destruct (keq k0 k) as [->|Hne]. now rewrite nth_set_nth_same, upd_same.
        rewrite nth_set_nth_other by (intro E; apply Hne; symmetry; apply Hinj; auto).
        rewrite upd_other by auto. auto.
      * intro k0. destruct (keq k0 k) as [->|Hne]. rewrite upd_same. split; [auto | discriminate].
        rewrite upd_other by auto. apply Hl.
    + (* Done *) cbn [step slot_m kstep]. rewrite (Hv k Ha).
      destruct (m k) as [s0|] eqn:Em; [|exfalso; apply (proj2 (Hl k) Ha); auto].
      cbn [fst snd]. split; [reflexivity|]. split.
      * intros k0 Hi. apply in_remove_iff in Hi. destruct Hi as [Hi Hne].
        rewrite nth_set_nth_other by (intro E; apply Hne; symmetry; apply Hinj; auto).
        rewrite upd_other by auto. auto.
      * intro k0. rewrite in_remove_iff. destruct (keq k0 k) as [->|Hne].
        rewrite upd_same. split; [congruence | intros [_ ?]; congruence].
        rewrite upd_other by auto. rewrite Hl. tauto.
  - intros live a m k [_ Hl]. apply Hl.
Qed.

(* ---- sequential composition ---- *)
Section Compose.
Variables M1 M2 : machine.
Variables L1 L2 : lmachine.
Variable H1 : refines' M1 L1.
Variable H2 : refines' M2 L2.

Definition RK' (live : list key) (st : St (compose_m V M1 M2)) (m : kmap (compose_l L1 L2)) : Prop :=
  exists m1 m2, R' M1 L1 H1 live (fst st) m1 /\ R' M2 L2 H2 live (snd st) m2 /\
    forall k, m k = match m1 k, m2 k with Some a, Some b => Some (a, b) | _, _ => None end.

Lemma nexts_allowed' live k (o : list V) : In k live ->
  allowed_seq' live (map (Next k) o) /\ after_seq' live (map (Next k) o) = live.
Proof. intro Hi. induction o as [|x o IH]; cbn; auto. destruct IH. split; auto. Qed.
Lemma nexts_done_allowed' live k (o : list V) : In k live ->
  allowed_seq' live (map (Next k) o ++ [Done k]) /\ after_seq' live (map (Next k) o ++ [Done k]) = remove keq k live.
Proof. intro Hi. induction o as [|x o IH]; cbn; auto. destruct IH. split; auto. Qed.

Theorem compose_refines' : refines' (compose_m V M1 M2) (compose_l L1 L2).
Proof.
  refine (Build_refines' _ _ RK' _ _ _).
  - exists (fun _ => None), (fun _ => None). repeat split; try apply R'_init.
  - intros live [s1 s2] m e Hg (m1 & m2 & HR1 & HR2 & Hm) Ha. cbn [fst snd] in HR1, HR2.
    destruct (R'_step M1 L1 H1 _ _ _ e Hg HR1 Ha) as [Ho1 HR1'].
    cbn [step compose_m]. destruct (step M1 s1 e) as [s1' o1]. cbn [fst snd] in *. subst o1.
    assert (Hlive1 := fun k => R'_live M1 L1 H1 live s1 m1 k HR1).
    assert (Hlive2 := fun k => R'_live M2 L2 H2 live s2 m2 k HR2).
    destruct e as [k|k x|k]; cbn [allowed'] in Ha; cbn [kstep after'] in *.
    + (* Create *)
      assert (Hal : allowed_seq' live [Create k]) by (cbn; auto).
      destruct (feed_refines' M2 L2 H2 _ _ _ _ Hg HR2 Hal) as [Ho2 HR2']. cbn [kfeed kstep after_seq' after' fst snd] in *.
      destruct (feed M2 s2 [Create k]) as [s2' o2]. cbn [fst snd] in *. subst o2. split; auto.
      exists (upd m1 k (Some (l0 L1))), (upd m2 k (Some (l0 L2))). repeat split; auto.
      intro k0. destruct (keq k0 k) as [->|Hne]. rewrite !upd_same. reflexivity. rewrite !upd_other; auto.
    + (* Next *)
      assert (In k live) as Hk by auto.
      destruct (m1 k) as [a|] eqn:E1. 2:{ exfalso. apply (Hlive1 k); auto. }
      destruct (m2 k) as [b|] eqn:E2. 2:{ exfalso. apply (Hlive2 k); auto. }
      rewrite (Hm k), E1, E2. cbn [lnext compose_l].
      destruct (lnext L1 a x) as [a' o1] eqn:En. cbn [fst snd] in *.
      destruct (nexts_allowed' live k o1 Hk) as [Hal Haf].
      destruct (feed_refines' M2 L2 H2 _ _ _ _ Hg HR2 Hal) as [Ho2 HR2']. rewrite Haf in HR2'.
      destruct (kfeed_nexts V L2 k o1 m2 b E2) as (A & B & C).
      destruct (feed M2 s2 (map (Next k) o1)) as [s2' o2]. destruct (kfeed L2 m2 (map (Next k) o1)) as [m2' o2']. cbn [fst snd] in *. subst.
      destruct (lfeed L2 b o1) as [b' o2l]. cbn [fst snd] in *. split; auto.
      exists (upd m1 k (Some a')), m2'. repeat split; auto.
      intro k0. destruct (keq k0 k) as [->|Hne]. rewrite !upd_same, B. reflexivity. rewrite !upd_other, C, Hm; auto.
    + (* Done *)
      assert (In k live) as Hk by auto.
      destruct (m1 k) as [a|] eqn:E1. 2:{ exfalso. apply (Hlive1 k); auto. }
      destruct (m2 k) as [b|] eqn:E2. 2:{ exfalso. apply (Hlive2 k); auto. }
      rewrite (Hm k), E1, E2. cbn [ldone compose_l]. cbn [fst snd] in *.
      set (o1 := ldone L1 a) in *.
      destruct (nexts_done_allowed' live k o1 Hk) as [Hal Haf].
      destruct (feed_refines' M2 L2 H2 _ _ _ _ Hg HR2 Hal) as [Ho2 HR2']. rewrite Haf in HR2'.
      rewrite kfeed_app in Ho2, HR2'.
      destruct (kfeed_nexts V L2 k o1 m2 b E2) as (A & B & C).
      destruct (kfeed L2 m2 (map (Next k) o1)) as [m2' o2']. cbn [fst snd kfeed kstep] in *. rewrite B in Ho2, HR2'.
      destruct (feed M2 s2 (map (Next k) o1 ++ [Done k])) as [s2' o2]. cbn [fst snd] in *. subst.
      destruct (lfeed L2 b o1) as [b' o2l]. cbn [fst snd] in *. split.
      { rewrite app_nil_r, map_app, app_assoc. reflexivity. }
      exists (upd m1 k None), (upd m2' k None). repeat split; auto.
      intro k0. destruct (keq k0 k) as [->|Hne]. rewrite !upd_same. reflexivity. rewrite !upd_other, C, Hm; auto.
  - intros live [s1 s2] m k (m1 & m2 & HR1 & HR2 & Hm). cbn [fst snd] in *. rewrite Hm.
    pose proof (R'_live M1 L1 H1 _ _ _ k HR1) as Ha. pose proof (R'_live M2 L2 H2 _ _ _ k HR2) as Hb.
    destruct (m1 k), (m2 k); split; intro Hx;
      first [ congruence | apply Ha; congruence | exfalso; apply Ha in Hx; congruence | exfalso; apply Hb in Hx; congruence ].
Qed.
End Compose.

Theorem run_refines' (M : machine) (L : lmachine) (H : refines' M L) : forall t live s m,
  good live -> R' M L H live s m -> allowed_seq' live t -> mrun V M s t = krun V L m t.
Proof.
  induction t as [|e t IH]; intros live s m Hg HR Hal; [reflexivity|].
  cbn [allowed_seq'] in Hal. destruct Hal as [Ha Hal]. cbn [mrun krun].
  destruct (R'_step M L H live s m e Hg HR Ha) as [Ho HR'].
  destruct (step M s e) as [s' o]. destruct (kstep L m e) as [m' o']. cbn [fst snd] in *. subst o'.
  f_equal. apply (IH (after' live e)); auto. apply good_after'; auto.
Qed.
End Recreate.

(* ---- pipelines of simple operators ---- *)
Definition simple_op (o : op) : bool :=
  match o with OTee _ _ | OGroup _ _ | ORoll _ _ _ | OSplit _ _ | OTimeSplit _ _ _ _ _ _ => false | _ => true end.
Definition simple_pipe (P : list op) : bool := forallb simple_op P.

Lemma simple_den (o : op) : simple_op o = true -> bm item (den o) = slot_m item (bl item (den o)).
Proof. destruct o; intro H; try discriminate; reflexivity. Qed.

Definition wf' (t : list iev) : Prop := allowed_seq' item [] t.

Lemma simple_pipe_refines' : forall P, simple_pipe P = true -> refines' item (pipe_m P) (pipe_l P).
Proof.
  induction P as [|o P IH]; intro H.
  - apply slot_refines'.
  - cbn [simple_pipe forallb] in H. apply andb_prop in H. destruct H as [Ho HP].
    change (pipe_m (o :: P)) with (compose_m item (bm item (den o)) (pipe_m P)).
    change (pipe_l (o :: P)) with (compose_l (bl item (den o)) (pipe_l P)).
    apply compose_refines'; [|apply IH; exact HP].
    rewrite (simple_den o Ho). apply slot_refines'.
Qed.

Theorem recreate_run_local (P : list op) (t : list iev) : simple_pipe P = true -> wf' t ->
  raw_run P t = local_run P t.
Proof.
  intros HP Ht. unfold raw_run, local_run. rewrite run_timed_mrun.
  pose (H := simple_pipe_refines' P HP).
  apply (run_refines' item _ _ H t [] (init (pipe_m P)) (kempty item (pipe_l P)) (good_nil) (R'_init item _ _ H) Ht).
Qed.

(* from a Create on, the outputs on key k are those of the local machine on the items that follow, whatever
   happened to k before - completed or not *)
Theorem recreate_lifetime (P : list op) (t pre : list iev) (k : key) (xs : list item) : simple_pipe P = true -> wf' t ->
  filter (on_key item k) t = pre ++ lifetime item k xs ->
  sel item k t (raw_run P t) =
    local_run P pre ++
    ([Create k] :: map (map (Next k)) (fst (ltimed item (pipe_l P) xs))
                ++ [map (Next k) (snd (ltimed item (pipe_l P) xs)) ++ [Done k]]).
Proof.
  intros HP Ht E. rewrite (recreate_run_local P t HP Ht). unfold local_run.
  rewrite (lifetime_fresh item (pipe_l P) k t pre (map (Next k) xs ++ [Done k]) _ E). f_equal.
  apply krun_lifetime.
Qed.
