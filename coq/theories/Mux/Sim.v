From Coq Require Import List Arith Lia Bool.
Import ListNotations.


Section Sim.
Variable V : Type.
Definition key := list nat.
Definition slot (k : key) : nat := hd 0 k.
Definition keq := list_eq_dec Nat.eq_dec.
Inductive ev := Create (k : key) | Next (k : key) (x : V) | Done (k : key).

Definition allowed (live : list key) (e : ev) : Prop :=
  match e with
  | Create k => forall k', In k' live -> slot k' <> slot k
  | Next k _ | Done k => In k live
  end.
Definition after (live : list key) (e : ev) : list key :=
  match e with Create k => k :: live | Next _ _ => live | Done k => remove keq k live end.

Definition good (live : list key) : Prop :=
  NoDup live /\ forall k k', In k live -> In k' live -> slot k = slot k' -> k = k'.
Lemma in_remove_iff (k k0 : key) live : In k0 (remove keq k live) <-> In k0 live /\ k0 <> k.
Proof. split. intro Hi; apply in_remove in Hi; auto. intros [Hi Hn]; apply in_in_remove; auto. Qed.
Lemma good_after live e : good live -> allowed live e -> good (after live e).
Proof.
  intros [Hnd Hinj] Ha; destruct e as [k|k x|k]; simpl in *; [|split; auto|].
  - split. constructor; auto. intro Hi. apply (Ha k Hi); auto.
    intros k1 k2 [<-|I1] [<-|I2] E; auto; exfalso; [eapply Ha; eauto | eapply Ha; eauto].
  - split. clear -Hnd. induction live; simpl; auto. inversion Hnd; subst. destruct keq; auto.
    constructor; auto. intro Hi. apply in_remove in Hi. tauto.
    intros k1 k2 I1 I2. apply in_remove_iff in I1, I2. apply Hinj; tauto.
Qed.

Record machine := { St : Type; init : St; step : St -> ev -> St * list ev }.
Record lmachine := { LS : Type; l0 : LS; lnext : LS -> V -> LS * list V; ldone : LS -> list V }.

Definition kmap (L : lmachine) := key -> option (LS L).
Definition upd {L} (m : kmap L) (k : key) (v : option (LS L)) : kmap L := fun k' => if keq k' k then v else m k'.
Definition kstep (L : lmachine) (m : kmap L) (e : ev) : kmap L * list ev :=
  match e with
  | Create k => (upd m k (Some (l0 L)), [Create k])
  | Next k x => match m k with
                | Some s => let '(s', o) := lnext L s x in (upd m k (Some s'), map (Next k) o)
                | None => (m, []) end
  | Done k => match m k with
              | Some s => (upd m k None, map (Next k) (ldone L s) ++ [Done k])
              | None => (m, [Done k]) end
  end.

(* forward simulation of a machine by the key-lift of a local machine, on allowed events *)
Record refines (M : machine) (L : lmachine) := {
  R : list key -> St M -> kmap L -> Prop;
  R_init : R [] (init M) (fun _ => None);
  R_step : forall live s m e, good live -> R live s m -> allowed live e ->
             snd (step M s e) = snd (kstep L m e) /\ R (after live e) (fst (step M s e)) (fst (kstep L m e));
  (* the abstract map is supported on live keys *)
  R_live : forall live s m k, R live s m -> (m k <> None <-> In k live)
}.

(* feeding several events *)
Fixpoint feed (M : machine) (s : St M) (l : list ev) : St M * list ev :=
  match l with [] => (s, []) | e :: l' => let '(s1, o1) := step M s e in let '(s2, o2) := feed M s1 l' in (s2, o1 ++ o2) end.
Fixpoint kfeed (L : lmachine) (m : kmap L) (l : list ev) : kmap L * list ev :=
  match l with [] => (m, []) | e :: l' => let '(m1, o1) := kstep L m e in let '(m2, o2) := kfeed L m1 l' in (m2, o1 ++ o2) end.
Fixpoint allowed_seq (live : list key) (l : list ev) : Prop :=
  match l with [] => True | e :: l' => allowed live e /\ allowed_seq (after live e) l' end.
Fixpoint after_seq (live : list key) (l : list ev) : list key :=
  match l with [] => live | e :: l' => after_seq (after live e) l' end.

Lemma good_after_seq l : forall live, good live -> allowed_seq live l -> good (after_seq live l).
Proof. induction l; simpl; intros; auto. destruct H0. apply IHl; auto. apply good_after; auto. Qed.
Lemma feed_refines M L (H : refines M L) : forall l live s m, good live -> R M L H live s m -> allowed_seq live l ->
  snd (feed M s l) = snd (kfeed L m l) /\ R M L H (after_seq live l) (fst (feed M s l)) (fst (kfeed L m l)).
Proof.
  induction l as [|e l IH]; intros live s m Hg HR Hal; simpl in *; [auto|].
  destruct Hal as [Ha Hal]. destruct (R_step M L H _ _ _ e Hg HR Ha) as [Ho HR'].
  destruct (step M s e) as [s1 o1]; destruct (kstep L m e) as [m1 o1']; simpl in *. subst o1'.
  destruct (IH _ _ _ (good_after _ _ Hg Ha) HR' Hal) as [Ho2 HR2].
  destruct (feed M s1 l) as [s2 o2]; destruct (kfeed L m1 l) as [m2 o2']; simpl in *. subst. auto.
Qed.

(* ---------- group_by composite ---------- *)
Variable G : Type.                       (* group key values *)
Variable geq : forall a b : G, {a = b} + {a <> b}.
Variable km : V -> G.

Fixpoint assoc {B} (g : G) (l : list (G * B)) : option B :=
  match l with [] => None | (g', b) :: l' => if geq g g' then Some b else assoc g l' end.
Fixpoint set_nth {A} (n : nat) (a d : A) (l : list A) : list A :=
  match n, l with
  | 0, [] => [a] | 0, _ :: l' => a :: l'
  | S n', [] => d :: set_nth n' a d [] | S n', x :: l' => x :: set_nth n' a d l' end.

(* head state: mapper slots (assoc lists in insertion order) + global counter *)
Definition hstate := (list (list (G * nat)) * nat)%type.
Definition demux (o : list ev) : list ev :=
  flat_map (fun e => match e with Next (_ :: k) y => [Next k y] | _ => [] end) o.

Definition group_m (I : machine) : machine :=
  {| St := hstate * St I;
     init := (([], 0), init I);
     step := fun '((slots, ctr), si) e =>
       match e with
       | Create k => ((set_nth (slot k) [] [] slots, ctr, si), [Create k])
       | Next k x =>
           let g := km x in
           let mp := nth (slot k) slots [] in
           match assoc g mp with
           | Some idx => let '(si', o) := feed I si [Next (idx :: k) x] in ((slots, ctr, si'), demux o)
           | None => let '(si', o) := feed I si [Create (ctr :: k); Next (ctr :: k) x] in
                     ((set_nth (slot k) (mp ++ [(g, ctr)]) [] slots, S ctr, si'), demux o)
           end
       | Done k =>
           let mp := nth (slot k) slots [] in
           let '(si', o) := feed I si (map (fun '(_, idx) => Done (idx :: k)) mp) in
           ((set_nth (slot k) [] [] slots, ctr, si'), demux o ++ [Done k])
       end |}.

(* the per-key specification: insertion-ordered assoc list of inner local states *)
Fixpoint lg_upd {B} (g : G) (b : B) (l : list (G * B)) : list (G * B) :=
  match l with [] => [(g, b)] | (g', b') :: l' => if geq g g' then (g', b) :: l' else (g', b') :: lg_upd g b l' end.
Definition group_l (LI : lmachine) : lmachine :=
  {| LS := list (G * LS LI);
     l0 := [];
     lnext := fun st x =>
       let g := km x in
       let s := match assoc g st with Some s => s | None => l0 LI end in
       let '(s', o) := lnext LI s x in (lg_upd g s' st, o);
     ldone := fun st => flat_map (fun '(_, s) => ldone LI s) st |}.


(* ---------- helper lemmas ---------- *)
Lemma nth_set_nth_same A n (a d : A) l : nth n (set_nth n a d l) d = a.
Proof. revert l; induction n; destruct l; simpl; auto. Qed.
Lemma nth_set_nth_other A n m (a d : A) l : n <> m -> nth m (set_nth n a d l) d = nth m l d.
Proof. revert m l; induction n; destruct l, m; simpl; intros; try lia; auto.
  - destruct m; auto.
  - rewrite IHn by lia. destruct m; auto.
Qed.
Lemma upd_same L (m : kmap L) k v : upd m k v k = v.
Proof. unfold upd; destruct (keq k k); congruence. Qed.
Lemma upd_other L (m : kmap L) k k' v : k' <> k -> upd m k v k' = m k'.
Proof. unfold upd; intros; destruct (keq k' k); congruence. Qed.

Lemma assoc_none B g (l : list (G * B)) : assoc g l = None <-> ~ In g (map fst l).
Proof. induction l as [|[g' b] l IH]; simpl. tauto. destruct (geq g g'); split; intros; try discriminate.
  - exfalso; apply H; auto.
  - intros [E|Hi]; [congruence|]. apply IH in H; auto.
  - apply IH. intro; apply H; auto.
Qed.
Lemma assoc_in B g (l : list (G * B)) b : assoc g l = Some b -> In (g, b) l.
Proof. induction l as [|[g' b'] l IH]; simpl; [discriminate|]. destruct (geq g g'); intros.
  - inversion H; subst; auto. - auto. Qed.

Lemma NoDup_snoc A (l : list A) a : NoDup l -> ~ In a l -> NoDup (l ++ [a]).
Proof. induction l; simpl; intros. constructor; auto. inversion H; subst. constructor. intro Hi. apply in_app_or in Hi. destruct Hi as [Hi|[Hi|[]]]; subst; tauto. apply IHl; tauto. Qed.
Section GroupProof.
Variable I : machine.
Variable LI : lmachine.
Variable HI : refines I LI.

Definition getI (mI : kmap LI) (ik : key) : LS LI := match mI ik with Some s => s | None => l0 LI end.
Definition absst (mI : kmap LI) (k : key) (mp : list (G * nat)) : list (G * LS LI) :=
  map (fun '(g, idx) => (g, getI mI (idx :: k))) mp.
Definition inner_keys (live : list key) (slots : list (list (G * nat))) (ik : key) : Prop :=
  exists k g idx, In k live /\ In (g, idx) (nth (slot k) slots []) /\ ik = idx :: k.

Definition RC (live : list key) (st : St (group_m I)) (mC : kmap (group_l LI)) : Prop :=
  let '((slots, ctr), si) := st in
  exists ilive mI,
    R I LI HI ilive si mI /\ good ilive /\
    (forall ik, In ik ilive <-> inner_keys live slots ik) /\
    (forall k g idx, In k live -> In (g, idx) (nth (slot k) slots []) -> idx < ctr) /\
    (forall k, In k live -> NoDup (map fst (nth (slot k) slots []))) /\
    (forall k, In k live -> NoDup (map snd (nth (slot k) slots []))) /\
    (forall k, mC k = if in_dec keq k live then Some (absst mI k (nth (slot k) slots [])) else None).

Lemma assoc_absst mI k g mp : assoc g (absst mI k mp) = option_map (fun idx => getI mI (idx :: k)) (assoc g mp).
Proof. induction mp as [|[g' idx] mp IH]; simpl; auto. destruct (geq g g'); auto. Qed.

Lemma absst_ext mI mI' k mp : (forall g idx, In (g, idx) mp -> mI' (idx :: k) = mI (idx :: k)) -> absst mI' k mp = absst mI k mp.
Proof. intro H. unfold absst. apply map_ext_in. intros [g idx] Hi. unfold getI. rewrite (H _ _ Hi). auto. Qed.

Lemma absst_upd_found mI k mp g idx s' :
  assoc g mp = Some idx -> NoDup (map snd mp) ->
  absst (upd mI (idx :: k) (Some s')) k mp = lg_upd g s' (absst mI k mp).
Proof.
  induction mp as [|[g' idx'] mp IH]; simpl; [discriminate|]. intros Ha Hnd. inversion Hnd; subst.
  destruct (geq g g').
  - inversion Ha; subst. unfold getI at 1. rewrite upd_same. f_equal.
    apply absst_ext. intros g0 idx0 Hi. apply upd_other. intro E. inversion E; subst. apply H1. apply (in_map snd) in Hi; auto.
  - unfold getI at 1. rewrite upd_other. 2:{ intro E; inversion E; subst. apply assoc_in in Ha. apply H1. apply (in_map snd) in Ha; auto. }
    fold (getI mI (idx' :: k)). f_equal. apply IH; auto.
Qed.
Lemma lg_upd_notin B g (b : B) l : ~ In g (map fst l) -> lg_upd g b l = l ++ [(g, b)].
Proof. induction l as [|[g' b'] l IH]; simpl; auto. intros H. destruct (geq g g'). exfalso; apply H; auto. f_equal. apply IH. tauto. Qed.

Lemma RC_live live st mC k : RC live st mC -> (mC k <> None <-> In k live).
Proof. destruct st as [[slots ctr] si]. intros (ilive & mI & _ & _ & _ & _ & _ & _ & Hm). rewrite Hm.
  destruct (in_dec keq k live); split; intros; auto; try discriminate; try congruence. Qed.

Lemma RC_create live st mC k : good live -> RC live st mC -> allowed live (Create k) ->
  snd (step (group_m I) st (Create k)) = snd (kstep (group_l LI) mC (Create k)) /\
  RC (after live (Create k)) (fst (step (group_m I) st (Create k))) (fst (kstep (group_l LI) mC (Create k))).
Proof.
  destruct st as [[slots ctr] si]. intros Hg (ilive & mI & HR & Hgi & Hik & Hlt & Hnd1 & Hnd2 & Hm) Ha.
  simpl in Ha. split; [reflexivity|]. cbn [step group_m fst kstep after].
  assert (Hnin : ~ In k live) by (intro Hi; apply (Ha k Hi); auto).
  assert (Hoth : forall k', In k' live -> nth (slot k') (set_nth (slot k) [] [] slots) [] = nth (slot k') slots []).
  { intros k' Hi. apply nth_set_nth_other. intro E. apply (Ha k' Hi); auto. }
  exists ilive, mI. refine (conj HR (conj Hgi (conj _ (conj _ (conj _ (conj _ _)))))).
  - intro ik; split.
    intro Hi. apply Hik in Hi. destruct Hi as (k0 & g & idx & H1 & H2 & H3). exists k0, g, idx. repeat split; auto. now right. rewrite Hoth; auto.
    intros (k0 & g & idx & [<-|H1] & H2 & H3).
    + rewrite nth_set_nth_same in H2. destruct H2.
    + apply Hik. exists k0, g, idx. rewrite Hoth in H2; auto.
  - intros k0 g idx [<-|H1] H2. rewrite nth_set_nth_same in H2; destruct H2. rewrite Hoth in H2; eauto.
  - intros k0 [<-|H1]. rewrite nth_set_nth_same; constructor. rewrite Hoth; auto.
  - intros k0 [<-|H1]. rewrite nth_set_nth_same; constructor. rewrite Hoth; auto.
  - intro k0. destruct (keq k0 k) as [->|Hne].
    + rewrite upd_same. destruct in_dec as [_|n]; [|exfalso; apply n; now left]. rewrite nth_set_nth_same. reflexivity.
    + rewrite upd_other by auto. rewrite Hm. destruct (in_dec keq k0 live), (in_dec keq k0 (k :: live)); auto.
      * rewrite Hoth; auto. * exfalso; apply n; now right. * destruct i; congruence.
Qed.


Lemma demux_map_next idx k o : demux (map (Next (idx :: k)) o) = map (Next k) o.
Proof. induction o; simpl; auto. unfold demux in *. simpl. now rewrite IHo. Qed.
Lemma demux_app a b : demux (a ++ b) = demux a ++ demux b.
Proof. unfold demux. apply flat_map_app. Qed.

Lemma RC_next live st mC k x : good live -> RC live st mC -> allowed live (Next k x) ->
  snd (step (group_m I) st (Next k x)) = snd (kstep (group_l LI) mC (Next k x)) /\
  RC (after live (Next k x)) (fst (step (group_m I) st (Next k x))) (fst (kstep (group_l LI) mC (Next k x))).
Proof.
  destruct st as [[slots ctr] si]. intros Hg (ilive & mI & HR & Hgi & Hik & Hlt & Hnd1 & Hnd2 & Hm) Ha.
  simpl in Ha. cbn [step group_m kstep after].
  rewrite (Hm k). destruct (in_dec keq k live) as [_|n]; [|contradiction].
  set (mp := nth (slot k) slots []) in *.
  cbn [lnext group_l]. rewrite assoc_absst.
  destruct (assoc (km x) mp) as [idx|] eqn:Eas; cbn [option_map].
  - (* existing group *)
    assert (Hin : In (idx :: k) ilive). { apply Hik. exists k, (km x), idx. repeat split; auto. apply assoc_in; auto. }
    assert (Hal : allowed_seq ilive [Next (idx :: k) x]) by (simpl; auto).
    destruct (feed_refines I LI HI _ _ _ _ Hgi HR Hal) as [Ho HR'].
    cbn [kfeed kstep after_seq after] in Ho, HR'.
    assert (HmI : mI (idx :: k) <> None) by (apply (R_live I LI HI _ _ _ _ HR); auto).
    unfold getI. destruct (mI (idx :: k)) as [s|] eqn:EmI; [|congruence].
    destruct (lnext LI s x) as [s' o] eqn:Eln. cbn [fst snd] in *.
    destruct (feed I si [Next (idx :: k) x]) as [si' oi]. cbn [fst snd] in *. subst oi.
    split. { rewrite app_nil_r. apply demux_map_next. }
    exists ilive, (upd mI (idx :: k) (Some s')). refine (conj HR' (conj Hgi (conj Hik (conj Hlt (conj Hnd1 (conj Hnd2 _)))))).
    intro k0. destruct (keq k0 k) as [->|Hne].
    + rewrite upd_same. destruct in_dec; [|contradiction]. f_equal. fold mp. symmetry. apply absst_upd_found; auto. apply Hnd2; auto.
    + rewrite upd_other by auto. rewrite Hm. destruct in_dec; auto. f_equal. symmetry. apply absst_ext.
      intros g0 idx0 _. apply upd_other. congruence.
  - (* new group *)
    assert (Hfresh : forall ik', In ik' ilive -> slot ik' <> ctr).
    { intros ik' Hi. apply Hik in Hi. destruct Hi as (k0 & g & idx & H1 & H2 & ->). simpl. apply Hlt in H2; auto. lia. }
    assert (Hal : allowed_seq ilive [Create (ctr :: k); Next (ctr :: k) x]).
    { simpl. repeat split; auto. }
    destruct (feed_refines I LI HI _ _ _ _ Hgi HR Hal) as [Ho HR'].
    pose proof (good_after_seq _ _ Hgi Hal) as Hgi'.
    cbn [kfeed kstep after_seq after] in Ho, HR', Hgi'. rewrite upd_same in Ho, HR'.
    destruct (lnext LI (l0 LI) x) as [s' o] eqn:Eln. cbn [fst snd] in *.
    destruct (feed I si [Create (ctr :: k); Next (ctr :: k) x]) as [si' oi]. cbn [fst snd] in *. subst oi.
    split. { rewrite app_nil_r. change (Create (ctr :: k) :: map (Next (ctr :: k)) o) with ([Create (ctr :: k)] ++ map (Next (ctr :: k)) o).
             rewrite demux_app, demux_map_next. reflexivity. }
    assert (Hoth : forall k', In k' live -> k' <> k -> nth (slot k') (set_nth (slot k) (mp ++ [(km x, ctr)]) [] slots) [] = nth (slot k') slots []).
    { intros k' Hi Hne. apply nth_set_nth_other. intro E. apply Hne. symmetry. apply (proj2 Hg); auto. }
    exists ((ctr :: k) :: ilive), (upd (upd mI (ctr :: k) (Some (l0 LI))) (ctr :: k) (Some s')).
    refine (conj HR' (conj Hgi' (conj _ (conj _ (conj _ (conj _ _)))))).
    + intro ik; split.
      * intros [<-|Hi].
        -- exists k, (km x), ctr. repeat split; auto. rewrite nth_set_nth_same. apply in_or_app; right; now left.
        -- apply Hik in Hi. destruct Hi as (k0 & g & idx & H1 & H2 & H3). exists k0, g, idx. repeat split; auto.
           destruct (keq k0 k) as [->|Hne]. rewrite nth_set_nth_same. apply in_or_app; now left. rewrite Hoth; auto.
      * intros (k0 & g & idx & H1 & H2 & H3). destruct (keq k0 k) as [->|Hne].
        -- rewrite nth_set_nth_same in H2. apply in_app_or in H2. destruct H2 as [H2|[H2|[]]].
           right. apply Hik. exists k, g, idx; auto. inversion H2; subst. now left.
        -- rewrite Hoth in H2; auto. right. apply Hik. exists k0, g, idx; auto.
    + intros k0 g idx H1 H2. destruct (keq k0 k) as [->|Hne].
      * rewrite nth_set_nth_same in H2. apply in_app_or in H2. destruct H2 as [H2|[H2|[]]]. apply Hlt in H2; auto. inversion H2; lia.
      * rewrite Hoth in H2; auto. apply Hlt in H2; auto.
    + intros k0 H1. destruct (keq k0 k) as [->|Hne].
      * rewrite nth_set_nth_same. rewrite map_app. simpl. apply NoDup_snoc. apply Hnd1; auto. apply assoc_none; auto.
      * rewrite Hoth; auto.
    + intros k0 H1. destruct (keq k0 k) as [->|Hne].
      * rewrite nth_set_nth_same. rewrite map_app. simpl. apply NoDup_snoc. apply Hnd2; auto.
        intro Hi. apply in_map_iff in Hi. destruct Hi as ([g idx] & E & Hi). simpl in E; subst. apply Hlt in Hi; auto. lia.
      * rewrite Hoth; auto.
    + intro k0. destruct (keq k0 k) as [->|Hne].
      * rewrite upd_same. destruct in_dec; [|contradiction]. f_equal. rewrite nth_set_nth_same.
        rewrite lg_upd_notin. 2:{ unfold absst. rewrite map_map. intro Hi. apply in_map_iff in Hi. destruct Hi as ([g idx] & E & Hi). simpl in E.
                                   apply assoc_none in Eas. apply Eas. apply in_map_iff. exists (g, idx); auto. }
        symmetry. unfold absst at 1. rewrite map_app. cbn [map]. unfold getI at 2. rewrite upd_same. f_equal.
        apply absst_ext. intros g0 idx0 Hi. rewrite !upd_other; auto; intro E; inversion E; subst; apply Hlt in Hi; auto; lia.
      * rewrite upd_other by auto. rewrite Hm. destruct in_dec; auto. f_equal. rewrite Hoth; auto. symmetry. apply absst_ext.
        intros g0 idx0 _. rewrite !upd_other; auto; congruence.
Qed.


Definition dones (k : key) (mp : list (G * nat)) : list ev := map (fun '(_, idx) => Done (idx :: k)) mp.

Lemma kfeed_dones k : forall mp mI, NoDup (map snd mp) ->
  (forall g idx, In (g, idx) mp -> mI (idx :: k) <> None) ->
  demux (snd (kfeed LI mI (dones k mp))) = map (Next k) (flat_map (fun '(_, s) => ldone LI s) (absst mI k mp)) /\
  (forall ik, (forall g idx, In (g, idx) mp -> ik <> idx :: k) -> fst (kfeed LI mI (dones k mp)) ik = mI ik).
Proof.
  induction mp as [|[g idx] mp IH]; intros mI Hnd Hsome.
  - simpl. split; auto.
  - inversion Hnd; subst. cbn [dones map kfeed kstep].
    assert (Hs := Hsome g idx (or_introl eq_refl)).
    destruct (mI (idx :: k)) as [s|] eqn:E; [|congruence].
    specialize (IH (upd mI (idx :: k) None) H2).
    destruct IH as [IH1 IH2].
    { intros g0 idx0 Hi. rewrite upd_other. apply (Hsome g0 idx0); now right.
      intro Eq; inversion Eq; subst. apply H1. apply (in_map snd) in Hi; auto. }
    fold (dones k mp). destruct (kfeed LI (upd mI (idx :: k) None) (dones k mp)) as [m2 o2]. cbn [fst snd] in *.
    split.
    + rewrite !demux_app, demux_map_next, IH1. cbn [absst map flat_map]. unfold getI at 1. rewrite E.
      rewrite map_app. change (demux [Done (idx :: k)]) with (@nil ev). rewrite app_nil_r. f_equal. f_equal. f_equal.
      fold (absst mI k mp). apply absst_ext.
      intros g0 idx0 Hi. apply upd_other. intro Eq; inversion Eq; subst. apply H1. apply (in_map snd) in Hi; auto.
    + intros ik Hik. rewrite IH2. apply upd_other. apply (Hik g idx); now left.
      intros g0 idx0 Hi. apply (Hik g0 idx0); now right.
Qed.

Lemma allowed_dones k : forall mp ilive, NoDup (map snd mp) ->
  (forall g idx, In (g, idx) mp -> In (idx :: k) ilive) ->
  allowed_seq ilive (dones k mp) /\
  (forall ik, In ik (after_seq ilive (dones k mp)) <-> In ik ilive /\ forall g idx, In (g, idx) mp -> ik <> idx :: k).
Proof.
  induction mp as [|[g idx] mp IH]; intros ilive Hnd Hin.
  - simpl. split; auto. intro ik; split; [intro; split; auto; intros ? ? []|tauto].
  - inversion Hnd; subst. cbn [dones map allowed_seq after_seq allowed after]. fold (dones k mp).
    destruct (IH (remove keq (idx :: k) ilive) H2) as [IH1 IH2].
    { intros g0 idx0 Hi. apply in_remove_iff. split. apply (Hin g0 idx0); now right.
      intro Eq; inversion Eq; subst. apply H1. apply (in_map snd) in Hi; auto. }
    split. split; auto. apply (Hin g idx); now left.
    intro ik. rewrite IH2, in_remove_iff. split.
    + intros [[Hi Hne] Hall]. split; auto. intros g0 idx0 [Eq|Hi0]. inversion Eq; subst; auto. eauto.
    + intros [Hi Hall]. split; [split; auto|]. apply (Hall g idx); now left. intros g0 idx0 Hi0; apply (Hall g0 idx0); now right.
Qed.


Lemma RC_done live st mC k : good live -> RC live st mC -> allowed live (Done k) ->
  snd (step (group_m I) st (Done k)) = snd (kstep (group_l LI) mC (Done k)) /\
  RC (after live (Done k)) (fst (step (group_m I) st (Done k))) (fst (kstep (group_l LI) mC (Done k))).
Proof.
  destruct st as [[slots ctr] si]. intros Hg (ilive & mI & HR & Hgi & Hik & Hlt & Hnd1 & Hnd2 & Hm) Ha.
  simpl in Ha. cbn [step group_m kstep after].
  rewrite (Hm k). destruct (in_dec keq k live) as [_|n]; [|contradiction].
  set (mp := nth (slot k) slots []) in *. fold (dones k mp).
  assert (Hin : forall g idx, In (g, idx) mp -> In (idx :: k) ilive).
  { intros g idx Hi. apply Hik. exists k, g, idx; auto. }
  destruct (allowed_dones k mp ilive (Hnd2 k Ha) Hin) as [Hal Haft].
  destruct (feed_refines I LI HI _ _ _ _ Hgi HR Hal) as [Ho HR'].
  pose proof (good_after_seq _ _ Hgi Hal) as Hgi'.
  destruct (kfeed_dones k mp mI (Hnd2 k Ha)) as [Hk1 Hk2].
  { intros g idx Hi. apply (R_live I LI HI _ _ _ _ HR); eauto. }
  destruct (feed I si (dones k mp)) as [si' oi]. destruct (kfeed LI mI (dones k mp)) as [mI' oi']. cbn [fst snd] in *. subst oi'.
  split. { rewrite Hk1. cbn [ldone group_l]. reflexivity. }
  assert (Hoth : forall k', In k' live -> k' <> k -> nth (slot k') (set_nth (slot k) [] [] slots) [] = nth (slot k') slots []).
  { intros k' Hi Hne. apply nth_set_nth_other. intro E. apply Hne. symmetry. apply (proj2 Hg); auto. }
  exists (after_seq ilive (dones k mp)), mI'.
  refine (conj HR' (conj Hgi' (conj _ (conj _ (conj _ (conj _ _)))))).
  - intro ik. rewrite Haft. split.
    + intros [Hi Hall]. apply Hik in Hi. destruct Hi as (k0 & g & idx & H1 & H2 & ->).
      assert (k0 <> k). { intro; subst. apply (Hall g idx); auto. }
      exists k0, g, idx. repeat split; auto. apply in_remove_iff; auto. rewrite Hoth; auto.
    + intros (k0 & g & idx & H1 & H2 & ->). apply in_remove_iff in H1. destruct H1 as [H1 Hne].
      rewrite Hoth in H2; auto. split. apply Hik. exists k0, g, idx; auto.
      intros g0 idx0 _ E. inversion E; congruence.
  - intros k0 g idx H1 H2. apply in_remove_iff in H1. destruct H1. rewrite Hoth in H2; eauto.
  - intros k0 H1. apply in_remove_iff in H1. destruct H1. rewrite Hoth; auto.
  - intros k0 H1. apply in_remove_iff in H1. destruct H1. rewrite Hoth; auto.
  - intro k0. destruct (keq k0 k) as [->|Hne].
    + rewrite upd_same. destruct in_dec as [i|]; auto. apply in_remove_iff in i. tauto.
    + rewrite upd_other by auto. rewrite Hm.
      destruct (in_dec keq k0 live), (in_dec keq k0 (remove keq k live)) as [i'|n']; auto.
      * f_equal. rewrite Hoth; auto. symmetry. apply absst_ext. intros g0 idx0 _. apply Hk2. intros g1 idx1 _ E. inversion E; congruence.
      * exfalso. apply n'. apply in_remove_iff; auto.
      * apply in_remove_iff in i'. tauto.
Qed.

Theorem group_refines : refines (group_m I) (group_l LI).
Proof.
  refine {| R := RC |}.
  - simpl. exists [], (fun _ => None). refine (conj (R_init I LI HI) (conj _ (conj _ (conj _ (conj _ (conj _ _)))))).
    + split. constructor. intros ? ? [].
    + intro ik; split. intros []. intros (k & g & idx & [] & _).
    + intros ? ? ? [].
    + intros ? [].
    + intros ? [].
    + intro k. reflexivity.
  - intros live s m e Hg HR Ha. destruct e.
    + apply RC_create; auto. + apply RC_next; auto. + apply RC_done; auto.
  - intros live s m k HR. eapply RC_live; eauto.
Defined.

End GroupProof.


(* ================= roll ================= *)
Lemma kfeed_app L : forall a b (m : kmap L),
  kfeed L m (a ++ b) = let '(m1, o1) := kfeed L m a in let '(m2, o2) := kfeed L m1 b in (m2, o1 ++ o2).
Proof.
  induction a as [|e a IH]; intros b m; simpl.
  - destruct (kfeed L m b); reflexivity.
  - destruct (kstep L m e) as [m1 o1]. rewrite IH. destruct (kfeed L m1 a) as [m2 o2]. destruct (kfeed L m2 b) as [m3 o3].
    now rewrite app_assoc.
Qed.
Lemma allowed_seq_app : forall a b live, allowed_seq live (a ++ b) <-> allowed_seq live a /\ allowed_seq (after_seq live a) b.
Proof. induction a; simpl; intros. tauto. rewrite IHa. tauto. Qed.
Lemma after_seq_app : forall a b live, after_seq live (a ++ b) = after_seq (after_seq live a) b.
Proof. induction a; simpl; intros; auto. Qed.

Lemma flat_map_ext_in A B (f g : A -> list B) l : (forall a, In a l -> f a = g a) -> flat_map f l = flat_map g l.
Proof. induction l; simpl; intros; auto. rewrite H, IHl; auto. Qed.
Section RollProof.
Variable I : machine.
Variable LI : lmachine.
Variable HI : refines I LI.
Variables w s d : nat.
Hypothesis Hs : 1 <= s.
Hypothesis Hd : w <= d * s.
Hypothesis Hd1 : 1 <= d.

Definition ekey (e : ev) : key := match e with Create k | Next k _ | Done k => k end.

(* a batch of events on one key, run on that key's local state *)
Definition kstep1 (st : option (LS LI)) (e : ev) : option (LS LI) * list ev :=
  match e with
  | Create k => (Some (l0 LI), [Create k])
  | Next k x => match st with Some s0 => let '(s', o) := lnext LI s0 x in (Some s', map (Next k) o) | None => (st, []) end
  | Done k => match st with Some s0 => (None, map (Next k) (ldone LI s0) ++ [Done k]) | None => (st, [Done k]) end
  end.
Fixpoint krun1 (st : option (LS LI)) (b : list ev) : option (LS LI) * list ev :=
  match b with
  | [] => (st, [])
  | e :: b' => let '(st1, o1) := kstep1 st e in let '(st2, o2) := krun1 st1 b' in (st2, o1 ++ o2)
  end.

Lemma kstep_kstep1 mI e : snd (kstep LI mI e) = snd (kstep1 (mI (ekey e)) e) /\
  fst (kstep LI mI e) (ekey e) = fst (kstep1 (mI (ekey e)) e) /\
  forall ik', ik' <> ekey e -> fst (kstep LI mI e) ik' = mI ik'.
Proof.
  destruct e as [k|k x|k]; cbn [kstep kstep1 ekey].
  - cbn [fst snd]. rewrite upd_same. repeat split; auto. intros; apply upd_other; auto.
  - destruct (mI k) as [s0|] eqn:E.
    + destruct (lnext LI s0 x) as [s' o]. cbn [fst snd]. rewrite upd_same. repeat split; auto. intros; apply upd_other; auto.
    + cbn [fst snd]. repeat split; auto.
  - destruct (mI k) as [s0|] eqn:E; cbn [fst snd].
    + rewrite upd_same. repeat split; auto. intros; apply upd_other; auto.
    + repeat split; auto.
Qed.

Lemma kfeed_batch ik : forall b mI, Forall (fun e => ekey e = ik) b ->
  snd (kfeed LI mI b) = snd (krun1 (mI ik) b) /\
  fst (kfeed LI mI b) ik = fst (krun1 (mI ik) b) /\
  forall ik', ik' <> ik -> fst (kfeed LI mI b) ik' = mI ik'.
Proof.
  induction b as [|e b IH]; intros mI Hall; [simpl; auto|].
  inversion Hall; subst. cbn [kfeed krun1].
  destruct (kstep_kstep1 mI e) as (K1 & K2 & K3).
  destruct (kstep LI mI e) as [m1 o1]. destruct (kstep1 (mI (ekey e)) e) as [st1 o1']. cbn [fst snd] in *. subst o1'.
  destruct (IH m1 H2) as (J1 & J2 & J3). rewrite K2 in J1, J2.
  destruct (kfeed LI m1 b) as [m2 o2]. destruct (krun1 st1 b) as [st2 o2']. cbn [fst snd] in *. subst.
  repeat split; auto. intros ik' Hne. rewrite J3, K3; auto.
Qed.

(* batches on pairwise distinct keys *)
Lemma kfeed_batches : forall (bs : list (key * list ev)) mI,
  NoDup (map fst bs) -> Forall (fun '(ik, b) => Forall (fun e => ekey e = ik) b) bs ->
  snd (kfeed LI mI (flat_map snd bs)) = flat_map (fun '(ik, b) => snd (krun1 (mI ik) b)) bs /\
  (forall ik b, In (ik, b) bs -> fst (kfeed LI mI (flat_map snd bs)) ik = fst (krun1 (mI ik) b)) /\
  (forall ik', ~ In ik' (map fst bs) -> fst (kfeed LI mI (flat_map snd bs)) ik' = mI ik').
Proof.
  induction bs as [|[ik b] bs IH]; intros mI Hnd Hall; [simpl; repeat split; auto; intros ? ? []|].
  inversion Hnd; subst. inversion Hall; subst. cbn [flat_map snd map fst] in *.
  rewrite kfeed_app. destruct (kfeed_batch ik b mI H3) as (B1 & B2 & B3).
  destruct (kfeed LI mI b) as [m1 o1]. cbn [fst snd] in *.
  destruct (IH m1 H2 H4) as (J1 & J2 & J3).
  destruct (kfeed LI m1 (flat_map snd bs)) as [m2 o2]. cbn [fst snd] in *. subst.
  split; [|split].
  - f_equal. apply flat_map_ext_in. intros [ik' b'] Hi. rewrite B3; auto. intro; subst. apply H1. apply (in_map fst) in Hi; auto.
  - intros ik0 b0 [E|Hi].
    + inversion E; subst. rewrite J3; auto.
    + rewrite (J2 _ _ Hi). rewrite B3; auto. intro; subst. apply H1. apply (in_map fst) in Hi; auto.
  - intros ik' Hn. rewrite J3, B3; auto; intro; apply Hn; simpl; auto.
Qed.

Definition is_done (e : ev) : bool := match e with Done _ => true | _ => false end.
Definition shape (ik : key) (b : list ev) : Prop :=
  b = [] \/ (exists x, b = [Next ik x]) \/ (exists x, b = [Next ik x; Done ik]) \/ b = [Done ik].

Lemma allowed_batches : forall (bs : list (key * list ev)) ilive,
  NoDup (map fst bs) -> Forall (fun '(ik, b) => shape ik b /\ (b <> [] -> In ik ilive)) bs ->
  allowed_seq ilive (flat_map snd bs) /\
  (forall ik', In ik' (after_seq ilive (flat_map snd bs)) <->
               In ik' ilive /\ ~ exists b, In (ik', b) bs /\ existsb is_done b = true).
Proof.
  induction bs as [|[ik b] bs IH]; intros ilive Hnd Hall.
  - simpl. split; auto. intro; split. intro; split; auto. intros (b & [] & _). tauto.
  - inversion Hnd; subst. inversion Hall; subst. destruct H3 as [Hsh Hin].
    cbn [flat_map snd]. rewrite allowed_seq_app.
    assert (Hb : allowed_seq ilive b /\ forall ik', In ik' (after_seq ilive b) <-> In ik' ilive /\ ~ (ik' = ik /\ existsb is_done b = true)).
    { destruct Hsh as [E|[[x E]|[[x E]|E]]]; subst b; simpl.
      - split; auto. intro; split; [intro; split; auto; intros [_ ?]; discriminate|tauto].
      - split. split; auto. apply Hin; discriminate. intro; split; [intro; split; auto; intros [_ ?]; discriminate|tauto].
      - split. repeat split; auto; apply Hin; discriminate. intro ik'. rewrite in_remove_iff. split; intros [A B]; split; auto. intros [? _]; auto.
      - split. split; auto. apply Hin; discriminate. intro ik'. rewrite in_remove_iff. split; intros [A B]; split; auto. intros [? _]; auto. }
    destruct Hb as [Hb1 Hb2].
    destruct (IH (after_seq ilive b) H2) as [IH1 IH2].
    { apply Forall_forall. intros [ik0 b0] Hi. rewrite Forall_forall in H4. specialize (H4 _ Hi). simpl in H4. destruct H4 as [A B]. split; auto.
      intro Hne. apply Hb2. split; auto. intros [-> _]. apply H1. apply (in_map fst) in Hi; auto. }
    split; [split; auto|].
    intro ik'. rewrite after_seq_app, IH2, Hb2. split.
    + intros [[A B] C]. split; auto. intros (b0 & [E|Hi] & Hd0).
      * inversion E; subst. apply B; auto.
      * apply C. exists b0; auto.
    + intros [A B]. split; [split; auto|].
      * intros [-> Hd0]. apply B. exists b; split; auto. now left.
      * intros (b0 & Hi & Hd0). apply B. exists b0; split; auto. now right.
Qed.


(* ---------- roll: concrete head + composite ---------- *)
Definition base (k : key) : nat := slot k * d.
Definition ikey (k : key) (o : nat) : key := (base k + o) :: k.

Fixpoint set_range (b : nat) (os : list nat) (f : nat -> option nat) (ws : list (option nat)) : list (option nat) :=
  match os with [] => ws | o :: os' => set_range b os' f (set_nth (b + o) (f o) None ws) end.

Lemma set_range_other b f : forall os ws i, (forall o, In o os -> i <> b + o) -> nth i (set_range b os f ws) None = nth i ws None.
Proof. induction os; simpl; intros; auto. rewrite IHos by auto. apply nth_set_nth_other. intro E. apply (H a); auto. Qed.
Lemma set_range_in b f : forall os ws o, NoDup os -> In o os -> nth (b + o) (set_range b os f ws) None = f o.
Proof.
  induction os; simpl; intros ws o Hnd Hi; [destruct Hi|]. inversion Hnd; subst. destruct Hi as [->|Hi].
  - rewrite set_range_other. apply nth_set_nth_same. intros o' Ho' E. assert (o = o') by lia. subst; auto.
  - apply IHos; auto.
Qed.

Definition closes (n st : nat) : bool := n - st + 1 =? w.
Definition cell_evs (k : key) (n : nat) (x : V) (o : nat) (c : option nat) : list ev :=
  match c with
  | Some st => Next (ikey k o) x :: (if closes n st then [Done (ikey k o)] else [])
  | None => [] end.
Definition cell_upd (n : nat) (c : option nat) : option nat :=
  match c with Some st => if closes n st then None else Some st | None => None end.

Definition rstate := (list nat * list (option nat))%type.
Definition offs := seq 0 d.
(* flush order at completion (repaired roll.py): oldest window first, i.e. starting at the ring
   slot that the next window would claim *)
Definition first_slot (n : nat) : nat := ((n + s - 1) / s) mod d.
Definition rot (n : nat) : list nat := map (fun o => (first_slot n + o) mod d) offs.

Definition roll_m : machine :=
  {| St := rstate * St I;
     init := (([], []), init I);
     step := fun '((ns, ws), si) e =>
       match e with
       | Create k => ((set_nth (slot k) 0 0 ns, set_range (base k) offs (fun _ => None) ws, si), [Create k])
       | Next k x =>
           let n := nth (slot k) ns 0 in
           let opening := n mod s =? 0 in
           let onew := (n / s) mod d in
           let ws1 := if opening then set_nth (base k + onew) (Some n) None ws else ws in
           let evs := (if opening then [Create (ikey k onew)] else []) ++
                      flat_map (fun o => cell_evs k n x o (nth (base k + o) ws1 None)) offs in
           let '(si', o) := feed I si evs in
           ((set_nth (slot k) (n + 1) 0 ns,
             set_range (base k) offs (fun o => cell_upd n (nth (base k + o) ws1 None)) ws1, si'), demux o)
       | Done k =>
           let evs := flat_map (fun o => match nth (base k + o) ws None with Some _ => [Done (ikey k o)] | None => [] end) (rot (nth (slot k) ns 0)) in
           let '(si', o) := feed I si evs in
           ((set_nth (slot k) 0 0 ns, set_range (base k) offs (fun _ => None) ws, si'), demux o ++ [Done k])
       end |}.

(* ---------- roll: per-key specification (ring of d cells, no global arrays) ---------- *)
Definition lcell := option (nat * LS LI).
Definition lcell_step (n : nat) (x : V) (c : lcell) : lcell * list V :=
  match c with
  | Some (st, sI) => let '(sI', out) := lnext LI sI x in
                     if closes n st then (None, out ++ ldone LI sI') else (Some (st, sI'), out)
  | None => (None, []) end.
Definition roll_l : lmachine :=
  {| LS := nat * list lcell;
     l0 := (0, map (fun _ => None) offs);
     lnext := fun '(n, cells) x =>
        let opening := n mod s =? 0 in
        let onew := (n / s) mod d in
        let cells1 := if opening then set_nth onew (Some (n, l0 LI)) None cells else cells in
        let res := map (lcell_step n x) cells1 in
        ((n + 1, map fst res), flat_map snd res);
     ldone := fun '(n, cells) => flat_map (fun o => match nth o cells None with Some (_, sI) => ldone LI sI | None => [] end) (rot n) |}.

Definition rgetI (mI : kmap LI) (ik : key) : LS LI := match mI ik with Some s0 => s0 | None => l0 LI end.
Definition abs_cells (mI : kmap LI) (k : key) (ws : list (option nat)) : list lcell :=
  map (fun o => option_map (fun st => (st, rgetI mI (ikey k o))) (nth (base k + o) ws None)) offs.

Definition ring_inv (n : nat) (cellf : nat -> option nat) : Prop :=
  forall o st, o < d -> cellf o = Some st -> exists j, st = j * s /\ j mod d = o /\ st < n /\ n < st + w.

Definition rinner_keys (live : list key) (ws : list (option nat)) (ik : key) : Prop :=
  exists k o st, In k live /\ o < d /\ nth (base k + o) ws None = Some st /\ ik = ikey k o.

Definition RR (live : list key) (st : St roll_m) (mC : kmap roll_l) : Prop :=
  let '((ns, ws), si) := st in
  exists ilive mI,
    R I LI HI ilive si mI /\ good ilive /\
    (forall ik, In ik ilive <-> rinner_keys live ws ik) /\
    (forall k, In k live -> ring_inv (nth (slot k) ns 0) (fun o => nth (base k + o) ws None)) /\
    (forall k, mC k = if in_dec keq k live then Some (nth (slot k) ns 0, abs_cells mI k ws) else None).

Lemma ikey_inj k o k' o' : ikey k o = ikey k' o' -> k = k' /\ o = o'.
Proof. unfold ikey. intro E. inversion E; subst. split; auto. lia. Qed.
Lemma in_offs o : In o offs <-> o < d.
Proof. unfold offs. rewrite in_seq. lia. Qed.
Lemma offs_nodup : NoDup offs. Proof. apply seq_NoDup. Qed.
Lemma rot_lt n o : In o (rot n) -> o < d.
Proof. unfold rot. intro Hi. apply in_map_iff in Hi. destruct Hi as (o' & <- & _). apply Nat.mod_upper_bound. lia. Qed.
Lemma NoDup_map_in0 A B (f : A -> B) l : (forall a b, In a l -> In b l -> f a = f b -> a = b) -> NoDup l -> NoDup (map f l).
Proof. induction l; simpl; intros Hinj Hnd. constructor. inversion Hnd; subst. constructor.
  - intro Hi. apply in_map_iff in Hi. destruct Hi as (b & E & Hb). assert (b = a) by (apply Hinj; auto). subst; auto.
  - apply IHl; auto. Qed.
Lemma rot_nodup n : NoDup (rot n).
Proof.
  unfold rot. apply NoDup_map_in0; [|apply offs_nodup]. intros a b Ha Hb E. apply in_offs in Ha, Hb.
  set (f := first_slot n) in *.
  pose proof (Nat.div_mod (f + a) d ltac:(lia)) as E1. pose proof (Nat.div_mod (f + b) d ltac:(lia)) as E2.
  pose proof (Nat.mod_upper_bound (f + a) d ltac:(lia)) as B1.
  rewrite E in E1. set (qa := (f + a) / d) in *. set (qb := (f + b) / d) in *. set (r := (f + b) mod d) in *.
  assert (qa = qb) by nia. nia.
Qed.
Lemma rot_in n o : o < d -> In o (rot n).
Proof.
  intro Ho. apply (@NoDup_length_incl _ (rot n) offs (rot_nodup n)).
  - unfold rot. rewrite map_length. lia.
  - intros x Hx. apply in_offs. eapply rot_lt; eauto.
  - apply in_offs; auto.
Qed.
(* slots of different live outer keys give disjoint index ranges *)
Lemma base_disjoint k k' o o' : o < d -> o' < d -> base k + o = base k' + o' -> slot k = slot k' /\ o = o'.
Proof. unfold base. intros. assert (slot k = slot k') by nia. split; auto. nia. Qed.


Hypothesis Hw : 1 <= w.

Lemma demux_flat_map A (f : A -> list ev) l : demux (flat_map f l) = flat_map (fun a => demux (f a)) l.
Proof. induction l; simpl; auto. rewrite demux_app, IHl. auto. Qed.
Lemma map_flat_map A B C0 (g : B -> C0) (f : A -> list B) l : map g (flat_map f l) = flat_map (fun a => map g (f a)) l.
Proof. induction l; simpl; auto. rewrite map_app, IHl; auto. Qed.
Lemma flat_map_map A B C0 (g : A -> B) (f : B -> list C0) l : flat_map f (map g l) = flat_map (fun a => f (g a)) l.
Proof. induction l; simpl; auto. rewrite IHl; auto. Qed.

Lemma RR_live live st mC k : RR live st mC -> (mC k <> None <-> In k live).
Proof. destruct st as [[ns ws] si]. intros (ilive & mI & _ & _ & _ & _ & Hm). rewrite Hm.
  destruct (in_dec keq k live); split; intros; auto; try discriminate; try congruence. Qed.

Lemma RR_create live st mC k : good live -> RR live st mC -> allowed live (Create k) ->
  snd (step roll_m st (Create k)) = snd (kstep roll_l mC (Create k)) /\
  RR (after live (Create k)) (fst (step roll_m st (Create k))) (fst (kstep roll_l mC (Create k))).
Proof.
  destruct st as [[ns ws] si]. intros Hg (ilive & mI & HR & Hgi & Hik & Hinv & Hm) Ha.
  simpl in Ha. split; [reflexivity|]. cbn [step roll_m fst kstep after].
  assert (Hnin : ~ In k live) by (intro Hi; apply (Ha k Hi); auto).
  set (ws' := set_range (base k) offs (fun _ => None) ws).
  assert (Hown : forall o, o < d -> nth (base k + o) ws' None = None).
  { intros o Ho. unfold ws'. rewrite set_range_in; auto. apply offs_nodup. apply in_offs; auto. }
  assert (Hoth : forall k' o', In k' live -> o' < d -> nth (base k' + o') ws' None = nth (base k' + o') ws None).
  { intros k' o' Hi Ho'. unfold ws'. apply set_range_other. intros o Ho E. apply in_offs in Ho.
    apply base_disjoint in E; auto. destruct E as [E _]. apply (Ha k' Hi); auto. }
  assert (Hns : forall k', In k' live -> nth (slot k') (set_nth (slot k) 0 0 ns) 0 = nth (slot k') ns 0).
  { intros k' Hi. apply nth_set_nth_other. intro E. apply (Ha k' Hi); auto. }
  exists ilive, mI. refine (conj HR (conj Hgi (conj _ (conj _ _)))).
  - intro ik; split.
    + intro Hi. apply Hik in Hi. destruct Hi as (k0 & o & st & H1 & H2 & H3 & H4). exists k0, o, st. repeat split; auto. now right. rewrite Hoth; auto.
    + intros (k0 & o & st & [<-|H1] & H2 & H3 & H4).
      * rewrite Hown in H3; auto. discriminate.
      * apply Hik. exists k0, o, st. rewrite Hoth in H3; auto.
  - intros k0 [<-|H1].
    + intros o st Ho E. rewrite Hown in E; auto. discriminate.
    + rewrite Hns; auto. intros o st Ho E. rewrite Hoth in E; auto. apply (Hinv k0 H1 o st Ho E).
  - intro k0. destruct (keq k0 k) as [->|Hne].
    + rewrite upd_same. destruct in_dec as [_|n]; [|exfalso; apply n; now left]. rewrite nth_set_nth_same.
      cbn [l0 roll_l]. f_equal. f_equal. unfold abs_cells. apply map_ext_in. intros o Ho. apply in_offs in Ho. rewrite Hown; auto.
    + rewrite upd_other by auto. rewrite Hm. destruct (in_dec keq k0 live), (in_dec keq k0 (k :: live)); auto.
      * rewrite Hns; auto. f_equal. f_equal. unfold abs_cells. apply map_ext_in. intros o Ho. apply in_offs in Ho. rewrite Hoth; auto.
      * exfalso; apply n; now right. * destruct i; congruence.
Qed.


Lemma NoDup_map_in A B (f : A -> B) l : (forall a b, In a l -> In b l -> f a = f b -> a = b) -> NoDup l -> NoDup (map f l).
Proof. induction l; simpl; intros Hinj Hnd. constructor. inversion Hnd; subst. constructor.
  - intro Hi. apply in_map_iff in Hi. destruct Hi as (b & E & Hb). assert (b = a) by (apply Hinj; auto). subst; auto.
  - apply IHl; auto. Qed.
Lemma ikeys_nodup k (g : nat -> list ev) : NoDup (map fst (map (fun o => (ikey k o, g o)) offs)).
Proof. rewrite map_map. cbn [fst]. apply NoDup_map_in. intros a b _ _ E. apply ikey_inj in E; tauto. apply offs_nodup. Qed.

Lemma ikeys_nodup_l k (g : nat -> list ev) l : NoDup l -> NoDup (map fst (map (fun o => (ikey k o, g o)) l)).
Proof. intro Hl. rewrite map_map. cbn [fst]. apply NoDup_map_in0; auto. intros a b _ _ E. apply ikey_inj in E; tauto. Qed.
Lemma nth_map_offs A (f : nat -> option A) o : o < d -> nth o (map f offs) None = f o.
Proof.
  intro Ho. unfold offs. rewrite (nth_indep _ None (f 0)) by (rewrite map_length, seq_length; auto).
  rewrite (map_nth f (seq 0 d) 0 o). rewrite seq_nth by auto. reflexivity.
Qed.

Lemma RR_done live st mC k : good live -> RR live st mC -> allowed live (Done k) ->
  snd (step roll_m st (Done k)) = snd (kstep roll_l mC (Done k)) /\
  RR (after live (Done k)) (fst (step roll_m st (Done k))) (fst (kstep roll_l mC (Done k))).
Proof.
  destruct st as [[ns ws] si]. intros Hg (ilive & mI & HR & Hgi & Hik & Hinv & Hm) Ha.
  simpl in Ha. cbn [step roll_m kstep after].
  rewrite (Hm k). destruct (in_dec keq k live) as [_|n]; [|contradiction].
  set (nk := nth (slot k) ns 0).
  set (cellf := fun o => nth (base k + o) ws None).
  set (g := fun o => match cellf o with Some _ => [Done (ikey k o)] | None => [] end).
  set (bs := map (fun o => (ikey k o, g o)) (rot nk)).
  assert (Eevs : flat_map (fun o => match nth (base k + o) ws None with Some _ => [Done (ikey k o)] | None => [] end) (rot nk) = flat_map snd bs).
  { unfold bs. rewrite flat_map_map. reflexivity. }
  rewrite Eevs.
  assert (Hnd : NoDup (map fst bs)) by (apply ikeys_nodup_l, rot_nodup).
  assert (Hsh : Forall (fun '(ik, b) => shape ik b /\ (b <> [] -> In ik ilive)) bs).
  { apply Forall_forall. intros [ik b] Hi. unfold bs in Hi. apply in_map_iff in Hi. destruct Hi as (o & E & Ho). inversion E; subst. apply rot_lt in Ho.
    unfold g. destruct (cellf o) as [st|] eqn:Ec.
    - split. right; right; right; auto. intros _. apply Hik. exists k, o, st. auto.
    - split. now left. congruence. }
  assert (Hek : Forall (fun '(ik, b) => Forall (fun e => ekey e = ik) b) bs).
  { apply Forall_forall. intros [ik b] Hi. unfold bs in Hi. apply in_map_iff in Hi. destruct Hi as (o & E & Ho). inversion E; subst.
    unfold g. destruct (cellf o); repeat constructor. }
  destruct (allowed_batches bs ilive Hnd Hsh) as [Hal Haft].
  destruct (feed_refines I LI HI _ _ _ _ Hgi HR Hal) as [Ho HR'].
  pose proof (good_after_seq _ _ Hgi Hal) as Hgi'.
  destruct (kfeed_batches bs mI Hnd Hek) as (K1 & K2 & K3).
  destruct (feed I si (flat_map snd bs)) as [si' oi]. destruct (kfeed LI mI (flat_map snd bs)) as [mI' oi']. cbn [fst snd] in *. subst oi'. subst oi.
  assert (Hopen : forall o st, o < d -> cellf o = Some st -> mI (ikey k o) <> None).
  { intros o st Ho E. apply (R_live I LI HI _ _ _ _ HR). apply Hik. exists k, o, st; auto. }
  split.
  { (* outputs *) f_equal. cbn [ldone roll_l]. fold nk. unfold bs. rewrite flat_map_map, demux_flat_map.
    rewrite map_flat_map. apply flat_map_ext_in. intros o Ho. apply rot_lt in Ho.
    unfold abs_cells, lcell. rewrite nth_map_offs by auto.
    unfold g. fold (cellf o). destruct (cellf o) as [st|] eqn:Ec; cbn [option_map]; [|reflexivity].
    specialize (Hopen o st Ho Ec). unfold rgetI. destruct (mI (ikey k o)) as [sI|]; [|congruence].
    unfold ikey. simpl. rewrite !app_nil_r, demux_app, demux_map_next. simpl. now rewrite app_nil_r. }
  set (ws' := set_range (base k) offs (fun _ => None) ws).
  assert (Hoth : forall k' o', In k' live -> k' <> k -> o' < d -> nth (base k' + o') ws' None = nth (base k' + o') ws None).
  { intros k' o' Hi Hne Ho'. unfold ws'. apply set_range_other. intros o Ho E. apply in_offs in Ho.
    apply base_disjoint in E; auto. destruct E as [E _]. apply Hne. apply (proj2 Hg); auto. }
  assert (Hns : forall k', In k' live -> k' <> k -> nth (slot k') (set_nth (slot k) 0 0 ns) 0 = nth (slot k') ns 0).
  { intros k' Hi Hne. apply nth_set_nth_other. intro E. apply Hne. symmetry. apply (proj2 Hg); auto. }
  exists (after_seq ilive (flat_map snd bs)), mI'.
  refine (conj HR' (conj Hgi' (conj _ (conj _ _)))).
  - intro ik. rewrite Haft. split.
    + intros [Hi Hno]. apply Hik in Hi. destruct Hi as (k0 & o & st & H1 & H2 & H3 & ->).
      assert (k0 <> k). { intro; subst k0. apply Hno. exists (g o). split. unfold bs. apply in_map_iff. exists o. split; auto. apply rot_in; auto.
                          unfold g, cellf. rewrite H3. reflexivity. }
      exists k0, o, st. repeat split; auto. apply in_remove_iff; auto. rewrite Hoth; auto.
    + intros (k0 & o & st & H1 & H2 & H3 & ->). apply in_remove_iff in H1. destruct H1 as [H1 Hne].
      rewrite Hoth in H3; auto. split. apply Hik. exists k0, o, st; auto.
      intros (b & Hi & _). unfold bs in Hi. apply in_map_iff in Hi. destruct Hi as (o' & E & _). assert (E1 : ikey k o' = ikey k0 o) by congruence. apply ikey_inj in E1. destruct E1; congruence.
  - intros k0 H1. apply in_remove_iff in H1. destruct H1 as [H1 Hne]. rewrite Hns; auto.
    intros o st Ho E. rewrite Hoth in E; auto. apply (Hinv k0 H1 o st Ho E).
  - intro k0. destruct (keq k0 k) as [->|Hne].
    + rewrite upd_same. destruct in_dec as [i|]; auto. apply in_remove_iff in i. tauto.
    + rewrite upd_other by auto. rewrite Hm.
      destruct (in_dec keq k0 live), (in_dec keq k0 (remove keq k live)) as [i'|n']; auto.
      * rewrite Hns; auto. f_equal. f_equal. unfold abs_cells. apply map_ext_in. intros o Ho. apply in_offs in Ho. rewrite Hoth; auto.
        destruct (nth (base k0 + o) ws None); cbn [option_map]; auto. f_equal. f_equal. unfold rgetI. rewrite K3; auto.
        unfold bs. rewrite map_map. cbn [fst]. intro Hi. apply in_map_iff in Hi. destruct Hi as (o' & E & _). apply ikey_inj in E. destruct E; congruence.
      * exfalso. apply n'. apply in_remove_iff; auto.
      * apply in_remove_iff in i'. tauto.
Qed.


Lemma feed_app M : forall a b (s0 : St M),
  feed M s0 (a ++ b) = let '(s1, o1) := feed M s0 a in let '(s2, o2) := feed M s1 b in (s2, o1 ++ o2).
Proof.
  induction a as [|e a IH]; intros b s0; simpl.
  - destruct (feed M s0 b); reflexivity.
  - destruct (step M s0 e) as [s1 o1]. rewrite IH. destruct (feed M s1 a) as [s2 o2]. destruct (feed M s2 b) as [s3 o3].
    now rewrite app_assoc.
Qed.

Definition ring_inv1 (n : nat) (cellf : nat -> option nat) : Prop :=
  forall o st, o < d -> cellf o = Some st -> exists j, st = j * s /\ j mod d = o /\ st <= n /\ n < st + w.

Lemma krun1_cell n sI ik x st :
  krun1 (Some sI) (Next ik x :: (if closes n st then [Done ik] else [])) =
  let '(sI', out) := lnext LI sI x in
  if closes n st then (None, map (Next ik) out ++ (map (Next ik) (ldone LI sI') ++ [Done ik]) ++ [])
  else (Some sI', map (Next ik) out ++ []).
Proof. cbn [krun1 kstep1]. destruct (lnext LI sI x) as [sI' out]. destruct (closes n st); reflexivity. Qed.

Lemma RR_next_loop live ns ws1 si1 ilive1 mI1 k x n :
  good live -> In k live ->
  R I LI HI ilive1 si1 mI1 -> good ilive1 ->
  (forall ik, In ik ilive1 <-> rinner_keys live ws1 ik) ->
  ring_inv1 n (fun o => nth (base k + o) ws1 None) ->
  (forall k', In k' live -> k' <> k -> ring_inv (nth (slot k') ns 0) (fun o => nth (base k' + o) ws1 None)) ->
  let bs := map (fun o => (ikey k o, cell_evs k n x o (nth (base k + o) ws1 None))) offs in
  let ws2 := set_range (base k) offs (fun o => cell_upd n (nth (base k + o) ws1 None)) ws1 in
  let ns2 := set_nth (slot k) (n + 1) 0 ns in
  let res := map (lcell_step n x) (abs_cells mI1 k ws1) in
  demux (snd (feed I si1 (flat_map snd bs))) = map (Next k) (flat_map snd res) /\
  exists ilive2 mI2,
    R I LI HI ilive2 (fst (feed I si1 (flat_map snd bs))) mI2 /\ good ilive2 /\
    (forall ik, In ik ilive2 <-> rinner_keys live ws2 ik) /\
    (forall k', In k' live -> ring_inv (nth (slot k') ns2 0) (fun o => nth (base k' + o) ws2 None)) /\
    abs_cells mI2 k ws2 = map fst res /\
    (forall k', In k' live -> k' <> k -> abs_cells mI2 k' ws2 = abs_cells mI1 k' ws1).
Proof.
  intros Hg Hk HR Hgi Hik Hinv1 Hinvo bs ws2 ns2 res.
  set (cellf := fun o => nth (base k + o) ws1 None) in *.
  assert (Hnd : NoDup (map fst bs)) by apply ikeys_nodup.
  assert (Hopen : forall o st, o < d -> cellf o = Some st -> In (ikey k o) ilive1).
  { intros o st Ho E. apply Hik. exists k, o, st; auto. }
  assert (Hsh : Forall (fun '(ik, b) => shape ik b /\ (b <> [] -> In ik ilive1)) bs).
  { apply Forall_forall. intros [ik b] Hi. unfold bs in Hi. apply in_map_iff in Hi. destruct Hi as (o & E & Ho). inversion E; subst. apply in_offs in Ho.
    fold (cellf o). unfold cell_evs. destruct (cellf o) as [st|] eqn:Ec.
    - split. destruct (closes n st). right; right; left; eauto. right; left; eauto. intros _. eauto.
    - split. now left. congruence. }
  assert (Hek : Forall (fun '(ik, b) => Forall (fun e => ekey e = ik) b) bs).
  { apply Forall_forall. intros [ik b] Hi. unfold bs in Hi. apply in_map_iff in Hi. destruct Hi as (o & E & Ho). inversion E; subst.
    unfold cell_evs. destruct (nth (base k + o) ws1 None); [destruct (closes n n0)|]; repeat constructor. }
  destruct (allowed_batches bs ilive1 Hnd Hsh) as [Hal Haft].
  destruct (feed_refines I LI HI _ _ _ _ Hgi HR Hal) as [Ho HR'].
  pose proof (good_after_seq _ _ Hgi Hal) as Hgi'.
  destruct (kfeed_batches bs mI1 Hnd Hek) as (K1 & K2 & K3).
  destruct (feed I si1 (flat_map snd bs)) as [si2 oi]. destruct (kfeed LI mI1 (flat_map snd bs)) as [mI2 oi']. cbn [fst snd] in *. subst oi'. subst oi.
  assert (HmI : forall o st, o < d -> cellf o = Some st -> exists sI, mI1 (ikey k o) = Some sI).
  { intros o st Ho E. destruct (mI1 (ikey k o)) eqn:Em; eauto. exfalso. apply (R_live I LI HI _ _ _ (ikey k o) HR); eauto. }
  assert (Hbs : forall o, o < d -> In (ikey k o, cell_evs k n x o (cellf o)) bs).
  { intros o Ho. unfold bs. apply in_map_iff. exists o. split; auto. apply in_offs; auto. }
  assert (Hws2k : forall o, o < d -> nth (base k + o) ws2 None = cell_upd n (cellf o)).
  { intros o Ho. unfold ws2. rewrite set_range_in; auto. apply offs_nodup. apply in_offs; auto. }
  assert (Hws2o : forall k' o', In k' live -> k' <> k -> o' < d -> nth (base k' + o') ws2 None = nth (base k' + o') ws1 None).
  { intros k' o' Hi Hne Ho'. unfold ws2. apply set_range_other. intros o Ho0 E. apply in_offs in Ho0.
    apply base_disjoint in E; auto. destruct E as [E _]. apply Hne. apply (proj2 Hg); auto. }
  split.
  { (* outputs *) unfold bs, res, abs_cells. rewrite flat_map_map, demux_flat_map, !map_map, flat_map_map, map_flat_map.
    apply flat_map_ext_in. intros o Ho0. apply in_offs in Ho0. fold (cellf o). unfold cell_evs.
    destruct (cellf o) as [st|] eqn:Ec; cbn [option_map lcell_step]; [|reflexivity].
    destruct (HmI o st Ho0 Ec) as [sI EsI]. unfold rgetI. rewrite EsI. rewrite krun1_cell.
    destruct (lnext LI sI x) as [sI' out]. unfold ikey. destruct (closes n st); cbn [snd].
    - rewrite !app_nil_r, !demux_app, !demux_map_next. simpl. now rewrite app_nil_r, map_app.
    - rewrite app_nil_r. apply demux_map_next. }
  exists (after_seq ilive1 (flat_map snd bs)), mI2.
  refine (conj HR' (conj Hgi' (conj _ (conj _ (conj _ _))))).
  - (* live inner keys *) intro ik. rewrite Haft. split.
    + intros [Hi Hno]. apply Hik in Hi. destruct Hi as (k0 & o & st & H1 & H2 & H3 & ->).
      destruct (keq k0 k) as [->|Hne].
      * exists k, o, st. repeat split; auto. rewrite Hws2k; auto. fold (cellf o) in H3. rewrite H3. cbn [cell_upd].
        destruct (closes n st) eqn:Ecl; auto. exfalso. apply Hno. exists (cell_evs k n x o (cellf o)). split; auto.
        rewrite H3. cbn [cell_evs]. rewrite Ecl. reflexivity.
      * exists k0, o, st. repeat split; auto. rewrite Hws2o; auto.
    + intros (k0 & o & st & H1 & H2 & H3 & ->). destruct (keq k0 k) as [->|Hne].
      * rewrite Hws2k in H3; auto. destruct (cellf o) as [st'|] eqn:Ec; cbn [cell_upd] in H3; [|discriminate].
        destruct (closes n st') eqn:Ecl; [discriminate|]. inversion H3; subst st'. split. eauto.
        intros (b & Hi & Hd0). unfold bs in Hi. apply in_map_iff in Hi. destruct Hi as (o' & E & _).
        assert (E1 : ikey k o' = ikey k o) by congruence. apply ikey_inj in E1. destruct E1 as [_ ->].
        assert (b = cell_evs k n x o (cellf o)) by (unfold cellf; congruence). subst b. rewrite Ec in Hd0. cbn [cell_evs] in Hd0. rewrite Ecl in Hd0. discriminate.
      * rewrite Hws2o in H3; auto. split. apply Hik. exists k0, o, st; auto.
        intros (b & Hi & _). unfold bs in Hi. apply in_map_iff in Hi. destruct Hi as (o' & E & _).
        assert (E1 : ikey k o' = ikey k0 o) by congruence. apply ikey_inj in E1. destruct E1; congruence.
  - (* ring invariants *) intros k0 H1. destruct (keq k0 k) as [->|Hne].
    + unfold ns2. rewrite nth_set_nth_same. intros o st Ho0 E. rewrite Hws2k in E; auto.
      destruct (cellf o) as [st'|] eqn:Ec; cbn [cell_upd] in E; [|discriminate].
      destruct (closes n st') eqn:Ecl; [discriminate|]. inversion E; subst st'.
      destruct (Hinv1 o st Ho0 Ec) as (j & J1 & J2 & J3 & J4). exists j. repeat split; auto. lia.
      unfold closes in Ecl. apply Nat.eqb_neq in Ecl. lia.
    + unfold ns2. rewrite nth_set_nth_other. 2:{ intro E. apply Hne. symmetry. apply (proj2 Hg); auto. }
      intros o st Ho0 E. rewrite Hws2o in E; auto. apply (Hinvo k0 H1 Hne o st Ho0 E).
  - (* abstraction of k *) unfold res, abs_cells. rewrite !map_map. apply map_ext_in. intros o Ho0. apply in_offs in Ho0.
    rewrite Hws2k; auto. fold (cellf o). destruct (cellf o) as [st|] eqn:Ec; cbn [cell_upd option_map lcell_step]; [|reflexivity].
    destruct (HmI o st Ho0 Ec) as [sI EsI]. unfold rgetI at 2. rewrite EsI.
    pose proof (K2 _ _ (Hbs o Ho0)) as Em2. rewrite Ec in Em2. cbn [cell_evs] in Em2. rewrite EsI, krun1_cell in Em2.
    destruct (lnext LI sI x) as [sI' out]. destruct (closes n st); cbn [fst option_map] in *; auto.
    unfold rgetI. rewrite Em2. reflexivity.
  - (* abstraction of the others *) intros k0 H1 Hne. unfold abs_cells. apply map_ext_in. intros o Ho0. apply in_offs in Ho0.
    rewrite Hws2o; auto. destruct (nth (base k0 + o) ws1 None); cbn [option_map]; auto. f_equal. f_equal. unfold rgetI. rewrite K3; auto.
    unfold bs. rewrite map_map. cbn [fst]. intro Hi. apply in_map_iff in Hi. destruct Hi as (o' & E & _). apply ikey_inj in E. destruct E; congruence.
Qed.


Lemma ring_slot_free q j : j < q -> q * s < j * s + w -> j mod d <> q mod d.
Proof.
  intros Hjq Hopen.
  assert (Hlt : q - j < d) by nia.
  assert (Hd0 : d <> 0) by lia.
  intro E.
  pose proof (Nat.div_mod j d Hd0). pose proof (Nat.div_mod q d Hd0).
  pose proof (Nat.mod_upper_bound j d Hd0).
  rewrite E in *. remember (j / d) as a. remember (q / d) as b. remember (q mod d) as r.
  assert (a < b) by nia. assert (d * (b - a) = q - j) by nia. assert (1 <= b - a) by lia. nia.
Qed.
Lemma ring_free n cellf : ring_inv n cellf -> n mod s = 0 -> cellf ((n / s) mod d) = None.
Proof.
  intros Hinv Hm. destruct (cellf ((n / s) mod d)) as [st|] eqn:E; auto. exfalso.
  assert (Hlt : (n / s) mod d < d) by (apply Nat.mod_upper_bound; lia).
  destruct (Hinv _ _ Hlt E) as (j & J1 & J2 & J3 & J4).
  assert (Hn : n = (n / s) * s) by (pose proof (Nat.div_mod n s ltac:(lia)); lia).
  apply (ring_slot_free (n / s) j); auto; nia.
Qed.

Lemma set_nth_map_seq A (f : nat -> A) a dflt : forall len st i, i < len ->
  set_nth i a dflt (map f (seq st len)) = map (fun o => if o =? st + i then a else f o) (seq st len).
Proof.
  induction len; intros st i Hi; [lia|]. destruct i; cbn [seq map set_nth].
  - rewrite Nat.add_0_r, Nat.eqb_refl. f_equal. apply map_ext_in. intros o Ho. apply in_seq in Ho.
    destruct (o =? st) eqn:E; auto. apply Nat.eqb_eq in E. lia.
  - destruct (st =? st + S i) eqn:E. apply Nat.eqb_eq in E; lia. f_equal.
    rewrite IHlen by lia. apply map_ext. intro o. replace (S st + i) with (st + S i) by lia. reflexivity.
Qed.

Lemma RR_next live st mC k x : good live -> RR live st mC -> allowed live (Next k x) ->
  snd (step roll_m st (Next k x)) = snd (kstep roll_l mC (Next k x)) /\
  RR (after live (Next k x)) (fst (step roll_m st (Next k x))) (fst (kstep roll_l mC (Next k x))).
Proof.
  destruct st as [[ns ws] si]. intros Hg (ilive & mI & HR & Hgi & Hik & Hinv & Hm) Ha.
  simpl in Ha. cbn [step roll_m kstep after].
  rewrite (Hm k). destruct (in_dec keq k live) as [_|nn]; [|contradiction].
  set (n := nth (slot k) ns 0) in *. cbn [lnext roll_l].
  set (onew := (n / s) mod d).
  assert (Honew : onew < d) by (apply Nat.mod_upper_bound; lia).
  pose proof (Hinv k Ha) as Hinvk. fold n in Hinvk.
  (* the common tail, stated for the intermediate configuration *)
  assert (Tail : forall ws1 si1 ilive1 mI1 pre cells1,
    feed I si pre = (si1, map Create (match pre with [] => [] | _ => [ikey k onew] end)) ->
    R I LI HI ilive1 si1 mI1 -> good ilive1 ->
    (forall ik, In ik ilive1 <-> rinner_keys live ws1 ik) ->
    ring_inv1 n (fun o => nth (base k + o) ws1 None) ->
    (forall k', In k' live -> k' <> k -> forall o, o < d -> nth (base k' + o) ws1 None = nth (base k' + o) ws None) ->
    (forall k', In k' live -> k' <> k -> abs_cells mI1 k' ws1 = abs_cells mI k' ws) ->
    cells1 = abs_cells mI1 k ws1 ->
    let evs := pre ++ flat_map (fun o => cell_evs k n x o (nth (base k + o) ws1 None)) offs in
    let ws2 := set_range (base k) offs (fun o => cell_upd n (nth (base k + o) ws1 None)) ws1 in
    demux (snd (feed I si evs)) = map (Next k) (flat_map snd (map (lcell_step n x) cells1)) /\
    RR live (set_nth (slot k) (n + 1) 0 ns, ws2, fst (feed I si evs))
       (upd mC k (Some (n + 1, map fst (map (lcell_step n x) cells1))))).
  { intros ws1 si1 ilive1 mI1 pre cells1 Hpre HR1 Hg1 Hik1 Hinv1 Hcell Habs Hc1 evs ws2. subst cells1.
    assert (Hinvo : forall k', In k' live -> k' <> k -> ring_inv (nth (slot k') ns 0) (fun o => nth (base k' + o) ws1 None)).
    { intros k' Hi Hne o st0 Ho0 E. rewrite Hcell in E; auto. apply (Hinv k' Hi o st0 Ho0 E). }
    destruct (RR_next_loop live ns ws1 si1 ilive1 mI1 k x n Hg Ha HR1 Hg1 Hik1 Hinv1 Hinvo) as (Lo & ilive2 & mI2 & L1 & L2 & L3 & L4 & L5 & L6).
    unfold evs. rewrite feed_app, Hpre.
    assert (Eb : flat_map (fun o => cell_evs k n x o (nth (base k + o) ws1 None)) offs =
                 flat_map snd (map (fun o => (ikey k o, cell_evs k n x o (nth (base k + o) ws1 None))) offs)).
    { rewrite flat_map_map. reflexivity. }
    rewrite Eb. destruct (feed I si1 (flat_map snd (map (fun o => (ikey k o, cell_evs k n x o (nth (base k + o) ws1 None))) offs))) as [si2 o2].
    cbn [fst snd] in *. split.
    { rewrite demux_app, Lo. destruct pre; simpl; auto. }
    exists ilive2, mI2. refine (conj L1 (conj L2 (conj L3 (conj L4 _)))).
    intro k0. destruct (keq k0 k) as [->|Hne].
    - rewrite upd_same. destruct in_dec; [|contradiction]. rewrite nth_set_nth_same. unfold ws2. rewrite L5. reflexivity.
    - rewrite upd_other by auto. rewrite Hm. destruct in_dec; auto.
      rewrite nth_set_nth_other. 2:{ intro E. apply Hne. symmetry. apply (proj2 Hg); auto. }
      unfold ws2. rewrite L6, Habs; auto. }
  destruct (n mod s =? 0) eqn:Eop.
  - (* a window opens *)
    apply Nat.eqb_eq in Eop.
    assert (Hfree : nth (base k + onew) ws None = None) by (apply (ring_free n _ Hinvk Eop)).
    set (ik := ikey k onew). set (ws1 := set_nth (base k + onew) (Some n) None ws).
    assert (Hal : allowed ilive (Create ik)).
    { simpl. intros ik' Hi. apply Hik in Hi. destruct Hi as (k0 & o & st0 & H1 & H2 & H3 & ->). cbn [slot ikey hd]. intro E.
      apply base_disjoint in E; auto. destruct E as [E1 ->]. assert (k0 = k) by (apply (proj2 Hg); auto). subst k0. congruence. }
    destruct (R_step I LI HI _ _ _ (Create ik) Hgi HR Hal) as [Ho HR1].
    pose proof (good_after _ _ Hgi Hal) as Hg1. cbn [kstep fst snd after] in Ho, HR1, Hg1.
    assert (P1 : feed I si [Create ik] = (fst (step I si (Create ik)), map Create [ikey k onew])).
    { cbn [feed]. destruct (step I si (Create ik)) as [s1 o1]. cbn [fst snd] in *. subst o1. reflexivity. }
    assert (P4 : forall ik0, In ik0 (ik :: ilive) <-> rinner_keys live ws1 ik0).
    { intro ik0; split.
      * intros [<-|Hi]. exists k, onew, n. repeat split; auto. unfold ws1. apply nth_set_nth_same.
        apply Hik in Hi. destruct Hi as (k0 & o & st0 & H1 & H2 & H3 & ->). exists k0, o, st0. repeat split; auto.
        unfold ws1. rewrite nth_set_nth_other; auto. intro E. apply base_disjoint in E; auto. destruct E as [E1 ->].
        assert (k0 = k) by (symmetry; apply (proj2 Hg); auto). subst k0. congruence.
      * intros (k0 & o & st0 & H1 & H2 & H3 & ->).
        destruct (Nat.eq_dec (base k0 + o) (base k + onew)) as [E|Hne].
        -- apply base_disjoint in E; auto. destruct E as [E1 ->]. assert (k0 = k) by (apply (proj2 Hg); auto). subst k0. now left.
        -- right. apply Hik. exists k0, o, st0. unfold ws1 in H3. rewrite nth_set_nth_other in H3; auto. }
    assert (P5 : ring_inv1 n (fun o => nth (base k + o) ws1 None)).
    { intros o st0 Ho0 E. unfold ws1 in E. destruct (Nat.eq_dec o onew) as [->|Hne].
      * rewrite nth_set_nth_same in E. inversion E; subst st0. exists (n / s). repeat split; auto.
        pose proof (Nat.div_mod n s ltac:(lia)); lia. lia.
      * rewrite nth_set_nth_other in E by lia. destruct (Hinvk o st0 Ho0 E) as (j & J1 & J2 & J3 & J4). exists j. repeat split; auto. lia. }
    assert (P6 : forall k', In k' live -> k' <> k -> forall o, o < d -> nth (base k' + o) ws1 None = nth (base k' + o) ws None).
    { intros k' Hi Hne o Ho0. unfold ws1. apply nth_set_nth_other. intro E. apply base_disjoint in E; auto. destruct E as [E1 _].
      apply Hne. apply (proj2 Hg); auto. }
    assert (P7 : forall k', In k' live -> k' <> k -> abs_cells (upd mI ik (Some (l0 LI))) k' ws1 = abs_cells mI k' ws).
    { intros k' Hi Hne. unfold abs_cells. apply map_ext_in. intros o Ho0. apply in_offs in Ho0.
      rewrite P6; auto.
      destruct (nth (base k' + o) ws None); cbn [option_map]; auto. f_equal. f_equal. unfold rgetI. rewrite upd_other; auto.
      unfold ik. intro E. apply ikey_inj in E. destruct E; congruence. }
    assert (P8 : set_nth onew (Some (n, l0 LI)) None (abs_cells mI k ws) = abs_cells (upd mI ik (Some (l0 LI))) k ws1).
    { unfold abs_cells at 1. unfold offs. rewrite set_nth_map_seq by lia. fold offs. unfold abs_cells. apply map_ext_in. intros o Ho0. apply in_offs in Ho0.
      cbn [Nat.add]. destruct (o =? onew) eqn:E.
      * apply Nat.eqb_eq in E. subst o. unfold ws1. rewrite nth_set_nth_same. cbn [option_map]. unfold rgetI, ik. rewrite upd_same. reflexivity.
      * apply Nat.eqb_neq in E. unfold ws1. rewrite nth_set_nth_other by lia. destruct (nth (base k + o) ws None); cbn [option_map]; auto.
        f_equal. f_equal. unfold rgetI. rewrite upd_other; auto. unfold ik. intro E'. apply ikey_inj in E'. destruct E'; congruence. }
    destruct (Tail ws1 _ _ _ [Create ik] _ P1 HR1 Hg1 P4 P5 P6 P7 P8) as [T1 T2]. clear Tail.
    cbv zeta in T1, T2. cbv iota.
    destruct (feed I si ([Create ik] ++ flat_map (fun o => cell_evs k n x o (nth (base k + o) ws1 None)) offs)) as [si' o'].
    cbn [fst snd] in *. split; [rewrite T1; reflexivity | exact T2].
  - (* no window opens *)
    assert (P5 : ring_inv1 n (fun o => nth (base k + o) ws None)).
    { intros o st0 Ho0 E. destruct (Hinvk o st0 Ho0 E) as (j & J1 & J2 & J3 & J4). exists j. repeat split; auto. lia. }
    destruct (Tail ws si ilive mI [] (abs_cells mI k ws) eq_refl HR Hgi Hik P5 (fun _ _ _ _ _ => eq_refl) (fun _ _ _ => eq_refl) eq_refl) as [T1 T2]. clear Tail.
    cbv zeta in T1, T2. cbv iota.
    destruct (feed I si ([] ++ flat_map (fun o => cell_evs k n x o (nth (base k + o) ws None)) offs)) as [si' o'].
    cbn [fst snd] in *. split; [rewrite T1; reflexivity | exact T2].
Qed.

Theorem roll_refines : refines roll_m roll_l.
Proof.
  refine {| R := RR |}.
  - simpl. exists [], (fun _ => None). refine (conj (R_init I LI HI) (conj _ (conj _ (conj _ _)))).
    + split. constructor. intros ? ? [].
    + intro ik; split. intros []. intros (k & o & st & [] & _).
    + intros ? [].
    + intro k. reflexivity.
  - intros live st m e Hg HR Ha. destruct e.
    + apply RR_create; auto. + apply RR_next; auto. + apply RR_done; auto.
  - intros live st m k HR. eapply RR_live; eauto.
Defined.

End RollProof.

(* ================= sequential composition ================= *)
Section ComposeProof.
Variables M1 M2 : machine.
Variables L1 L2 : lmachine.
Variable H1 : refines M1 L1.
Variable H2 : refines M2 L2.

Definition compose_m : machine :=
  {| St := St M1 * St M2; init := (init M1, init M2);
     step := fun '(s1, s2) e => let '(s1', o1) := step M1 s1 e in let '(s2', o2) := feed M2 s2 o1 in ((s1', s2'), o2) |}.

Fixpoint lfeed (L : lmachine) (st : LS L) (xs : list V) : LS L * list V :=
  match xs with [] => (st, []) | x :: xs' => let '(s1, o1) := lnext L st x in let '(s2, o2) := lfeed L s1 xs' in (s2, o1 ++ o2) end.
Definition compose_l : lmachine :=
  {| LS := LS L1 * LS L2; l0 := (l0 L1, l0 L2);
     lnext := fun '(a, b) x => let '(a', o1) := lnext L1 a x in let '(b', o2) := lfeed L2 b o1 in ((a', b'), o2);
     ldone := fun '(a, b) => let '(b', o2) := lfeed L2 b (ldone L1 a) in o2 ++ ldone L2 b' |}.

Lemma kfeed_nexts L k : forall xs (m : kmap L) st, m k = Some st ->
  snd (kfeed L m (map (Next k) xs)) = map (Next k) (snd (lfeed L st xs)) /\
  fst (kfeed L m (map (Next k) xs)) k = Some (fst (lfeed L st xs)) /\
  forall k', k' <> k -> fst (kfeed L m (map (Next k) xs)) k' = m k'.
Proof.
  induction xs as [|x xs IH]; intros m st Hm; cbn [map kfeed lfeed]; [auto|].
  cbn [kstep]. rewrite Hm. destruct (lnext L st x) as [s1 o1].
  destruct (IH (upd m k (Some s1)) s1 (upd_same _ _ _ _)) as (A & B & C).
  destruct (kfeed L (upd m k (Some s1)) (map (Next k) xs)) as [m2 o2]. destruct (lfeed L s1 xs) as [s2 o2']. cbn [fst snd] in *. subst.
  repeat split; auto. now rewrite map_app. intros k' Hne. rewrite C, upd_other; auto.
Qed.

Definition RK (live : list key) (st : St compose_m) (m : kmap compose_l) : Prop :=
  exists m1 m2, R M1 L1 H1 live (fst st) m1 /\ R M2 L2 H2 live (snd st) m2 /\
    forall k, m k = match m1 k, m2 k with Some a, Some b => Some (a, b) | _, _ => None end.

Theorem compose_refines : refines compose_m compose_l.
Proof.
  refine {| R := RK |}.
  - exists (fun _ => None), (fun _ => None). repeat split; try apply R_init.
  - intros live [s1 s2] m e Hg (m1 & m2 & HR1 & HR2 & Hm) Ha. cbn [fst snd] in HR1, HR2.
    destruct (R_step M1 L1 H1 _ _ _ e Hg HR1 Ha) as [Ho1 HR1'].
    cbn [step compose_m]. destruct (step M1 s1 e) as [s1' o1]. cbn [fst snd] in *. subst o1.
    assert (Hlive1 := fun k => R_live M1 L1 H1 live s1 m1 k HR1).
    assert (Hlive2 := fun k => R_live M2 L2 H2 live s2 m2 k HR2).
    destruct e as [k|k x|k]; simpl in Ha; cbn [kstep after] in *.
    + (* Create *)
      assert (Hal : allowed_seq live [Create k]) by (simpl; auto).
      destruct (feed_refines M2 L2 H2 _ _ _ _ Hg HR2 Hal) as [Ho2 HR2']. cbn [kfeed kstep after_seq after fst snd] in *.
      destruct (feed M2 s2 [Create k]) as [s2' o2]. cbn [fst snd] in *. subst o2. split; auto.
      exists (upd m1 k (Some (l0 L1))), (upd m2 k (Some (l0 L2))). repeat split; auto.
      intro k0. destruct (keq k0 k) as [->|Hne]. rewrite !upd_same. reflexivity. rewrite !upd_other; auto.
    + (* Next *)
      assert (In k live) as Hk by auto.
      destruct (m1 k) as [a|] eqn:E1. 2:{ exfalso. apply (Hlive1 k); auto. }
      destruct (m2 k) as [b|] eqn:E2. 2:{ exfalso. apply (Hlive2 k); auto. }
      rewrite (Hm k), E1, E2. cbn [lnext compose_l].
      destruct (lnext L1 a x) as [a' o1] eqn:En. cbn [fst snd] in *.
      assert (Hal : allowed_seq live (map (Next k) o1) /\ after_seq live (map (Next k) o1) = live).
      { clear -Hk. induction o1; simpl; auto. destruct IHo1. auto. }
      destruct Hal as [Hal Haf].
      destruct (feed_refines M2 L2 H2 _ _ _ _ Hg HR2 Hal) as [Ho2 HR2']. rewrite Haf in HR2'.
      destruct (kfeed_nexts L2 k o1 m2 b E2) as (A & B & C).
      destruct (feed M2 s2 (map (Next k) o1)) as [s2' o2]. destruct (kfeed L2 m2 (map (Next k) o1)) as [m2' o2']. cbn [fst snd] in *. subst.
      destruct (lfeed L2 b o1) as [b' o2l]. cbn [fst snd] in *. split; auto.
      exists (upd m1 k (Some a')), m2'. repeat split; auto.
      intro k0. destruct (keq k0 k) as [->|Hne]. rewrite !upd_same, B. reflexivity. rewrite !upd_other, C, Hm; auto.
    + (* Done *)
      assert (In k live) as Hk by auto.
      destruct (m1 k) as [a|] eqn:E1. 2:{ exfalso. apply (Hlive1 k); auto. }
      destruct (m2 k) as [b|] eqn:E2. 2:{ exfalso. apply (Hlive2 k); auto. }
      rewrite (Hm k), E1, E2. cbn [ldone compose_l]. cbn [fst snd] in *.
      set (o1 := ldone L1 a) in *.
      assert (Hal : allowed_seq live (map (Next k) o1 ++ [Done k]) /\ after_seq live (map (Next k) o1 ++ [Done k]) = remove keq k live).
      { clear -Hk. induction o1; simpl; auto. destruct IHo1. auto. }
      destruct Hal as [Hal Haf].
      destruct (feed_refines M2 L2 H2 _ _ _ _ Hg HR2 Hal) as [Ho2 HR2']. rewrite Haf in HR2'.
      rewrite kfeed_app in Ho2, HR2'.
      destruct (kfeed_nexts L2 k o1 m2 b E2) as (A & B & C).
      destruct (kfeed L2 m2 (map (Next k) o1)) as [m2' o2']. cbn [fst snd kfeed kstep] in *. rewrite B in Ho2, HR2'.
      destruct (feed M2 s2 (map (Next k) o1 ++ [Done k])) as [s2' o2]. cbn [fst snd] in *. subst.
      destruct (lfeed L2 b o1) as [b' o2l]. cbn [fst snd] in *. split.
      { rewrite app_nil_r, map_app, app_assoc. reflexivity. }
      exists (upd m1 k None), (upd m2' k None). repeat split; auto.
      intro k0. destruct (keq k0 k) as [->|Hne]. rewrite !upd_same. reflexivity. rewrite !upd_other, C, Hm; auto.
  - intros live [s1 s2] m k (m1 & m2 & HR1 & HR2 & Hm). cbn [fst snd] in *. rewrite Hm.
    pose proof (R_live M1 L1 H1 _ _ _ k HR1). pose proof (R_live M2 L2 H2 _ _ _ k HR2).
    destruct (m1 k), (m2 k); split; intro Hx;
      first [ congruence | apply H; congruence | exfalso; apply H in Hx; congruence | exfalso; apply H0 in Hx; congruence ].
Defined.
End ComposeProof.

(* ================= tee_map (mux), n heterogeneous branches + slot-indexed join ================= *)
Section TeeProof.
Record branch := { bm : machine; bl : lmachine; br : refines bm bl }.

Inductive jmode := Merge | Zip | Combine.
Variable mode : jmode.
Variable mk_tuple : list (option V) -> V.       (* tuple(queue): None where a cell is empty *)
Variable jsp : V -> bool.                       (* items the join forwards untouched (mux errors, ...) *)

(* ---- fan-out over the branch list ---- *)
Fixpoint St_all (bs : list branch) : Type := match bs with [] => unit | b :: bs' => (St (bm b) * St_all bs')%type end.
Fixpoint init_all (bs : list branch) : St_all bs :=
  match bs with [] => tt | b :: bs' => (init (bm b), init_all bs') end.
Fixpoint step_all (bs : list branch) : St_all bs -> ev -> St_all bs * list (list ev) :=
  match bs with
  | [] => fun st _ => (st, [])
  | b :: bs' => fun st e => let '(s1, o1) := step (bm b) (fst st) e in let '(s2, o2) := step_all bs' (snd st) e in ((s1, s2), o1 :: o2)
  end.

Fixpoint Maps_all (bs : list branch) : Type := match bs with [] => unit | b :: bs' => (kmap (bl b) * Maps_all bs')%type end.
Fixpoint kstep_all (bs : list branch) : Maps_all bs -> ev -> Maps_all bs * list (list ev) :=
  match bs with
  | [] => fun m _ => (m, [])
  | b :: bs' => fun m e => let '(m1, o1) := kstep (bl b) (fst m) e in let '(m2, o2) := kstep_all bs' (snd m) e in ((m1, m2), o1 :: o2)
  end.
Fixpoint R_all (bs : list branch) (live : list key) : St_all bs -> Maps_all bs -> Prop :=
  match bs with
  | [] => fun _ _ => True
  | b :: bs' => fun st m => R (bm b) (bl b) (br b) live (fst st) (fst m) /\ R_all bs' live (snd st) (snd m)
  end.

Lemma all_step : forall bs live st m e, good live -> R_all bs live st m -> allowed live e ->
  snd (step_all bs st e) = snd (kstep_all bs m e) /\ R_all bs (after live e) (fst (step_all bs st e)) (fst (kstep_all bs m e)).
Proof.
  induction bs as [|b bs IH]; intros live st m e Hg HR Ha; cbn [step_all kstep_all R_all] in *; [auto|].
  destruct HR as [HR1 HR2].
  destruct (R_step (bm b) (bl b) (br b) _ _ _ e Hg HR1 Ha) as [Ho1 HR1'].
  destruct (IH live (snd st) (snd m) e Hg HR2 Ha) as [Ho2 HR2'].
  destruct (step (bm b) (fst st) e) as [s1 o1]. destruct (kstep (bl b) (fst m) e) as [m1 o1'].
  destruct (step_all bs (snd st) e) as [s2 o2]. destruct (kstep_all bs (snd m) e) as [m2 o2'].
  cbn [fst snd] in *. subst. auto.
Qed.

(* ---- product of the local machines ---- *)
Fixpoint LS_all (bs : list branch) : Type := match bs with [] => unit | b :: bs' => (LS (bl b) * LS_all bs')%type end.
Fixpoint l0_all (bs : list branch) : LS_all bs := match bs with [] => tt | b :: bs' => (l0 (bl b), l0_all bs') end.
Fixpoint lnext_all (bs : list branch) : LS_all bs -> V -> LS_all bs * list (list V) :=
  match bs with
  | [] => fun st _ => (st, [])
  | b :: bs' => fun st x => let '(s1, o1) := lnext (bl b) (fst st) x in let '(s2, o2) := lnext_all bs' (snd st) x in ((s1, s2), o1 :: o2)
  end.
Fixpoint ldone_all (bs : list branch) : LS_all bs -> list (list V) :=
  match bs with [] => fun _ => [] | b :: bs' => fun st => ldone (bl b) (fst st) :: ldone_all bs' (snd st) end.

(* the per-key product state read off the branch maps (default l0 where absent) *)
Fixpoint prod_at (bs : list branch) (k : key) : Maps_all bs -> LS_all bs :=
  match bs with
  | [] => fun _ => tt
  | b :: bs' => fun m => (match fst m k with Some s0 => s0 | None => l0 (bl b) end, prod_at bs' k (snd m))
  end.

Lemma all_live : forall bs live st m k, R_all bs live st m -> In k live ->
  forall P : Prop, True -> True.
Proof. auto. Qed.

Lemma kstep_all_create : forall bs m k, snd (kstep_all bs m (Create k)) = map (fun _ => [Create k]) bs /\
  (forall k', k' <> k -> prod_at bs k' (fst (kstep_all bs m (Create k))) = prod_at bs k' m) /\
  prod_at bs k (fst (kstep_all bs m (Create k))) = l0_all bs.
Proof.
  induction bs as [|b bs IH]; intros m k; cbn [kstep_all kstep map prod_at l0_all]; [auto|].
  destruct (IH (snd m) k) as (A & B & C). destruct (kstep_all bs (snd m) (Create k)) as [m2 o2]. cbn [fst snd] in *.
  repeat split.
  - now rewrite A.
  - intros k' Hne. rewrite upd_other by auto. now rewrite B.
  - rewrite upd_same. now rewrite C.
Qed.

Lemma kstep_all_next : forall bs live st m k x, R_all bs live st m -> In k live ->
  snd (kstep_all bs m (Next k x)) = map (map (Next k)) (snd (lnext_all bs (prod_at bs k m) x)) /\
  (forall k', k' <> k -> prod_at bs k' (fst (kstep_all bs m (Next k x))) = prod_at bs k' m) /\
  prod_at bs k (fst (kstep_all bs m (Next k x))) = fst (lnext_all bs (prod_at bs k m) x).
Proof.
  induction bs as [|b bs IH]; intros live st m k x HR Hk; cbn [kstep_all kstep map prod_at lnext_all R_all] in *; [auto|].
  destruct HR as [HR1 HR2].
  assert (Hs : fst m k <> None) by (apply (R_live (bm b) (bl b) (br b) _ _ _ k HR1); auto).
  destruct (fst m k) as [s0|] eqn:E; [|congruence].
  destruct (IH live (snd st) (snd m) k x HR2 Hk) as (A & B & C). cbn [fst snd].
  destruct (lnext (bl b) s0 x) as [s1 o1]. destruct (kstep_all bs (snd m) (Next k x)) as [m2 o2].
  destruct (lnext_all bs (prod_at bs k (snd m)) x) as [s2 o2']. cbn [fst snd map] in *.
  repeat split.
  - now rewrite A.
  - intros k' Hne. rewrite upd_other by auto. now rewrite B.
  - rewrite upd_same. now rewrite C.
Qed.

Lemma kstep_all_done : forall bs live st m k, R_all bs live st m -> In k live ->
  snd (kstep_all bs m (Done k)) = map (fun o => map (Next k) o ++ [Done k]) (ldone_all bs (prod_at bs k m)) /\
  (forall k', k' <> k -> prod_at bs k' (fst (kstep_all bs m (Done k))) = prod_at bs k' m).
Proof.
  induction bs as [|b bs IH]; intros live st m k HR Hk; cbn [kstep_all kstep map prod_at ldone_all R_all] in *; [auto|].
  destruct HR as [HR1 HR2].
  assert (Hs : fst m k <> None) by (apply (R_live (bm b) (bl b) (br b) _ _ _ k HR1); auto).
  destruct (fst m k) as [s0|] eqn:E; [|congruence].
  destruct (IH live (snd st) (snd m) k HR2 Hk) as (A & B).
  destruct (kstep_all bs (snd m) (Done k)) as [m2 o2]. cbn [fst snd map] in *.
  split.
  - now rewrite A.
  - intros k' Hne. rewrite upd_other by auto. now rewrite B.
Qed.


Lemma lnext_all_len : forall bs st x, length (snd (lnext_all bs st x)) = length bs.
Proof. induction bs as [|b bs IH]; intros st x; cbn [lnext_all]; [reflexivity|].
  destruct (lnext (bl b) (fst st) x) as [s1 o1]. specialize (IH (snd st) x). destruct (lnext_all bs (snd st) x) as [s2 o2]. cbn [snd length] in *. now rewrite IH. Qed.
Lemma ldone_all_len : forall bs st, length (ldone_all bs st) = length bs.
Proof. induction bs as [|b bs IH]; intros st; cbn [ldone_all length]; auto. Qed.

(* ---- the join ---- *)
Variable bs : list branch.
Let n := length bs.

Definition cidx (k : key) (i : nat) : nat := slot k * n + i.
Definition kcells (cells : list (option V)) (k : key) : list (option V) :=
  map (fun i => nth (cidx k i) cells None) (seq 0 n).
Definition all_some (l : list (option V)) : bool := forallb (fun c => match c with Some _ => true | None => false end) l.
Fixpoint clear_range (b : nat) (os : list nat) (cells : list (option V)) : list (option V) :=
  match os with [] => cells | o :: os' => clear_range b os' (set_nth (b + o) None None cells) end.
Definition clear_key (k : key) (cells : list (option V)) := clear_range (slot k * n) (seq 0 n) cells.

Definition join_next (i : nat) (k : key) (v : V) (cells : list (option V)) : list (option V) * list ev :=
  if jsp v then (cells, [Next k v]) else
  match mode with
  | Merge => (cells, [Next k v])
  | Zip => let c1 := set_nth (cidx k i) (Some v) None cells in
           if all_some (kcells c1 k) then (clear_key k c1, [Next k (mk_tuple (kcells c1 k))]) else (c1, [])
  | Combine => let c1 := set_nth (cidx k i) (Some v) None cells in (c1, [Next k (mk_tuple (kcells c1 k))])
  end.
Definition join_ev (i : nat) (x : ev) (cells : list (option V)) : list (option V) * list ev :=
  match x with
  | Create k => if i =? 0 then (cells, [Create k]) else (cells, [])
  | Done k => if i =? n - 1 then (clear_key k cells, [Done k]) else (cells, [])
  | Next k v => join_next i k v cells
  end.
Fixpoint join_branch (i : nat) (o : list ev) (cells : list (option V)) : list (option V) * list ev :=
  match o with [] => (cells, []) | x :: o' => let '(c1, e1) := join_ev i x cells in let '(c2, e2) := join_branch i o' c1 in (c2, e1 ++ e2) end.
Fixpoint join_all (i : nat) (outs : list (list ev)) (cells : list (option V)) : list (option V) * list ev :=
  match outs with [] => (cells, []) | o :: outs' => let '(c1, e1) := join_branch i o cells in let '(c2, e2) := join_all (S i) outs' c1 in (c2, e1 ++ e2) end.

Definition tee_m : machine :=
  {| St := St_all bs * list (option V); init := (init_all bs, []);
     step := fun '(st, cells) e => let '(st', outs) := step_all bs st e in let '(cells', em) := join_all 0 outs cells in ((st', cells'), em) |}.

(* per-key join on values *)
Definition ljoin_next (i : nat) (v : V) (c : list (option V)) : list (option V) * list V :=
  if jsp v then (c, [v]) else
  match mode with
  | Merge => (c, [v])
  | Zip => let c1 := set_nth i (Some v) None c in if all_some c1 then (map (fun _ => None) c1, [mk_tuple c1]) else (c1, [])
  | Combine => let c1 := set_nth i (Some v) None c in (c1, [mk_tuple c1])
  end.
Fixpoint ljoin_branch (i : nat) (o : list V) (c : list (option V)) : list (option V) * list V :=
  match o with [] => (c, []) | v :: o' => let '(c1, e1) := ljoin_next i v c in let '(c2, e2) := ljoin_branch i o' c1 in (c2, e1 ++ e2) end.
Fixpoint ljoin_all (i : nat) (outs : list (list V)) (c : list (option V)) : list (option V) * list V :=
  match outs with [] => (c, []) | o :: outs' => let '(c1, e1) := ljoin_branch i o c in let '(c2, e2) := ljoin_all (S i) outs' c1 in (c2, e1 ++ e2) end.

Definition tee_l : lmachine :=
  {| LS := LS_all bs * list (option V);
     l0 := (l0_all bs, map (fun _ => None) (seq 0 n));
     lnext := fun '(st, c) x => let '(st', outs) := lnext_all bs st x in let '(c', em) := ljoin_all 0 outs c in ((st', c'), em);
     ldone := fun '(st, c) => snd (ljoin_all 0 (ldone_all bs st) c) |}.

(* cells of a key are disjoint from those of another live key, and everything outside live ranges is empty *)
Definition owned (live : list key) (j : nat) : Prop := exists k i, In k live /\ i < n /\ j = cidx k i.
Definition RT (live : list key) (st : St tee_m) (m : kmap tee_l) : Prop :=
  exists maps, R_all bs live (fst st) maps /\
    (forall j, ~ owned live j -> nth j (snd st) None = None) /\
    (forall k, m k = if in_dec keq k live then Some (prod_at bs k maps, kcells (snd st) k) else None).

Lemma cidx_inj k i k' i' : i < n -> i' < n -> cidx k i = cidx k' i' -> slot k = slot k' /\ i = i'.
Proof. unfold cidx. intros. assert (slot k = slot k') by nia. split; auto. nia. Qed.

Lemma clear_range_other b : forall os cells j, (forall o, In o os -> j <> b + o) -> nth j (clear_range b os cells) None = nth j cells None.
Proof. induction os; simpl; intros; auto. rewrite IHos by auto. apply nth_set_nth_other. intro E. apply (H a); auto. Qed.
Lemma clear_range_in b : forall os cells o, In o os -> nth (b + o) (clear_range b os cells) None = None.
Proof.
  induction os; simpl; intros cells o Hi; [destruct Hi|].
  destruct (in_dec Nat.eq_dec o os) as [Hin|Hnin]; [apply IHos; auto|].
  destruct Hi as [->|Hi]; [|contradiction]. rewrite clear_range_other. apply nth_set_nth_same.
  intros o' Ho' E. assert (o = o') by lia. subst; auto.
Qed.
Lemma kcells_clear_same k cells : kcells (clear_key k cells) k = map (fun _ => None) (kcells cells k).
Proof. unfold kcells, clear_key. rewrite map_map. apply map_ext_in. intros i Hi. unfold cidx. apply clear_range_in; auto. Qed.
Lemma nth_clear_other k cells j : (forall i, i < n -> j <> cidx k i) -> nth j (clear_key k cells) None = nth j cells None.
Proof. intro H. unfold clear_key. apply clear_range_other. intros o Ho. apply in_seq in Ho. apply H. lia. Qed.

Lemma set_nth_map_seq' A (f : nat -> A) a dflt : forall len st i, i < len ->
  set_nth i a dflt (map f (seq st len)) = map (fun o => if o =? st + i then a else f o) (seq st len).
Proof.
  induction len; intros st i Hi; [lia|]. destruct i; cbn [seq map set_nth].
  - rewrite Nat.add_0_r, Nat.eqb_refl. f_equal. apply map_ext_in. intros o Ho. apply in_seq in Ho.
    destruct (o =? st) eqn:E; auto. apply Nat.eqb_eq in E. lia.
  - destruct (st =? st + S i) eqn:E. apply Nat.eqb_eq in E; lia. f_equal.
    rewrite IHlen by lia. apply map_ext. intro o. replace (S st + i) with (st + S i) by lia. reflexivity.
Qed.
Lemma kcells_set_same k i v cells : i < n -> kcells (set_nth (cidx k i) (Some v) None cells) k = set_nth i (Some v) None (kcells cells k).
Proof.
  intro Hi. unfold kcells. rewrite set_nth_map_seq' by auto. apply map_ext_in. intros o Ho. apply in_seq in Ho. cbn [Nat.add].
  destruct (o =? i) eqn:E.
  - apply Nat.eqb_eq in E. subst. apply nth_set_nth_same.
  - apply Nat.eqb_neq in E. apply nth_set_nth_other. unfold cidx. lia.
Qed.


Hypothesis Hn : 1 <= n.

Definition others_same (k : key) (c c' : list (option V)) : Prop :=
  forall j, (forall i, i < n -> j <> cidx k i) -> nth j c' None = nth j c None.

Lemma join_next_l i k v cells : i < n ->
  snd (join_next i k v cells) = map (Next k) (snd (ljoin_next i v (kcells cells k))) /\
  kcells (fst (join_next i k v cells)) k = fst (ljoin_next i v (kcells cells k)) /\
  others_same k cells (fst (join_next i k v cells)).
Proof.
  intro Hi. unfold join_next, ljoin_next. destruct (jsp v).
  { cbn [fst snd map]. repeat split; auto; try (intros j _; reflexivity). }
  destruct mode.
  - cbn [fst snd map]. repeat split; auto; try (intros j _; reflexivity).
  - rewrite kcells_set_same by auto. destruct (all_some (set_nth i (Some v) None (kcells cells k))); cbn [fst snd map].
    + repeat split; auto.
      * rewrite kcells_clear_same, kcells_set_same by auto. reflexivity.
      * intros j Hj. rewrite nth_clear_other by auto. apply nth_set_nth_other. intro E. apply (Hj i Hi); auto.
    + repeat split; auto.
      * apply kcells_set_same; auto.
      * intros j Hj. apply nth_set_nth_other. intro E. apply (Hj i Hi); auto.
  - rewrite kcells_set_same by auto. cbn [fst snd map]. repeat split; auto.
    + apply kcells_set_same; auto.
    + intros j Hj. apply nth_set_nth_other. intro E. apply (Hj i Hi); auto.
Qed.

Lemma join_branch_l i k : i < n -> forall vs cells,
  snd (join_branch i (map (Next k) vs) cells) = map (Next k) (snd (ljoin_branch i vs (kcells cells k))) /\
  kcells (fst (join_branch i (map (Next k) vs) cells)) k = fst (ljoin_branch i vs (kcells cells k)) /\
  others_same k cells (fst (join_branch i (map (Next k) vs) cells)).
Proof.
  intro Hi. induction vs as [|v vs IH]; intros cells; cbn [map join_branch ljoin_branch join_ev].
  - cbn [fst snd map]. repeat split; auto; try (intros j _; reflexivity).
  - destruct (join_next_l i k v cells Hi) as (A & B & C).
    destruct (join_next i k v cells) as [c1 e1]. destruct (ljoin_next i v (kcells cells k)) as [lc1 le1]. cbn [fst snd] in *.
    destruct (IH c1) as (A2 & B2 & C2). rewrite B in A2, B2.
    destruct (join_branch i (map (Next k) vs) c1) as [c2 e2]. destruct (ljoin_branch i vs lc1) as [lc2 le2]. cbn [fst snd] in *.
    subst. repeat split; auto. now rewrite map_app.
    intros j Hj. rewrite C2, C; auto.
Qed.

(* Next: all branches *)
Lemma join_all_next k : forall louts i cells, i + length louts <= n ->
  snd (join_all i (map (map (Next k)) louts) cells) = map (Next k) (snd (ljoin_all i louts (kcells cells k))) /\
  kcells (fst (join_all i (map (map (Next k)) louts) cells)) k = fst (ljoin_all i louts (kcells cells k)) /\
  others_same k cells (fst (join_all i (map (map (Next k)) louts) cells)).
Proof.
  induction louts as [|o louts IH]; intros i cells Hlen; cbn [map join_all ljoin_all length] in *.
  - cbn [fst snd map]. repeat split; auto; try (intros j _; reflexivity).
  - destruct (join_branch_l i k ltac:(lia) o cells) as (A & B & C).
    destruct (join_branch i (map (Next k) o) cells) as [c1 e1]. destruct (ljoin_branch i o (kcells cells k)) as [lc1 le1]. cbn [fst snd] in *.
    destruct (IH (S i) c1 ltac:(lia)) as (A2 & B2 & C2). rewrite B in A2, B2.
    destruct (join_all (S i) (map (map (Next k)) louts) c1) as [c2 e2]. destruct (ljoin_all (S i) louts lc1) as [lc2 le2]. cbn [fst snd] in *.
    subst. repeat split; auto. now rewrite map_app.
    intros j Hj. rewrite C2, C; auto.
Qed.

(* Create: only branch 0 forwards it *)
Lemma join_all_create k : forall (l : list branch) i cells,
  join_all i (map (fun _ => [Create k]) l) cells = (cells, match l with [] => [] | _ => if i =? 0 then [Create k] else [] end).
Proof.
  induction l as [|b l IH]; intros i cells; cbn [map join_all join_branch join_ev]; [reflexivity|].
  destruct (i =? 0) eqn:E; rewrite IH; cbn [Nat.eqb]; destruct l; reflexivity.
Qed.

(* Done: values are joined, the last branch forwards Done and clears the key's cells *)
Lemma join_all_done k : forall louts i cells, louts <> [] -> i + length louts = n ->
  snd (join_all i (map (fun o => map (Next k) o ++ [Done k]) louts) cells) = map (Next k) (snd (ljoin_all i louts (kcells cells k))) ++ [Done k] /\
  (forall i', i' < n -> nth (cidx k i') (fst (join_all i (map (fun o => map (Next k) o ++ [Done k]) louts) cells)) None = None) /\
  others_same k cells (fst (join_all i (map (fun o => map (Next k) o ++ [Done k]) louts) cells)).
Proof.
  induction louts as [|o louts IH]; intros i cells Hne Hlen; [congruence|]. cbn [map join_all ljoin_all length] in *.
  (* a branch output = its values, then Done *)
  assert (Hb : forall c, join_branch i (map (Next k) o ++ [Done k]) c =
                 let '(c1, e1) := join_branch i (map (Next k) o) c in
                 let '(c2, e2) := join_ev i (Done k) c1 in (c2, e1 ++ e2)).
  { clear. induction o as [|v o IHo]; intro c; cbn [map app join_branch].
    - destruct (join_ev i (Done k) c) as [c2 e2]. now rewrite app_nil_r.
    - destruct (join_ev i (Next k v) c) as [c1 e1]. rewrite IHo. destruct (join_branch i (map (Next k) o) c1) as [c2 e2].
      destruct (join_ev i (Done k) c2) as [c3 e3]. now rewrite app_assoc. }
  rewrite Hb. destruct (join_branch_l i k ltac:(lia) o cells) as (A & B & C).
  destruct (join_branch i (map (Next k) o) cells) as [c1 e1]. destruct (ljoin_branch i o (kcells cells k)) as [lc1 le1]. cbn [fst snd] in *.
  cbn [join_ev]. destruct louts as [|o2 louts].
  - (* last branch *) cbn [length] in Hlen. replace (i =? n - 1) with true by (symmetry; apply Nat.eqb_eq; lia).
    cbn [map join_all ljoin_all fst snd]. subst e1. rewrite !app_nil_r. repeat split; auto.
    + intros i' Hi'. unfold clear_key. unfold cidx. apply clear_range_in. apply in_seq. lia.
    + intros j Hj. rewrite nth_clear_other by auto. apply C; auto.
  - replace (i =? n - 1) with false by (symmetry; apply Nat.eqb_neq; cbn [length] in Hlen; lia).
    destruct (IH (S i) c1 ltac:(discriminate) ltac:(cbn [length] in *; lia)) as (A2 & B2 & C2). rewrite B in A2.
    destruct (join_all (S i) (map (fun o => map (Next k) o ++ [Done k]) (o2 :: louts)) c1) as [c2 e2].
    destruct (ljoin_all (S i) (o2 :: louts) lc1) as [lc2 le2]. cbn [fst snd] in *.
    subst. repeat split; auto. rewrite !app_nil_r, map_app, app_assoc. reflexivity.
    intros j Hj. rewrite C2, C; auto.
Qed.


Lemma classic_owned_k k j : (exists i, i < n /\ j = cidx k i) \/ (forall i, i < n -> j <> cidx k i).
Proof.
  unfold cidx. destruct (le_lt_dec (slot k * n) j) as [Hle|Hlt].
  - destruct (lt_dec (j - slot k * n) n) as [Hin|Hout].
    + left. exists (j - slot k * n). split; auto. lia.
    + right. intros i Hi. lia.
  - right. intros i Hi. lia.
Qed.

Lemma not_owned_fresh live k i : (forall k', In k' live -> slot k' <> slot k) -> i < n -> ~ owned live (cidx k i).
Proof. intros Ha Hi (k' & i' & Hk' & Hi' & E). apply cidx_inj in E; auto. destruct E as [E _]. apply (Ha k' Hk'); auto. Qed.

Lemma kcells_others k k' c c' : others_same k c c' -> slot k' <> slot k -> kcells c' k' = kcells c k'.
Proof. intros Ho Hne. unfold kcells. apply map_ext_in. intros i Hi. apply in_seq in Hi. apply Ho. intros i0 Hi0 E. apply cidx_inj in E; [destruct E; auto|lia|lia]. Qed.

Lemma match_nonempty (l : list branch) (X : list ev) : l <> [] -> match l with [] => [] | _ :: _ => X end = X.
Proof. destruct l; congruence. Qed.

Theorem tee_refines : refines tee_m tee_l.
Proof.
  refine {| R := RT |}.
  - (* init *) exists ((fix mk (l : list branch) : Maps_all l := match l with [] => tt | b :: l' => ((fun _ => None), mk l') end) bs).
    cbn [fst snd init tee_m]. split; [|split].
    + clear. induction bs as [|b l IH]; cbn [R_all init_all fst snd]; auto. split; auto. apply R_init.
    + intros j _. destruct j; reflexivity.
    + intro k. reflexivity.
  - (* step *) intros live [st cells] m e Hg (maps & HR & Hun & Hm) Ha. cbn [fst snd] in HR, Hun, Hm.
    destruct (all_step bs live st maps e Hg HR Ha) as [Ho HR'].
    cbn [step tee_m]. destruct (step_all bs st e) as [st' outs]. cbn [fst snd] in *. subst outs.
    destruct e as [k|k x|k]; simpl in Ha; cbn [after].
    + (* Create *)
      destruct (kstep_all_create bs maps k) as (A & B & C). rewrite A, join_all_create.
      assert (Hbs : bs <> []) by (intro E; unfold n in Hn; rewrite E in Hn; simpl in Hn; lia).
      rewrite (match_nonempty bs _ Hbs). cbn [Nat.eqb kstep fst snd].
      split; [reflexivity|].
      assert (Hnin : ~ In k live) by (intro Hi; apply (Ha k Hi); auto).
      exists (fst (kstep_all bs maps (Create k))). cbn [fst snd]. split; [exact HR'|split].
      * intros j Hj. apply Hun. intros (k' & i' & Hk' & Hi' & E). apply Hj. exists k', i'. repeat split; auto. now right.
      * intro k0. destruct (keq k0 k) as [->|Hne].
        -- rewrite upd_same. destruct in_dec as [_|nn]; [|exfalso; apply nn; now left]. rewrite C. cbn [l0 tee_l]. f_equal. f_equal.
           unfold kcells. apply map_ext_in. intros i Hi. apply in_seq in Hi. symmetry. apply Hun. apply not_owned_fresh; auto; lia.
        -- rewrite upd_other by auto. rewrite Hm. destruct (in_dec keq k0 live), (in_dec keq k0 (k :: live)); auto.
           ++ rewrite B; auto. ++ exfalso; apply n0; now right. ++ destruct i; congruence.
    + (* Next *)
      destruct (kstep_all_next bs live st maps k x HR Ha) as (A & B & C). rewrite A. cbn [kstep].
      rewrite (Hm k). destruct (in_dec keq k live) as [_|nn]; [|contradiction]. cbn [kstep lnext tee_l].
      pose proof (lnext_all_len bs (prod_at bs k maps) x) as Hlen.
      destruct (lnext_all bs (prod_at bs k maps) x) as [pst louts] eqn:Eln. cbn [fst snd] in *.
      destruct (join_all_next k louts 0 cells ltac:(unfold n; lia)) as (J1 & J2 & J3).
      destruct (join_all 0 (map (map (Next k)) louts) cells) as [cells' em]. destruct (ljoin_all 0 louts (kcells cells k)) as [lc lem]. cbn [fst snd] in *.
      split; [exact J1|].
      exists (fst (kstep_all bs maps (Next k x))). cbn [fst snd]. split; [exact HR'|split].
      * intros j Hj. rewrite J3. apply Hun; auto. intros i Hi E. apply Hj. exists k, i. auto.
      * intro k0. destruct (keq k0 k) as [->|Hne].
        -- rewrite upd_same. destruct in_dec; [|contradiction]. rewrite C, J2. reflexivity.
        -- rewrite upd_other by auto. rewrite Hm. destruct in_dec; auto. rewrite B by auto. f_equal. f_equal.
           symmetry. apply (kcells_others k k0 cells cells' J3). intro E. apply Hne. apply (proj2 Hg); auto.
    + (* Done *)
      destruct (kstep_all_done bs live st maps k HR Ha) as (A & B). rewrite A. cbn [kstep].
      rewrite (Hm k). destruct (in_dec keq k live) as [_|nn]; [|contradiction]. cbn [kstep ldone tee_l].
      pose proof (ldone_all_len bs (prod_at bs k maps)) as Hlen.
      assert (Hne0 : ldone_all bs (prod_at bs k maps) <> []) by (intro E; rewrite E in Hlen; simpl in Hlen; unfold n in Hn; lia).
      destruct (join_all_done k (ldone_all bs (prod_at bs k maps)) 0 cells Hne0 ltac:(unfold n; lia)) as (J1 & J2 & J3).
      destruct (join_all 0 (map (fun o => map (Next k) o ++ [Done k]) (ldone_all bs (prod_at bs k maps))) cells) as [cells' em]. cbn [fst snd] in *.
      split; [exact J1|].
      exists (fst (kstep_all bs maps (Done k))). cbn [fst snd]. split; [exact HR'|split].
      * intros j Hj. destruct (classic_owned_k k j) as [(i & Hi & ->)|Hnk].
        -- apply J2; auto.
        -- rewrite J3 by auto. apply Hun. intros (k' & i' & Hk' & Hi' & E). destruct (keq k' k) as [->|Hnek].
           ++ apply (Hnk i' Hi'); auto.
           ++ apply Hj. exists k', i'. repeat split; auto. apply in_remove_iff; auto.
      * intro k0. destruct (keq k0 k) as [->|Hne].
        -- rewrite upd_same. destruct in_dec as [i|]; auto. apply in_remove_iff in i. tauto.
        -- rewrite upd_other by auto. rewrite Hm.
           destruct (in_dec keq k0 live), (in_dec keq k0 (remove keq k live)) as [i'|n']; auto.
           ++ rewrite B by auto. f_equal. f_equal. symmetry. apply (kcells_others k k0 cells cells' J3). intro E. apply Hne. apply (proj2 Hg); auto.
           ++ exfalso. apply n'. apply in_remove_iff; auto.
           ++ apply in_remove_iff in i'. tauto.
  - (* live *) intros live [st cells] m k (maps & _ & _ & Hm). rewrite Hm.
    destruct (in_dec keq k live); split; intros; auto; try discriminate; try congruence.
Defined.

End TeeProof.
End Sim.
Print Assumptions tee_refines.
