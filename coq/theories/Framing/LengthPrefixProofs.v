From Coq Require Import List Arith Lia Bool NArith.
From RxVerif Require Import Framing.Incremental Framing.IncrementalProofs Framing.LengthPrefix.
Import ListNotations.

Section LP.
Variable p : nat.
Hypothesis Hp : 1 <= p.
Variable to_b : N -> list N.
Variable of_b : list N -> N.
Variable bound : N.
Hypothesis to_len : forall n, length (to_b n) = p.
Hypothesis of_to : forall n, (n < bound)%N -> of_b (to_b n) = n.
Notation lp_parse1 := (lp_parse1 p of_b).
Notation lp_buf := (lp_buf p of_b).
Notation lp_run := (lp_run p of_b).
Notation frame1 := (frame1 to_b).
Notation frames := (frames to_b).

Lemma lp_progress buf u rest : lp_parse1 buf = Some (u, rest) -> length rest < length buf.
Proof.
  unfold LengthPrefix.lp_parse1. destruct (p <=? length buf) eqn:E1; [|discriminate]. apply Nat.leb_le in E1.
  destruct (of_b (firstn p buf) <=? N.of_nat (length buf - p))%N eqn:E2; [|discriminate]. apply N.leb_le in E2.
  intro E. inversion E; subst. rewrite skipn_length. lia.
Qed.
Lemma lp_stable buf u rest ext : lp_parse1 buf = Some (u, rest) -> lp_parse1 (buf ++ ext) = Some (u, rest ++ ext).
Proof.
  unfold LengthPrefix.lp_parse1. destruct (p <=? length buf) eqn:E1; [|discriminate]. apply Nat.leb_le in E1.
  destruct (of_b (firstn p buf) <=? N.of_nat (length buf - p))%N eqn:E2; [|discriminate]. apply N.leb_le in E2.
  intro E. inversion E; subst. clear E.
  rewrite app_length. replace (p <=? length buf + length ext) with true by (symmetry; apply Nat.leb_le; lia).
  rewrite firstn_app. replace (p - length buf) with 0 by lia. cbn [firstn]. rewrite app_nil_r.
  set (sz := of_b (firstn p buf)) in *.
  replace (sz <=? N.of_nat (length buf + length ext - p))%N with true by (symmetry; apply N.leb_le; lia).
  f_equal. f_equal.
  - rewrite skipn_app. replace (p - length buf) with 0 by lia. cbn [skipn]. rewrite firstn_app, skipn_length.
    replace (N.to_nat sz - (length buf - p)) with 0 by lia. cbn [firstn]. now rewrite app_nil_r.
  - rewrite skipn_app. replace (p + N.to_nat sz - length buf) with 0 by lia. reflexivity.
Qed.

Lemma lp_parse_frame item rest : (N.of_nat (length item) < bound)%N -> lp_parse1 (frame1 item ++ rest) = Some (item, rest).
Proof.
  intro Hb. unfold LengthPrefix.lp_parse1, LengthPrefix.frame1. rewrite !app_length, to_len.
  replace (p <=? p + length item + length rest) with true by (symmetry; apply Nat.leb_le; lia).
  rewrite <- app_assoc. rewrite firstn_app, to_len, Nat.sub_diag. cbn [firstn]. rewrite app_nil_r.
  rewrite firstn_all2 by (rewrite to_len; lia). rewrite of_to by auto.
  replace (N.of_nat (length item) <=? N.of_nat (p + length item + length rest - p))%N with true by (symmetry; apply N.leb_le; lia).
  rewrite Nat2N.id.
  f_equal. f_equal.
  - rewrite skipn_app, to_len, Nat.sub_diag. cbn [skipn]. rewrite skipn_all2 by (rewrite to_len; lia). cbn [app].
    rewrite firstn_app, Nat.sub_diag. cbn [firstn]. rewrite app_nil_r. apply firstn_all.
  - rewrite skipn_app, to_len. rewrite skipn_all2 by (rewrite to_len; lia). cbn [app].
    replace (p + length item - p) with (length item) by lia.
    rewrite skipn_app, Nat.sub_diag. cbn [skipn]. rewrite skipn_all. reflexivity.
Qed.

Lemma lp_frames : forall items partial, Forall (fun i => (N.of_nat (length i) < bound)%N) items -> lp_parse1 partial = None ->
  lp_buf (frames items ++ partial) = (items, partial).
Proof.
  induction items as [|i items IH]; intros partial Hb Hp0; unfold LengthPrefix.frames; cbn [map concat app].
  - unfold LengthPrefix.lp_buf. rewrite (parse_buf_eq _ _ _ lp_progress), Hp0. reflexivity.
  - inversion Hb; subst. unfold LengthPrefix.lp_buf. rewrite (parse_buf_eq _ _ _ lp_progress). rewrite <- app_assoc.
    rewrite lp_parse_frame by auto. fold (frames items). fold lp_buf. rewrite IH by auto. reflexivity.
Qed.

(* C15, length-prefix half: any re-chunking (empty chunks, cuts inside prefix or payload) of the framed
   stream followed by an incomplete frame yields exactly the items; the incomplete frame is never delivered *)
Theorem lp_unframe_frame : forall items chunks partial,
  Forall (fun i => (N.of_nat (length i) < bound)%N) items -> lp_parse1 partial = None ->
  concat chunks = frames items ++ partial ->
  lp_run [] chunks = (items, partial).
Proof.
  intros items chunks partial Hb Hp0 E. unfold LengthPrefix.lp_run.
  rewrite (run_concat _ _ _ lp_progress lp_stable).
  - cbn [app]. rewrite E. apply lp_frames; auto.
  - rewrite (parse_buf_eq _ _ _ lp_progress). unfold LengthPrefix.lp_parse1. cbn [length].
    replace (p <=? 0) with false by (symmetry; apply Nat.leb_gt; lia). reflexivity.
Qed.

(* a strict prefix of a frame is never parsed as a frame *)
Lemma lp_strict_prefix item pre : (N.of_nat (length item) < bound)%N ->
  (exists suf, suf <> [] /\ pre ++ suf = frame1 item) -> lp_parse1 pre = None.
Proof.
  intros Hb (suf & Hne & E). unfold LengthPrefix.lp_parse1.
  destruct (p <=? length pre) eqn:E1; [|reflexivity]. apply Nat.leb_le in E1.
  assert (Hl : length pre + length suf = p + length item).
  { rewrite <- app_length, E. unfold LengthPrefix.frame1. now rewrite app_length, to_len. }
  assert (Hf : firstn p pre = to_b (N.of_nat (length item))).
  { assert (H : firstn p (pre ++ suf) = firstn p (frame1 item)) by now rewrite E.
    rewrite firstn_app in H. replace (p - length pre) with 0 in H by lia. cbn [firstn] in H. rewrite app_nil_r in H.
    rewrite H. unfold LengthPrefix.frame1. rewrite firstn_app, to_len, Nat.sub_diag. cbn [firstn]. rewrite app_nil_r.
    apply firstn_all2. rewrite to_len; lia. }
  rewrite Hf, of_to by auto.
  destruct suf as [|x suf]; [congruence|]. cbn [length] in Hl.
  replace (N.of_nat (length item) <=? N.of_nat (length pre - p))%N with false; [reflexivity|].
  symmetry. apply N.leb_gt. lia.
Qed.
End LP.

Lemma to_le_len p : forall n, length (to_le p n) = p.
Proof. induction p; simpl; auto. Qed.
Lemma of_to_le p : forall n, (n < 256 ^ N.of_nat p)%N -> of_le (to_le p n) = n.
Proof.
  induction p as [|p IH]; intros n H.
  - change (256 ^ N.of_nat 0)%N with 1%N in H. cbn [to_le of_le fold_right]. lia.
  - rewrite Nat2N.inj_succ, N.pow_succ_r' in H. cbn [to_le of_le fold_right]. fold (of_le (to_le p (n / 256)%N)).
    rewrite IH. pose proof (N.div_mod n 256 ltac:(lia)). lia.
    apply N.div_lt_upper_bound; lia.
Qed.
Lemma to_be_len p n : length (to_be p n) = p. Proof. unfold to_be. now rewrite rev_length, to_le_len. Qed.
Lemma of_to_be p n : (n < 256 ^ N.of_nat p)%N -> of_be (to_be p n) = n.
Proof. intro. unfold of_be, to_be. rewrite rev_involutive. now apply of_to_le. Qed.

Definition lp_little p (Hp : 1 <= p) := lp_unframe_frame p Hp (to_le p) of_le (256 ^ N.of_nat p)%N (to_le_len p) (of_to_le p).
Definition lp_big p (Hp : 1 <= p) := lp_unframe_frame p Hp (to_be p) of_be (256 ^ N.of_nat p)%N (to_be_len p) (of_to_be p).
