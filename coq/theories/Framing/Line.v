(* Model of rxsci/framing/line.py (frame, unframe).  Executable; no proofs in this file. *)
From Coq Require Import List Arith Bool ZArith.
Import ListNotations.

Section Line.
Variable C : Type.
Variable is_nl : C -> bool.

(* left-to-right scan with the current partial line as accumulator:
   returns (complete lines, trailing partial line) *)
Fixpoint go (cur : list C) (s : list C) : list (list C) * list C :=
  match s with
  | [] => ([], cur)
  | c :: s' => if is_nl c then let '(ls, t) := go [] s' in (cur :: ls, t) else go (cur ++ [c]) s'
  end.

(* Python's str.split('\n') *)
Definition py_split (s : list C) : list (list C) := let '(ls, t) := go [] s in ls ++ [t].

(* unframe.on_next, transliterated:
     lines = i.split('\n'); lines[0] = acc + lines[0]; acc = lines[-1] or ''; emit lines[0:-1] *)
Definition step (acc chunk : list C) : list C * list (list C) :=
  match py_split chunk with
  | [] => (acc, [])                                   (* unreachable: split never returns [] *)
  | l0 :: rest => let lines := (acc ++ l0) :: rest in (last lines [], removelast lines)
  end.
(* unframe.on_completed: if len(acc) > 0: emit acc *)
Definition finish (acc : list C) : list (list C) := if length acc =? 0 then [] else [acc].
Fixpoint run (acc : list C) (chunks : list (list C)) : list (list C) :=
  match chunks with
  | [] => finish acc
  | c :: cs => let '(acc', out) := step acc c in out ++ run acc' cs
  end.
(* the same, but reporting what is emitted per chunk (promptness) and at completion *)
Fixpoint run_timed (acc : list C) (chunks : list (list C)) : list (list (list C)) :=
  match chunks with
  | [] => [finish acc]
  | c :: cs => let '(acc', out) := step acc c in out :: run_timed acc' cs
  end.

Variable nl : C.
(* frame.on_next: ''.join([i, '\n']) *)
Definition frame1 (i : list C) : list C := i ++ [nl].
Definition frame (items : list (list C)) : list C := concat (map frame1 items).
Definition no_nl (s : list C) := forallb (fun c => negb (is_nl c)) s = true.
End Line.

(* executable instance: characters are code points *)
Definition z_is_nl (c : Z) : bool := Z.eqb c 10.
Definition z_unframe (chunks : list (list Z)) : list (list (list Z)) := run_timed Z z_is_nl [] chunks.
Definition z_frame (items : list (list Z)) : list (list Z) := map (frame1 Z 10%Z) items.
