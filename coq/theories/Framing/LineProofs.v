From Coq Require Import List Arith Lia Bool ZArith.
From RxVerif Require Import Framing.Line.
Import ListNotations.

Section Line.
Variable C : Type.
Variable is_nl : C -> bool.
Notation go := (go C is_nl).
Notation step := (step C is_nl).
Notation run := (run C is_nl).
Notation run_timed := (run_timed C is_nl).
Notation finish := (finish C).

Lemma go_app : forall a b cur, go cur (a ++ b) = let '(la, ta) := go cur a in let '(lb, tb) := go ta b in (la ++ lb, tb).
Proof.
  induction a as [|c a IH]; intros b cur; simpl.
  - destruct (go cur b); reflexivity.
  - destruct (is_nl c).
    + rewrite IH. destruct (go [] a) as [la ta]. destruct (go ta b) as [lb tb]. reflexivity.
    + apply IH.
Qed.

Lemma go_cur : forall s cur, go cur s = match go [] s with ([], t) => ([], cur ++ t) | (l :: ls, t) => ((cur ++ l) :: ls, t) end.
Proof.
  induction s as [|c s IH]; intros cur; simpl.
  - now rewrite app_nil_r.
  - destruct (is_nl c).
    + destruct (go [] s) as [ls t]. now rewrite app_nil_r.
    + rewrite IH. rewrite (IH [c]). destruct (go [] s) as [[|l ls] t]; now rewrite <- app_assoc.
Qed.

(* the Python step is exactly one `go` with the carry-over as accumulator *)
Lemma step_go acc chunk : step acc chunk = (snd (go acc chunk), fst (go acc chunk)).
Proof.
  unfold Line.step, py_split. rewrite (go_cur chunk acc). destruct (go [] chunk) as [[|l ls] t]; cbn [app fst snd].
  - reflexivity.
  - change ((acc ++ l) :: ls ++ [t]) with (((acc ++ l) :: ls) ++ [t]). now rewrite last_last, removelast_last.
Qed.

(* chunk independence: running over any chunking = scanning the concatenation once *)
Theorem run_concat : forall chunks acc, run acc chunks = let '(ls, t) := go acc (concat chunks) in ls ++ finish t.
Proof.
  induction chunks as [|c cs IH]; intros acc; cbn [Line.run concat].
  - reflexivity.
  - rewrite step_go, IH, go_app. destruct (go acc c) as [la ta]. cbn [fst snd].
    destruct (go ta (concat cs)) as [lb tb]. now rewrite app_assoc.
Qed.

Lemma run_timed_concat : forall chunks acc, concat (run_timed acc chunks) = run acc chunks.
Proof.
  induction chunks as [|c cs IH]; intros acc; cbn [Line.run Line.run_timed concat].
  - now rewrite app_nil_r.
  - destruct (step acc c) as [acc' out]. cbn [concat]. now rewrite IH.
Qed.

Variable nl : C.
Hypothesis nl_is_nl : is_nl nl = true.
Notation no_nl := (no_nl C is_nl).
Notation frame := (frame C nl).

Lemma go_no_nl : forall s cur, no_nl s -> go cur s = ([], cur ++ s).
Proof.
  induction s as [|c s IH]; intros cur H; simpl. now rewrite app_nil_r.
  unfold Line.no_nl in H. simpl in H. apply andb_prop in H. destruct H as [H1 H2].
  destruct (is_nl c); [discriminate|]. rewrite IH by exact H2. now rewrite <- app_assoc.
Qed.
Lemma go_frame : forall items cur tail, Forall no_nl items -> no_nl tail ->
  go cur (frame items ++ tail) = match items with [] => ([], cur ++ tail) | i :: rest => ((cur ++ i) :: rest, tail) end.
Proof.
  induction items as [|i items IH]; intros cur tail Hi Ht; unfold Line.frame; cbn [map concat app].
  - now apply go_no_nl.
  - inversion Hi; subst. unfold frame1 at 1. rewrite <- !app_assoc. rewrite go_app. rewrite go_no_nl by auto.
    cbn [app Line.go]. rewrite nl_is_nl. fold (frame items). rewrite (IH [] tail) by auto.
    destruct items; reflexivity.
Qed.

Theorem unframe_frame : forall items chunks tail, Forall no_nl items -> no_nl tail ->
  concat chunks = frame items ++ tail ->
  run [] chunks = items ++ finish tail.
Proof.
  intros items chunks tail Hi Ht E. rewrite run_concat, E, go_frame by auto.
  destruct items; reflexivity.
Qed.

(* promptness: what has been emitted after any prefix of the chunks depends on that prefix only,
   and equals the complete lines of the concatenation of that prefix *)
Lemma run_timed_prefix : forall c1 c2 acc,
  firstn (length c1) (run_timed acc (c1 ++ c2)) = removelast (run_timed acc c1).
Proof.
  induction c1 as [|c cs IH]; intros c2 acc; cbn [app length firstn Line.run_timed].
  - reflexivity.
  - destruct (step acc c) as [acc' out]. cbn [firstn]. rewrite IH.
    destruct cs; cbn [Line.run_timed]; [reflexivity|]. destruct (step acc' l); reflexivity.
Qed.
End Line.
