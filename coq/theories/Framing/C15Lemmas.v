(* C15: the property theorems, stated on the executable instances that the correspondence check
   evaluates (z_unframe / z_frame, n_unframe / n_frame), derived from the generic proofs. *)
From Coq Require Import List Arith Lia Bool ZArith NArith.
From RxVerif Require Import Framing.Line Framing.LineProofs Framing.Incremental Framing.IncrementalProofs
  Framing.LengthPrefix Framing.LengthPrefixProofs.
Import ListNotations.

Definition z_no_nl (s : list Z) : Prop := Line.no_nl Z z_is_nl s.

(* line framing: any re-chunking (empty chunks, cuts anywhere) of the framed items followed by an
   unterminated tail yields the items in order, then the tail (if non-empty) at completion *)
Lemma line_roundtrip : forall (items chunks : list (list Z)) (tail : list Z),
  Forall z_no_nl items -> z_no_nl tail ->
  concat chunks = concat (z_frame items) ++ tail ->
  concat (z_unframe chunks) = items ++ (if length tail =? 0 then [] else [tail]).
Proof.
  intros items chunks tail Hi Ht E. unfold z_unframe. rewrite LineProofs.run_timed_concat.
  apply (LineProofs.unframe_frame Z z_is_nl 10%Z eq_refl items chunks tail Hi Ht). exact E.
Qed.

(* promptness half: what has been delivered after a prefix of the chunks depends on that prefix only *)
Lemma line_prompt : forall (c1 c2 : list (list Z)),
  firstn (length c1) (z_unframe (c1 ++ c2)) = removelast (z_unframe c1).
Proof. intros. apply LineProofs.run_timed_prefix. Qed.

Definition lp_bound (p : nat) : N := (256 ^ N.of_nat p)%N.
Definition fits (p : nat) (item : list N) : Prop := (N.of_nat (length item) < lp_bound p)%N.
(* `partial` is what may follow the last complete frame: anything that does not parse as a frame,
   in particular every strict prefix of a frame (lemma lp_strict_prefix_unparsable) *)
Definition unparsable (p : nat) (big : bool) (partial : list N) : Prop :=
  lp_parse1 p (if big then of_be else of_le) partial = None.

Lemma lp_roundtrip : forall (p : nat) (big : bool) (items chunks : list (list N)) (partial : list N),
  1 <= p -> Forall (fits p) items -> unparsable p big partial ->
  concat chunks = concat (n_frame p big items) ++ partial ->
  concat (fst (n_unframe p big chunks)) = items /\ snd (n_unframe p big chunks) = partial.
Proof.
  intros p big items chunks partial Hp Hf Hu E. unfold n_unframe, lp_run_timed.
  pose proof (IncrementalProofs.run_timed_concat _ _ (lp_parse1 p (if big then of_be else of_le)) chunks []) as Ht.
  assert (Hr : Incremental.run _ _ (lp_parse1 p (if big then of_be else of_le)) [] chunks = (items, partial)).
  { destruct big.
    - apply (lp_big p Hp items chunks partial Hf Hu). exact E.
    - apply (lp_little p Hp items chunks partial Hf Hu). exact E. }
  rewrite Hr in Ht. inversion Ht. split; reflexivity.
Qed.

Lemma lp_strict_prefix_unparsable : forall (p : nat) (big : bool) (item pre suf : list N), 1 <= p -> fits p item ->
  suf <> [] -> pre ++ suf = LengthPrefix.frame1 (if big then to_be p else to_le p) item -> unparsable p big pre.
Proof.
  intros p big item pre suf Hp Hf Hs E. unfold unparsable. destruct big.
  - apply (lp_strict_prefix p Hp (to_be p) of_be (lp_bound p) (to_be_len p) (of_to_be p) item pre Hf). eauto.
  - apply (lp_strict_prefix p Hp (to_le p) of_le (lp_bound p) (to_le_len p) (of_to_le p) item pre Hf). eauto.
Qed.
