(* Correspondence checker for C15: does the model reproduce what the implementation emitted,
   chunk by chunk?  Executable only. *)
From Coq Require Import List ZArith NArith Bool.
From RxVerif Require Import Base.Corr Framing.Line Framing.LengthPrefix.
Import ListNotations.

Inductive c15case :=
| CRaised
| CSkip            (* a scale case (frames of 32 KiB .. several hundred KiB): too large to be evaluated here, judged by
                      the model-free oracle alone *)
| CLine (items framed chunks : list (list Z)) (out : list (list (list Z))) (completed : bool)
| CLp (p : nat) (big : bool) (items framed chunks : list (list N)) (out : list (list (list N))) (completed : bool).

Definition ns_eqb := list_eqb N.eqb.
Definition nss_eqb := list_eqb ns_eqb.

Definition c15_check (c : c15case) : bool :=
  match c with
  | CRaised => false                     (* the model never raises on these inputs *)
  | CSkip => true
  | CLine items framed chunks out completed =>
      completed && zss_eqb (z_frame items) framed && list_eqb zss_eqb (z_unframe chunks) out
  | CLp p big items framed chunks out completed =>
      (* per chunk outputs, and nothing at completion *)
      completed && nss_eqb (n_frame p big items) framed
      && list_eqb nss_eqb (fst (n_unframe p big chunks) ++ [[]]) out
  end.
