(* Generic incremental "one unit at a time" parser with carry-over.  Used for length-prefix
   framing (C15) and for the incremental text decoders (C17).  Executable; no proofs here. *)
From Coq Require Import List Arith Bool.
Import ListNotations.

Section Incr.
Variables B U : Type.                         (* bytes, units *)
Variable parse1 : list B -> option (U * list B).

Fixpoint parse_all (fuel : nat) (buf : list B) : list U * list B :=
  match fuel with
  | 0 => ([], buf)
  | S f => match parse1 buf with
           | Some (u, rest) => let '(us, r) := parse_all f rest in (u :: us, r)
           | None => ([], buf)
           end
  end.
(* fuel = one more than the buffer length: exhaustion is unreachable for a parser that
   consumes at least one byte per unit (IncrementalProofs.parse_buf_eq) *)
Definition parse_buf (buf : list B) := parse_all (S (length buf)) buf.

(* incremental run with carry-over: all units, final residue *)
Fixpoint run (acc : list B) (chunks : list (list B)) : list U * list B :=
  match chunks with
  | [] => ([], acc)
  | c :: cs => let '(us, r) := parse_buf (acc ++ c) in let '(us', r') := run r cs in (us ++ us', r')
  end.
(* the same, reporting the units delivered per chunk *)
Fixpoint run_timed (acc : list B) (chunks : list (list B)) : list (list U) * list B :=
  match chunks with
  | [] => ([], acc)
  | c :: cs => let '(us, r) := parse_buf (acc ++ c) in let '(uss, r') := run_timed r cs in (us :: uss, r')
  end.
End Incr.
