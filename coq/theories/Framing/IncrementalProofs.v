From Coq Require Import List Arith Lia Bool Wf_nat.
From RxVerif Require Import Framing.Incremental.
Import ListNotations.

Section Incr.
Variables B U : Type.
Variable parse1 : list B -> option (U * list B).
Hypothesis progress : forall buf u rest, parse1 buf = Some (u, rest) -> length rest < length buf.
Hypothesis stable : forall buf u rest ext, parse1 buf = Some (u, rest) -> parse1 (buf ++ ext) = Some (u, rest ++ ext).
Notation parse_all := (parse_all B U parse1).
Notation parse_buf := (parse_buf B U parse1).
Notation run := (run B U parse1).
Notation run_timed := (run_timed B U parse1).

Lemma parse_all_fuel : forall f1 f2 buf, length buf < f1 -> length buf < f2 -> parse_all f1 buf = parse_all f2 buf.
Proof.
  induction f1 as [|f1 IH]; intros f2 buf H1 H2; [lia|]. destruct f2 as [|f2]; [lia|]. cbn [Incremental.parse_all].
  destruct (parse1 buf) as [[u rest]|] eqn:E; auto. apply progress in E. rewrite (IH f2 rest) by lia. reflexivity.
Qed.

(* the only fact about fuel that is ever needed: the unfolding equation (out-of-fuel is unreachable) *)
Lemma parse_buf_eq buf : parse_buf buf =
  match parse1 buf with Some (u, rest) => let '(us, r) := parse_buf rest in (u :: us, r) | None => ([], buf) end.
Proof.
  unfold Incremental.parse_buf. cbn [Incremental.parse_all]. destruct (parse1 buf) as [[u rest]|] eqn:E; auto.
  apply progress in E. rewrite (parse_all_fuel (length buf) (S (length rest)) rest) by lia. reflexivity.
Qed.

Lemma parse_buf_app : forall buf ext, parse_buf (buf ++ ext) =
  let '(us, r) := parse_buf buf in let '(us', r') := parse_buf (r ++ ext) in (us ++ us', r').
Proof.
  intro buf. induction buf as [buf IH] using (induction_ltof1 _ (@length B)). unfold ltof in IH. intro ext.
  rewrite (parse_buf_eq buf). destruct (parse1 buf) as [[u rest]|] eqn:E.
  - rewrite (parse_buf_eq (buf ++ ext)), (stable _ _ _ ext E). rewrite (IH rest (progress _ _ _ E)).
    destruct (parse_buf rest) as [us r]. destruct (parse_buf (r ++ ext)) as [us' r']. reflexivity.
  - destruct (parse_buf (buf ++ ext)); reflexivity.
Qed.

Lemma parse_buf_residue : forall buf, parse_buf (snd (parse_buf buf)) = ([], snd (parse_buf buf)).
Proof.
  intro buf. induction buf as [buf IH] using (induction_ltof1 _ (@length B)). unfold ltof in IH.
  rewrite (parse_buf_eq buf). destruct (parse1 buf) as [[u rest]|] eqn:E.
  - specialize (IH rest (progress _ _ _ E)). destruct (parse_buf rest) as [us r]. exact IH.
  - cbn [snd]. rewrite parse_buf_eq, E. reflexivity.
Qed.

Theorem run_concat : forall chunks acc, parse_buf acc = ([], acc) ->
  run acc chunks = parse_buf (acc ++ concat chunks).
Proof.
  induction chunks as [|c cs IH]; intros acc Hacc; cbn [Incremental.run concat].
  - now rewrite app_nil_r, Hacc.
  - rewrite app_assoc. rewrite (parse_buf_app (acc ++ c)).
    pose proof (parse_buf_residue (acc ++ c)) as Hr.
    destruct (parse_buf (acc ++ c)) as [us r]. cbn [snd] in Hr. rewrite (IH r Hr). reflexivity.
Qed.

Lemma run_timed_concat : forall chunks acc,
  (concat (fst (run_timed acc chunks)), snd (run_timed acc chunks)) = run acc chunks.
Proof.
  induction chunks as [|c cs IH]; intros acc; cbn [Incremental.run Incremental.run_timed].
  - reflexivity.
  - destruct (parse_buf (acc ++ c)) as [us r]. specialize (IH r).
    destruct (run_timed r cs) as [uss r'], (run r cs) as [us' r'']. cbn [fst snd concat] in *. congruence.
Qed.
End Incr.
