(* Model of rxsci/framing/length_prefix.py (frame, unframe).  Bytes are N.  Executable; no proofs. *)
From Coq Require Import List Arith Bool NArith.
From RxVerif Require Import Framing.Incremental.
Import ListNotations.

Section LP.
Variable p : nat.                       (* prefix size *)
Variable to_b : N -> list N.            (* int.to_bytes(p, byteorder) *)
Variable of_b : list N -> N.            (* int.from_bytes(..., byteorder) *)

(* one iteration of the `while bio_len - offset >= prefix_size` loop, on the unread suffix *)
Definition lp_parse1 (buf : list N) : option (list N * list N) :=
  if p <=? length buf then
    let size := of_b (firstn p buf) in
    if (size <=? N.of_nat (length buf - p))%N
    then Some (firstn (N.to_nat size) (skipn p buf), skipn (p + N.to_nat size) buf)
    else None
  else None.

Definition lp_buf := parse_buf _ _ lp_parse1.
Definition lp_run := run _ _ lp_parse1.
Definition lp_run_timed := run_timed _ _ lp_parse1.

(* frame.on_next: len(i).to_bytes(p, byteorder) + i *)
Definition frame1 (item : list N) : list N := to_b (N.of_nat (length item)) ++ item.
Definition frames (items : list (list N)) : list N := concat (map frame1 items).
End LP.

Fixpoint to_le (p : nat) (n : N) : list N :=
  match p with 0 => [] | S p' => (n mod 256)%N :: to_le p' (n / 256)%N end.
Definition of_le (bs : list N) : N := fold_right (fun b acc => (b + 256 * acc)%N) 0%N bs.
Definition to_be p n := rev (to_le p n).
Definition of_be bs := of_le (rev bs).

(* executable instances; `big = true` is byteorder='big' *)
Definition n_unframe (p : nat) (big : bool) (chunks : list (list N)) : list (list (list N)) * list N :=
  lp_run_timed p (if big then of_be else of_le) [] chunks.
Definition n_frame (p : nat) (big : bool) (items : list (list N)) : list (list N) :=
  map (frame1 (if big then to_be p else to_le p)) items.
