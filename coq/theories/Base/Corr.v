(* Generic helpers used by the generated correspondence shards (work/<Cxx>/cases_*.v).
   No proofs here: this file only has to evaluate. *)
From Coq Require Import List ZArith Bool.
Import ListNotations.

Fixpoint mism_from {A} (chk : A -> bool) (i : nat) (l : list A) : list nat :=
  match l with
  | [] => []
  | a :: l' => if chk a then mism_from chk (S i) l' else i :: mism_from chk (S i) l'
  end.
(* indices (0-based) of the cases on which model and implementation disagree *)
Definition mismatches {A} (chk : A -> bool) (l : list A) : list nat := mism_from chk 0 l.
Definition report (bad : list nat) : nat * list nat := (length bad, firstn 40 bad).

Fixpoint list_eqb {A} (eqb : A -> A -> bool) (a b : list A) : bool :=
  match a, b with
  | [], [] => true
  | x :: a', y :: b' => eqb x y && list_eqb eqb a' b'
  | _, _ => false
  end.
Definition zs_eqb := list_eqb Z.eqb.
Definition zss_eqb := list_eqb zs_eqb.
Definition option_eqb {A} (eqb : A -> A -> bool) (a b : option A) : bool :=
  match a, b with Some x, Some y => eqb x y | None, None => true | _, _ => false end.
