(* Abstract specification of the memory state store (C14): a finite map
       index -> (key, is_set, value)
   kept as an association list sorted by strictly increasing index (a canonical representation, so
   that refinement is stated with Leibniz equality), the extent `sp_cap` of the index space that
   exists so far (1 + the largest index ever added), and a counter allocator for group indices.
   No arrays, no markers, no growth loop, no `keys` list, no free list.

   An index that is absent from the map is "cleared": it reads as the type's zero, is neither set
   nor not-set-yet, and is skipped by iterate.  Operations beyond `sp_cap` answer IndexError.
   A write whose value the declared type refuses answers that error AFTER having marked the slot
   set (this is what the code does; theorems that exclude this case say `arr_conv ty v = inl _`).

   Also here: the abstraction function `abs` from the literal model to this specification.
   NO proofs in this file. *)
From Coq Require Import List ZArith NArith Bool Arith.
From RxVerif Require Import Base.Corr Store.MemStore.
Import ListNotations.

Record slot := MkSlot { sl_key : key; sl_set : bool; sl_val : val }.
Definition smap := list (nat * slot).

Fixpoint sm_get (m : smap) (i : nat) : option slot :=
  match m with
  | [] => None
  | (j, x) :: m' => if j =? i then Some x else sm_get m' i
  end.
Fixpoint sm_put (m : smap) (i : nat) (x : slot) : smap :=
  match m with
  | [] => [(i, x)]
  | (j, y) :: m' =>
      if i <? j then (i, x) :: (j, y) :: m'
      else if j =? i then (i, x) :: m'
      else (j, y) :: sm_put m' i x
  end.
Definition sm_del (m : smap) (i : nat) : smap := filter (fun p => negb (fst p =? i)) m.

Record spec := MkSpec {
  sp_ty : dtype;
  sp_default : val;
  sp_cap : nat;
  sp_map : smap;
  sp_next : N
}.
Definition sp_init (ty : dtype) (dflt : val) : spec := MkSpec ty dflt 0 [] 0%N.
Definition with_map (a : spec) (m : smap) : spec :=
  MkSpec (sp_ty a) (sp_default a) (sp_cap a) m (sp_next a).

(* the value held at index i: the type's zero when the index is cleared *)
Definition cur_val (a : spec) (i : nat) : val :=
  match sm_get (sp_map a) i with
  | Some sl => sl_val sl
  | None => zero_of (sp_ty a)
  end.

Definition sp_set (a : spec) (i : nat) (k : key) (v : val) : spec * res :=
  if i <? sp_cap a then
    match arr_conv (sp_ty a) v with
    | inl v' => (with_map a (sm_put (sp_map a) i (MkSlot k true v')), RUnit)
    | inr e => (with_map a (sm_put (sp_map a) i (MkSlot k true (cur_val a i))), RErr e)
    end
  else (a, RErr IndexError).

(* add_key without the default: the slot exists, is not set, keeps whatever value it held *)
Definition sp_add_base (a : spec) (i : nat) (k : key) : spec :=
  MkSpec (sp_ty a) (sp_default a) (Nat.max (sp_cap a) (i + 1))
         (sm_put (sp_map a) i (MkSlot k false (cur_val a i))) (sp_next a).
Definition sp_add_key (a : spec) (i : nat) (k : key) : spec * res :=
  let a1 := sp_add_base a i k in
  if is_mapper (sp_ty a) then sp_set a1 i k (VDict [])
  else match sp_default a with
       | VNone => (a1, RUnit)
       | d => sp_set a1 i k d
       end.

Definition sp_del_key (a : spec) (i : nat) : spec * res :=
  if i <? sp_cap a then (with_map a (sm_del (sp_map a) i), RUnit) else (a, RErr IndexError).

Definition sp_get (a : spec) (i : nat) : res :=
  if i <? sp_cap a then
    match sm_get (sp_map a) i with
    | None => RVal (read_as (sp_ty a) (zero_of (sp_ty a)))
    | Some sl => if sl_set sl then RVal (read_as (sp_ty a) (sl_val sl)) else RNotSet
    end
  else RErr IndexError.
Definition sp_is_set (a : spec) (i : nat) : res :=
  if i <? sp_cap a then
    RBool (match sm_get (sp_map a) i with Some sl => sl_set sl | None => false end)
  else RErr IndexError.
Definition sp_is_cleared (a : spec) (i : nat) : res :=
  if i <? sp_cap a then
    RBool (match sm_get (sp_map a) i with Some _ => false | None => true end)
  else RErr IndexError.

Definition slot_entry (sl : slot) : option key * val * bool := (Some (sl_key sl), sl_val sl, sl_set sl).
Definition sp_iterate (a : spec) : res := RIter (map (fun p => slot_entry (snd p)) (sp_map a)).

Definition sp_add_map (a : spec) (i : nat) (k : mkey) : spec * res :=
  if is_mapper (sp_ty a) then
    let idx := sp_next a in
    let a1 := MkSpec (sp_ty a) (sp_default a) (sp_cap a) (sp_map a) (idx + 1)%N in
    if i <? sp_cap a then
      match sm_get (sp_map a) i with
      | Some sl =>
          match sl_val sl with
          | VDict d =>
              (with_map a1 (sm_put (sp_map a) i (MkSlot (sl_key sl) (sl_set sl) (VDict (dict_set d k idx)))),
               RIdx idx)
          | _ => (a1, RErr TypeError)
          end
      | None => (a1, RErr TypeError)
      end
    else (a1, RErr IndexError)
  else (a, RErr AttributeError).
Definition sp_get_map (a : spec) (i : nat) (k : mkey) : res :=
  if i <? sp_cap a then map_read (cur_val a i) k else RErr IndexError.
Definition sp_iterate_map (a : spec) (i : nat) : res :=
  if i <? sp_cap a then map_keys (cur_val a i) else RErr IndexError.

Definition spec_step (a : spec) (o : op) : spec * res :=
  match o with
  | OAddKey i t => sp_add_key a (N.to_nat i) (i, t)
  | OSet i t v => sp_set a (N.to_nat i) (i, t) v
  | OGet i => (a, sp_get a (N.to_nat i))
  | ODelKey i => sp_del_key a (N.to_nat i)
  | OIsSet i => (a, sp_is_set a (N.to_nat i))
  | OIsCleared i => (a, sp_is_cleared a (N.to_nat i))
  | OIterate => (a, sp_iterate a)
  | OAddMap i k => sp_add_map a (N.to_nat i) k
  | OGetMap i k => (a, sp_get_map a (N.to_nat i) k)
  | ODelMap i k => (a, sp_get_map a (N.to_nat i) k)
  | OIterateMap i => (a, sp_iterate_map a (N.to_nat i))
  end.
Fixpoint spec_run (a : spec) (ops : list op) : spec * list res :=
  match ops with
  | [] => (a, [])
  | o :: ops' =>
      let (a1, r) := spec_step a o in
      let (a2, rs) := spec_run a1 ops' in
      (a2, r :: rs)
  end.

(* ---------------------------------------------------------------------------------------- *)
(* abstraction function *)
Definition cell3 (vs : list val) (st : list marker) (ks : list (option key)) (i : nat) : option slot :=
  match nth_error st i, nth_error ks i, nth_error vs i with
  | Some MCleared, _, _ => None
  | Some m, Some (Some k), Some v =>
      Some (MkSlot k (match m with MSet => true | _ => false end) v)
  | _, _, _ => None
  end.
Definition cell_at (s : mstore) : nat -> option slot := cell3 (m_values s) (m_state s) (m_keys s).
(* the entries f lo, f (lo+1), ..., f (lo+n-1) that exist, with their indices *)
Fixpoint collect (f : nat -> option slot) (lo n : nat) : smap :=
  match n with
  | O => []
  | S n' =>
      match f lo with
      | Some x => (lo, x) :: collect f (S lo) n'
      | None => collect f (S lo) n'
      end
  end.
Definition abs (s : mstore) : spec :=
  MkSpec (m_ty s) (m_default s) (length (m_state s))
         (collect (cell_at s) 0 (length (m_state s))) (m_next s).

(* ---------------------------------------------------------------------------------------- *)
(* vocabulary of the theorem statements *)
Definition final (ty : dtype) (dflt : val) (ops : list op) : mstore := fst (run (m_init ty dflt) ops).
Definition after (s : mstore) (ops : list op) : mstore := fst (run s ops).
Definition reads (s : mstore) (o : op) : res := snd (step s o).
(* the index an operation addresses *)
Definition op_index (o : op) : option N :=
  match o with
  | OAddKey i _ | OSet i _ _ | OGet i | ODelKey i | OIsSet i | OIsCleared i
  | OAddMap i _ | OGetMap i _ | ODelMap i _ | OIterateMap i => Some i
  | OIterate => None
  end.
(* the operations that only read index j *)
Definition is_read_of (j : N) (o : op) : Prop :=
  match o with
  | OGet i | OIsSet i | OIsCleared i | OGetMap i _ | ODelMap i _ | OIterateMap i => i = j
  | _ => False
  end.
(* j lies inside the arrays: it was added, or an index above it was *)
Definition in_store (s : mstore) (j : N) : Prop := N.to_nat j < length (m_state s).
Definition writes_no_dict (o : op) : Prop :=
  match o with OSet _ _ (VDict _) => False | _ => True end.
Definition entry_index (e : option key * val * bool) : nat :=
  match fst (fst e) with Some k => N.to_nat (fst k) | None => 0 end.
(* first occurrences, in order (what a dict keeps of a sequence of insertions) *)
Definition dedup (ks : list mkey) : list mkey :=
  fold_left (fun acc k => if existsb (fun k' => mkey_eqb k' k) acc then acc else acc ++ [k]) ks [].
(* the indices handed out by the add_map operations of a history *)
Fixpoint handed_out (ops : list op) (rs : list res) : list N :=
  match ops, rs with
  | OAddMap _ _ :: ops', RIdx n :: rs' => n :: handed_out ops' rs'
  | _ :: ops', _ :: rs' => handed_out ops' rs'
  | _, _ => []
  end.
(* the store after one more operation *)
Definition exec (s : mstore) (o : op) : mstore := fst (step s o).
