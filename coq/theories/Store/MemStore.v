(* Executable, literal model of rxsci/state/memory_store.py (class MemoryStore, new_index).
   NO proofs in this file.

   What is modelled literally
   - the three parallel containers `values` / `state` / `keys`, all indexed by key[0];
     `state` holds the markers 0 = NOTSET, 1 = SET, 2 = CLEARED (rxsci/internal/utils.py), written
     here as the three constructors of `marker` (`marker_value` gives the integer);
     `keys` holds the whole key tuple, or the integer 2 for a cleared slot (`None` here);
   - growth in add_key: append_count = key[0]+1-len(state) cells (0, CLEARED, CLEARED) are appended
     (closed form of the `for _ in range(append_count)` loop), then state[i]=NOTSET, keys[i]=key,
     then `set(key, {})` for a mapper or `set(key, default_value)` when default_value is not None;
   - set: keys[i]=key; state[i]=SET; values[i]=value IN THIS ORDER, so that when the typed array
     refuses the value (OverflowError / TypeError) the slot is already marked SET and keeps its old
     value; IndexError (raised by the first statement) leaves everything unchanged;
   - get: NOTSET only for marker 0; otherwise values[i] (a CLEARED slot reads 0 / 0.0 / False),
     through bool() when data_type is bool;
   - del_key: state[i]=CLEARED; keys[i]=CLEARED; values[i]=0;
   - iterate: every index of `keys` whose marker is not CLEARED, in index order, yielding
     (keys[i], values[i], state[i]==SET) -- the RAW array cell (an int for a bool store);
   - mapper stores: values[i] is a dict (insertion-ordered association list), next_index counter,
     free_slots (an array that nothing ever fills: MemoryStore never calls del_index), new_index,
     add_map evaluating new_index BEFORE touching values[i] (so next_index advances even when the
     subscript then raises), get_map / del_map (del_map deletes nothing) / iterate_map.
   - the typed arrays array('q'), array('Q'), array('d'), array('B') and the plain list, through
     `arr_conv` (what array.__setitem__ stores or raises).

   Simplifications (each backed by the invariant `wf` proved in MemStoreProofs.v, and by the
   correspondence runs): indices are natural numbers (Python's negative indices are not modelled);
   floats are integer-valued (VFloat z is the binary64 number z, |z| <= 2^53 in every generated
   input; an int beyond 2^53 written to a float store is `Unmodelled`); `iterate` walks the three
   lists in step (equal lengths); a str stored in a slot and then used as a map is `Unmodelled`. *)
From Coq Require Import List ZArith NArith Bool Arith.
From RxVerif Require Import Base.Corr.
Import ListNotations.

(* ---------------------------------------------------------------------------------------- *)
(* values *)
Inductive mkey := KInt (z : Z) | KStr (s : list Z).
Inductive val :=
| VNone | VInt (z : Z) | VFloat (z : Z) | VBool (b : bool) | VStr (s : list Z)
| VDict (d : list (mkey * N)).
Inductive dtype := TInt | TUInt | TFloat | TBool | TObj | TMapper.
Inductive marker := MNotSet | MSet | MCleared.
Definition marker_value (m : marker) : N :=
  match m with MNotSet => 0 | MSet => 1 | MCleared => 2 end%N.
Inductive err := IndexError | OverflowError | TypeError | AttributeError | Unmodelled.
(* a key tuple (index, rest): key[0] and an opaque tag standing for the rest of the nested key *)
Definition key := (N * Z)%type.

Inductive res :=
| RUnit                                             (* returned None *)
| RNotSet                                           (* the STATE_NOTSET sentinel object *)
| RVal (v : val)
| RBool (b : bool)
| RIter (l : list (option key * val * bool))
| RIdx (n : N)
| RKeys (l : list mkey)
| RErr (e : err).

Inductive op :=
| OAddKey (i : N) (tag : Z)
| OSet (i : N) (tag : Z) (v : val)
| OGet (i : N)
| ODelKey (i : N)
| OIsSet (i : N)
| OIsCleared (i : N)
| OIterate
| OAddMap (i : N) (k : mkey)
| OGetMap (i : N) (k : mkey)
| ODelMap (i : N) (k : mkey)
| OIterateMap (i : N).

(* ---------------------------------------------------------------------------------------- *)
(* equality tests *)
Definition mkey_eqb (a b : mkey) : bool :=
  match a, b with
  | KInt x, KInt y => Z.eqb x y
  | KStr x, KStr y => zs_eqb x y
  | _, _ => false
  end.
Definition pair_eqb {A B} (ea : A -> A -> bool) (eb : B -> B -> bool) (x y : A * B) : bool :=
  ea (fst x) (fst y) && eb (snd x) (snd y).
Definition val_eqb (a b : val) : bool :=
  match a, b with
  | VNone, VNone => true
  | VInt x, VInt y => Z.eqb x y
  | VFloat x, VFloat y => Z.eqb x y
  | VBool x, VBool y => Bool.eqb x y
  | VStr x, VStr y => zs_eqb x y
  | VDict x, VDict y => list_eqb (pair_eqb mkey_eqb N.eqb) x y
  | _, _ => false
  end.
Definition err_eqb (a b : err) : bool :=
  match a, b with
  | IndexError, IndexError | OverflowError, OverflowError | TypeError, TypeError
  | AttributeError, AttributeError => true
  | _, _ => false                      (* Unmodelled never equals anything, itself included *)
  end.
Definition key_eqb : key -> key -> bool := pair_eqb N.eqb Z.eqb.
Definition entry_eqb (a b : option key * val * bool) : bool :=
  option_eqb key_eqb (fst (fst a)) (fst (fst b)) && val_eqb (snd (fst a)) (snd (fst b))
  && Bool.eqb (snd a) (snd b).
Definition res_eqb (a b : res) : bool :=
  match a, b with
  | RUnit, RUnit => true
  | RNotSet, RNotSet => true
  | RVal x, RVal y => val_eqb x y
  | RBool x, RBool y => Bool.eqb x y
  | RIter x, RIter y => list_eqb entry_eqb x y
  | RIdx x, RIdx y => N.eqb x y
  | RKeys x, RKeys y => list_eqb mkey_eqb x y
  | RErr x, RErr y => err_eqb x y
  | _, _ => false
  end.

(* ---------------------------------------------------------------------------------------- *)
(* Python-level helpers *)

(* l[i] = x on a list / array: IndexError (None) when i is out of range *)
Fixpoint upd {A} (l : list A) (i : nat) (x : A) : list A :=
  match l, i with
  | [], _ => []
  | _ :: t, O => x :: t
  | h :: t, S j => h :: upd t j x
  end.
Definition setitem {A} (l : list A) (i : nat) (x : A) : option (list A) :=
  if i <? length l then Some (upd l i x) else None.

(* operator.index(): ints and bools are accepted by the integer arrays *)
Definition as_index (v : val) : option Z :=
  match v with
  | VInt z => Some z
  | VBool b => Some (if b then 1 else 0)%Z
  | _ => None
  end.
Definition in_range (lo hi z : Z) : bool := (lo <=? z)%Z && (z <=? hi)%Z.
Definition int_conv (lo hi : Z) (v : val) : val + err :=
  match as_index v with
  | Some z => if in_range lo hi z then inl (VInt z) else inr OverflowError
  | None => inr TypeError
  end.
(* what `values[i] = v` stores in the container created for data type ty, or the exception *)
Definition arr_conv (ty : dtype) (v : val) : val + err :=
  match ty with
  | TInt => int_conv (-9223372036854775808) 9223372036854775807 v         (* array('q') *)
  | TUInt => int_conv 0 18446744073709551615 v                            (* array('Q') *)
  | TBool => int_conv 0 255 v                                             (* array('B') *)
  | TFloat =>                                                             (* array('d') *)
      match v with
      | VFloat z => inl (VFloat z)
      | VInt z => if in_range (-9007199254740992) 9007199254740992 z then inl (VFloat z)
                  else inr Unmodelled
      | VBool b => inl (VFloat (if b then 1 else 0))
      | _ => inr TypeError
      end
  | TObj | TMapper => inl v                                               (* list *)
  end.
(* the cell that `.append(0)` / `values[i] = 0` leaves *)
Definition zero_of (ty : dtype) : val :=
  match ty with TFloat => VFloat 0 | _ => VInt 0 end.
Definition py_bool (v : val) : bool :=
  match v with
  | VNone => false
  | VInt z => negb (Z.eqb z 0)
  | VFloat z => negb (Z.eqb z 0)
  | VBool b => b
  | VStr s => match s with [] => false | _ => true end
  | VDict d => match d with [] => false | _ => true end
  end.
(* what get() does to a cell it returns *)
Definition read_as (ty : dtype) (v : val) : val :=
  match ty with TBool => VBool (py_bool v) | _ => v end.
Definition is_mapper (ty : dtype) : bool := match ty with TMapper => true | _ => false end.

(* dict: insertion-ordered association list; d[k] = x keeps the position of an existing key *)
Fixpoint dict_get (d : list (mkey * N)) (k : mkey) : option N :=
  match d with
  | [] => None
  | (k', x) :: d' => if mkey_eqb k' k then Some x else dict_get d' k
  end.
Fixpoint dict_set (d : list (mkey * N)) (k : mkey) (x : N) : list (mkey * N) :=
  match d with
  | [] => [(k, x)]
  | (k', y) :: d' => if mkey_eqb k' k then (k', x) :: d' else (k', y) :: dict_set d' k x
  end.
(* `if not map_key in v: return NOTSET; return v[map_key]` on a cell v *)
Definition map_read (v : val) (k : mkey) : res :=
  match v with
  | VDict d => match dict_get d k with Some x => RIdx x | None => RNotSet end
  | VStr _ => RErr Unmodelled
  | _ => RErr TypeError            (* argument of type 'int' is not iterable *)
  end.
(* list(k for k in v) *)
Definition map_keys (v : val) : res :=
  match v with
  | VDict d => RKeys (map fst d)
  | VStr _ => RErr Unmodelled
  | _ => RErr TypeError            (* 'int' object is not iterable *)
  end.

(* ---------------------------------------------------------------------------------------- *)
(* the store *)
Record mstore := MkStore {
  m_ty : dtype;
  m_default : val;                  (* VNone = no default value *)
  m_values : list val;
  m_state : list marker;
  m_keys : list (option key);       (* None = the integer 2 written by del_key / growth *)
  m_next : N;                       (* next_index (mapper only) *)
  m_free : list N                   (* free_slots (mapper only) *)
}.
Definition m_init (ty : dtype) (dflt : val) : mstore := MkStore ty dflt [] [] [] 0%N [].
Definition with_lists (s : mstore) (vs : list val) (st : list marker) (ks : list (option key)) :=
  MkStore (m_ty s) (m_default s) vs st ks (m_next s) (m_free s).
Definition with_alloc (s : mstore) (nx : N) (fr : list N) :=
  MkStore (m_ty s) (m_default s) (m_values s) (m_state s) (m_keys s) nx fr.

(* def new_index(next_index, free_slots) *)
Definition new_index (next : N) (free : list N) : N * N * list N :=
  match free with
  | [] => (next, (next + 1)%N, free)
  | _ => (last free 0%N, next, removelast free)          (* free_slots.pop() *)
  end.

Definition m_set (s : mstore) (i : nat) (k : key) (v : val) : mstore * res :=
  match setitem (m_keys s) i (Some k) with                          (* self.keys[key[0]] = key *)
  | None => (s, RErr IndexError)
  | Some ks =>
    match setitem (m_state s) i MSet with                           (* self.state[key[0]] = SET *)
    | None => (with_lists s (m_values s) (m_state s) ks, RErr IndexError)
    | Some st =>
      let s1 := with_lists s (m_values s) st ks in
      if i <? length (m_values s) then                              (* self.values[key[0]] = value *)
        match arr_conv (m_ty s) v with
        | inr e => (s1, RErr e)
        | inl v' => (with_lists s (upd (m_values s) i v') st ks, RUnit)
        end
      else (s1, RErr IndexError)
    end
  end.

Definition m_add_key (s : mstore) (i : nat) (k : key) : mstore * res :=
  let n := (i + 1) - length (m_state s) in                          (* append_count *)
  let vs := m_values s ++ repeat (zero_of (m_ty s)) n in
  let st := m_state s ++ repeat MCleared n in
  let ks := m_keys s ++ repeat None n in
  match setitem st i MNotSet with                                   (* self.state[key[0]] = NOTSET *)
  | None => (with_lists s vs st ks, RErr IndexError)
  | Some st' =>
    match setitem ks i (Some k) with                                (* self.keys[key[0]] = key *)
    | None => (with_lists s vs st' ks, RErr IndexError)
    | Some ks' =>
      let s2 := with_lists s vs st' ks' in
      if is_mapper (m_ty s) then m_set s2 i k (VDict [])
      else match m_default s with
           | VNone => (s2, RUnit)
           | d => m_set s2 i k d
           end
    end
  end.

Definition m_del_key (s : mstore) (i : nat) : mstore * res :=
  match setitem (m_state s) i MCleared with
  | None => (s, RErr IndexError)
  | Some st =>
    match setitem (m_keys s) i None with
    | None => (with_lists s (m_values s) st (m_keys s), RErr IndexError)
    | Some ks =>
      match setitem (m_values s) i (zero_of (m_ty s)) with
      | None => (with_lists s (m_values s) st ks, RErr IndexError)
      | Some vs => (with_lists s vs st ks, RUnit)
      end
    end
  end.

Definition m_is_cleared (s : mstore) (i : nat) : res :=
  match nth_error (m_state s) i with
  | None => RErr IndexError
  | Some MCleared => RBool true
  | Some _ => RBool false
  end.
Definition m_is_set (s : mstore) (i : nat) : res :=
  match nth_error (m_state s) i with
  | None => RErr IndexError
  | Some MSet => RBool true
  | Some _ => RBool false
  end.
Definition m_get (s : mstore) (i : nat) : res :=
  match nth_error (m_state s) i with
  | None => RErr IndexError
  | Some MNotSet => RNotSet
  | Some _ =>
    match nth_error (m_values s) i with
    | None => RErr IndexError
    | Some v => RVal (read_as (m_ty s) v)
    end
  end.

Fixpoint iter_cells (ks : list (option key)) (vs : list val) (st : list marker)
  : list (option key * val * bool) :=
  match ks, vs, st with
  | k :: ks', v :: vs', m :: st' =>
      match m with
      | MCleared => iter_cells ks' vs' st'
      | MSet => (k, v, true) :: iter_cells ks' vs' st'
      | MNotSet => (k, v, false) :: iter_cells ks' vs' st'
      end
  | _, _, _ => []
  end.
Definition m_iterate (s : mstore) : res := RIter (iter_cells (m_keys s) (m_values s) (m_state s)).

Definition m_add_map (s : mstore) (i : nat) (k : mkey) : mstore * res :=
  if is_mapper (m_ty s) then
    let '(idx, nx, fr) := new_index (m_next s) (m_free s) in
    let s1 := with_alloc s nx fr in
    match nth_error (m_values s) i with
    | None => (s1, RErr IndexError)
    | Some (VDict d) =>
        (with_lists s1 (upd (m_values s) i (VDict (dict_set d k idx))) (m_state s) (m_keys s), RIdx idx)
    | Some _ => (s1, RErr TypeError)      (* 'int' object does not support item assignment *)
    end
  else (s, RErr AttributeError).          (* no attribute next_index *)

Definition m_get_map (s : mstore) (i : nat) (k : mkey) : res :=
  match nth_error (m_values s) i with
  | None => RErr IndexError
  | Some v => map_read v k
  end.
Definition m_iterate_map (s : mstore) (i : nat) : res :=
  match nth_error (m_values s) i with
  | None => RErr IndexError
  | Some v => map_keys v
  end.

Definition step (s : mstore) (o : op) : mstore * res :=
  match o with
  | OAddKey i t => m_add_key s (N.to_nat i) (i, t)
  | OSet i t v => m_set s (N.to_nat i) (i, t) v
  | OGet i => (s, m_get s (N.to_nat i))
  | ODelKey i => m_del_key s (N.to_nat i)
  | OIsSet i => (s, m_is_set s (N.to_nat i))
  | OIsCleared i => (s, m_is_cleared s (N.to_nat i))
  | OIterate => (s, m_iterate s)
  | OAddMap i k => m_add_map s (N.to_nat i) k
  | OGetMap i k => (s, m_get_map s (N.to_nat i) k)
  | ODelMap i k => (s, m_get_map s (N.to_nat i) k)       (* del_map has the body of get_map *)
  | OIterateMap i => (s, m_iterate_map s (N.to_nat i))
  end.

(* a whole history: final store and every return value, in order *)
Fixpoint run (s : mstore) (ops : list op) : mstore * list res :=
  match ops with
  | [] => (s, [])
  | o :: ops' =>
      let (s1, r) := step s o in
      let (s2, rs) := run s1 ops' in
      (s2, r :: rs)
  end.
Definition results (ty : dtype) (dflt : val) (ops : list op) : list res :=
  snd (run (m_init ty dflt) ops).
