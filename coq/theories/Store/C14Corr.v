(* Correspondence checker for C14: does the literal model of MemoryStore return, operation by
   operation, what the implementation returned on the same history?  Executable only. *)
From Coq Require Import List ZArith NArith Bool.
From RxVerif Require Import Base.Corr Store.MemStore.
Import ListNotations.

Inductive c14case :=
| CRaised                                   (* the driver itself failed: never agrees *)
| CHist (ty : dtype) (dflt : val) (ops : list op) (got : list res).

Definition c14_check (c : c14case) : bool :=
  match c with
  | CRaised => false
  | CHist ty dflt ops got => list_eqb res_eqb (results ty dflt ops) got
  end.
