(* Proofs about the literal MemoryStore model (MemStore.v) and its specification (StoreSpec.v). *)
From Coq Require Import List ZArith NArith Bool Arith Lia Sorted.
From RxVerif Require Import Base.Corr Store.MemStore Store.StoreSpec.
Import ListNotations.

(* ======================================================================================== *)
(* 1. lists *)
Lemma length_upd : forall A (l : list A) i x, length (upd l i x) = length l.
Proof. induction l as [|h t IH]; intros [|i] x; cbn; auto. Qed.

Lemma nth_error_upd_eq : forall A (l : list A) i x, i < length l -> nth_error (upd l i x) i = Some x.
Proof.
  induction l as [|h t IH]; intros [|i] x H; cbn in *; try lia; auto. apply IH. lia.
Qed.

Lemma nth_error_upd_neq : forall A (l : list A) i j x, j <> i -> nth_error (upd l i x) j = nth_error l j.
Proof.
  induction l as [|h t IH]; intros [|i] [|j] x H; cbn; auto; try congruence.
Qed.

Lemma nth_error_repeat' : forall A (x : A) n j,
  nth_error (repeat x n) j = if j <? n then Some x else None.
Proof.
  induction n as [|n IH]; intros [|j]; cbn [repeat nth_error]; auto. rewrite IH.
  destruct (Nat.ltb_spec j n), (Nat.ltb_spec (S j) (S n)); auto; lia.
Qed.

Lemma nth_error_grow : forall A (l : list A) x n j,
  nth_error (l ++ repeat x n) j =
  if j <? length l then nth_error l j else if j <? length l + n then Some x else None.
Proof.
  intros. destruct (Nat.ltb_spec j (length l)) as [H|H].
  - apply nth_error_app1; auto.
  - rewrite nth_error_app2 by auto. rewrite nth_error_repeat'.
    destruct (Nat.ltb_spec (j - length l) n), (Nat.ltb_spec j (length l + n)); auto; lia.
Qed.

Lemma nth_error_None_ge : forall A (l : list A) j, length l <= j -> nth_error l j = None.
Proof. intros. apply nth_error_None. auto. Qed.

Lemma nth_error_lt_Some : forall A (l : list A) j, j < length l -> exists x, nth_error l j = Some x.
Proof.
  intros A l j H. destruct (nth_error l j) eqn:E; eauto.
  apply nth_error_None in E. lia.
Qed.

Lemma setitem_lt : forall A (l : list A) i x, i < length l -> setitem l i x = Some (upd l i x).
Proof. intros. unfold setitem. destruct (Nat.ltb_spec i (length l)); auto; lia. Qed.
Lemma setitem_ge : forall A (l : list A) i x, length l <= i -> setitem l i x = None.
Proof. intros. unfold setitem. destruct (Nat.ltb_spec i (length l)); auto; lia. Qed.

(* ======================================================================================== *)
(* 2. the sorted finite map and `collect` *)
Definition fupd (f : nat -> option slot) (i : nat) (x : option slot) : nat -> option slot :=
  fun j => if j =? i then x else f j.

Lemma collect_ext : forall f g n lo,
  (forall j, lo <= j < lo + n -> f j = g j) -> collect f lo n = collect g lo n.
Proof.
  induction n as [|n IH]; intros lo H; cbn; auto.
  rewrite <- (H lo) by lia. rewrite (IH (S lo)); auto. intros; apply H; lia.
Qed.

Lemma collect_none : forall f n lo, (forall j, lo <= j < lo + n -> f j = None) -> collect f lo n = [].
Proof.
  induction n as [|n IH]; intros lo H; cbn; auto.
  rewrite (H lo) by lia. apply IH. intros; apply H; lia.
Qed.

Lemma collect_app : forall f n k lo, collect f lo (n + k) = collect f lo n ++ collect f (lo + n) k.
Proof.
  induction n as [|n IH]; intros k lo; cbn.
  - rewrite Nat.add_0_r. auto.
  - rewrite IH. replace (S lo + n) with (lo + S n) by lia. destruct (f lo); auto.
Qed.

Lemma collect_In : forall f n lo j x, In (j, x) (collect f lo n) -> lo <= j < lo + n /\ f j = Some x.
Proof.
  induction n as [|n IH]; intros lo j x H; cbn in H; [tauto|].
  destruct (f lo) eqn:E.
  - destruct H as [H|H].
    + inversion H; subst. split; [lia|auto].
    + apply IH in H. split; [lia|tauto].
  - apply IH in H. split; [lia|tauto].
Qed.

Lemma In_collect : forall f n lo j x, lo <= j < lo + n -> f j = Some x -> In (j, x) (collect f lo n).
Proof.
  induction n as [|n IH]; intros lo j x H E; [lia|]. cbn.
  destruct (Nat.eq_dec j lo) as [->|Hne].
  - rewrite E. left; auto.
  - assert (In (j, x) (collect f (S lo) n)) by (apply IH; auto; lia).
    destruct (f lo); [right|]; auto.
Qed.

Ltac bdestr :=
  repeat match goal with
         | |- context [?a <=? ?b] => destruct (Nat.leb_spec a b)
         | |- context [?a <? ?b] => destruct (Nat.ltb_spec a b)
         | |- context [?a =? ?b] => destruct (Nat.eqb_spec a b)
         end; cbn [andb orb negb]; try lia; auto.

Lemma sm_get_collect : forall f n lo i,
  sm_get (collect f lo n) i = if (lo <=? i) && (i <? lo + n) then f i else None.
Proof.
  induction n as [|n IH]; intros lo i; cbn [collect sm_get].
  - bdestr.
  - destruct (f lo) eqn:E; cbn [sm_get].
    + destruct (Nat.eqb_spec lo i) as [->|Hne].
      * bdestr.
      * rewrite IH. bdestr.
    + rewrite IH. bdestr. assert (i = lo) by lia. subst. auto.
Qed.

Lemma sm_put_below : forall (m : smap) i x, (forall j y, In (j, y) m -> i < j) -> sm_put m i x = (i, x) :: m.
Proof.
  intros [|[j y] m] i x H; cbn [sm_put]; auto.
  assert (i < j) by (apply (H j y); left; auto).
  destruct (Nat.ltb_spec i j); auto; lia.
Qed.

Lemma sm_put_collect : forall f x n lo i, lo <= i < lo + n ->
  sm_put (collect f lo n) i x = collect (fupd f i (Some x)) lo n.
Proof.
  induction n as [|n IH]; intros lo i H; [lia|]. cbn [collect]. unfold fupd at 1.
  destruct (Nat.eqb_spec lo i) as [->|Hne].
  - rewrite (collect_ext (fupd f i (Some x)) f n (S i)).
    2:{ intros j Hj. unfold fupd. destruct (Nat.eqb_spec j i); auto; lia. }
    destruct (f i) eqn:E; cbn [sm_put].
    + rewrite Nat.ltb_irrefl, Nat.eqb_refl. auto.
    + apply sm_put_below. intros j y Hin. apply collect_In in Hin. lia.
  - destruct (f lo) eqn:E; cbn [sm_put].
    + destruct (Nat.ltb_spec i lo); [lia|]. destruct (Nat.eqb_spec lo i); [lia|].
      rewrite IH by lia. auto.
    + apply IH. lia.
Qed.

Lemma sm_del_collect : forall f n lo i, sm_del (collect f lo n) i = collect (fupd f i None) lo n.
Proof.
  induction n as [|n IH]; intros lo i; cbn [collect]; auto. unfold fupd at 1.
  destruct (Nat.eqb_spec lo i) as [->|Hne].
  - destruct (f i); unfold sm_del; cbn [filter fst]; [rewrite Nat.eqb_refl; cbn [negb]|]; apply IH.
  - destruct (f lo); [|apply IH]. unfold sm_del; cbn [filter fst].
    destruct (Nat.eqb_spec lo i); [lia|]. cbn [negb]. f_equal. apply IH.
Qed.

Lemma collect_sorted : forall f n lo, StronglySorted lt (map fst (collect f lo n)).
Proof.
  induction n as [|n IH]; intros lo; cbn [collect map]; [constructor|].
  destruct (f lo); cbn [map fst]; auto. constructor; auto.
  apply Forall_forall. intros j Hj. apply in_map_iff in Hj. destruct Hj as [[j' y] [<- Hin]].
  apply collect_In in Hin. cbn [fst]. lia.
Qed.

Lemma collect_shift : forall f g n lo, (forall j, f (S j) = g j) ->
  map snd (collect f (S lo) n) = map snd (collect g lo n).
Proof.
  induction n as [|n IH]; intros lo H; cbn [collect map]; auto.
  rewrite H. destruct (g lo); cbn [map snd]; rewrite IH; auto.
Qed.

Lemma sm_get_put_eq : forall m i x, sm_get (sm_put m i x) i = Some x.
Proof.
  induction m as [|[j y] m IH]; intros i x; cbn [sm_put sm_get].
  - rewrite Nat.eqb_refl; auto.
  - destruct (Nat.ltb_spec i j); cbn [sm_get]; [rewrite Nat.eqb_refl; auto|].
    destruct (Nat.eqb_spec j i); cbn [sm_get]; [rewrite Nat.eqb_refl; auto|].
    destruct (Nat.eqb_spec j i); [lia|]. apply IH.
Qed.
Lemma sm_get_put_neq : forall m i j x, j <> i -> sm_get (sm_put m i x) j = sm_get m j.
Proof.
  induction m as [|[h y] m IH]; intros i j x H; cbn [sm_put sm_get].
  - destruct (Nat.eqb_spec i j); auto; lia.
  - destruct (Nat.ltb_spec i h); cbn [sm_get].
    + destruct (Nat.eqb_spec i j); auto; lia.
    + destruct (Nat.eqb_spec h i); cbn [sm_get].
      * subst. destruct (Nat.eqb_spec i j); auto; lia.
      * destruct (Nat.eqb_spec h j); auto.
Qed.
Lemma sm_get_del_eq : forall m i, sm_get (sm_del m i) i = None.
Proof.
  induction m as [|[h y] m IH]; intros i; unfold sm_del; cbn [filter fst sm_get]; auto.
  destruct (Nat.eqb_spec h i); cbn [negb sm_get]; [apply IH|].
  destruct (Nat.eqb_spec h i); [lia|]. apply IH.
Qed.
Lemma sm_get_del_neq : forall m i j, j <> i -> sm_get (sm_del m i) j = sm_get m j.
Proof.
  induction m as [|[h y] m IH]; intros i j H; unfold sm_del; cbn [filter fst sm_get]; auto.
  destruct (Nat.eqb_spec h i); cbn [negb sm_get].
  - subst. destruct (Nat.eqb_spec i j); [lia|]. apply IH; auto.
  - destruct (Nat.eqb_spec h j); auto. apply IH; auto.
Qed.

(* ======================================================================================== *)
(* 3. the invariant of the literal model *)
Definition wf (s : mstore) : Prop :=
  length (m_values s) = length (m_state s) /\
  length (m_keys s) = length (m_state s) /\
  (forall i, nth_error (m_state s) i = Some MCleared ->
             nth_error (m_values s) i = Some (zero_of (m_ty s))) /\
  (forall i m, nth_error (m_state s) i = Some m -> m <> MCleared ->
               exists k, nth_error (m_keys s) i = Some (Some k)) /\
  (forall i k, nth_error (m_keys s) i = Some (Some k) -> N.to_nat (fst k) = i) /\
  m_free s = [].

Lemma wf_init : forall ty d, wf (m_init ty d).
Proof.
  intros. unfold wf, m_init; cbn. repeat split; auto; intros [|i]; cbn; intros; discriminate.
Qed.

Lemma cell_at_ge : forall s i, length (m_state s) <= i -> cell_at s i = None.
Proof. intros. unfold cell_at, cell3. rewrite nth_error_None_ge; auto. Qed.

Lemma cell_view : forall s i, wf s -> i < length (m_state s) ->
  exists m v ko,
    nth_error (m_state s) i = Some m /\ nth_error (m_values s) i = Some v /\
    nth_error (m_keys s) i = Some ko /\
    ((m = MCleared /\ v = zero_of (m_ty s) /\ cell_at s i = None) \/
     (m <> MCleared /\ exists k, ko = Some k /\ N.to_nat (fst k) = i /\
        cell_at s i = Some (MkSlot k (match m with MSet => true | _ => false end) v))).
Proof.
  intros s i (Hlv & Hlk & Hz & Hk & Hki & _) Hi.
  destruct (nth_error_lt_Some _ (m_state s) i Hi) as [m Em].
  destruct (nth_error_lt_Some _ (m_values s) i ltac:(lia)) as [v Ev].
  destruct (nth_error_lt_Some _ (m_keys s) i ltac:(lia)) as [ko Eko].
  exists m, v, ko. repeat split; auto.
  destruct m.
  - right. split; [discriminate|]. destruct (Hk i MNotSet Em ltac:(discriminate)) as [k Ek].
    exists k. rewrite Ek in Eko. inversion Eko; subst. repeat split; auto.
    unfold cell_at, cell3. rewrite Em, Ek, Ev. auto.
  - right. split; [discriminate|]. destruct (Hk i MSet Em ltac:(discriminate)) as [k Ek].
    exists k. rewrite Ek in Eko. inversion Eko; subst. repeat split; auto.
    unfold cell_at, cell3. rewrite Em, Ek, Ev. auto.
  - left. repeat split; auto.
    + rewrite (Hz i Em) in Ev. inversion Ev; auto.
    + unfold cell_at, cell3. rewrite Em. auto.
Qed.

Lemma sm_get_abs : forall s i, sm_get (sp_map (abs s)) i = cell_at s i.
Proof.
  intros. unfold abs; cbn [sp_map]. rewrite sm_get_collect. cbn [Nat.leb andb Nat.add].
  destruct (Nat.ltb_spec i (length (m_state s))); auto. symmetry. apply cell_at_ge. auto.
Qed.

Lemma cur_val_abs : forall s i, wf s -> i < length (m_state s) ->
  nth_error (m_values s) i = Some (cur_val (abs s) i).
Proof.
  intros s i Hwf Hi. unfold cur_val. rewrite sm_get_abs.
  destruct (cell_view s i Hwf Hi) as (m & v & ko & Em & Ev & Eko & [(-> & -> & Ec)|(Hm & k & -> & Hk & Ec)]);
    rewrite Ec; auto.
Qed.

Lemma cur_val_abs_ge : forall s i, length (m_state s) <= i -> cur_val (abs s) i = zero_of (m_ty s).
Proof. intros. unfold cur_val. rewrite sm_get_abs, cell_at_ge; auto. Qed.

Lemma abs_eq : forall s' ty d cap m nx,
  m_ty s' = ty -> m_default s' = d -> length (m_state s') = cap -> m_next s' = nx ->
  collect (cell_at s') 0 (length (m_state s')) = m -> abs s' = MkSpec ty d cap m nx.
Proof. intros s' ty d cap m nx H1 H2 H3 H4 H5. unfold abs. rewrite H5, H1, H2, H3, H4. auto. Qed.

Lemma abs_put : forall s vs st ks i x,
  length st = length (m_state s) -> i < length st ->
  (forall j, j <> i -> cell3 vs st ks j = cell_at s j) -> cell3 vs st ks i = Some x ->
  collect (cell3 vs st ks) 0 (length st) = sm_put (sp_map (abs s)) i x.
Proof.
  intros s vs st ks i x Hl Hi Hne He. unfold abs; cbn [sp_map]. rewrite <- Hl.
  rewrite sm_put_collect by lia. apply collect_ext. intros j Hj. unfold fupd.
  destruct (Nat.eqb_spec j i); subst; auto.
Qed.

Lemma abs_del : forall s vs st ks i,
  length st = length (m_state s) ->
  (forall j, j <> i -> cell3 vs st ks j = cell_at s j) -> cell3 vs st ks i = None ->
  collect (cell3 vs st ks) 0 (length st) = sm_del (sp_map (abs s)) i.
Proof.
  intros s vs st ks i Hl Hne He. unfold abs; cbn [sp_map]. rewrite <- Hl.
  rewrite sm_del_collect. apply collect_ext. intros j Hj. unfold fupd.
  destruct (Nat.eqb_spec j i); subst; auto.
Qed.

(* cells of a store whose three lists were updated at position i *)
Lemma cell3_upd_neq : forall vs st ks vs' st' ks' i j,
  nth_error vs' j = nth_error vs j -> nth_error st' j = nth_error st j ->
  nth_error ks' j = nth_error ks j -> i <> j -> cell3 vs' st' ks' j = cell3 vs st ks j.
Proof. intros. unfold cell3. rewrite H, H0, H1. auto. Qed.

(* ======================================================================================== *)
(* 4. every operation of the model refines the specification *)

Lemma m_set_nf : forall s i k v, wf s -> i < length (m_state s) ->
  m_set s i k v =
  match arr_conv (m_ty s) v with
  | inl v' => (with_lists s (upd (m_values s) i v') (upd (m_state s) i MSet) (upd (m_keys s) i (Some k)), RUnit)
  | inr e => (with_lists s (m_values s) (upd (m_state s) i MSet) (upd (m_keys s) i (Some k)), RErr e)
  end.
Proof.
  intros s i k v (Hlv & Hlk & _) Hi. unfold m_set.
  rewrite setitem_lt by lia. rewrite setitem_lt by lia.
  destruct (Nat.ltb_spec i (length (m_values s))); [|lia]. auto.
Qed.

Lemma m_set_ge : forall s i k v, wf s -> length (m_state s) <= i -> m_set s i k v = (s, RErr IndexError).
Proof.
  intros s i k v (Hlv & Hlk & _) Hi. unfold m_set. rewrite setitem_ge by lia. auto.
Qed.

Lemma wf_set : forall s i k vs, wf s -> i < length (m_state s) -> N.to_nat (fst k) = i ->
  length vs = length (m_values s) ->
  (forall j, j <> i -> nth_error vs j = nth_error (m_values s) j) ->
  wf (with_lists s vs (upd (m_state s) i MSet) (upd (m_keys s) i (Some k))).
Proof.
  intros s i k vs (Hlv & Hlk & Hz & Hk & Hki & Hf) Hi Hkey Hl Hvs.
  unfold wf, with_lists; cbn [m_values m_state m_keys m_ty m_free].
  rewrite !length_upd. repeat split; auto; try lia.
  - intros j Hj. destruct (Nat.eq_dec j i) as [->|Hne].
    + rewrite nth_error_upd_eq in Hj by lia. discriminate.
    + rewrite nth_error_upd_neq in Hj by auto. rewrite Hvs by auto. auto.
  - intros j m Hj Hm. destruct (Nat.eq_dec j i) as [->|Hne].
    + exists k. apply nth_error_upd_eq. lia.
    + rewrite nth_error_upd_neq in * by auto. eauto.
  - intros j k' Hj. destruct (Nat.eq_dec j i) as [->|Hne].
    + rewrite nth_error_upd_eq in Hj by lia. inversion Hj; subst; auto.
    + rewrite nth_error_upd_neq in Hj by auto. eauto.
Qed.

Lemma m_set_refines : forall s i k v, wf s -> N.to_nat (fst k) = i ->
  wf (fst (m_set s i k v)) /\ abs (fst (m_set s i k v)) = fst (sp_set (abs s) i k v) /\
  snd (m_set s i k v) = snd (sp_set (abs s) i k v).
Proof.
  intros s i k v Hwf Hkey. unfold sp_set. cbn [abs sp_cap sp_ty].
  destruct (Nat.ltb_spec i (length (m_state s))) as [Hi|Hi].
  2:{ rewrite m_set_ge by auto. cbn [fst snd]. auto. }
  rewrite m_set_nf by auto.
  pose proof Hwf as (Hlv & Hlk & _).
  destruct (arr_conv (m_ty s) v) as [v'|e]; cbn [fst snd]; (split; [|split; [|reflexivity]]).
  - apply wf_set; auto. apply length_upd. intros; apply nth_error_upd_neq; auto.
  - apply abs_eq; auto; unfold with_lists; cbn [m_state m_values m_keys]. apply length_upd.
    rewrite length_upd. rewrite <- (length_upd _ (m_state s) i MSet).
    apply abs_put; try (rewrite length_upd; auto).
    + intros j Hj. apply cell3_upd_neq with (i := i); auto; apply nth_error_upd_neq; auto.
    + unfold cell3. cbn [m_values m_state m_keys]. rewrite !nth_error_upd_eq by lia. auto.
  - apply wf_set; auto.
  - apply abs_eq; auto; unfold with_lists; cbn [m_state m_values m_keys]. apply length_upd.
    rewrite length_upd. rewrite <- (length_upd _ (m_state s) i MSet).
    apply abs_put; try (rewrite length_upd; auto).
    + intros j Hj. apply cell3_upd_neq with (i := i); auto; apply nth_error_upd_neq; auto.
    + unfold cell3. cbn [m_values m_state m_keys]. rewrite !nth_error_upd_eq by lia.
      rewrite (cur_val_abs s i) by auto. auto.
Qed.

(* ---- add_key ---- *)
Definition m_add_base (s : mstore) (i : nat) (k : key) : mstore :=
  let n := (i + 1) - length (m_state s) in
  with_lists s (m_values s ++ repeat (zero_of (m_ty s)) n)
             (upd (m_state s ++ repeat MCleared n) i MNotSet)
             (upd (m_keys s ++ repeat None n) i (Some k)).

Lemma m_add_key_nf : forall s i k, wf s ->
  m_add_key s i k =
  if is_mapper (m_ty s) then m_set (m_add_base s i k) i k (VDict [])
  else match m_default s with
       | VNone => (m_add_base s i k, RUnit)
       | d => m_set (m_add_base s i k) i k d
       end.
Proof.
  intros s i k (Hlv & Hlk & _). unfold m_add_key, m_add_base.
  rewrite setitem_lt by (rewrite app_length, repeat_length; lia).
  rewrite setitem_lt by (rewrite app_length, repeat_length; lia).
  cbn [with_lists m_ty m_default]. auto.
Qed.

Lemma add_base_refines : forall s i k, wf s -> N.to_nat (fst k) = i ->
  wf (m_add_base s i k) /\ abs (m_add_base s i k) = sp_add_base (abs s) i k.
Proof.
  intros s i k Hwf Hkey. pose proof Hwf as (Hlv & Hlk & Hz & Hk & Hki & Hf).
  unfold m_add_base. set (n := i + 1 - length (m_state s)).
  assert (Hi : i < length (m_state s) + n) by (unfold n; lia).
  split.
  - unfold wf, with_lists; cbn [m_values m_state m_keys m_ty m_free].
    rewrite !length_upd, !app_length, !repeat_length.
    split; [lia|]. split; [lia|]. split; [|split; [|split]]; auto.
    + intros j Hj. destruct (Nat.eq_dec j i) as [->|Hne].
      * rewrite nth_error_upd_eq in Hj by (rewrite app_length, repeat_length; lia). discriminate.
      * rewrite nth_error_upd_neq in Hj by auto. rewrite nth_error_grow in *. rewrite Hlv.
        destruct (Nat.ltb_spec j (length (m_state s))); auto.
        destruct (Nat.ltb_spec j (length (m_state s) + n)); auto. discriminate.
    + intros j m Hj Hm. destruct (Nat.eq_dec j i) as [->|Hne].
      * exists k. apply nth_error_upd_eq. rewrite app_length, repeat_length; lia.
      * rewrite nth_error_upd_neq in * by auto. rewrite nth_error_grow in *. rewrite Hlk.
        destruct (Nat.ltb_spec j (length (m_state s))); eauto.
        destruct (Nat.ltb_spec j (length (m_state s) + n)); try discriminate.
        inversion Hj; subst. congruence.
    + intros j k' Hj. destruct (Nat.eq_dec j i) as [->|Hne].
      * rewrite nth_error_upd_eq in Hj by (rewrite app_length, repeat_length; lia).
        inversion Hj; subst; auto.
      * rewrite nth_error_upd_neq in Hj by auto. rewrite nth_error_grow in Hj.
        destruct (Nat.ltb_spec j (length (m_keys s))); eauto.
        destruct (Nat.ltb_spec j (length (m_keys s) + n)); discriminate.
  - unfold sp_add_base. cbn [abs sp_ty sp_default sp_cap sp_next sp_map].
    apply abs_eq; auto; unfold with_lists; cbn [m_state m_values m_keys].
    + rewrite length_upd, app_length, repeat_length. unfold n. lia.
    + unfold cell_at; cbn [m_state m_values m_keys].
      rewrite length_upd, app_length, repeat_length.
      fold (cell_at s).
      assert (Hext : collect (cell_at s) 0 (length (m_state s)) = collect (cell_at s) 0 (length (m_state s) + n)).
      { rewrite collect_app.
        rewrite (collect_none _ n (0 + length (m_state s))) by (intros; apply cell_at_ge; lia).
        rewrite app_nil_r. auto. }
      rewrite Hext. rewrite sm_put_collect by lia. symmetry. apply collect_ext. intros j Hj.
      unfold fupd. destruct (Nat.eqb_spec j i) as [->|Hne].
      * unfold cell3. rewrite !nth_error_upd_eq by (rewrite app_length, repeat_length; lia).
        rewrite nth_error_grow. rewrite Hlv.
        destruct (Nat.ltb_spec i (length (m_state s))).
        -- rewrite (cur_val_abs s i) by auto. auto.
        -- destruct (Nat.ltb_spec i (length (m_state s) + n)); [|lia].
           rewrite cur_val_abs_ge by auto. auto.
      * unfold cell3. rewrite !nth_error_upd_neq by auto. rewrite !nth_error_grow. rewrite Hlv, Hlk.
        destruct (Nat.ltb_spec j (length (m_state s))).
        -- reflexivity.
        -- destruct (Nat.ltb_spec j (length (m_state s) + n)); [|lia].
           rewrite cell_at_ge by auto. auto.
Qed.

Lemma m_add_key_refines : forall s i k, wf s -> N.to_nat (fst k) = i ->
  wf (fst (m_add_key s i k)) /\ abs (fst (m_add_key s i k)) = fst (sp_add_key (abs s) i k) /\
  snd (m_add_key s i k) = snd (sp_add_key (abs s) i k).
Proof.
  intros s i k Hwf Hkey. rewrite m_add_key_nf by auto. unfold sp_add_key.
  destruct (add_base_refines s i k Hwf Hkey) as [Hwf2 Habs2].
  cbn [abs sp_ty sp_default]. fold (abs s). rewrite <- Habs2.
  destruct (is_mapper (m_ty s)).
  - apply m_set_refines; auto.
  - destruct (m_default s); try (apply m_set_refines; auto). cbn [fst snd]. auto.
Qed.

(* ---- del_key ---- *)
Lemma m_del_key_refines : forall s i, wf s ->
  wf (fst (m_del_key s i)) /\ abs (fst (m_del_key s i)) = fst (sp_del_key (abs s) i) /\
  snd (m_del_key s i) = snd (sp_del_key (abs s) i).
Proof.
  intros s i Hwf. pose proof Hwf as (Hlv & Hlk & Hz & Hk & Hki & Hf).
  unfold m_del_key, sp_del_key. cbn [abs sp_cap]. fold (abs s).
  destruct (Nat.ltb_spec i (length (m_state s))) as [Hi|Hi].
  2:{ rewrite setitem_ge by lia. cbn [fst snd]. auto. }
  rewrite !setitem_lt by lia. cbn [fst snd]. split; [|split; [|reflexivity]].
  - unfold wf, with_lists; cbn [m_values m_state m_keys m_ty m_free]. rewrite !length_upd.
    split; [lia|]. split; [lia|]. split; [|split; [|split]]; auto.
    + intros j Hj. destruct (Nat.eq_dec j i) as [->|Hne].
      * apply nth_error_upd_eq. lia.
      * rewrite nth_error_upd_neq in * by auto. auto.
    + intros j m Hj Hm. destruct (Nat.eq_dec j i) as [->|Hne].
      * rewrite nth_error_upd_eq in Hj by lia. congruence.
      * rewrite nth_error_upd_neq in * by auto. eauto.
    + intros j k' Hj. destruct (Nat.eq_dec j i) as [->|Hne].
      * rewrite nth_error_upd_eq in Hj by lia. discriminate.
      * rewrite nth_error_upd_neq in Hj by auto. eauto.
  - apply abs_eq; auto; unfold with_lists; cbn [m_state m_values m_keys]. apply length_upd.
    unfold cell_at at 1; cbn [m_state m_values m_keys].
    apply abs_del.
    + apply length_upd.
    + intros j Hj. apply cell3_upd_neq with (i := i); auto; apply nth_error_upd_neq; auto.
    + unfold cell3. rewrite nth_error_upd_eq by lia. auto.
Qed.

(* ---- reads ---- *)
Lemma m_get_refines : forall s i, wf s -> m_get s i = sp_get (abs s) i.
Proof.
  intros s i Hwf. unfold m_get, sp_get. rewrite sm_get_abs. cbn [abs sp_cap sp_ty].
  destruct (Nat.ltb_spec i (length (m_state s))) as [Hi|Hi].
  2:{ rewrite nth_error_None_ge; auto. }
  destruct (cell_view s i Hwf Hi) as (m & v & ko & Em & Ev & Eko & [(-> & -> & Ec)|(Hm & k & -> & Hk & Ec)]);
    rewrite Em, Ec.
  - rewrite Ev. auto.
  - cbn [sl_set sl_val]. destruct m; try congruence; rewrite ?Ev; auto.
Qed.

Lemma m_is_set_refines : forall s i, wf s -> m_is_set s i = sp_is_set (abs s) i.
Proof.
  intros s i Hwf. unfold m_is_set, sp_is_set. rewrite sm_get_abs. cbn [abs sp_cap].
  destruct (Nat.ltb_spec i (length (m_state s))) as [Hi|Hi].
  2:{ rewrite nth_error_None_ge; auto. }
  destruct (cell_view s i Hwf Hi) as (m & v & ko & Em & Ev & Eko & [(-> & -> & Ec)|(Hm & k & -> & Hk & Ec)]);
    rewrite Em, Ec; auto. destruct m; auto.
Qed.

Lemma m_is_cleared_refines : forall s i, wf s -> m_is_cleared s i = sp_is_cleared (abs s) i.
Proof.
  intros s i Hwf. unfold m_is_cleared, sp_is_cleared. rewrite sm_get_abs. cbn [abs sp_cap].
  destruct (Nat.ltb_spec i (length (m_state s))) as [Hi|Hi].
  2:{ rewrite nth_error_None_ge; auto. }
  destruct (cell_view s i Hwf Hi) as (m & v & ko & Em & Ev & Eko & [(-> & -> & Ec)|(Hm & k & -> & Hk & Ec)]);
    rewrite Em, Ec; auto. destruct m; auto; congruence.
Qed.

Lemma m_get_map_refines : forall s i k, wf s -> m_get_map s i k = sp_get_map (abs s) i k.
Proof.
  intros s i k Hwf. unfold m_get_map, sp_get_map. cbn [abs sp_cap]. fold (abs s).
  destruct (Nat.ltb_spec i (length (m_state s))) as [Hi|Hi].
  - rewrite (cur_val_abs s i) by auto. auto.
  - destruct Hwf as (Hlv & _). rewrite nth_error_None_ge by lia. auto.
Qed.

Lemma m_iterate_map_refines : forall s i, wf s -> m_iterate_map s i = sp_iterate_map (abs s) i.
Proof.
  intros s i Hwf. unfold m_iterate_map, sp_iterate_map. cbn [abs sp_cap]. fold (abs s).
  destruct (Nat.ltb_spec i (length (m_state s))) as [Hi|Hi].
  - rewrite (cur_val_abs s i) by auto. auto.
  - destruct Hwf as (Hlv & _). rewrite nth_error_None_ge by lia. auto.
Qed.

(* ---- iterate ---- *)
Lemma iter_cells_collect : forall st ks vs,
  length vs = length st -> length ks = length st ->
  (forall j m, nth_error st j = Some m -> m <> MCleared -> exists k, nth_error ks j = Some (Some k)) ->
  iter_cells ks vs st = map slot_entry (map snd (collect (cell3 vs st ks) 0 (length st))).
Proof.
  induction st as [|m st IH]; intros ks vs Hlv Hlk Hk.
  - destruct ks, vs; cbn in *; auto; discriminate.
  - destruct ks as [|ko ks]; [discriminate|]. destruct vs as [|v vs]; [discriminate|].
    cbn [length collect]. cbn [iter_cells].
    assert (Hsh : map snd (collect (cell3 (v :: vs) (m :: st) (ko :: ks)) 1 (length st)) =
                  map snd (collect (cell3 vs st ks) 0 (length st))).
    { apply collect_shift. intros j. unfold cell3. cbn [nth_error]. auto. }
    assert (IH' : iter_cells ks vs st = map slot_entry (map snd (collect (cell3 vs st ks) 0 (length st)))).
    { apply IH; cbn in *; try lia. intros j m' Hj Hm'. apply (Hk (S j) m'); auto. }
    destruct m.
    + destruct (Hk 0 MNotSet eq_refl ltac:(discriminate)) as [k Ek]. cbn in Ek. inversion Ek; subst.
      unfold cell3 at 1. cbn [nth_error map snd]. rewrite Hsh, <- IH'. auto.
    + destruct (Hk 0 MSet eq_refl ltac:(discriminate)) as [k Ek]. cbn in Ek. inversion Ek; subst.
      unfold cell3 at 1. cbn [nth_error map snd]. rewrite Hsh, <- IH'. auto.
    + unfold cell3 at 1. cbn [nth_error]. rewrite Hsh, <- IH'. auto.
Qed.

Lemma m_iterate_refines : forall s, wf s -> m_iterate s = sp_iterate (abs s).
Proof.
  intros s (Hlv & Hlk & Hz & Hk & Hki & Hf). unfold m_iterate, sp_iterate. f_equal.
  rewrite iter_cells_collect; auto. cbn [abs sp_map]. rewrite map_map. auto.
Qed.

(* ---- add_map ---- *)
Lemma zero_not_dict : forall ty d, zero_of ty <> VDict d.
Proof. destruct ty; discriminate. Qed.

Lemma new_index_nil : forall nx, new_index nx [] = (nx, (nx + 1)%N, []).
Proof. auto. Qed.

Lemma wf_with_alloc : forall s nx, wf s -> wf (with_alloc s nx []).
Proof. intros s nx (Hlv & Hlk & Hz & Hk & Hki & Hf). unfold wf, with_alloc; cbn. auto 10. Qed.

Lemma m_add_map_refines : forall s i k, wf s ->
  wf (fst (m_add_map s i k)) /\ abs (fst (m_add_map s i k)) = fst (sp_add_map (abs s) i k) /\
  snd (m_add_map s i k) = snd (sp_add_map (abs s) i k).
Proof.
  intros s i k Hwf. pose proof Hwf as (Hlv & Hlk & Hz & Hk & Hki & Hf).
  unfold m_add_map, sp_add_map. rewrite sm_get_abs.
  change (sp_ty (abs s)) with (m_ty s). change (sp_cap (abs s)) with (length (m_state s)).
  change (sp_next (abs s)) with (m_next s). change (sp_default (abs s)) with (m_default s).
  destruct (is_mapper (m_ty s)); [|cbn [fst snd]; auto].
  rewrite Hf, new_index_nil.
  destruct (Nat.ltb_spec i (length (m_state s))) as [Hi|Hi].
  2:{ rewrite nth_error_None_ge by lia. cbn [fst snd]. split; [apply wf_with_alloc; auto|]. auto. }
  destruct (cell_view s i Hwf Hi) as (m & v & ko & Em & Ev & Eko & [(-> & -> & Ec)|(Hm & k0 & -> & Hk0 & Ec)]);
    rewrite Ev, Ec.
  - assert (Hnd := zero_not_dict (m_ty s)).
    destruct (zero_of (m_ty s)); try (cbn [fst snd]; split; [apply wf_with_alloc; auto|]; auto).
    exfalso. eapply Hnd; eauto.
  - cbn [sl_val sl_key sl_set].
    destruct v; try (cbn [fst snd]; split; [apply wf_with_alloc; auto|]; auto).
    cbn [fst snd]. split; [|split; [|reflexivity]].
    + unfold wf, with_lists, with_alloc; cbn [m_values m_state m_keys m_ty m_free]. rewrite !length_upd.
      split; [lia|]. split; [lia|]. split; [|split; [|split]]; auto.
      intros j Hj. destruct (Nat.eq_dec j i) as [->|Hne]; [congruence|].
      rewrite nth_error_upd_neq by auto. auto.
    + apply abs_eq; auto; unfold with_lists, with_alloc; cbn [m_state m_values m_keys].
      unfold cell_at at 1; cbn [m_state m_values m_keys].
      apply abs_put; auto.
      * intros j Hj. apply cell3_upd_neq with (i := i); auto. apply nth_error_upd_neq; auto.
      * unfold cell3. rewrite Em, Eko, nth_error_upd_eq by lia. destruct m; congruence.
Qed.

(* ---- one step, whole histories ---- *)
Theorem step_refines : forall s o, wf s ->
  wf (fst (step s o)) /\ abs (fst (step s o)) = fst (spec_step (abs s) o) /\
  snd (step s o) = snd (spec_step (abs s) o).
Proof.
  intros s o Hwf. destruct o; cbn [step spec_step fst snd].
  - apply m_add_key_refines; auto.
  - apply m_set_refines; auto.
  - rewrite m_get_refines; auto.
  - apply m_del_key_refines; auto.
  - rewrite m_is_set_refines; auto.
  - rewrite m_is_cleared_refines; auto.
  - rewrite m_iterate_refines; auto.
  - apply m_add_map_refines; auto.
  - rewrite m_get_map_refines; auto.
  - rewrite m_get_map_refines; auto.
  - rewrite m_iterate_map_refines; auto.
Qed.

Lemma wf_step : forall s o, wf s -> wf (fst (step s o)).
Proof. intros. apply step_refines; auto. Qed.

Theorem run_refines : forall ops s, wf s ->
  wf (fst (run s ops)) /\ abs (fst (run s ops)) = fst (spec_run (abs s) ops) /\
  snd (run s ops) = snd (spec_run (abs s) ops).
Proof.
  induction ops as [|o ops IH]; intros s Hwf; cbn [run spec_run fst snd]; auto.
  destruct (step_refines s o Hwf) as (Hwf1 & Habs1 & Hr1).
  destruct (step s o) as [s1 r1]. destruct (spec_step (abs s) o) as [a1 r1'].
  cbn [fst snd] in *. subst.
  destruct (IH s1 Hwf1) as (Hwf2 & Habs2 & Hr2).
  destruct (run s1 ops) as [s2 rs]. destruct (spec_run (abs s1) ops) as [a2 rs'].
  cbn [fst snd] in *. subst. auto.
Qed.

Lemma abs_init : forall ty d, abs (m_init ty d) = sp_init ty d.
Proof. auto. Qed.

Theorem refinement : forall ty d ops,
  results ty d ops = snd (spec_run (sp_init ty d) ops) /\
  abs (final ty d ops) = fst (spec_run (sp_init ty d) ops).
Proof.
  intros. unfold results, final. rewrite <- abs_init.
  destruct (run_refines ops (m_init ty d) (wf_init ty d)) as (_ & H1 & H2). auto.
Qed.

Lemma wf_after : forall ops s, wf s -> wf (after s ops).
Proof. intros. apply run_refines; auto. Qed.
Lemma wf_final : forall ty d ops, wf (final ty d ops).
Proof. intros. apply wf_after, wf_init. Qed.

(* ======================================================================================== *)
(* 5. facts about the specification, transported to the model by the refinement *)

Lemma reads_abs : forall s o, wf s -> reads s o = snd (spec_step (abs s) o).
Proof. intros. apply step_refines; auto. Qed.
Lemma abs_exec : forall s o, wf s -> abs (exec s o) = fst (spec_step (abs s) o).
Proof. intros. apply step_refines; auto. Qed.
Lemma wf_exec : forall s o, wf s -> wf (exec s o).
Proof. intros. apply wf_step; auto. Qed.
Lemma abs_after : forall s ops, wf s -> abs (after s ops) = fst (spec_run (abs s) ops).
Proof. intros. apply run_refines; auto. Qed.

(* what a successful write leaves behind *)
Lemma sp_set_ok : forall a i k v v', i < sp_cap a -> arr_conv (sp_ty a) v = inl v' ->
  let a' := fst (sp_set a i k v) in
  snd (sp_set a i k v) = RUnit /\
  sp_get a' i = RVal (read_as (sp_ty a) v') /\ sp_is_set a' i = RBool true /\
  sp_is_cleared a' i = RBool false /\ sp_iterate_map a' i = map_keys v'.
Proof.
  intros a i k v v' Hi Hc. unfold sp_set. destruct (Nat.ltb_spec i (sp_cap a)); [|lia].
  rewrite Hc. cbn [fst snd]. unfold sp_get, sp_is_set, sp_is_cleared, sp_iterate_map, cur_val, with_map.
  cbn [sp_cap sp_map sp_ty]. destruct (Nat.ltb_spec i (sp_cap a)); [|lia].
  rewrite sm_get_put_eq. cbn [sl_set sl_val]. auto.
Qed.

Lemma sp_add_base_fresh : forall a i k,
  let a' := sp_add_base a i k in
  i < sp_cap a' /\ sp_ty a' = sp_ty a /\
  sp_get a' i = RNotSet /\ sp_is_set a' i = RBool false /\ sp_is_cleared a' i = RBool false.
Proof.
  intros a i k. unfold sp_add_base, sp_get, sp_is_set, sp_is_cleared. cbn [sp_cap sp_map sp_ty].
  destruct (Nat.ltb_spec i (Nat.max (sp_cap a) (i + 1))); [|lia].
  rewrite sm_get_put_eq. cbn [sl_set]. repeat split; auto.
Qed.

(* fresh after add_key *)
Lemma fresh_nodefault : forall s i t, wf s -> m_ty s <> TMapper -> m_default s = VNone ->
  let s1 := exec s (OAddKey i t) in
  reads s1 (OGet i) = RNotSet /\ reads s1 (OIsSet i) = RBool false /\ reads s1 (OIsCleared i) = RBool false.
Proof.
  intros s i t Hwf Hty Hd s1. assert (Hwf1 : wf s1) by (apply wf_exec; auto).
  rewrite !reads_abs by auto. unfold s1. rewrite abs_exec by auto.
  cbn [spec_step fst snd]. unfold sp_add_key.
  change (sp_ty (abs s)) with (m_ty s). change (sp_default (abs s)) with (m_default s).
  destruct (m_ty s) eqn:E; try congruence; cbn [is_mapper]; rewrite Hd; cbn [fst];
    apply sp_add_base_fresh.
Qed.

Lemma fresh_default : forall s i t v, wf s -> m_ty s <> TMapper -> m_default s <> VNone ->
  arr_conv (m_ty s) (m_default s) = inl v ->
  let s1 := exec s (OAddKey i t) in
  reads s (OAddKey i t) = RUnit /\
  reads s1 (OGet i) = RVal (read_as (m_ty s) v) /\ reads s1 (OIsSet i) = RBool true /\
  reads s1 (OIsCleared i) = RBool false.
Proof.
  intros s i t v Hwf Hty Hd Hc s1. assert (Hwf1 : wf s1) by (apply wf_exec; auto).
  rewrite !reads_abs by auto. unfold s1. rewrite abs_exec by auto.
  cbn [spec_step fst snd]. unfold sp_add_key.
  change (sp_ty (abs s)) with (m_ty s). change (sp_default (abs s)) with (m_default s).
  destruct (sp_add_base_fresh (abs s) (N.to_nat i) (i, t)) as (Hcap & Hty' & _).
  assert (Hok := sp_set_ok (sp_add_base (abs s) (N.to_nat i) (i, t)) (N.to_nat i) (i, t) (m_default s) v Hcap).
  rewrite Hty' in Hok. change (sp_ty (abs s)) with (m_ty s) in Hok. specialize (Hok Hc). cbn zeta in Hok.
  destruct (m_ty s) eqn:E; try congruence; cbn [is_mapper];
    destruct (m_default s) eqn:E2; try congruence; tauto.
Qed.

Lemma fresh_mapper : forall s i t, wf s -> m_ty s = TMapper ->
  let s1 := exec s (OAddKey i t) in
  reads s (OAddKey i t) = RUnit /\
  reads s1 (OGet i) = RVal (VDict []) /\ reads s1 (OIsSet i) = RBool true /\
  reads s1 (OIsCleared i) = RBool false /\ reads s1 (OIterateMap i) = RKeys [].
Proof.
  intros s i t Hwf Hty s1. assert (Hwf1 : wf s1) by (apply wf_exec; auto).
  rewrite !reads_abs by auto. unfold s1. rewrite abs_exec by auto.
  cbn [spec_step fst snd]. unfold sp_add_key.
  change (sp_ty (abs s)) with (m_ty s). rewrite Hty. cbn [is_mapper].
  destruct (sp_add_base_fresh (abs s) (N.to_nat i) (i, t)) as (Hcap & Hty' & _).
  assert (Hok := sp_set_ok (sp_add_base (abs s) (N.to_nat i) (i, t)) (N.to_nat i) (i, t) (VDict []) (VDict []) Hcap).
  rewrite Hty' in Hok. change (sp_ty (abs s)) with (m_ty s) in Hok. rewrite Hty in Hok.
  specialize (Hok eq_refl). cbn zeta in Hok. cbn [read_as map_keys map] in Hok. tauto.
Qed.

(* read your write *)
Lemma read_your_write : forall s i t v v', wf s -> in_store s i -> arr_conv (m_ty s) v = inl v' ->
  let s1 := exec s (OSet i t v) in
  reads s (OSet i t v) = RUnit /\
  reads s1 (OGet i) = RVal (read_as (m_ty s) v') /\ reads s1 (OIsSet i) = RBool true /\
  reads s1 (OIsCleared i) = RBool false.
Proof.
  intros s i t v v' Hwf Hi Hc s1. assert (Hwf1 : wf s1) by (apply wf_exec; auto).
  rewrite !reads_abs by auto. unfold s1. rewrite abs_exec by auto.
  cbn [spec_step fst snd].
  assert (Hok := sp_set_ok (abs s) (N.to_nat i) (i, t) v v' Hi Hc). cbn zeta in Hok. tauto.
Qed.

(* ---- the declared type and default never change; the index space only grows ---- *)
Lemma sp_set_frame : forall a i k v,
  let a' := fst (sp_set a i k v) in
  sp_ty a' = sp_ty a /\ sp_default a' = sp_default a /\ sp_cap a' = sp_cap a /\ sp_next a' = sp_next a /\
  forall j, j <> i -> sm_get (sp_map a') j = sm_get (sp_map a) j.
Proof.
  intros a i k v. unfold sp_set. destruct (i <? sp_cap a); [destruct (arr_conv (sp_ty a) v)|];
    cbn [fst with_map sp_ty sp_default sp_cap sp_next sp_map]; repeat split; auto;
    intros; apply sm_get_put_neq; auto.
Qed.

Lemma spec_step_frame : forall a o,
  let a' := fst (spec_step a o) in
  sp_ty a' = sp_ty a /\ sp_default a' = sp_default a /\ sp_cap a <= sp_cap a' /\
  (sp_next a <= sp_next a')%N /\
  forall j, op_index o <> Some j -> sm_get (sp_map a') (N.to_nat j) = sm_get (sp_map a) (N.to_nat j).
Proof.
  intros a o. destruct o; cbn [spec_step fst op_index]; try (repeat split; auto; lia).
  - (* add_key *)
    unfold sp_add_key.
    assert (Hb : forall j, Some i <> Some j ->
               sm_get (sp_map (sp_add_base a (N.to_nat i) (i, tag))) (N.to_nat j) = sm_get (sp_map a) (N.to_nat j)).
    { intros j Hj. unfold sp_add_base; cbn [sp_map]. apply sm_get_put_neq.
      intro E. apply N2Nat.inj in E. congruence. }
    destruct (sp_set_frame (sp_add_base a (N.to_nat i) (i, tag)) (N.to_nat i) (i, tag) (VDict []))
      as (H1 & H2 & H3 & H4 & H5).
    destruct (sp_set_frame (sp_add_base a (N.to_nat i) (i, tag)) (N.to_nat i) (i, tag) (sp_default a))
      as (G1 & G2 & G3 & G4 & G5).
    assert (Hne : forall j, Some i <> Some j -> N.to_nat j <> N.to_nat i).
    { intros j Hj E. apply N2Nat.inj in E. congruence. }
    destruct (is_mapper (sp_ty a)).
    + rewrite H1, H2, H3, H4. unfold sp_add_base at 1 2 3 4; cbn [sp_ty sp_default sp_cap sp_next].
      repeat split; auto; try lia. intros j Hj. rewrite H5 by auto. auto.
    + destruct (sp_default a) eqn:Ed;
        try (rewrite G1, G2, G3, G4; unfold sp_add_base at 1 2 3 4; cbn [sp_ty sp_default sp_cap sp_next];
             repeat split; auto; try lia; intros j Hj; rewrite G5 by auto; auto).
      cbn [fst]. unfold sp_add_base at 1 2 3 4; cbn [sp_ty sp_default sp_cap sp_next].
      repeat split; auto; lia.
  - (* set *)
    destruct (sp_set_frame a (N.to_nat i) (i, tag) v) as (H1 & H2 & H3 & H4 & H5).
    rewrite H1, H2, H3, H4. repeat split; auto; try lia.
    intros j Hj. apply H5. intro E. apply N2Nat.inj in E. congruence.
  - (* del_key *)
    unfold sp_del_key. destruct (N.to_nat i <? sp_cap a); cbn [fst with_map sp_ty sp_default sp_cap sp_next sp_map];
      repeat split; auto; try lia.
    intros j Hj. apply sm_get_del_neq. intro E. apply N2Nat.inj in E. congruence.
  - (* add_map *)
    unfold sp_add_map. destruct (is_mapper (sp_ty a)); [|cbn [fst]; repeat split; auto; lia].
    destruct (N.to_nat i <? sp_cap a); [|cbn [fst sp_ty sp_default sp_cap sp_next sp_map]; repeat split; auto; lia].
    destruct (sm_get (sp_map a) (N.to_nat i)) as [sl|];
      [destruct (sl_val sl)|]; cbn [fst with_map sp_ty sp_default sp_cap sp_next sp_map];
      repeat split; auto; try lia.
    intros j Hj. apply sm_get_put_neq. intro E. apply N2Nat.inj in E. congruence.
Qed.

Lemma spec_run_frame : forall ops a,
  let a' := fst (spec_run a ops) in
  sp_ty a' = sp_ty a /\ sp_default a' = sp_default a /\ sp_cap a <= sp_cap a' /\
  (sp_next a <= sp_next a')%N /\
  forall j, Forall (fun o => op_index o <> Some j) ops ->
            sm_get (sp_map a') (N.to_nat j) = sm_get (sp_map a) (N.to_nat j).
Proof.
  induction ops as [|o ops IH]; intros a; cbn [spec_run fst].
  - repeat split; auto; lia.
  - destruct (spec_step_frame a o) as (H1 & H2 & H3 & H4 & H5).
    destruct (spec_step a o) as [a1 r1]. cbn [fst] in *.
    destruct (IH a1) as (G1 & G2 & G3 & G4 & G5).
    destruct (spec_run a1 ops) as [a2 rs]. cbn [fst] in *.
    repeat split; try congruence; try lia.
    intros j Hj. inversion Hj; subst. rewrite G5, H5; auto.
Qed.

Lemma ty_final : forall ty d ops, m_ty (final ty d ops) = ty /\ m_default (final ty d ops) = d.
Proof.
  intros. change (m_ty (final ty d ops)) with (sp_ty (abs (final ty d ops))).
  change (m_default (final ty d ops)) with (sp_default (abs (final ty d ops))).
  unfold final. fold (after (m_init ty d) ops). rewrite abs_after by apply wf_init.
  destruct (spec_run_frame ops (abs (m_init ty d))) as (H1 & H2 & _). rewrite H1, H2. auto.
Qed.

(* ---- independence of indices ---- *)
Lemma spec_read_depends : forall a a' j r, is_read_of j r ->
  sp_ty a' = sp_ty a -> N.to_nat j < sp_cap a -> sp_cap a <= sp_cap a' ->
  sm_get (sp_map a') (N.to_nat j) = sm_get (sp_map a) (N.to_nat j) ->
  snd (spec_step a' r) = snd (spec_step a r).
Proof.
  intros a a' j r Hr Hty Hj Hcap Hget.
  destruct r; cbn [is_read_of] in Hr; try contradiction; subst; cbn [spec_step snd];
    unfold sp_get, sp_is_set, sp_is_cleared, sp_get_map, sp_iterate_map, cur_val;
    rewrite ?Hget, ?Hty;
    destruct (Nat.ltb_spec (N.to_nat j) (sp_cap a)); try lia;
    destruct (Nat.ltb_spec (N.to_nat j) (sp_cap a')); try lia; auto.
Qed.

Lemma independence : forall s ops j r, wf s ->
  Forall (fun o => op_index o <> Some j) ops -> in_store s j -> is_read_of j r ->
  reads (after s ops) r = reads s r.
Proof.
  intros s ops j r Hwf Hops Hj Hr. rewrite !reads_abs by (auto; apply wf_after; auto).
  rewrite abs_after by auto.
  destruct (spec_run_frame ops (abs s)) as (H1 & H2 & H3 & H4 & H5).
  apply spec_read_depends with (j := j); auto.
Qed.

(* ---- fresh again after del_key ; add_key ---- *)
Lemma In_sm_put : forall m i x, In (i, x) (sm_put m i x).
Proof.
  induction m as [|[j y] m IH]; intros i x; cbn [sm_put]; [left; auto|].
  destruct (i <? j); [left; auto|]. destruct (j =? i); [left; auto|]. right. apply IH.
Qed.

Lemma fresh_after_del_add : forall s i t, wf s -> m_ty s <> TMapper -> m_default s = VNone ->
  let s2 := exec (exec s (ODelKey i)) (OAddKey i t) in
  reads s2 (OGet i) = RNotSet /\ reads s2 (OIsSet i) = RBool false /\
  reads s2 (OIsCleared i) = RBool false /\
  exists l, reads s2 OIterate = RIter l /\ In (Some (i, t), zero_of (m_ty s), false) l.
Proof.
  intros s i t Hwf Hty Hd s2.
  assert (Hwf1 : wf (exec s (ODelKey i))) by (apply wf_exec; auto).
  assert (Hwf2 : wf s2) by (apply wf_exec; auto).
  assert (Hty1 : m_ty (exec s (ODelKey i)) = m_ty s /\ m_default (exec s (ODelKey i)) = m_default s).
  { change (m_ty (exec s (ODelKey i))) with (sp_ty (abs (exec s (ODelKey i)))).
    change (m_default (exec s (ODelKey i))) with (sp_default (abs (exec s (ODelKey i)))).
    rewrite abs_exec by auto. destruct (spec_step_frame (abs s) (ODelKey i)) as (H1 & H2 & _). auto. }
  destruct Hty1 as [Hty1 Hd1].
  destruct (fresh_nodefault (exec s (ODelKey i)) i t Hwf1) as (G1 & G2 & G3); try congruence.
  fold s2 in G1, G2, G3. repeat split; auto.
  rewrite reads_abs by auto. unfold s2. rewrite !abs_exec by auto.
  cbn [spec_step fst snd]. unfold sp_add_key.
  set (a1 := fst (sp_del_key (abs s) (N.to_nat i))).
  assert (Ety : sp_ty a1 = m_ty s /\ sp_default a1 = m_default s).
  { unfold a1, sp_del_key. destruct (N.to_nat i <? sp_cap (abs s)); auto. }
  destruct Ety as [Ety Ed]. rewrite Ety, Ed, Hd.
  assert (Hcv : cur_val a1 (N.to_nat i) = zero_of (m_ty s)).
  { unfold cur_val. rewrite Ety. unfold a1, sp_del_key.
    destruct (Nat.ltb_spec (N.to_nat i) (sp_cap (abs s))); cbn [fst with_map sp_map].
    - rewrite sm_get_del_eq. auto.
    - rewrite sm_get_abs, cell_at_ge; auto. }
  destruct (m_ty s) eqn:E; try congruence; cbn [is_mapper fst];
    (eexists; split; [reflexivity|]);
    unfold sp_add_base; cbn [sp_map]; rewrite Hcv;
    apply in_map_iff; eexists; (split; [|apply In_sm_put]); reflexivity.
Qed.

(* ---- iterate: exactly the non-cleared slots, in index order ---- *)
Lemma abs_entry : forall s j sl, wf s -> In (j, sl) (sp_map (abs s)) ->
  j < length (m_state s) /\ cell_at s j = Some sl /\ N.to_nat (fst (sl_key sl)) = j.
Proof.
  intros s j sl Hwf Hin. cbn [abs sp_map] in Hin. apply collect_In in Hin. destruct Hin as [Hj Hc].
  split; [lia|]. split; auto.
  destruct (cell_view s j Hwf ltac:(lia)) as (m & v & ko & Em & Ev & Eko & [(-> & -> & Ec)|(Hm & k & -> & Hk & Ec)]);
    rewrite Ec in Hc; inversion Hc; subst; auto.
Qed.

Lemma iterate_exact : forall s, wf s ->
  exists l, reads s OIterate = RIter l /\
    StronglySorted lt (map entry_index l) /\
    Forall (fun e => fst (fst e) <> None) l /\
    (forall i, (exists t v b, In (Some (i, t), v, b) l) <-> reads s (OIsCleared i) = RBool false) /\
    (forall i t v b, In (Some (i, t), v, b) l ->
       reads s (OIsSet i) = RBool b /\
       reads s (OGet i) = if b then RVal (read_as (m_ty s) v) else RNotSet).
Proof.
  intros s Hwf. exists (map (fun p => slot_entry (snd p)) (sp_map (abs s))).
  split; [rewrite reads_abs by auto; reflexivity|].
  assert (Hidx : map entry_index (map (fun p => slot_entry (snd p)) (sp_map (abs s))) = map fst (sp_map (abs s))).
  { rewrite map_map. apply map_ext_in. intros [j sl] Hin. apply abs_entry in Hin; auto.
    unfold entry_index, slot_entry. cbn [fst snd]. tauto. }
  split; [rewrite Hidx; apply collect_sorted|].
  split; [apply Forall_forall; intros e He; apply in_map_iff in He; destruct He as [p [<- _]];
          unfold slot_entry; cbn; discriminate|].
  split.
  - intros i. rewrite reads_abs by auto. cbn [spec_step snd]. unfold sp_is_cleared.
    change (sp_cap (abs s)) with (length (m_state s)). rewrite sm_get_abs. split.
    + intros (t & v & b & Hin). apply in_map_iff in Hin. destruct Hin as [[j sl] [He Hin]].
      apply abs_entry in Hin; auto. destruct Hin as (Hj & Hc & Hk).
      destruct sl as [k0 b0 v0]. unfold slot_entry in He. cbn [snd sl_key sl_val sl_set] in He.
      inversion He; subst k0 v0 b0. cbn [sl_key fst] in Hk.
      subst j. destruct (Nat.ltb_spec (N.to_nat i) (length (m_state s))); [|lia]. rewrite Hc. auto.
    + destruct (Nat.ltb_spec (N.to_nat i) (length (m_state s))) as [Hi|Hi]; [|discriminate].
      destruct (cell_at s (N.to_nat i)) as [sl|] eqn:Ec; [|discriminate]. intros _.
      destruct (cell_view s (N.to_nat i) Hwf Hi) as (m & v & ko & Em & Ev & Eko & [(-> & -> & Ec')|(Hm & k & -> & Hk & Ec')]);
        rewrite Ec' in Ec; inversion Ec; subst.
      destruct k as [i' t]. cbn [fst] in Hk. apply N2Nat.inj in Hk. subst i'.
      exists t, v, (match m with MSet => true | _ => false end).
      apply in_map_iff. exists (N.to_nat i, MkSlot (i, t) (match m with MSet => true | _ => false end) v).
      split; [reflexivity|]. cbn [abs sp_map]. apply In_collect; auto. lia.
  - intros i t v b Hin. apply in_map_iff in Hin. destruct Hin as [[j sl] [He Hin]].
    apply abs_entry in Hin; auto. destruct Hin as (Hj & Hc & Hk).
    destruct sl as [k0 b0 v0]. unfold slot_entry in He. cbn [snd sl_key sl_val sl_set] in He.
    inversion He; subst k0 v0 b0. cbn [sl_key fst] in Hk.
    subst j. rewrite !reads_abs by auto. cbn [spec_step snd]. unfold sp_is_set, sp_get.
    change (sp_cap (abs s)) with (length (m_state s)). rewrite sm_get_abs, Hc.
    destruct (Nat.ltb_spec (N.to_nat i) (length (m_state s))); [|lia]. auto.
Qed.

(* ---- the group-index allocator ---- *)
Definition alloc_ok (a : spec) : Prop :=
  forall j sl d k x, sm_get (sp_map a) j = Some sl -> sl_val sl = VDict d -> In (k, x) d -> (x < sp_next a)%N.

Lemma dict_set_In : forall d k x k' y, In (k', y) (dict_set d k x) -> y = x \/ In (k', y) d.
Proof.
  induction d as [|[k0 y0] d IH]; intros k x k' y H; cbn [dict_set] in H.
  - destruct H as [H|[]]. inversion H; auto.
  - destruct (mkey_eqb k0 k).
    + destruct H as [H|H]; [inversion H; auto|]. right; right; auto.
    + destruct H as [H|H]; [right; left; auto|]. apply IH in H. destruct H; auto. right; right; auto.
Qed.

Lemma alloc_ok_put : forall a i sl nx, alloc_ok a -> (sp_next a <= nx)%N ->
  (forall d k x, sl_val sl = VDict d -> In (k, x) d -> (x < nx)%N) ->
  alloc_ok (MkSpec (sp_ty a) (sp_default a) (sp_cap a) (sm_put (sp_map a) i sl) nx).
Proof.
  intros a i sl nx Hok Hnx Hsl j sl' d k x Hg Hv Hin. cbn [sp_map sp_next] in *.
  destruct (Nat.eq_dec j i) as [->|Hne].
  - rewrite sm_get_put_eq in Hg. inversion Hg; subst. eauto.
  - rewrite sm_get_put_neq in Hg by auto. specialize (Hok j sl' d k x Hg Hv Hin). lia.
Qed.

Lemma alloc_ok_set : forall a i k v, alloc_ok a -> sp_ty a = TMapper ->
  (forall d, v = VDict d -> d = []) -> alloc_ok (fst (sp_set a i k v)).
Proof.
  intros a i k v Hok Hty Hv. unfold sp_set. destruct (i <? sp_cap a); auto.
  rewrite Hty. cbn [arr_conv fst]. unfold with_map. apply alloc_ok_put; auto; [lia|].
  cbn [sl_val]. intros d k0 x E Hin. apply Hv in E. subst. contradiction.
Qed.

Lemma alloc_ok_step : forall a o, alloc_ok a -> sp_ty a = TMapper -> writes_no_dict o ->
  alloc_ok (fst (spec_step a o)).
Proof.
  intros a o Hok Hty Hw. destruct o; cbn [spec_step fst]; auto.
  - unfold sp_add_key. rewrite Hty. cbn [is_mapper]. apply alloc_ok_set.
    + unfold sp_add_base. apply alloc_ok_put; auto; [apply N.le_refl|]. cbn [sl_val]. unfold cur_val.
      intros d k x E Hin. destruct (sm_get (sp_map a) (N.to_nat i)) as [sl|] eqn:Eg.
      * eapply Hok; eauto.
      * exfalso. eapply zero_not_dict; eauto.
    + auto.
    + intros d E. inversion E; auto.
  - apply alloc_ok_set; auto. intros d E. subst. cbn in Hw. contradiction.
  - unfold sp_del_key. destruct (N.to_nat i <? sp_cap a); auto. cbn [fst].
    intros j sl d k x Hg Hv Hin. cbn [with_map sp_map sp_next] in *.
    destruct (Nat.eq_dec j (N.to_nat i)) as [->|Hne].
    + rewrite sm_get_del_eq in Hg. discriminate.
    + rewrite sm_get_del_neq in Hg by auto. eauto.
  - unfold sp_add_map. rewrite Hty. cbn [is_mapper].
    assert (Hmono : alloc_ok (MkSpec (sp_ty a) (sp_default a) (sp_cap a) (sp_map a) (sp_next a + 1))).
    { intros j sl d k0 x Hg Hv Hin. cbn [sp_map sp_next] in *. specialize (Hok j sl d k0 x Hg Hv Hin). lia. }
    destruct (N.to_nat i <? sp_cap a); auto.
    destruct (sm_get (sp_map a) (N.to_nat i)) as [sl|] eqn:Eg; auto.
    destruct (sl_val sl) eqn:Ev; auto. cbn [fst]. unfold with_map. cbn [sp_ty sp_default sp_cap sp_map sp_next].
    apply (alloc_ok_put a (N.to_nat i) _ (sp_next a + 1)%N); auto; [lia|].
    cbn [sl_val]. intros d' k0 x E Hin. inversion E; subst.
    apply dict_set_In in Hin. destruct Hin as [->|Hin]; [lia|].
    specialize (Hok _ _ _ _ _ Eg Ev Hin). lia.
Qed.

Lemma alloc_ok_run : forall ops a, alloc_ok a -> sp_ty a = TMapper -> Forall writes_no_dict ops ->
  alloc_ok (fst (spec_run a ops)).
Proof.
  induction ops as [|o ops IH]; intros a Hok Hty Hw; cbn [spec_run fst]; auto.
  inversion Hw as [|o' ops' Hw1 Hw2]; subst.
  assert (Hok1 := alloc_ok_step a o Hok Hty Hw1).
  destruct (spec_step_frame a o) as (G1 & _).
  destruct (spec_step a o) as [a1 r1]. cbn [fst] in *.
  specialize (IH a1 Hok1 ltac:(congruence) Hw2).
  destruct (spec_run a1 ops) as [a2 rs]. auto.
Qed.

Lemma add_map_fresh : forall ty d ops i k n, Forall writes_no_dict ops ->
  reads (final ty d ops) (OAddMap i k) = RIdx n ->
  forall j k', reads (final ty d ops) (OGetMap j k') <> RIdx n.
Proof.
  intros ty d ops i k n Hw Hadd j k'.
  assert (Hwf := wf_final ty d ops). destruct (ty_final ty d ops) as [Hty _].
  rewrite reads_abs in * by auto. cbn [spec_step snd] in *.
  unfold sp_add_map in Hadd. change (sp_ty (abs (final ty d ops))) with (m_ty (final ty d ops)) in Hadd.
  rewrite Hty in Hadd. destruct ty; cbn [is_mapper snd] in Hadd; try discriminate.
  assert (Hok : alloc_ok (abs (final TMapper d ops))).
  { unfold final. fold (after (m_init TMapper d) ops). rewrite abs_after by apply wf_init.
    apply alloc_ok_run; auto. intros j0 sl d0 k0 x Hg. cbn in Hg. discriminate. }
  set (a := abs (final TMapper d ops)) in *.
  assert (Hn : n = sp_next a).
  { destruct (N.to_nat i <? sp_cap a); [|discriminate].
    destruct (sm_get (sp_map a) (N.to_nat i)) as [sl|]; [|discriminate].
    destruct (sl_val sl); try discriminate. cbn [snd] in Hadd. inversion Hadd; auto. }
  unfold sp_get_map, cur_val. destruct (N.to_nat j <? sp_cap a); [|discriminate].
  destruct (sm_get (sp_map a) (N.to_nat j)) as [sl|] eqn:Eg.
  - destruct (sl_val sl) eqn:Ev; cbn [map_read]; try discriminate.
    destruct (dict_get d0 k') as [x|] eqn:Ed; [|discriminate].
    intro E. inversion E; subst x.
    assert (Hin : In (k', n) d0 \/ True) by auto.
    assert (exists k0, In (k0, n) d0) as [k0 Hk0].
    { clear -Ed. induction d0 as [|[k0 y] d0 IH]; cbn [dict_get] in Ed; [discriminate|].
      destruct (mkey_eqb k0 k').
      - inversion Ed; subst. exists k0. left; auto.
      - destruct (IH Ed) as [k1 H]. exists k1. right; auto. }
    specialize (Hok _ _ _ _ _ Eg Ev Hk0). lia.
  - assert (Hz := zero_not_dict (sp_ty a)).
    destruct (zero_of (sp_ty a)); cbn [map_read]; try discriminate. exfalso; eapply Hz; eauto.
Qed.

Lemma handed_out_sorted : forall ops a,
  let rs := snd (spec_run a ops) in
  StronglySorted N.lt (handed_out ops rs) /\ Forall (fun n => (sp_next a <= n)%N) (handed_out ops rs).
Proof.
  induction ops as [|o ops IH]; intros a; cbn [spec_run snd handed_out].
  - split; constructor.
  - destruct (spec_step_frame a o) as (_ & _ & _ & Hnx & _).
    assert (Hidx : forall i k n, o = OAddMap i k -> snd (spec_step a o) = RIdx n ->
                     n = sp_next a /\ sp_next (fst (spec_step a o)) = (n + 1)%N).
    { intros i k n -> H. cbn [spec_step] in *. unfold sp_add_map in *.
      destruct (is_mapper (sp_ty a)); [|discriminate].
      destruct (N.to_nat i <? sp_cap a); [|discriminate].
      destruct (sm_get (sp_map a) (N.to_nat i)) as [sl|]; [|discriminate].
      destruct (sl_val sl); try discriminate. cbn [fst snd] in *. inversion H; subst. auto. }
    destruct (spec_step a o) as [a1 r1]. cbn [fst snd] in *.
    destruct (IH a1) as [IH1 IH2].
    destruct (spec_run a1 ops) as [a2 rs]. cbn [snd] in *.
    assert (Hrest : StronglySorted N.lt (handed_out ops rs) /\
                    Forall (fun n => (sp_next a <= n)%N) (handed_out ops rs)).
    { split; auto. eapply Forall_impl; [|apply IH2]. cbn. intros; lia. }
    destruct o; cbn [handed_out]; auto.
    destruct r1; auto.
    destruct (Hidx i k n eq_refl eq_refl) as [-> Hn1].
    split.
    + constructor; auto. eapply Forall_impl; [|apply IH2]. cbn. intros; lia.
    + constructor; [lia|]. eapply Forall_impl; [|apply IH2]. cbn. intros; lia.
Qed.

Lemma handed_out_increasing : forall ty d ops,
  StronglySorted N.lt (handed_out ops (results ty d ops)).
Proof.
  intros. destruct (refinement ty d ops) as [-> _]. apply handed_out_sorted.
Qed.

(* ---- iterate_map: the mapped keys, in first-insertion order ---- *)
Lemma zs_eqb_eq : forall a b : list Z, zs_eqb a b = true <-> a = b.
Proof.
  unfold zs_eqb. induction a as [|x a IH]; intros [|y b]; cbn [list_eqb]; split; intro H;
    try discriminate; auto.
  - apply andb_true_iff in H. destruct H as [H1 H2]. apply Z.eqb_eq in H1. apply IH in H2. congruence.
  - inversion H; subst. rewrite Z.eqb_refl. cbn. apply IH. auto.
Qed.
Lemma mkey_eqb_eq : forall a b, mkey_eqb a b = true <-> a = b.
Proof.
  intros [x|x] [y|y]; cbn [mkey_eqb]; split; intro H; try discriminate; try congruence.
  - apply Z.eqb_eq in H. congruence.
  - inversion H. apply Z.eqb_refl.
  - apply zs_eqb_eq in H. congruence.
  - inversion H. apply zs_eqb_eq. auto.
Qed.

Definition dedup_step (acc : list mkey) (k : mkey) : list mkey :=
  if existsb (fun k' => mkey_eqb k' k) acc then acc else acc ++ [k].

Lemma dict_set_keys : forall d k x, map fst (dict_set d k x) = dedup_step (map fst d) k.
Proof.
  unfold dedup_step. induction d as [|[k0 y] d IH]; intros k x; cbn [dict_set map fst existsb]; auto.
  destruct (mkey_eqb k0 k); cbn [orb map fst]; auto.
  rewrite IH. destruct (existsb (fun k' => mkey_eqb k' k) (map fst d)); auto.
Qed.

Lemma existsb_mkey : forall acc k, existsb (fun k' => mkey_eqb k' k) acc = true <-> In k acc.
Proof.
  intros. rewrite existsb_exists. split.
  - intros [x [Hin He]]. apply mkey_eqb_eq in He. subst. auto.
  - intros H. exists k. split; auto. apply mkey_eqb_eq. auto.
Qed.

Lemma NoDup_snoc : forall (l : list mkey) x, NoDup l -> ~ In x l -> NoDup (l ++ [x]).
Proof.
  induction l as [|y l IH]; intros x Hnd Hx; cbn [app].
  - constructor; [intros []|constructor].
  - inversion Hnd; subst. constructor.
    + rewrite in_app_iff. cbn [In]. intros [H|[H|[]]]; [auto|]. subst. apply Hx. left; auto.
    + apply IH; auto. intro H. apply Hx. right; auto.
Qed.

Lemma dedup_fold_spec : forall ks acc, NoDup acc ->
  NoDup (fold_left dedup_step ks acc) /\
  (forall k, In k (fold_left dedup_step ks acc) <-> In k acc \/ In k ks).
Proof.
  induction ks as [|k0 ks IH]; intros acc Hnd; cbn [fold_left].
  - split; auto. intros; cbn; tauto.
  - assert (Hnd' : NoDup (dedup_step acc k0)).
    { unfold dedup_step. destruct (existsb (fun k' => mkey_eqb k' k0) acc) eqn:E; auto.
      apply NoDup_snoc; auto. intro Hx. apply existsb_mkey in Hx. congruence. }
    destruct (IH _ Hnd') as [H1 H2]. split; auto.
    intros k. rewrite H2. unfold dedup_step.
    destruct (existsb (fun k' => mkey_eqb k' k0) acc) eqn:E.
    + apply existsb_mkey in E. cbn [In]. split; [tauto|]. intros [H|[<-|H]]; auto.
    + rewrite in_app_iff. cbn [In]. tauto.
Qed.

Lemma dedup_spec : forall ks, NoDup (dedup ks) /\ (forall k, In k (dedup ks) <-> In k ks).
Proof.
  intros ks. destruct (dedup_fold_spec ks [] (NoDup_nil _)) as [H1 H2]. split; auto.
  intros k. unfold dedup. fold dedup_step. rewrite (H2 k). cbn; tauto.
Qed.

Lemma add_maps_spec : forall ks a i sl d, sp_ty a = TMapper -> N.to_nat i < sp_cap a ->
  sm_get (sp_map a) (N.to_nat i) = Some sl -> sl_val sl = VDict d ->
  sp_iterate_map (fst (spec_run a (map (OAddMap i) ks))) (N.to_nat i) =
  RKeys (fold_left dedup_step ks (map fst d)).
Proof.
  induction ks as [|k ks IH]; intros a i sl d Hty Hi Hg Hv; cbn [map spec_run fst fold_left].
  - unfold sp_iterate_map, cur_val. destruct (Nat.ltb_spec (N.to_nat i) (sp_cap a)); [|lia].
    rewrite Hg, Hv. auto.
  - cbn [spec_step]. unfold sp_add_map at 1. rewrite Hty. cbn [is_mapper].
    destruct (Nat.ltb_spec (N.to_nat i) (sp_cap a)); [|lia]. rewrite Hg, Hv.
    set (a1 := with_map _ _).
    assert (Hty1 : sp_ty a1 = TMapper) by reflexivity.
    assert (Hi1 : N.to_nat i < sp_cap a1) by exact Hi.
    assert (Hg1 : sm_get (sp_map a1) (N.to_nat i) =
                  Some (MkSlot (sl_key sl) (sl_set sl) (VDict (dict_set d k (sp_next a))))).
    { unfold a1. cbn [with_map sp_map]. apply sm_get_put_eq. }
    pose proof (IH a1 i _ _ Hty1 Hi1 Hg1 eq_refl) as IH1. rewrite dict_set_keys in IH1.
    cbn [fst]. destruct (spec_run a1 (map (OAddMap i) ks)) as [a2 rs]. cbn [fst] in *. exact IH1.
Qed.

Lemma iterate_map_exact : forall s i t ks, wf s -> m_ty s = TMapper ->
  reads (after (exec s (OAddKey i t)) (map (OAddMap i) ks)) (OIterateMap i) = RKeys (dedup ks).
Proof.
  intros s i t ks Hwf Hty.
  assert (Hwf1 : wf (exec s (OAddKey i t))) by (apply wf_exec; auto).
  rewrite reads_abs by (apply wf_after; auto). rewrite abs_after, abs_exec by auto.
  cbn [spec_step snd]. cbn [spec_step fst]. unfold sp_add_key.
  change (sp_ty (abs s)) with (m_ty s). rewrite Hty. cbn [is_mapper].
  set (b := sp_add_base (abs s) (N.to_nat i) (i, t)).
  destruct (sp_add_base_fresh (abs s) (N.to_nat i) (i, t)) as (Hcap & Hty' & _). fold b in Hcap, Hty'.
  change (sp_ty (abs s)) with (m_ty s) in Hty'. rewrite Hty in Hty'.
  destruct (sp_set_frame b (N.to_nat i) (i, t) (VDict [])) as (F1 & F2 & F3 & F4 & F5).
  set (a1 := fst (sp_set b (N.to_nat i) (i, t) (VDict []))) in *.
  assert (Hg : sm_get (sp_map a1) (N.to_nat i) = Some (MkSlot (i, t) true (VDict []))).
  { unfold a1, sp_set. destruct (Nat.ltb_spec (N.to_nat i) (sp_cap b)); [|lia].
    rewrite Hty'. cbn [arr_conv fst with_map sp_map]. apply sm_get_put_eq. }
  rewrite (add_maps_spec ks a1 i _ [] ltac:(congruence) ltac:(lia) Hg eq_refl).
  reflexivity.
Qed.

(* ======================================================================================== *)
(* 6. the statements of props/C14.v, over every history from the empty store *)
Lemma T_refinement_step : forall ty d ops o,
  abs (exec (final ty d ops) o) = fst (spec_step (abs (final ty d ops)) o) /\
  reads (final ty d ops) o = snd (spec_step (abs (final ty d ops)) o).
Proof. intros. split; [apply abs_exec|apply reads_abs]; apply wf_final. Qed.

Lemma add_key_returns : forall s i t v, wf s ->
  (m_ty s = TMapper \/ m_default s = VNone \/ arr_conv (m_ty s) (m_default s) = inl v) ->
  reads s (OAddKey i t) = RUnit.
Proof.
  intros s i t v Hwf H. rewrite reads_abs by auto. cbn [spec_step snd]. unfold sp_add_key.
  change (sp_ty (abs s)) with (m_ty s). change (sp_default (abs s)) with (m_default s).
  destruct (sp_add_base_fresh (abs s) (N.to_nat i) (i, t)) as (Hcap & Hty' & _).
  change (sp_ty (abs s)) with (m_ty s) in Hty'.
  destruct (is_mapper (m_ty s)) eqn:Em.
  - destruct (sp_set_ok (sp_add_base (abs s) (N.to_nat i) (i, t)) (N.to_nat i) (i, t) (VDict []) (VDict []) Hcap)
      as [Hr _]; auto.
    rewrite Hty'. destruct (m_ty s); try discriminate. auto.
  - destruct H as [H|[H|H]].
    + rewrite H in Em. discriminate.
    + rewrite H. auto.
    + destruct (sp_set_ok (sp_add_base (abs s) (N.to_nat i) (i, t)) (N.to_nat i) (i, t) (m_default s) v Hcap)
        as [Hr _]; [rewrite Hty'; auto|].
      destruct (m_default s); auto.
Qed.

Lemma T_fresh_nodefault : forall ty ops i t, ty <> TMapper ->
  let s1 := exec (final ty VNone ops) (OAddKey i t) in
  reads (final ty VNone ops) (OAddKey i t) = RUnit /\
  reads s1 (OGet i) = RNotSet /\ reads s1 (OIsSet i) = RBool false /\ reads s1 (OIsCleared i) = RBool false.
Proof.
  intros ty ops i t Hty s1. destruct (ty_final ty VNone ops) as [E1 E2].
  split; [apply add_key_returns with (v := VNone); [apply wf_final|auto]|].
  apply fresh_nodefault; [apply wf_final|congruence|auto].
Qed.

Lemma T_fresh_default : forall ty d ops i t v, ty <> TMapper -> d <> VNone -> arr_conv ty d = inl v ->
  let s1 := exec (final ty d ops) (OAddKey i t) in
  reads (final ty d ops) (OAddKey i t) = RUnit /\
  reads s1 (OGet i) = RVal (read_as ty v) /\ reads s1 (OIsSet i) = RBool true /\
  reads s1 (OIsCleared i) = RBool false.
Proof.
  intros ty d ops i t v Hty Hd Hc s1. destruct (ty_final ty d ops) as [E1 E2].
  assert (H := fresh_default (final ty d ops) i t v (wf_final ty d ops)). rewrite E1, E2 in H. apply H; auto.
Qed.

Lemma T_fresh_mapper : forall d ops i t,
  let s1 := exec (final TMapper d ops) (OAddKey i t) in
  reads (final TMapper d ops) (OAddKey i t) = RUnit /\
  reads s1 (OGet i) = RVal (VDict []) /\ reads s1 (OIsSet i) = RBool true /\
  reads s1 (OIsCleared i) = RBool false /\ reads s1 (OIterateMap i) = RKeys [].
Proof.
  intros d ops i t s1. destruct (ty_final TMapper d ops) as [E1 E2].
  apply fresh_mapper; [apply wf_final|auto].
Qed.

Lemma T_read_your_write : forall ty d ops i t v v', in_store (final ty d ops) i -> arr_conv ty v = inl v' ->
  let s1 := exec (final ty d ops) (OSet i t v) in
  reads (final ty d ops) (OSet i t v) = RUnit /\
  reads s1 (OGet i) = RVal (read_as ty v') /\ reads s1 (OIsSet i) = RBool true /\
  reads s1 (OIsCleared i) = RBool false.
Proof.
  intros ty d ops i t v v' Hi Hc s1. destruct (ty_final ty d ops) as [E1 E2].
  assert (H := read_your_write (final ty d ops) i t v v' (wf_final ty d ops) Hi). rewrite E1 in H. apply H; auto.
Qed.

Lemma T_fresh_after_del_add : forall ty ops i t, ty <> TMapper ->
  let s2 := exec (exec (final ty VNone ops) (ODelKey i)) (OAddKey i t) in
  reads s2 (OGet i) = RNotSet /\ reads s2 (OIsSet i) = RBool false /\
  reads s2 (OIsCleared i) = RBool false /\
  exists l, reads s2 OIterate = RIter l /\ In (Some (i, t), zero_of ty, false) l.
Proof.
  intros ty ops i t Hty s2. destruct (ty_final ty VNone ops) as [E1 E2].
  assert (H := fresh_after_del_add (final ty VNone ops) i t (wf_final ty VNone ops)). rewrite E1, E2 in H.
  apply H; auto.
Qed.

Lemma T_independence : forall ty d ops more j r,
  Forall (fun o => op_index o <> Some j) more -> in_store (final ty d ops) j -> is_read_of j r ->
  reads (after (final ty d ops) more) r = reads (final ty d ops) r.
Proof. intros. apply independence with (j := j); auto. apply wf_final. Qed.

Lemma T_iterate_exact : forall ty d ops,
  exists l, reads (final ty d ops) OIterate = RIter l /\
    StronglySorted lt (map entry_index l) /\
    Forall (fun e => fst (fst e) <> None) l /\
    (forall i, (exists t v b, In (Some (i, t), v, b) l) <-> reads (final ty d ops) (OIsCleared i) = RBool false) /\
    (forall i t v b, In (Some (i, t), v, b) l ->
       reads (final ty d ops) (OIsSet i) = RBool b /\
       reads (final ty d ops) (OGet i) = if b then RVal (read_as ty v) else RNotSet).
Proof.
  intros ty d ops. destruct (ty_final ty d ops) as [E1 E2].
  destruct (iterate_exact (final ty d ops) (wf_final ty d ops)) as (l & H). rewrite E1 in H. eauto.
Qed.

Lemma T_iterate_map_exact : forall d ops i t ks,
  reads (after (exec (final TMapper d ops) (OAddKey i t)) (map (OAddMap i) ks)) (OIterateMap i)
  = RKeys (dedup ks).
Proof.
  intros. destruct (ty_final TMapper d ops) as [E1 E2]. apply iterate_map_exact; auto. apply wf_final.
Qed.

(* reads of an index inside the store never raise; del_key neither *)
Lemma T_no_error_in_store : forall ty d ops i, in_store (final ty d ops) i ->
  (forall e, reads (final ty d ops) (OGet i) <> RErr e) /\
  (forall e, reads (final ty d ops) (OIsSet i) <> RErr e) /\
  (forall e, reads (final ty d ops) (OIsCleared i) <> RErr e) /\
  reads (final ty d ops) (ODelKey i) = RUnit.
Proof.
  intros ty d ops i Hi. assert (Hwf := wf_final ty d ops). rewrite !reads_abs by auto.
  cbn [spec_step snd]. unfold sp_get, sp_is_set, sp_is_cleared, sp_del_key.
  change (sp_cap (abs (final ty d ops))) with (length (m_state (final ty d ops))).
  unfold in_store in Hi. destruct (Nat.ltb_spec (N.to_nat i) (length (m_state (final ty d ops)))); [|lia].
  repeat split; auto; intros e; try discriminate.
  destruct (sm_get _ _) as [sl|]; [destruct (sl_set sl)|]; discriminate.
Qed.
