(* Proofs about the literal MemoryStore model (MemStore.v) and its specification (StoreSpec.v). *)
From Coq Require Import List ZArith NArith Bool Arith Lia Sorted.
From RxVerif Require Import Base.Corr Store.MemStore Store.StoreSpec.
Import ListNotations.

(* ======================================================================================== *)
(* 1. lists *)
Lemma length_upd : forall A (l : list A) i x, length (upd l i x) = length l.
Proof. induction l as [|h t IH]; intros [|i] x; cbn; auto. Qed.

Lemma nth_error_upd_eq : forall A (l : list A) i x, i < length l -> nth_error (upd l i x) i = Some x.
Proof.
  induction l as [|h t IH]; intros [|i] x H; cbn in *; try lia; auto. apply IH. lia.
Qed.

Lemma nth_error_upd_neq : forall A (l : list A) i j x, j <> i -> nth_error (upd l i x) j = nth_error l j.
Proof.
  induction l as [|h t IH]; intros [|i] [|j] x H; cbn; auto; try congruence.
Qed.

Lemma nth_error_repeat' : forall A (x : A) n j,
  nth_error (repeat x n) j = if j <? n then Some x else None.
Proof.
  induction n as [|n IH]; intros [|j]; cbn [repeat nth_error]; auto. rewrite IH.
  destruct (Nat.ltb_spec j n), (Nat.ltb_spec (S j) (S n)); auto; lia.
Qed.

Lemma nth_error_grow : forall A (l : list A) x n j,
  nth_error (l ++ repeat x n) j =
  if j <? length l then nth_error l j else if j <? length l + n then Some x else None.
Proof.
  intros. destruct (Nat.ltb_spec j (length l)) as [H|H].
  - apply nth_error_app1; auto.
  - rewrite nth_error_app2 by auto. rewrite nth_error_repeat'.
    destruct (Nat.ltb_spec (j - length l) n), (Nat.ltb_spec j (length l + n)); auto; lia.
Qed.

Lemma nth_error_None_ge : forall A (l : list A) j, length l <= j -> nth_error l j = None.
Proof. intros. apply nth_error_None. auto. Qed.

Lemma nth_error_lt_Some : forall A (l : list A) j, j < length l -> exists x, nth_error l j = Some x.
Proof.
  intros A l j H. destruct (nth_error l j) eqn:E; eauto.
  apply nth_error_None in E. lia.
Qed.

Lemma setitem_lt : forall A (l : list A) i x, i < length l -> setitem l i x = Some (upd l i x).
Proof. intros. unfold setitem. destruct (Nat.ltb_spec i (length l)); auto; lia. Qed.
Lemma setitem_ge : forall A (l : list A) i x, length l <= i -> setitem l i x = None.
Proof. intros. unfold setitem. destruct (Nat.ltb_spec i (length l)); auto; lia. Qed.

(* ======================================================================================== *)
(* 2. the sorted finite map and `collect` *)
Definition fupd (f : nat -> option slot) (i : nat) (x : option slot) : nat -> option slot :=
  fun j => if j =? i then x else f j.

Lemma collect_ext : forall f g n lo,
  (forall j, lo <= j < lo + n -> f j = g j) -> collect f lo n = collect g lo n.
Proof.
  induction n as [|n IH]; intros lo H; cbn; auto.
  rewrite <- (H lo) by lia. rewrite (IH (S lo)); auto. intros; apply H; lia.
Qed.

Lemma collect_none : forall f n lo, (forall j, lo <= j < lo + n -> f j = None) -> collect f lo n = [].
Proof.
  induction n as [|n IH]; intros lo H; cbn; auto.
  rewrite (H lo) by lia. apply IH. intros; apply H; lia.
Qed.

Lemma collect_app : forall f n k lo, collect f lo (n + k) = collect f lo n ++ collect f (lo + n) k.
Proof.
  induction n as [|n IH]; intros k lo; cbn.
  - rewrite Nat.add_0_r. auto.
  - rewrite IH. replace (S lo + n) with (lo + S n) by lia. destruct (f lo); auto.
Qed.

Lemma collect_In : forall f n lo j x, In (j, x) (collect f lo n) -> lo <= j < lo + n /\ f j = Some x.
Proof.
  induction n as [|n IH]; intros lo j x H; cbn in H; [tauto|].
  destruct (f lo) eqn:E.
  - destruct H as [H|H].
    + inversion H; subst. split; [lia|auto].
    + apply IH in H. split; [lia|tauto].
  - apply IH in H. split; [lia|tauto].
Qed.

Lemma In_collect : forall f n lo j x, lo <= j < lo + n -> f j = Some x -> In (j, x) (collect f lo n).
Proof.
  induction n as [|n IH]; intros lo j x H E; [lia|]. cbn.
  destruct (Nat.eq_dec j lo) as [->|Hne].
  - rewrite E. left; auto.
  - assert (In (j, x) (collect f (S lo) n)) by (apply IH; auto; lia).
    destruct (f lo); [right|]; auto.
Qed.

Ltac bdestr :=
  repeat match goal with
         | |- context [?a <=? ?b] => destruct (Nat.leb_spec a b)
         | |- context [?a <? ?b] => destruct (Nat.ltb_spec a b)
         | |- context [?a =? ?b] => destruct (Nat.eqb_spec a b)
         end; cbn [andb orb negb]; try lia; auto.

Lemma sm_get_collect : forall f n lo i,
  sm_get (collect f lo n) i = if (lo <=? i) && (i <? lo + n) then f i else None.
Proof.
  induction n as [|n IH]; intros lo i; cbn [collect sm_get].
  - bdestr.
  - destruct (f lo) eqn:E; cbn [sm_get].
    + destruct (Nat.eqb_spec lo i) as [->|Hne].
      * bdestr.
      * rewrite IH. bdestr.
    + rewrite IH. bdestr. assert (i = lo) by lia. subst. auto.
Qed.

Lemma sm_put_below : forall (m : smap) i x, (forall j y, In (j, y) m -> i < j) -> sm_put m i x = (i, x) :: m.
Proof.
  intros [|[j y] m] i x H; cbn [sm_put]; auto.
  assert (i < j) by (apply (H j y); left; auto).
  destruct (Nat.ltb_spec i j); auto; lia.
Qed.

Lemma sm_put_collect : forall f x n lo i, lo <= i < lo + n ->
  sm_put (collect f lo n) i x = collect (fupd f i (Some x)) lo n.
Proof.
  induction n as [|n IH]; intros lo i H; [lia|]. cbn [collect]. unfold fupd at 1.
  destruct (Nat.eqb_spec lo i) as [->|Hne].
  - rewrite (collect_ext (fupd f i (Some x)) f n (S i)).
    2:{ intros j Hj. unfold fupd. destruct (Nat.eqb_spec j i); auto; lia. }
    destruct (f i) eqn:E; cbn [sm_put].
    + rewrite Nat.ltb_irrefl, Nat.eqb_refl. auto.
    + apply sm_put_below. intros j y Hin. apply collect_In in Hin. lia.
  - destruct (f lo) eqn:E; cbn [sm_put].
    + destruct (Nat.ltb_spec i lo); [lia|]. destruct (Nat.eqb_spec lo i); [lia|].
      rewrite IH by lia. auto.
    + apply IH. lia.
Qed.

Lemma sm_del_collect : forall f n lo i, sm_del (collect f lo n) i = collect (fupd f i None) lo n.
Proof.
  induction n as [|n IH]; intros lo i; cbn [collect]; auto. unfold fupd at 1.
  destruct (Nat.eqb_spec lo i) as [->|Hne].
  - destruct (f i); unfold sm_del; cbn [filter fst]; [rewrite Nat.eqb_refl; cbn [negb]|]; apply IH.
  - destruct (f lo); [|apply IH]. unfold sm_del; cbn [filter fst].
    destruct (Nat.eqb_spec lo i); [lia|]. cbn [negb]. f_equal. apply IH.
Qed.

Lemma collect_sorted : forall f n lo, StronglySorted lt (map fst (collect f lo n)).
Proof.
  induction n as [|n IH]; intros lo; cbn [collect map]; [constructor|].
  destruct (f lo); cbn [map fst]; auto. constructor; auto.
  apply Forall_forall. intros j Hj. apply in_map_iff in Hj. destruct Hj as [[j' y] [<- Hin]].
  apply collect_In in Hin. cbn [fst]. lia.
Qed.

Lemma collect_shift : forall f g n lo, (forall j, f (S j) = g j) ->
  map snd (collect f (S lo) n) = map snd (collect g lo n).
Proof.
  induction n as [|n IH]; intros lo H; cbn [collect map]; auto.
  rewrite H. destruct (g lo); cbn [map snd]; rewrite IH; auto.
Qed.

Lemma sm_get_put_eq : forall m i x, sm_get (sm_put m i x) i = Some x.
Proof.
  induction m as [|[j y] m IH]; intros i x; cbn [sm_put sm_get].
  - rewrite Nat.eqb_refl; auto.
  - destruct (Nat.ltb_spec i j); cbn [sm_get]; [rewrite Nat.eqb_refl; auto|].
    destruct (Nat.eqb_spec j i); cbn [sm_get]; [rewrite Nat.eqb_refl; auto|].
    destruct (Nat.eqb_spec j i); [lia|]. apply IH.
Qed.
Lemma sm_get_put_neq : forall m i j x, j <> i -> sm_get (sm_put m i x) j = sm_get m j.
Proof.
  induction m as [|[h y] m IH]; intros i j x H; cbn [sm_put sm_get].
  - destruct (Nat.eqb_spec i j); auto; lia.
  - destruct (Nat.ltb_spec i h); cbn [sm_get].
    + destruct (Nat.eqb_spec i j); auto; lia.
    + destruct (Nat.eqb_spec h i); cbn [sm_get].
      * subst. destruct (Nat.eqb_spec i j); auto; lia.
      * destruct (Nat.eqb_spec h j); auto.
Qed.
Lemma sm_get_del_eq : forall m i, sm_get (sm_del m i) i = None.
Proof.
  induction m as [|[h y] m IH]; intros i; unfold sm_del; cbn [filter fst sm_get]; auto.
  destruct (Nat.eqb_spec h i); cbn [negb sm_get]; [apply IH|].
  destruct (Nat.eqb_spec h i); [lia|]. apply IH.
Qed.
Lemma sm_get_del_neq : forall m i j, j <> i -> sm_get (sm_del m i) j = sm_get m j.
Proof.
  induction m as [|[h y] m IH]; intros i j H; unfold sm_del; cbn [filter fst sm_get]; auto.
  destruct (Nat.eqb_spec h i); cbn [negb sm_get].
  - subst. destruct (Nat.eqb_spec i j); [lia|]. apply IH; auto.
  - destruct (Nat.eqb_spec h j); auto. apply IH; auto.
Qed.

(* ======================================================================================== *)
(* 3. the invariant of the literal model *)
Definition wf (s : mstore) : Prop :=
  length (m_values s) = length (m_state s) /\
  length (m_keys s) = length (m_state s) /\
  (forall i, nth_error (m_state s) i = Some MCleared ->
             nth_error (m_values s) i = Some (zero_of (m_ty s))) /\
  (forall i m, nth_error (m_state s) i = Some m -> m <> MCleared ->
               exists k, nth_error (m_keys s) i = Some (Some k)) /\
  (forall i k, nth_error (m_keys s) i = Some (Some k) -> N.to_nat (fst k) = i) /\
  m_free s = [].

Lemma wf_init : forall ty d, wf (m_init ty d).
Proof.
  intros. unfold wf, m_init; cbn. repeat split; auto; intros [|i]; cbn; intros; discriminate.
Qed.

Lemma cell_at_ge : forall s i, length (m_state s) <= i -> cell_at s i = None.
Proof. intros. unfold cell_at, cell3. rewrite nth_error_None_ge; auto. Qed.

Lemma cell_view : forall s i, wf s -> i < length (m_state s) ->
  exists m v ko,
    nth_error (m_state s) i = Some m /\ nth_error (m_values s) i = Some v /\
    nth_error (m_keys s) i = Some ko /\
    ((m = MCleared /\ v = zero_of (m_ty s) /\ cell_at s i = None) \/
     (m <> MCleared /\ exists k, ko = Some k /\ N.to_nat (fst k) = i /\
        cell_at s i = Some (MkSlot k (match m with MSet => true | _ => false end) v))).
Proof.
  intros s i (Hlv & Hlk & Hz & Hk & Hki & _) Hi.
  destruct (nth_error_lt_Some _ (m_state s) i Hi) as [m Em].
  destruct (nth_error_lt_Some _ (m_values s) i ltac:(lia)) as [v Ev].
  destruct (nth_error_lt_Some _ (m_keys s) i ltac:(lia)) as [ko Eko].
  exists m, v, ko. repeat split; auto.
  destruct m.
  - right. split; [discriminate|]. destruct (Hk i MNotSet Em ltac:(discriminate)) as [k Ek].
    exists k. rewrite Ek in Eko. inversion Eko; subst. repeat split; auto.
    unfold cell_at, cell3. rewrite Em, Ek, Ev. auto.
  - right. split; [discriminate|]. destruct (Hk i MSet Em ltac:(discriminate)) as [k Ek].
    exists k. rewrite Ek in Eko. inversion Eko; subst. repeat split; auto.
    unfold cell_at, cell3. rewrite Em, Ek, Ev. auto.
  - left. repeat split; auto.
    + rewrite (Hz i Em) in Ev. inversion Ev; auto.
    + unfold cell_at, cell3. rewrite Em. auto.
Qed.

Lemma sm_get_abs : forall s i, sm_get (sp_map (abs s)) i = cell_at s i.
Proof.
  intros. unfold abs; cbn [sp_map]. rewrite sm_get_collect. cbn [Nat.leb andb Nat.add].
  destruct (Nat.ltb_spec i (length (m_state s))); auto. symmetry. apply cell_at_ge. auto.
Qed.

Lemma cur_val_abs : forall s i, wf s -> i < length (m_state s) ->
  nth_error (m_values s) i = Some (cur_val (abs s) i).
Proof.
  intros s i Hwf Hi. unfold cur_val. rewrite sm_get_abs.
  destruct (cell_view s i Hwf Hi) as (m & v & ko & Em & Ev & Eko & [(-> & -> & Ec)|(Hm & k & -> & Hk & Ec)]);
    rewrite Ec; auto.
Qed.

Lemma cur_val_abs_ge : forall s i, length (m_state s) <= i -> cur_val (abs s) i = zero_of (m_ty s).
Proof. intros. unfold cur_val. rewrite sm_get_abs, cell_at_ge; auto. Qed.

Lemma abs_eq : forall s' ty d cap m nx,
  m_ty s' = ty -> m_default s' = d -> length (m_state s') = cap -> m_next s' = nx ->
  collect (cell_at s') 0 (length (m_state s')) = m -> abs s' = MkSpec ty d cap m nx.
Proof. intros s' ty d cap m nx H1 H2 H3 H4 H5. unfold abs. rewrite H5, H1, H2, H3, H4. auto. Qed.

Lemma abs_put : forall s vs st ks i x,
  length st = length (m_state s) -> i < length st ->
  (forall j, j <> i -> cell3 vs st ks j = cell_at s j) -> cell3 vs st ks i = Some x ->
  collect (cell3 vs st ks) 0 (length st) = sm_put (sp_map (abs s)) i x.
Proof.
  intros s vs st ks i x Hl Hi Hne He. unfold abs; cbn [sp_map]. rewrite <- Hl.
  rewrite sm_put_collect by lia. apply collect_ext. intros j Hj. unfold fupd.
  destruct (Nat.eqb_spec j i); subst; auto.
Qed.

Lemma abs_del : forall s vs st ks i,
  length st = length (m_state s) ->
  (forall j, j <> i -> cell3 vs st ks j = cell_at s j) -> cell3 vs st ks i = None ->
  collect (cell3 vs st ks) 0 (length st) = sm_del (sp_map (abs s)) i.
Proof.
  intros s vs st ks i Hl Hne He. unfold abs; cbn [sp_map]. rewrite <- Hl.
  rewrite sm_del_collect. apply collect_ext. intros j Hj. unfold fupd.
  destruct (Nat.eqb_spec j i); subst; auto.
Qed.

(* cells of a store whose three lists were updated at position i *)
Lemma cell3_upd_neq : forall vs st ks vs' st' ks' i j,
  nth_error vs' j = nth_error vs j -> nth_error st' j = nth_error st j ->
  nth_error ks' j = nth_error ks j -> i <> j -> cell3 vs' st' ks' j = cell3 vs st ks j.
Proof. intros. unfold cell3. rewrite H, H0, H1. auto. Qed.

(* ======================================================================================== *)
(* 4. every operation of the model refines the specification *)

Lemma m_set_nf : forall s i k v, wf s -> i < length (m_state s) ->
  m_set s i k v =
  match arr_conv (m_ty s) v with
  | inl v' => (with_lists s (upd (m_values s) i v') (upd (m_state s) i MSet) (upd (m_keys s) i (Some k)), RUnit)
  | inr e => (with_lists s (m_values s) (upd (m_state s) i MSet) (upd (m_keys s) i (Some k)), RErr e)
  end.
Proof.
  intros s i k v (Hlv & Hlk & _) Hi. unfold m_set.
  rewrite setitem_lt by lia. rewrite setitem_lt by lia.
  destruct (Nat.ltb_spec i (length (m_values s))); [|lia]. auto.
Qed.

Lemma m_set_ge : forall s i k v, wf s -> length (m_state s) <= i -> m_set s i k v = (s, RErr IndexError).
Proof.
  intros s i k v (Hlv & Hlk & _) Hi. unfold m_set. rewrite setitem_ge by lia. auto.
Qed.

Lemma wf_set : forall s i k vs, wf s -> i < length (m_state s) -> N.to_nat (fst k) = i ->
  length vs = length (m_values s) ->
  (forall j, j <> i -> nth_error vs j = nth_error (m_values s) j) ->
  wf (with_lists s vs (upd (m_state s) i MSet) (upd (m_keys s) i (Some k))).
Proof.
  intros s i k vs (Hlv & Hlk & Hz & Hk & Hki & Hf) Hi Hkey Hl Hvs.
  unfold wf, with_lists; cbn [m_values m_state m_keys m_ty m_free].
  rewrite !length_upd. repeat split; auto; try lia.
  - intros j Hj. destruct (Nat.eq_dec j i) as [->|Hne].
    + rewrite nth_error_upd_eq in Hj by lia. discriminate.
    + rewrite nth_error_upd_neq in Hj by auto. rewrite Hvs by auto. auto.
  - intros j m Hj Hm. destruct (Nat.eq_dec j i) as [->|Hne].
    + exists k. apply nth_error_upd_eq. lia.
    + rewrite nth_error_upd_neq in * by auto. eauto.
  - intros j k' Hj. destruct (Nat.eq_dec j i) as [->|Hne].
    + rewrite nth_error_upd_eq in Hj by lia. inversion Hj; subst; auto.
    + rewrite nth_error_upd_neq in Hj by auto. eauto.
Qed.

Lemma m_set_refines : forall s i k v, wf s -> N.to_nat (fst k) = i ->
  wf (fst (m_set s i k v)) /\ abs (fst (m_set s i k v)) = fst (sp_set (abs s) i k v) /\
  snd (m_set s i k v) = snd (sp_set (abs s) i k v).
Proof.
  intros s i k v Hwf Hkey. unfold sp_set. cbn [abs sp_cap sp_ty].
  destruct (Nat.ltb_spec i (length (m_state s))) as [Hi|Hi].
  2:{ rewrite m_set_ge by auto. cbn [fst snd]. auto. }
  rewrite m_set_nf by auto.
  pose proof Hwf as (Hlv & Hlk & _).
  destruct (arr_conv (m_ty s) v) as [v'|e]; cbn [fst snd]; (split; [|split; [|reflexivity]]).
  - apply wf_set; auto. apply length_upd. intros; apply nth_error_upd_neq; auto.
  - apply abs_eq; auto; unfold with_lists; cbn [m_state m_values m_keys]. apply length_upd.
    rewrite length_upd. rewrite <- (length_upd _ (m_state s) i MSet).
    apply abs_put; try (rewrite length_upd; auto).
    + intros j Hj. apply cell3_upd_neq with (i := i); auto; apply nth_error_upd_neq; auto.
    + unfold cell3. cbn [m_values m_state m_keys]. rewrite !nth_error_upd_eq by lia. auto.
  - apply wf_set; auto.
  - apply abs_eq; auto; unfold with_lists; cbn [m_state m_values m_keys]. apply length_upd.
    rewrite length_upd. rewrite <- (length_upd _ (m_state s) i MSet).
    apply abs_put; try (rewrite length_upd; auto).
    + intros j Hj. apply cell3_upd_neq with (i := i); auto; apply nth_error_upd_neq; auto.
    + unfold cell3. cbn [m_values m_state m_keys]. rewrite !nth_error_upd_eq by lia.
      rewrite (cur_val_abs s i) by auto. auto.
Qed.

(* ---- add_key ---- *)
Definition m_add_base (s : mstore) (i : nat) (k : key) : mstore :=
  let n := (i + 1) - length (m_state s) in
  with_lists s (m_values s ++ repeat (zero_of (m_ty s)) n)
             (upd (m_state s ++ repeat MCleared n) i MNotSet)
             (upd (m_keys s ++ repeat None n) i (Some k)).

Lemma m_add_key_nf : forall s i k, wf s ->
  m_add_key s i k =
  if is_mapper (m_ty s) then m_set (m_add_base s i k) i k (VDict [])
  else match m_default s with
       | VNone => (m_add_base s i k, RUnit)
       | d => m_set (m_add_base s i k) i k d
       end.
Proof.
  intros s i k (Hlv & Hlk & _). unfold m_add_key, m_add_base.
  rewrite setitem_lt by (rewrite app_length, repeat_length; lia).
  rewrite setitem_lt by (rewrite app_length, repeat_length; lia).
  cbn [with_lists m_ty m_default]. auto.
Qed.

Lemma add_base_refines : forall s i k, wf s -> N.to_nat (fst k) = i ->
  wf (m_add_base s i k) /\ abs (m_add_base s i k) = sp_add_base (abs s) i k.
Proof.
  intros s i k Hwf Hkey. pose proof Hwf as (Hlv & Hlk & Hz & Hk & Hki & Hf).
  unfold m_add_base. set (n := i + 1 - length (m_state s)).
  assert (Hi : i < length (m_state s) + n) by (unfold n; lia).
  split.
  - unfold wf, with_lists; cbn [m_values m_state m_keys m_ty m_free].
    rewrite !length_upd, !app_length, !repeat_length.
    split; [lia|]. split; [lia|]. split; [|split; [|split]]; auto.
    + intros j Hj. destruct (Nat.eq_dec j i) as [->|Hne].
      * rewrite nth_error_upd_eq in Hj by (rewrite app_length, repeat_length; lia). discriminate.
      * rewrite nth_error_upd_neq in Hj by auto. rewrite nth_error_grow in *. rewrite Hlv.
        destruct (Nat.ltb_spec j (length (m_state s))); auto.
        destruct (Nat.ltb_spec j (length (m_state s) + n)); auto. discriminate.
    + intros j m Hj Hm. destruct (Nat.eq_dec j i) as [->|Hne].
      * exists k. apply nth_error_upd_eq. rewrite app_length, repeat_length; lia.
      * rewrite nth_error_upd_neq in * by auto. rewrite nth_error_grow in *. rewrite Hlk.
        destruct (Nat.ltb_spec j (length (m_state s))); eauto.
        destruct (Nat.ltb_spec j (length (m_state s) + n)); try discriminate.
        inversion Hj; subst. congruence.
    + intros j k' Hj. destruct (Nat.eq_dec j i) as [->|Hne].
      * rewrite nth_error_upd_eq in Hj by (rewrite app_length, repeat_length; lia).
        inversion Hj; subst; auto.
      * rewrite nth_error_upd_neq in Hj by auto. rewrite nth_error_grow in Hj.
        destruct (Nat.ltb_spec j (length (m_keys s))); eauto.
        destruct (Nat.ltb_spec j (length (m_keys s) + n)); discriminate.
  - unfold sp_add_base. cbn [abs sp_ty sp_default sp_cap sp_next sp_map].
    apply abs_eq; auto; unfold with_lists; cbn [m_state m_values m_keys].
    + rewrite length_upd, app_length, repeat_length. unfold n. lia.
    + unfold cell_at; cbn [m_state m_values m_keys].
      rewrite length_upd, app_length, repeat_length.
      rewrite (collect_app _ (length (m_state s)) n 0).
      rewrite (collect_none _ n (0 + length (m_state s))) by (intros; apply cell_at_ge; lia).
      rewrite app_nil_r. fold (cell_at s).
      assert (Hext : collect (cell_at s) 0 (length (m_state s)) = collect (cell_at s) 0 (length (m_state s) + n)).
      { rewrite collect_app.
        rewrite (collect_none _ n (0 + length (m_state s))) by (intros; apply cell_at_ge; lia).
        rewrite app_nil_r. auto. }
      rewrite <- (collect_app _ (length (m_state s)) n 0) at 1.
      rewrite Hext. rewrite sm_put_collect by lia. apply collect_ext. intros j Hj.
      unfold fupd. destruct (Nat.eqb_spec j i) as [->|Hne].
      * unfold cell3. rewrite !nth_error_upd_eq by (rewrite app_length, repeat_length; lia).
        rewrite nth_error_grow. rewrite Hlv.
        destruct (Nat.ltb_spec i (length (m_state s))).
        -- rewrite (cur_val_abs s i) by auto. auto.
        -- destruct (Nat.ltb_spec i (length (m_state s) + n)); [|lia].
           rewrite cur_val_abs_ge by auto. auto.
      * unfold cell3. rewrite !nth_error_upd_neq by auto. rewrite !nth_error_grow. rewrite Hlv, Hlk.
        destruct (Nat.ltb_spec j (length (m_state s))).
        -- reflexivity.
        -- destruct (Nat.ltb_spec j (length (m_state s) + n)); [|lia].
           rewrite cell_at_ge by auto. auto.
Qed.

Lemma m_add_key_refines : forall s i k, wf s -> N.to_nat (fst k) = i ->
  wf (fst (m_add_key s i k)) /\ abs (fst (m_add_key s i k)) = fst (sp_add_key (abs s) i k) /\
  snd (m_add_key s i k) = snd (sp_add_key (abs s) i k).
Proof.
  intros s i k Hwf Hkey. rewrite m_add_key_nf by auto. unfold sp_add_key.
  destruct (add_base_refines s i k Hwf Hkey) as [Hwf2 Habs2].
  cbn [abs sp_ty sp_default]. fold (abs s). rewrite <- Habs2.
  destruct (is_mapper (m_ty s)).
  - apply m_set_refines; auto.
  - destruct (m_default s); try (apply m_set_refines; auto). cbn [fst snd]. auto.
Qed.
