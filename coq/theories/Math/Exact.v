(* rxsci/math/{sum,mean,min,max,variance,stddev}.py and rxsci/math/formal/{__init__,variance,stddev}.py
   transliterated ONCE, generically over an arithmetic `arith` (the Python operators + - * / < on numbers,
   int literals, the float literal 0.0, math.sqrt, ** and the builtin sum).

   Two instances exist:
     * `QA sq`  (this file)        exact arithmetic on canonical rationals Qc (sqrt is an arbitrary function sq),
     * `FA h`   (FloatModel.v)     CPython numbers: int (Z) / binary64 float (PrimFloat) with Python's mixing rules.
   The theorems of props/C12.v are about `<agg>_run (QA sq)`; the correspondence evaluates `<agg>_run (FA h)`:
   the same Gallina functions, at two arithmetics.  No proofs in this file. *)
From Coq Require Import List ZArith Bool QArith Qcanon.
Import ListNotations.

Record arith := mkArith {
  T : Type;                      (* a Python number *)
  add : T -> T -> T;             (* a + b *)
  sub : T -> T -> T;             (* a - b *)
  mul : T -> T -> T;             (* a * b *)
  div : T -> T -> T;             (* a / b  (true division, b <> 0) *)
  ltb : T -> T -> bool;          (* a < b *)
  of_int : Z -> T;               (* a Python int *)
  fzero : T;                     (* the float literal 0.0 *)
  sqrt : T -> T;                 (* math.sqrt *)
  pow1 : T -> T;                 (* v ** 1 *)
  pow2 : Z -> Z -> T -> T;       (* v ** 2, evaluated for item number i (2nd arg) of a list of length n (1st arg);
                                    the position only matters to the float instance (libm pow, see FloatModel.v) *)
  pysum : list T -> T            (* builtin sum(list) *)
}.

(* ---- rs.ops.scan on a plain Observable / one key of a MuxObservable, no terminator --------------------
   reduce=False: the state after every item is emitted; reduce=True: the last state (or the seed when there
   was no item) is emitted at completion.  (rxsci/operators/scan.py, scan_obs / scan_mux) *)
Fixpoint scan_states {S I : Type} (step : S -> I -> S) (st : S) (xs : list I) : list S :=
  match xs with
  | [] => []
  | x :: r => let st' := step st x in st' :: scan_states step st' r
  end.

Definition scan_run {S I : Type} (step : S -> I -> S) (seed : S) (reduce : bool) (xs : list I) : list S :=
  if reduce then [fold_left step xs seed] else scan_states step seed xs.

Definition zlen {A} (l : list A) : Z := Z.of_nat (length l).

Fixpoint mapi_from {A B} (f : Z -> A -> B) (i : Z) (l : list A) : list B :=
  match l with
  | [] => []
  | a :: r => f i a :: mapi_from f (Z.succ i) r
  end.

Section Aggregates.
  Variable A : arith.
  Notation N := (T A).

  (* ---- sum.py:   scan(lambda acc, i: acc + i, 0.0) ---- *)
  Definition sum_step (acc i : N) : N := add A acc i.
  Definition sum_run (reduce : bool) (xs : list N) : list N := scan_run sum_step (fzero A) reduce xs.

  (* ---- mean.py:  scan(lambda acc, i: (acc[0]+i, acc[1]+1), (0, 0)) ; map(acc[0] / acc[1]) ----
     the count is a Python int.  `None` = the division raised ZeroDivisionError (count 0: reduce on no item) *)
  Definition mean_step (acc : N * Z) (i : N) : N * Z := (add A (fst acc) i, snd acc + 1)%Z.
  Definition mean_seed : N * Z := (of_int A 0, 0%Z).
  Definition mean_out (acc : N * Z) : option N :=
    if (snd acc =? 0)%Z then None else Some (div A (fst acc) (of_int A (snd acc))).
  Definition mean_run (reduce : bool) (xs : list N) : list (option N) :=
    map mean_out (scan_run mean_step mean_seed reduce xs).

  (* ---- min.py / max.py:  acc = i if acc is None or i < acc (resp. i > acc), seed None ---- *)
  Definition min_step (acc : option N) (i : N) : option N :=
    match acc with None => Some i | Some a => if ltb A i a then Some i else Some a end.
  Definition max_step (acc : option N) (i : N) : option N :=
    match acc with None => Some i | Some a => if ltb A a i then Some i else Some a end.
  Definition min_run (reduce : bool) (xs : list N) : list (option N) := scan_run min_step None reduce xs.
  Definition max_run (reduce : bool) (xs : list N) : list (option N) := scan_run max_step None reduce xs.

  (* ---- variance.py (Welford): state (m, s, k), seed (None, 0, 0) ----
        k = acc[2] + 1
        if m is None: m = i
        else: m1 = m; m = m + (i - m) / k; s = s + (i - m1) * (i - m)
     map: 0.0 if acc[2] < 2 else acc[1] / (acc[2] - 1) *)
  Definition wstate : Type := option N * N * Z.
  Definition wseed : wstate := (None, of_int A 0, 0%Z).
  Definition wstep (acc : wstate) (i : N) : wstate :=
    let '(m, s, k0) := acc in
    let k := (k0 + 1)%Z in
    match m with
    | None => (Some i, s, k)
    | Some m1 =>
        let m' := add A m1 (div A (sub A i m1) (of_int A k)) in
        let s' := add A s (mul A (sub A i m1) (sub A i m')) in
        (Some m', s', k)
    end.
  Definition wout (acc : wstate) : N :=
    let '(_, s, k) := acc in
    if (k <? 2)%Z then fzero A else div A s (of_int A (k - 1)).
  Definition variance_run (reduce : bool) (xs : list N) : list N :=
    map wout (scan_run wstep wseed reduce xs).

  (* ---- stddev.py: variance ; map(math.sqrt) ---- *)
  Definition stddev_run (reduce : bool) (xs : list N) : list N := map (sqrt A) (variance_run reduce xs).

  (* ---- formal/__init__.py  _moment(x, c, n) = sum([(x[i]-c)**n ...]) / len(x), for n = 1 (c = 0) and n = 2 ---- *)
  Definition moment1 (x : list N) : N :=
    div A (pysum A (map (fun v => pow1 A (sub A v (of_int A 0))) x)) (of_int A (zlen x)).
  Definition moment2 (x : list N) (c : N) : N :=
    div A (pysum A (mapi_from (fun i v => pow2 A (zlen x) i (sub A v c)) 0%Z x)) (of_int A (zlen x)).

  (* ---- formal/variance.py, with the repair of DESIGN-repairs.md (the list is only cleared when reduce is True):
        scan(acc.append(i), [])  ; map(_variance)
        _variance(acc) = 0.0 if len(acc) == 0 else _moment(acc, _moment(acc, 0, 1), 2) *)
  Definition fvar_step (acc : list N) (i : N) : list N := acc ++ [i].
  Definition fvar_out (acc : list N) : N :=
    if (zlen acc =? 0)%Z then fzero A else moment2 acc (moment1 acc).
  Definition fvariance_run (reduce : bool) (xs : list N) : list N :=
    map fvar_out (scan_run fvar_step [] reduce xs).
  (* ---- formal/stddev.py ---- *)
  Definition fstddev_run (reduce : bool) (xs : list N) : list N := map (sqrt A) (fvariance_run reduce xs).
End Aggregates.

(* ---- the exact instance: canonical rationals ------------------------------------------------------- *)
Definition qz (z : Z) : Qc := Q2Qc (inject_Z z).
Definition qltb (a b : Qc) : bool := match (a ?= b)%Qc with Lt => true | _ => false end.
Definition qsum (l : list Qc) : Qc := fold_right Qcplus 0%Qc l.

Definition QA (sq : Qc -> Qc) : arith :=
  mkArith Qc Qcplus Qcminus Qcmult Qcdiv qltb qz 0%Qc sq (fun v => v) (fun _ _ v => (v * v)%Qc) qsum.

(* ---- the textbook statistics, over Qc --------------------------------------------------------------- *)
Definition qlen (l : list Qc) : Qc := qz (zlen l).
Definition qmean (l : list Qc) : Qc := (qsum l / qlen l)%Qc.
(* sum of squared deviations from c *)
Definition ssd (l : list Qc) (c : Qc) : Qc := qsum (map (fun x => ((x - c) * (x - c))%Qc) l).
(* sample variance (n-1), 0 for fewer than two items *)
Definition sample_var (l : list Qc) : Qc :=
  if (zlen l <? 2)%Z then 0%Qc else (ssd l (qmean l) / qz (zlen l - 1))%Qc.
(* population variance (n), 0 for no item *)
Definition pop_var (l : list Qc) : Qc :=
  if (zlen l =? 0)%Z then 0%Qc else (ssd l (qmean l) / qlen l)%Qc.
(* m is a minimum / maximum of l *)
Definition is_min (l : list Qc) (m : Qc) : Prop := In m l /\ Forall (fun x => (m <= x)%Qc) l.
Definition is_max (l : list Qc) (m : Qc) : Prop := In m l /\ Forall (fun x => (x <= m)%Qc) l.
(* the statistic f of the first 1, 2, ..., length l items *)
Definition running {B} (f : list Qc -> B) (l : list Qc) : list B :=
  map (fun i => f (firstn i l)) (seq 1 (length l)).
