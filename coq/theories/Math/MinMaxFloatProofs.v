(* C12, floating point: min and max involve no rounding.  On finite binary64 items the value the model of
   rs.math.min / max emits (the function the correspondence evaluates) is one of the items and bounds every item,
   after every item (streaming) and at completion (reduce). *)
From Coq Require Import List ZArith Reals Lra Lia Floats.
From Flocq Require Import Core BinarySingleNaN PrimFloat.
From RxVerif Require Import Math.Exact Math.FloatModel Math.SumErrorProofs.
Import ListNotations.
Open Scope R_scope.

Lemma ltb_real (x y : pfloat) : ffin x -> ffin y -> (x <? y)%float = Rlt_bool (FR x) (FR y).
Proof.
  intros Hx Hy. apply ffin_equiv in Hx, Hy. rewrite ltb_equiv. apply Bltb_correct; assumption.
Qed.

Definition is_fmax (l : list pfloat) (m : pfloat) : Prop := In m l /\ Forall (fun x => FR x <= FR m) l.
Definition is_fmin (l : list pfloat) (m : pfloat) : Prop := In m l /\ Forall (fun x => FR m <= FR x) l.

Lemma max_fold (h : hints) : forall (l : list pfloat) (a : pfloat) (seen : list pfloat),
  ffin a -> Forall ffin l -> is_fmax seen a ->
  exists m, fold_left (max_step (FA h)) (map NF l) (Some (NF a)) = Some (NF m) /\ is_fmax (seen ++ l) m /\ ffin m.
Proof.
  induction l as [|x r IH]; intros a seen Ha Hl Hm.
  - exists a. rewrite app_nil_r. auto.
  - inversion Hl as [|? ? Hx Hr]; subst. cbn [map fold_left max_step ltb FA nltb to_f].
    rewrite (ltb_real a x Ha Hx). destruct Hm as [Hin Hall].
    replace (seen ++ x :: r) with ((seen ++ [x]) ++ r) by (rewrite <- app_assoc; reflexivity).
    destruct (Rlt_bool_spec (FR a) (FR x)) as [Hlt|Hge].
    + apply IH; [exact Hx|exact Hr|]. split; [apply in_or_app; right; left; reflexivity|].
      apply Forall_app. split; [|constructor; [lra|constructor]].
      eapply Forall_impl; [|exact Hall]. intros y Hy. cbv beta in Hy. lra.
    + apply IH; [exact Ha|exact Hr|]. split; [apply in_or_app; left; exact Hin|].
      apply Forall_app. split; [exact Hall|constructor; [exact Hge|constructor]].
Qed.
Lemma min_fold (h : hints) : forall (l : list pfloat) (a : pfloat) (seen : list pfloat),
  ffin a -> Forall ffin l -> is_fmin seen a ->
  exists m, fold_left (min_step (FA h)) (map NF l) (Some (NF a)) = Some (NF m) /\ is_fmin (seen ++ l) m /\ ffin m.
Proof.
  induction l as [|x r IH]; intros a seen Ha Hl Hm.
  - exists a. rewrite app_nil_r. auto.
  - inversion Hl as [|? ? Hx Hr]; subst. cbn [map fold_left min_step ltb FA nltb to_f].
    rewrite (ltb_real x a Hx Ha). destruct Hm as [Hin Hall].
    replace (seen ++ x :: r) with ((seen ++ [x]) ++ r) by (rewrite <- app_assoc; reflexivity).
    destruct (Rlt_bool_spec (FR x) (FR a)) as [Hlt|Hge].
    + apply IH; [exact Hx|exact Hr|]. split; [apply in_or_app; right; left; reflexivity|].
      apply Forall_app. split; [|constructor; [lra|constructor]].
      eapply Forall_impl; [|exact Hall]. intros y Hy. cbv beta in Hy. lra.
    + apply IH; [exact Ha|exact Hr|]. split; [apply in_or_app; left; exact Hin|].
      apply Forall_app. split; [exact Hall|constructor; [exact Hge|constructor]].
Qed.

Theorem float_max_exact (h : hints) (l : list pfloat) : l <> [] -> Forall ffin l ->
  exists m, max_run (FA h) true (map NF l) = [Some (NF m)] /\ is_fmax l m.
Proof.
  intros Hne Hl. destruct l as [|x r]; [congruence|]. inversion Hl as [|? ? Hx Hr]; subst.
  destruct (max_fold h r x [x] Hx Hr) as (m & E & M & _).
  { split; [left; reflexivity|constructor; [lra|constructor]]. }
  exists m. split; [|exact M]. unfold max_run, scan_run. cbn [map fold_left]. change (max_step (FA h) None (NF x)) with (Some (NF x)). rewrite E. reflexivity.
Qed.
Theorem float_min_exact (h : hints) (l : list pfloat) : l <> [] -> Forall ffin l ->
  exists m, min_run (FA h) true (map NF l) = [Some (NF m)] /\ is_fmin l m.
Proof.
  intros Hne Hl. destruct l as [|x r]; [congruence|]. inversion Hl as [|? ? Hx Hr]; subst.
  destruct (min_fold h r x [x] Hx Hr) as (m & E & M & _).
  { split; [left; reflexivity|constructor; [lra|constructor]]. }
  exists m. split; [|exact M]. unfold min_run, scan_run. cbn [map fold_left]. change (min_step (FA h) None (NF x)) with (Some (NF x)). rewrite E. reflexivity.
Qed.
