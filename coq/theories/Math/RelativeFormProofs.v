(* C12, floating point: the error bounds in the literal shape of the property text,
       | v_hat - v |  <=  C * n * u * kappa * |v|   (+ an explicit absolute underflow term),
   u = u53 = 2^-53 the machine epsilon (unit roundoff), n the item count, kappa an explicitly defined condition
   number of the data, C a small numeral; under the side conditions of the underlying theorems and n * u <= 1/16
   (true for every n < 2^40, in particular for n <= 10^4).  Corollaries of the bounds proved in SumErrorProofs,
   MeanErrorProofs, MinMaxFloatProofs, WelfordErrorProofs, StddevErrorProofs and FormalVarianceErrorProofs;
   completion values. *)
From Coq Require Import List ZArith Reals Lra Lia Floats Bool.
From Flocq Require Import Core BinarySingleNaN PrimFloat.
From RxVerif Require Import Math.Exact Math.FloatModel Math.SumErrorProofs Math.MeanErrorProofs Math.FloatOpsProofs
  Math.MinMaxFloatProofs Math.VarianceNonnegProofs Math.WelfordReal Math.WelfordErrorProofs Math.StddevErrorProofs
  Math.PySumErrorProofs Math.FormalVarianceErrorProofs.
Import ListNotations.
Local Open Scope R_scope.

(* ================= (1) linearisation ================= *)
Lemma pow_inv_bound (x : R) (n : nat) : 0 <= x -> (1 + x) ^ n * (1 - INR n * x) <= 1.
Proof.
  intro Hx. induction n as [|n IH]; [cbn; lra|].
  assert (HG : 0 <= (1 + x) ^ n) by (apply pow_le; lra).
  rewrite S_INR. cbn [pow].
  assert (H1 : (1 + x) * (1 - (INR n + 1) * x) <= 1 - INR n * x).
  { assert (0 <= (INR n + 1) * (x * x)) by (apply Rmult_le_pos; [pose proof (pos_INR n); lra|apply Rmult_le_pos; assumption]).
    replace ((1 + x) * (1 - (INR n + 1) * x)) with (1 - INR n * x - (INR n + 1) * (x * x)) by ring. lra. }
  assert (H2 : (1 + x) ^ n * ((1 + x) * (1 - (INR n + 1) * x)) <= (1 + x) ^ n * (1 - INR n * x)).
  { apply Rmult_le_compat_l; assumption. }
  replace ((1 + x) * (1 + x) ^ n * (1 - (INR n + 1) * x)) with ((1 + x) ^ n * ((1 + x) * (1 - (INR n + 1) * x))) by ring.
  lra.
Qed.

Lemma lin_pow_16 (n : nat) : INR n * u53 <= / 16 ->
  (1 + u53) ^ n <= 16 / 15 /\ (1 + u53) ^ n - 1 <= 16 / 15 * (INR n * u53).
Proof.
  intro H. pose proof u53_pos as U. pose proof (pow_inv_bound u53 n U) as B. pose proof (pow1u_ge1 n) as G1.
  set (G := (1 + u53) ^ n) in *. set (a := INR n * u53) in *.
  assert (Ha : 0 <= a) by (unfold a; apply Rmult_le_pos; [apply pos_INR|exact U]).
  assert (H1 : G * (15 / 16) <= G * (1 - a)) by (apply Rmult_le_compat_l; lra).
  assert (HG : G <= 16 / 15) by lra. split; [exact HG|].
  assert (H2 : G * a <= 16 / 15 * a) by (apply Rmult_le_compat_r; assumption).
  replace (G * (1 - a)) with (G - G * a) in B by ring. lra.
Qed.
Lemma lin_pow_8 (n : nat) : INR n * u53 <= / 8 ->
  (1 + u53) ^ n <= 8 / 7 /\ (1 + u53) ^ n - 1 <= 8 / 7 * (INR n * u53).
Proof.
  intro H. pose proof u53_pos as U. pose proof (pow_inv_bound u53 n U) as B. pose proof (pow1u_ge1 n) as G1.
  set (G := (1 + u53) ^ n) in *. set (a := INR n * u53) in *.
  assert (Ha : 0 <= a) by (unfold a; apply Rmult_le_pos; [apply pos_INR|exact U]).
  assert (H1 : G * (7 / 8) <= G * (1 - a)) by (apply Rmult_le_compat_l; lra).
  assert (HG : G <= 8 / 7) by lra. split; [exact HG|].
  assert (H2 : G * a <= 8 / 7 * a) by (apply Rmult_le_compat_r; assumption).
  replace (G * (1 - a)) with (G - G * a) in B by ring. lra.
Qed.

(* n * u <= 1/16 for every n < 2^40, in particular for n <= 10^4 *)
Lemma count_small_pow40 (n : nat) : (Z.of_nat n < 2 ^ 40)%Z -> INR n * u53 <= / 16.
Proof.
  intro H. rewrite u53_value, INR_IZR_INZ.
  assert (Hn : IZR (Z.of_nat n) <= 1099511627776) by (apply IZR_le; change (2 ^ 40)%Z with 1099511627776%Z in H; lia).
  assert (Hp : 0 <= IZR (Z.of_nat n)) by (apply IZR_le; lia).
  assert (E : 2 ^ 53 = 9007199254740992) by (simpl; lra). rewrite E. lra.
Qed.
Lemma count_small_10000 (n : nat) : (Z.of_nat n <= 10000)%Z -> INR n * u53 <= / 16.
Proof. intro H. apply count_small_pow40. change (2 ^ 40)%Z with 1099511627776%Z. lia. Qed.

(* ================= (2) sum ================= *)
(* the condition number of a sum: sum |x_i| / |sum x_i| *)
Definition kappa_sum (xs : list R) : R := sumR (map Rabs xs) / Rabs (sumR xs).

Theorem relform_sum (h : hints) (l : list pfloat) :
  Forall ffin l ->
  Forall (fun v => exists s, v = NF s /\ ffin s) (sum_run (FA h) false (map NF l)) ->
  INR (length l) * u53 <= / 16 -> sumR (map FR l) <> 0 ->
  exists s, sum_run (FA h) true (map NF l) = [NF s]
            /\ Rabs (FR s - sumR (map FR l))
               <= 2 * INR (length l) * u53 * kappa_sum (map FR l) * Rabs (sumR (map FR l)).
Proof.
  intros Hl Hrun Hn Hs. destruct (float_sum_error h l Hl Hrun) as (s & E & B). exists s. split; [exact E|].
  destruct (lin_pow_16 (length l) Hn) as (_ & L).
  pose proof (sumR_abs_nonneg l) as T0. rewrite <- (map_map FR Rabs) in B, T0.
  assert (Hp : 0 < Rabs (sumR (map FR l))) by (apply Rabs_pos_lt; exact Hs).
  unfold kappa_sum. set (T := sumR (map Rabs (map FR l))) in *. set (a := INR (length l) * u53) in *.
  replace (2 * INR (length l) * u53 * (T / Rabs (sumR (map FR l))) * Rabs (sumR (map FR l))) with (2 * a * T)
    by (unfold a; field; lra).
  eapply Rle_trans; [exact B|].
  assert (Ha : 0 <= a) by (unfold a; apply Rmult_le_pos; [apply pos_INR|apply u53_pos]).
  assert (H1 : ((1 + u53) ^ length l - 1) * T <= (16 / 15 * a) * T) by (apply Rmult_le_compat_r; assumption).
  assert (H2 : 0 <= a * T) by (apply Rmult_le_pos; assumption). lra.
Qed.

(* ================= (3) mean ================= *)
Theorem relform_mean (h : hints) (l : list pfloat) :
  l <> [] -> (Z.of_nat (length l) < 2 ^ 53)%Z ->
  Forall ffin l -> Forall ffin (scan_states padd zero l) ->
  ffin (fold_left padd l zero / f_of_Z (Z.of_nat (length l)))%float ->
  INR (length l) * u53 <= / 16 -> sumR (map FR l) <> 0 ->
  exists m, mean_run (FA h) true (map NF l) = [Some (NF m)]
            /\ Rabs (FR m - meanR (map FR l))
               <= 3 * INR (length l) * u53 * kappa_sum (map FR l) * Rabs (meanR (map FR l)) + eta64.
Proof.
  intros Hne Hb Hl Hs Hq Hn Hnz. destruct (float_mean_error h l Hne Hb Hl Hs Hq) as (m & E & B). exists m. split; [exact E|].
  assert (Hlen : 1 <= INR (length l)).
  { change 1 with (INR 1). apply le_INR. destruct l; [congruence|cbn; lia]. }
  pose proof u53_pos as U.
  assert (Hn1 : INR (S (length l)) * u53 <= / 8).
  { rewrite S_INR. assert (1 * u53 <= INR (length l) * u53) by (apply Rmult_le_compat_r; assumption). lra. }
  destruct (lin_pow_8 (S (length l)) Hn1) as (_ & L). rewrite S_INR in L.
  pose proof (sumR_abs_nonneg l) as T0. rewrite <- (map_map FR Rabs) in B, T0.
  assert (Hp : 0 < Rabs (sumR (map FR l))) by (apply Rabs_pos_lt; exact Hnz).
  unfold meanR, kappa_sum. rewrite map_length.
  set (T := sumR (map Rabs (map FR l))) in *. set (N := INR (length l)) in *.
  assert (HiN : 0 < / N) by (apply Rinv_0_lt_compat; lra).
  replace (Rabs (sumR (map FR l) / N)) with (Rabs (sumR (map FR l)) * / N)
    by (unfold Rdiv; rewrite Rabs_mult, (Rabs_pos_eq (/ N)) by lra; reflexivity).
  replace (3 * N * u53 * (T / Rabs (sumR (map FR l))) * (Rabs (sumR (map FR l)) * / N)) with (3 * (N * u53) * (T / N))
    by (field; lra).
  eapply Rle_trans; [exact B|]. apply Rplus_le_compat_r.
  assert (HTN : 0 <= T / N) by (unfold Rdiv; apply Rmult_le_pos; lra).
  assert (H0 : 1 * u53 <= N * u53) by (apply Rmult_le_compat_r; assumption).
  assert (H1 : ((1 + u53) ^ S (length l) - 1) * (T / N) <= (8 / 7 * ((N + 1) * u53)) * (T / N)).
  { apply Rmult_le_compat_r; assumption. }
  assert (H2 : 0 <= (N * u53) * (T / N)) by (apply Rmult_le_pos; [apply Rmult_le_pos; lra|exact HTN]).
  assert (H3 : u53 * (T / N) <= (N * u53) * (T / N)) by (apply Rmult_le_compat_r; lra).
  replace (8 / 7 * ((N + 1) * u53) * (T / N)) with (8 / 7 * ((N * u53) * (T / N)) + 8 / 7 * (u53 * (T / N))) in H1 by ring.
  lra.
Qed.

(* ================= (4) min / max: exact, error 0 ================= *)
Definition maxR (xs : list R) : R := fold_right Rmax (hd 0 xs) xs.
Definition minR (xs : list R) : R := fold_right Rmin (hd 0 xs) xs.

Lemma fold_max_le (v h0 : R) (xs : list R) : Forall (fun x => x <= v) xs -> h0 <= v -> fold_right Rmax h0 xs <= v.
Proof. induction 1 as [|x r Hx Hr IH]; intro H0; [exact H0|]. cbn [fold_right]. apply Rmax_lub; [exact Hx|apply IH; exact H0]. Qed.
Lemma fold_max_ge (v h0 : R) (xs : list R) : In v xs -> v <= fold_right Rmax h0 xs.
Proof.
  induction xs as [|x r IH]; intro H; [destruct H|]. cbn [fold_right]. destruct H as [->|H].
  - apply Rmax_l.
  - eapply Rle_trans; [apply IH; exact H|apply Rmax_r].
Qed.
Lemma fold_min_ge (v h0 : R) (xs : list R) : Forall (fun x => v <= x) xs -> v <= h0 -> v <= fold_right Rmin h0 xs.
Proof. induction 1 as [|x r Hx Hr IH]; intro H0; [exact H0|]. cbn [fold_right]. apply Rmin_glb; [exact Hx|apply IH; exact H0]. Qed.
Lemma fold_min_le (v h0 : R) (xs : list R) : In v xs -> fold_right Rmin h0 xs <= v.
Proof.
  induction xs as [|x r IH]; intro H; [destruct H|]. cbn [fold_right]. destruct H as [->|H].
  - apply Rmin_l.
  - eapply Rle_trans; [apply Rmin_r|apply IH; exact H].
Qed.

Theorem relform_max (h : hints) (l : list pfloat) : l <> [] -> Forall ffin l ->
  exists m, max_run (FA h) true (map NF l) = [Some (NF m)] /\ Rabs (FR m - maxR (map FR l)) <= 0.
Proof.
  intros Hne Hl. destruct (float_max_exact h l Hne Hl) as (m & E & Hin & Hall). exists m. split; [exact E|].
  assert (Hall' : Forall (fun x => x <= FR m) (map FR l)) by (rewrite Forall_map; exact Hall).
  assert (Hin' : In (FR m) (map FR l)) by (apply in_map; exact Hin).
  assert (Hh : hd 0 (map FR l) <= FR m).
  { destruct l as [|x r]; [congruence|]. cbn [map hd]. inversion Hall; assumption. }
  pose proof (fold_max_le (FR m) _ _ Hall' Hh) as A1. pose proof (fold_max_ge (FR m) (hd 0 (map FR l)) _ Hin') as A2.
  unfold maxR. replace (FR m - fold_right Rmax (hd 0 (map FR l)) (map FR l)) with 0 by lra. rewrite Rabs_R0. lra.
Qed.
Theorem relform_min (h : hints) (l : list pfloat) : l <> [] -> Forall ffin l ->
  exists m, min_run (FA h) true (map NF l) = [Some (NF m)] /\ Rabs (FR m - minR (map FR l)) <= 0.
Proof.
  intros Hne Hl. destruct (float_min_exact h l Hne Hl) as (m & E & Hin & Hall). exists m. split; [exact E|].
  assert (Hall' : Forall (fun x => FR m <= x) (map FR l)) by (rewrite Forall_map; exact Hall).
  assert (Hin' : In (FR m) (map FR l)) by (apply in_map; exact Hin).
  assert (Hh : FR m <= hd 0 (map FR l)).
  { destruct l as [|x r]; [congruence|]. cbn [map hd]. inversion Hall; assumption. }
  pose proof (fold_min_ge (FR m) _ _ Hall' Hh) as A1. pose proof (fold_min_le (FR m) (hd 0 (map FR l)) _ Hin') as A2.
  unfold minR. replace (FR m - fold_right Rmin (hd 0 (map FR l)) (map FR l)) with 0 by lra. rewrite Rabs_R0. lra.
Qed.

(* ================= (5) Welford variance ================= *)
(* eta / u = 2^-1022, the smallest positive normal binary64 number *)
Definition tiny64 : R := eta64 / u53.
(* the magnitude that enters the per-item error of the running mean: A + 2 R (+ 2^-1022) *)
Definition spread_mag (A Rr : R) : R := A + 2 * Rr + tiny64.
(* condition number of the (Welford) variance for data of magnitude <= A, spread <= R and exact variance var *)
Definition kappa_var (A Rr var : R) : R :=
  1 + (Rr * Rr + Rr * spread_mag A Rr + spread_mag A Rr * spread_mag A Rr) / var.

Lemma u53_gt0 : 0 < u53.
Proof. rewrite u53_value. apply Rinv_0_lt_compat. apply pow_lt. lra. Qed.
Lemma tiny64_nonneg : 0 <= tiny64.
Proof. unfold tiny64, Rdiv. apply Rmult_le_pos; [apply eta64_pos|apply Rlt_le, Rinv_0_lt_compat, u53_gt0]. Qed.
Lemma weps_spread (A Rr : R) : weps A Rr = u53 * spread_mag A Rr.
Proof. unfold weps, spread_mag, tiny64. pose proof u53_gt0. field. lra. Qed.

Lemma var_lin (u eta N G R A' var : R) :
  0 <= u -> 0 <= eta -> 2 <= N -> N * u <= / 16 -> 1 <= G -> G <= 16 / 15 -> 0 <= R -> 0 <= A' -> 0 <= var ->
  G * (4 * u * (R * R) + eta + R * ((2 * (N - 1) - 1) * (u * A'))
       + ((N - 1) - 1) * (N - 1) * ((u * A') * (u * A')) + u * ((N - 1) * var)) + u * var + eta
  <= 5 * N * u * (var + R * R + R * A' + A' * A') + 3 * eta.
Proof.
  intros Hu He HN Ha HG1 HG HR HA Hv. set (a := N * u) in *.
  assert (Ha0 : 0 <= a) by (unfold a; apply Rmult_le_pos; lra).
  assert (RR : 0 <= R * R) by (apply Rmult_le_pos; assumption).
  assert (RA : 0 <= R * A') by (apply Rmult_le_pos; assumption).
  assert (AA : 0 <= A' * A') by (apply Rmult_le_pos; assumption).
  assert (aRR : 0 <= a * (R * R)) by (apply Rmult_le_pos; assumption).
  assert (aRA : 0 <= a * (R * A')) by (apply Rmult_le_pos; assumption).
  assert (aAA : 0 <= a * (A' * A')) by (apply Rmult_le_pos; assumption).
  assert (aV : 0 <= a * var) by (apply Rmult_le_pos; assumption).
  assert (H2u : 2 * u <= a) by (unfold a; apply Rmult_le_compat_r; assumption).
  assert (T1 : 4 * u * (R * R) <= 2 * (a * (R * R))).
  { assert ((2 * u) * (R * R) <= a * (R * R)) by (apply Rmult_le_compat_r; assumption). lra. }
  assert (P0 : 0 <= u * (R * A')) by (apply Rmult_le_pos; assumption).
  assert (T2 : R * ((2 * (N - 1) - 1) * (u * A')) <= 2 * (a * (R * A'))).
  { replace (R * ((2 * (N - 1) - 1) * (u * A'))) with ((2 * (N - 1) - 1) * (u * (R * A'))) by ring.
    replace (2 * (a * (R * A'))) with ((2 * N) * (u * (R * A'))) by (unfold a; ring).
    apply Rmult_le_compat_r; [exact P0|lra]. }
  assert (W0 : 0 <= (u * A') * (u * A')) by (apply Rmult_le_pos; apply Rmult_le_pos; assumption).
  assert (T3 : ((N - 1) - 1) * (N - 1) * ((u * A') * (u * A')) <= / 16 * (a * (A' * A'))).
  { assert (K : ((N - 1) - 1) * (N - 1) <= N * N) by (apply Rmult_le_compat; lra).
    assert (K1 : ((N - 1) - 1) * (N - 1) * ((u * A') * (u * A')) <= (N * N) * ((u * A') * (u * A'))).
    { apply Rmult_le_compat_r; assumption. }
    replace ((N * N) * ((u * A') * (u * A'))) with (a * (a * (A' * A'))) in K1 by (unfold a; ring).
    assert (K2 : a * (a * (A' * A')) <= / 16 * (a * (A' * A'))) by (apply Rmult_le_compat_r; assumption). lra. }
  assert (UV : 0 <= u * var) by (apply Rmult_le_pos; assumption).
  assert (T4 : u * ((N - 1) * var) <= a * var).
  { replace (u * ((N - 1) * var)) with ((N - 1) * (u * var)) by ring. replace (a * var) with (N * (u * var)) by (unfold a; ring).
    apply Rmult_le_compat_r; [exact UV|lra]. }
  assert (T5 : u * var <= a * var).
  { replace (a * var) with (N * (u * var)) by (unfold a; ring). rewrite <- (Rmult_1_l (u * var)) at 1.
    apply Rmult_le_compat_r; [exact UV|lra]. }
  set (Q := 2 * (a * (R * R)) + 2 * (a * (R * A')) + / 16 * (a * (A' * A')) + a * var + eta).
  assert (HQ0 : 0 <= Q) by (unfold Q; lra).
  assert (HB : 4 * u * (R * R) + eta + R * ((2 * (N - 1) - 1) * (u * A'))
               + ((N - 1) - 1) * (N - 1) * ((u * A') * (u * A')) + u * ((N - 1) * var) <= Q) by (unfold Q; lra).
  assert (HB0 : 0 <= 4 * u * (R * R) + eta + R * ((2 * (N - 1) - 1) * (u * A'))
               + ((N - 1) - 1) * (N - 1) * ((u * A') * (u * A')) + u * ((N - 1) * var)).
  { assert (0 <= 4 * u * (R * R)) by (apply Rmult_le_pos; lra).
    assert (0 <= R * ((2 * (N - 1) - 1) * (u * A'))).
    { apply Rmult_le_pos; [exact HR|]. apply Rmult_le_pos; [lra|apply Rmult_le_pos; assumption]. }
    assert (0 <= ((N - 1) - 1) * (N - 1) * ((u * A') * (u * A'))).
    { apply Rmult_le_pos; [apply Rmult_le_pos; lra|exact W0]. }
    assert (0 <= u * ((N - 1) * var)) by (apply Rmult_le_pos; [exact Hu|apply Rmult_le_pos; lra]). lra. }
  assert (HGQ : G * (4 * u * (R * R) + eta + R * ((2 * (N - 1) - 1) * (u * A'))
               + ((N - 1) - 1) * (N - 1) * ((u * A') * (u * A')) + u * ((N - 1) * var)) <= 16 / 15 * Q).
  { apply Rmult_le_compat; lra. }
  replace (5 * N * u * (var + R * R + R * A' + A' * A'))
    with (5 * (a * var + a * (R * R) + a * (R * A') + a * (A' * A'))) by (unfold a; ring).
  unfold Q in HGQ. lra.
Qed.

Theorem relform_variance (h : hints) (l : list pfloat) (lo hi A Rr : R) :
  - A <= lo -> hi <= A -> hi - lo <= Rr ->
  Forall ffin l -> Forall (fun x => lo <= FR x <= hi) l -> (Z.of_nat (length l) < 2 ^ 53)%Z ->
  Forall state_fin (scan_states (wstep (FA h)) (wseed (FA h)) (map NF l)) ->
  (2 <= length l)%nat -> INR (length l) * u53 <= / 16 ->
  0 < ssdR (map FR l) / INR (length l - 1) ->
  exists f, variance_run (FA h) true (map NF l) = [NF f] /\ ffin f /\ 0 <= FR f /\
    Rabs (FR f - ssdR (map FR l) / INR (length l - 1))
    <= 5 * INR (length l) * u53 * kappa_var A Rr (ssdR (map FR l) / INR (length l - 1))
         * (ssdR (map FR l) / INR (length l - 1)) + 3 * eta64.
Proof.
  intros HloA HhiA HR Hl Hrg Hb Hf H2 Hn Hvar.
  assert (Hne : l <> []) by (destruct l; [cbn in H2; lia|discriminate]).
  destruct (welford_variance_reduce_error h l lo hi A Rr HloA HhiA HR Hne Hl Hrg Hb Hf) as (f & E & Ff & Pf & B).
  exists f. split; [exact E|]. split; [exact Ff|]. split; [exact Pf|]. specialize (B H2).
  assert (Hbox : lo <= hi) by (destruct l as [|x r]; [congruence|]; inversion Hrg; subst; lra).
  assert (HA : 0 <= A) by lra. assert (HRr : 0 <= Rr) by lra.
  pose proof (wFb_closed A Rr (map FR l) (length l) HA HRr) as C. rewrite map_length in C.
  assert (Hk : (1 <= length l <= length l)%nat) by lia. specialize (C Hk).
  rewrite (firstn_all2 (map FR l)) in C by (rewrite map_length; lia).
  assert (HN1 : INR (length l - 1) = INR (length l) - 1) by (rewrite minus_INR by lia; reflexivity).
  assert (HN : 2 <= INR (length l)) by (change 2 with (INR 2); apply le_INR; exact H2).
  set (N := INR (length l)) in *. set (sg := ssdR (map FR l)) in *. set (var := sg / INR (length l - 1)) in *.
  assert (Hk0 : 0 < INR (length l - 1)) by (rewrite HN1; lra).
  assert (Esg : sg = (N - 1) * var) by (unfold var; rewrite HN1; field; lra).
  destruct (lin_pow_16 (length l) Hn) as (HG & _). pose proof (pow1u_ge1 (length l)) as HG1.
  pose proof u53_pos as U. pose proof eta64_pos as He.
  (* F / (n-1) (1+u) <= (1+u)^n (g (n-1) + u sigma) *)
  set (F := wFb A Rr (map FR l) (length l)) in *. set (Cc := wg A Rr (length l - 1) + u53 * sg) in *.
  assert (HG' : (1 + u53) ^ length l = (1 + u53) * (1 + u53) ^ (length l - 1)).
  { replace (length l) with (S (length l - 1)) at 1 by lia. reflexivity. }
  set (P := (1 + u53) ^ (length l - 1)) in *.
  assert (Hik : 0 < / INR (length l - 1)) by (apply Rinv_0_lt_compat; exact Hk0).
  assert (H1 : F * / INR (length l - 1) <= (P * (INR (length l - 1) * Cc)) * / INR (length l - 1)).
  { apply Rmult_le_compat_r; lra. }
  replace ((P * (INR (length l - 1) * Cc)) * / INR (length l - 1)) with (P * Cc) in H1 by (field; lra).
  assert (H3 : (F * / INR (length l - 1)) * (1 + u53) <= (P * Cc) * (1 + u53)) by (apply Rmult_le_compat_r; lra).
  assert (B' : Rabs (FR f - var) <= (1 + u53) ^ length l * Cc + u53 * var + eta64).
  { eapply Rle_trans; [exact B|]. rewrite HG'. unfold Rdiv in *. lra. }
  eapply Rle_trans; [exact B'|].
  unfold Cc. rewrite (wg_closed A Rr (length l - 1)) by lia. rewrite HN1, weps_spread, Esg.
  assert (HA' : 0 <= spread_mag A Rr) by (unfold spread_mag; pose proof tiny64_nonneg; lra).
  pose proof (var_lin u53 eta64 N ((1 + u53) ^ length l) Rr (spread_mag A Rr) var U He HN Hn HG1 HG HRr HA' (Rlt_le _ _ Hvar)) as V.
  unfold kappa_var.
  replace (5 * N * u53 * (1 + (Rr * Rr + Rr * spread_mag A Rr + spread_mag A Rr * spread_mag A Rr) / var) * var)
    with (5 * N * u53 * (var + Rr * Rr + Rr * spread_mag A Rr + spread_mag A Rr * spread_mag A Rr)) by (field; lra).
  eapply Rle_trans; [|exact V]. apply Req_le. ring.
Qed.

(* ================= (5b) stddev = sqrt of the Welford variance ================= *)
Lemma sqrt_diff_rel (a b : R) : 0 <= a -> 0 < b -> Rabs (rsqrt a - rsqrt b) <= Rabs (a - b) / rsqrt b.
Proof.
  intros Ha Hb. set (x := rsqrt a). set (y := rsqrt b).
  assert (Hx : 0 <= x) by apply sqrt_pos. assert (Hy : 0 < y) by (apply sqrt_lt_R0; exact Hb).
  assert (Ex : x * x = a) by (apply sqrt_sqrt; exact Ha). assert (Ey : y * y = b) by (apply sqrt_sqrt; lra).
  replace (a - b) with ((x - y) * (x + y)) by (rewrite <- Ex, <- Ey; ring).
  rewrite Rabs_mult, (Rabs_pos_eq (x + y)) by lra.
  assert (Hiy : 0 < / y) by (apply Rinv_0_lt_compat; exact Hy).
  assert (H1 : 1 <= (x + y) * / y).
  { replace ((x + y) * / y) with (1 + x * / y) by (field; lra). assert (0 <= x * / y) by (apply Rmult_le_pos; lra). lra. }
  assert (H2 : Rabs (x - y) * 1 <= Rabs (x - y) * ((x + y) * / y)) by (apply Rmult_le_compat_l; [apply Rabs_pos|exact H1]).
  unfold Rdiv. lra.
Qed.

Lemma sqrt_rel_err (f : pfloat) (var V : R) :
  ffin f -> 0 <= FR f -> 0 < var -> Rabs (FR f - var) <= V ->
  ffin (fsqrt f) /\ Rabs (FR (fsqrt f) - rsqrt var) <= u53 * rsqrt var + (1 + u53) * (V / rsqrt var).
Proof.
  intros Ff Pf Hvar HV. destruct (sqrt_fwd f Ff Pf) as (Fg & Eg). split; [exact Fg|]. rewrite Eg.
  set (s := rsqrt (FR f)) in *.
  assert (Hsv : 0 < rsqrt var) by (apply sqrt_lt_R0; exact Hvar).
  assert (Hiv : 0 < / rsqrt var) by (apply Rinv_0_lt_compat; exact Hsv).
  assert (H1 : Rabs (s - rsqrt var) <= V / rsqrt var).
  { eapply Rle_trans; [apply sqrt_diff_rel; assumption|]. unfold Rdiv. apply Rmult_le_compat_r; lra. }
  pose proof (RND_sqrt_err (FR f) (F64_FR f) Pf) as H2. fold s in H2. pose proof u53_pos as U.
  assert (H3 : s <= rsqrt var + V / rsqrt var) by (apply Rabs_le_inv in H1; lra).
  assert (H4 : u53 * s <= u53 * (rsqrt var + V / rsqrt var)) by (apply Rmult_le_compat_l; assumption).
  replace (RND s - rsqrt var) with ((RND s - s) + (s - rsqrt var)) by ring.
  eapply Rle_trans; [apply Rabs_triang|]. lra.
Qed.

Theorem relform_stddev (h : hints) (l : list pfloat) (lo hi A Rr : R) :
  - A <= lo -> hi <= A -> hi - lo <= Rr ->
  Forall ffin l -> Forall (fun x => lo <= FR x <= hi) l -> (Z.of_nat (length l) < 2 ^ 53)%Z ->
  Forall state_fin (scan_states (wstep (FA h)) (wseed (FA h)) (map NF l)) ->
  (2 <= length l)%nat -> INR (length l) * u53 <= / 16 ->
  0 < ssdR (map FR l) / INR (length l - 1) ->
  exists g, stddev_run (FA h) true (map NF l) = [NF g] /\ ffin g /\
    Rabs (FR g - rsqrt (ssdR (map FR l) / INR (length l - 1)))
    <= 7 * INR (length l) * u53 * kappa_var A Rr (ssdR (map FR l) / INR (length l - 1))
         * rsqrt (ssdR (map FR l) / INR (length l - 1))
       + 4 * eta64 / rsqrt (ssdR (map FR l) / INR (length l - 1)).
Proof.
  intros HloA HhiA HR Hl Hrg Hb Hf H2 Hn Hvar.
  destruct (relform_variance h l lo hi A Rr HloA HhiA HR Hl Hrg Hb Hf H2 Hn Hvar) as (f & E & Ff & Pf & B).
  set (var := ssdR (map FR l) / INR (length l - 1)) in *.
  destruct (sqrt_rel_err f var _ Ff Pf Hvar B) as (Fg & Bg).
  exists (fsqrt f). split; [unfold stddev_run; rewrite E; reflexivity|]. split; [exact Fg|].
  eapply Rle_trans; [exact Bg|].
  assert (Hsv : 0 < rsqrt var) by (apply sqrt_lt_R0; exact Hvar).
  assert (Esv : rsqrt var * rsqrt var = var) by (apply sqrt_sqrt; lra).
  assert (Hbox : lo <= hi).
  { destruct l as [|x r]; [cbn in H2; lia|]. inversion Hrg; subst. lra. }
  assert (HA' : 0 <= spread_mag A Rr) by (unfold spread_mag; pose proof tiny64_nonneg; lra).
  assert (HK : 1 <= kappa_var A Rr var).
  { unfold kappa_var. assert (0 <= (Rr * Rr + Rr * spread_mag A Rr + spread_mag A Rr * spread_mag A Rr) / var).
    { unfold Rdiv. apply Rmult_le_pos; [|apply Rlt_le, Rinv_0_lt_compat; exact Hvar].
      assert (0 <= Rr) by lra. assert (0 <= Rr * Rr) by (apply Rmult_le_pos; assumption).
      assert (0 <= Rr * spread_mag A Rr) by (apply Rmult_le_pos; assumption).
      assert (0 <= spread_mag A Rr * spread_mag A Rr) by (apply Rmult_le_pos; assumption). lra. }
    lra. }
  set (K := kappa_var A Rr var) in *. set (sv := rsqrt var) in *. set (N := INR (length l)) in *.
  assert (HN : 1 <= N) by (change 1 with (INR 1); apply le_INR; lia).
  pose proof u53_pos as U. pose proof u53_small as U5. pose proof eta64_pos as He.
  set (a := N * u53) in *.
  assert (Ha : 0 <= a) by (unfold a; apply Rmult_le_pos; lra).
  assert (Hua : u53 <= a) by (unfold a; rewrite <- (Rmult_1_l u53) at 1; apply Rmult_le_compat_r; lra).
  assert (aK : 0 <= a * K) by (apply Rmult_le_pos; lra).
  assert (aKs : 0 <= a * K * sv) by (apply Rmult_le_pos; lra).
  assert (E1 : (5 * N * u53 * K * var + 3 * eta64) / sv = 5 * (a * K * sv) + 3 * (eta64 / sv)).
  { unfold a. rewrite <- Esv. field. lra. }
  rewrite E1.
  assert (Hes : 0 <= eta64 / sv) by (unfold Rdiv; apply Rmult_le_pos; [exact He|apply Rlt_le, Rinv_0_lt_compat; exact Hsv]).
  assert (T1 : u53 * sv <= a * K * sv).
  { apply Rmult_le_compat_r; [lra|]. apply Rle_trans with (a * 1); [lra|apply Rmult_le_compat_l; assumption]. }
  assert (T2 : u53 * (5 * (a * K * sv)) <= / 5 * (5 * (a * K * sv))) by (apply Rmult_le_compat_r; lra).
  assert (T3 : u53 * (3 * (eta64 / sv)) <= / 5 * (3 * (eta64 / sv))) by (apply Rmult_le_compat_r; lra).
  replace (7 * N * u53 * K * sv) with (7 * (a * K * sv)) by (unfold a; ring).
  replace (4 * eta64 / sv) with (4 * (eta64 / sv)) by (unfold Rdiv; ring).
  lra.
Qed.

(* ================= (6) the two-pass formal variance ================= *)
Lemma pysum_bound_nonneg (n : nat) (aa T : R) : 0 <= aa -> 0 <= T -> 0 <= pysum_bound n aa T.
Proof.
  intros Ha HT. unfold pysum_bound. pose proof u53_pos as U. pose proof (pow1u_ge1 n) as G. pose proof (pos_INR n) as P.
  assert (0 <= u53 * aa) by (apply Rmult_le_pos; assumption).
  assert (0 <= u53 * (INR n * (1 + u53) ^ n) * T).
  { apply Rmult_le_pos; [apply Rmult_le_pos; [exact U|apply Rmult_le_pos; lra]|exact HT]. }
  assert (0 <= ((1 + u53) ^ n - 1) * (u53 * (INR n * (1 + u53) ^ n) * T)) by (apply Rmult_le_pos; lra).
  assert (0 <= (1 + u53) * (((1 + u53) ^ n - 1) * (u53 * (INR n * (1 + u53) ^ n) * T))) by (apply Rmult_le_pos; lra).
  lra.
Qed.

(* the compensated sum, linearised: u |S| plus a tenth of n u T *)
Lemma pysum_bound_lin (n : nat) (aa T : R) : (1 <= n)%nat -> INR n * u53 <= / 16 -> 0 <= aa -> 0 <= T ->
  pysum_bound (n - 1) aa T <= u53 * aa + / 10 * (INR n * u53) * T.
Proof.
  intros Hn Ha Haa HT. unfold pysum_bound. pose proof u53_pos as U. pose proof u53_small as U5.
  assert (Hk : INR (n - 1) <= INR n) by (apply le_INR; lia).
  pose proof (pos_INR (n - 1)) as Pk.
  assert (Hku : INR (n - 1) * u53 <= INR n * u53) by (apply Rmult_le_compat_r; assumption).
  destruct (lin_pow_16 (n - 1)) as (HG & HG1); [lra|]. pose proof (pow1u_ge1 (n - 1)) as G1.
  set (G := (1 + u53) ^ (n - 1)) in *. set (a := INR n * u53) in *. set (k := INR (n - 1)) in *.
  assert (Ha0 : 0 <= a) by (unfold a; apply Rmult_le_pos; [apply pos_INR|exact U]).
  assert (A1 : k * G <= INR n * (16 / 15)) by (apply Rmult_le_compat; lra).
  assert (A2 : u53 * (k * G) <= u53 * (INR n * (16 / 15))) by (apply Rmult_le_compat_l; assumption).
  assert (A2' : 0 <= u53 * (k * G)) by (apply Rmult_le_pos; [exact U|apply Rmult_le_pos; lra]).
  assert (A3 : u53 * (k * G) * T <= (16 / 15 * a) * T).
  { apply Rmult_le_compat_r; [exact HT|]. unfold a. lra. }
  assert (A3' : 0 <= u53 * (k * G) * T) by (apply Rmult_le_pos; assumption).
  assert (aT : 0 <= a * T) by (apply Rmult_le_pos; assumption).
  assert (A4 : (G - 1) * (u53 * (k * G) * T) <= / 15 * ((16 / 15 * a) * T)).
  { apply Rmult_le_compat; lra. }
  assert (A4' : 0 <= (G - 1) * (u53 * (k * G) * T)) by (apply Rmult_le_pos; lra).
  assert (A5 : (1 + u53) * ((G - 1) * (u53 * (k * G) * T)) <= 6 / 5 * (/ 15 * ((16 / 15 * a) * T))).
  { apply Rmult_le_compat; lra. }
  lra.
Qed.

(* mean absolute value, and the magnitude entering the mean error (3 mean|x| + 2^-1022) *)
Definition mean_abs (xs : list R) : R := sumR (map Rabs xs) / INR (length xs).
Definition fvar_mag (xs : list R) : R := 3 * mean_abs xs + tiny64.
(* condition number of the two-pass variance: spread Rr, magnitude, exact population variance *)
Definition kappa_fvar (Rr : R) (xs : list R) : R :=
  1 + (Rr * Rr + Rr * fvar_mag xs + fvar_mag xs * fvar_mag xs) / popvarR xs.

Lemma em_lin (u eta tiny a amu M PBN : R) :
  0 <= u -> 5 * u <= 1 -> eta = u * tiny -> 0 <= tiny -> u <= a -> 0 <= amu -> amu <= M ->
  0 <= PBN -> PBN <= u * amu + / 10 * a * M ->
  0 <= PBN * (1 + u) + u * amu + eta /\ PBN * (1 + u) + u * amu + eta <= a * (3 * M + tiny).
Proof.
  intros Hu Hu5 -> Ht Hua Hamu HM HP0 HP.
  assert (HM0 : 0 <= M) by lra. assert (Ha0 : 0 <= a) by lra.
  assert (aM : 0 <= a * M) by (apply Rmult_le_pos; assumption).
  assert (ut : 0 <= u * tiny) by (apply Rmult_le_pos; assumption).
  assert (H1 : u * amu <= a * M) by (apply Rmult_le_compat; lra).
  assert (H1' : 0 <= u * amu) by (apply Rmult_le_pos; assumption).
  assert (H2 : u * tiny <= a * tiny) by (apply Rmult_le_compat_r; assumption).
  assert (H3 : PBN * u <= PBN * / 5) by (apply Rmult_le_compat_l; lra).
  split; [assert (0 <= PBN * (1 + u)) by (apply Rmult_le_pos; lra); lra|].
  replace (PBN * (1 + u)) with (PBN + PBN * u) by ring. lra.
Qed.

Lemma w_lin (u eta a Rr M' em : R) :
  0 <= u -> 0 <= eta -> u <= a -> a <= / 16 -> 0 <= Rr -> 0 <= M' -> 0 <= em -> em <= a * M' ->
  0 <= 11 * u * ((Rr + em) * (Rr + em)) + 4 * eta + em * (2 * Rr + em)
  /\ 11 * u * ((Rr + em) * (Rr + em)) + 4 * eta + em * (2 * Rr + em)
     <= 24 * a * (Rr * Rr + Rr * M' + M' * M') + 4 * eta.
Proof.
  intros Hu He Hua Ha HR HM Hem0 Hem.
  assert (Ha0 : 0 <= a) by lra.
  assert (aM : a * M' <= / 16 * M') by (apply Rmult_le_compat_r; assumption).
  assert (HemM : em <= M') by lra.
  assert (D0 : 0 <= Rr + em) by lra.
  assert (DD : (Rr + em) * (Rr + em) <= (Rr + M') * (Rr + M')) by (apply Rmult_le_compat; lra).
  assert (DD0 : 0 <= (Rr + em) * (Rr + em)) by (apply Rmult_le_pos; assumption).
  assert (W1 : 11 * u * ((Rr + em) * (Rr + em)) <= 11 * a * ((Rr + M') * (Rr + M'))).
  { apply Rmult_le_compat; lra. }
  assert (W1' : 0 <= 11 * u * ((Rr + em) * (Rr + em))) by (apply Rmult_le_pos; lra).
  assert (W2 : em * (2 * Rr + em) <= (a * M') * (2 * Rr + M')) by (apply Rmult_le_compat; lra).
  assert (W2' : 0 <= em * (2 * Rr + em)) by (apply Rmult_le_pos; lra).
  assert (RR : 0 <= a * (Rr * Rr)) by (apply Rmult_le_pos; [exact Ha0|apply Rmult_le_pos; assumption]).
  assert (RM : 0 <= a * (Rr * M')) by (apply Rmult_le_pos; [exact Ha0|apply Rmult_le_pos; assumption]).
  assert (MM : 0 <= a * (M' * M')) by (apply Rmult_le_pos; [exact Ha0|apply Rmult_le_pos; assumption]).
  split; [lra|].
  replace (11 * a * ((Rr + M') * (Rr + M'))) with (11 * (a * (Rr * Rr)) + 22 * (a * (Rr * M')) + 11 * (a * (M' * M'))) in W1 by ring.
  replace ((a * M') * (2 * Rr + M')) with (2 * (a * (Rr * M')) + a * (M' * M')) in W2 by ring.
  replace (24 * a * (Rr * Rr + Rr * M' + M' * M')) with (24 * (a * (Rr * Rr)) + 24 * (a * (Rr * M')) + 24 * (a * (M' * M'))) by ring.
  lra.
Qed.

Lemma fvar_lin (u eta a var w Z P2N : R) :
  0 <= u -> 5 * u <= 1 -> 0 <= eta -> u <= a -> a <= / 16 -> 0 <= var -> 0 <= Z ->
  0 <= w -> w <= 24 * a * Z + 4 * eta -> 0 <= P2N -> P2N <= (u + / 10 * a) * (var + w) ->
  (w + P2N) * (1 + u) + u * var + eta <= 31 * a * (var + Z) + 7 * eta.
Proof.
  intros Hu Hu5 He Hua Ha Hv HZ Hw0 Hw HP0 HP.
  assert (Ha0 : 0 <= a) by lra.
  assert (aV : 0 <= a * var) by (apply Rmult_le_pos; assumption).
  assert (aZ : 0 <= a * Z) by (apply Rmult_le_pos; assumption).
  assert (C1 : u + / 10 * a <= 11 / 10 * a) by lra.
  assert (C2 : (u + / 10 * a) * (var + w) <= (11 / 10 * a) * (var + w)) by (apply Rmult_le_compat_r; lra).
  assert (C3 : a * w <= / 16 * w) by (apply Rmult_le_compat_r; assumption).
  assert (C3' : 0 <= a * w) by (apply Rmult_le_pos; assumption).
  assert (Hs : w + P2N <= 107 / 100 * w + 11 / 10 * (a * var)).
  { replace ((11 / 10 * a) * (var + w)) with (11 / 10 * (a * var) + 11 / 10 * (a * w)) in C2 by ring. lra. }
  assert (Hs0 : 0 <= w + P2N) by lra.
  assert (C4 : (w + P2N) * (1 + u) <= (107 / 100 * w + 11 / 10 * (a * var)) * (6 / 5)) by (apply Rmult_le_compat; lra).
  assert (C5 : u * var <= a * var) by (apply Rmult_le_compat_r; assumption).
  replace (24 * a * Z) with (24 * (a * Z)) in Hw by ring.
  replace (31 * a * (var + Z)) with (31 * (a * var) + 31 * (a * Z)) by ring.
  lra.
Qed.

Theorem relform_fvariance (h : hints) (l : list pfloat) (lo hi Rr : R) :
  l <> [] -> Forall ffin l -> Forall (fun x => lo <= FR x <= hi) l -> hi - lo <= Rr ->
  (Z.of_nat (length l) < 2 ^ 53)%Z -> fvar_fin h l = true ->
  INR (length l) * u53 <= / 16 -> 0 < popvarR (map FR l) ->
  exists f, fvariance_run (FA h) true (map NF l) = [NF f] /\ ffin f /\
    Rabs (FR f - popvarR (map FR l))
    <= 31 * INR (length l) * u53 * kappa_fvar Rr (map FR l) * popvarR (map FR l) + 7 * eta64.
Proof.
  intros Hne Hl Hrg HR Hb Hfin Hn Hvar.
  destruct (fvariance_reduce_error h l lo hi Rr Hne Hl Hrg HR Hb Hfin) as (f & E & Ff & B).
  exists f. split; [exact E|]. split; [exact Ff|]. eapply Rle_trans; [exact B|]. clear B E Ff Hfin.
  assert (Hbox : lo <= hi) by (destruct l as [|x r]; [congruence|]; inversion Hrg; subst; lra).
  assert (HRr : 0 <= Rr) by lra.
  set (xs := map FR l) in *.
  assert (Hlen : length xs = length l) by apply map_length.
  assert (Hn1 : (1 <= length xs)%nat) by (rewrite Hlen; destruct l; [congruence|cbn; lia]).
  assert (HN : 1 <= INR (length xs)) by (change 1 with (INR 1); apply le_INR; exact Hn1).
  rewrite <- Hlen in Hn |- *.
  pose proof u53_pos as U. pose proof u53_small as U5. pose proof eta64_pos as He. pose proof tiny64_nonneg as Ht.
  assert (Eeta : eta64 = u53 * tiny64) by (unfold tiny64; pose proof u53_gt0; field; lra).
  unfold fvar_bound. cbv zeta. unfold fitem_bound, fmean_bound, kappa_fvar.
  set (N := INR (length xs)) in *. set (a := N * u53) in *.
  assert (HiN : 0 < / N) by (apply Rinv_0_lt_compat; lra).
  assert (Hua : u53 <= a) by (unfold a; rewrite <- (Rmult_1_l u53) at 1; apply Rmult_le_compat_r; lra).
  set (T1 := sumR (map Rabs xs)) in *.
  assert (HT1 : Rabs (sumR xs) <= T1).
  { unfold T1. clear. induction xs as [|x r IH]; cbn; [rewrite Rabs_R0; lra|]. eapply Rle_trans; [apply Rabs_triang|].
    fold (sumR r). fold (sumR (map Rabs r)). lra. }
  assert (HS0 : 0 <= Rabs (sumR xs)) by apply Rabs_pos. assert (HT10 : 0 <= T1) by lra.
  set (M := mean_abs xs). assert (EM : M = T1 * / N) by reflexivity.
  assert (Emu : Rabs (meanR xs) = Rabs (sumR xs) * / N).
  { unfold meanR, Rdiv. fold N. rewrite Rabs_mult, (Rabs_pos_eq (/ N)) by lra. reflexivity. }
  assert (Hamu : Rabs (meanR xs) <= M) by (rewrite Emu, EM; apply Rmult_le_compat_r; lra).
  (* first pass *)
  pose proof (pysum_bound_lin (length xs) (Rabs (sumR xs)) T1 Hn1 Hn HS0 HT10) as L1. fold N in L1. fold a in L1.
  pose proof (pysum_bound_nonneg (length xs - 1) (Rabs (sumR xs)) T1 HS0 HT10) as L0.
  set (PB1 := pysum_bound (length xs - 1) (Rabs (sumR xs)) T1) in *.
  assert (HPBN : PB1 / N <= u53 * Rabs (meanR xs) + / 10 * a * M).
  { rewrite Emu, EM. unfold Rdiv. replace (u53 * (Rabs (sumR xs) * / N) + / 10 * a * (T1 * / N))
      with ((u53 * Rabs (sumR xs) + / 10 * a * T1) * / N) by ring. apply Rmult_le_compat_r; lra. }
  assert (HPBN0 : 0 <= PB1 / N) by (unfold Rdiv; apply Rmult_le_pos; lra).
  destruct (em_lin u53 eta64 tiny64 a (Rabs (meanR xs)) M (PB1 / N) U U5 Eeta Ht Hua (Rabs_pos _) Hamu HPBN0 HPBN) as (Hem0 & Hem).
  set (em := PB1 / N * (1 + u53) + u53 * Rabs (meanR xs) + eta64) in *.
  fold (fvar_mag xs) in Hem. unfold fvar_mag in Hem. fold M in Hem. set (M' := 3 * M + tiny64) in *.
  assert (HM0 : 0 <= M) by (rewrite EM; apply Rmult_le_pos; lra).
  assert (HM' : 0 <= M') by (unfold M'; lra).
  (* items *)
  destruct (w_lin u53 eta64 a Rr M' em U He Hua Hn HRr HM' Hem0 Hem) as (Hw0 & Hw).
  set (w := 11 * u53 * ((Rr + em) * (Rr + em)) + 4 * eta64 + em * (2 * Rr + em)) in *.
  (* second pass *)
  set (sq := sqdev (meanR xs) xs) in *. assert (Hsq : 0 <= sq) by apply sqdev_nonneg.
  assert (Evar : popvarR xs = sq * / N) by reflexivity.
  set (T2 := sq + N * w) in *. assert (HT2 : 0 <= T2) by (unfold T2; assert (0 <= N * w) by (apply Rmult_le_pos; lra); lra).
  pose proof (pysum_bound_lin (length xs) T2 T2 Hn1 Hn HT2 HT2) as L2. fold N in L2. fold a in L2.
  pose proof (pysum_bound_nonneg (length xs - 1) T2 T2 HT2 HT2) as L20.
  set (P2 := pysum_bound (length xs - 1) T2 T2) in *.
  assert (HP2N : P2 * / N <= (u53 + / 10 * a) * (popvarR xs + w)).
  { rewrite Evar. replace ((u53 + / 10 * a) * (sq * / N + w)) with ((u53 * T2 + / 10 * a * T2) * / N) by (unfold T2; field; lra).
    apply Rmult_le_compat_r; lra. }
  assert (HP2N0 : 0 <= P2 * / N) by (apply Rmult_le_pos; lra).
  set (Zq := Rr * Rr + Rr * M' + M' * M').
  assert (HZ : 0 <= Zq).
  { unfold Zq. assert (0 <= Rr * Rr) by (apply Rmult_le_pos; assumption). assert (0 <= Rr * M') by (apply Rmult_le_pos; assumption).
    assert (0 <= M' * M') by (apply Rmult_le_pos; assumption). lra. }
  pose proof (fvar_lin u53 eta64 a (popvarR xs) w Zq (P2 * / N) U U5 He Hua Hn (Rlt_le _ _ Hvar) HZ Hw0 Hw HP2N0 HP2N) as FL.
  replace ((N * w + P2) / N) with (w + P2 * / N) by (field; lra).
  fold (popvarR xs). unfold fvar_mag. fold M. fold M'. fold Zq.
  replace (31 * N * u53 * (1 + Zq / popvarR xs) * popvarR xs) with (31 * a * (popvarR xs + Zq)) by (unfold a; field; lra).
  exact FL.
Qed.

(* ================= (6b) the two-pass formal stddev ================= *)
Theorem relform_fstddev (h : hints) (l : list pfloat) (lo hi Rr : R) :
  l <> [] -> Forall ffin l -> Forall (fun x => lo <= FR x <= hi) l -> hi - lo <= Rr ->
  (Z.of_nat (length l) < 2 ^ 53)%Z -> fstd_fin h l = true ->
  INR (length l) * u53 <= / 16 -> 0 < popvarR (map FR l) ->
  exists g, fstddev_run (FA h) true (map NF l) = [NF g] /\ ffin g /\
    Rabs (FR g - rsqrt (popvarR (map FR l)))
    <= 39 * INR (length l) * u53 * kappa_fvar Rr (map FR l) * rsqrt (popvarR (map FR l))
       + 9 * eta64 / rsqrt (popvarR (map FR l)).
Proof.
  intros Hne Hl Hrg HR Hb Hfin Hn Hvar. unfold fstd_fin in Hfin. apply andb_prop in Hfin. destruct Hfin as (Hv & Hs).
  destruct (relform_fvariance h l lo hi Rr Hne Hl Hrg HR Hb Hv Hn Hvar) as (f & E & Ff & B).
  assert (Ef : f = fpopvar h l).
  { rewrite fvariance_run_reduce, (fvar_out_floats h l Hne) in E. injection E as E. symmetry. exact E. }
  assert (Pf : 0 <= FR f) by (apply sqrt_fin_nonneg; [exact Ff|rewrite Ef; exact Hs]).
  set (var := popvarR (map FR l)) in *.
  destruct (sqrt_rel_err f var _ Ff Pf Hvar B) as (Fg & Bg).
  exists (fsqrt f). split; [unfold fstddev_run; rewrite E; reflexivity|]. split; [exact Fg|].
  eapply Rle_trans; [exact Bg|].
  assert (Hsv : 0 < rsqrt var) by (apply sqrt_lt_R0; exact Hvar).
  assert (Esv : rsqrt var * rsqrt var = var) by (apply sqrt_sqrt; lra).
  assert (Hbox : lo <= hi) by (destruct l as [|x r]; [congruence|]; inversion Hrg; subst; lra).
  assert (HM' : 0 <= fvar_mag (map FR l)).
  { unfold fvar_mag, mean_abs. pose proof tiny64_nonneg.
    assert (0 <= sumR (map Rabs (map FR l)) / INR (length (map FR l))).
    { unfold Rdiv. apply Rmult_le_pos.
      - rewrite map_map. apply sumR_abs_nonneg.
      - apply Rlt_le, Rinv_0_lt_compat, lt_0_INR. rewrite map_length. destruct l; [congruence|cbn; lia]. }
    lra. }
  assert (HK : 1 <= kappa_fvar Rr (map FR l)).
  { unfold kappa_fvar. fold var.
    assert (0 <= (Rr * Rr + Rr * fvar_mag (map FR l) + fvar_mag (map FR l) * fvar_mag (map FR l)) / var).
    { unfold Rdiv. apply Rmult_le_pos; [|apply Rlt_le, Rinv_0_lt_compat; exact Hvar].
      assert (0 <= Rr) by lra. assert (0 <= Rr * Rr) by (apply Rmult_le_pos; assumption).
      assert (0 <= Rr * fvar_mag (map FR l)) by (apply Rmult_le_pos; assumption).
      assert (0 <= fvar_mag (map FR l) * fvar_mag (map FR l)) by (apply Rmult_le_pos; assumption). lra. }
    lra. }
  set (K := kappa_fvar Rr (map FR l)) in *. set (sv := rsqrt var) in *. set (N := INR (length l)) in *.
  assert (HN : 1 <= N) by (change 1 with (INR 1); apply le_INR; destruct l; [congruence|cbn; lia]).
  pose proof u53_pos as U. pose proof u53_small as U5. pose proof eta64_pos as He.
  set (a := N * u53) in *.
  assert (Ha : 0 <= a) by (unfold a; apply Rmult_le_pos; lra).
  assert (Hua : u53 <= a) by (unfold a; rewrite <- (Rmult_1_l u53) at 1; apply Rmult_le_compat_r; lra).
  assert (aK : 0 <= a * K) by (apply Rmult_le_pos; lra).
  assert (aKs : 0 <= a * K * sv) by (apply Rmult_le_pos; lra).
  assert (E1 : (31 * N * u53 * K * var + 7 * eta64) / sv = 31 * (a * K * sv) + 7 * (eta64 / sv)).
  { unfold a. rewrite <- Esv. field. lra. }
  rewrite E1.
  assert (Hes : 0 <= eta64 / sv) by (unfold Rdiv; apply Rmult_le_pos; [exact He|apply Rlt_le, Rinv_0_lt_compat; exact Hsv]).
  assert (T1 : u53 * sv <= a * K * sv).
  { apply Rmult_le_compat_r; [lra|]. apply Rle_trans with (a * 1); [lra|apply Rmult_le_compat_l; assumption]. }
  assert (T2 : u53 * (31 * (a * K * sv)) <= / 5 * (31 * (a * K * sv))) by (apply Rmult_le_compat_r; lra).
  assert (T3 : u53 * (7 * (eta64 / sv)) <= / 5 * (7 * (eta64 / sv))) by (apply Rmult_le_compat_r; lra).
  replace (39 * N * u53 * K * sv) with (39 * (a * K * sv)) by (unfold a; ring).
  replace (9 * eta64 / sv) with (9 * (eta64 / sv)) by (unfold Rdiv; ring).
  lra.
Qed.
