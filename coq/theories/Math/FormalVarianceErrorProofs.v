(* C12, floating point: a binary64 ERROR BOUND for the two-pass population variance fvariance_run (FA h) and for
   fstddev_run (FA h) (rxsci/math/formal), against the exact population variance (1/n) sum (X_i - mu)^2.
   General hints h: a hinted x ** 2 is accepted by the model only when it is the correctly rounded product or one
   of its two binary64 neighbours, which costs at most one more ulp.  The two sums are CPython's compensated
   builtin sum, bounded in PySumErrorProofs.v (Fast2Sum-exactness route). *)
From Coq Require Import List ZArith Reals Lra Lia Floats Bool.
From Flocq Require Import Core BinarySingleNaN PrimFloat Relative Plus_error.
From RxVerif Require Import Math.Exact Math.FloatModel Math.SumErrorProofs Math.MeanErrorProofs Math.FloatOpsProofs
  Math.VarianceNonnegProofs Math.WelfordReal Math.WelfordErrorProofs Math.StddevErrorProofs Math.PySumErrorProofs.
Import ListNotations.
Open Scope R_scope.

Notation pnext_up := Coq.Floats.PrimFloat.next_up.
Notation pnext_down := Coq.Floats.PrimFloat.next_down.
Notation pnan := Coq.Floats.PrimFloat.nan.
Notation ulp64 := (ulp radix2 fexp64).
Notation succ64 := (succ radix2 fexp64).
Notation pred64 := (pred radix2 fexp64).

(* ---- one ulp in binary64 ---- *)
Lemma valid64 : Valid_exp fexp64.
Proof. apply FLT_exp_valid. exact Hprec. Qed.
Lemma ulp64_bound (x : R) : ulp64 x <= 2 * u53 * Rabs x + 2 * eta64.
Proof.
  pose proof eta64_pos as He. pose proof u53_pos as U. pose proof (Rabs_pos x) as Px.
  assert (0 <= u53 * Rabs x) by (apply Rmult_le_pos; assumption).
  destruct (Rle_or_lt (bpow radix2 ((3 - emax - prec) + prec - 1)) (Rabs x)) as [H1|H1].
  - pose proof (@ulp_FLT_le radix2 (3 - emax - prec) prec x H1) as B.
    replace (bpow radix2 (1 - prec)) with (2 * u53) in B; [lra|].
    unfold u53, u_ro. replace (- prec + 1)%Z with (1 - prec)%Z by ring. field.
  - rewrite (@ulp_FLT_small radix2 (3 - emax - prec) prec Hprec x).
    + unfold eta64. lra.
    + eapply Rlt_le_trans; [exact H1|]. apply bpow_le. lia.
Qed.

Lemma succ64_err (p : R) : 0 <= p -> Rabs (succ64 p - p) <= ulp64 p.
Proof.
  intro Hp. rewrite succ_eq_pos by exact Hp. replace (p + ulp64 p - p) with (ulp64 p) by ring.
  rewrite Rabs_pos_eq; [lra|apply ulp_ge_0].
Qed.
Lemma pred64_err (p : R) : F64 p -> 0 <= p -> Rabs (pred64 p - p) <= ulp64 p.
Proof.
  intros Fp Hp. destruct (Req_dec p 0) as [->|Hne].
  - rewrite pred_0. replace (- ulp64 0 - 0) with (- ulp64 0) by ring. rewrite Rabs_Ropp, Rabs_pos_eq; [lra|apply ulp_ge_0].
  - assert (Hpos : 0 < p) by lra.
    pose proof (@pred_plus_ulp radix2 fexp64 valid64 p Hpos Fp) as E.
    pose proof (@pred_ge_0 radix2 fexp64 valid64 p Hpos Fp) as P0. pose proof (pred_le_id radix2 fexp64 p) as P1.
    assert (L : ulp64 (pred64 p) <= ulp64 p).
    { apply (@ulp_le radix2 fexp64 valid64 (FLT_exp_monotone _ _)). rewrite !Rabs_pos_eq; lra. }
    replace (pred64 p - p) with (- ulp64 (pred64 p)) by lra.
    rewrite Rabs_Ropp, Rabs_pos_eq; [exact L|apply ulp_ge_0].
Qed.

(* ---- next_up / next_down of a finite float ---- *)
Lemma next_up_R (p : pfloat) : ffin p -> ffin (pnext_up p) -> FR (pnext_up p) = succ64 (FR p).
Proof.
  intros Hp Hn. apply ffin_equiv in Hp, Hn. unfold FR. rewrite next_up_equiv in *.
  pose proof (Bsucc_correct prec emax Hprec Hmax (Prim2B p) Hp) as C.
  destruct (Rlt_bool _ _); [apply C|].
  rewrite <- is_finite_SF_B2SF in Hn. rewrite C in Hn. discriminate.
Qed.
Lemma next_down_R (p : pfloat) : ffin p -> ffin (pnext_down p) -> FR (pnext_down p) = pred64 (FR p).
Proof.
  intros Hp Hn. apply ffin_equiv in Hp, Hn. unfold FR. rewrite next_down_equiv in *.
  pose proof (Bpred_correct prec emax Hprec Hmax (Prim2B p) Hp) as C.
  destruct (Rlt_bool _ _); [apply C|].
  rewrite <- is_finite_SF_B2SF in Hn. rewrite C in Hn. discriminate.
Qed.

Lemma fbits_eqb_eq (a b : pfloat) : fbits_eqb a b = true -> a = b.
Proof. apply Leibniz.eqb_spec. Qed.

(* x ** 2 in the model: the rounded product, one of its neighbours, or NaN (rejected hint) *)
Lemma fpow2_cases (h : hints) (n i : Z) (d : pfloat) :
  fpow2 h n i d = (d * d)%float \/ fpow2 h n i d = pnext_up (d * d)%float
  \/ fpow2 h n i d = pnext_down (d * d)%float \/ fpow2 h n i d = pnan.
Proof.
  unfold fpow2. destruct (find_hint h n i) as [v|]; [|left; reflexivity].
  destruct (within_ulp v (d * d)%float) eqn:W; [|right; right; right; reflexivity].
  unfold within_ulp in W. apply orb_prop in W. destruct W as [W|W]; [apply orb_prop in W; destruct W as [W|W]|];
    apply fbits_eqb_eq in W; auto.
Qed.

Lemma fpow2_err (h : hints) (n i : Z) (d : pfloat) :
  ffin (d * d)%float -> ffin (fpow2 h n i d) ->
  Rabs (FR (fpow2 h n i d) - FR d * FR d) <= 4 * u53 * (FR d * FR d) + 4 * eta64.
Proof.
  intros Fp Fq. pose proof (mul_bwd d d Fp) as Ep.
  destruct (RND_err (FR d * FR d)) as (e & hh & Be & Bh & Er). rewrite <- Ep in Er.
  set (p := FR (d * d)%float) in *. set (s := FR d * FR d) in *.
  assert (Hs : 0 <= s) by (unfold s; pose proof (Rle_0_sqr (FR d)) as Q; unfold Rsqr in Q; exact Q).
  assert (Hp : 0 <= p) by (rewrite Ep; apply RND_nonneg; exact Hs).
  pose proof u53_pos as U. pose proof u53_small as U5. pose proof eta64_pos as He.
  assert (Hps : Rabs (p - s) <= u53 * s + eta64).
  { rewrite Er. replace (s * (1 + e) + hh - s) with (e * s + hh) by ring.
    eapply Rle_trans; [apply Rabs_triang|]. rewrite Rabs_mult, (Rabs_pos_eq s) by exact Hs.
    assert (Rabs e * s <= u53 * s) by (apply Rmult_le_compat_r; assumption). lra. }
  assert (Hpb : p <= s * (1 + u53) + eta64) by (apply Rabs_le_inv in Hps; lra).
  assert (Hus : 0 <= u53 * s) by (apply Rmult_le_pos; assumption).
  assert (Hulp : ulp64 p <= 3 * u53 * s + 3 * eta64).
  { eapply Rle_trans; [apply ulp64_bound|]. rewrite (Rabs_pos_eq p) by exact Hp.
    assert (A1 : u53 * p <= u53 * (s * (1 + u53) + eta64)) by (apply Rmult_le_compat_l; assumption).
    assert (A2 : u53 * (u53 * s) <= / 5 * (u53 * s)) by (apply Rmult_le_compat_r; lra).
    assert (A3 : u53 * eta64 <= / 5 * eta64) by (apply Rmult_le_compat_r; lra).
    replace (u53 * (s * (1 + u53) + eta64)) with (u53 * s + u53 * (u53 * s) + u53 * eta64) in A1 by ring. lra. }
  assert (Hq : Rabs (FR (fpow2 h n i d) - p) <= ulp64 p).
  { destruct (fpow2_cases h n i d) as [E|[E|[E|E]]]; rewrite E in *.
    - fold p. replace (p - p) with 0 by ring. rewrite Rabs_R0. apply ulp_ge_0.
    - rewrite (next_up_R _ Fp Fq). apply succ64_err. exact Hp.
    - rewrite (next_down_R _ Fp Fq). apply pred64_err; [apply F64_FR|exact Hp].
    - discriminate Fq. }
  replace (FR (fpow2 h n i d) - s) with ((FR (fpow2 h n i d) - p) + (p - s)) by ring.
  eapply Rle_trans; [apply Rabs_triang|]. lra.
Qed.

(* ---- the model of formal/variance.py on lists of floats ---- *)
Definition fmean (l : list pfloat) : pfloat :=
  (pysum_f (map (fun v => (v - zero)%float) l) / f_of_Z (zlen l))%float.
Definition fsq (h : hints) (n : Z) (m : pfloat) (k : Z) (l : list pfloat) : list pfloat :=
  mapi_from (fun i v => fpow2 h n i (v - m)%float) k l.
Definition fpopvar (h : hints) (l : list pfloat) : pfloat :=
  (pysum_f (fsq h (zlen l) (fmean l) 0%Z l) / f_of_Z (zlen l))%float.

Lemma zlen_map {X Y} (f : X -> Y) (l : list X) : zlen (map f l) = zlen l.
Proof. unfold zlen. rewrite map_length. reflexivity. Qed.

Lemma moment1_floats (h : hints) (l : list pfloat) : moment1 (FA h) (map NF l) = NF (fmean l).
Proof.
  unfold moment1, fmean. cbn [div pysum of_int FA]. unfold ndiv. rewrite map_map, zlen_map. cbn [to_f].
  change (map (fun x : pfloat => pow1 (FA h) (sub (FA h) (NF x) (NI 0))) l)
    with (map (fun x : pfloat => NF ((fun v => (v - zero)%float) x)) l).
  rewrite <- (map_map (fun v => (v - zero)%float) NF), npysum_to_f. reflexivity.
Qed.

Lemma mapi_NF (h : hints) (n : Z) (m : pfloat) : forall (l : list pfloat) (k : Z),
  mapi_from (fun i v => pow2 (FA h) n i (sub (FA h) v (NF m))) k (map NF l) = map NF (fsq h n m k l).
Proof. induction l as [|x r IH]; intro k; [reflexivity|]. cbn [map mapi_from fsq]. rewrite IH. reflexivity. Qed.

Lemma fvar_out_floats (h : hints) (l : list pfloat) : l <> [] -> fvar_out (FA h) (map NF l) = NF (fpopvar h l).
Proof.
  intro Hne. unfold fvar_out. rewrite zlen_map.
  destruct (zlen l =? 0)%Z eqn:E.
  - apply Z.eqb_eq in E. unfold zlen in E. destruct l; [congruence|cbn [length] in E; lia].
  - rewrite moment1_floats. unfold moment2, fpopvar. cbn [div pysum of_int FA]. unfold ndiv.
    rewrite zlen_map, mapi_NF, npysum_to_f. reflexivity.
Qed.

(* every intermediate float of the two-pass variance of l is finite (executable) *)
Definition fvar_fin (h : hints) (l : list pfloat) : bool :=
  let m := fmean l in
  let qs := fsq h (zlen l) m 0%Z l in
  (pysum_fin (map (fun v => (v - zero)%float) l) && pfin m
   && forallb (fun v => pfin ((v - m) * (v - m))%float) l
   && forallb pfin qs && pysum_fin qs && pfin (fpopvar h l))%bool.

(* ---- real-number lemmas ---- *)
Lemma sumR_range (lo hi : R) (l : list R) : Forall (fun x => lo <= x <= hi) l ->
  INR (length l) * lo <= sumR l <= INR (length l) * hi.
Proof.
  induction 1 as [|x r Hx Hr IH]; [cbn; lra|]. cbn [length sumR fold_right]. fold (sumR r). rewrite S_INR. lra.
Qed.
Lemma meanR_range (lo hi : R) (l : list R) : l <> [] -> Forall (fun x => lo <= x <= hi) l -> lo <= meanR l <= hi.
Proof.
  intros Hne H. pose proof (sumR_range lo hi l H) as B.
  assert (Hn : 0 < INR (length l)) by (apply lt_0_INR; destruct l; [congruence|cbn; lia]).
  assert (Hi : 0 < / INR (length l)) by (apply Rinv_0_lt_compat; exact Hn).
  unfold meanR, Rdiv. split.
  - replace lo with (INR (length l) * lo * / INR (length l)) by (field; lra).
    apply Rmult_le_compat_r; lra.
  - replace hi with (INR (length l) * hi * / INR (length l)) by (field; lra).
    apply Rmult_le_compat_r; lra.
Qed.

(* a quotient by the exact count, one rounding: v = S / k (1 + d) + hh against sg / k *)
Lemma div_err_bound (u eta S sg F k1 d hh v : R) :
  0 <= u -> 0 < k1 -> Rabs (S - sg) <= F -> Rabs d <= u -> Rabs hh <= eta ->
  v = S / k1 * (1 + d) + hh ->
  Rabs (v - sg / k1) <= F / k1 * (1 + u) + u * Rabs (sg / k1) + eta.
Proof.
  intros Hu Hk HF Hd Hh ->.
  assert (Hik : 0 < / k1) by (apply Rinv_0_lt_compat; exact Hk).
  replace (S / k1 * (1 + d) + hh - sg / k1) with ((S - sg) * / k1 * (1 + d) + d * (sg / k1) + hh) by (field; lra).
  assert (B0 : Rabs (1 + d) <= 1 + u).
  { eapply Rle_trans; [apply Rabs_triang|]. rewrite Rabs_R1. lra. }
  assert (B1 : Rabs ((S - sg) * / k1 * (1 + d)) <= F * / k1 * (1 + u)).
  { apply Rabs_mult_le; [|exact B0]. apply Rabs_mult_le; [exact HF|]. rewrite Rabs_pos_eq; lra. }
  assert (B2 : Rabs (d * (sg / k1)) <= u * Rabs (sg / k1)).
  { apply Rabs_mult_le; [exact Hd|lra]. }
  eapply Rle_trans; [apply Rabs_triang|]. eapply Rle_trans; [apply Rplus_le_compat_r, Rabs_triang|].
  unfold Rdiv in *. lra.
Qed.

(* one squared deviation: q ~ d^2, d = (X - m)(1 + e1), against (X - mu)^2 *)
Lemma item_err (u eta X m mu Rr em e1 q : R) :
  0 <= u -> 5 * u <= 1 -> 0 <= eta -> Rabs (X - mu) <= Rr -> Rabs (m - mu) <= em -> Rabs e1 <= u ->
  Rabs (q - ((X - m) * (1 + e1)) * ((X - m) * (1 + e1)))
    <= 4 * u * (((X - m) * (1 + e1)) * ((X - m) * (1 + e1))) + 4 * eta ->
  Rabs (q - (X - mu) * (X - mu))
    <= 11 * u * ((Rr + em) * (Rr + em)) + 4 * eta + em * (2 * Rr + em).
Proof.
  intros Hu Hu5 He Hb Hm H1 Hq.
  set (a := X - m) in *. set (b := X - mu) in *. set (D := Rr + em).
  assert (HRr : 0 <= Rr) by (eapply Rle_trans; [apply Rabs_pos|exact Hb]).
  assert (Hem : 0 <= em) by (eapply Rle_trans; [apply Rabs_pos|exact Hm]).
  assert (Ha : Rabs a <= D).
  { replace a with (b - (m - mu)) by (unfold a, b; ring). eapply Rle_trans; [apply Rabs_triang|].
    rewrite Rabs_Ropp. unfold D. lra. }
  assert (Haa0 : 0 <= a * a) by (pose proof (Rle_0_sqr a) as Q; unfold Rsqr in Q; exact Q).
  assert (Haa : a * a <= D * D).
  { rewrite <- (Rabs_pos_eq (a * a)) by exact Haa0. apply Rabs_mult_le; exact Ha. }
  assert (HDD : 0 <= D * D) by lra.
  set (P := (1 + e1) * (1 + e1) - 1).
  assert (HP : Rabs P <= 3 * u) by (apply err2; [lra|exact H1|exact H1]).
  replace ((a * (1 + e1)) * (a * (1 + e1))) with (a * a * (1 + P)) in Hq by (unfold P; ring).
  set (dd := a * a * (1 + P)) in *.
  assert (HP' : - (3 * u) <= P <= 3 * u) by (apply Rabs_le_inv; exact HP).
  assert (Hdd1 : Rabs (dd - a * a) <= (D * D) * (3 * u)).
  { unfold dd. replace (a * a * (1 + P) - a * a) with ((a * a) * P) by ring.
    apply Rabs_mult_le; [rewrite Rabs_pos_eq by exact Haa0; exact Haa|exact HP]. }
  assert (Hdd2 : dd <= (D * D) * 2).
  { unfold dd. apply Rmult_le_compat; lra. }
  assert (Hdd0 : 0 <= dd) by (unfold dd; apply Rmult_le_pos; lra).
  assert (Hq' : Rabs (q - dd) <= 4 * u * ((D * D) * 2) + 4 * eta).
  { eapply Rle_trans; [exact Hq|]. assert (4 * u * dd <= 4 * u * ((D * D) * 2)) by (apply Rmult_le_compat_l; lra). lra. }
  assert (Hab : Rabs (a * a - b * b) <= em * (2 * Rr + em)).
  { replace (a * a - b * b) with ((- (m - mu)) * (2 * b + - (m - mu))) by (unfold a, b; ring).
    apply Rabs_mult_le; [rewrite Rabs_Ropp; exact Hm|].
    eapply Rle_trans; [apply Rabs_triang|]. rewrite Rabs_Ropp, Rabs_mult, (Rabs_pos_eq 2) by lra. lra. }
  replace (q - b * b) with ((q - dd) + (dd - a * a) + (a * a - b * b)) by ring.
  eapply Rle_trans; [apply Rabs_triang|]. eapply Rle_trans; [apply Rplus_le_compat_r, Rabs_triang|].
  fold D. lra.
Qed.

(* sums of values that are item-wise close to g *)
Lemma sum_err_items (g : pfloat -> R) (w : R) : forall (l qs : list pfloat),
  Forall2 (fun v q => Rabs (FR q - g v) <= w) l qs ->
  Rabs (sumR (map FR qs) - sumR (map g l)) <= INR (length l) * w /\
  ((forall v, 0 <= g v) -> sumR (map (fun q => Rabs (FR q)) qs) <= sumR (map g l) + INR (length l) * w).
Proof.
  induction 1 as [|v q l qs Hvq Hr IH].
  - cbn. rewrite Rminus_0_r, Rabs_R0. split; [lra|intros _; lra].
  - destruct IH as (IH1 & IH2). cbn [map sumR fold_right length].
    fold (sumR (map FR qs)). fold (sumR (map g l)). fold (sumR (map (fun q0 => Rabs (FR q0)) qs)).
    rewrite S_INR. split.
    + replace (FR q + sumR (map FR qs) - (g v + sumR (map g l)))
        with ((FR q - g v) + (sumR (map FR qs) - sumR (map g l))) by ring.
      eapply Rle_trans; [apply Rabs_triang|]. lra.
    + intro Hg. specialize (IH2 Hg). specialize (Hg v).
      assert (Rabs (FR q) <= g v + w).
      { replace (FR q) with ((FR q - g v) + g v) by ring. eapply Rle_trans; [apply Rabs_triang|].
        rewrite (Rabs_pos_eq (g v)) by exact Hg. lra. }
      lra.
Qed.

(* ---- the bounds (functions of the exact items xs and of the spread Rr) ---- *)
(* |m - mu|: compensated sum, one division *)
Definition fmean_bound (xs : list R) : R :=
  pysum_bound (length xs - 1) (Rabs (sumR xs)) (sumR (map Rabs xs)) / INR (length xs) * (1 + u53)
  + u53 * Rabs (meanR xs) + eta64.
(* |q_i - (X_i - mu)^2| for one item, em = the bound on |m - mu| *)
Definition fitem_bound (Rr em : R) : R :=
  11 * u53 * ((Rr + em) * (Rr + em)) + 4 * eta64 + em * (2 * Rr + em).
(* |v - popvar| *)
Definition fvar_bound (Rr : R) (xs : list R) : R :=
  let N := INR (length xs) in
  let w := fitem_bound Rr (fmean_bound xs) in
  let T2 := sqdev (meanR xs) xs + N * w in
  (N * w + pysum_bound (length xs - 1) T2 T2) / N * (1 + u53) + u53 * (sqdev (meanR xs) xs / N) + eta64.
(* the exact population variance *)
Definition popvarR (xs : list R) : R := sqdev (meanR xs) xs / INR (length xs).

Lemma minus_zero (v : pfloat) : ffin v -> ffin (v - zero)%float /\ FR (v - zero)%float = FR v.
Proof.
  intro Fv. destruct (sub_fwd v zero Fv eq_refl) as (F1 & E1).
  - rewrite FR_zero, Rminus_0_r. apply in_range_FR. exact Fv.
  - split; [exact F1|]. rewrite E1, FR_zero, Rminus_0_r. apply RND_FR.
Qed.
Lemma map_minus_zero (l : list pfloat) : Forall ffin l ->
  Forall ffin (map (fun v => (v - zero)%float) l) /\ map FR (map (fun v => (v - zero)%float) l) = map FR l.
Proof.
  induction 1 as [|v r Fv Hr (IH1 & IH2)]; [split; [constructor|reflexivity]|].
  destruct (minus_zero v Fv) as (F1 & E1). cbn [map]. split; [constructor; assumption|]. rewrite E1, IH2. reflexivity.
Qed.

Lemma count_exact (l : list pfloat) : l <> [] -> (Z.of_nat (length l) < 2 ^ 53)%Z ->
  ffin (f_of_Z (zlen l)) /\ FR (f_of_Z (zlen l)) = INR (length l) /\ 0 < INR (length l).
Proof.
  intros Hne Hb. destruct (f_of_Z_exact (zlen l)) as (Fk & Ek); [unfold zlen; lia|].
  split; [exact Fk|]. split; [rewrite Ek; unfold zlen; symmetry; apply INR_IZR_INZ|].
  apply lt_0_INR. destruct l; [congruence|cbn; lia].
Qed.

(* first pass: the mean *)
Lemma fmean_error (l : list pfloat) :
  l <> [] -> Forall ffin l -> (Z.of_nat (length l) < 2 ^ 53)%Z ->
  pysum_fin (map (fun v => (v - zero)%float) l) = true -> ffin (fmean l) ->
  Rabs (FR (fmean l) - meanR (map FR l)) <= fmean_bound (map FR l).
Proof.
  intros Hne Hl Hb Hfin Fm. destruct (map_minus_zero l Hl) as (Hl0 & E0).
  destruct (count_exact l Hne Hb) as (Fk & Ek & Hn).
  destruct (pysum_error (map (fun v => (v - zero)%float) l)) as (Fs & B); try assumption.
  { destruct l; [congruence|discriminate]. }
  rewrite <- (map_map FR Rabs), E0, map_length in B.
  unfold fmean in *. set (s1 := pysum_f (map (fun v => (v - zero)%float) l)) in *.
  destruct (div_finite_error s1 (f_of_Z (zlen l)) Fs Fk) as (e & hh & Be & Bh & Eq); [rewrite Ek; lra|exact Fm|].
  rewrite Ek in Eq. unfold fmean_bound, meanR. rewrite !map_length.
  apply (div_err_bound u53 eta64 (FR s1) (sumR (map FR l)) _ (INR (length l)) e hh); try assumption.
  apply u53_pos.
Qed.

(* second pass, item by item *)
Lemma fsq_items (h : hints) (n : Z) (m : pfloat) (g : pfloat -> R) (w : R) (P : pfloat -> Prop) :
  (forall i v, P v -> ffin ((v - m) * (v - m))%float -> ffin (fpow2 h n i (v - m)%float) ->
               Rabs (FR (fpow2 h n i (v - m)%float) - g v) <= w) ->
  forall (l : list pfloat) (k : Z), Forall P l ->
  forallb (fun v => pfin ((v - m) * (v - m))%float) l = true -> forallb pfin (fsq h n m k l) = true ->
  Forall2 (fun v q => Rabs (FR q - g v) <= w) l (fsq h n m k l).
Proof.
  intros Hitem. induction l as [|v r IH]; intros k HP Hd Hq; [constructor|].
  inversion HP as [|? ? Pv Pr]; subst. cbn [forallb fsq mapi_from] in *.
  apply andb_prop in Hd. destruct Hd as (Hd1 & Hdr). apply andb_prop in Hq. destruct Hq as (Hq1 & Hqr).
  constructor; [apply Hitem; assumption|]. apply IH; assumption.
Qed.

Lemma Forall2_len {X Y} (R0 : X -> Y -> Prop) (a : list X) (b : list Y) : Forall2 R0 a b -> length a = length b.
Proof. induction 1; [reflexivity|]. cbn [length]. congruence. Qed.

(* ---- the two-pass population variance ---- *)
Theorem fpopvar_error (h : hints) (l : list pfloat) (lo hi Rr : R) :
  l <> [] -> Forall ffin l -> Forall (fun x => lo <= FR x <= hi) l -> hi - lo <= Rr ->
  (Z.of_nat (length l) < 2 ^ 53)%Z -> fvar_fin h l = true ->
  ffin (fpopvar h l) /\ Rabs (FR (fpopvar h l) - popvarR (map FR l)) <= fvar_bound Rr (map FR l).
Proof.
  intros Hne Hl Hrg HR Hb Hfin. unfold fvar_fin in Hfin. cbv zeta in Hfin.
  apply andb_prop in Hfin. destruct Hfin as (Hfin & H6). apply andb_prop in Hfin. destruct Hfin as (Hfin & H5).
  apply andb_prop in Hfin. destruct Hfin as (Hfin & H4). apply andb_prop in Hfin. destruct Hfin as (Hfin & H3).
  apply andb_prop in Hfin. destruct Hfin as (H1 & H2).
  split; [exact H6|].
  pose proof (fmean_error l Hne Hl Hb H1 H2) as EM.
  destruct (count_exact l Hne Hb) as (Fk & Ek & Hn).
  assert (Hrg' : Forall (fun x => lo <= x <= hi) (map FR l)) by (rewrite Forall_map; exact Hrg).
  assert (Hne' : map FR l <> []) by (destruct l; [congruence|discriminate]).
  pose proof (meanR_range lo hi (map FR l) Hne' Hrg') as Rmu.
  set (m := fmean l) in *. set (mu := meanR (map FR l)) in *. set (em := fmean_bound (map FR l)) in *.
  set (w := fitem_bound Rr em). set (qs := fsq h (zlen l) m 0%Z l) in *.
  pose proof u53_pos as U. pose proof u53_small as U5. pose proof eta64_pos as He.
  (* items *)
  assert (It : Forall2 (fun v q => Rabs (FR q - (FR v - mu) * (FR v - mu)) <= w) l qs).
  { apply (fsq_items h (zlen l) m (fun v => (FR v - mu) * (FR v - mu)) w (fun v => ffin v /\ lo <= FR v <= hi));
      try assumption.
    - intros i v (Fv & Rv) Fdd Fq. destruct (mul_fin_inv _ _ Fdd) as (Fd & _).
      pose proof (sub_bwd v m Fv H2 Fd) as Ed.
      destruct (RND_diff_err (FR v) (FR m) (F64_FR v) (F64_FR m)) as (e1 & B1 & E1). rewrite <- Ed in E1.
      pose proof (fpow2_err h (zlen l) i (v - m)%float Fdd Fq) as Q. rewrite E1 in Q.
      apply (item_err u53 eta64 (FR v) (FR m) mu Rr em e1); try assumption. apply Rabs_le. lra.
    - apply Forall_forall. intros v Hv. split; [exact (proj1 (Forall_forall _ _) Hl v Hv)|].
      exact (proj1 (Forall_forall _ _) Hrg v Hv). }
  pose proof (Forall2_len _ _ _ It) as Hlen.
  destruct (sum_err_items _ w l qs It) as (S1 & S2).
  assert (Hg : forall v : pfloat, 0 <= (FR v - mu) * (FR v - mu)).
  { intro v. pose proof (Rle_0_sqr (FR v - mu)) as Q. unfold Rsqr in Q. exact Q. }
  specialize (S2 Hg).
  assert (Esq : sumR (map (fun v : pfloat => (FR v - mu) * (FR v - mu)) l) = sqdev mu (map FR l)).
  { unfold sqdev. rewrite map_map. reflexivity. }
  rewrite Esq in S1, S2. set (sq := sqdev mu (map FR l)) in *.
  assert (Hsq : 0 <= sq) by apply sqdev_nonneg.
  set (N := INR (length l)) in *.
  (* second compensated sum *)
  assert (Hqne : qs <> []) by (intro E; rewrite E in Hlen; destruct l; [congruence|discriminate]).
  destruct (pysum_error qs Hqne (forallb_ffin _ H4) H5) as (Fs2 & B2).
  rewrite <- Hlen in B2.
  assert (A1 : Rabs (sumR (map FR qs)) <= sq + N * w).
  { replace (sumR (map FR qs)) with ((sumR (map FR qs) - sq) + sq) by ring.
    eapply Rle_trans; [apply Rabs_triang|]. rewrite (Rabs_pos_eq sq) by exact Hsq. lra. }
  pose proof (pysum_bound_mono (length l - 1) _ (sq + N * w) _ (sq + N * w) A1 S2) as M2.
  assert (F2 : Rabs (FR (pysum_f qs) - sq) <= N * w + pysum_bound (length l - 1) (sq + N * w) (sq + N * w)).
  { replace (FR (pysum_f qs) - sq) with ((FR (pysum_f qs) - sumR (map FR qs)) + (sumR (map FR qs) - sq)) by ring.
    eapply Rle_trans; [apply Rabs_triang|]. lra. }
  (* the last division *)
  unfold fpopvar in *. fold m in H6 |- *. fold qs in H6 |- *.
  destruct (div_finite_error (pysum_f qs) (f_of_Z (zlen l)) Fs2 Fk) as (e & hh & Be & Bh & Eq); [rewrite Ek; lra|exact H6|].
  rewrite Ek in Eq. unfold fvar_bound, popvarR. cbv zeta. rewrite !map_length.
  fold mu. fold em. fold w. fold sq. fold N.
  apply (out_bound u53 eta64 (FR (pysum_f qs)) sq _ N e hh); assumption.
Qed.

(* ---- the runs ---- *)
Lemma fvar_fold (A : arith) : forall (xs acc : list (T A)), fold_left (fvar_step A) xs acc = acc ++ xs.
Proof.
  induction xs as [|x r IH]; intro acc; [rewrite app_nil_r; reflexivity|].
  cbn [fold_left]. rewrite IH. unfold fvar_step. rewrite <- app_assoc. reflexivity.
Qed.
Lemma fvariance_run_reduce (A : arith) (xs : list (T A)) : fvariance_run A true xs = [fvar_out A xs].
Proof. unfold fvariance_run, scan_run. cbn [map]. rewrite fvar_fold. reflexivity. Qed.
Lemma fvariance_run_stream (A : arith) (xs : list (T A)) :
  fvariance_run A false xs = map (fun k => fvar_out A (firstn k xs)) (seq 1 (length xs)).
Proof.
  unfold fvariance_run, scan_run. rewrite scan_states_prefix, map_map. apply map_ext. intro k.
  rewrite fvar_fold. reflexivity.
Qed.

Lemma Forall2_map_self {X Y} (R0 : Y -> X -> Prop) (F : X -> Y) : forall idx : list X,
  (forall i, In i idx -> R0 (F i) i) -> Forall2 R0 (map F idx) idx.
Proof.
  induction idx as [|i r IH]; intro H; [constructor|]. cbn [map]. constructor; [apply H; left; reflexivity|].
  apply IH. intros j Hj. apply H. right. exact Hj.
Qed.

Lemma firstn_ne {X} (k : nat) (l : list X) : (1 <= k)%nat -> l <> [] -> firstn k l <> [].
Proof. intros Hk Hl. destruct k; [lia|]. destruct l; [congruence|discriminate]. Qed.

Lemma popvarR_nonneg (xs : list R) : xs <> [] -> 0 <= popvarR xs.
Proof.
  intro H. unfold popvarR, Rdiv. apply Rmult_le_pos; [apply sqdev_nonneg|].
  apply Rlt_le, Rinv_0_lt_compat, lt_0_INR. destruct xs; [congruence|cbn; lia].
Qed.

(* a finite square root has a non-negative argument *)
Lemma sqrt_fin_nonneg (x : pfloat) : ffin x -> ffin (fsqrt x) -> 0 <= FR x.
Proof.
  intros Hx Hs. apply ffin_equiv in Hx, Hs. unfold FR. rewrite sqrt_equiv in Hs.
  destruct (Prim2B x) as [sx|sx| |sx mx ex Bx]; try discriminate; cbn [B2R]; try lra.
  destruct sx; [discriminate Hs|]. apply F2R_ge_0. cbn. lia.
Qed.

(* finiteness for stddev: as for the variance, and the square root is finite (which excludes a variance below 0) *)
Definition fstd_fin (h : hints) (l : list pfloat) : bool := (fvar_fin h l && pfin (fsqrt (fpopvar h l)))%bool.

(* ================= the theorems =================
   xs = map FR l the exact items, all in [lo, hi] with hi - lo <= Rr; popvarR xs = (1/n) sum (X_i - mu)^2;
   fvar_bound Rr xs = the explicit bound B defined above:
     em = pysum_bound (n-1) |sum X| (sum |X|) / n (1+u) + u |mu| + eta             bound on |m - mu|
     w  = 11 u (Rr + em)^2 + 4 eta + em (2 Rr + em)                               per squared deviation
     T2 = sum (X_i - mu)^2 + n w
     B  = (n w + pysum_bound (n-1) T2 T2) / n (1+u) + u popvar + eta
     pysum_bound k a T = u a + (1+u) ((1+u)^k - 1) u k (1+u)^k T                    (compensated sum, k additions)
   Hypotheses: items finite, fewer than 2^53 items, every intermediate float finite (fvar_fin, executable). *)

(* reduce = True: the single value emitted at completion *)
Theorem fvariance_reduce_error (h : hints) (l : list pfloat) (lo hi Rr : R) :
  l <> [] -> Forall ffin l -> Forall (fun x => lo <= FR x <= hi) l -> hi - lo <= Rr ->
  (Z.of_nat (length l) < 2 ^ 53)%Z -> fvar_fin h l = true ->
  exists f, fvariance_run (FA h) true (map NF l) = [NF f] /\ ffin f /\
    Rabs (FR f - popvarR (map FR l)) <= fvar_bound Rr (map FR l).
Proof.
  intros Hne Hl Hrg HR Hb Hfin. exists (fpopvar h l).
  rewrite fvariance_run_reduce, (fvar_out_floats h l Hne). split; [reflexivity|].
  apply (fpopvar_error h l lo hi Rr); assumption.
Qed.

(* reduce = False: the k-th emitted value is the two-pass variance of the first k items *)
Theorem fvariance_error (h : hints) (l : list pfloat) (lo hi Rr : R) :
  Forall ffin l -> Forall (fun x => lo <= FR x <= hi) l -> hi - lo <= Rr ->
  (Z.of_nat (length l) < 2 ^ 53)%Z ->
  Forall (fun k => fvar_fin h (firstn k l) = true) (seq 1 (length l)) ->
  Forall2 (fun (v : num) (k : nat) =>
             exists f, v = NF f /\ ffin f /\
               Rabs (FR f - popvarR (firstn k (map FR l))) <= fvar_bound Rr (firstn k (map FR l)))
          (fvariance_run (FA h) false (map NF l)) (seq 1 (length l)).
Proof.
  intros Hl Hrg HR Hb Hfin. rewrite fvariance_run_stream, map_length.
  apply Forall2_map_self. intros k Hk. pose proof (proj1 (Forall_forall _ _) Hfin k Hk) as Fk.
  apply in_seq in Hk.
  assert (Hne : l <> []) by (destruct l; [cbn in Hk; lia|discriminate]).
  assert (Hlen : length (firstn k l) = k) by (apply firstn_length_le; lia).
  rewrite !firstn_map. rewrite (fvar_out_floats h (firstn k l)) by (apply firstn_ne; [lia|exact Hne]).
  exists (fpopvar h (firstn k l)). split; [reflexivity|].
  apply (fpopvar_error h (firstn k l) lo hi Rr); try assumption.
  - apply firstn_ne; [lia|exact Hne].
  - apply Forall_firstn. exact Hl.
  - apply Forall_firstn. exact Hrg.
  - rewrite Hlen. lia.
Qed.

(* stddev = sqrt of the variance: |g - sqrt popvar| <= sqrt B (1 + u) + u sqrt popvar *)
Lemma fstd_out (h : hints) (l : list pfloat) (lo hi Rr : R) :
  l <> [] -> Forall ffin l -> Forall (fun x => lo <= FR x <= hi) l -> hi - lo <= Rr ->
  (Z.of_nat (length l) < 2 ^ 53)%Z -> fstd_fin h l = true ->
  ffin (fsqrt (fpopvar h l)) /\ 0 <= FR (fsqrt (fpopvar h l)) /\
  Rabs (FR (fsqrt (fpopvar h l)) - rsqrt (popvarR (map FR l)))
  <= rsqrt (fvar_bound Rr (map FR l)) * (1 + u53) + u53 * rsqrt (popvarR (map FR l)).
Proof.
  intros Hne Hl Hrg HR Hb Hfin. unfold fstd_fin in Hfin. apply andb_prop in Hfin. destruct Hfin as (Hv & Hs).
  destruct (fpopvar_error h l lo hi Rr Hne Hl Hrg HR Hb Hv) as (Ff & B).
  apply sqrt_out_err; try assumption.
  - apply sqrt_fin_nonneg; assumption.
  - apply popvarR_nonneg. destruct l; [congruence|discriminate].
Qed.

Theorem fstddev_reduce_error (h : hints) (l : list pfloat) (lo hi Rr : R) :
  l <> [] -> Forall ffin l -> Forall (fun x => lo <= FR x <= hi) l -> hi - lo <= Rr ->
  (Z.of_nat (length l) < 2 ^ 53)%Z -> fstd_fin h l = true ->
  exists g, fstddev_run (FA h) true (map NF l) = [NF g] /\ ffin g /\ 0 <= FR g /\
    Rabs (FR g - rsqrt (popvarR (map FR l)))
    <= rsqrt (fvar_bound Rr (map FR l)) * (1 + u53) + u53 * rsqrt (popvarR (map FR l)).
Proof.
  intros Hne Hl Hrg HR Hb Hfin. exists (fsqrt (fpopvar h l)).
  unfold fstddev_run. rewrite fvariance_run_reduce, (fvar_out_floats h l Hne). split; [reflexivity|].
  apply (fstd_out h l lo hi Rr); assumption.
Qed.

Theorem fstddev_error (h : hints) (l : list pfloat) (lo hi Rr : R) :
  Forall ffin l -> Forall (fun x => lo <= FR x <= hi) l -> hi - lo <= Rr ->
  (Z.of_nat (length l) < 2 ^ 53)%Z ->
  Forall (fun k => fstd_fin h (firstn k l) = true) (seq 1 (length l)) ->
  Forall2 (fun (v : num) (k : nat) =>
             exists g, v = NF g /\ ffin g /\ 0 <= FR g /\
               Rabs (FR g - rsqrt (popvarR (firstn k (map FR l))))
               <= rsqrt (fvar_bound Rr (firstn k (map FR l))) * (1 + u53)
                  + u53 * rsqrt (popvarR (firstn k (map FR l))))
          (fstddev_run (FA h) false (map NF l)) (seq 1 (length l)).
Proof.
  intros Hl Hrg HR Hb Hfin. unfold fstddev_run. rewrite fvariance_run_stream, map_map, map_length.
  apply Forall2_map_self. intros k Hk. pose proof (proj1 (Forall_forall _ _) Hfin k Hk) as Fk.
  apply in_seq in Hk.
  assert (Hne : l <> []) by (destruct l; [cbn in Hk; lia|discriminate]).
  assert (Hlen : length (firstn k l) = k) by (apply firstn_length_le; lia).
  rewrite !firstn_map. rewrite (fvar_out_floats h (firstn k l)) by (apply firstn_ne; [lia|exact Hne]).
  exists (fsqrt (fpopvar h (firstn k l))). split; [reflexivity|].
  apply (fstd_out h (firstn k l) lo hi Rr); try assumption.
  - apply firstn_ne; [lia|exact Hne].
  - apply Forall_firstn. exact Hl.
  - apply Forall_firstn. exact Hrg.
  - rewrite Hlen. lia.
Qed.

(* the finiteness predicates are executable: [1.0; 2.0; 4.0; 0.1] (0.1 = 0x1.999999999999ap-4), no hint *)
Example fstd_fin_example : fstd_fin [] [1%float; 2%float; 4%float; 0x1.999999999999ap-4%float] = true.
Proof. vm_compute. reflexivity. Qed.
Example fvar_fin_prefixes_example :
  forallb (fun k => fvar_fin [] (firstn k [1%float; 2%float; 4%float; 0x1.999999999999ap-4%float])) (seq 1 4) = true.
Proof. vm_compute. reflexivity. Qed.
