(* C12, floating point: an ERROR BOUND for CPython 3.12's builtin sum on binary64 floats, as modelled by
   npysum / sum_float of FloatModel.v (Neumaier compensated summation: f = running sum, c = running sum of the
   recovered rounding errors, result f + c).

   Route: Fast2Sum EXACTNESS (Flocq Pff2Flocq.Fast2Sum_correct): the compensation term computed at each step is
   exactly the rounding error (f + x) - fl(f + x) of that step.  Hence, with S = sum x_i exactly,
        S = f_n + sum e_i,    c_n = recursive float sum of the e_i,    result = fl(f_n + c_n)
   and, for n additions (n + 1 items), u = 2^-53, T = sum |x_i|:
        | result - S |  <=  u |S|  +  (1 + u) ((1 + u)^n - 1) * u n (1 + u)^n T           (second order in u)
   provided every intermediate float is finite (pysum_fin, an executable predicate). *)
From Coq Require Import List ZArith Reals Lra Lia Floats Bool.
From Flocq Require Import Core BinarySingleNaN PrimFloat Relative Plus_error.
From Flocq Require Pff2Flocq.
From RxVerif Require Import Math.Exact Math.FloatModel Math.SumErrorProofs Math.MeanErrorProofs Math.FloatOpsProofs
  Math.VarianceNonnegProofs Math.WelfordReal Math.WelfordErrorProofs.
Import ListNotations.
Open Scope R_scope.

Notation pabs := Coq.Floats.PrimFloat.abs.
Notation pfin := Coq.Floats.PrimFloat.is_finite.

(* ---- Fast2Sum in binary64, round to nearest even ---- *)
Lemma choiceE_sym (x : Z) : negb (Z.even x) = negb (negb (Z.even (- (x + 1)))).
Proof. rewrite Z.even_opp, Z.add_1_r, Z.even_succ, <- Z.negb_even. destruct (Z.even x); reflexivity. Qed.

Lemma fast2sum_RND (x y : R) : F64 x -> F64 y -> Rabs y <= Rabs x ->
  RND (y + RND (x - RND (x + y))) = (x + y) - RND (x + y).
Proof.
  intros Fx Fy H.
  assert (P1 : (1 < prec)%Z) by reflexivity.
  assert (P2 : (3 - emax - prec <= 0)%Z) by (intro E; discriminate E).
  pose proof (Pff2Flocq.Fast2Sum_correct (3 - emax - prec) prec (fun z => negb (Z.even z)) P1 P2 choiceE_sym
                x y Fx Fy H) as C.
  change (RND (x + y) + RND (y + RND (x - RND (x + y))) = x + y) in C. lra.
Qed.

(* ---- comparisons of finite floats ---- *)
Lemma abs_leb_R (x f : pfloat) : ffin x -> ffin f ->
  (pabs x <=? pabs f)%float = Rle_bool (Rabs (FR x)) (Rabs (FR f)).
Proof.
  intros Hx Hf. apply ffin_equiv in Hx, Hf. unfold FR.
  rewrite leb_equiv, !abs_equiv, Bleb_correct by (rewrite is_finite_Babs; assumption).
  rewrite !B2R_Babs. reflexivity.
Qed.

Lemma eqb_zero_R (c : pfloat) : ffin c -> (c =? 0)%float = true -> FR c = 0.
Proof.
  intros Hc E. apply ffin_equiv in Hc. rewrite eqb_equiv in E.
  assert (Hz : is_finite (Prim2B 0%float) = true) by (apply ffin_equiv; reflexivity).
  rewrite (Beqb_correct _ _ _ _ Hc Hz) in E.
  destruct (Req_bool_spec (B2R (Prim2B c)) (B2R (Prim2B 0%float))) as [H|H]; [|discriminate].
  unfold FR. rewrite H. exact FR_zero.
Qed.

(* ---- the algorithm on floats ---- *)
(* the compensation term of one step *)
Definition comp (f x : pfloat) : pfloat :=
  let t := (f + x)%float in
  if (pabs x <=? pabs f)%float then ((f - t) + x)%float else ((x - t) + f)%float.
Fixpoint comps (f : pfloat) (l : list pfloat) : list pfloat :=
  match l with [] => [] | x :: r => comp f x :: comps (f + x)%float r end.
Definition finish (f c : pfloat) : pfloat :=
  if (negb (c =? 0)%float && pfin c)%bool then (f + c)%float else f.

Lemma sum_float_fold : forall (l : list pfloat) (f c : pfloat),
  sum_float f c (map NF l) = finish (fold_left padd l f) (fold_left padd (comps f l) c).
Proof.
  induction l as [|x r IH]; intros f c; [reflexivity|].
  cbn [map sum_float comps fold_left]. rewrite <- IH. unfold comp.
  destruct (pabs x <=? pabs f)%float; reflexivity.
Qed.

Lemma comps_length : forall (l : list pfloat) (f : pfloat), length (comps f l) = length l.
Proof. induction l as [|x r IH]; intros f; [reflexivity|]. cbn [comps length]. rewrite IH. reflexivity. Qed.

(* the compensation term is exactly the rounding error of the step *)
Lemma comp_exact (f x : pfloat) : ffin f -> ffin x -> ffin (f + x)%float -> ffin (comp f x) ->
  FR (comp f x) = (FR f + FR x) - FR (f + x)%float.
Proof.
  intros Ff Fx Ft Fc. unfold comp in *. rewrite (abs_leb_R x f Fx Ff) in *.
  pose proof (add_bwd f x Ff Fx Ft) as Et.
  destruct (Rle_bool_spec (Rabs (FR x)) (Rabs (FR f))) as [H|H].
  - destruct (add_fin_inv _ _ Fc) as (Fd & _).
    rewrite (add_bwd _ _ Fd Fx Fc), (sub_bwd _ _ Ff Ft Fd), Et.
    rewrite (Rplus_comm (RND _) (FR x)). apply fast2sum_RND; [apply F64_FR|apply F64_FR|exact H].
  - destruct (add_fin_inv _ _ Fc) as (Fd & _).
    rewrite (add_bwd _ _ Fd Ff Fc), (sub_bwd _ _ Fx Ft Fd), Et.
    rewrite (Rplus_comm (RND _) (FR f)), (Rplus_comm (FR f) (FR x)).
    apply fast2sum_RND; [apply F64_FR|apply F64_FR|lra].
Qed.

Lemma finish_R (f c : pfloat) : ffin f -> ffin c -> ffin (finish f c) -> FR (finish f c) = RND (FR f + FR c).
Proof.
  intros Ff Fc Fr. unfold finish in *. unfold ffin in Fc. rewrite Fc, andb_true_r in *.
  destruct (c =? 0)%float eqn:E; cbn [negb] in *.
  - rewrite (eqb_zero_R c Fc E), Rplus_0_r, RND_FR. reflexivity.
  - apply add_bwd; assumption.
Qed.

Lemma scan_fin_items : forall (l : list pfloat) (acc : pfloat),
  Forall ffin (scan_states padd acc l) -> Forall ffin l.
Proof.
  induction l as [|x r IH]; intros acc H; [constructor|]. cbn [scan_states] in H. inversion H as [|? ? H1 Hr]; subst.
  constructor; [exact (proj2 (add_fin_inv _ _ H1))|exact (IH _ Hr)].
Qed.
Lemma fold_fin : forall (l : list pfloat) (acc : pfloat),
  ffin acc -> Forall ffin (scan_states padd acc l) -> ffin (fold_left padd l acc).
Proof.
  induction l as [|x r IH]; intros acc Ha H; [exact Ha|]. cbn [scan_states] in H. inversion H; subst.
  cbn [fold_left]. apply IH; assumption.
Qed.

(* S = f_n + sum e_i, exactly *)
Lemma comps_sum : forall (l : list pfloat) (f : pfloat),
  ffin f -> Forall ffin l -> Forall ffin (scan_states padd f l) -> Forall ffin (comps f l) ->
  sumR (map FR (comps f l)) = FR f + sumR (map FR l) - FR (fold_left padd l f).
Proof.
  induction l as [|x r IH]; intros f Ff Hl Hs Hc; [cbn; ring|].
  inversion Hl as [|? ? Fx Hr]; subst. cbn [scan_states] in Hs. inversion Hs as [|? ? Ft Hsr]; subst.
  cbn [comps] in Hc. inversion Hc as [|? ? Fc Hcr]; subst.
  cbn [comps map sumR fold_right fold_left]. fold (sumR (map FR (comps (f + x)%float r))). fold (sumR (map FR r)).
  rewrite (IH _ Ft Hr Hsr Hcr), (comp_exact f x Ff Fx Ft Fc). ring.
Qed.

Lemma comps_step (u n' G af ax at' Tr e1 Er : R) :
  0 <= u -> 1 <= G -> 0 <= n' -> 0 <= Tr -> 0 <= af -> 0 <= ax ->
  at' <= (1 + u) * (af + ax) -> e1 <= u * (af + ax) -> Er <= u * (n' * G) * (at' + Tr) ->
  e1 + Er <= u * ((n' + 1) * ((1 + u) * G)) * (af + (ax + Tr)).
Proof.
  intros Hu HG Hn HT Haf Hax Hat He1 HEr. set (W := af + ax) in *.
  assert (HuT : 0 <= u * Tr) by (apply Rmult_le_pos; assumption).
  assert (H1 : at' + Tr <= (1 + u) * (W + Tr)) by lra.
  assert (HnG : 0 <= u * (n' * G)) by (apply Rmult_le_pos; [assumption|apply Rmult_le_pos; lra]).
  assert (H2 : u * (n' * G) * (at' + Tr) <= u * (n' * G) * ((1 + u) * (W + Tr))).
  { apply Rmult_le_compat_l; assumption. }
  assert (HW : 0 <= W + Tr) by (unfold W; lra).
  assert (HuG : 0 <= u * G) by (apply Rmult_le_pos; lra).
  assert (H3 : (W + Tr) * 1 <= (W + Tr) * ((1 + u) * G)).
  { apply Rmult_le_compat_l; [exact HW|]. lra. }
  assert (H4 : u * W <= u * ((W + Tr) * ((1 + u) * G))) by (apply Rmult_le_compat_l; lra).
  replace (af + (ax + Tr)) with (W + Tr) by (unfold W; ring).
  replace (u * ((n' + 1) * ((1 + u) * G)) * (W + Tr))
    with (u * (n' * G) * ((1 + u) * (W + Tr)) + u * ((W + Tr) * ((1 + u) * G))) by ring.
  lra.
Qed.

(* sum |e_i| <= u n (1+u)^n (|f| + sum |x_i|) *)
Lemma comps_abs : forall (l : list pfloat) (f : pfloat),
  ffin f -> Forall ffin l -> Forall ffin (scan_states padd f l) -> Forall ffin (comps f l) ->
  sumR (map (fun e => Rabs (FR e)) (comps f l))
  <= u53 * (INR (length l) * (1 + u53) ^ length l) * (Rabs (FR f) + sumR (map (fun x => Rabs (FR x)) l)).
Proof.
  induction l as [|x r IH]; intros f Ff Hl Hs Hc.
  - cbn. pose proof (Rabs_pos (FR f)). pose proof u53_pos. lra.
  - inversion Hl as [|? ? Fx Hr]; subst. cbn [scan_states] in Hs. inversion Hs as [|? ? Ft Hsr]; subst.
    cbn [comps] in Hc. inversion Hc as [|? ? Fc Hcr]; subst.
    cbn [comps map sumR fold_right length]. fold (sumR (map (fun e => Rabs (FR e)) (comps (f + x)%float r))).
    fold (sumR (map (fun x0 => Rabs (FR x0)) r)). rewrite S_INR. cbn [pow].
    destruct (add_finite_error f x Ff Fx Ft) as (d & Bd & Ed).
    apply (comps_step u53 (INR (length r)) ((1 + u53) ^ length r) (Rabs (FR f)) (Rabs (FR x))
             (Rabs (FR (f + x)%float))).
    + apply u53_pos.
    + apply pow1u_ge1.
    + apply pos_INR.
    + apply sumR_abs_nonneg.
    + apply Rabs_pos.
    + apply Rabs_pos.
    + rewrite Ed, Rabs_mult, Rmult_comm. apply Rmult_le_compat; try apply Rabs_pos.
      * eapply Rle_trans; [apply Rabs_triang|]. rewrite Rabs_R1. lra.
      * apply Rabs_triang.
    + rewrite (comp_exact f x Ff Fx Ft Fc), Ed.
      replace (FR f + FR x - (FR f + FR x) * (1 + d)) with (- d * (FR f + FR x)) by ring.
      rewrite Rabs_mult, Rabs_Ropp. apply Rmult_le_compat; try apply Rabs_pos; [exact Bd|apply Rabs_triang].
    + apply IH; assumption.
Qed.

Lemma final_bound (u G S fn cn d Se E r : R) :
  0 <= u -> 1 <= G -> Rabs d <= u -> r = (fn + cn) * (1 + d) ->
  Rabs (cn - (S - fn)) <= (G - 1) * Se -> Se <= E ->
  Rabs (r - S) <= u * Rabs S + (1 + u) * ((G - 1) * E).
Proof.
  intros Hu HG Hd -> Hc HE. set (D := cn - (S - fn)) in *.
  assert (HD : Rabs D <= (G - 1) * E).
  { eapply Rle_trans; [exact Hc|]. apply Rmult_le_compat_l; lra. }
  replace ((fn + cn) * (1 + d) - S) with (D + d * (S + D)) by (unfold D; ring).
  assert (H1 : Rabs (d * (S + D)) <= u * (Rabs S + Rabs D)).
  { rewrite Rabs_mult. apply Rmult_le_compat; try apply Rabs_pos; [exact Hd|apply Rabs_triang]. }
  assert (H2 : u * Rabs D <= u * ((G - 1) * E)) by (apply Rmult_le_compat_l; assumption).
  eapply Rle_trans; [apply Rabs_triang|]. lra.
Qed.

(* the bound: n additions, a >= |exact sum|, T = sum of the magnitudes *)
Definition pysum_bound (n : nat) (a T : R) : R :=
  u53 * a + (1 + u53) * (((1 + u53) ^ n - 1) * (u53 * (INR n * (1 + u53) ^ n) * T)).

Lemma sum_float_error (f0 : pfloat) (l : list pfloat) :
  ffin f0 -> Forall ffin (scan_states padd f0 l) -> Forall ffin (scan_states padd zero (comps f0 l)) ->
  ffin (sum_float f0 zero (map NF l)) ->
  Rabs (FR (sum_float f0 zero (map NF l)) - (FR f0 + sumR (map FR l)))
  <= pysum_bound (length l) (Rabs (FR f0 + sumR (map FR l)))
       (Rabs (FR f0) + sumR (map (fun x => Rabs (FR x)) l)).
Proof.
  intros Ff Hs Hcs Fr. rewrite sum_float_fold in *.
  pose proof (scan_fin_items _ _ Hs) as Hl. pose proof (scan_fin_items _ _ Hcs) as Hc.
  pose proof (fold_fin _ _ Ff Hs) as Ffn. pose proof (fold_fin _ _ (eq_refl : ffin zero) Hcs) as Fcn.
  rewrite (finish_R _ _ Ffn Fcn Fr).
  destruct (RND_sum_err _ _ (F64_FR (fold_left padd l f0)) (F64_FR (fold_left padd (comps f0 l) zero)))
    as (d & Bd & Ed).
  pose proof (fsum_error (comps f0 l) zero eq_refl Hc Hcs) as B.
  rewrite FR_zero, Rabs_R0, !Rplus_0_l, comps_length in B.
  rewrite (comps_sum l f0 Ff Hl Hs Hc) in B.
  pose proof (comps_abs l f0 Ff Hl Hs Hc) as A.
  unfold pysum_bound.
  apply (final_bound u53 ((1 + u53) ^ length l) _ (FR (fold_left padd l f0))
           (FR (fold_left padd (comps f0 l) zero)) d (sumR (map (fun e => Rabs (FR e)) (comps f0 l))));
    try assumption.
  - apply u53_pos.
  - apply pow1u_ge1.
Qed.

(* ---- builtin sum on a list of floats ---- *)
Definition pysum_f (l : list pfloat) : pfloat :=
  match l with [] => zero | x :: r => sum_float (zero + x)%float zero (map NF r) end.

Lemma npysum_floats (l : list pfloat) : l <> [] -> npysum (map NF l) = NF (pysum_f l).
Proof. destruct l as [|x r]; [congruence|]. reflexivity. Qed.
Lemma npysum_to_f (l : list pfloat) : to_f (npysum (map NF l)) = pysum_f l.
Proof. destruct l as [|x r]; reflexivity. Qed.

(* every intermediate float of sum(l) is finite: running sums, running compensations, result (executable) *)
Definition pysum_fin (l : list pfloat) : bool :=
  match l with
  | [] => true
  | x :: r => let f0 := (zero + x)%float in
              (forallb pfin (scan_states padd f0 r) && forallb pfin (scan_states padd zero (comps f0 r))
               && pfin (pysum_f l))%bool
  end.

Lemma forallb_ffin (l : list pfloat) : forallb pfin l = true -> Forall ffin l.
Proof. intro H. apply Forall_forall. intros x Hx. exact (proj1 (forallb_forall _ _) H x Hx). Qed.

Lemma zero_plus (x : pfloat) : ffin x -> ffin (zero + x)%float /\ FR (zero + x)%float = FR x.
Proof.
  intro Fx. destruct (add_fwd zero x eq_refl Fx) as (F1 & E1).
  - rewrite FR_zero, Rplus_0_l. apply in_range_FR. exact Fx.
  - split; [exact F1|]. rewrite E1, FR_zero, Rplus_0_l. apply RND_FR.
Qed.

Theorem pysum_error (l : list pfloat) :
  l <> [] -> Forall ffin l -> pysum_fin l = true ->
  ffin (pysum_f l) /\
  Rabs (FR (pysum_f l) - sumR (map FR l))
  <= pysum_bound (length l - 1) (Rabs (sumR (map FR l))) (sumR (map (fun x => Rabs (FR x)) l)).
Proof.
  intros Hne Hl Hfin. destruct l as [|x r]; [congruence|]. inversion Hl as [|? ? Fx Hr]; subst.
  unfold pysum_fin in Hfin. cbv zeta in Hfin. apply andb_prop in Hfin. destruct Hfin as (Hfin & F3).
  apply andb_prop in Hfin. destruct Hfin as (F1 & F2). apply forallb_ffin in F1, F2.
  split; [exact F3|]. destruct (zero_plus x Fx) as (F0 & E0).
  pose proof (sum_float_error (zero + x)%float r F0 F1 F2 F3) as B. rewrite E0 in B.
  cbn [length map sumR fold_right pysum_f]. replace (S (length r) - 1)%nat with (length r) by lia.
  exact B.
Qed.

(* the same, about the model's npysum *)
Theorem npysum_error (l : list pfloat) :
  l <> [] -> Forall ffin l -> pysum_fin l = true ->
  exists s, npysum (map NF l) = NF s /\ ffin s /\
    Rabs (FR s - sumR (map FR l))
    <= pysum_bound (length l - 1) (Rabs (sumR (map FR l))) (sumR (map (fun x => Rabs (FR x)) l)).
Proof.
  intros Hne Hl Hfin. exists (pysum_f l). split; [apply npysum_floats; exact Hne|]. apply pysum_error; assumption.
Qed.

Lemma pysum_bound_mono (n : nat) (a a' T T' : R) : a <= a' -> T <= T' -> pysum_bound n a T <= pysum_bound n a' T'.
Proof.
  intros Ha HT. unfold pysum_bound. pose proof u53_pos as U. pose proof (pow1u_ge1 n) as G.
  assert (H1 : u53 * a <= u53 * a') by (apply Rmult_le_compat_l; assumption).
  assert (H0 : 0 <= u53 * (INR n * (1 + u53) ^ n)).
  { apply Rmult_le_pos; [exact U|]. apply Rmult_le_pos; [apply pos_INR|lra]. }
  assert (H2 : u53 * (INR n * (1 + u53) ^ n) * T <= u53 * (INR n * (1 + u53) ^ n) * T').
  { apply Rmult_le_compat_l; assumption. }
  assert (H3 : ((1 + u53) ^ n - 1) * (u53 * (INR n * (1 + u53) ^ n) * T)
               <= ((1 + u53) ^ n - 1) * (u53 * (INR n * (1 + u53) ^ n) * T')).
  { apply Rmult_le_compat_l; lra. }
  assert (H4 : (1 + u53) * (((1 + u53) ^ n - 1) * (u53 * (INR n * (1 + u53) ^ n) * T))
               <= (1 + u53) * (((1 + u53) ^ n - 1) * (u53 * (INR n * (1 + u53) ^ n) * T'))).
  { apply Rmult_le_compat_l; lra. }
  lra.
Qed.
