(* The four binary64 operations and sqrt of the model (kernel primitive floats) as correctly rounded real
   operations (Flocq), in the form used by the C12 floating-point theorems: if the rounded exact result is below
   2^1024 in magnitude the computed float is finite and denotes it. *)
From Coq Require Import List ZArith Reals Lra Lia Floats.
From Flocq Require Import Core BinarySingleNaN PrimFloat.
From RxVerif Require Import Math.Exact Math.FloatModel Math.SumErrorProofs.
Import ListNotations.
Open Scope R_scope.

Notation fexp64 := (FLT_exp (3 - emax - prec) prec).
Definition RND (r : R) : R := round radix2 fexp64 ZnearestE r.
Definition in_range (r : R) : Prop := Rabs (RND r) < bpow radix2 emax.

Lemma RND_0 : RND 0 = 0.
Proof. apply round_0. apply valid_rnd_N. Qed.
Lemma RND_FR (x : pfloat) : RND (FR x) = FR x.
Proof. apply round_generic; [apply valid_rnd_N|apply generic_format_B2R]. Qed.
Lemma RND_le (a b : R) : a <= b -> RND a <= RND b.
Proof. apply round_le; [apply FLT_exp_valid; exact Hprec|apply valid_rnd_N]. Qed.
Lemma RND_nonneg (a : R) : 0 <= a -> 0 <= RND a.
Proof. intro H. rewrite <- RND_0. apply RND_le. exact H. Qed.
Lemma RND_nonpos (a : R) : a <= 0 -> RND a <= 0.
Proof. intro H. rewrite <- RND_0. apply RND_le. exact H. Qed.
Lemma in_range_0 : in_range 0.
Proof. unfold in_range. rewrite RND_0, Rabs_R0. apply bpow_gt_0. Qed.
Lemma in_range_FR (x : pfloat) : ffin x -> in_range (FR x).
Proof.
  intro H. unfold in_range. rewrite RND_FR. apply ffin_equiv in H. unfold FR.
  apply abs_B2R_lt_emax.
Qed.

Lemma add_fwd (x y : pfloat) : ffin x -> ffin y -> in_range (FR x + FR y) ->
  ffin (x + y)%float /\ FR (x + y)%float = RND (FR x + FR y).
Proof.
  intros Hx Hy Hr. apply ffin_equiv in Hx, Hy. unfold FR, in_range, RND in *. rewrite ffin_equiv, add_equiv.
  pose proof (Bplus_correct prec emax Hprec Hmax mode_NE (Prim2B x) (Prim2B y) Hx Hy) as C.
  rewrite Rlt_bool_true in C by exact Hr. destruct C as (E & F & _). split; assumption.
Qed.
Lemma sub_fwd (x y : pfloat) : ffin x -> ffin y -> in_range (FR x - FR y) ->
  ffin (x - y)%float /\ FR (x - y)%float = RND (FR x - FR y).
Proof.
  intros Hx Hy Hr. apply ffin_equiv in Hx, Hy. unfold FR, in_range, RND in *. rewrite ffin_equiv, sub_equiv.
  pose proof (Bminus_correct prec emax Hprec Hmax mode_NE (Prim2B x) (Prim2B y) Hx Hy) as C.
  rewrite Rlt_bool_true in C by exact Hr. destruct C as (E & F & _). split; assumption.
Qed.
Lemma mul_fwd (x y : pfloat) : ffin x -> ffin y -> in_range (FR x * FR y) ->
  ffin (x * y)%float /\ FR (x * y)%float = RND (FR x * FR y).
Proof.
  intros Hx Hy Hr. apply ffin_equiv in Hx, Hy. unfold FR, in_range, RND in *. rewrite ffin_equiv, mul_equiv.
  pose proof (Bmult_correct prec emax Hprec Hmax mode_NE (Prim2B x) (Prim2B y)) as C.
  rewrite Rlt_bool_true in C by exact Hr. destruct C as (E & F & _). split; [|exact E].
  rewrite F, Hx, Hy. reflexivity.
Qed.
Lemma div_fwd (x y : pfloat) : ffin x -> ffin y -> FR y <> 0 -> in_range (FR x / FR y) ->
  ffin (x / y)%float /\ FR (x / y)%float = RND (FR x / FR y).
Proof.
  intros Hx Hy Hy0 Hr. apply ffin_equiv in Hx, Hy. unfold FR, in_range, RND in *. rewrite ffin_equiv, div_equiv.
  pose proof (Bdiv_correct prec emax Hprec Hmax mode_NE (Prim2B x) (Prim2B y) Hy0) as C.
  rewrite Rlt_bool_true in C by exact Hr. destruct C as (E & F & _). split; [|exact E].
  rewrite F. exact Hx.
Qed.
(* math.sqrt of a finite float that denotes a non-negative real (includes -0.0) *)
Lemma sqrt_fwd (x : pfloat) : ffin x -> 0 <= FR x ->
  ffin (Coq.Floats.PrimFloat.sqrt x) /\ FR (Coq.Floats.PrimFloat.sqrt x) = RND (R_sqrt.sqrt (FR x)).
Proof.
  intros Hx H0. apply ffin_equiv in Hx. unfold FR, RND in *. rewrite ffin_equiv, sqrt_equiv.
  pose proof (Bsqrt_correct prec emax Hprec Hmax mode_NE (Prim2B x)) as (E & F & _). split; [|exact E].
  rewrite F. destruct (Prim2B x) as [s|s| |s m e B]; try reflexivity; try discriminate.
  destruct s; [|reflexivity]. exfalso. simpl in H0.
  pose proof (F2R_lt_0 radix2 (Float radix2 (Z.neg m) e)) as L. simpl in L.
  assert (F2R (Float radix2 (Z.neg m) e) < 0) by (apply L; lia). unfold F2R in *. simpl in *. lra.
Qed.

(* the converse direction used with finiteness hypotheses on the computed values *)
Lemma add_bwd (x y : pfloat) : ffin x -> ffin y -> ffin (x + y)%float -> FR (x + y)%float = RND (FR x + FR y).
Proof.
  intros Hx Hy Hs. apply ffin_equiv in Hx, Hy, Hs. unfold FR, RND in *. rewrite add_equiv in *.
  pose proof (Bplus_correct prec emax Hprec Hmax mode_NE (Prim2B x) (Prim2B y) Hx Hy) as C.
  destruct (Rlt_bool _ _); [apply C|].
  destruct C as (E & _). rewrite <- is_finite_SF_B2SF in Hs. rewrite E in Hs. simpl in Hs. discriminate.
Qed.
Lemma sub_bwd (x y : pfloat) : ffin x -> ffin y -> ffin (x - y)%float -> FR (x - y)%float = RND (FR x - FR y).
Proof.
  intros Hx Hy Hs. apply ffin_equiv in Hx, Hy, Hs. unfold FR, RND in *. rewrite sub_equiv in *.
  pose proof (Bminus_correct prec emax Hprec Hmax mode_NE (Prim2B x) (Prim2B y) Hx Hy) as C.
  destruct (Rlt_bool _ _); [apply C|].
  destruct C as (E & _). rewrite <- is_finite_SF_B2SF in Hs. rewrite E in Hs. simpl in Hs. discriminate.
Qed.
Lemma mul_bwd (x y : pfloat) : ffin (x * y)%float -> FR (x * y)%float = RND (FR x * FR y).
Proof.
  intros Hs. apply ffin_equiv in Hs. unfold FR, RND in *. rewrite mul_equiv in *.
  pose proof (Bmult_correct prec emax Hprec Hmax mode_NE (Prim2B x) (Prim2B y)) as C.
  destruct (Rlt_bool _ _); [apply C|].
  rewrite <- is_finite_SF_B2SF in Hs. rewrite C in Hs. simpl in Hs. discriminate.
Qed.
Lemma div_bwd (x y : pfloat) : FR y <> 0 -> ffin (x / y)%float -> FR (x / y)%float = RND (FR x / FR y).
Proof.
  intros Hy0 Hs. apply ffin_equiv in Hs. unfold FR, RND in *. rewrite div_equiv in *.
  pose proof (Bdiv_correct prec emax Hprec Hmax mode_NE (Prim2B x) (Prim2B y) Hy0) as C.
  destruct (Rlt_bool _ _); [apply C|].
  rewrite <- is_finite_SF_B2SF in Hs. rewrite C in Hs. simpl in Hs. discriminate.
Qed.
