From Coq Require Import List ZArith Reals Lra Lia Floats.
From Flocq Require Import Core BinarySingleNaN PrimFloat Relative Plus_error.
From RxVerif Require Import Math.Exact Math.FloatModel Math.SumErrorProofs Math.MeanErrorProofs Math.FloatOpsProofs.
Import ListNotations.
Open Scope R_scope.

Notation F64 := (generic_format radix2 fexp64).
Definition emin64 : Z := 3 - emax - prec.

Lemma RND_opp (r : R) : RND (- r) = - RND r.
Proof. unfold RND. apply round_NE_opp. Qed.
Lemma RND_gen (r : R) : F64 r -> RND r = r.
Proof. intro H. apply round_generic; [apply valid_rnd_N|exact H]. Qed.

Lemma u53_small : 5 * u53 <= 1.
Proof.
  rewrite u53_value. assert (H : 8 <= 2 ^ 53).
  { replace 8 with (2 ^ 3) by (simpl; ring). apply Rle_pow; [lra|lia]. }
  assert (0 < 2 ^ 53) by lra.
  apply Rmult_le_reg_r with (2 ^ 53); [assumption|]. field_simplify; lra.
Qed.

(* the mean moves towards the item and never past it *)
Lemma toward_item (X M k : R) : F64 X -> F64 M -> 0 <= X - M -> 2 <= k -> RND (RND (X - M) / k) <= X - M.
Proof.
  intros FX FM Ha Hk. set (a := X - M) in *.
  assert (Hd0 : 0 <= RND a) by (apply RND_nonneg; exact Ha).
  assert (Hik : 0 < / k) by (apply Rinv_0_lt_compat; lra).
  destruct (Rle_or_lt a (bpow radix2 (prec + emin64))) as [Hs|Hl].
  - assert (Fa : F64 a).
    { unfold a, Rminus. apply (@FLT_format_plus_small radix2 emin64 prec Hprec); [exact FX|apply generic_format_opp; exact FM|].
      fold (X - M). fold a. rewrite Rabs_pos_eq by exact Ha. exact Hs. }
    rewrite (RND_gen a Fa). rewrite <- (RND_gen a Fa) at 2. apply RND_le.
    unfold Rdiv. rewrite <- (Rmult_1_r a) at 2. apply Rmult_le_compat_l; [exact Ha|].
    rewrite <- Rinv_1. apply Rinv_le_contravar; lra.
  - assert (Hbig : bpow radix2 (emin64 + prec - 1) <= Rabs a).
    { rewrite Rabs_pos_eq by exact Ha. apply Rlt_le. eapply Rle_lt_trans; [|exact Hl]. apply bpow_le. lia. }
    assert (Hapos : 0 < a).
    { eapply Rlt_trans; [apply (bpow_gt_0 radix2 (prec + emin64))|exact Hl]. }
    assert (EN : Rabs (RND a - a) <= u53 * Rabs a).
    { exact (@relative_error_N_FLT radix2 emin64 prec Hprec (fun z => negb (Z.even z)) a Hbig). }
    set (dn := round radix2 fexp64 Zfloor a) in *.
    assert (ED : Rabs (dn - a) < (2 * u53) * Rabs a).
    { replace (2 * u53) with (bpow radix2 (- prec + 1)) by (unfold u53, u_ro; field).
      exact (@relative_error_FLT radix2 emin64 prec Hprec Zfloor _ a Hbig). }
    rewrite (Rabs_pos_eq a) in EN, ED by exact Ha.
    assert (Fdn : F64 dn) by (apply generic_format_round; [apply FLT_exp_valid; exact Hprec|apply valid_rnd_DN]).
    assert (Hdn : dn <= a).
    { apply round_DN_pt. apply FLT_exp_valid. exact Hprec. }
    apply Rle_trans with dn; [|exact Hdn].
    rewrite <- (RND_gen dn Fdn). apply RND_le.
    apply Rabs_le_inv in EN. apply Rabs_lt_inv in ED.
    pose proof u53_small as U. pose proof u53_pos as U0.
    assert (H1 : RND a / k <= RND a / 2).
    { unfold Rdiv. apply Rmult_le_compat_l; [exact Hd0|]. apply Rinv_le_contravar; lra. }
    assert (H2 : RND a <= a * (1 + u53)) by lra.
    assert (H3 : a * (1 - 2 * u53) <= dn) by lra.
    assert (H4 : a * (1 + u53) / 2 <= a * (1 - 2 * u53)).
    { assert (a * u53 * 5 <= a * 1) by (rewrite Rmult_assoc; apply Rmult_le_compat_l; lra). lra. }
    lra.
Qed.
Lemma add_fin_inv (x y : pfloat) : ffin (x + y)%float -> ffin x /\ ffin y.
Proof.
  rewrite !ffin_equiv, add_equiv. destruct (Prim2B x) as [sx|sx| |sx mx ex Bx], (Prim2B y) as [sy|sy| |sy my ey By]; simpl; auto; try discriminate.
  all: try (destruct (Bool.eqb sx sy); simpl; auto; discriminate).
Qed.
Lemma sub_fin_inv (x y : pfloat) : ffin (x - y)%float -> ffin x /\ ffin y.
Proof.
  rewrite !ffin_equiv, sub_equiv. destruct (Prim2B x) as [sx|sx| |sx mx ex Bx], (Prim2B y) as [sy|sy| |sy my ey By]; simpl; auto; try discriminate.
  all: try (destruct (Bool.eqb sx (negb sy)); simpl; auto; discriminate).
Qed.
Lemma mul_fin_inv (x y : pfloat) : ffin (x * y)%float -> ffin x /\ ffin y.
Proof.
  rewrite !ffin_equiv, mul_equiv. destruct (Prim2B x) as [sx|sx| |sx mx ex Bx], (Prim2B y) as [sy|sy| |sy my ey By]; simpl; auto; try discriminate.
Qed.
Lemma div_fin_inv (x y : pfloat) : ffin y -> FR y <> 0 -> ffin (x / y)%float -> ffin x.
Proof.
  rewrite !ffin_equiv, div_equiv. unfold FR. destruct (Prim2B x) as [sx|sx| |sx mx ex Bx], (Prim2B y) as [sy|sy| |sy my ey By]; simpl; auto; try discriminate.
Qed.

Lemma toward_item_neg (X M k : R) : F64 X -> F64 M -> X - M <= 0 -> 2 <= k -> X - M <= RND (RND (X - M) / k).
Proof.
  intros FX FM Ha Hk.
  pose proof (toward_item M X k FM FX) as H. 
  replace (M - X) with (- (X - M)) in H by ring. rewrite RND_opp in H.
  replace (- RND (X - M) / k) with (- (RND (X - M) / k)) in H by (unfold Rdiv; ring).
  rewrite RND_opp in H. assert (0 <= - (X - M)) by lra. specialize (H H0 Hk). lra.
Qed.

Lemma F64_FR (x : pfloat) : F64 (FR x).
Proof. apply generic_format_B2R. Qed.

(* one Welford step on finite values: the sum of squared deviations stays non-negative *)
Lemma wstep_nonneg (h : hints) (x m1 : pfloat) (s : num) (k0 : Z) :
  (1 <= k0)%Z -> (k0 + 1 < 2 ^ 53)%Z -> ffin x -> 0 <= FR (to_f s) ->
  forall m' s', wstep (FA h) (Some (NF m1), s, k0) (NF x) = (Some (NF m'), NF s', (k0 + 1)%Z) ->
  ffin m' -> ffin s' -> 0 <= FR s'.
Proof.
  intros Hk0 Hb Fx Hs m' s' E Fm' Fs'.
  assert (Hn : forall p, nadd s (NF p) = NF (to_f s + p)%float) by (intro p0; destruct s; reflexivity).
  cbn [wstep add sub mul div of_int FA nsub nmul ndiv to_f] in E.
  change (nadd (NF m1)) with (fun b => nadd (NF m1) b) in E. cbn beta in E.
  rewrite Hn in E. cbn [nadd to_f] in E.
  injection E as Em' Es'. subst m' s'.
  destruct (f_of_Z_exact (k0 + 1)) as (Fk & Ek); [lia|].
  assert (Hkr : 2 <= IZR (k0 + 1)) by (apply IZR_le; lia).
  assert (Hk0' : FR (f_of_Z (k0 + 1)) <> 0) by (rewrite Ek; lra).
  set (d0 := (x - m1)%float) in *. set (q := (d0 / f_of_Z (k0 + 1))%float) in *.
  set (mm := (m1 + q)%float) in *. set (d1 := (x - mm)%float) in *. set (p := (d0 * d1)%float) in *.
  destruct (add_fin_inv _ _ Fs') as (Fs & Fp).
  destruct (mul_fin_inv _ _ Fp) as (Fd0 & Fd1).
  destruct (add_fin_inv _ _ Fm') as (Fm1 & Fq).
  pose proof (sub_bwd x m1 Fx Fm1 Fd0) as Ed0. fold d0 in Ed0.
  pose proof (div_bwd d0 (f_of_Z (k0 + 1)) Hk0' Fq) as Eq. fold q in Eq. rewrite Ek in Eq.
  pose proof (add_bwd m1 q Fm1 Fq Fm') as Em. fold mm in Em.
  pose proof (sub_bwd x mm Fx Fm' Fd1) as Ed1. fold d1 in Ed1.
  pose proof (mul_bwd d0 d1 Fp) as Ep. fold p in Ep.
  pose proof (add_bwd (to_f s) p Fs Fp Fs') as Es.
  rewrite Es. apply RND_nonneg.
  assert (Hp : 0 <= FR p).
  { rewrite Ep. apply RND_nonneg.
    destruct (Rle_or_lt (FR m1) (FR x)) as [Hge|Hlt].
    - (* item above the mean: both deviations non-negative *)
      assert (A0 : 0 <= FR d0) by (rewrite Ed0; apply RND_nonneg; lra).
      assert (A1 : FR q <= FR x - FR m1).
      { rewrite Eq, Ed0. apply toward_item; [apply F64_FR|apply F64_FR|lra|exact Hkr]. }
      assert (A2 : FR mm <= FR x).
      { rewrite Em. rewrite <- (RND_FR x). apply RND_le. lra. }
      assert (A3 : 0 <= FR d1) by (rewrite Ed1; apply RND_nonneg; lra).
      apply Rmult_le_pos; assumption.
    - assert (A0 : FR d0 <= 0) by (rewrite Ed0; apply RND_nonpos; lra).
      assert (A1 : FR x - FR m1 <= FR q).
      { rewrite Eq, Ed0. apply toward_item_neg; [apply F64_FR|apply F64_FR|lra|exact Hkr]. }
      assert (A2 : FR x <= FR mm).
      { rewrite Em. rewrite <- (RND_FR x) at 1. apply RND_le. lra. }
      assert (A3 : FR d1 <= 0) by (rewrite Ed1; apply RND_nonpos; lra).
      replace (FR d0 * FR d1) with ((- FR d0) * (- FR d1)) by ring. apply Rmult_le_pos; lra. }
  lra.
Qed.

Definition state_fin (st : wstate (FA [])) : Prop :=
  let '(mo, s, k) := st in (exists m, mo = Some (NF m) /\ ffin m) /\ ffin (to_f s).
Definition nn (st : wstate (FA [])) : Prop :=
  let '(mo, s, k) := st in (exists m, mo = Some (NF m) /\ ffin m) /\ ffin (to_f s) /\ 0 <= FR (to_f s) /\ (1 <= k)%Z.

Lemma wstep_shape (h : hints) (x m1 : pfloat) (s : num) (k0 : Z) :
  exists m' s', wstep (FA h) (Some (NF m1), s, k0) (NF x) = (Some (NF m'), NF s', (k0 + 1)%Z).
Proof.
  assert (Hn : forall p, nadd s (NF p) = NF (to_f s + p)%float) by (intro p0; destruct s; reflexivity).
  cbn [wstep add sub mul div of_int FA nsub nmul ndiv to_f].
  change (nadd (NF m1)) with (fun b => nadd (NF m1) b). cbn beta. rewrite Hn. cbn [nadd to_f].
  eexists. eexists. reflexivity.
Qed.

Lemma nn_step (h : hints) (x : pfloat) (st : wstate (FA h)) :
  nn st -> ffin x -> (snd st + 1 < 2 ^ 53)%Z -> state_fin (wstep (FA h) st (NF x)) ->
  nn (wstep (FA h) st (NF x)) /\ (forall n, (snd st + 1 + n < 2 ^ 53)%Z -> (snd (wstep (FA h) st (NF x)) + n < 2 ^ 53)%Z).
Proof.
  destruct st as [[mo s] k0]. intros ((m1 & -> & Fm1) & Fs & Hs & Hk) Fx Hb Hfin. cbn [snd] in Hb.
  destruct s as [z|f].
  - pose proof (wstep_nonneg h x m1 (NI z) k0 Hk Hb Fx Hs _ _ eq_refl) as N.
    cbn [wstep add sub mul div of_int FA nadd nsub nmul ndiv to_f snd] in *.
    destruct Hfin as ((m'' & Em & Fm') & Fs'). injection Em as <-. cbn [to_f] in Fs'.
    split; [|intros n Hn; exact Hn]. split; [eexists; split; [reflexivity|exact Fm']|]. split; [exact Fs'|]. split; [|lia].
    cbn [to_f]. apply N; assumption.
  - pose proof (wstep_nonneg h x m1 (NF f) k0 Hk Hb Fx Hs _ _ eq_refl) as N.
    cbn [wstep add sub mul div of_int FA nadd nsub nmul ndiv to_f snd] in *.
    destruct Hfin as ((m'' & Em & Fm') & Fs'). injection Em as <-. cbn [to_f] in Fs'.
    split; [|intros n Hn; exact Hn]. split; [eexists; split; [reflexivity|exact Fm']|]. split; [exact Fs'|]. split; [|lia].
    cbn [to_f]. apply N; assumption.
Qed.

Lemma nn_states (h : hints) : forall (l : list pfloat) (st : wstate (FA h)),
  nn st -> Forall ffin l -> (snd st + Z.of_nat (length l) < 2 ^ 53)%Z ->
  Forall state_fin (scan_states (wstep (FA h)) st (map NF l)) ->
  Forall (fun st' => nn st' /\ (snd st' < 2 ^ 53)%Z) (scan_states (wstep (FA h)) st (map NF l))
  /\ nn (fold_left (wstep (FA h)) (map NF l) st) /\ (snd (fold_left (wstep (FA h)) (map NF l) st) < 2 ^ 53)%Z.
Proof.
  induction l as [|x r IH]; intros st Hi Hl Hb Hf.
  - cbn. repeat split; try constructor; try assumption. cbn in Hb. lia.
  - inversion Hl as [|? ? Fx Hr]; subst. cbn [map scan_states fold_left] in *. cbn [length] in Hb.
    inversion Hf as [|? ? Hf1 Hfr]; subst.
    destruct (nn_step h x st Hi Fx) as (Hi' & Hk'); [lia|exact Hf1|].
    destruct (IH (wstep (FA h) st (NF x)) Hi' Hr) as (A1 & A2 & A3); [apply Hk'; lia|exact Hfr|].
    repeat split; try assumption. constructor; [|exact A1]. split; [exact Hi'|].
    pose proof (Hk' 0%Z) as H0. rewrite !Z.add_0_r in H0. apply H0. lia.
Qed.

Lemma nn_out (h : hints) (st : wstate (FA h)) : nn st -> (snd st < 2 ^ 53)%Z ->
  exists f, wout (FA h) st = NF f /\ ffin f /\ 0 <= FR f.
Proof.
  destruct st as [[mo s] k]. intros ((m1 & -> & Fm1) & Fs & Hs & Hk) Hb. cbn [snd] in Hb.
  cbn [wout fzero div of_int FA ndiv to_f]. destruct (k <? 2)%Z eqn:E.
  - exists zero. split; [reflexivity|]. split; [reflexivity|]. rewrite FR_zero. lra.
  - apply Z.ltb_ge in E. destruct (f_of_Z_exact (k - 1)) as (Fk & Ek); [lia|].
    assert (Hkr : 1 <= IZR (k - 1)) by (apply IZR_le; lia).
    assert (Hk0 : FR (f_of_Z (k - 1)) <> 0) by (rewrite Ek; lra).
    assert (Hq : FR (to_f s) / IZR (k - 1) <= FR (to_f s)).
    { unfold Rdiv. rewrite <- (Rmult_1_r (FR (to_f s))) at 2. apply Rmult_le_compat_l; [exact Hs|].
      rewrite <- Rinv_1. apply Rinv_le_contravar; lra. }
    assert (Hq0 : 0 <= FR (to_f s) / IZR (k - 1)).
    { unfold Rdiv. apply Rmult_le_pos; [exact Hs|]. apply Rlt_le, Rinv_0_lt_compat. lra. }
    destruct (div_fwd (to_f s) (f_of_Z (k - 1)) Fs Fk Hk0) as (Fq & Eq).
    { rewrite Ek. unfold in_range. rewrite Rabs_pos_eq by (apply RND_nonneg; exact Hq0).
      apply Rle_lt_trans with (FR (to_f s)).
      - rewrite <- (RND_FR (to_f s)) at 2. apply RND_le. exact Hq.
      - pose proof (in_range_FR (to_f s) Fs) as R. unfold in_range in R. rewrite RND_FR in R.
        rewrite Rabs_pos_eq in R by exact Hs. exact R. }
    exists (to_f s / f_of_Z (k - 1))%float. split; [reflexivity|]. split; [exact Fq|].
    rewrite Eq, Ek. apply RND_nonneg. exact Hq0.
Qed.

(* Welford in binary64 never produces a negative variance: whatever the (finite) data, as long as the states stay
   finite, every emitted variance is a finite float >= 0 - so math.sqrt in stddev is never given a negative number *)
Theorem float_variance_nonneg (h : hints) (l : list pfloat) (reduce : bool) :
  Forall ffin l -> (Z.of_nat (length l) < 2 ^ 53)%Z ->
  Forall state_fin (scan_states (wstep (FA h)) (wseed (FA h)) (map NF l)) ->
  Forall (fun v => exists f, v = NF f /\ ffin f /\ 0 <= FR f) (variance_run (FA h) reduce (map NF l)).
Proof.
  intros Hl Hb Hf. destruct l as [|x r].
  - destruct reduce; cbn; repeat constructor; exists zero; repeat split; rewrite FR_zero; lra.
  - inversion Hl as [|? ? Fx Hr]; subst. cbn [map scan_states] in Hf. inversion Hf as [|? ? Hf1 Hfr]; subst.
    assert (H0 : nn (wstep (FA h) (wseed (FA h)) (NF x))).
    { cbn. split; [exists x; auto|]. split; [reflexivity|]. split; [|lia]. change (0 <= FR zero). rewrite FR_zero. lra. }
    assert (Hk : snd (wstep (FA h) (wseed (FA h)) (NF x)) = 1%Z) by reflexivity.
    destruct (nn_states h r _ H0 Hr) as (A1 & A2 & A3); [rewrite Hk; cbn [length] in Hb; lia|exact Hfr|].
    unfold variance_run, scan_run. destruct reduce.
    + cbn [map fold_left]. constructor; [|constructor]. apply nn_out; assumption.
    + cbn [map scan_states]. constructor.
      * apply nn_out; [exact H0|rewrite Hk; lia].
      * rewrite Forall_map. eapply Forall_impl; [|exact A1]. intros st (N1 & N2). apply nn_out; assumption.
Qed.

Theorem float_stddev_defined (h : hints) (l : list pfloat) (reduce : bool) :
  Forall ffin l -> (Z.of_nat (length l) < 2 ^ 53)%Z ->
  Forall state_fin (scan_states (wstep (FA h)) (wseed (FA h)) (map NF l)) ->
  Forall (fun v => exists f, v = NF f /\ ffin f /\ 0 <= FR f) (stddev_run (FA h) reduce (map NF l)).
Proof.
  intros Hl Hb Hf. unfold stddev_run. rewrite Forall_map.
  eapply Forall_impl; [|apply (float_variance_nonneg h l reduce Hl Hb Hf)].
  intros v (f & -> & Ff & Ef). cbn [sqrt FA nsqrt to_f].
  destruct (sqrt_fwd f Ff Ef) as (Fq & Eq).
  exists (Coq.Floats.PrimFloat.sqrt f). split; [reflexivity|]. split; [exact Fq|].
  rewrite Eq. apply RND_nonneg. apply sqrt_pos.
Qed.
