(* Proofs about the generic accumulators of Exact.v:
   - structural facts valid at EVERY arithmetic (scan = fold over prefixes; last running value = reduce value),
   - correctness at exact rational arithmetic (instance QA). *)
From Coq Require Import List ZArith Bool QArith Qcanon Lia.
From RxVerif Require Import Math.Exact.
Import ListNotations.

(* ---------------------------------------------------------------------------------------------------- *)
(* lists                                                                                                  *)
(* ---------------------------------------------------------------------------------------------------- *)
Lemma last_indep {X} (l : list X) (d d' : X) : l <> [] -> last l d = last l d'.
Proof.
  induction l as [|a l IH]; intros H; [congruence|].
  destruct l as [|b l]; [reflexivity|].
  change (last (b :: l) d = last (b :: l) d'). apply IH. discriminate.
Qed.

Lemma last_map_ne {X Y} (f : X -> Y) (l : list X) (d : Y) (d' : X) :
  l <> [] -> last (map f l) d = f (last l d').
Proof.
  induction l as [|a l IH]; intros H; [congruence|].
  destruct l as [|b l]; [reflexivity|].
  change (last (map f (b :: l)) d = f (last (b :: l) d')). apply IH. discriminate.
Qed.

Lemma Forall2_map_same {X Y Z'} (R : Y -> Z' -> Prop) (f : X -> Y) (g : X -> Z') (l : list X) :
  (forall x, In x l -> R (f x) (g x)) -> Forall2 R (map f l) (map g l).
Proof.
  induction l as [|a l IH]; intros H; simpl; constructor.
  - apply H. left. reflexivity.
  - apply IH. intros x Hx. apply H. right. exact Hx.
Qed.

Lemma zlen_cons {X} (a : X) (l : list X) : zlen (a :: l) = (zlen l + 1)%Z.
Proof. unfold zlen. simpl length. lia. Qed.

Lemma zlen_app1 {X} (l : list X) (a : X) : zlen (l ++ [a]) = (zlen l + 1)%Z.
Proof. unfold zlen. rewrite app_length. simpl. lia. Qed.

Lemma zlen_nonneg {X} (l : list X) : (0 <= zlen l)%Z.
Proof. unfold zlen. lia. Qed.

Lemma zlen_pos {X} (l : list X) : l <> [] -> (0 < zlen l)%Z.
Proof. destruct l; [congruence|]. intros _. rewrite zlen_cons. pose proof (zlen_nonneg l). lia. Qed.

Lemma firstn_nonempty {X} (l : list X) (i : nat) : In i (seq 1 (length l)) -> firstn i l <> [].
Proof.
  intros H. apply in_seq in H. destruct i as [|i]; [lia|].
  destruct l as [|a l]; [simpl in H; lia|]. simpl. discriminate.
Qed.

Lemma mapi_from_const {X Y} (g : X -> Y) (l : list X) (i : Z) : mapi_from (fun _ v => g v) i l = map g l.
Proof. revert i. induction l as [|a l IH]; intros i; simpl; [reflexivity|]. rewrite IH. reflexivity. Qed.

(* ---------------------------------------------------------------------------------------------------- *)
(* scan, at any state/item type                                                                           *)
(* ---------------------------------------------------------------------------------------------------- *)
Section ScanFacts.
  Context {St It : Type}.
  Variable step : St -> It -> St.

  Lemma scan_states_length (xs : list It) (st : St) : length (scan_states step st xs) = length xs.
  Proof. revert st. induction xs as [|x r IH]; intros st; simpl; [reflexivity|]. rewrite IH. reflexivity. Qed.

  (* the state emitted after the i-th item is the fold over the first i items *)
  Lemma scan_states_prefixes (xs : list It) (st : St) :
    scan_states step st xs = map (fun i => fold_left step (firstn i xs) st) (seq 1 (length xs)).
  Proof.
    revert st. induction xs as [|x r IH]; intros st; [reflexivity|].
    simpl scan_states. simpl length. simpl seq. simpl map. f_equal.
    rewrite IH. rewrite <- (seq_shift (length r) 1). rewrite map_map. reflexivity.
  Qed.

  Lemma scan_states_last (xs : list It) (st d : St) : xs <> [] -> last (scan_states step st xs) d = fold_left step xs st.
  Proof.
    revert st. induction xs as [|x r IH]; intros st H; [congruence|].
    destruct r as [|y r]; [reflexivity|].
    change (last (scan_states step (step st x) (y :: r)) d = fold_left step (y :: r) (step st x)).
    apply IH. discriminate.
  Qed.

  Lemma scan_states_nonempty (xs : list It) (st : St) : xs <> [] -> scan_states step st xs <> [].
  Proof. destruct xs; [congruence|]. simpl. discriminate. Qed.

  (* what is emitted at completion with reduce=True is what was emitted last with reduce=False *)
  Lemma scan_run_last {O} (f : St -> O) (seed : St) (xs : list It) (d : O) :
    xs <> [] -> map f (scan_run step seed true xs) = [last (map f (scan_run step seed false xs)) d].
  Proof.
    intros H. unfold scan_run. simpl map.
    rewrite (last_map_ne f _ d seed) by (apply scan_states_nonempty; exact H).
    rewrite scan_states_last by exact H. reflexivity.
  Qed.
End ScanFacts.

(* the streaming value after the last item equals the reduce value: every aggregate, EVERY arithmetic *)
Section LastIsReduce.
  Variable A : arith.

  Lemma map_id' {X} (l : list X) : map (fun x => x) l = l.
  Proof. apply map_id. Qed.

  Lemma sum_last xs d : xs <> [] -> sum_run A true xs = [last (sum_run A false xs) d].
  Proof.
    intros H. unfold sum_run.
    pose proof (scan_run_last (sum_step A) (fun x => x) (fzero A) xs d H) as E.
    rewrite !map_id' in E. exact E.
  Qed.
  Lemma mean_last xs d : xs <> [] -> mean_run A true xs = [last (mean_run A false xs) d].
  Proof. intros H. unfold mean_run. apply scan_run_last. exact H. Qed.
  Lemma min_last xs d : xs <> [] -> min_run A true xs = [last (min_run A false xs) d].
  Proof.
    intros H. unfold min_run.
    pose proof (scan_run_last (min_step A) (fun x => x) None xs d H) as E.
    rewrite !map_id' in E. exact E.
  Qed.
  Lemma max_last xs d : xs <> [] -> max_run A true xs = [last (max_run A false xs) d].
  Proof.
    intros H. unfold max_run.
    pose proof (scan_run_last (max_step A) (fun x => x) None xs d H) as E.
    rewrite !map_id' in E. exact E.
  Qed.
  Lemma variance_last xs d : xs <> [] -> variance_run A true xs = [last (variance_run A false xs) d].
  Proof. intros H. unfold variance_run. apply scan_run_last. exact H. Qed.
  Lemma fvariance_last xs d : xs <> [] -> fvariance_run A true xs = [last (fvariance_run A false xs) d].
  Proof. intros H. unfold fvariance_run. apply scan_run_last. exact H. Qed.
  Lemma stddev_last xs d : xs <> [] -> stddev_run A true xs = [last (stddev_run A false xs) d].
  Proof.
    intros H. unfold stddev_run, variance_run. rewrite !map_map.
    apply (scan_run_last (wstep A) (fun x => sqrt A (wout A x))). exact H.
  Qed.
  Lemma fstddev_last xs d : xs <> [] -> fstddev_run A true xs = [last (fstddev_run A false xs) d].
  Proof.
    intros H. unfold fstddev_run, fvariance_run. rewrite !map_map.
    apply (scan_run_last (fvar_step A) (fun x => sqrt A (fvar_out A x))). exact H.
  Qed.

  Lemma last_is_reduce_all (xs : list (T A)) :
    xs <> [] ->
    (forall d, sum_run A true xs = [last (sum_run A false xs) d]) /\
    (forall d, mean_run A true xs = [last (mean_run A false xs) d]) /\
    (forall d, min_run A true xs = [last (min_run A false xs) d]) /\
    (forall d, max_run A true xs = [last (max_run A false xs) d]) /\
    (forall d, variance_run A true xs = [last (variance_run A false xs) d]) /\
    (forall d, stddev_run A true xs = [last (stddev_run A false xs) d]) /\
    (forall d, fvariance_run A true xs = [last (fvariance_run A false xs) d]) /\
    (forall d, fstddev_run A true xs = [last (fstddev_run A false xs) d]).
  Proof.
    intros H.
    refine (conj _ (conj _ (conj _ (conj _ (conj _ (conj _ (conj _ _))))))); intros d.
    - apply sum_last; exact H.
    - apply mean_last; exact H.
    - apply min_last; exact H.
    - apply max_last; exact H.
    - apply variance_last; exact H.
    - apply stddev_last; exact H.
    - apply fvariance_last; exact H.
    - apply fstddev_last; exact H.
  Qed.

  (* one value per item with reduce=False, one value in all with reduce=True *)
  Lemma variance_run_length xs : length (variance_run A false xs) = length xs /\ length (variance_run A true xs) = 1%nat.
  Proof. unfold variance_run, scan_run. rewrite map_length, scan_states_length. split; reflexivity. Qed.
End LastIsReduce.

(* ---------------------------------------------------------------------------------------------------- *)
(* exact rational arithmetic                                                                              *)
(* ---------------------------------------------------------------------------------------------------- *)
Open Scope Qc_scope.

Lemma qz_add (a b : Z) : qz (a + b) = qz a + qz b.
Proof.
  unfold qz, Qcplus. apply Q2Qc_eq_iff. unfold Q2Qc. cbn [this].
  rewrite !Qred_correct. rewrite inject_Z_plus. reflexivity.
Qed.
Lemma qz_0 : qz 0 = 0.
Proof. reflexivity. Qed.
Lemma qz_1 : qz 1 = 1.
Proof. reflexivity. Qed.
Lemma qz_succ (a : Z) : qz (a + 1) = qz a + 1.
Proof. rewrite qz_add, qz_1. reflexivity. Qed.
Lemma qz_nonzero (z : Z) : z <> 0%Z -> qz z <> 0.
Proof.
  intros H E. unfold qz in E. change 0 with (Q2Qc 0) in E. apply Q2Qc_eq_iff in E.
  unfold Qeq in E. simpl in E. lia.
Qed.

Lemma qltb_true (a b : Qc) : qltb a b = true -> a < b.
Proof.
  unfold qltb. intros H. apply (proj2 (Qclt_alt a b)). destruct (a ?= b); congruence.
Qed.
Lemma qltb_false (a b : Qc) : qltb a b = false -> b <= a.
Proof.
  unfold qltb. intros H. apply Qcnot_lt_le. intros L. pose proof (proj1 (Qclt_alt a b) L) as L'.
  rewrite L' in H. discriminate.
Qed.

Definition qsq (l : list Qc) : Qc := qsum (map (fun x => x * x) l).

Lemma qsum_app (l r : list Qc) : qsum (l ++ r) = qsum l + qsum r.
Proof. induction l as [|a l IH]; simpl; [ring|]. rewrite IH. ring. Qed.
Lemma qsq_app (l r : list Qc) : qsq (l ++ r) = qsq l + qsq r.
Proof. unfold qsq. rewrite map_app. apply qsum_app. Qed.

Lemma qlen_cons (a : Qc) (l : list Qc) : qlen (a :: l) = qlen l + 1.
Proof. unfold qlen. rewrite zlen_cons. apply qz_succ. Qed.
Lemma qlen_app1 (l : list Qc) (a : Qc) : qlen (l ++ [a]) = qlen l + 1.
Proof. unfold qlen. rewrite zlen_app1. apply qz_succ. Qed.
Lemma qlen_nonzero (l : list Qc) : l <> [] -> qlen l <> 0.
Proof. intros H. apply qz_nonzero. pose proof (zlen_pos l H). lia. Qed.

(* sum of squared deviations, expanded *)
Lemma ssd_expand (l : list Qc) (c : Qc) : ssd l c = qsq l - (1 + 1) * c * qsum l + qlen l * c * c.
Proof.
  induction l as [|a l IH].
  - unfold ssd, qsq, qlen. simpl map. simpl qsum. change (zlen (@nil Qc)) with 0%Z. rewrite qz_0. ring.
  - unfold ssd in *. unfold qsq in *. simpl map. simpl qsum. rewrite IH. rewrite qlen_cons. ring.
Qed.

Section ExactInstance.
  Variable sq : Qc -> Qc.
  Notation A := (QA sq).

  (* ---- sum ---- *)
  Lemma sum_fold (xs : list Qc) (a : Qc) : fold_left (sum_step A) xs a = a + qsum xs.
  Proof.
    revert a. induction xs as [|x r IH]; intros a; simpl; [ring|].
    rewrite IH. unfold sum_step. simpl. ring.
  Qed.

  Lemma sum_running (xs : list Qc) : sum_run A false xs = running qsum xs.
  Proof.
    unfold sum_run, scan_run, running. rewrite scan_states_prefixes. apply map_ext. intros i.
    rewrite sum_fold. simpl. ring.
  Qed.
  Lemma sum_reduce (xs : list Qc) : sum_run A true xs = [qsum xs].
  Proof. unfold sum_run, scan_run. rewrite sum_fold. simpl. f_equal. ring. Qed.

  (* ---- mean ---- *)
  Lemma mean_fold (xs : list Qc) (a : Qc) (k : Z) :
    fold_left (mean_step A) xs (a, k) = (a + qsum xs, (k + zlen xs)%Z).
  Proof.
    revert a k. induction xs as [|x r IH]; intros a k.
    - simpl. f_equal; [ring | unfold zlen; simpl; lia].
    - simpl fold_left. unfold mean_step at 2. simpl fst. simpl snd. rewrite IH. rewrite zlen_cons.
      simpl. f_equal; [ring | lia].
  Qed.

  Lemma mean_of_fold (l : list Qc) : l <> [] -> mean_out A (fold_left (mean_step A) l (mean_seed A)) = Some (qmean l).
  Proof.
    intros H. unfold mean_seed. rewrite mean_fold. unfold mean_out. simpl fst. simpl snd.
    pose proof (zlen_pos l H) as P.
    destruct (Z.eqb_spec (zlen l) 0) as [E|_]; [lia|].
    f_equal. change ((qz 0 + qsum l) / qz (zlen l) = qsum l / qz (zlen l)). rewrite qz_0.
    field. apply qz_nonzero. lia.
  Qed.

  Lemma mean_running (xs : list Qc) : mean_run A false xs = running (fun l => Some (qmean l)) xs.
  Proof.
    unfold mean_run, scan_run, running. rewrite scan_states_prefixes. rewrite map_map.
    apply map_ext_in. intros i Hi. apply mean_of_fold. apply firstn_nonempty. exact Hi.
  Qed.
  Lemma mean_reduce (xs : list Qc) : xs <> [] -> mean_run A true xs = [Some (qmean xs)].
  Proof. intros H. unfold mean_run, scan_run. simpl map. rewrite mean_of_fold by exact H. reflexivity. Qed.
  Lemma mean_reduce_empty : mean_run A true [] = [None].
  Proof. reflexivity. Qed.

  (* ---- min / max ---- *)
  Lemma min_fold (xs : list Qc) (a : Qc) :
    exists m : Qc, fold_left (min_step A) xs (Some a) = Some m /\ In m (a :: xs) /\ m <= a /\ Forall (fun x => m <= x) xs.
  Proof.
    revert a. induction xs as [|x r IH]; intros a.
    - exists a. simpl. repeat split; auto. apply Qcle_refl.
    - simpl fold_left.
      destruct (qltb x a) eqn:E.
      + apply qltb_true in E. destruct (IH x) as (m & F & I & L & Fa).
        exists m. split; [exact F|]. split; [right; exact I|]. split.
        * apply Qclt_le_weak. eapply Qcle_lt_trans; eassumption.
        * constructor; assumption.
      + apply qltb_false in E. destruct (IH a) as (m & F & I & L & Fa).
        exists m. split; [exact F|]. split.
        * destruct I as [I|I]; [left; exact I | right; right; exact I].
        * split; [exact L|]. constructor; [eapply Qcle_trans; eassumption | exact Fa].
  Qed.

  Lemma max_fold (xs : list Qc) (a : Qc) :
    exists m : Qc, fold_left (max_step A) xs (Some a) = Some m /\ In m (a :: xs) /\ a <= m /\ Forall (fun x => x <= m) xs.
  Proof.
    revert a. induction xs as [|x r IH]; intros a.
    - exists a. simpl. repeat split; auto. apply Qcle_refl.
    - simpl fold_left.
      destruct (qltb a x) eqn:E.
      + apply qltb_true in E. destruct (IH x) as (m & F & I & L & Fa).
        exists m. split; [exact F|]. split; [right; exact I|]. split.
        * apply Qclt_le_weak. eapply Qclt_le_trans; eassumption.
        * constructor; assumption.
      + apply qltb_false in E. destruct (IH a) as (m & F & I & L & Fa).
        exists m. split; [exact F|]. split.
        * destruct I as [I|I]; [left; exact I | right; right; exact I].
        * split; [exact L|]. constructor; [eapply Qcle_trans; eassumption | exact Fa].
  Qed.

  Lemma min_of_fold (l : list Qc) : l <> [] -> exists m : Qc, fold_left (min_step A) l None = Some m /\ is_min l m.
  Proof.
    destruct l as [|a r]; [congruence|]. intros _. simpl fold_left.
    destruct (min_fold r a) as (m & F & I & L & Fa). exists m. split; [exact F|].
    split; [exact I|]. constructor; assumption.
  Qed.
  Lemma max_of_fold (l : list Qc) : l <> [] -> exists m : Qc, fold_left (max_step A) l None = Some m /\ is_max l m.
  Proof.
    destruct l as [|a r]; [congruence|]. intros _. simpl fold_left.
    destruct (max_fold r a) as (m & F & I & L & Fa). exists m. split; [exact F|].
    split; [exact I|]. constructor; assumption.
  Qed.

  Lemma min_running (xs : list Qc) :
    Forall2 (fun l o => exists m : Qc, o = Some m /\ is_min l m) (running (fun l => l) xs) (min_run A false xs).
  Proof.
    unfold min_run, scan_run, running. rewrite scan_states_prefixes.
    apply Forall2_map_same. intros i Hi. apply min_of_fold. apply firstn_nonempty. exact Hi.
  Qed.
  Lemma max_running (xs : list Qc) :
    Forall2 (fun l o => exists m : Qc, o = Some m /\ is_max l m) (running (fun l => l) xs) (max_run A false xs).
  Proof.
    unfold max_run, scan_run, running. rewrite scan_states_prefixes.
    apply Forall2_map_same. intros i Hi. apply max_of_fold. apply firstn_nonempty. exact Hi.
  Qed.
  Lemma min_reduce (xs : list Qc) : xs <> [] -> exists m : Qc, min_run A true xs = [Some m] /\ is_min xs m.
  Proof.
    intros H. destruct (min_of_fold xs H) as (m & F & M). exists m. split; [|exact M].
    unfold min_run, scan_run. rewrite F. reflexivity.
  Qed.
  Lemma max_reduce (xs : list Qc) : xs <> [] -> exists m : Qc, max_run A true xs = [Some m] /\ is_max xs m.
  Proof.
    intros H. destruct (max_of_fold xs H) as (m & F & M). exists m. split; [|exact M].
    unfold max_run, scan_run. rewrite F. reflexivity.
  Qed.
  Lemma minmax_reduce_empty : min_run A true [] = [None] /\ max_run A true [] = [None].
  Proof. split; reflexivity. Qed.

  (* ---- Welford ---- *)
  (* invariant, in the division-free form: m * n = sum, s = sum of squares - n * m^2 *)
  Lemma welford_steps (r p : list Qc) (m s : Qc) :
    p <> [] -> m * qlen p = qsum p -> s = qsq p - qlen p * m * m ->
    exists m' s' : Qc, fold_left (wstep A) r (Some m, s, zlen p) = (Some m', s', zlen (p ++ r))
                  /\ m' * qlen (p ++ r) = qsum (p ++ r) /\ s' = qsq (p ++ r) - qlen (p ++ r) * m' * m'.
  Proof.
    revert p m s. induction r as [|x r IH]; intros p m s Hp Hm Hs.
    - exists m, s. rewrite app_nil_r. simpl. auto.
    - simpl fold_left.
      assert (Hk : zlen (p ++ [x]) = (zlen p + 1)%Z) by apply zlen_app1.
      assert (Hn : qz (zlen p + 1) = qlen p + 1) by (unfold qlen; apply qz_succ).
      assert (Hnz : qlen p + 1 <> 0).
      { rewrite <- Hn. apply qz_nonzero. pose proof (zlen_nonneg p). lia. }
      rewrite Hn. rewrite <- Hk.
      replace (p ++ x :: r) with ((p ++ [x]) ++ r) by (rewrite <- app_assoc; reflexivity).
      apply IH.
      + destruct p; discriminate.
      + rewrite qlen_app1, qsum_app. simpl qsum. rewrite <- Hm. field. exact Hnz.
      + rewrite qlen_app1, qsq_app. unfold qsq at 2. simpl map. simpl qsum. rewrite Hs. field. exact Hnz.
  Qed.

  Lemma welford_state (xs : list Qc) :
    xs <> [] ->
    exists m s : Qc, fold_left (wstep A) xs (wseed A) = (Some m, s, zlen xs)
                /\ m * qlen xs = qsum xs /\ s = ssd xs m.
  Proof.
    destruct xs as [|a r]; [congruence|]. intros _.
    simpl fold_left.
    change (0 + 1)%Z with (zlen [a]).
    destruct (welford_steps r [a] a (qz 0)) as (m & s & F & Hm & Hs).
    - discriminate.
    - unfold qlen. change (zlen [a]) with 1%Z. rewrite qz_1. simpl qsum. ring.
    - unfold qlen, qsq. change (zlen [a]) with 1%Z. rewrite qz_1, qz_0. simpl map. simpl qsum. ring.
    - exists m, s. change ([a] ++ r) with (a :: r) in *. split; [exact F|]. split; [exact Hm|].
      rewrite ssd_expand. rewrite <- Hm. rewrite Hs. ring.
  Qed.

  Lemma variance_of_fold (l : list Qc) : wout A (fold_left (wstep A) l (wseed A)) = sample_var l.
  Proof.
    destruct l as [|a r] eqn:El.
    - reflexivity.
    - rewrite <- El. assert (H : l <> []) by (rewrite El; discriminate).
      destruct (welford_state l H) as (m & s & F & Hm & Hs). rewrite F.
      unfold wout, sample_var. destruct (zlen l <? 2)%Z; [reflexivity|].
      simpl. f_equal. rewrite Hs. f_equal. unfold qmean. rewrite <- Hm. field. apply qlen_nonzero. exact H.
  Qed.

  Lemma variance_running (xs : list Qc) : variance_run A false xs = running sample_var xs.
  Proof.
    unfold variance_run, scan_run, running. rewrite scan_states_prefixes, map_map.
    apply map_ext. intros i. apply variance_of_fold.
  Qed.
  Lemma variance_reduce (xs : list Qc) : variance_run A true xs = [sample_var xs].
  Proof. unfold variance_run, scan_run. simpl map. rewrite variance_of_fold. reflexivity. Qed.
  Lemma variance_lt2 (xs : list Qc) : (length xs < 2)%nat -> variance_run A true xs = [0].
  Proof.
    intros H. rewrite variance_reduce. unfold sample_var.
    destruct (Z.ltb_spec (zlen xs) 2) as [_|G]; [reflexivity|]. unfold zlen in G. lia.
  Qed.

  Lemma stddev_running (xs : list Qc) : stddev_run A false xs = running (fun l => sq (sample_var l)) xs.
  Proof. unfold stddev_run. rewrite variance_running. unfold running. rewrite map_map. reflexivity. Qed.
  Lemma stddev_reduce (xs : list Qc) : stddev_run A true xs = [sq (sample_var xs)].
  Proof. unfold stddev_run. rewrite variance_reduce. reflexivity. Qed.

  (* ---- formal (two-pass, population) variance ---- *)
  Lemma fvar_fold (xs acc : list Qc) : fold_left (fvar_step A) xs acc = acc ++ xs.
  Proof.
    revert acc. induction xs as [|x r IH]; intros acc; simpl; [rewrite app_nil_r; reflexivity|].
    rewrite IH. unfold fvar_step. rewrite <- app_assoc. reflexivity.
  Qed.

  Lemma moment1_exact (l : list Qc) : moment1 A l = qmean l.
  Proof.
    unfold moment1, qmean, qlen. simpl.
    replace (map (fun v : Qc => v - qz 0) l) with l; [reflexivity|].
    rewrite <- (map_id l) at 1. apply map_ext. intros v. rewrite qz_0. ring.
  Qed.
  Lemma moment2_exact (l : list Qc) (c : Qc) : moment2 A l c = ssd l c / qlen l.
  Proof. unfold moment2, ssd, qlen. simpl. rewrite mapi_from_const. reflexivity. Qed.

  Lemma fvar_out_exact (l : list Qc) : fvar_out A l = pop_var l.
  Proof.
    unfold fvar_out, pop_var. change (@zlen (T A) l) with (@zlen Qc l). destruct (zlen l =? 0)%Z; [reflexivity|].
    rewrite moment1_exact, moment2_exact. reflexivity.
  Qed.

  Lemma fvariance_running (xs : list Qc) : fvariance_run A false xs = running pop_var xs.
  Proof.
    unfold fvariance_run, scan_run, running. rewrite scan_states_prefixes, map_map.
    apply map_ext. intros i. rewrite fvar_fold. simpl. apply fvar_out_exact.
  Qed.
  Lemma fvariance_reduce (xs : list Qc) : fvariance_run A true xs = [pop_var xs].
  Proof. unfold fvariance_run, scan_run. simpl map. rewrite fvar_fold. simpl. rewrite fvar_out_exact. reflexivity. Qed.
  Lemma fstddev_running (xs : list Qc) : fstddev_run A false xs = running (fun l => sq (pop_var l)) xs.
  Proof. unfold fstddev_run. rewrite fvariance_running. unfold running. rewrite map_map. reflexivity. Qed.
  Lemma fstddev_reduce (xs : list Qc) : fstddev_run A true xs = [sq (pop_var xs)].
  Proof. unfold fstddev_run. rewrite fvariance_reduce. reflexivity. Qed.
End ExactInstance.
