(* The CPython-number instance of the arithmetic of Exact.v: a number is an int (Z) or a binary64 float
   (kernel primitive PrimFloat.float).  Mixed operations follow CPython: int op int is exact integer
   arithmetic (except /), anything involving a float converts the int operand with float(int).
   `<agg>_run (FA hints)` is what the correspondence compares BIT-EXACTLY with the values rxsci emitted.
   No proofs in this file; only PrimFloat / Uint63 / FloatOps are imported (no axioms). *)
From Coq Require Import List ZArith Bool Uint63 PrimFloat FloatOps.
From RxVerif Require Import Math.Exact.
Import ListNotations.

Inductive num := NI (z : Z) | NF (f : float).

(* float(int); exact for |z| <= 2^53, correctly rounded for |z| < 2^63 (assumption of the model: the
   generators keep every int and every int partial sum below 2^53 in magnitude) *)
Definition f_of_Z (z : Z) : float :=
  if (z <? 0)%Z then (- of_uint63 (Uint63.of_Z (- z)))%float else of_uint63 (Uint63.of_Z z).

Definition to_f (n : num) : float := match n with NI z => f_of_Z z | NF f => f end.

Definition nadd (a b : num) : num :=
  match a, b with NI x, NI y => NI (x + y) | _, _ => NF (to_f a + to_f b) end.
Definition nsub (a b : num) : num :=
  match a, b with NI x, NI y => NI (x - y) | _, _ => NF (to_f a - to_f b) end.
Definition nmul (a b : num) : num :=
  match a, b with NI x, NI y => NI (x * y) | _, _ => NF (to_f a * to_f b) end.
(* true division; int / int of operands below 2^53 is the float division of the converted operands
   (Objects/longobject.c long_true_divide, fast path) *)
Definition ndiv (a b : num) : num := NF (to_f a / to_f b).
Definition nltb (a b : num) : bool :=
  match a, b with NI x, NI y => (x <? y)%Z | _, _ => (to_f a <? to_f b)%float end.
Definition nsqrt (a : num) : num := NF (PrimFloat.sqrt (to_f a)).     (* math.sqrt: IEEE correctly rounded *)
Definition npow1 (a : num) : num := a.                      (* int ** 1, float ** 1 (libm pow(x, 1.0) = x) *)

(* bit-for-bit equality of floats (all NaNs are one value in Coq) *)
Definition fbits_eqb (a b : float) : bool := PrimFloat.Leibniz.eqb a b.

(* float ** 2 is libm pow(x, 2.0), which is NOT always the correctly rounded x*x (glibc: < 1 ulp).  Where
   CPython's value differs from x*x the harness supplies it as a hint ((n, i), value); the model accepts a hint
   only if it is x*x or one of its two neighbours, otherwise it answers NaN (a disagreement). *)
Definition hints : Type := list (Z * Z * float).
Fixpoint find_hint (h : hints) (n i : Z) : option float :=
  match h with
  | [] => None
  | (n', i', v) :: r => if ((n =? n') && (i =? i'))%Z then Some v else find_hint r n i
  end.
Definition within_ulp (v p : float) : bool :=
  fbits_eqb v p || fbits_eqb v (next_up p) || fbits_eqb v (next_down p).
Definition fpow2 (h : hints) (n i : Z) (d : float) : float :=
  let p := (d * d)%float in
  match find_hint h n i with
  | None => p
  | Some v => if within_ulp v p then v else nan
  end.
Definition npow2 (h : hints) (n i : Z) (a : num) : num :=
  match a with NI z => NI (z * z) | NF d => NF (fpow2 h n i d) end.

(* builtin sum(list) of CPython 3.12 (Python/bltinmodule.c builtin_sum_impl, start = int 0):
   ints are added exactly while only ints were seen; from the first float on, float items go through the
   Neumaier compensated summation, int items are added uncompensated; the compensation is added at the end
   when it is non-zero and finite. *)
Fixpoint sum_float (f c : float) (l : list num) : float :=
  match l with
  | [] => if negb (c =? 0)%float && is_finite c then (f + c)%float else f
  | NF x :: r =>
      let t := (f + x)%float in
      let c' := if (abs x <=? abs f)%float then (c + ((f - t) + x))%float else (c + ((x - t) + f))%float in
      sum_float t c' r
  | NI v :: r => sum_float (f + f_of_Z v)%float c r
  end.
Fixpoint sum_int (i : Z) (l : list num) : num :=
  match l with
  | [] => NI i
  | NI b :: r => sum_int (i + b) r
  | NF x :: r => NF (sum_float (f_of_Z i + x)%float zero r)
  end.
Definition npysum (l : list num) : num := sum_int 0 l.

Definition FA (h : hints) : arith :=
  mkArith num nadd nsub nmul ndiv nltb NI (NF zero) nsqrt npow1 (npow2 h) npysum.

(* ---- literals as transported from Python (float.hex -> integer mantissa and exponent) ---------------- *)
Inductive lit :=
| LI (z : Z)          (* a Python int *)
| LF (m e : Z)        (* the float m * 2^e, |m| < 2^53, exactly representable *)
| LNZ                 (* -0.0 *)
| LInf (neg : bool)
| LNaN
| LNone.              (* Python None (only as an output) *)

Definition num_of_lit (l : lit) : num :=
  match l with
  | LI z => NI z
  | LF m e => NF (Z.ldexp (f_of_Z m) e)
  | LNZ => NF neg_zero
  | LInf neg => NF (if neg then neg_infinity else infinity)
  | LNaN => NF nan
  | LNone => NF nan
  end.

Definition num_eqb (a b : num) : bool :=
  match a, b with
  | NI x, NI y => (x =? y)%Z
  | NF x, NF y => fbits_eqb x y
  | _, _ => false
  end.
(* an emitted value (possibly None) against the transported literal *)
Definition out_eqb (o : option num) (l : lit) : bool :=
  match o, l with
  | None, LNone => true
  | Some v, LNone => false
  | None, _ => false
  | Some v, _ => num_eqb v (num_of_lit l)
  end.
