(* C12, floating point: the forward error bound of WelfordErrorProofs.v carried through math.sqrt, for the values
   emitted by stddev_run (FA h) (Welford variance, then the correctly rounded binary64 square root).
   With var_k = sigma_k / (k-1) the exact sample variance of the first k items and
        V_k = Fb k / (k-1) (1 + u) + u var_k + eta            (the bound of welford_variance_error on |v_k - var_k|)
   the k-th emitted standard deviation g_k satisfies, for k >= 2,
        | g_k - sqrt var_k |  <=  sqrt V_k (1 + u) + u sqrt var_k
   and g_1 = 0.0.  No eta term is added by the square root: the square root of a positive binary64 number (even a
   subnormal one) is at least 2^-537, far above the subnormal range, so its rounding has a pure relative error. *)
From Coq Require Import List ZArith Reals Lra Lia Floats.
From Flocq Require Import Core BinarySingleNaN PrimFloat Relative.
From RxVerif Require Import Math.Exact Math.FloatModel Math.SumErrorProofs Math.MeanErrorProofs Math.FloatOpsProofs
  Math.VarianceNonnegProofs Math.WelfordReal Math.WelfordErrorProofs.
Import ListNotations.
Open Scope R_scope.

Notation rsqrt := R_sqrt.sqrt.
Notation fsqrt := Coq.Floats.PrimFloat.sqrt.

(* ---- real square root ---- *)
Lemma sqrt_sub_le (a b : R) : 0 <= b <= a -> rsqrt a - rsqrt b <= rsqrt (a - b).
Proof.
  intros [Hb Hab]. set (x := rsqrt b). set (y := rsqrt (a - b)).
  assert (Hx : 0 <= x) by apply sqrt_pos. assert (Hy : 0 <= y) by apply sqrt_pos.
  assert (Ex : x * x = b) by (apply sqrt_sqrt; lra).
  assert (Ey : y * y = a - b) by (apply sqrt_sqrt; lra).
  assert (H : rsqrt a <= rsqrt ((x + y) * (x + y))).
  { apply sqrt_le_1_alt. assert (0 <= x * y) by (apply Rmult_le_pos; assumption).
    replace ((x + y) * (x + y)) with (x * x + y * y + 2 * (x * y)) by ring. lra. }
  rewrite sqrt_square in H by lra. lra.
Qed.

Lemma sqrt_diff_abs (a b : R) : 0 <= a -> 0 <= b -> Rabs (rsqrt a - rsqrt b) <= rsqrt (Rabs (a - b)).
Proof.
  intros Ha Hb. destruct (Rle_or_lt b a) as [H|H].
  - assert (rsqrt b <= rsqrt a) by (apply sqrt_le_1_alt; exact H).
    rewrite (Rabs_pos_eq (a - b)) by lra. rewrite Rabs_pos_eq by lra. apply sqrt_sub_le. lra.
  - assert (rsqrt a <= rsqrt b) by (apply sqrt_le_1_alt; lra).
    rewrite (Rabs_minus_sym a b), (Rabs_minus_sym (rsqrt a) (rsqrt b)).
    rewrite (Rabs_pos_eq (b - a)) by lra. rewrite Rabs_pos_eq by lra. apply sqrt_sub_le. lra.
Qed.

(* ---- rounding the square root of a binary64 number: relative error only ---- *)
Lemma RND_sqrt_err (x : R) : F64 x -> 0 <= x -> Rabs (RND (rsqrt x) - rsqrt x) <= u53 * rsqrt x.
Proof.
  intros Fx Hx. destruct (Req_dec x 0) as [->|Hne].
  - rewrite sqrt_0, RND_0. replace (0 - 0) with 0 by ring. rewrite Rabs_R0. lra.
  - assert (Hpos : 0 < x) by lra.
    assert (Hmin : bpow radix2 emin64 <= x).
    { apply (generic_format_ge_bpow radix2 fexp64 emin64); [|exact Hpos|exact Fx].
      intro e. unfold FLT_exp, emin64. apply Z.le_max_r. }
    assert (Hs : bpow radix2 (emin64 + prec - 1) <= rsqrt x).
    { apply Rle_trans with (bpow radix2 (emin64 / 2)).
      - apply bpow_le. apply Zle_bool_imp_le. reflexivity.
      - eapply Rle_trans; [apply sqrt_bpow_ge|]. apply sqrt_le_1_alt. exact Hmin. }
    assert (Hbig : bpow radix2 (emin64 + prec - 1) <= Rabs (rsqrt x)).
    { rewrite Rabs_pos_eq by apply sqrt_pos. exact Hs. }
    assert (EN : Rabs (RND (rsqrt x) - rsqrt x) <= u53 * Rabs (rsqrt x)).
    { exact (@relative_error_N_FLT radix2 emin64 prec Hprec (fun z => negb (Z.even z)) (rsqrt x) Hbig). }
    rewrite (Rabs_pos_eq (rsqrt x)) in EN by apply sqrt_pos. exact EN.
Qed.

(* ---- one emitted value: the float square root of an approximate variance ---- *)
Lemma sqrt_out_err (f : pfloat) (var V : R) :
  ffin f -> 0 <= FR f -> 0 <= var -> Rabs (FR f - var) <= V ->
  ffin (fsqrt f) /\ 0 <= FR (fsqrt f)
  /\ Rabs (FR (fsqrt f) - rsqrt var) <= rsqrt V * (1 + u53) + u53 * rsqrt var.
Proof.
  intros Ff Pf Hvar HV. destruct (sqrt_fwd f Ff Pf) as (Fg & Eg).
  split; [exact Fg|]. split; [rewrite Eg; apply RND_nonneg, sqrt_pos|]. rewrite Eg.
  set (s := rsqrt (FR f)) in *.
  assert (H1 : Rabs (s - rsqrt var) <= rsqrt V).
  { eapply Rle_trans; [apply sqrt_diff_abs; assumption|]. apply sqrt_le_1_alt. exact HV. }
  pose proof (RND_sqrt_err (FR f) (F64_FR f) Pf) as H2. fold s in H2.
  pose proof u53_pos as U. pose proof (sqrt_pos var) as Pv. pose proof (sqrt_pos V) as PV.
  assert (H3 : s <= rsqrt var + rsqrt V) by (apply Rabs_le_inv in H1; lra).
  assert (H4 : u53 * s <= u53 * (rsqrt var + rsqrt V)) by (apply Rmult_le_compat_l; assumption).
  replace (RND s - rsqrt var) with ((RND s - s) + (s - rsqrt var)) by ring.
  eapply Rle_trans; [apply Rabs_triang|]. lra.
Qed.

(* the exact sample variance of the first k items and the bound of welford_variance_error *)
Definition varR (xs : list R) (k : nat) : R := ssdR (firstn k xs) / INR (k - 1).
Definition wVb (A Rr : R) (xs : list R) (k : nat) : R :=
  wFb A Rr xs k / INR (k - 1) * (1 + u53) + u53 * varR xs k + eta64.

Lemma varR_nonneg (xs : list R) (k : nat) : (2 <= k)%nat -> 0 <= varR xs k.
Proof.
  intro H. unfold varR, Rdiv. apply Rmult_le_pos; [apply ssdR_nonneg|].
  apply Rlt_le, Rinv_0_lt_compat, lt_0_INR. lia.
Qed.

(* after exactly one item the emitted variance is the literal 0.0 *)
Lemma wout_one (lo hi A Rr : R) (h : hints) (pre : list R) (st : wstate (FA h)) :
  winv lo hi A Rr pre st -> length pre = 1%nat -> wout (FA h) st = NF zero.
Proof.
  destruct st as [[mo s] k]. intros (m & -> & Fm & Fs & Hs & Hk & _) H1.
  cbn [wout fzero FA]. rewrite Hk, H1. reflexivity.
Qed.

Lemma fsqrt_zero : fsqrt zero = zero.
Proof. reflexivity. Qed.

(* the value emitted by stddev for a state satisfying the invariant of WelfordErrorProofs.v *)
Lemma sout_err (lo hi A Rr : R) (h : hints) (pre : list R) (st : wstate (FA h)) :
  winv lo hi A Rr pre st -> (Z.of_nat (length pre) < 2 ^ 53)%Z ->
  exists g, sqrt (FA h) (wout (FA h) st) = NF g /\ ffin g /\ 0 <= FR g /\
    (length pre = 1%nat -> g = zero) /\
    ((2 <= length pre)%nat ->
      Rabs (FR g - rsqrt (ssdR pre / INR (length pre - 1)))
      <= rsqrt (wFb A Rr pre (length pre) / INR (length pre - 1) * (1 + u53)
                + u53 * (ssdR pre / INR (length pre - 1)) + eta64) * (1 + u53)
         + u53 * rsqrt (ssdR pre / INR (length pre - 1))).
Proof.
  intros Hw Hb. destruct (wout_err lo hi A Rr h pre st Hw Hb) as (f & Ef & Ff & Pf & B).
  rewrite Ef. cbn [sqrt FA nsqrt to_f]. exists (fsqrt f).
  destruct (sqrt_fwd f Ff Pf) as (Fg & Eg).
  split; [reflexivity|]. split; [exact Fg|]. split; [rewrite Eg; apply RND_nonneg, sqrt_pos|]. split.
  - intro H1. rewrite (wout_one lo hi A Rr h pre st Hw H1) in Ef. injection Ef as <-. apply fsqrt_zero.
  - intro H2. specialize (B H2).
    apply (sqrt_out_err f (ssdR pre / INR (length pre - 1))); try assumption.
    unfold Rdiv. apply Rmult_le_pos; [apply ssdR_nonneg|]. apply Rlt_le, Rinv_0_lt_compat, lt_0_INR. lia.
Qed.

(* ================= the theorems =================
   xs = map FR l the exact items, varR xs k = sigma_k / (k-1), wVb A R xs k = V_k (see the header). *)

(* streaming (reduce = False): the k-th emitted standard deviation is a finite float >= 0; it is 0.0 for k = 1 and
   for k >= 2 it is within sqrt V_k (1 + u) + u sqrt var_k of the exact sample standard deviation sqrt var_k *)
Theorem welford_stddev_error (h : hints) (l : list pfloat) (lo hi A Rr : R) :
  - A <= lo -> hi <= A -> hi - lo <= Rr ->
  Forall ffin l -> Forall (fun x => lo <= FR x <= hi) l -> (Z.of_nat (length l) < 2 ^ 53)%Z ->
  Forall state_fin (scan_states (wstep (FA h)) (wseed (FA h)) (map NF l)) ->
  Forall2 (fun (v : num) (k : nat) =>
             exists g, v = NF g /\ ffin g /\ 0 <= FR g /\
               (k = 1%nat -> g = zero) /\
               ((2 <= k)%nat ->
                Rabs (FR g - rsqrt (varR (map FR l) k))
                <= rsqrt (wVb A Rr (map FR l) k) * (1 + u53) + u53 * rsqrt (varR (map FR l) k)))
          (stddev_run (FA h) false (map NF l)) (seq 1 (length l)).
Proof.
  intros HloA HhiA HR Hl Hrg Hb Hf.
  pose proof (winv_states lo hi A Rr HloA HhiA HR h l Hl Hrg Hb Hf) as W.
  unfold stddev_run, variance_run, scan_run. rewrite map_map.
  eapply Forall2_map_in; [|exact W]. intros st k Hin Hw. apply in_seq in Hin.
  assert (Hlen : length (firstn k (map FR l)) = k) by (apply firstn_length_le; rewrite map_length; lia).
  destruct (sout_err lo hi A Rr h _ st Hw) as (g & Eg & Fg & Pg & Z1 & B); [rewrite Hlen; lia|].
  rewrite Hlen in Z1, B. rewrite wFb_firstn in B.
  exists g. repeat split; assumption.
Qed.

(* at completion (reduce = True): the single emitted value, against the sample standard deviation of the whole list *)
Theorem welford_stddev_reduce_error (h : hints) (l : list pfloat) (lo hi A Rr : R) :
  - A <= lo -> hi <= A -> hi - lo <= Rr -> l <> [] ->
  Forall ffin l -> Forall (fun x => lo <= FR x <= hi) l -> (Z.of_nat (length l) < 2 ^ 53)%Z ->
  Forall state_fin (scan_states (wstep (FA h)) (wseed (FA h)) (map NF l)) ->
  exists g, stddev_run (FA h) true (map NF l) = [NF g] /\ ffin g /\ 0 <= FR g /\
    (length l = 1%nat -> g = zero) /\
    ((2 <= length l)%nat ->
     Rabs (FR g - rsqrt (varR (map FR l) (length l)))
     <= rsqrt (wVb A Rr (map FR l) (length l)) * (1 + u53) + u53 * rsqrt (varR (map FR l) (length l))).
Proof.
  intros HloA HhiA HR Hne Hl Hrg Hb Hf.
  pose proof (winv_run lo hi A Rr HloA HhiA HR h l Hne Hl Hrg Hb Hf) as W.
  destruct (sout_err lo hi A Rr h _ _ W) as (g & Eg & Fg & Pg & Z1 & B); [rewrite map_length; lia|].
  rewrite map_length in Z1, B. exists g. unfold stddev_run, variance_run, scan_run. cbn [map]. rewrite Eg.
  unfold wVb, varR. rewrite (firstn_all2 (map FR l)) by (rewrite map_length; lia).
  repeat split; assumption.
Qed.
