(* C12, floating point: an ERROR BOUND for `mean` on binary64, for the very function the correspondence
   evaluates (mean_run (FA h)):   with n items, u = 2^-53, eta = 2^-1075,
     | fl_mean - (sum x_i) / n |  <=  ((1 + u)^(n+1) - 1) * (sum |x_i|) / n  +  eta
   provided no running sum and not the quotient overflows.  (recursive summation, Higham; one more rounding
   for the division, whose result may be subnormal: the absolute term eta.) *)
From Coq Require Import List ZArith Reals Lra Lia Floats.
From Flocq Require Import Core BinarySingleNaN PrimFloat Relative Plus_error.
From RxVerif Require Import Math.Exact Math.FloatModel Math.SumErrorProofs.
Import ListNotations.
Open Scope R_scope.

Notation pdiv := Coq.Floats.PrimFloat.div.
Definition eta64 : R := / 2 * bpow radix2 (3 - emax - prec).

Lemma f_of_Z_zero : f_of_Z 0 = zero.
Proof. reflexivity. Qed.

(* float(k) for 0 <= k < 2^53 is exact *)
Lemma f_of_Z_exact (z : Z) : (0 <= z < 2 ^ 53)%Z -> ffin (f_of_Z z) /\ FR (f_of_Z z) = IZR z.
Proof.
  intros Hz. unfold f_of_Z. destruct (z <? 0)%Z eqn:E; [apply Z.ltb_lt in E; lia|].
  assert (Hto : Uint63.to_Z (Uint63.of_Z z) = z).
  { rewrite Uint63.of_Z_spec. apply Z.mod_small. change Uint63.wB with (2 ^ 63)%Z. lia. }
  assert (Hgen : generic_format radix2 (FLT_exp (3 - emax - prec) prec) (IZR z)).
  { apply generic_format_FLT. exists (Float radix2 z 0).
    - unfold F2R. simpl. lra.
    - simpl. rewrite Z.abs_eq by lia. change (2 ^ prec)%Z with (2 ^ 53)%Z. lia.
    - simpl. unfold emax, prec. lia. }
  pose proof (binary_normalize_correct prec emax Hprec Hmax mode_NE z 0 false) as C.
  cbv zeta in C.
  assert (HF : F2R (Float radix2 z 0) = IZR z) by (unfold F2R; simpl; lra).
  rewrite HF in C. rewrite round_generic in C; [|apply valid_rnd_round_mode|exact Hgen].
  rewrite Rlt_bool_true in C.
  - destruct C as (C1 & C2 & _). split.
    + apply ffin_equiv. rewrite of_int63_equiv, Hto. exact C2.
    + unfold FR. rewrite of_int63_equiv, Hto. exact C1.
  - rewrite Rabs_pos_eq by (apply IZR_le; lia).
    apply Rlt_le_trans with (IZR (2 ^ 53)); [apply IZR_lt; lia|].
    change (bpow radix2 emax) with (IZR (Z.pow_pos 2 1024)). apply IZR_le. 
    change (Z.pow_pos 2 1024) with (2 ^ 1024)%Z. apply Z.pow_le_mono_r; lia.
Qed.

(* one floating-point division whose result is finite: (x / y)(1 + eps) + eta *)
Lemma div_finite_error (x y : pfloat) :
  ffin x -> ffin y -> FR y <> 0 -> ffin (x / y)%float ->
  exists eps eta, Rabs eps <= u53 /\ Rabs eta <= eta64 /\ FR (x / y)%float = FR x / FR y * (1 + eps) + eta.
Proof.
  intros Hx Hy Hy0 Hq. apply ffin_equiv in Hx, Hy, Hq. unfold FR in *.
  rewrite div_equiv in *.
  pose proof (Bdiv_correct prec emax Hprec Hmax mode_NE (Prim2B x) (Prim2B y) Hy0) as C.
  destruct (Rlt_bool _ _).
  - destruct C as (E & _). rewrite E.
    destruct (@relative_error_N_FLT'_ex radix2 (3 - emax - prec) prec Hprec (fun z => negb (Z.even z))
                (B2R (Prim2B x) / B2R (Prim2B y))) as (eps & eta & B1 & B2 & _ & Heq).
    exists eps, eta. split; [|split].
    + eapply Rle_trans; [exact B1|]. apply u_rod1pu_ro_le_u_ro.
    + exact B2.
    + exact Heq.
  - rewrite <- is_finite_SF_B2SF in Hq. rewrite C in Hq. simpl in Hq. discriminate.
Qed.

Lemma mean_bound (u G T n s S eps eta m : R) :
  0 <= u -> 1 <= G -> 0 <= T -> 0 < n -> Rabs S <= T ->
  Rabs (s - S) <= (G - 1) * T -> Rabs eps <= u -> m = s / n * (1 + eps) + eta ->
  Rabs (m - S / n) <= ((1 + u) * G - 1) * (T / n) + Rabs eta.
Proof.
  intros Hu HG HT Hn HS Hs He ->.
  replace (s / n * (1 + eps) + eta - S / n) with ((s - S) / n * (1 + eps) + S / n * eps + eta) by (field; lra).
  eapply Rle_trans; [apply Rabs_triang|]. apply Rplus_le_compat_r.
  eapply Rle_trans; [apply Rabs_triang|].
  assert (Hin : 0 < / n) by (apply Rinv_0_lt_compat; exact Hn).
  assert (A1 : Rabs ((s - S) / n * (1 + eps)) <= (G - 1) * T / n * (1 + u)).
  { rewrite Rabs_mult. apply Rmult_le_compat; try apply Rabs_pos.
    - unfold Rdiv. rewrite Rabs_mult. rewrite (Rabs_pos_eq (/ n)) by lra.
      apply Rmult_le_compat_r; [lra|exact Hs].
    - eapply Rle_trans; [apply Rabs_triang|]. rewrite Rabs_R1. lra. }
  assert (A2 : Rabs (S / n * eps) <= T / n * u).
  { rewrite Rabs_mult. apply Rmult_le_compat; try apply Rabs_pos; [|exact He].
    unfold Rdiv. rewrite Rabs_mult. rewrite (Rabs_pos_eq (/ n)) by lra.
    apply Rmult_le_compat_r; [lra|exact HS]. }
  replace (((1 + u) * G - 1) * (T / n)) with ((G - 1) * T / n * (1 + u) + T / n * u) by (field; lra).
  lra.
Qed.

Lemma sumR_abs_le (l : list pfloat) : Rabs (sumR (map FR l)) <= sumR (map (fun x => Rabs (FR x)) l).
Proof.
  induction l as [|a l IH]; simpl; [rewrite Rabs_R0; lra|].
  eapply Rle_trans; [apply Rabs_triang|]. lra.
Qed.

(* the model's mean on float items: the fold of the primitive addition from float(0), divided by float(n) *)
Lemma mean_fold_float (h : hints) (l : list pfloat) (acc : pfloat) (k : Z) :
  fold_left (mean_step (FA h)) (map NF l) (NF acc, k) = (NF (fold_left padd l acc), (k + Z.of_nat (length l))%Z).
Proof.
  revert acc k. induction l as [|x r IH]; intros acc k; [simpl; f_equal; lia|].
  cbn [map fold_left length]. unfold mean_step at 2. cbn [fst snd add FA nadd to_f]. rewrite IH. f_equal. lia.
Qed.
Lemma mean_run_float (h : hints) (x : pfloat) (r : list pfloat) :
  mean_run (FA h) true (map NF (x :: r))
  = [Some (NF (fold_left padd (x :: r) zero / f_of_Z (Z.of_nat (length (x :: r))))%float)].
Proof.
  unfold mean_run, scan_run. cbn [map fold_left]. unfold mean_seed, mean_step at 2.
  cbn [fst snd add FA nadd to_f of_int]. rewrite f_of_Z_zero.
  rewrite mean_fold_float. unfold mean_out. cbn [fst snd].
  replace (0 + 1 + Z.of_nat (length r))%Z with (Z.of_nat (length (x :: r))) by (cbn [length]; lia).
  destruct (Z.of_nat (length (x :: r)) =? 0)%Z eqn:E; [apply Z.eqb_eq in E; cbn [length] in E; lia|].
  reflexivity.
Qed.

Theorem float_mean_error (h : hints) (l : list pfloat) :
  l <> [] -> (Z.of_nat (length l) < 2 ^ 53)%Z ->
  Forall ffin l -> Forall ffin (scan_states padd zero l) ->
  ffin (fold_left padd l zero / f_of_Z (Z.of_nat (length l)))%float ->
  exists m, mean_run (FA h) true (map NF l) = [Some (NF m)]
            /\ Rabs (FR m - sumR (map FR l) / INR (length l))
               <= ((1 + u53) ^ S (length l) - 1) * (sumR (map (fun x => Rabs (FR x)) l) / INR (length l)) + eta64.
Proof.
  intros Hne Hn Hl Hs Hq. destruct l as [|x r]; [congruence|].
  set (l := x :: r) in *. set (n := Z.of_nat (length l)) in *.
  exists (fold_left padd l zero / f_of_Z n)%float. split; [apply mean_run_float|].
  assert (Hn0 : (0 <= n < 2 ^ 53)%Z) by (unfold n; lia).
  destruct (f_of_Z_exact n Hn0) as (Fn & En).
  assert (HnR : IZR n = INR (length l)) by (unfold n; rewrite <- INR_IZR_INZ; reflexivity).
  assert (Hpos : 0 < INR (length l)) by (apply lt_0_INR; unfold l; cbn [length]; lia).
  assert (Fs : ffin (fold_left padd l zero)).
  { clear - Hs. assert (G : forall (l : list pfloat) acc, ffin acc -> Forall ffin (scan_states padd acc l) -> ffin (fold_left padd l acc)).
    { induction l0 as [|a l0 IH]; intros acc Ha H; [exact Ha|]. cbn [scan_states] in H. inversion H; subst.
      cbn [fold_left]. apply IH; assumption. }
    apply G; [reflexivity|exact Hs]. }
  destruct (div_finite_error (fold_left padd l zero) (f_of_Z n) Fs Fn) as (eps & eta & Be & Bh & Eq).
  { rewrite En, HnR. lra. }
  { exact Hq. }
  pose proof (fsum_error l zero eq_refl Hl Hs) as B.
  rewrite FR_zero, Rabs_R0 in B.
  replace (0 + sumR (map FR l)) with (sumR (map FR l)) in B by ring.
  replace (0 + sumR (map (fun x => Rabs (FR x)) l)) with (sumR (map (fun x => Rabs (FR x)) l)) in B by ring.
  rewrite En, HnR in Eq.
  eapply Rle_trans.
  - apply (mean_bound u53 ((1 + u53) ^ length l) (sumR (map (fun x => Rabs (FR x)) l)) (INR (length l))
             (FR (fold_left padd l zero)) (sumR (map FR l)) eps eta).
    + apply u53_pos.
    + apply pow1u_ge1.
    + apply sumR_abs_nonneg.
    + exact Hpos.
    + apply sumR_abs_le.
    + exact B.
    + exact Be.
    + exact Eq.
  - cbn [pow]. lra.
Qed.

(* the same bound for every streaming value: the mean emitted after the i-th item is the mean of the first i items *)
Lemma scan_states_firstn {S I} (step : S -> I -> S) : forall (i : nat) (l : list I) (st : S),
  scan_states step st (firstn i l) = firstn i (scan_states step st l).
Proof.
  induction i as [|i IH]; intros l st; [reflexivity|]. destruct l as [|x r]; [reflexivity|].
  cbn [firstn scan_states]. f_equal. apply IH.
Qed.
Lemma Forall_firstn {X} (P : X -> Prop) (i : nat) (l : list X) : Forall P l -> Forall P (firstn i l).
Proof.
  revert l. induction i as [|i IH]; intros l H; [constructor|]. destruct l as [|x r]; [constructor|].
  inversion H; subst. cbn [firstn]. constructor; [assumption|apply IH; assumption].
Qed.
Lemma mean_run_prefixes (A : arith) (xs : list (T A)) :
  mean_run A false xs = map (fun i => mean_out A (fold_left (mean_step A) (firstn i xs) (mean_seed A))) (seq 1 (length xs)).
Proof.
  unfold mean_run, scan_run.
  assert (G : forall (xs : list (T A)) st, scan_states (mean_step A) st xs
                = map (fun i => fold_left (mean_step A) (firstn i xs) st) (seq 1 (length xs))).
  { induction xs0 as [|x r IH]; intros st; [reflexivity|].
    cbn [scan_states length seq map firstn fold_left]. f_equal.
    rewrite IH. rewrite <- (seq_shift (length r) 1). rewrite map_map. reflexivity. }
  rewrite G, map_map. reflexivity.
Qed.

Theorem float_mean_running_error (h : hints) (l : list pfloat) :
  (Z.of_nat (length l) < 2 ^ 53)%Z ->
  Forall ffin l -> Forall ffin (scan_states padd zero l) ->
  Forall (fun i => ffin (fold_left padd (firstn i l) zero / f_of_Z (Z.of_nat i))%float) (seq 1 (length l)) ->
  Forall2 (fun (v : option num) (i : nat) =>
             exists m, v = Some (NF m)
               /\ Rabs (FR m - sumR (map FR (firstn i l)) / INR i)
                  <= ((1 + u53) ^ S i - 1) * (sumR (map (fun x => Rabs (FR x)) (firstn i l)) / INR i) + eta64)
          (mean_run (FA h) false (map NF l)) (seq 1 (length l)).
Proof.
  intros Hn Hl Hs Hq. rewrite mean_run_prefixes, map_length.
  assert (G : forall (idx : list nat), Forall (fun i => 1 <= i <= length l)%nat idx ->
            Forall (fun i => ffin (fold_left padd (firstn i l) zero / f_of_Z (Z.of_nat i))%float) idx ->
            Forall2 (fun (v : option num) (i : nat) =>
             exists m, v = Some (NF m)
               /\ Rabs (FR m - sumR (map FR (firstn i l)) / INR i)
                  <= ((1 + u53) ^ S i - 1) * (sumR (map (fun x => Rabs (FR x)) (firstn i l)) / INR i) + eta64)
            (map (fun i => mean_out (FA h) (fold_left (mean_step (FA h)) (firstn i (map NF l)) (mean_seed (FA h)))) idx) idx).
  { induction idx as [|i idx IH]; intros Hr Hqs; [constructor|].
    inversion Hr as [|? ? Hi Hr']; subst. inversion Hqs as [|? ? Hqi Hqs']; subst.
    cbn [map]. constructor; [|apply IH; assumption].
    assert (Hlen : length (firstn i l) = i) by (apply firstn_length_le; lia).
    destruct (float_mean_error h (firstn i l)) as (m & Em & Bm).
    - intro E. rewrite E in Hlen. cbn in Hlen. lia.
    - rewrite Hlen. lia.
    - apply Forall_firstn. exact Hl.
    - rewrite scan_states_firstn. apply Forall_firstn. exact Hs.
    - rewrite Hlen. exact Hqi.
    - exists m. split; [|rewrite Hlen in Bm; exact Bm].
      unfold mean_run, scan_run in Em. cbn [map] in Em. rewrite firstn_map. congruence. }
  apply G; [|exact Hq].
  apply Forall_forall. intros i Hi. apply in_seq in Hi. lia.
Qed.
